import OasisModel.Mkvs.ProofPosition
import OasisProofs.Helpers.MkvsProofComplete
/-
Helpers for C04 with a requested position (`OasisModel/Mkvs/ProofPosition.lean`): what `findHash`
returns, which hashes a lookup includes, the nodes on the lookup path, hash-determinism of
consistently annotated trees, verification of a proof anchored below the root, grafting at the
pointer a client lookup is stuck at, and the seeded "include only below the position" variant.
-/
namespace OasisProofs.MkvsProof
open OasisModel.Mkvs OasisProofs.Mkvs

/-! ### `findHash` -/

theorem findLeafSlot_some {p : Bytes} {lf : Option (Bytes × Bytes)} {hlf : Bytes} {s : HTrie}
    (h : HTrie.findLeafSlot p lf hlf = some s) :
    ∃ k v, lf = some (k, v) ∧ hlf = p ∧ s = .leaf hlf k v := by
  rcases lf with _ | ⟨k, v⟩
  · simp [HTrie.findLeafSlot] at h
  · simp only [HTrie.findLeafSlot] at h
    by_cases he : hlf = p
    · rw [if_pos he] at h
      exact ⟨k, v, rfl, he, by simpa using h.symm⟩
    · rw [if_neg he] at h
      simp at h

/-- What `findHash` returns carries the hash, is a real node, and is consistently annotated if the
tree is. -/
theorem findHash_spec (H : Bytes → Bytes) (eh p : Bytes) (t : HTrie) :
    ∀ s, t.findHash p = some s → s.hash eh = p ∧ s ≠ .nil ∧ (HOK H t → HOK H s) := by
  induction t with
  | nil => intro s hs; simp [HTrie.findHash] at hs
  | leaf h k v =>
    intro s hs
    simp only [HTrie.findHash] at hs
    by_cases hp : h = p
    · rw [if_pos hp] at hs
      cases hs
      exact ⟨hp, by simp, fun hok => hok⟩
    · rw [if_neg hp] at hs
      simp at hs
  | node h lab lf hlf l r ihl ihr =>
    intro s hs
    simp only [HTrie.findHash] at hs
    by_cases hp : h = p
    · rw [if_pos hp] at hs
      cases hs
      exact ⟨hp, by simp, fun hok => hok⟩
    · rw [if_neg hp] at hs
      cases hls : HTrie.findLeafSlot p lf hlf with
      | some s' =>
        rw [hls] at hs
        simp only [Option.some.injEq] at hs
        subst hs
        obtain ⟨k, v, e1, e2, e3⟩ := findLeafSlot_some hls
        subst e3
        refine ⟨e2, by simp, ?_⟩
        intro hok
        obtain ⟨_, hhlf, _, hlfb, _, _⟩ := hok
        have hb := hlfb (k, v) e1
        refine ⟨?_, hb.1, hb.2⟩
        rw [hhlf, e1]
        rfl
      | none =>
        rw [hls] at hs
        simp only at hs
        cases hl : HTrie.findHash p l with
        | some s' =>
          rw [hl] at hs
          simp only [Option.some.injEq] at hs
          subst hs
          obtain ⟨a1, a2, a3⟩ := ihl _ hl
          exact ⟨a1, a2, fun hok => a3 hok.2.2.2.2.1⟩
        | none =>
          rw [hl] at hs
          simp only at hs
          obtain ⟨a1, a2, a3⟩ := ihr _ hs
          exact ⟨a1, a2, fun hok => a3 hok.2.2.2.2.2⟩

theorem findHash_node_isSome (x h : Bytes) (lab : Bits) (lf : Option (Bytes × Bytes)) (hlf : Bytes)
    (l r : HTrie) :
    ((HTrie.node h lab lf hlf l r).findHash x).isSome =
      (decide (h = x) || (HTrie.findLeafSlot x lf hlf).isSome || (l.findHash x).isSome ||
        (r.findHash x).isSome) := by
  simp only [HTrie.findHash]
  by_cases hp : h = x
  · simp [hp]
  · rw [if_neg hp]
    cases HTrie.findLeafSlot x lf hlf with
    | some s => simp
    | none =>
      cases l.findHash x with
      | some s => simp
      | none => simp [hp]

theorem findHash_self_isSome (eh : Bytes) (t : HTrie) (hne : t ≠ .nil) :
    (t.findHash (t.hash eh)).isSome = true := by
  cases t with
  | nil => exact absurd rfl hne
  | leaf h k v => simp [HTrie.findHash, HTrie.hash]
  | node h lab lf hlf l r => simp [HTrie.findHash, HTrie.hash]

theorem findLeafSlot_self_isSome (k v hlf : Bytes) :
    (HTrie.findLeafSlot hlf (some (k, v)) hlf).isSome = true := by
  simp [HTrie.findLeafSlot]

/-! ### every included hash is the hash of a pointer of the tree -/

theorem mem_include {b : Builder} {h : Bytes} {n : Nat} {x : Bytes} (hx : x ∈ (b.include h n).incl) :
    x ∈ b.incl ∨ x = h := by
  unfold Builder.include at hx
  split at hx
  · exact Or.inl hx
  · simp only [List.mem_cons] at hx
    rcases hx with hx | hx
    · exact Or.inr hx
    · exact Or.inl hx

theorem mem_includeH {b : Builder} {ver : Nat} {s : HTrie} {x : Bytes}
    (hx : x ∈ (b.includeH ver s).incl) : x ∈ b.incl ∨ (s.findHash x).isSome = true := by
  cases s with
  | nil => exact Or.inl hx
  | leaf h k v =>
    rcases mem_include hx with hx | hx
    · exact Or.inl hx
    · right; subst hx; simp [HTrie.findHash]
  | node h lab lf hlf l r =>
    rcases mem_include hx with hx | hx
    · exact Or.inl hx
    · right; subst hx; simp [HTrie.findHash]

theorem mem_includeH_leafSlot {b : Builder} {ver : Nat} {lf : Option (Bytes × Bytes)} {hlf x : Bytes}
    (hx : x ∈ (b.includeH ver (leafSlot lf hlf)).incl) :
    x ∈ b.incl ∨ (HTrie.findLeafSlot x lf hlf).isSome = true := by
  rcases lf with _ | ⟨k, v⟩
  · exact Or.inl hx
  · rcases mem_include hx with hx | hx
    · exact Or.inl hx
    · right; subst hx; simp [HTrie.findLeafSlot]

theorem mem_includeEnd {b : Builder} {ver : Nat} {sib : Bool} {lf : Option (Bytes × Bytes)} {hlf : Bytes}
    {l r : HTrie} {x : Bytes} (hx : x ∈ (b.includeEnd ver sib lf hlf l r).incl) :
    x ∈ b.incl ∨ (HTrie.findLeafSlot x lf hlf).isSome = true ∨ (l.findHash x).isSome = true ∨
      (r.findHash x).isSome = true := by
  unfold Builder.includeEnd at hx
  have h1 : ∀ y, y ∈ (if sib = true then (b.includeH ver l).includeH ver r else b).incl →
      y ∈ b.incl ∨ (l.findHash y).isSome = true ∨ (r.findHash y).isSome = true := by
    intro y hy
    split at hy
    · rcases mem_includeH hy with hy | hy
      · rcases mem_includeH hy with hy | hy
        · exact Or.inl hy
        · exact Or.inr (Or.inl hy)
      · exact Or.inr (Or.inr hy)
    · exact Or.inl hy
  simp only at hx
  split at hx
  · rcases h1 x hx with h | h | h
    · exact Or.inl h
    · exact Or.inr (Or.inr (Or.inl h))
    · exact Or.inr (Or.inr (Or.inr h))
  · rcases mem_includeH_leafSlot hx with hx | hx
    · rcases h1 x hx with h | h | h
      · exact Or.inl h
      · exact Or.inr (Or.inr (Or.inl h))
      · exact Or.inr (Or.inr (Or.inr h))
    · exact Or.inr (Or.inl hx)

theorem mem_includeSiblings {b : Builder} {ver : Nat} {sib : Bool} {lf : Option (Bytes × Bytes)}
    {hlf : Bytes} {o : HTrie} {x : Bytes} (hx : x ∈ (b.includeSiblings ver sib lf hlf o).incl) :
    x ∈ b.incl ∨ (HTrie.findLeafSlot x lf hlf).isSome = true ∨ (o.findHash x).isSome = true := by
  unfold Builder.includeSiblings at hx
  split at hx
  · simp only at hx
    rcases mem_includeH hx with hx | hx
    · split at hx
      · rcases mem_includeH_leafSlot hx with hx | hx
        · exact Or.inl hx
        · exact Or.inr (Or.inl hx)
      · exact Or.inl hx
    · exact Or.inr (Or.inr hx)
  · exact Or.inl hx

/-- Whatever a lookup adds to the builder is the hash of a pointer of the tree: `included[p] != nil`
implies that `findHash p` finds a node. -/
theorem inclGet_findHash (ver : Nat) (sib : Bool) (k : Bytes) (t : HTrie) :
    ∀ (d : Nat) (stop : Bool) (b : Builder), ∀ x ∈ (inclGet ver sib k t d stop b).incl,
      x ∈ b.incl ∨ (t.findHash x).isSome = true := by
  induction t with
  | nil => intro d stop b x hx; exact Or.inl hx
  | leaf h k' v' =>
    intro d stop b x hx
    rcases mem_include hx with hx | hx
    · exact Or.inl hx
    · right; subst hx; simp [HTrie.findHash]
  | node h lab lf hlf l r ihl ihr =>
    intro d stop b x hx
    rw [findHash_node_isSome]
    have h0 : ∀ y, y ∈ (b.includeNode ver h lab lf).incl → y ∈ b.incl ∨ y = h :=
      fun y hy => mem_include hy
    have fin0 : ∀ y, y ∈ (b.includeNode ver h lab lf).incl → y ∈ b.incl ∨
        (decide (h = y) || (HTrie.findLeafSlot y lf hlf).isSome || (l.findHash y).isSome ||
          (r.findHash y).isSome) = true := by
      intro y hy
      rcases h0 y hy with hy | hy
      · exact Or.inl hy
      · right; simp [hy]
    simp only [inclGet] at hx
    split at hx
    · exact fin0 x hx
    · split at hx
      · rcases mem_includeEnd hx with hx | hx | hx | hx
        · exact fin0 x hx
        · right; simp [hx]
        · right; simp [hx]
        · right; simp [hx]
      · split at hx
        · exact fin0 x hx
        · split at hx
          · rcases mem_includeSiblings hx with hx | hx | hx
            · rcases ihr _ _ _ x hx with hx | hx
              · exact fin0 x hx
              · right; simp [hx]
            · right; simp [hx]
            · right; simp [hx]
          · rcases mem_includeSiblings hx with hx | hx | hx
            · rcases ihl _ _ _ x hx with hx | hx
              · exact fin0 x hx
              · right; simp [hx]
            · right; simp [hx]
            · right; simp [hx]

/-! ### the nodes on the lookup path -/

theorem inclGet_self (eh : Bytes) (ver : Nat) (sib : Bool) (k : Bytes) (t : HTrie) (hne : t ≠ .nil)
    (d : Nat) (stop : Bool) (b : Builder) : t.hash eh ∈ (inclGet ver sib k t d stop b).incl := by
  cases t with
  | nil => exact absurd rfl hne
  | leaf h k' v' => exact mem_include_self _ _ _
  | node h lab lf hlf l r =>
    have hself : h ∈ (b.includeNode ver h lab lf).incl := mem_include_self _ _ _
    simp only [inclGet, HTrie.hash]
    split
    · exact hself
    · split
      · exact includeEnd_mono _ _ _ _ _ _ _ _ hself
      · split
        · exact hself
        · split
          · exact includeSiblings_mono _ _ _ _ _ _ _ (inclGet_mono _ _ _ _ _ _ _ _ hself)
          · exact includeSiblings_mono _ _ _ _ _ _ _ (inclGet_mono _ _ _ _ _ _ _ _ hself)

/-- A node on the lookup path of `k`: it is a real, consistently annotated node; continuing the
lookup of `k` from it (at its bit depth) gives the answer of the whole lookup; and everything a
lookup of `k` started AT that node includes is included by the lookup from the top. -/
theorem pathNodes_spec (H : Bytes → Bytes) (ver : Nat) (sib : Bool) (k : Bytes) (t : HTrie) :
    ∀ (d0 : Nat) (b : Builder) (s : HTrie) (d : Nat), (s, d) ∈ t.pathNodes ver k d0 →
      s ≠ .nil ∧ (HOK H t → HOK H s) ∧ s.erase.getAux k d = t.erase.getAux k d0 ∧
      ∃ b', ∀ x ∈ (inclGet ver sib k s d false b').incl, x ∈ (inclGet ver sib k t d0 false b).incl := by
  induction t with
  | nil => intro d0 b s d hm; simp [HTrie.pathNodes] at hm
  | leaf h k' v' =>
    intro d0 b s d hm
    simp only [HTrie.pathNodes, List.mem_singleton, Prod.mk.injEq] at hm
    obtain ⟨e1, e2⟩ := hm
    subst e1; subst e2
    exact ⟨by simp, fun hok => hok, rfl, b, fun x hx => hx⟩
  | node h lab lf hlf l r ihl ihr =>
    intro d0 b s d hm
    simp only [HTrie.pathNodes, List.mem_cons, Prod.mk.injEq] at hm
    rcases hm with ⟨e1, e2⟩ | hm
    · subst e1; subst e2
      exact ⟨by simp, fun hok => hok, rfl, b, fun x hx => hx⟩
    · by_cases hn : (toBits k).length = d0 + lab.length
      · rw [if_pos hn] at hm
        by_cases hv0 : ver = 0
        · rw [if_pos hv0] at hm; simp at hm
        · rw [if_neg hv0] at hm
          rcases lf with _ | ⟨k', v'⟩
          · simp at hm
          · simp only [List.mem_singleton, Prod.mk.injEq] at hm
            obtain ⟨e1, e2⟩ := hm
            subst e1; subst e2
            refine ⟨by simp, ?_, ?_, ?_⟩
            · intro hok
              obtain ⟨_, hhlf, _, hlfb, _, _⟩ := hok
              have hb := hlfb (k', v') rfl
              exact ⟨by rw [hhlf]; rfl, hb.1, hb.2⟩
            · simp only [HTrie.erase, Trie.getAux, if_pos hn]
            · refine ⟨if sib = true then ((b.includeNode ver h lab (some (k', v'))).includeH ver l).includeH ver r
                else b.includeNode ver h lab (some (k', v')), ?_⟩
              intro x hx
              simp only [inclGet, Bool.false_eq_true, if_false, if_pos hn, Builder.includeEnd, if_neg hv0,
                leafSlot, Builder.includeH]
              exact hx
      · rw [if_neg hn] at hm
        by_cases hlt : (toBits k).length < d0 + lab.length
        · rw [if_pos hlt] at hm; simp at hm
        · rw [if_neg hlt] at hm
          split at hm
          · next tl heq =>
            obtain ⟨a1, a2, a3, b', a4⟩ := ihr _ (b.includeNode ver h lab lf) s d hm
            refine ⟨a1, fun hok => a2 hok.2.2.2.2.2, ?_, b', ?_⟩
            · rw [a3]
              simp only [HTrie.erase, Trie.getAux, if_neg hn, if_neg hlt, heq]
            · intro x hx
              simp only [inclGet, Bool.false_eq_true, if_false, if_neg hn, if_neg hlt, heq]
              exact includeSiblings_mono _ _ _ _ _ _ x (a4 x hx)
          · next hne =>
            obtain ⟨a1, a2, a3, b', a4⟩ := ihl _ (b.includeNode ver h lab lf) s d hm
            refine ⟨a1, fun hok => a2 hok.2.2.2.2.1, ?_, b', ?_⟩
            · rw [a3]
              simp only [HTrie.erase, Trie.getAux, if_neg hn, if_neg hlt]
            · intro x hx
              simp only [inclGet, Bool.false_eq_true, if_false, if_neg hn, if_neg hlt]
              exact includeSiblings_mono _ _ _ _ _ _ x (a4 x hx)

/-- The hash of a node on the lookup path is in the included set (`HasSubtreeRoot` is true). -/
theorem pathNodes_mem_incl (H : Bytes → Bytes) (eh : Bytes) (ver : Nat) (sib : Bool) (k : Bytes) (t : HTrie)
    (d0 : Nat) (b : Builder) (s : HTrie) (d : Nat) (hm : (s, d) ∈ t.pathNodes ver k d0) :
    s.hash eh ∈ (inclGet ver sib k t d0 false b).incl := by
  obtain ⟨hne, _, _, b', hsub⟩ := pathNodes_spec H ver sib k t d0 b s d hm
  exact hsub _ (inclGet_self eh ver sib k s hne d false b')

/-! ### the hash determines a consistently annotated tree (injective hash function) -/

theorem hok_hash_inj {H : Bytes → Bytes} (hinj : Function.Injective H) (hlen : ∀ x, (H x).length = 32)
    (s : HTrie) : ∀ s' : HTrie, HOK H s → HOK H s' → s.hash (H []) = s'.hash (H []) → s = s' := by
  induction s with
  | nil =>
    intro s' _ hok' h
    cases s' with
    | nil => rfl
    | leaf h' k' v' =>
      simp only [HTrie.hash] at h
      rw [hok'.1] at h
      exact absurd (hinj h).symm (leafEnc_ne_nil _ _)
    | node h' lab' lf' hlf' l' r' =>
      simp only [HTrie.hash] at h
      rw [hok'.1] at h
      exact absurd (hinj h).symm (nodeEnc_ne_nil _ _ _ _)
  | leaf h0 k v =>
    intro s' hok hok' h
    cases s' with
    | nil =>
      simp only [HTrie.hash] at h
      rw [hok.1] at h
      exact absurd (hinj h) (leafEnc_ne_nil _ _)
    | leaf h' k' v' =>
      simp only [HTrie.hash] at h
      have h2 := h
      rw [hok.1, hok'.1] at h2
      have := leafEnc_inj (by have := hok.2.1; omega) hok.2.2 (by have := hok'.2.1; omega) hok'.2.2 (hinj h2)
      rw [h, this.1, this.2]
    | node h' lab' lf' hlf' l' r' =>
      simp only [HTrie.hash] at h
      rw [hok.1, hok'.1] at h
      exact absurd (hinj h) (leafEnc_ne_nodeEnc _ _ _ _ _ _)
  | node h0 lab lf hlf l r ihl ihr =>
    intro s' hok hok' h
    cases s' with
    | nil =>
      simp only [HTrie.hash] at h
      rw [hok.1] at h
      exact absurd (hinj h) (nodeEnc_ne_nil _ _ _ _)
    | leaf h' k' v' =>
      simp only [HTrie.hash] at h
      rw [hok.1, hok'.1] at h
      exact absurd (hinj h).symm (leafEnc_ne_nodeEnc _ _ _ _ _ _)
    | node h' lab' lf' hlf' l' r' =>
      obtain ⟨c1, c2, c3, c4, c5, c6⟩ := hok
      obtain ⟨d1, d2, d3, d4, d5, d6⟩ := hok'
      simp only [HTrie.hash] at h
      have h2 := h
      rw [c1, d1] at h2
      have hlo : ∀ o, (hashLeafOpt H o).length = 32 := by
        intro o; rcases o with _ | ⟨a, b⟩ <;> exact hlen _
      have := nodeEnc_inj c3 d3 (by rw [c2]; exact hlo _) (by rw [d2]; exact hlo _)
        (hok_hash_length hlen c5) (hok_hash_length hlen d5) (hinj h2)
      obtain ⟨e1, e2, e3, e4⟩ := this
      have elf : lf = lf' := by
        rw [c2, d2] at e2
        rcases lf with _ | ⟨a, b⟩ <;> rcases lf' with _ | ⟨a', b'⟩
        · rfl
        · exact absurd (hinj e2).symm (leafEnc_ne_nil _ _)
        · exact absurd (hinj e2) (leafEnc_ne_nil _ _)
        · have b1 := c4 (a, b) rfl
          have b2 := d4 (a', b') rfl
          simp only at b1 b2
          have := leafEnc_inj (by omega) b1.2 (by omega) b2.2 (hinj e2)
          rw [this.1, this.2]
      rw [h, e1, elf, e2, ihl l' c5 d5 e3, ihr r' c6 d6 e4]

/-! ### verification of a proof anchored at an included node -/

theorem buildAt_of_mem {eh : Bytes} {ver : Nat} {incl : List Bytes} {p : Bytes} {t s : HTrie}
    (hin : p ∈ incl) (hf : t.findHash p = some s) :
    buildAt eh ver incl p t = { v := ver, untrusted := p, entries := buildFrom ver incl s } := by
  unfold buildAt
  rw [if_pos (by simpa using hin), hf]

theorem buildAt_of_not_mem {eh : Bytes} {ver : Nat} {incl : List Bytes} {p : Bytes} {t : HTrie}
    (hin : p ∉ incl) : buildAt eh ver incl p t = build eh ver incl t := by
  unfold buildAt
  rw [if_neg (by simpa using hin)]

/-- The proof anchored at an included node verifies against that node's hash iff it is shallow
enough, and rebuilds the included part of that subtree. -/
theorem verifyProof_buildAt {H : Bytes → Bytes} (hlen : ∀ x, (H x).length = 32) (ver : Nat) (hver : ver ≤ 1)
    (incl : List Bytes) (p : Bytes) (t s : HTrie) (hok : HOK H t) (hin : p ∈ incl)
    (hf : t.findHash p = some s) :
    verifyProof H p (buildAt (H []) ver incl p t) =
      if proofDepth ver incl s ≤ maxProofDepth then .ok (restrict ver incl s) else .error .maxDepth := by
  obtain ⟨hh, _, hoks⟩ := findHash_spec H (H []) p t s hf
  have := verifyProof_build hlen ver hver incl s (hoks hok)
  rw [buildAt_of_mem hin hf]
  unfold build at this
  rw [hh] at this
  exact this

/-- If the included set contains what a lookup of `k` includes, the honest proof anchored at a node
of the lookup path answers `k` (continued at that node's bit depth) with the tree's answer. -/
theorem restrict_path_getAux (H : Bytes → Bytes) (eh : Bytes) (ver : Nat) (sib : Bool) (k : Bytes) (t : HTrie)
    (s : HTrie) (d : Nat) (hm : (s, d) ∈ t.pathNodes ver k 0) :
    (restrict ver (inclGet ver sib k t 0 false {}).incl s).getAux eh k d = some (t.erase.getAux k 0) := by
  obtain ⟨_, _, hg, b', hsub⟩ := pathNodes_spec H ver sib k t 0 {} s d hm
  rw [← hg]
  exact restrict_getAux eh ver sib k _ s d b' hsub

/-! ### the client side -/

theorem clientSync_eq_accept (H : Bytes → Bytes) (root : Bytes) (s : PT) (ptrHash : Bytes) (resp : MProof) :
    clientSync H root s ptrHash resp =
      match clientAccept H root ptrHash resp with
      | none => s
      | some sub =>
        if resp.untrusted = ptrHash then PT.graft ptrHash sub s else (PT.merge H s sub).getD s := by
  unfold clientSync clientAccept
  by_cases h1 : resp.untrusted = ptrHash
  · simp only [h1, if_true]
    cases verifyProof H ptrHash resp <;> rfl
  · simp only [h1, if_false]
    by_cases h2 : resp.untrusted = root
    · simp only [h2, if_true]
      cases verifyProof H root resp <;> rfl
    · simp only [h2, if_false]

/-- Grafting a verified subtree at the pointer the lookup is stuck at continues the lookup in that
subtree at the bit depth of the pointer. -/
theorem graft_getAux_stuck (eh : Bytes) (k : Bytes) (p : Bytes) (sub : PT) (c : PT) :
    ∀ (d0 d : Nat), c.stuckAt eh k d0 = some (p, d) →
      (PT.graft p sub c).getAux eh k d0 = sub.getAux eh k d := by
  induction c with
  | nil => intro d0 d h; simp [PT.stuckAt] at h
  | hash h' =>
    intro d0 d h
    simp only [PT.stuckAt] at h
    split at h
    · simp at h
    · simp only [Option.some.injEq, Prod.mk.injEq] at h
      obtain ⟨e1, e2⟩ := h
      subst e1; subst e2
      simp [PT.graft]
  | leaf k' v' => intro d0 d h; simp [PT.stuckAt] at h
  | node bits label lf l r ihlf ihl ihr =>
    intro d0 d h
    simp only [PT.stuckAt] at h
    simp only [PT.graft, PT.getAux]
    split at h
    · next hn => rw [if_pos hn]; exact ihlf _ _ h
    · next hn =>
      rw [if_neg hn]
      split at h
      · simp at h
      · next hlt =>
        rw [if_neg hlt]
        split at h
        · next tl heq => simp only [heq]; exact ihr _ _ h
        · next hne =>
          split
          · next tl heq => exact absurd heq (hne tl)
          · exact ihl _ _ h

/-- A lookup that is stuck is not answered locally. -/
theorem getAux_none_of_stuck (eh : Bytes) (k : Bytes) (c : PT) :
    ∀ (d0 : Nat) (x : Bytes × Nat), c.stuckAt eh k d0 = some x → c.getAux eh k d0 = none := by
  induction c with
  | nil => intro d0 x h; simp [PT.stuckAt] at h
  | hash h' =>
    intro d0 x h
    simp only [PT.stuckAt] at h
    split at h
    · simp at h
    · next hne => simp [PT.getAux, hne]
  | leaf k' v' => intro d0 x h; simp [PT.stuckAt] at h
  | node bits label lf l r ihlf ihl ihr =>
    intro d0 x h
    simp only [PT.stuckAt] at h
    simp only [PT.getAux]
    split at h
    · next hn => rw [if_pos hn]; exact ihlf _ _ h
    · next hn =>
      rw [if_neg hn]
      split at h
      · simp at h
      · next hlt =>
        rw [if_neg hlt]
        split at h
        · next tl heq => simp only [heq]; exact ihr _ _ h
        · next hne =>
          split
          · next tl heq => exact absurd heq (hne tl)
          · exact ihl _ _ h

/-! ### depth of a proof anchored below the root -/

theorem findHash_ptrDepth (p : Bytes) (t : HTrie) : ∀ s, t.findHash p = some s → s.ptrDepth ≤ t.ptrDepth := by
  induction t with
  | nil => intro s hs; simp [HTrie.findHash] at hs
  | leaf h k v =>
    intro s hs
    simp only [HTrie.findHash] at hs
    split at hs
    · cases hs; exact Nat.le_refl _
    · simp at hs
  | node h lab lf hlf l r ihl ihr =>
    intro s hs
    simp only [HTrie.findHash] at hs
    by_cases hp : h = p
    · rw [if_pos hp] at hs; cases hs; exact Nat.le_refl _
    · rw [if_neg hp] at hs
      cases hls : HTrie.findLeafSlot p lf hlf with
      | some s' =>
        rw [hls] at hs
        simp only [Option.some.injEq] at hs
        subst hs
        obtain ⟨k, v, _, _, e3⟩ := findLeafSlot_some hls
        subst e3
        simp [HTrie.ptrDepth]
      | none =>
        rw [hls] at hs
        simp only at hs
        cases hl : HTrie.findHash p l with
        | some s' =>
          rw [hl] at hs
          simp only [Option.some.injEq] at hs
          subst hs
          have := ihl _ hl
          simp only [HTrie.ptrDepth]; omega
        | none =>
          rw [hl] at hs
          simp only at hs
          have := ihr _ hs
          simp only [HTrie.ptrDepth]; omega

/-! ### the seeded variant "include only below the requested position" -/

theorem not_mem_include {b : Builder} {h : Bytes} {n : Nat} {p : Bytes} (hp : p ∉ (b.include h n).incl) :
    p ≠ h ∧ p ∉ b.incl :=
  ⟨fun e => hp (e ▸ mem_include_self b h n), fun hx => hp (include_mono b h n p hx)⟩

theorem includeIf_ne (b : Builder) (h p : Bytes) (n : Nat) (hne : p ≠ h) :
    b.includeIf (false || h == p) h n = b := by
  have : (h == p) = false := by simpa using fun e : h = p => hne e.symm
  simp [Builder.includeIf, this]

theorem includeLeafSlotIf_unvisited {b0 : Builder} {ver : Nat} {lf : Option (Bytes × Bytes)} {hlf p : Bytes}
    (hp : p ∉ (b0.includeH ver (leafSlot lf hlf)).incl) (b : Builder) :
    b.includeLeafSlotIf false p lf hlf = b := by
  rcases lf with _ | ⟨k, v⟩
  · rfl
  · exact includeIf_ne b hlf p _ (not_mem_include hp).1

/-- A sibling fetch (`stop = true`) of the variant adds nothing unless the sibling is the position. -/
theorem inclGetBelow_stop_unvisited (ver : Nat) (sib : Bool) (p k : Bytes) (t : HTrie) (d : Nat) (b0 b : Builder)
    (hp : p ∉ (b0.includeH ver t).incl) : inclGetBelow ver sib p k t d true false b = b := by
  cases t with
  | nil => rfl
  | leaf h k' v' => exact includeIf_ne b h p _ (not_mem_include hp).1
  | node h lab lf hlf l r =>
    have hne := (not_mem_include hp).1
    have : (h == p) = false := by simpa using fun e : h = p => hne e.symm
    simp [inclGetBelow, Builder.includeIf, this]

/-- **The variant includes nothing for an unvisited position**: if `p` is not the hash of a node the
real lookup passes to `Include`, the guarded lookup never becomes active. -/
theorem inclGetBelow_unvisited (ver : Nat) (sib : Bool) (p k : Bytes) (t : HTrie) :
    ∀ (d : Nat) (b0 b : Builder), p ∉ (inclGet ver sib k t d false b0).incl →
      inclGetBelow ver sib p k t d false false b = b := by
  induction t with
  | nil => intro d b0 b _; rfl
  | leaf h k' v' =>
    intro d b0 b hp
    exact includeIf_ne b h p _ (not_mem_include hp).1
  | node h lab lf hlf l r ihl ihr =>
    intro d b0 b hp
    have hne : p ≠ h := fun e => hp (e ▸ inclGet_self [] ver sib k (.node h lab lf hlf l r) (by simp) d false b0)
    have hh : (h == p) = false := by simpa using fun e : h = p => hne e.symm
    simp only [inclGet, Bool.false_eq_true, if_false] at hp
    simp only [inclGetBelow, Bool.false_or, hh, Builder.includeIf, Bool.false_eq_true, if_false]
    by_cases hn : (toBits k).length = d + lab.length
    · rw [if_pos hn] at hp
      rw [if_pos hn]
      unfold Builder.includeEnd at hp
      simp only at hp
      by_cases hs : sib = true
      · simp only [hs, if_true] at hp ⊢
        by_cases hv0 : ver = 0
        · rw [if_pos hv0] at hp
          rw [if_pos hv0]
          rw [inclGetBelow_stop_unvisited ver true p k l _ (b0.includeNode ver h lab lf) b
            (fun hx => hp (includeH_mono _ _ _ _ hx))]
          exact inclGetBelow_stop_unvisited ver true p k r _ _ b hp
        · rw [if_neg hv0] at hp
          rw [if_neg hv0]
          have hp' : p ∉ (((b0.includeNode ver h lab lf).includeH ver l).includeH ver r).incl :=
            fun hx => hp (includeH_mono _ _ _ _ hx)
          rw [inclGetBelow_stop_unvisited ver true p k l _ (b0.includeNode ver h lab lf) b
            (fun hx => hp' (includeH_mono _ _ _ _ hx))]
          rw [inclGetBelow_stop_unvisited ver true p k r _ _ b hp']
          exact includeLeafSlotIf_unvisited hp b
      · simp only [hs, Bool.false_eq_true, if_false] at hp ⊢
        by_cases hv0 : ver = 0
        · rw [if_pos hv0]
        · rw [if_neg hv0] at hp
          rw [if_neg hv0]
          exact includeLeafSlotIf_unvisited hp b
    · rw [if_neg hn] at hp
      rw [if_neg hn]
      by_cases hlt : (toBits k).length < d + lab.length
      · rw [if_pos hlt]
      · rw [if_neg hlt] at hp
        rw [if_neg hlt]
        have key : ∀ (c o : HTrie) (b1 : Builder),
            (∀ (d : Nat) (b0 b : Builder), p ∉ (inclGet ver sib k c d false b0).incl →
              inclGetBelow ver sib p k c d false false b = b) →
            p ∉ ((inclGet ver sib k c (d + lab.length) false b1).includeSiblings ver sib lf hlf o).incl →
            (if sib = true then
              inclGetBelow ver sib p k o (d + lab.length) true false
                (if ver > 0 then (inclGetBelow ver sib p k c (d + lab.length) false false b).includeLeafSlotIf
                  false p lf hlf else inclGetBelow ver sib p k c (d + lab.length) false false b)
            else inclGetBelow ver sib p k c (d + lab.length) false false b) = b := by
          intro c o b1 ih hp
          have hc : p ∉ (inclGet ver sib k c (d + lab.length) false b1).incl :=
            fun hx => hp (includeSiblings_mono _ _ _ _ _ _ _ hx)
          rw [ih _ b1 b hc]
          unfold Builder.includeSiblings at hp
          by_cases hs : sib = true
          · simp only [hs, if_true] at hp ⊢
            by_cases hv : ver > 0
            · simp only [hv, if_true] at hp ⊢
              rw [includeLeafSlotIf_unvisited (fun hx => hp (includeH_mono _ _ _ _ hx)) b]
              exact inclGetBelow_stop_unvisited ver true p k o _ _ b hp
            · simp only [hv, if_false] at hp ⊢
              exact inclGetBelow_stop_unvisited ver true p k o _ _ b hp
          · simp only [hs, Bool.false_eq_true, if_false]
        split at hp
        · next tl heq =>
          simp only [heq]
          exact key r l _ ihr hp
        · next hnb =>
          split
          · next tl heq => exact absurd heq (hnb tl)
          · exact key l r _ ihl hp

/-! ### the proof built from an empty included set -/

theorem buildFrom_empty (eh : Bytes) (ver : Nat) (t : HTrie) (hne : t ≠ .nil) :
    buildFrom ver [] t = [some (0x02 :: t.hash eh)] ∧ restrict ver [] t = .hash (t.hash eh) ∧
      proofDepth ver [] t = 0 := by
  cases t with
  | nil => exact absurd rfl hne
  | leaf h k v => simp [buildFrom, restrict, proofDepth, HTrie.hash]
  | node h lab lf hlf l r => simp [buildFrom, restrict, proofDepth, HTrie.hash]

/-! ### merging a root-anchored proof into the client's nodes keeps what the proof resolves -/

theorem getAux_isSome_of_not_hash (eh k : Bytes) (lf : PT) (o : Option (Bytes × Bytes)) (H : Bytes → Bytes)
    (hs : SubT H lf (optLeaf o)) (hnh : ∀ h, lf ≠ .hash h) (d : Nat) : (lf.getAux eh k d).isSome = true := by
  cases lf with
  | nil => rfl
  | hash h => exact absurd rfl (hnh h)
  | leaf k' v' => rfl
  | node b lb lf' l r => rcases o with _ | ⟨a, b'⟩ <;> exact absurd hs (by simp [SubT, optLeaf])

/-- `MergeVerifiedSubtree(dst, sub)` of two sub-trees of the same tree succeeds, and the merged
nodes answer every lookup that `sub` answers (the destination holds no hash-only leaf pointer). -/
theorem merge_resolves {H : Bytes → Bytes} (hinj : Function.Injective H) (k : Bytes) (dst : PT) :
    ∀ (sub : PT) (t : Trie) (d : Nat), SubT H dst t → SubT H sub t → dst.LeafFull →
      ∃ m, PT.merge H dst sub = some m ∧
        ((sub.getAux (H []) k d).isSome = true → (m.getAux (H []) k d).isSome = true) := by
  induction dst with
  | nil => intro sub t d _ _ _; exact ⟨.nil, by simp [PT.merge], fun _ => rfl⟩
  | hash h =>
    intro sub t d hd hs _
    have e1 := sub_hashOf hd
    have e2 := sub_hashOf hs
    cases sub with
    | nil =>
      refine ⟨.hash h, by simp [PT.merge], fun _ => ?_⟩
      simp only [SubT] at hs
      subst hs
      simp only [SubT, hashWith] at hd
      simp [PT.getAux, hd]
    | hash h' =>
      simp only [PT.hashOf] at e1 e2
      refine ⟨.hash h, by simp [PT.merge, PT.hashOf, e1, e2], ?_⟩
      rw [e1, e2]
      exact fun hx => hx
    | leaf k' v' =>
      refine ⟨.leaf k' v', ?_, fun hx => hx⟩
      simp only [PT.merge]
      rw [if_pos (by rw [e2]; exact e1)]
    | node b' lb' lf' l' r' =>
      refine ⟨.node b' lb' lf' l' r', ?_, fun hx => hx⟩
      simp only [PT.merge]
      rw [if_pos (by rw [e2]; exact e1)]
  | leaf k0 v0 =>
    intro sub t d hd hs _
    have e1 := sub_hashOf hd
    have e2 := sub_hashOf hs
    refine ⟨.leaf k0 v0, ?_, fun _ => rfl⟩
    cases sub with
    | nil => simp [PT.merge]
    | hash h' =>
      simp only [PT.hashOf] at e2
      simp only [PT.merge]
      rw [if_pos (by rw [e1, e2])]
    | leaf k' v' =>
      simp only [PT.merge]
      rw [if_pos (by rw [e1, e2])]
    | node b' lb' lf' l' r' =>
      simp only [PT.merge]
      rw [if_pos (by rw [e1, e2])]
  | node bits label lf l r _ ihl ihr =>
    intro sub t d hd hs hfull
    have e1 := sub_hashOf hd
    have e2 := sub_hashOf hs
    cases t with
    | nil => exact absurd hd (by simp [SubT])
    | leaf _ _ => exact absurd hd (by simp [SubT])
    | node lab olf tl tr =>
      cases sub with
      | nil => exact absurd hs (by simp [SubT])
      | leaf k' v' => exact absurd hs (by simp [SubT])
      | hash h' =>
        simp only [PT.hashOf] at e2
        refine ⟨.node bits label lf l r, ?_, ?_⟩
        · simp only [PT.merge]
          rw [if_pos (by rw [e1, e2])]
        · intro hx
          simp only [PT.getAux] at hx
          split at hx
          · next he =>
            rw [he] at e2
            simp only [hashWith] at e2
            exact absurd (hinj e2).symm (nodeEnc_ne_nil _ _ _ _)
          · simp at hx
      | node b' lb' lf' l' r' =>
        obtain ⟨c1, c2, slf, sl, sr⟩ := hd
        obtain ⟨d1, d2, slf', sl', sr'⟩ := hs
        obtain ⟨f1, f2, f3⟩ := hfull
        obtain ⟨ml, hml, gl⟩ := ihl l' tl (d + bits) sl sl' f2
        obtain ⟨mr, hmr, gr⟩ := ihr r' tr (d + bits) sr sr' f3
        refine ⟨.node bits label lf ml mr, ?_, ?_⟩
        · simp only [PT.merge]
          rw [if_pos (by rw [e1, e2]), hml, hmr]
        · have hbits : b' = bits := by rw [c1, d1]
          subst hbits
          simp only [PT.getAux]
          split
          · intro _
            exact getAux_isSome_of_not_hash (H []) k lf olf H slf f1 _
          · split
            · exact fun _ => rfl
            · split
              · exact gr
              · exact gl

end OasisProofs.MkvsProof
