import OasisModel.Roothash.Pool
import Mathlib.Data.Nat.ModEq
/-
Helper lemmas for C11 about the scheduler-rank functions of scheduler/api.
-/
namespace OasisProofs.Roothash
open OasisModel.Roothash

theorem workerTotal_le (ms : List Member) : workerTotal ms ≤ ms.length := by
  induction ms with
  | nil => simp [workerTotal]
  | cons n rest ih =>
    simp only [workerTotal, List.length_cons]
    split <;> omega

/-- Members below `workerTotal` are workers. -/
theorem worker_of_lt_workerTotal (ms : List Member) (i : Nat) (m : Member)
    (hi : i < workerTotal ms) (hm : ms[i]? = some m) : m.role = Role.worker := by
  induction ms generalizing i with
  | nil => simp [workerTotal] at hi
  | cons n rest ih =>
    simp only [workerTotal] at hi
    split at hi
    · omega
    · rename_i hr
      cases i with
      | zero => simp at hm; subst hm; simpa using hr
      | succ j => simp at hm; exact ih j (by omega) hm

/-- What the loop of `SchedulerRank` computes. -/
theorem rankLoop_spec (id : Nat) (ms : List Member) (t i : Nat) (w : Bool) :
    (rankLoop id ms t i w).1 = t + workerTotal ms ∧
    ((rankLoop id ms t i w).2.2 = true →
      (w = true ∧ (rankLoop id ms t i w).2.1 = i) ∨
      (t ≤ (rankLoop id ms t i w).2.1 ∧ (rankLoop id ms t i w).2.1 < t + workerTotal ms ∧
        ∃ m, ms[(rankLoop id ms t i w).2.1 - t]? = some m ∧ m.node = id)) := by
  induction ms generalizing t i w with
  | nil => simp [rankLoop, workerTotal]
  | cons n rest ih =>
    unfold rankLoop
    split
    · rename_i hr
      simp [workerTotal, hr]
      intro h; exact Or.inl h
    · rename_i hr
      have hwt : workerTotal (n :: rest) = workerTotal rest + 1 := by simp [workerTotal, hr]
      split
      · rename_i hn
        have := ih (t + 1) t true
        refine ⟨by rw [this.1, hwt]; omega, ?_⟩
        intro hw
        rcases this.2 hw with ⟨_, h2⟩ | ⟨h1, h2, m, hm, hid⟩
        · right
          rw [h2]
          refine ⟨Nat.le_refl _, by omega, n, by simp, by simpa using hn⟩
        · right
          refine ⟨by omega, by omega, m, ?_, hid⟩
          have : (rankLoop id rest (t + 1) t true).2.1 - t = ((rankLoop id rest (t + 1) t true).2.1 - (t + 1)) + 1 := by omega
          rw [this]; simpa using hm
      · have := ih (t + 1) i w
        refine ⟨by rw [this.1, hwt]; omega, ?_⟩
        intro hw
        rcases this.2 hw with ⟨h1, h2⟩ | ⟨h1, h2, m, hm, hid⟩
        · left; exact ⟨h1, h2⟩
        · right
          refine ⟨by omega, by omega, m, ?_, hid⟩
          have : (rankLoop id rest (t + 1) i w).2.1 - t = ((rankLoop id rest (t + 1) i w).2.1 - (t + 1)) + 1 := by omega
          rw [this]; simpa using hm

/-- `SchedulerRank` answers for `id` iff some leading worker slot `idx` holds `id`; the rank is
`((round + idx) mod 2^64) mod total`. -/
theorem schedulerRank_some (c : Committee) (round id r : Nat) (h : schedulerRank c round id = some r) :
    ∃ idx m, idx < workerTotal c ∧ c[idx]? = some m ∧ m.node = id ∧ m.role = Role.worker ∧
      r = ((round + idx) % two64) % workerTotal c := by
  unfold schedulerRank at h
  have sp := rankLoop_spec id c 0 0 false
  generalize rankLoop id c 0 0 false = res at h sp
  obtain ⟨total, idx, w⟩ := res
  simp only at h sp
  cases w with
  | false => simp at h
  | true =>
    simp at h
    rcases sp.2 rfl with ⟨h1, _⟩ | ⟨_, h2, m, hm, hid⟩
    · simp at h1
    · have ht : total = workerTotal c := by omega
      subst ht
      refine ⟨idx, m, by omega, by simpa using hm, hid, ?_, h.symm⟩
      exact worker_of_lt_workerTotal c idx m (by omega) (by simpa using hm)

theorem schedulerRank_lt (c : Committee) (round id r : Nat) (h : schedulerRank c round id = some r) :
    r < workerTotal c := by
  obtain ⟨idx, m, hi, _, _, _, hr⟩ := schedulerRank_some c round id r h
  rw [hr]; exact Nat.mod_lt _ (by omega)

/-- A scheduler (a node `SchedulerRank` answers for) occupies a worker slot of the committee. -/
theorem scheduler_is_primary (c : Committee) (round id r : Nat) (h : schedulerRank c round id = some r) :
    id ∈ primary c := by
  obtain ⟨idx, m, _, hm, hid, hrole, _⟩ := schedulerRank_some c round id r h
  unfold primary
  rw [List.mem_map]
  refine ⟨m, ?_, hid⟩
  rw [List.mem_filter]
  exact ⟨List.mem_of_getElem? hm, by simp [hrole]⟩

theorem mem_primary_isMember (c : Committee) (id : Nat) (h : id ∈ primary c) : isMember c id = true := by
  unfold primary at h
  rw [List.mem_map] at h
  obtain ⟨m, hm, hid⟩ := h
  rw [List.mem_filter] at hm
  unfold isMember
  rw [List.any_eq_true]
  exact ⟨m, hm.1, by simp [hid]⟩

/-- Without uint64 wrap-around the rank determines the scheduler: two nodes with the same rank in
the same round are the same node. -/
theorem schedulerRank_inj (c : Committee) (round a b r : Nat) (hw : round + c.length < two64)
    (ha : schedulerRank c round a = some r) (hb : schedulerRank c round b = some r) : a = b := by
  obtain ⟨i, m, hi, hm, hid, _, hr⟩ := schedulerRank_some c round a r ha
  obtain ⟨j, m', hj, hm', hid', _, hr'⟩ := schedulerRank_some c round b r hb
  have hle := workerTotal_le c
  have e1 : (round + i) % two64 = round + i := Nat.mod_eq_of_lt (by omega)
  have e2 : (round + j) % two64 = round + j := Nat.mod_eq_of_lt (by omega)
  rw [e1] at hr; rw [e2] at hr'
  have hmod : round + i ≡ round + j [MOD workerTotal c] := by
    unfold Nat.ModEq; rw [← hr, ← hr']
  have hij : i ≡ j [MOD workerTotal c] := Nat.ModEq.add_left_cancel' round hmod
  have : i = j := Nat.ModEq.eq_of_lt_of_lt hij hi hj
  subst this
  rw [hm] at hm'
  cases hm'
  rw [← hid, ← hid']

theorem idx_of_rank_arith (round i t : Nat) (hi : i < t) :
    ((round + i) % t + t - round % t) % t = i := by
  have ha : round % t < t := Nat.mod_lt _ (by omega)
  have e : (round + i) % t = (round % t + i) % t := by
    rw [Nat.add_mod, Nat.mod_eq_of_lt hi]
  rw [e]
  by_cases h : round % t + i < t
  · rw [Nat.mod_eq_of_lt h]
    have : round % t + i + t - round % t = i + t := by omega
    rw [this, Nat.add_mod_right, Nat.mod_eq_of_lt hi]
  · have e2 : (round % t + i) % t = round % t + i - t := by
      rw [Nat.mod_eq_sub_mod (by omega), Nat.mod_eq_of_lt (by omega)]
    rw [e2]
    have : round % t + i - t + t - round % t = i := by omega
    rw [this, Nat.mod_eq_of_lt hi]

/-- `SchedulerIdx` inverts `SchedulerRank` (no uint64 wrap-around): the member at the index
returned for a node's rank is that node. -/
theorem schedulerIdx_of_rank (c : Committee) (round id r : Nat) (hw : round + c.length < two64)
    (h : schedulerRank c round id = some r) :
    ∃ i m, schedulerIdx c round r = some i ∧ c[i]? = some m ∧ m.node = id ∧ m.role = Role.worker := by
  obtain ⟨i, m, hi, hm, hid, hrole, hr⟩ := schedulerRank_some c round id r h
  have hle := workerTotal_le c
  have e1 : (round + i) % two64 = round + i := Nat.mod_eq_of_lt (by omega)
  rw [e1] at hr
  refine ⟨i, m, ?_, hm, hid, hrole⟩
  unfold schedulerIdx
  have hlt : r < workerTotal c := by rw [hr]; exact Nat.mod_lt _ (by omega)
  have : ¬ (r ≥ workerTotal c) := by omega
  simp only [this, if_false]
  rw [hr, idx_of_rank_arith round i _ hi]

end OasisProofs.Roothash
