import OasisModel.Mkvs.SMap
/-
Facts about the ordered-map specification `SMap` (sorted association lists over byte strings).
-/
namespace OasisProofs.Mkvs
open OasisModel.Mkvs

theorem bytes_lt_irrefl (a : Bytes) : ¬ a < a := List.lt_irrefl a
theorem bytes_lt_trans {a b c : Bytes} (h1 : a < b) (h2 : b < c) : a < c := List.lt_trans h1 h2
theorem bytes_lt_asymm {a b : Bytes} (h1 : a < b) : ¬ b < a := List.lt_asymm h1

/-- Trichotomy of the byte-lexicographic order. -/
theorem bytes_lt_trichotomy (a b : Bytes) : a < b ∨ a = b ∨ b < a := by
  induction a generalizing b with
  | nil => cases b with
    | nil => exact Or.inr (Or.inl rfl)
    | cons y b => exact Or.inl (List.nil_lt_cons _ _)
  | cons x a ih => cases b with
    | nil => exact Or.inr (Or.inr (List.nil_lt_cons _ _))
    | cons y b =>
      simp only [List.cons_lt_cons_iff, List.cons.injEq]
      rcases Nat.lt_trichotomy x.toNat y.toNat with h | h | h
      · exact Or.inl (Or.inl (UInt8.lt_iff_toNat_lt.2 h))
      · have : x = y := UInt8.toNat_inj.1 h
        subst this
        rcases ih b with h | h | h
        · exact Or.inl (Or.inr ⟨rfl, h⟩)
        · exact Or.inr (Or.inl ⟨rfl, h⟩)
        · exact Or.inr (Or.inr (Or.inr ⟨rfl, h⟩))
      · exact Or.inr (Or.inr (Or.inl (UInt8.lt_iff_toNat_lt.2 h)))


theorem smap_sorted_cons {a : KV} {m : List KV} : SMap.Sorted (a :: m) ↔ (∀ b ∈ m, a.1 < b.1) ∧ SMap.Sorted m :=
  List.pairwise_cons

theorem smap_sorted_tail {a : KV} {m : List KV} (h : SMap.Sorted (a :: m)) : SMap.Sorted m := (smap_sorted_cons.1 h).2

/-- Two strictly sorted lists with the same members are equal. -/
theorem smap_sorted_ext {a b : List KV} (ha : SMap.Sorted a) (hb : SMap.Sorted b) (h : ∀ x, x ∈ a ↔ x ∈ b) : a = b := by
  induction a generalizing b with
  | nil =>
    cases b with
    | nil => rfl
    | cons y b => have := (h y).2 (by simp); simp at this
  | cons x a ih =>
    cases b with
    | nil => have := (h x).1 (by simp); simp at this
    | cons y b =>
      obtain ⟨hx, ha'⟩ := smap_sorted_cons.1 ha
      obtain ⟨hy, hb'⟩ := smap_sorted_cons.1 hb
      have hxy : x = y := by
        have h1 : x ∈ y :: b := (h x).1 (by simp)
        have h2 : y ∈ x :: a := (h y).2 (by simp)
        rcases List.mem_cons.1 h1 with h1 | h1
        · exact h1
        · rcases List.mem_cons.1 h2 with h2 | h2
          · exact h2.symm
          · exact absurd (hx y h2) (bytes_lt_asymm (hy x h1))
      subst hxy
      congr 1
      apply ih ha' hb'
      intro z
      constructor
      · intro hz
        rcases List.mem_cons.1 ((h z).1 (List.mem_cons_of_mem _ hz)) with h1 | h1
        · subst h1; exact absurd (hx z hz) (bytes_lt_irrefl _)
        · exact h1
      · intro hz
        rcases List.mem_cons.1 ((h z).2 (List.mem_cons_of_mem _ hz)) with h1 | h1
        · subst h1; exact absurd (hy z hz) (bytes_lt_irrefl _)
        · exact h1

/-- In a sorted list keys are unique. -/
theorem smap_sorted_key_unique {m : List KV} (hm : SMap.Sorted m) {k v v' : Bytes}
    (h1 : (k, v) ∈ m) (h2 : (k, v') ∈ m) : v = v' := by
  induction m with
  | nil => simp at h1
  | cons x m ih =>
    obtain ⟨hx, hm'⟩ := smap_sorted_cons.1 hm
    rcases List.mem_cons.1 h1 with e1 | e1 <;> rcases List.mem_cons.1 h2 with e2 | e2
    · rw [← e1] at e2; injection e2 with _ e; exact e.symm
    · subst e1; exact absurd (hx _ e2) (bytes_lt_irrefl _)
    · subst e2; exact absurd (hx _ e1) (bytes_lt_irrefl _)
    · exact ih hm' e1 e2

theorem smap_get_eq_some {m : List KV} (hm : SMap.Sorted m) (k v : Bytes) : SMap.get m k = some v ↔ (k, v) ∈ m := by
  induction m with
  | nil => simp [SMap.get]
  | cons x m ih =>
    obtain ⟨k', v'⟩ := x
    obtain ⟨hx, hm'⟩ := smap_sorted_cons.1 hm
    simp only [SMap.get]
    by_cases hk : k' = k
    · subst hk
      simp only [if_true, Option.some.injEq, List.mem_cons, Prod.mk.injEq, true_and]
      constructor
      · intro h; exact Or.inl h.symm
      · rintro (h | h)
        · exact h.symm
        · exact absurd (hx _ h) (bytes_lt_irrefl _)
    · simp only [if_neg hk, ih hm', List.mem_cons, Prod.mk.injEq]
      constructor
      · intro h; exact Or.inr h
      · rintro (⟨h, _⟩ | h)
        · exact absurd h.symm hk
        · exact h

theorem smap_mem_insert {m : List KV} (hm : SMap.Sorted m) (k v : Bytes) (kv : KV) :
    kv ∈ SMap.insert m k v ↔ kv = (k, v) ∨ (kv ∈ m ∧ kv.1 ≠ k) := by
  induction m with
  | nil => simp [SMap.insert]
  | cons x m ih =>
    obtain ⟨k', v'⟩ := x
    obtain ⟨hx, hm'⟩ := smap_sorted_cons.1 hm
    simp only [SMap.insert]
    by_cases h1 : k < k'
    · rw [if_pos h1]
      have hne : ∀ y ∈ (k', v') :: m, y.1 ≠ k := by
        intro y hy hyk
        rcases List.mem_cons.1 hy with e | e
        · subst e; simp only at hyk; subst hyk; exact bytes_lt_irrefl _ h1
        · have := hx y e; simp only at this; rw [hyk] at this
          exact bytes_lt_asymm h1 this
      simp only [List.mem_cons]
      constructor
      · rintro (h | h | h)
        · exact Or.inl h
        · exact Or.inr ⟨Or.inl h, hne kv (by rw [h]; simp)⟩
        · exact Or.inr ⟨Or.inr h, hne kv (List.mem_cons_of_mem _ h)⟩
      · rintro (h | ⟨h | h, _⟩)
        · exact Or.inl h
        · exact Or.inr (Or.inl h)
        · exact Or.inr (Or.inr h)
    · rw [if_neg h1]
      by_cases h2 : k' = k
      · subst h2
        rw [if_pos rfl]
        simp only [List.mem_cons]
        constructor
        · rintro (h | h)
          · exact Or.inl h
          · refine Or.inr ⟨Or.inr h, ?_⟩
            intro hk; have := hx kv h; simp only at this; rw [hk] at this
            exact bytes_lt_irrefl _ this
        · rintro (h | ⟨h | h, hne⟩)
          · exact Or.inl h
          · subst h; exact absurd rfl hne
          · exact Or.inr h
      · rw [if_neg h2]
        simp only [List.mem_cons, ih hm']
        constructor
        · rintro (h | h | ⟨h, hne⟩)
          · subst h; exact Or.inr ⟨Or.inl rfl, h2⟩
          · exact Or.inl h
          · exact Or.inr ⟨Or.inr h, hne⟩
        · rintro (h | ⟨h | h, hne⟩)
          · exact Or.inr (Or.inl h)
          · exact Or.inl h
          · exact Or.inr (Or.inr ⟨h, hne⟩)

theorem smap_sorted_insert {m : List KV} (hm : SMap.Sorted m) (k v : Bytes) : SMap.Sorted (SMap.insert m k v) := by
  induction m with
  | nil => simp [SMap.insert, SMap.Sorted]
  | cons x m ih =>
    obtain ⟨k', v'⟩ := x
    obtain ⟨hx, hm'⟩ := smap_sorted_cons.1 hm
    simp only [SMap.insert]
    by_cases h1 : k < k'
    · rw [if_pos h1]
      refine smap_sorted_cons.2 ⟨?_, hm⟩
      intro b hb
      rcases List.mem_cons.1 hb with e | e
      · subst e; exact h1
      · exact bytes_lt_trans h1 (hx b e)
    · rw [if_neg h1]
      by_cases h2 : k' = k
      · subst h2; rw [if_pos rfl]; exact smap_sorted_cons.2 ⟨hx, hm'⟩
      · rw [if_neg h2]
        refine smap_sorted_cons.2 ⟨?_, ih hm'⟩
        intro b hb
        rcases (smap_mem_insert hm' k v b).1 hb with e | ⟨e, _⟩
        · subst e
          rcases bytes_lt_trichotomy k' k with h | h | h
          · exact h
          · exact absurd h h2
          · exact absurd h h1
        · exact hx b e

theorem smap_mem_erase {m : List KV} (hm : SMap.Sorted m) (k : Bytes) (kv : KV) :
    kv ∈ SMap.erase m k ↔ (kv ∈ m ∧ kv.1 ≠ k) := by
  induction m with
  | nil => simp [SMap.erase]
  | cons x m ih =>
    obtain ⟨k', v'⟩ := x
    obtain ⟨hx, hm'⟩ := smap_sorted_cons.1 hm
    simp only [SMap.erase]
    by_cases h2 : k' = k
    · subst h2
      rw [if_pos rfl]
      simp only [List.mem_cons]
      constructor
      · intro h
        refine ⟨Or.inr h, ?_⟩
        intro hk; have := hx kv h; simp only at this; rw [hk] at this
        exact bytes_lt_irrefl _ this
      · rintro ⟨h | h, hne⟩
        · subst h; exact absurd rfl hne
        · exact h
    · rw [if_neg h2]
      simp only [List.mem_cons, ih hm']
      constructor
      · rintro (h | ⟨h, hne⟩)
        · subst h; exact ⟨Or.inl rfl, h2⟩
        · exact ⟨Or.inr h, hne⟩
      · rintro ⟨h | h, hne⟩
        · exact Or.inl h
        · exact Or.inr ⟨h, hne⟩

theorem smap_sorted_erase {m : List KV} (hm : SMap.Sorted m) (k : Bytes) : SMap.Sorted (SMap.erase m k) := by
  induction m with
  | nil => simp [SMap.erase, SMap.Sorted]
  | cons x m ih =>
    obtain ⟨k', v'⟩ := x
    obtain ⟨hx, hm'⟩ := smap_sorted_cons.1 hm
    simp only [SMap.erase]
    by_cases h2 : k' = k
    · rw [if_pos h2]; exact hm'
    · rw [if_neg h2]
      refine smap_sorted_cons.2 ⟨?_, ih hm'⟩
      intro b hb
      exact hx b ((smap_mem_erase hm' k b).1 hb).1

end OasisProofs.Mkvs
