/- Helper lemmas for the share-pool proofs (C15, C05): explicit forms of the successful branches. -/
import OasisModel.Staking.SharePool
import Mathlib.Tactic.Ring
import Mathlib.Tactic.Linarith

namespace OasisProofs.StakingH
open OasisModel OasisModel.Staking OasisModel.Staking.SharePool

theorem div_le_div_cross {a b c d : Nat} (hb : 0 < b) (hd : 0 < d) (h : a * d ≤ c * b) :
    a / b ≤ c / d := by
  rw [Nat.le_div_iff_mul_le hd]
  have h1 : a / b * b ≤ a := Nat.div_mul_le_self a b
  have h2 : a / b * d * b ≤ c * b := by
    calc a / b * d * b = a / b * b * d := by ring
      _ ≤ a * d := Nat.mul_le_mul_right d h1
      _ ≤ c * b := h
  exact Nat.le_of_mul_le_mul_right h2 hb

theorem sharesForStake_ok {p : SharePool} {a s : Nat} (h : sharesForStake p a = .ok s) :
    (p.totalShares = 0 ∧ s = a) ∨
    (p.totalShares ≠ 0 ∧ p.balance ≠ 0 ∧ s = a * p.totalShares / p.balance) := by
  unfold sharesForStake at h
  by_cases hts : p.totalShares = 0
  · simp [hts] at h; exact Or.inl ⟨hts, h.symm⟩
  · by_cases hb : p.balance = 0
    · simp [hts, hb] at h
    · simp [hts, hb] at h; exact Or.inr ⟨hts, hb, h.symm⟩

theorem deposit_ok {p : SharePool} {sd ss a : Nat} {r : DepositRes} (h : deposit p sd ss a = .ok r) :
    ∃ s, sharesForStake p a = .ok s ∧ a ≤ ss ∧
      r = { pool := { balance := p.balance + a, totalShares := p.totalShares + s },
            shareDst := sd + s, stakeSrc := ss - a, shares := s } := by
  unfold deposit at h
  cases hs : sharesForStake p a with
  | error e => simp [hs] at h
  | ok s =>
    simp only [hs] at h
    by_cases hlt : ss < a
    · simp [hlt] at h
    · simp [hlt] at h
      exact ⟨s, rfl, by omega, h.symm⟩

theorem withdraw_ok {p : SharePool} {sd ss s : Nat} {r : WithdrawRes} (h : withdraw p sd ss s = .ok r) :
    s ≤ ss ∧ s ≤ p.totalShares ∧ stakeForShares p s ≤ p.balance ∧
      r = { pool := { balance := p.balance - stakeForShares p s, totalShares := p.totalShares - s },
            stakeDst := sd + stakeForShares p s, shareSrc := ss - s } := by
  unfold withdraw at h
  simp only at h
  by_cases h1 : ss < s
  · simp [h1] at h
  · by_cases h2 : p.totalShares < s
    · simp [h1, h2] at h
    · by_cases h3 : p.balance < stakeForShares p s
      · simp [h1, h2, h3] at h
      · simp [h1, h2, h3] at h
        exact ⟨by omega, by omega, by omega, h.symm⟩

/-- The reachable-pool invariant: a pool without shares has no balance. -/
def WF (p : SharePool) : Prop := p.totalShares = 0 → p.balance = 0

theorem add_div_le_succ (a b c : Nat) (hc : 0 < c) : (a + b) / c ≤ a / c + b / c + 1 := by
  rw [Nat.div_le_iff_le_mul_add_pred hc]
  have h1 := Nat.div_add_mod a c
  have h2 := Nat.div_add_mod b c
  have h3 := Nat.mod_lt a hc
  have h4 := Nat.mod_lt b hc
  have : c * (a / c + b / c + 1) = c * (a / c) + c * (b / c) + c := by ring
  omega

end OasisProofs.StakingH
