import OasisModel.NodeDB.PathCrash
import OasisProofs.Helpers.PathBadger
/-
Lemmas for `Props/C07Path.lean` (pathbadger: crash at any boundary of a write, reopen, retry).

  * congruence of the observers (`read`, `rootsFor`, `hasRoot`) in what they look at
  * `CommitCrash`: what every proper prefix of a `NewBatch`+`Commit` plan leaves on disk, and that
    such a state still satisfies the C06 invariant `Inv`
  * the finalized key space as "last write wins" (`lastW`), the write sets of a Finalize
  * the crash states of Finalize and Prune, and what their retry computes
-/
namespace OasisProofs.PathCrashH
open OasisModel.NodeDB OasisModel.NodeDB.PathBadger OasisModel.NodeDB.PathCrash OasisProofs.PathBadgerH

/-! ### observers only look at … -/

theorem walk_congr (s q : St) (r : Root) (hget : ∀ k, getNode q r k = getNode s r k) :
    ∀ n ps, walk q r n ps = walk s r n ps := by
  intro n
  induction n with
  | zero => intro ps; rfl
  | succ n ih =>
    intro ps
    simp only [walk]
    congr 1
    funext acc p
    rw [hget p.1]
    cases getNode s r p.1 with
    | none => rfl
    | some val => simp only [ih val.kids]

/-- `read` looks at the window start, the root node and `getNode` under that root. -/
theorem read_congr (s q : St) (r : Root) (he : q.earliest = s.earliest)
    (hroot : rootVal q r.ver (r.typ, r.hash) = rootVal s r.ver (r.typ, r.hash))
    (hget : ∀ rv, rootVal s r.ver (r.typ, r.hash) = some rv → ∀ k, getNode q r k = getNode s r k) :
    PathBadger.read q r = PathBadger.read s r := by
  unfold PathBadger.read
  rw [he, hroot]
  cases hrv : rootVal s r.ver (r.typ, r.hash) with
  | none => rfl
  | some rv => simp only [walk_congr s q r (hget rv hrv)]

theorem rootVal_of_rootNode {s q : St} (h : q.rootNode = s.rootNode) (v : Nat) (th : TH) :
    rootVal q v th = rootVal s v th := by
  unfold rootVal; rw [h]

theorem rootsAt_of_rootNode {s q : St} (h : q.rootNode = s.rootNode) (v : Nat) : rootsAt q v = rootsAt s v := by
  unfold rootsAt
  have : ∀ th, rootVal q v th = rootVal s v th := fun th => rootVal_of_rootNode h v th
  simp only [h, this]

theorem rootsFor_of_rootsAt {s q : St} (he : q.earliest = s.earliest) (v : Nat) (h : rootsAt q v = rootsAt s v) :
    rootsFor q v = rootsFor s v := by
  unfold rootsFor; rw [he, h]

theorem hasRoot_of_rootVal {s q : St} (he : q.earliest = s.earliest) (r : Root)
    (h : rootVal q r.ver (r.typ, r.hash) = rootVal s r.ver (r.typ, r.hash)) : hasRoot q r = hasRoot s r := by
  unfold hasRoot; rw [he, h]

theorem finalizedGE_of_last {s q : St} (h : q.last = s.last) (v : Nat) : finalizedGE q v = finalizedGE s v := by
  unfold finalizedGE; rw [h]

/-- Under the invariant the read-back of a root is decided by `HasRoot`: every reported root reads
back completely and with the recorded hashes, every other root is not found. -/
theorem read_eq_of_inv {s : St} (h : Inv s) (r : Root) :
    PathBadger.read s r = if hasRoot s r = true then .ok else .notFound := by
  by_cases h0 : (r.hash == 0) = true
  · simp [PathBadger.read, hasRoot, h0]
  · by_cases hlt : r.ver < s.earliest
    · have : ¬ s.earliest ≤ r.ver := by omega
      simp [PathBadger.read, hasRoot, h0, hlt, this]
    · cases hrv : rootVal s r.ver (r.typ, r.hash) with
      | none => simp [PathBadger.read, hasRoot, h0, hlt, hrv]
      | some rv =>
        have hle : s.earliest ≤ r.ver := by omega
        have hc := h.closed r.ver (r.typ, r.hash) rv hrv hle
        rw [read_ok_of_closed s r _ hc hle]
        simp [hasRoot, h0, hle, hrv]

/-- Two databases with the same window and the same root-node keys, both satisfying the
invariant, are observably equal. -/
theorem obsEq_of_inv {s q : St} (hs : Inv s) (hq : Inv q) (hl : q.last = s.last) (he : q.earliest = s.earliest)
    (hr : q.rootNode = s.rootNode) : ObsEq s q where
  last := hl
  earliest := he
  roots := fun v => rootsFor_of_rootsAt he v (rootsAt_of_rootNode hr v)
  hasRoot := fun r => hasRoot_of_rootVal he r (rootVal_of_rootNode hr _ _)
  rootNode := fun v th => rootVal_of_rootNode hr v th
  read := fun r => by
    rw [read_eq_of_inv hs, read_eq_of_inv hq, hasRoot_of_rootVal he r (rootVal_of_rootNode hr _ _)]

/-! ### what a proper prefix of a Commit leaves on disk -/

/-- `q` is `s` plus leftovers of an interrupted `NewBatch`+`Commit` of root `(v, th)` of type `t`
whose batch reserved sequence number `n`: a larger sequence counter, possibly the recorded sequence
number of the (absent) root, possibly its updated-nodes index, possibly its nodes in the pending
key space under `(t, n)`.  Root-node keys, the finalized key space and the window are untouched. -/
structure CommitCrash (s q : St) (v : Nat) (th : TH) (t n : Nat) : Prop where
  rootNode : q.rootNode = s.rootNode
  fin : q.fin = s.fin
  last : q.last = s.last
  earliest : q.earliest = s.earliest
  uses : q.uses = s.uses
  seq : ∀ u th', (u, th') ≠ (v, th) → seqOf q u th' = seqOf s u th'
  upd : ∀ u th', (u, th') ≠ (v, th) → updOf q u th' = updOf s u th'
  next : ∀ u t', nextSeqOf s u t' ≤ nextSeqOf q u t'
  pendOther : ∀ u, u ≠ v → pendAt q u = pendAt s u
  pendHere : ∃ es, pendAt q v = es ++ pendAt s v ∧
    ∀ e ∈ es, e.1.1 = t ∧ e.1.2.1 = n ∧ n < nextSeqOf q v t

section CommitCrashLemmas
variable {s q : St} {v : Nat} {th : TH} {t n : Nat}

theorem CommitCrash.rootVal_eq (c : CommitCrash s q v th t n) (u : Nat) (th' : TH) :
    rootVal q u th' = rootVal s u th' := rootVal_of_rootNode c.rootNode u th'

theorem CommitCrash.usesOf_eq (c : CommitCrash s q v th t n) (u : Nat) (th' : TH) :
    usesOf q u th' = usesOf s u th' := by unfold usesOf; rw [c.uses]

theorem CommitCrash.finalizedGE_eq (c : CommitCrash s q v th t n) (u : Nat) :
    finalizedGE q u = finalizedGE s u := finalizedGE_of_last c.last u

/-- The pending-space lookup of a reported root is not disturbed by the leftovers: its sequence
number is below the one the interrupted batch reserved. -/
theorem CommitCrash.pendGet_eq (c : CommitCrash s q v th t n) (h : Inv s) (hn : n = nextSeqOf s v t)
    (hnf : finalizedGE s v = false) {u : Nat} {th' : TH} {rv : NodeVal} (hr : rootVal s u th' = some rv) (k : Key) :
    pendGet q u th'.1 (seqOf s u th') k = pendGet s u th'.1 (seqOf s u th') k := by
  unfold pendGet
  by_cases hu : u = v
  · subst hu
    obtain ⟨es, hes, hall⟩ := c.pendHere
    rw [hes, List.find?_append]
    have : es.find? (fun e => e.1 == (th'.1, seqOf s u th', k)) = none := by
      rw [List.find?_eq_none]
      intro e he hp
      simp only [beq_iff_eq] at hp
      obtain ⟨h1, h2, _⟩ := hall e he
      have hlt := h.seqlt u th' rv hr hnf
      rw [hp] at h1 h2
      simp only at h1 h2
      rw [h1, ← hn, ← h2] at hlt
      omega
    rw [this]; rfl
  · rw [c.pendOther u hu]

theorem CommitCrash.getNode_eq (c : CommitCrash s q v th t n) (h : Inv s) (hn : n = nextSeqOf s v t)
    (hnf : finalizedGE s v = false) (hfresh : rootVal s v th = none) {r : Root} {rv : NodeVal}
    (hr : rootVal s r.ver (r.typ, r.hash) = some rv) (k : Key) : getNode q r k = getNode s r k := by
  have hne : (r.ver, (r.typ, r.hash)) ≠ (v, th) := by
    intro he
    obtain ⟨h1, h2⟩ := Prod.mk.inj he
    rw [h1, h2, hfresh] at hr
    simp at hr
  apply getNode_congr
  · exact c.seq _ _ hne
  · exact c.pendGet_eq h hn hnf hr k
  · rw [c.fin]

/-- **Nothing observable has changed.** -/
theorem CommitCrash.obsEq (c : CommitCrash s q v th t n) (h : Inv s) (hn : n = nextSeqOf s v t)
    (hnf : finalizedGE s v = false) (hfresh : rootVal s v th = none) : ObsEq s q where
  last := c.last
  earliest := c.earliest
  roots := fun u => rootsFor_of_rootsAt c.earliest u (rootsAt_of_rootNode c.rootNode u)
  hasRoot := fun r => hasRoot_of_rootVal c.earliest r (c.rootVal_eq _ _)
  rootNode := c.rootVal_eq
  read := fun r => read_congr s q r c.earliest (c.rootVal_eq _ _)
    (fun _ hrv k => c.getNode_eq h hn hnf hfresh hrv k)

/-- **The invariant survives the crash** (the nodes of the interrupted batch carry keys of the
batch's version, as every batch of a tree does). -/
theorem CommitCrash.inv (c : CommitCrash s q v th t n) (h : Inv s) (hn : n = nextSeqOf s v t)
    (hnf : finalizedGE s v = false) (hfresh : rootVal s v th = none)
    (hver : ∀ e ∈ pendAt q v, e.1.2.2.1 = v) : Inv q := by
  have hne : ∀ {u th' rv}, rootVal s u th' = some rv → (u, th') ≠ (v, th) := by
    intro u th' rv hr he
    obtain ⟨h1, h2⟩ := Prod.mk.inj he
    rw [h1, h2, hfresh] at hr
    simp at hr
  constructor
  · -- closed
    intro u th' rv hr he
    rw [c.rootVal_eq] at hr
    rw [c.earliest] at he
    rw [c.usesOf_eq]
    have hc' := h.closed u th' rv hr he
    apply closed_congr s q ⟨u, th'.1, th'.2⟩ _ _ _ hc'
    · exact c.rootVal_eq _ _
    · intro k _
      have hth : (th'.1, th'.2) = th' := by cases th'; rfl
      exact c.getNode_eq h hn hnf hfresh (r := ⟨u, th'.1, th'.2⟩) (by rw [hth]; exact hr) k
  · intro u th' rv hr k hk
    rw [c.rootVal_eq] at hr
    rw [c.usesOf_eq] at hk
    rw [c.last]
    exact h.keyver u th' rv hr k hk
  · intro u hh rv hr k hk
    rw [c.rootVal_eq] at hr
    rw [c.usesOf_eq] at hk
    exact h.io u hh rv hr k hk
  · intro k ts hk
    rw [c.fin] at hk
    rw [c.last]
    exact h.tomb k ts hk
  · intro k ts val hk
    rw [c.fin] at hk
    exact h.valver k ts val hk
  · -- seq0
    intro u th' hf he
    rw [c.finalizedGE_eq] at hf
    rw [c.earliest] at he
    have : (u, th') ≠ (v, th) := by
      intro e
      rw [(Prod.mk.inj e).1, hnf] at hf
      simp at hf
    rw [c.seq u th' this]
    exact h.seq0 u th' hf he
  · -- pendfresh
    intro u e he
    by_cases hu : u = v
    · subst hu
      obtain ⟨es, hes, hall⟩ := c.pendHere
      rw [hes] at he
      have hv := hver e (by rw [hes]; exact he)
      rcases List.mem_append.1 he with he | he
      · obtain ⟨h1, h2, h4⟩ := hall e he
        rw [h1, h2]
        exact ⟨h4, hv⟩
      · exact ⟨Nat.lt_of_lt_of_le (h.pendfresh u e he).1 (c.next u e.1.1), (h.pendfresh u e he).2⟩
    · rw [c.pendOther u hu] at he
      exact ⟨Nat.lt_of_lt_of_le (h.pendfresh u e he).1 (c.next u e.1.1), (h.pendfresh u e he).2⟩
  · -- seqlt
    intro u th' rv hr hf
    rw [c.rootVal_eq] at hr
    rw [c.finalizedGE_eq] at hf
    rw [c.seq u th' (hne hr)]
    exact Nat.lt_of_lt_of_le (h.seqlt u th' rv hr hf) (c.next u th'.1)
  · -- ownpend
    intro u th' rv hr hq k hk hku
    rw [c.rootVal_eq] at hr
    rw [c.usesOf_eq] at hk
    rw [c.seq u th' (hne hr)] at hq ⊢
    rw [c.pendGet_eq h hn hnf hr k]
    exact h.ownpend u th' rv hr hq k hk hku
  · -- updrec
    intro u th' rv hr hf
    rw [c.rootVal_eq] at hr
    rw [c.finalizedGE_eq] at hf
    rw [c.usesOf_eq, c.upd u th' (hne hr)]
    exact h.updrec u th' rv hr hf
  · intro l hl; rw [c.earliest]; exact h.window l (by rw [← c.last]; exact hl)
  · intro hl; rw [c.earliest]; exact h.nolast (by rw [← c.last]; exact hl)

end CommitCrashLemmas

/-! ### the prefixes of `planCommit` -/

/-- The pending-space entries a batch with sequence number `n` writes. -/
def pendEntries (t n : Nat) (puts : List (Key × NodeVal)) : List ((Nat × Nat × Key) × NodeVal) :=
  puts.map (fun (p : Key × NodeVal) => ((t, n, p.1), p.2))

theorem commitCrash_prefix (s : St) (old new : Root) (b : Batch) (hst : new.typ = old.typ) (k : Nat) (hk : k < 4) :
    CommitCrash s (applyPrefix k s (planCommit s old new b)) new.ver (new.typ, new.hash) old.typ
      (nextSeqOf s new.ver old.typ) := by
  have hnext : ∀ u t', nextSeqOf s u t' ≤ nextSeqOf (bumpSeq s new.ver old.typ) u t' :=
    fun u t' => nextSeqOf_bump_le s new.ver old.typ u t'
  have hlt : nextSeqOf s new.ver old.typ < nextSeqOf (bumpSeq s new.ver old.typ) new.ver old.typ := by
    rw [nextSeqOf_bump]; simp
  have hseq : ∀ (P : List (Nat × List (TH × Nat))) (u : Nat) (th' : TH) (x : Nat),
      (u, th') ≠ (new.ver, (new.typ, new.hash)) →
      lookupD (lookupD ((new.ver, ((new.typ, new.hash), x) :: lookupD P new.ver []) :: P) u []) th' 0 =
        lookupD (lookupD P u []) th' 0 := by
    intro P u th' x hne
    rw [lookupD_cons]
    by_cases hu : new.ver = u
    · subst hu
      have : ¬ (new.typ, new.hash) = th' := fun e => hne (by rw [e])
      simp only [if_true, lookupD_cons, this, if_false]
    · simp only [hu, if_false]
  match k, hk with
  | 0, _ =>
    exact ⟨rfl, rfl, rfl, rfl, rfl, fun _ _ _ => rfl, fun _ _ _ => rfl, fun _ _ => Nat.le_refl _, fun _ _ => rfl,
      [], rfl, by simp⟩
  | 1, _ =>
    exact ⟨rfl, rfl, rfl, rfl, rfl, fun _ _ _ => rfl, fun _ _ _ => rfl, hnext, fun _ _ => rfl, [], rfl, by simp⟩
  | 2, _ =>
    refine ⟨rfl, rfl, rfl, rfl, rfl, ?_, fun _ _ _ => rfl, hnext, fun _ _ => rfl, [], rfl, by simp⟩
    intro u th' hne
    exact hseq s.pendSeq u th' _ hne
  | 3, _ =>
    refine ⟨rfl, rfl, rfl, rfl, rfl, ?_, ?_, hnext, ?_, ?_⟩
    · intro u th' hne
      exact hseq s.pendSeq u th' _ hne
    · intro u th' hne
      show (lookupD ([((new.ver, (new.typ, new.hash)), _)] ++ s.upd) (u, th') none).getD [] = _
      simp only [List.cons_append, List.nil_append, lookupD_cons, Ne.symm hne, if_false]
      rfl
    · intro u hu
      show lookupD ((if (nextSeqOf s new.ver old.typ == 0) = true then [] else _) ++ s.pend) u [] = _
      split
      · rfl
      · simp only [List.cons_append, List.nil_append, lookupD_cons, Ne.symm hu, if_false]
        rfl
    · show ∃ es, lookupD ((if (nextSeqOf s new.ver old.typ == 0) = true then [] else _) ++ s.pend) new.ver [] = _ ∧ _
      split
      · exact ⟨[], rfl, by simp⟩
      · refine ⟨pendEntries new.typ (nextSeqOf s new.ver old.typ) b.puts, ?_, ?_⟩
        · simp only [List.cons_append, List.nil_append, lookupD_cons, if_true]
          rfl
        · intro e he
          obtain ⟨p, _, rfl⟩ := List.mem_map.1 he
          exact ⟨hst, rfl, hlt⟩

/-- The pending entries of the crash state of a Commit carry keys of the batch's version. -/
theorem commit_prefix_pendver (s : St) (old new : Root) (b : Batch) (h : Inv s)
    (hput : ∀ p ∈ b.puts, p.1.1 = new.ver) (k : Nat) (hk : k < 4) :
    ∀ e ∈ pendAt (applyPrefix k s (planCommit s old new b)) new.ver, e.1.2.2.1 = new.ver := by
  have hold : ∀ e ∈ pendAt s new.ver, e.1.2.2.1 = new.ver := fun e he => (h.pendfresh new.ver e he).2
  match k, hk with
  | 0, _ => exact hold
  | 1, _ => exact hold
  | 2, _ => exact hold
  | 3, _ =>
    intro e he
    change e ∈ lookupD ((if (nextSeqOf s new.ver old.typ == 0) = true then [] else _) ++ s.pend) new.ver [] at he
    split at he
    · exact hold e he
    · simp only [List.cons_append, List.nil_append, lookupD_cons, if_true] at he
      rcases List.mem_append.1 he with he | he
      · obtain ⟨p, hp, rfl⟩ := List.mem_map.1 he
        exact hput p hp
      · exact hold e he


/-- The sequence counter after a crash of `NewBatch`+`Commit`: bumped as soon as the first step
(the metadata commit of `NewBatch`) is on disk. -/
theorem nextSeqOf_commit_prefix (s : St) (old new : Root) (b : Batch) (k : Nat) (hk : k < 4) :
    nextSeqOf (applyPrefix k s (planCommit s old new b)) new.ver old.typ =
      nextSeqOf s new.ver old.typ + (if k = 0 then 0 else 1) := by
  have hb1 : nextSeqOf (bumpSeq s new.ver old.typ) new.ver old.typ = nextSeqOf s new.ver old.typ + 1 := by
    rw [nextSeqOf_bump]; simp
  match k, hk with
  | 0, _ => rfl
  | 1, _ => exact hb1
  | 2, _ => exact hb1
  | 3, _ => exact hb1

/-! ### the batch hypothesis only looks at the old root's tree -/

theorem ptrOK_congr (s q : St) (old : Root) (b : Batch) (p : Key × Nat)
    (hu : usesOf q old.ver (old.typ, old.hash) = usesOf s old.ver (old.typ, old.hash))
    (hg : old.hash ≠ 0 → ∀ k, getNode q old k = getNode s old k) :
    ptrOK q old b p = ptrOK s old b p := by
  unfold ptrOK
  by_cases h0 : old.hash = 0
  · simp [h0]
  · rw [hu, hg h0]

theorem batchOK_congr (s q : St) (old new : Root) (b : Batch)
    (hl : q.last = s.last)
    (hu : usesOf q old.ver (old.typ, old.hash) = usesOf s old.ver (old.typ, old.hash))
    (hg : old.hash ≠ 0 → ∀ k, getNode q old k = getNode s old k) :
    batchOK q old new b = batchOK s old new b := by
  have hp : ∀ p, ptrOK q old b p = ptrOK s old b p := fun p => ptrOK_congr s q old b p hu hg
  have hpf : ptrOK q old b = ptrOK s old b := funext hp
  unfold batchOK
  rw [finalizedGE_of_last hl, hpf, hu]
  by_cases h0 : old.hash = 0
  · simp [h0]
  · simp only [hg h0]

/-! ### the finalized key space: the last write wins -/

/-- The last write of the batch `ws` under key `k`, if any. -/
def lastW (ws : List ((Nat × Key) × Option NodeVal)) (k : Nat × Key) : Option (Option NodeVal) :=
  match ws with
  | [] => none
  | e :: rest => (lastW rest k).or (if e.1 = k then some e.2 else none)

theorem finAt_writeAll_eq (m : FinStore) (ws : List ((Nat × Key) × Option NodeVal)) (w : Nat) (k : Nat × Key) (t : Nat) :
    finAt (finWriteAll m ws w) k t = if t = w then (lastW ws k).or (finAt m k t) else finAt m k t := by
  induction ws generalizing m with
  | nil => simp [finWriteAll, lastW]
  | cons e ws ih =>
    have : finWriteAll m (e :: ws) w = finWriteAll (finWrite m e.1 w e.2) ws w := rfl
    rw [this, ih, finAt_write]
    by_cases ht : t = w
    · subst ht
      simp only [if_true, lastW, and_true]
      by_cases he : e.1 = k
      · simp only [he, if_true]; cases lastW ws k <;> simp
      · simp only [he, if_false]; cases lastW ws k <;> simp
    · have : ¬ (e.1 = k ∧ w = t) := fun hc => ht hc.2.symm
      simp only [ht, if_false, this]

theorem lastW_eq_none {ws : List ((Nat × Key) × Option NodeVal)} {k : Nat × Key} (h : ∀ e ∈ ws, e.1 ≠ k) :
    lastW ws k = none := by
  induction ws with
  | nil => rfl
  | cons e ws ih =>
    simp only [lastW, ih (fun x hx => h x (List.mem_cons_of_mem _ hx)), h e (by simp), if_false]
    rfl

/-- A batch of tombstones leaves a tombstone under every key it mentions. -/
theorem lastW_tombs {ws : List ((Nat × Key) × Option NodeVal)} {k : Nat × Key} (hall : ∀ e ∈ ws, e.2 = none) :
    lastW ws k = if (∃ e ∈ ws, e.1 = k) then some none else none := by
  induction ws with
  | nil => simp [lastW]
  | cons e ws ih =>
    have ih' := ih (fun x hx => hall x (List.mem_cons_of_mem _ hx))
    simp only [lastW, ih', hall e (by simp)]
    by_cases h1 : ∃ x ∈ ws, x.1 = k
    · simp [h1]
    · by_cases h2 : e.1 = k
      · simp [h1, h2]
      · simp [h1, h2]

/-- Writing the same batch twice is writing it once. -/
theorem finAt_rewrite_copies (m : FinStore) (c d : List ((Nat × Key) × Option NodeVal)) (w : Nat)
    (k : Nat × Key) (t : Nat) :
    finAt (finWriteAll (finWriteAll (finWriteAll m c w) c w) d w) k t =
      finAt (finWriteAll (finWriteAll m c w) d w) k t := by
  simp only [finAt_writeAll_eq]
  by_cases ht : t = w
  · simp only [ht, if_true]
    cases lastW d k <;> cases lastW c k <;> simp
  · simp only [ht, if_false]

/-- Redoing the copies and part of the deletions of a Finalize after both were flushed changes
nothing: copied keys are never deleted, and a tombstone over a tombstone is a tombstone. -/
theorem finAt_redo (m : FinStore) (c d d' : List ((Nat × Key) × Option NodeVal)) (w : Nat)
    (hd : ∀ e ∈ d, e.2 = none) (hdisj : ∀ e ∈ c, ∀ e' ∈ d, e.1 ≠ e'.1) (hsub : ∀ e ∈ d', e ∈ d)
    (k : Nat × Key) (t : Nat) :
    finAt (finWriteAll (finWriteAll (finWriteAll (finWriteAll m c w) d w) c w) d' w) k t =
      finAt (finWriteAll (finWriteAll m c w) d w) k t := by
  simp only [finAt_writeAll_eq]
  by_cases ht : t = w
  · simp only [ht, if_true]
    have hd' : ∀ e ∈ d', e.2 = none := fun e he => hd e (hsub e he)
    rw [lastW_tombs hd, lastW_tombs hd']
    by_cases hk : ∃ e ∈ d, e.1 = k
    · obtain ⟨e', he', hk'⟩ := hk
      have hc : lastW c k = none := lastW_eq_none (fun e he hek => hdisj e he e' he' (by rw [hek, hk']))
      have : ∃ e ∈ d, e.1 = k := ⟨e', he', hk'⟩
      simp only [this, if_true, hc]
      by_cases hk2 : ∃ e ∈ d', e.1 = k <;> simp [hk2]
    · have hk2 : ¬ ∃ e ∈ d', e.1 = k := fun ⟨e, he, hek⟩ => hk ⟨e, hsub e he, hek⟩
      simp only [hk, hk2, if_false]
      cases lastW c k <;> simp
  · simp only [ht, if_false]

/-! ### two databases that answer every lookup alike -/

structure SameDB (s q : St) : Prop where
  last : q.last = s.last
  earliest : q.earliest = s.earliest
  rootNode : q.rootNode = s.rootNode
  seq : ∀ u th, seqOf q u th = seqOf s u th
  pend : ∀ u, pendAt q u = pendAt s u
  fin : ∀ k t, finAt q.fin k t = finAt s.fin k t

theorem SameDB.getNode_eq {s q : St} (h : SameDB s q) (r : Root) (k : Key) : getNode q r k = getNode s r k := by
  apply getNode_congr
  · exact h.seq _ _
  · unfold pendGet; rw [h.pend]
  · exact finGet_congr _ _ _ _ (fun t' _ => h.fin _ t')

theorem SameDB.obsEq {s q : St} (h : SameDB s q) : ObsEq s q where
  last := h.last
  earliest := h.earliest
  roots := fun u => rootsFor_of_rootsAt h.earliest u (rootsAt_of_rootNode h.rootNode u)
  hasRoot := fun r => hasRoot_of_rootVal h.earliest r (rootVal_of_rootNode h.rootNode _ _)
  rootNode := rootVal_of_rootNode h.rootNode
  read := fun r => read_congr s q r h.earliest (rootVal_of_rootNode h.rootNode _ _) (fun _ _ k => h.getNode_eq r k)

/-! ### root-node keys after a batch of deletions -/

theorem rootsAt_nulls (s : St) (v : Nat) (ths : List TH) (u : Nat) :
    rootsAt { s with rootNode := ths.map (fun th => ((v, th), (none : Option NodeVal))) ++ s.rootNode } u =
      (rootsAt s u).filter (fun th => !(decide (u = v) && ths.contains th)) := by
  have hrv : ∀ th, rootVal { s with rootNode := ths.map (fun th => ((v, th), (none : Option NodeVal))) ++ s.rootNode } u th =
      if u = v ∧ th ∈ ths then none else rootVal s u th := fun th => rootVal_nulls _ _ _ _ _
  unfold rootsAt
  simp only [hrv, List.filter_append, List.map_append]
  have h1 : List.filter (fun th => (if u = v ∧ th ∈ ths then (none : Option NodeVal) else rootVal s u th).isSome)
      (List.map (fun x => x.1.2) (List.filter (fun e => e.1.1 == u)
        (ths.map (fun th => ((v, th), (none : Option NodeVal)))))) = [] := by
    rw [List.filter_eq_nil_iff]
    intro th hth
    obtain ⟨e, he, rfl⟩ := List.mem_map.1 hth
    obtain ⟨he1, he2⟩ := List.mem_filter.1 he
    obtain ⟨th', hth', rfl⟩ := List.mem_map.1 he1
    have : u = v := (by simpa using he2 : v = u).symm
    simp [this, hth']
  rw [h1, List.nil_append, List.filter_filter]
  apply List.filter_congr
  intro th _
  by_cases hc : u = v ∧ th ∈ ths
  · simp [hc.1, hc.2]
  · simp only [hc, if_false]
    have : (decide (u = v) && ths.contains th) = false := by
      cases hd : (decide (u = v) && ths.contains th) with
      | false => rfl
      | true =>
        simp only [Bool.and_eq_true, decide_eq_true_eq, List.contains_eq_mem] at hd
        exact absurd hd hc
    rw [this]; simp

theorem any_congr_mem {α : Type} {l : List α} {f g : α → Bool} (h : ∀ x ∈ l, f x = g x) : l.any f = l.any g := by
  induction l with
  | nil => rfl
  | cons a l ih =>
    simp only [List.any_cons, h a (by simp), ih (fun x hx => h x (List.mem_cons_of_mem _ hx))]

/-- The checks of `Finalize` look at the last finalized version and at the root-node keys of the
chosen roots. -/
theorem finalizeRes_congr {s q : St} (v : Nat) (ch : List Root) (hl : q.last = s.last)
    (hr : ∀ r ∈ ch, rootVal q v (r.typ, r.hash) = rootVal s v (r.typ, r.hash)) :
    finalizeRes q v ch = finalizeRes s v ch := by
  have h1 : finalizedGE q v = finalizedGE s v := finalizedGE_of_last hl v
  have h2 : notNext q v = notNext s v := by unfold notNext; rw [hl]
  have h3 : ch.any (fun r => r.hash != 0 && (rootVal q v (r.typ, r.hash)).isNone) =
      ch.any (fun r => r.hash != 0 && (rootVal s v (r.typ, r.hash)).isNone) :=
    any_congr_mem (fun r hr' => by rw [hr r hr'])
  unfold finalizeRes
  rw [h1, h2, h3]

/-! ### what Finalize computes, as a function of what it reads -/

/-- `finPlan` with the four things it reads from the database made explicit: the root-node keys of
the version, the updated-nodes indices, the recorded sequence numbers and the pending key space. -/
def finPlanP (roots : List TH) (upd : TH → List (Bool × Key)) (seq : TH → Nat)
    (pg : Nat → Nat → Key → Option NodeVal) (chosen : List Root) : FinPlan :=
  let finRoots := roots.filter (isFin chosen)
  let disc := roots.filter (fun th => !isFin chosen th)
  let notLone : List (Nat × Key) := finRoots.flatMap (fun th =>
    ((upd th).filter (fun u => !u.1)).map (fun u => (th.1, u.2)))
  let maybeLone : List (Nat × Key) :=
    finRoots.flatMap (fun th => ((upd th).filter (·.1)).map (fun u => (th.1, u.2))) ++
    disc.flatMap (fun th => if seq th == 0 then
        ((upd th).filter (fun u => !u.1)).map (fun u => (th.1, u.2)) else [])
  let copies := finRoots.flatMap (fun th =>
    if seq th == 0 then [] else
      ((upd th).filter (fun u => !u.1)).filterMap (fun u =>
        (pg th.1 (seq th) u.2).map (fun val => ((th.1, u.2), some val))))
  { copies := copies,
    dels := (maybeLone.filter (fun k => !notLone.contains k)).map (fun k => (k, none)),
    discarded := disc }

theorem finPlan_eq_P (s : St) (v : Nat) (ch : List Root) :
    finPlan s v ch = finPlanP (rootsAt s v) (updOf s v) (seqOf s v) (pendGet s v) ch := rfl

theorem filter_isFin_idem (R : List TH) (ch : List Root) :
    (R.filter (isFin ch)).filter (isFin ch) = R.filter (isFin ch) := by
  rw [List.filter_filter]; simp

theorem filter_isFin_not (R : List TH) (ch : List Root) :
    (R.filter (isFin ch)).filter (fun th => !isFin ch th) = [] := by
  rw [List.filter_filter, List.filter_eq_nil_iff]
  intro th _; simp

/-- Once the root-node keys of the discarded roots are gone, Finalize recomputes the same copies,
discards nothing and deletes a subset of what it deleted before. -/
theorem finPlanP_after_discard (R : List TH) (upd : TH → List (Bool × Key)) (seq : TH → Nat)
    (pg : Nat → Nat → Key → Option NodeVal) (ch : List Root) :
    (finPlanP (R.filter (isFin ch)) upd seq pg ch).copies = (finPlanP R upd seq pg ch).copies ∧
    (finPlanP (R.filter (isFin ch)) upd seq pg ch).discarded = [] ∧
    ∀ e ∈ (finPlanP (R.filter (isFin ch)) upd seq pg ch).dels, e ∈ (finPlanP R upd seq pg ch).dels := by
  refine ⟨?_, ?_, ?_⟩
  · simp only [finPlanP, filter_isFin_idem]
  · simp only [finPlanP, filter_isFin_not]
  · intro e he
    simp only [finPlanP, filter_isFin_idem, filter_isFin_not, List.flatMap_nil, List.append_nil,
      List.mem_map, List.mem_filter] at he ⊢
    obtain ⟨k, ⟨hk1, hk2⟩, rfl⟩ := he
    exact ⟨k, ⟨List.mem_append_left _ hk1, hk2⟩, rfl⟩

theorem flatMap_nil_of_mem {α β : Type} {l : List α} {f : α → List β} (h : ∀ x ∈ l, f x = []) :
    l.flatMap f = [] := by
  induction l with
  | nil => rfl
  | cons a l ih =>
    rw [List.flatMap_cons, h a (by simp), ih (fun x hx => h x (List.mem_cons_of_mem _ hx))]
    rfl

/-- Once the updated-nodes indices of the version are gone as well, Finalize writes nothing. -/
theorem finPlanP_after_indices (R : List TH) (upd : TH → List (Bool × Key)) (seq : TH → Nat)
    (pg : Nat → Nat → Key → Option NodeVal) (ch : List Root) (hu : ∀ th ∈ R, upd th = []) :
    (finPlanP (R.filter (isFin ch)) upd seq pg ch).copies = [] ∧
    (finPlanP (R.filter (isFin ch)) upd seq pg ch).dels = [] ∧
    (finPlanP (R.filter (isFin ch)) upd seq pg ch).discarded = [] := by
  have hu' : ∀ th ∈ R.filter (isFin ch), upd th = [] := fun th hth => hu th (List.mem_filter.1 hth).1
  refine ⟨?_, ?_, ?_⟩
  · simp only [finPlanP, filter_isFin_idem]
    apply flatMap_nil_of_mem
    intro th hth
    rw [hu' th hth]; simp
  · simp only [finPlanP, filter_isFin_idem, filter_isFin_not, List.flatMap_nil, List.append_nil]
    have : (R.filter (isFin ch)).flatMap (fun th => ((upd th).filter (·.1)).map (fun u => (th.1, u.2))) = [] := by
      apply flatMap_nil_of_mem
      intro th hth
      rw [hu' th hth]; rfl
    rw [this]; rfl
  · simp only [finPlanP, filter_isFin_not]

/-- A copied key is a key some finalized root put; a deleted key is not. -/
theorem finPlanP_copies_dels_disjoint (R : List TH) (upd : TH → List (Bool × Key)) (seq : TH → Nat)
    (pg : Nat → Nat → Key → Option NodeVal) (ch : List Root) :
    ∀ e ∈ (finPlanP R upd seq pg ch).copies, ∀ e' ∈ (finPlanP R upd seq pg ch).dels, e.1 ≠ e'.1 := by
  intro e he e' he' heq
  simp only [finPlanP, List.mem_flatMap, List.mem_filter] at he
  obtain ⟨th, ⟨hthR, hthF⟩, hin⟩ := he
  by_cases hs : (seq th == 0) = true
  · simp [hs] at hin
  · simp only [hs, Bool.false_eq_true, if_false, List.mem_filterMap, List.mem_filter] at hin
    obtain ⟨u, ⟨hu, hu1⟩, hm⟩ := hin
    cases hp : pg th.1 (seq th) u.2 with
    | none => simp [hp] at hm
    | some val =>
      simp only [hp, Option.map_some, Option.some.injEq] at hm
      subst hm
      simp only [finPlanP, List.mem_map, List.mem_filter] at he'
      obtain ⟨k, ⟨_, hnl⟩, rfl⟩ := he'
      simp only [Bool.not_eq_true', List.contains_eq_mem, decide_eq_false_iff_not] at hnl
      apply hnl
      simp only at heq
      rw [← heq]
      exact List.mem_flatMap.2 ⟨th, List.mem_filter.2 ⟨hthR, hthF⟩,
        List.mem_map.2 ⟨u, List.mem_filter.2 ⟨hu, hu1⟩, rfl⟩⟩

theorem finPlanP_dels_tombs (R : List TH) (upd : TH → List (Bool × Key)) (seq : TH → Nat)
    (pg : Nat → Nat → Key → Option NodeVal) (ch : List Root) :
    ∀ e ∈ (finPlanP R upd seq pg ch).dels, e.2 = none := by
  intro e he
  simp only [finPlanP, List.mem_map] at he
  obtain ⟨k, _, rfl⟩ := he
  rfl

/-! ### the crash states of Finalize -/

/-- The database after the first `j` durable steps of `Finalize(v, ch)` (`planFinalize`): nothing;
the copies; (the metadata-timestamp batch of the first flush is empty in the model: write logs are
not modelled); the deletions of lone nodes and of the root-node keys of the discarded roots; the
deletion of the updated-nodes indices and of the pending key space; the metadata commit. -/
def finCrash (s : St) (v : Nat) (ch : List Root) : Nat → St
  | 0 => s
  | 1 => { s with fin := finWriteAll s.fin (finPlan s v ch).copies v }
  | 2 => { s with fin := finWriteAll s.fin (finPlan s v ch).copies v }
  | 3 => { s with
      fin := finWriteAll (finWriteAll s.fin (finPlan s v ch).copies v) (finPlan s v ch).dels v
      rootNode := (finPlan s v ch).discarded.map (fun th => ((v, th), none)) ++ s.rootNode }
  | 4 => { s with
      fin := finWriteAll (finWriteAll s.fin (finPlan s v ch).copies v) (finPlan s v ch).dels v
      rootNode := (finPlan s v ch).discarded.map (fun th => ((v, th), none)) ++ s.rootNode
      upd := (rootsAt s v).map (fun th => ((v, th), none)) ++ s.upd
      pend := (v, []) :: s.pend }
  | _ => finalizeSt s v ch

theorem applyPrefix_planFinalize (s : St) (v : Nat) (ch : List Root) (j : Nat) :
    applyPrefix j s (planFinalize s v ch) = finCrash s v ch j := by
  match j with
  | 0 => rfl
  | 1 => rfl
  | 2 => rfl
  | 3 => rfl
  | 4 => rfl
  | j + 5 =>
    unfold applyPrefix
    rw [List.take_of_length_le (by simp [planFinalize])]
    rfl

theorem rootsAt_after_discard (s q : St) (v : Nat) (ch : List Root)
    (hq : q.rootNode = (finPlan s v ch).discarded.map (fun th => ((v, th), none)) ++ s.rootNode) :
    rootsAt q v = (rootsAt s v).filter (isFin ch) := by
  let s' : St := { s with rootNode := (finPlan s v ch).discarded.map (fun th => ((v, th), (none : Option NodeVal))) ++ s.rootNode }
  have h1 : rootsAt q v = rootsAt s' v := rootsAt_of_rootNode hq v
  rw [h1]
  show rootsAt { s with rootNode := (finPlan s v ch).discarded.map (fun th => ((v, th), (none : Option NodeVal))) ++ s.rootNode } v = _
  rw [rootsAt_nulls]
  apply List.filter_congr
  intro th hth
  have hd : (finPlan s v ch).discarded = (rootsAt s v).filter (fun th => !isFin ch th) := rfl
  rw [hd]
  by_cases hf : isFin ch th = true
  · simp [hf]
  · have hf' : isFin ch th = false := by simpa using hf
    have : ((rootsAt s v).filter (fun th => !isFin ch th)).contains th = true := by
      simp only [List.contains_eq_mem, decide_eq_true_eq, List.mem_filter, Bool.not_eq_true']
      exact ⟨hth, hf'⟩
    simp [hf', hth]

/-- The retried Finalize passes its checks at every boundary. -/
theorem finalizeRes_finCrash (s : St) (v : Nat) (ch : List Root) (j : Nat) (hj : j < 5) :
    finalizeRes (finCrash s v ch j) v ch = finalizeRes s v ch := by
  have hdisc : ∀ (q : St), q.last = s.last →
      q.rootNode = (finPlan s v ch).discarded.map (fun th => ((v, th), none)) ++ s.rootNode →
      finalizeRes q v ch = finalizeRes s v ch := by
    intro q hl hq
    apply finalizeRes_congr v ch hl
    intro r hr
    have : rootVal q v (r.typ, r.hash) = if v = v ∧ (r.typ, r.hash) ∈ (finPlan s v ch).discarded then none
        else rootVal s v (r.typ, r.hash) := by
      unfold rootVal; rw [hq]; exact rootVal_nulls _ _ _ _ _
    rw [this]
    have hnd : ¬ (v = v ∧ (r.typ, r.hash) ∈ (finPlan s v ch).discarded) := by
      rintro ⟨_, hm⟩
      have := ((mem_discarded s v ch _).1 hm).2
      have hf : isFin ch (r.typ, r.hash) = true := by
        simp only [isFin, List.any_eq_true, beq_iff_eq]
        exact ⟨r, hr, rfl⟩
      rw [hf] at this; cases this
    rw [if_neg hnd]
  match j, hj with
  | 0, _ => rfl
  | 1, _ => exact finalizeRes_congr v ch rfl (fun _ _ => rfl)
  | 2, _ => exact finalizeRes_congr v ch rfl (fun _ _ => rfl)
  | 3, _ => exact hdisc _ rfl rfl
  | 4, _ => exact hdisc _ rfl rfl

/-- **The retried Finalize ends in a database that answers every lookup like the one the
uninterrupted Finalize ends in**, whichever boundary the crash hit. -/
theorem finalize_retry_sameDB (s : St) (v : Nat) (ch : List Root) (j : Nat) (hj : j < 5) :
    SameDB (finalizeSt s v ch) (finalizeSt (finCrash s v ch j) v ch) := by
  match j, hj with
  | 0, _ => exact ⟨rfl, rfl, rfl, fun _ _ => rfl, fun _ => rfl, fun _ _ => rfl⟩
  | 1, _ =>
    refine ⟨rfl, rfl, rfl, fun _ _ => rfl, fun _ => rfl, fun k t => ?_⟩
    exact finAt_rewrite_copies s.fin (finPlan s v ch).copies (finPlan s v ch).dels v k t
  | 2, _ =>
    refine ⟨rfl, rfl, rfl, fun _ _ => rfl, fun _ => rfl, fun k t => ?_⟩
    exact finAt_rewrite_copies s.fin (finPlan s v ch).copies (finPlan s v ch).dels v k t
  | 3, _ =>
    have hR : rootsAt (finCrash s v ch 3) v = (rootsAt s v).filter (isFin ch) :=
      rootsAt_after_discard s _ v ch rfl
    have hP : finPlan (finCrash s v ch 3) v ch =
        finPlanP ((rootsAt s v).filter (isFin ch)) (updOf s v) (seqOf s v) (pendGet s v) ch := by
      rw [finPlan_eq_P, hR]; rfl
    obtain ⟨hc, hd, hsub⟩ := finPlanP_after_discard (rootsAt s v) (updOf s v) (seqOf s v) (pendGet s v) ch
    rw [← hP] at hc hd hsub
    rw [← finPlan_eq_P] at hc hsub
    refine ⟨rfl, rfl, ?_, fun _ _ => rfl, fun _ => rfl, fun k t => ?_⟩
    · show (finPlan (finCrash s v ch 3) v ch).discarded.map (fun th => ((v, th), none)) ++
          ((finPlan s v ch).discarded.map (fun th => ((v, th), none)) ++ s.rootNode) = _
      rw [hd]; rfl
    · show finAt (finWriteAll (finWriteAll (finWriteAll (finWriteAll s.fin (finPlan s v ch).copies v)
          (finPlan s v ch).dels v) (finPlan (finCrash s v ch 3) v ch).copies v)
          (finPlan (finCrash s v ch 3) v ch).dels v) k t = _
      rw [hc]
      exact finAt_redo s.fin _ _ _ v
        (by rw [finPlan_eq_P]; exact finPlanP_dels_tombs _ _ _ _ _)
        (by rw [finPlan_eq_P]; exact finPlanP_copies_dels_disjoint _ _ _ _ _)
        hsub k t
  | 4, _ =>
    have hR : rootsAt (finCrash s v ch 4) v = (rootsAt s v).filter (isFin ch) :=
      rootsAt_after_discard s _ v ch rfl
    have hU : ∀ th ∈ rootsAt s v, updOf (finCrash s v ch 4) v th = [] := by
      intro th hth
      show (lookupD ((rootsAt s v).map (fun th => ((v, th), (none : Option (List (Bool × Key))))) ++ s.upd) (v, th) none).getD [] = []
      have : ∀ (l : List TH), th ∈ l →
          lookupD (l.map (fun th => ((v, th), (none : Option (List (Bool × Key))))) ++ s.upd) (v, th) none = none := by
        intro l hl
        induction l with
        | nil => simp at hl
        | cons a l ih =>
          simp only [List.map_cons, List.cons_append, lookupD]
          by_cases ha : a = th
          · simp [ha]
          · have : ¬ (v, a) = (v, th) := fun e => ha (Prod.mk.inj e).2
            simp only [this, if_false]
            rcases List.mem_cons.1 hl with rfl | hl'
            · exact absurd rfl ha
            · exact ih hl'
      rw [this _ hth]; rfl
    have hP : finPlan (finCrash s v ch 4) v ch =
        finPlanP ((rootsAt s v).filter (isFin ch)) (updOf (finCrash s v ch 4) v) (seqOf s v)
          (pendGet (finCrash s v ch 4) v) ch := by
      rw [finPlan_eq_P, hR]; rfl
    obtain ⟨hc, hd, hdisc⟩ := finPlanP_after_indices (rootsAt s v) (updOf (finCrash s v ch 4) v) (seqOf s v)
      (pendGet (finCrash s v ch 4) v) ch hU
    rw [← hP] at hc hd hdisc
    refine ⟨rfl, rfl, ?_, fun _ _ => rfl, fun u => ?_, fun k t => ?_⟩
    · show (finPlan (finCrash s v ch 4) v ch).discarded.map (fun th => ((v, th), none)) ++
          ((finPlan s v ch).discarded.map (fun th => ((v, th), none)) ++ s.rootNode) = _
      rw [hdisc]; rfl
    · show lookupD ((v, []) :: (v, []) :: s.pend) u [] = lookupD ((v, []) :: s.pend) u []
      simp only [lookupD_cons]
      split <;> rfl
    · show finAt (finWriteAll (finWriteAll (finWriteAll (finWriteAll s.fin (finPlan s v ch).copies v)
          (finPlan s v ch).dels v) (finPlan (finCrash s v ch 4) v ch).copies v)
          (finPlan (finCrash s v ch 4) v ch).dels v) k t = _
      rw [hc, hd]; rfl

/-! ### the crash states of Prune -/

theorem mem_keys_finWriteAll (m : FinStore) (ws : List ((Nat × Key) × Option NodeVal)) (w : Nat) (k : Nat × Key) :
    k ∈ (finWriteAll m ws w).map (·.1) ↔ k ∈ ws.map (·.1) ∨ k ∈ m.map (·.1) := by
  induction ws generalizing m with
  | nil => simp [finWriteAll]
  | cons e ws ih =>
    have : finWriteAll m (e :: ws) w = finWriteAll (finWrite m e.1 w e.2) ws w := rfl
    rw [this, ih]
    simp only [finWrite, List.map_cons, List.mem_cons]
    constructor
    · rintro (h | h | h)
      · exact Or.inl (Or.inr h)
      · exact Or.inl (Or.inl h)
      · exact Or.inr h
    · rintro ((h | h) | h)
      · exact Or.inr (Or.inl h)
      · exact Or.inl h
      · exact Or.inr (Or.inr h)

/-- The database after the first `j` durable steps of `Prune(v)` (`planPrune`): nothing; the io
nodes and io root-node keys of the version deleted (the metadata-timestamp batch is empty in the
model); the earliest version advanced. -/
def pruneCrash (s : St) (v : Nat) : Nat → St
  | 0 => s
  | 1 => { s with
      fin := finWriteAll s.fin ((ioKeysOf s v).map (fun k => (k, none))) v
      rootNode := ((rootsAt s v).filter (fun th => th.1 == 1)).map (fun th => ((v, th), none)) ++ s.rootNode }
  | 2 => { s with
      fin := finWriteAll s.fin ((ioKeysOf s v).map (fun k => (k, none))) v
      rootNode := ((rootsAt s v).filter (fun th => th.1 == 1)).map (fun th => ((v, th), none)) ++ s.rootNode }
  | _ => pruneSt s v

theorem applyPrefix_planPrune (s : St) (v : Nat) (j : Nat) :
    applyPrefix j s (planPrune s v) = pruneCrash s v j := by
  match j with
  | 0 => rfl
  | 1 => rfl
  | 2 => rfl
  | j + 3 =>
    unfold applyPrefix
    rw [List.take_of_length_le (by simp [planPrune])]
    rfl

/-- After the data flush of a Prune no io node of the pruned version is visible any more: the
retry finds nothing to delete. -/
theorem ioKeysOf_after_flush (s q : St) (v : Nat)
    (hq : q.fin = finWriteAll s.fin ((ioKeysOf s v).map (fun k => (k, none))) v) : ioKeysOf q v = [] := by
  unfold ioKeysOf
  rw [List.filter_eq_nil_iff]
  intro k hk
  obtain ⟨hmem, hcond⟩ := List.mem_filter.1 hk
  rw [hq, mem_keys_finWriteAll] at hmem
  by_cases hio : k ∈ ioKeysOf s v
  · -- tombstoned by the flush
    have hat : finAt q.fin k v = some none := by
      rw [hq, finAt_writeAll_eq]
      simp only [if_true]
      rw [lastW_tombs (by intro e he; obtain ⟨_, _, rfl⟩ := List.mem_map.1 he; rfl)]
      have : ∃ e ∈ (ioKeysOf s v).map (fun k => (k, (none : Option NodeVal))), e.1 = k :=
        ⟨(k, none), List.mem_map.2 ⟨k, hio, rfl⟩, rfl⟩
      rw [if_pos this]; rfl
    rw [finGet_of_finAt _ _ _ _ hat]; simp
  · -- never visible
    have hfr : finGet q.fin k v = finGet s.fin k v := by
      rw [hq]
      apply finGet_writeAll_frame
      right
      intro e he hek
      obtain ⟨k', hk', rfl⟩ := List.mem_map.1 he
      exact hio (by rw [← hek]; exact hk')
    rw [hfr]
    rcases hmem with hmem | hmem
    · exfalso
      obtain ⟨e, he, hek⟩ := List.mem_map.1 hmem
      obtain ⟨k', hk', rfl⟩ := List.mem_map.1 he
      exact hio (by rw [← hek]; exact hk')
    · intro hsome
      exact hio (List.mem_filter.2 ⟨List.mem_filter.2 ⟨hmem, hcond⟩, hsome⟩)

/-- … and no io root-node key of the pruned version. -/
theorem ioRoots_after_flush (s q : St) (v : Nat)
    (hq : q.rootNode = ((rootsAt s v).filter (fun th => th.1 == 1)).map (fun th => ((v, th), none)) ++ s.rootNode) :
    (rootsAt q v).filter (fun th => th.1 == 1) = [] := by
  let s' : St := { s with rootNode := ((rootsAt s v).filter (fun th => th.1 == 1)).map (fun th => ((v, th), (none : Option NodeVal))) ++ s.rootNode }
  have h1 : rootsAt q v = rootsAt s' v := rootsAt_of_rootNode hq v
  rw [h1]
  show (rootsAt { s with rootNode := ((rootsAt s v).filter (fun th => th.1 == 1)).map (fun th => ((v, th), (none : Option NodeVal))) ++ s.rootNode } v).filter _ = _
  rw [rootsAt_nulls, List.filter_filter, List.filter_eq_nil_iff]
  intro th hth
  by_cases h1 : (th.1 == 1) = true
  · have : ((rootsAt s v).filter (fun th => th.1 == 1)).contains th = true := by
      simp only [List.contains_eq_mem, decide_eq_true_eq, List.mem_filter]
      exact ⟨hth, h1⟩
    rw [this]; simp
  · simp [h1]

/-- **The retried Prune ends in exactly the state the uninterrupted Prune ends in.** -/
theorem pruneSt_pruneCrash (s : St) (v : Nat) (j : Nat) (hj : j < 3) :
    pruneSt (pruneCrash s v j) v = pruneSt s v := by
  match j, hj with
  | 0, _ => rfl
  | 1, _ =>
    unfold pruneSt
    rw [ioKeysOf_after_flush s (pruneCrash s v 1) v rfl, ioRoots_after_flush s (pruneCrash s v 1) v rfl]
    rfl
  | 2, _ =>
    unfold pruneSt
    rw [ioKeysOf_after_flush s (pruneCrash s v 2) v rfl, ioRoots_after_flush s (pruneCrash s v 2) v rfl]
    rfl

theorem pruneErr_pruneCrash (s : St) (v : Nat) (j : Nat) (hj : j < 3) :
    pruneErr (pruneCrash s v j) v = pruneErr s v := by
  match j, hj with
  | 0, _ => rfl
  | 1, _ => rfl
  | 2, _ => rfl

theorem obsEq_refl (s : St) : ObsEq s s :=
  ⟨rfl, rfl, fun _ => rfl, fun _ => rfl, fun _ _ => rfl, fun _ => rfl⟩

/-! ### checkpoint restore: everything below the restored version is untouched -/

/-- `q` agrees with `s` on everything an observer of a version below `v` looks at, and on the
window. -/
structure Below (v : Nat) (s q : St) : Prop where
  earliest : q.earliest = s.earliest
  last : q.last = s.last
  roots : ∀ u th, u < v → rootVal q u th = rootVal s u th
  rootsAt : ∀ u, u < v → rootsAt q u = rootsAt s u
  seqs : ∀ u th, u < v → seqOf q u th = seqOf s u th
  pend : ∀ u, u < v → pendAt q u = pendAt s u
  fin : ∀ k u, u < v → finGet q.fin k u = finGet s.fin k u

theorem Below.refl (v : Nat) (s : St) : Below v s s :=
  ⟨rfl, rfl, fun _ _ _ => rfl, fun _ _ => rfl, fun _ _ _ => rfl, fun _ _ => rfl, fun _ _ _ => rfl⟩

theorem Below.read_eq {v : Nat} {s q : St} (h : Below v s q) (r : Root) (hr : r.ver < v) :
    PathBadger.read q r = PathBadger.read s r := by
  apply read_congr s q r h.earliest (h.roots _ _ hr)
  intro _ _ k
  apply getNode_congr
  · exact h.seqs _ _ hr
  · unfold pendGet; rw [h.pend _ hr]
  · exact h.fin _ _ hr

/-- What a durable step of a restore of version `v` may do, relative to the database `cur` it is
applied to: metadata commits keep the window and the sequence numbers of the versions below `v`,
flushes write at or above `v` only.  Commits of the multipart marker are unrestricted. -/
def StepOK (v : Nat) (cur : St) : MDurable → Prop
  | .db (.metaCommit _ _ ps la e) =>
      e = cur.earliest ∧ la = cur.last ∧ ∀ u, u < v → lookupD ps u [] = lookupD cur.pendSeq u []
  | .db (.metaFlush _ _ pe) => ∀ e ∈ pe, v ≤ e.1
  | .db (.dataFlush _ ts _ rw) => v ≤ ts ∧ ∀ e ∈ rw, v ≤ e.1.1
  | .mpMeta .. => True

/-- Every step of the list is allowed for the database it is applied to. -/
def RestoreRun (v : Nat) : PSt → List MDurable → Prop
  | _, [] => True
  | p, d :: rest => StepOK v p.db d ∧ RestoreRun v (applyMStep p d) rest

theorem restoreRun_append (v : Nat) (p : PSt) (l1 l2 : List MDurable) :
    RestoreRun v p (l1 ++ l2) ↔ RestoreRun v p l1 ∧ RestoreRun v (applyMAll p l1) l2 := by
  induction l1 generalizing p with
  | nil => simp [RestoreRun, applyMAll]
  | cons d l1 ih =>
    simp only [List.cons_append, RestoreRun, ih, applyMAll, List.foldl, and_assoc]

theorem lookupD_append_ne {α β : Type} [DecidableEq α] (xs l : List (α × β)) (k : α) (d : β)
    (h : ∀ x ∈ xs, x.1 ≠ k) : lookupD (xs ++ l) k d = lookupD l k d := by
  have := lookupD_append_map_ne xs id l k d h
  simpa using this

theorem rootsAt_prepend (q q' : St) (rw : List ((Nat × TH) × Option NodeVal)) (u : Nat)
    (hq : q'.rootNode = rw ++ q.rootNode) (h : ∀ e ∈ rw, e.1.1 ≠ u) : rootsAt q' u = rootsAt q u := by
  have hrv : ∀ th, rootVal q' u th = rootVal q u th := by
    intro th
    unfold rootVal
    rw [hq]
    exact lookupD_append_ne rw _ _ _ (fun x hx hc => h x hx (by rw [hc]))
  unfold rootsAt
  simp only [hrv, hq, List.filter_append, List.map_append]
  have : List.filter (fun e => e.1.1 == u) rw = [] := by
    rw [List.filter_eq_nil_iff]
    intro e he
    simpa using h e he
  rw [this]; rfl

theorem Below.step {v : Nat} {s : St} {p : PSt} (h : Below v s p.db) (d : MDurable) (hd : StepOK v p.db d) :
    Below v s (applyMStep p d).db := by
  cases d with
  | mpMeta nm ns ver seqs => exact ⟨h.earliest, h.last, h.roots, h.rootsAt, h.seqs, h.pend, h.fin⟩
  | db d =>
    cases d with
    | metaCommit nm ns ps la e =>
      obtain ⟨he, hla, hps⟩ := hd
      refine ⟨by rw [← h.earliest]; exact he, by rw [← h.last]; exact hla, h.roots, h.rootsAt, ?_, h.pend, h.fin⟩
      intro u th hu
      show lookupD (lookupD ps u []) th 0 = _
      rw [hps u hu]; exact h.seqs u th hu
    | metaFlush nm up pe =>
      refine ⟨h.earliest, h.last, h.roots, h.rootsAt, h.seqs, ?_, h.fin⟩
      intro u hu
      show lookupD (pe ++ p.db.pend) u [] = _
      rw [lookupD_append_ne pe _ _ _ (fun x hx hc => by have := hd x hx; omega)]
      exact h.pend u hu
    | dataFlush nm ts fw rw =>
      obtain ⟨hts, hrw⟩ := hd
      refine ⟨h.earliest, h.last, ?_, ?_, h.seqs, h.pend, ?_⟩
      · intro u th hu
        show lookupD (rw ++ p.db.rootNode) (u, th) none = _
        rw [lookupD_append_ne rw _ _ _ (fun x hx hc => by
          have := hrw x hx; rw [hc] at this; simp at this; omega)]
        exact h.roots u th hu
      · intro u hu
        rw [rootsAt_prepend p.db _ rw u rfl (fun e he hc => by have := hrw e he; omega)]
        exact h.rootsAt u hu
      · intro k u hu
        show finGet (finWriteAll p.db.fin fw ts) k u = _
        rw [finGet_writeAll_frame _ _ _ _ _ (Or.inl (by omega))]
        exact h.fin k u hu

theorem Below.run {v : Nat} {s : St} (steps : List MDurable) (p : PSt) (h : Below v s p.db)
    (hr : RestoreRun v p steps) : Below v s (applyMAll p steps).db := by
  induction steps generalizing p with
  | nil => exact h
  | cons d rest ih => exact ih (applyMStep p d) (h.step d hr.1) hr.2

/-- Reopening changes nothing but the multipart marker (the journal it would replay is empty). -/
theorem recover_db (p : PSt) : (recover p).db = p.db ∧ (recover p).mpVersion = 0 := by
  unfold recover planCleanMp
  by_cases h : p.mpVersion = 0
  · simp only [h, if_true]; exact ⟨rfl, h⟩
  · simp only [h, if_false]; exact ⟨rfl, rfl⟩

/-- The plans of a restore are allowed steps. -/
theorem restoreRun_startMp (v : Nat) (p : PSt) (w : Nat) : RestoreRun v p (planStartMp p.db w) :=
  ⟨trivial, trivial⟩

theorem restoreRun_chunk (v : Nat) (p : PSt) (new : Root) (seq : Nat) (puts : List (Key × NodeVal)) (root : NodeVal)
    (hv : v ≤ new.ver) : RestoreRun v p ((planChunk p.db new seq puts root).map .db) := by
  refine ⟨⟨rfl, rfl, ?_⟩, ?_, ⟨hv, ?_⟩, trivial⟩
  · intro u hu
    show lookupD ((new.ver, _) :: p.db.pendSeq) u [] = _
    rw [lookupD_cons]
    have : ¬ new.ver = u := by omega
    simp only [this, if_false]
  · intro e he
    split at he
    · simp at he
    · simp only [List.mem_singleton] at he; rw [he]; exact hv
  · intro e he
    simp only [List.mem_singleton] at he; rw [he]; exact hv

/-- … and so are the steps of the restore's Finalize before its metadata commit. -/
theorem restoreRun_finalize_prefix (p : PSt) (v : Nat) (ch : List Root) (k : Nat) (hk : k < 5) :
    RestoreRun v p (((planFinalize p.db v ch).take k).map .db) := by
  have h1 : StepOK v p.db (.db (.dataFlush "pathbadger.finalize.1-after-copy-flush" v (finPlan p.db v ch).copies [])) :=
    ⟨Nat.le_refl _, fun e he => by simp at he⟩
  have h2 : ∀ c, StepOK v c (.db (.metaFlush "pathbadger.finalize.2-after-copymeta-flush" [] [])) :=
    fun c e he => by simp at he
  have h3 : ∀ c, StepOK v c (.db (.dataFlush "pathbadger.finalize.3-after-delete-flush" v (finPlan p.db v ch).dels
      ((finPlan p.db v ch).discarded.map (fun th => ((v, th), none))))) := by
    intro c
    refine ⟨Nat.le_refl _, fun e he => ?_⟩
    obtain ⟨th, _, rfl⟩ := List.mem_map.1 he
    exact Nat.le_refl _
  have h4 : ∀ c, StepOK v c (.db (.metaFlush "pathbadger.finalize.4-after-deletemeta-flush"
      ((rootsAt p.db v).map (fun th => ((v, th), none))) [(v, [])])) := by
    intro c e he
    simp only [List.mem_singleton] at he; rw [he]; exact Nat.le_refl _
  match k, hk with
  | 0, _ => exact trivial
  | 1, _ => exact ⟨h1, trivial⟩
  | 2, _ => exact ⟨h1, h2 _, trivial⟩
  | 3, _ => exact ⟨h1, h2 _, h3 _, trivial⟩
  | 4, _ => exact ⟨h1, h2 _, h3 _, h4 _, trivial⟩

end OasisProofs.PathCrashH
