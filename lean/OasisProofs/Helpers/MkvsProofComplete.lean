import OasisProofs.Helpers.MkvsProofSound
/-
C04 completeness: the proof the builder emits for ANY included set verifies against the root of the
tree exactly when its depth is within `maxProofDepth` (otherwise the verifier answers "max proof
depth exceeded"), rebuilds exactly the included part of the tree, and — when the included set is
the one a lookup of `k` collects — resolves `k` with the tree's answer.
-/
namespace OasisProofs.MkvsProof
open OasisModel.Mkvs OasisProofs.Mkvs

/-! ### encode/decode round trips -/

theorem le16_u16le {n : Nat} (h : n < 2 ^ 16) :
    le16 (UInt8.ofNat (n % 256)) (UInt8.ofNat (n / 256 % 256)) = n := by
  simp only [le16, UInt8.toNat_ofNat']
  omega

theorem le32_u32le {n : Nat} (h : n < 2 ^ 32) :
    le32 (UInt8.ofNat (n % 256)) (UInt8.ofNat (n / 256 % 256)) (UInt8.ofNat (n / 65536 % 256))
      (UInt8.ofNat (n / 16777216 % 256)) = n := by
  simp only [le32, UInt8.toNat_ofNat']
  omega

theorem decKey_enc (k rest : Bytes) (h : k.length < 2 ^ 16) :
    decKey (u16le k.length ++ (k ++ rest)) = some (k, rest) := by
  simp only [u16le, List.cons_append, List.nil_append, decKey, le16_u16le h]
  rw [if_neg (by simp)]
  simp

theorem decLeaf_enc (k v rest : Bytes) (hk : k.length < 2 ^ 16) (hv : v.length < 2 ^ 32) :
    decLeaf (encLeaf k v ++ rest) = some (k, v, rest) := by
  unfold decLeaf
  rw [if_neg (by simp [encLeaf, u16le_length, u32le_length]; omega)]
  simp only [encLeaf, List.cons_append, List.append_assoc]
  rw [if_neg (by simp)]
  rw [decKey_enc k _ hk]
  simp only [u32le, List.cons_append, List.nil_append, le32_u32le hv]
  rw [if_neg (by simp)]
  simp

theorem encLeaf_head (k v : Bytes) : ∃ t, encLeaf k v = 0x00 :: t := ⟨_, rfl⟩

theorem decInternal_enc (ver : Nat) (lab : Bits) (lf : Option (Bytes × Bytes)) (hl : lab.length < 2 ^ 16)
    (hlf : ∀ kv, lf = some kv → kv.1.length < 2 ^ 16 ∧ kv.2.length < 2 ^ 32) :
    decInternal (encInternal ver lab lf) =
      some ⟨lab.length, packBits lab, if ver = 0 then lf else none⟩ := by
  have hp := packBits_length lab
  unfold decInternal
  have hlen : ¬ (encInternal ver lab lf).length < 4 := by
    simp only [encInternal, List.length_cons, List.length_append, u16le_length]
    split
    · rcases lf with _ | ⟨k, v⟩ <;> simp [encLeaf] <;> omega
    · simp; omega
  rw [if_neg hlen]
  simp only [encInternal, u16le, List.cons_append, List.nil_append]
  rw [if_neg (by simp)]
  simp only [le16_u16le hl]
  rw [if_neg (by simp [hp])]
  rw [← hp, List.take_left' rfl, List.drop_left' rfl]
  by_cases hv : ver = 0
  · simp only [hv, if_true]
    rcases lf with _ | ⟨k, v⟩
    · simp
    · have hb := hlf (k, v) rfl
      have := decLeaf_enc k v [] hb.1 hb.2
      simp only [List.append_nil] at this
      simp only [encLeaf] at this ⊢
      rw [if_neg (by simp)]
      rw [this]
  · simp [hv]

theorem decEntry_full_leaf (d : Bytes) : decEntry (some (0x01 :: 0x00 :: d)) =
    (match decLeaf (0x00 :: d) with
     | some (k, v, _) => .ok (.leaf k v)
     | none => .error .node) := by
  simp [decEntry] <;> rfl

theorem decEntry_full_inode (d : Bytes) : decEntry (some (0x01 :: 0x01 :: d)) =
    (match decInternal (0x01 :: d) with
     | some n => .ok (.inode n)
     | none => .error .node) := by
  simp [decEntry] <;> rfl

theorem decEntry_hash' (d : Bytes) : decEntry (some (0x02 :: d)) =
    if d.length = 32 then .ok (.hash d) else .error .hash := by
  simp [decEntry]

theorem decEntry_leaf_enc (k v : Bytes) (hk : k.length < 2 ^ 16) (hv : v.length < 2 ^ 32) :
    decEntry (some (0x01 :: encLeaf k v)) = .ok (.leaf k v) := by
  have := decLeaf_enc k v [] hk hv
  simp only [List.append_nil] at this
  simp only [encLeaf] at this ⊢
  rw [decEntry_full_leaf, this]

theorem decEntry_inode_enc (ver : Nat) (lab : Bits) (lf : Option (Bytes × Bytes)) (hl : lab.length < 2 ^ 16)
    (hlf : ∀ kv, lf = some kv → kv.1.length < 2 ^ 16 ∧ kv.2.length < 2 ^ 32) :
    decEntry (some (0x01 :: encInternal ver lab lf)) =
      .ok (.inode ⟨lab.length, packBits lab, if ver = 0 then lf else none⟩) := by
  have := decInternal_enc ver lab lf hl hlf
  simp only [encInternal] at this ⊢
  rw [decEntry_full_inode, this]

theorem decEntry_hash_enc (h : Bytes) (hl : h.length = 32) : decEntry (some (0x02 :: h)) = .ok (.hash h) := by
  rw [decEntry_hash', if_pos hl]

/-! ### consistently annotated trees -/

/-- The cached hashes are the Merkle hashes and all length fields are in range. -/
def HOK (H : Bytes → Bytes) : HTrie → Prop
  | .nil => True
  | .leaf h k v => h = H (leafEnc k v) ∧ k.length < 2 ^ 16 ∧ v.length < 2 ^ 32
  | .node h lab lf hlf l r =>
    h = H (nodeEnc lab hlf (l.hash (H [])) (r.hash (H []))) ∧ hlf = hashLeafOpt H lf ∧
    lab.length < 2 ^ 16 ∧ (∀ kv, lf = some kv → kv.1.length < 2 ^ 16 ∧ kv.2.length < 2 ^ 32) ∧
    HOK H l ∧ HOK H r

theorem annotate_erase (H : Bytes → Bytes) (t : Trie) : (annotate H t).erase = t := by
  induction t with
  | nil => rfl
  | leaf k v => rfl
  | node lab lf l r ihl ihr => simp only [annotate, HTrie.erase, ihl, ihr]

theorem annotate_hash (H : Bytes → Bytes) (t : Trie) : (annotate H t).hash (H []) = hashWith H t := by
  induction t with
  | nil => rfl
  | leaf k v => rfl
  | node lab lf l r ihl ihr =>
    show H (nodeEnc lab (hashLeafOpt H lf) ((annotate H l).hash (H [])) ((annotate H r).hash (H []))) = _
    rw [ihl, ihr]; rfl

theorem annotate_ok (H : Bytes → Bytes) {t : Trie} (hb : t.Bounded) : HOK H (annotate H t) := by
  induction t with
  | nil => trivial
  | leaf k v => exact ⟨rfl, by have := hb.1; omega, hb.2⟩
  | node lab lf l r ihl ihr =>
    obtain ⟨b1, b2, b3, b4⟩ := hb
    refine ⟨rfl, rfl, b1, ?_, ihl b3, ihr b4⟩
    intro kv hkv
    have := b2 kv hkv
    exact ⟨by omega, this.2⟩

theorem hok_hash_length {H : Bytes → Bytes} (hlen : ∀ x, (H x).length = 32) {t : HTrie} (h : HOK H t) :
    (t.hash (H [])).length = 32 := by
  cases t with
  | nil => exact hlen _
  | leaf hh k v => rw [HTrie.hash, h.1]; exact hlen _
  | node hh lab lf hlf l r => rw [HTrie.hash, h.1]; exact hlen _

/-! ### the emitted proof verifies iff it is shallow enough -/

/-- Verifying the emission for the own-leaf child of a version 1 proof. -/
theorem verifyAux_leafSlot {H : Bytes → Bytes} (hlen : ∀ x, (H x).length = 32) (incl : List Bytes)
    (lf : Option (Bytes × Bytes)) (hlf : Bytes) (hh : hlf = hashLeafOpt H lf)
    (hb : ∀ kv, lf = some kv → kv.1.length < 2 ^ 16 ∧ kv.2.length < 2 ^ 32)
    (b : Nat) (rest : List (Option Bytes)) :
    verifyAux 1 (b + 1) (buildLeafSlot incl lf hlf ++ rest) =
      .ok (restrictLeafSlot incl lf hlf, rest) := by
  rcases lf with _ | ⟨k, v⟩
  · simp [buildLeafSlot, restrictLeafSlot, verifyAux, decEntry]
  · have hkv := hb (k, v) rfl
    simp only [buildLeafSlot, restrictLeafSlot]
    split
    · simp only [List.cons_append, List.nil_append, verifyAux, decEntry_leaf_enc k v hkv.1 hkv.2]
    · have : hlf.length = 32 := by rw [hh]; exact hlen _
      simp only [List.cons_append, List.nil_append, verifyAux, decEntry_hash_enc hlf this]

theorem buildLeafSlot_single (incl : List Bytes) (lf : Option (Bytes × Bytes)) (hlf : Bytes) :
    ∃ e, buildLeafSlot incl lf hlf = [e] := by
  rcases lf with _ | ⟨k, v⟩
  · exact ⟨_, rfl⟩
  · simp only [buildLeafSlot]; split <;> exact ⟨_, rfl⟩

theorem verifyAux_build {H : Bytes → Bytes} (hlen : ∀ x, (H x).length = 32) (ver : Nat) (hver : ver ≤ 1)
    (incl : List Bytes) (t : HTrie) :
    ∀ (b : Nat) (rest : List (Option Bytes)), HOK H t →
      verifyAux ver b (buildFrom ver incl t ++ rest) =
        if proofDepth ver incl t < b then .ok (restrict ver incl t, rest) else .error .maxDepth := by
  induction t with
  | nil =>
    intro b rest _
    cases b with
    | zero => simp [buildFrom, verifyAux, proofDepth]
    | succ b => simp [buildFrom, verifyAux, proofDepth, decEntry, restrict]
  | leaf h k v =>
    intro b rest hok
    obtain ⟨hh, hk, hv⟩ := hok
    cases b with
    | zero => simp only [buildFrom]; split <;> simp [verifyAux, proofDepth]
    | succ b =>
      simp only [buildFrom, restrict, proofDepth]
      split
      · simp [verifyAux, decEntry_leaf_enc k v hk hv]
      · have : h.length = 32 := by rw [hh]; exact hlen _
        simp [verifyAux, decEntry_hash_enc h this]
  | node h lab lf hlf l r ihl ihr =>
    intro b rest hok
    obtain ⟨hh, hhlf, hlab, hlfb, hokl, hokr⟩ := hok
    cases b with
    | zero => simp only [buildFrom]; split <;> simp [verifyAux, proofDepth]
    | succ b =>
      simp only [buildFrom, restrict, proofDepth]
      by_cases hin : incl.contains h = true
      · simp only [hin, if_true, List.cons_append, List.append_assoc]
        simp only [verifyAux, decEntry_inode_enc ver lab lf hlab hlfb]
        by_cases hv0 : ver = 0
        · subst hv0
          simp only [if_true, List.nil_append]
          rw [ihl b _ hokl]
          by_cases hdl : proofDepth 0 incl l < b
          · rw [if_pos hdl]
            simp only
            rw [ihr b _ hokr]
            by_cases hdr : proofDepth 0 incl r < b
            · rw [if_pos hdr, if_pos (by omega)]
            · rw [if_neg hdr, if_neg (by omega)]
          · rw [if_neg hdl, if_neg (by omega)]
        · have hv1 : ver = 1 := by omega
          subst hv1
          simp only [if_neg hv0, if_false]
          cases b with
          | zero =>
            rw [if_neg (by omega)]
            obtain ⟨e, he⟩ := buildLeafSlot_single incl lf hlf
            rw [he]
            simp [verifyAux]
          | succ b =>
            rw [verifyAux_leafSlot hlen incl lf hlf hhlf hlfb b]
            simp only
            rw [ihl (b + 1) _ hokl]
            by_cases hdl : proofDepth 1 incl l < b + 1
            · rw [if_pos hdl]
              simp only
              rw [ihr (b + 1) _ hokr]
              by_cases hdr : proofDepth 1 incl r < b + 1
              · rw [if_pos hdr, if_pos (by omega)]
              · rw [if_neg hdr, if_neg (by omega)]
            · rw [if_neg hdl, if_neg (by omega)]
      · have hin' : h ∉ incl := by simpa using hin
        have : h.length = 32 := by rw [hh]; exact hlen _
        simp [hin', verifyAux, decEntry_hash_enc h this]

theorem buildFrom_ne_nil (ver : Nat) (incl : List Bytes) (t : HTrie) : buildFrom ver incl t ≠ [] := by
  cases t with
  | nil => simp [buildFrom]
  | leaf h k v => simp only [buildFrom]; split <;> simp
  | node h lab lf hlf l r => simp only [buildFrom]; split <;> simp

/-- The rebuilt tree of an honest proof hashes to the tree's root. -/
theorem restrict_hashOf {H : Bytes → Bytes} (ver : Nat) (incl : List Bytes) (t : HTrie) :
    HOK H t → (restrict ver incl t).hashOf H = t.hash (H []) := by
  induction t with
  | nil => intro _; rfl
  | leaf h k v =>
    intro hok
    simp only [restrict]
    split
    · simp only [PT.hashOf, HTrie.hash, hok.1]
    · rfl
  | node h lab lf hlf l r ihl ihr =>
    intro hok
    obtain ⟨hh, hhlf, _, _, hokl, hokr⟩ := hok
    simp only [restrict]
    split
    · simp only [PT.hashOf, HTrie.hash, ihl hokl, ihr hokr, hh, nodeEnc_eq_raw]
      have : (if ver = 0 then ofLeafOpt lf else restrictLeafSlot incl lf hlf).hashOf H = hlf := by
        rw [hhlf]
        rcases lf with _ | ⟨k, v⟩
        · split <;> rfl
        · split
          · rfl
          · simp only [restrictLeafSlot]; split <;> simp [PT.hashOf, hashLeafOpt]
      rw [this]
    · rfl

/-- **Completeness, exact form**: the proof built for any included set verifies against the root
iff it is at most `maxProofDepth` deep; it then rebuilds exactly the included part of the tree. -/
theorem verifyProof_build {H : Bytes → Bytes} (hlen : ∀ x, (H x).length = 32) (ver : Nat) (hver : ver ≤ 1)
    (incl : List Bytes) (t : HTrie) (hok : HOK H t) :
    verifyProof H (t.hash (H [])) (build (H []) ver incl t) =
      if proofDepth ver incl t ≤ maxProofDepth then .ok (restrict ver incl t) else .error .maxDepth := by
  unfold verifyProof build
  simp only
  rw [if_neg (show ¬ ver > 1 by omega), if_neg (by simp)]
  have hne : (buildFrom ver incl t).isEmpty = false := by
    have := buildFrom_ne_nil ver incl t
    cases h : buildFrom ver incl t with
    | nil => exact absurd h this
    | cons _ _ => rfl
  simp only [hne]
  have := verifyAux_build hlen ver hver incl t (maxProofDepth + 1) [] hok
  rw [List.append_nil] at this
  rw [this]
  by_cases hd : proofDepth ver incl t ≤ maxProofDepth
  · rw [if_pos (show proofDepth ver incl t < maxProofDepth + 1 by omega), if_pos hd]
    simp [restrict_hashOf ver incl t hok]
  · rw [if_neg (show ¬ proofDepth ver incl t < maxProofDepth + 1 by omega), if_neg hd]
    simp

theorem proofDepth_le_ptrDepth (ver : Nat) (incl : List Bytes) (t : HTrie) :
    proofDepth ver incl t ≤ t.ptrDepth := by
  induction t with
  | nil => exact Nat.le_refl _
  | leaf h k v => exact Nat.le_refl _
  | node h lab lf hlf l r ihl ihr =>
    simp only [proofDepth, HTrie.ptrDepth]
    split <;> omega

/-! ### the lookup builder includes the lookup path; the proof resolves the key -/

theorem mem_include_self (b : Builder) (h : Bytes) (n : Nat) : h ∈ (b.include h n).incl := by
  unfold Builder.include
  split
  · next hc => simpa using hc
  · simp

theorem include_mono (b : Builder) (h : Bytes) (n : Nat) : ∀ x ∈ b.incl, x ∈ (b.include h n).incl := by
  intro x hx
  unfold Builder.include
  split
  · exact hx
  · simp [hx]

theorem includeH_mono (b : Builder) (ver : Nat) (t : HTrie) : ∀ x ∈ b.incl, x ∈ (b.includeH ver t).incl := by
  intro x hx
  cases t with
  | nil => exact hx
  | leaf h k v => exact include_mono _ _ _ x hx
  | node h lab lf hlf l r => exact include_mono _ _ _ x hx

theorem includeEnd_mono (b : Builder) (ver : Nat) (sib : Bool) (lf : Option (Bytes × Bytes)) (hlf : Bytes)
    (l r : HTrie) : ∀ x ∈ b.incl, x ∈ (b.includeEnd ver sib lf hlf l r).incl := by
  intro x hx
  unfold Builder.includeEnd
  have h1 : x ∈ (if sib = true then (b.includeH ver l).includeH ver r else b).incl := by
    split
    · exact includeH_mono _ _ _ x (includeH_mono _ _ _ x hx)
    · exact hx
  simp only
  split
  · exact h1
  · exact includeH_mono _ _ _ x h1

theorem includeSiblings_mono (b : Builder) (ver : Nat) (sib : Bool) (lf : Option (Bytes × Bytes)) (hlf : Bytes)
    (o : HTrie) : ∀ x ∈ b.incl, x ∈ (b.includeSiblings ver sib lf hlf o).incl := by
  intro x hx
  unfold Builder.includeSiblings
  split
  · simp only
    apply includeH_mono
    split
    · exact includeH_mono _ _ _ x hx
    · exact hx
  · exact hx

theorem inclGet_mono (ver : Nat) (sib : Bool) (k : Bytes) (t : HTrie) :
    ∀ (d : Nat) (stop : Bool) (b : Builder), ∀ x ∈ b.incl, x ∈ (inclGet ver sib k t d stop b).incl := by
  induction t with
  | nil => intro d stop b x hx; exact hx
  | leaf h k' v' => intro d stop b x hx; exact include_mono _ _ _ x hx
  | node h lab lf hlf l r ihl ihr =>
    intro d stop b x hx
    have h0 : x ∈ (b.includeNode ver h lab lf).incl := include_mono _ _ _ x hx
    simp only [inclGet]
    split
    · exact h0
    · split
      · exact includeEnd_mono _ _ _ _ _ _ _ x h0
      · split
        · exact h0
        · split
          · exact includeSiblings_mono _ _ _ _ _ _ x (ihr _ _ _ x h0)
          · exact includeSiblings_mono _ _ _ _ _ _ x (ihl _ _ _ x h0)

/-- If the included set contains what a lookup of `k` includes, the honest proof answers `k`. -/
theorem restrict_getAux (eh : Bytes) (ver : Nat) (sib : Bool) (k : Bytes) (incl : List Bytes) (t : HTrie) :
    ∀ (d : Nat) (b : Builder), (∀ x ∈ (inclGet ver sib k t d false b).incl, x ∈ incl) →
      (restrict ver incl t).getAux eh k d = some (t.erase.getAux k d) := by
  induction t with
  | nil => intro d b _; rfl
  | leaf h k' v' =>
    intro d b hsub
    have : h ∈ incl := hsub h (mem_include_self _ _ _)
    simp [restrict, this, PT.getAux, HTrie.erase, Trie.getAux]
  | node h lab lf hlf l r ihl ihr =>
    intro d b hsub
    have hself : h ∈ (b.includeNode ver h lab lf).incl := mem_include_self _ _ _
    simp only [inclGet, Bool.false_eq_true, if_false] at hsub
    simp only [restrict, HTrie.erase, Trie.getAux]
    by_cases hn : (toBits k).length = d + lab.length
    · rw [if_pos hn] at hsub
      have hin : incl.contains h = true := by
        have : h ∈ incl := hsub _ (includeEnd_mono _ _ _ _ _ _ _ _ hself)
        simpa using this
      simp only [hin, if_true, PT.getAux, if_pos hn]
      by_cases hv0 : ver = 0
      · simp only [hv0, if_true]
        rcases lf with _ | ⟨k', v'⟩ <;> simp [ofLeafOpt, PT.getAux]
      · simp only [hv0, if_false]
        rcases lf with _ | ⟨k', v'⟩
        · simp [restrictLeafSlot, PT.getAux]
        · have : hlf ∈ incl := by
            apply hsub
            simp only [Builder.includeEnd, if_neg hv0, leafSlot, Builder.includeH]
            exact mem_include_self _ _ _
          simp [restrictLeafSlot, this, PT.getAux]
    · rw [if_neg hn] at hsub
      by_cases hlt : (toBits k).length < d + lab.length
      · rw [if_pos hlt] at hsub
        have hin : h ∈ incl := hsub _ hself
        simp [hin, PT.getAux, hn, hlt]
      · rw [if_neg hlt] at hsub
        split at hsub
        · next tl heq =>
          have hm : ∀ x ∈ (inclGet ver sib k r (d + lab.length) false (b.includeNode ver h lab lf)).incl,
              x ∈ incl := fun x hx => hsub x (includeSiblings_mono _ _ _ _ _ _ x hx)
          have hin : incl.contains h = true := by
            have : h ∈ incl := hm _ (inclGet_mono _ _ _ _ _ _ _ _ hself)
            simpa using this
          simp only [hin, if_true, PT.getAux, if_neg hn, if_neg hlt, heq]
          exact ihr _ _ hm
        · next hne =>
          have hm : ∀ x ∈ (inclGet ver sib k l (d + lab.length) false (b.includeNode ver h lab lf)).incl,
              x ∈ incl := fun x hx => hsub x (includeSiblings_mono _ _ _ _ _ _ x hx)
          have hin : incl.contains h = true := by
            have : h ∈ incl := hm _ (inclGet_mono _ _ _ _ _ _ _ _ hself)
            simpa using this
          simp only [hin, if_true, PT.getAux, if_neg hn, if_neg hlt]
          exact ihl _ _ hm

end OasisProofs.MkvsProof
