import OasisModel.Scheduler.Elect
import OasisModel.Scheduler.Spec
import OasisProofs.Helpers.SchedulerValidators
import OasisProofs.Helpers.SchedulerCommittee
/-
Lemmas about `diffValidators` and the consensus engine's view of validator updates (C14).
-/
namespace OasisProofs.SchedulerH
open OasisModel.Scheduler

/-- One update applied to a map seen as a function key ↦ power. -/
def updF (f : Nat → Option Int) (u : Update) : Nat → Option Int :=
  fun j => if j = u.1 then (if u.2 = 0 then none else some u.2) else f j

theorem lookup_cons_eq {β : Type} (k a : Nat) (b : β) (xs : List (Nat × β)) :
    List.lookup k ((a, b) :: xs) = if k = a then some b else List.lookup k xs := by
  simp only [List.lookup_cons]
  by_cases h : k = a
  · simp [h]
  · have : (k == a) = false := by simpa using h
    simp [h, this]

theorem lookup_filter_ne (m : PMap) (k j : Nat) :
    (m.filter (fun kv => kv.1 != k)).lookup j = if j = k then none else m.lookup j := by
  induction m with
  | nil => simp
  | cons x xs ih =>
    obtain ⟨a, b⟩ := x
    by_cases hak : a = k
    · have hne : (a != k) = false := by simpa using hak
      simp only [List.filter_cons, hne, Bool.false_eq_true, if_false, ih, lookup_cons_eq]
      by_cases hj : j = k
      · simp [hj]
      · have : ¬ j = a := fun e => hj (e.trans hak)
        simp [hj, this]
    · have hne : (a != k) = true := by simpa using hak
      simp only [List.filter_cons, hne, if_true, lookup_cons_eq, ih]
      by_cases hj : j = a
      · have : ¬ j = k := fun e => hak (hj.symm.trans e)
        simp [hj]
        intro e; exact absurd (hj ▸ e) hak
      · simp [hj]

theorem lookup_map_replace (m : PMap) (k : Nat) (p : Int) (j : Nat) :
    (m.map (fun kv => if kv.1 == k then (kv.1, p) else kv)).lookup j =
      if j = k then (m.lookup k).map (fun _ => p) else m.lookup j := by
  induction m with
  | nil => simp
  | cons x xs ih =>
    obtain ⟨a, b⟩ := x
    by_cases hak : a = k
    · have hb : (a == k) = true := by simpa using hak
      simp only [List.map_cons, hb, if_true, lookup_cons_eq, ih]
      by_cases hj : j = k
      · have : j = a := hj.trans hak.symm
        simp [hj, hak]
      · have : ¬ j = a := fun e => hj (e.trans hak)
        simp [hj, this]
    · have hb : (a == k) = false := by simpa using hak
      simp only [List.map_cons, hb, Bool.false_eq_true, if_false, lookup_cons_eq, ih]
      by_cases hj : j = a
      · have hjk : ¬ j = k := fun e => hak (hj.symm.trans e)
        have hka : ¬ k = a := fun e => hak e.symm
        simp [hj, hak]
      · by_cases hjk : j = k
        · have hka : ¬ k = a := fun e => hj (hjk.trans e)
          simp [hj, hjk, hka]
        · simp [hj, hjk]

theorem lookup_append_single (m : PMap) (k : Nat) (p : Int) (j : Nat) (h : m.lookup k = none) :
    (m ++ [(k, p)]).lookup j = if j = k then some p else m.lookup j := by
  induction m with
  | nil => simp only [List.nil_append, lookup_cons_eq]
  | cons x xs ih =>
    obtain ⟨a, b⟩ := x
    rw [lookup_cons_eq] at h
    by_cases hka : k = a
    · simp [hka] at h
    · simp only [hka, if_false] at h
      simp only [List.cons_append, lookup_cons_eq, ih h]
      by_cases hj : j = a
      · have : ¬ j = k := fun e => hka (e.symm.trans hj)
        simp [hj]
        intro e; exact absurd e.symm hka
      · simp [hj]

theorem lookup_apply1 (m : PMap) (u : Update) (j : Nat) :
    (PMap.apply1 m u).lookup j = updF (fun k => m.lookup k) u j := by
  obtain ⟨k, p⟩ := u
  unfold PMap.apply1 updF
  simp only
  by_cases hp : p = 0
  · simp only [hp, if_true]
    exact lookup_filter_ne m k j
  · simp only [hp, if_false]
    cases hl : m.lookup k with
    | none =>
      simp only [Option.isSome_none, Bool.false_eq_true, if_false]
      exact lookup_append_single m k p j hl
    | some q =>
      simp only [Option.isSome_some, if_true]
      rw [lookup_map_replace, hl]
      simp

theorem lookup_applyUpdates (us : List Update) : ∀ (m : PMap) (j : Nat),
    (applyUpdates m us).lookup j = us.foldl updF (fun k => m.lookup k) j := by
  induction us with
  | nil => intro m j; simp [applyUpdates]
  | cons u us ih =>
    intro m j
    simp only [applyUpdates, List.foldl_cons] at ih ⊢
    rw [ih (PMap.apply1 m u) j]
    have : (fun k => (PMap.apply1 m u).lookup k) = updF (fun k => m.lookup k) u := by
      funext k; exact lookup_apply1 m u k
    rw [this]

theorem foldl_updF_not_mem (us : List Update) : ∀ (f : Nat → Option Int) (j : Nat),
    j ∉ us.map (·.1) → us.foldl updF f j = f j := by
  induction us with
  | nil => intro f j _; rfl
  | cons u us ih =>
    intro f j h
    simp only [List.map_cons, List.mem_cons, not_or] at h
    simp only [List.foldl_cons]
    rw [ih _ _ h.2]
    simp [updF, h.1]

theorem foldl_updF_mem (us : List Update) : ∀ (f : Nat → Option Int) (j : Nat) (p : Int),
    (us.map (·.1)).Nodup → (j, p) ∈ us → us.foldl updF f j = if p = 0 then none else some p := by
  induction us with
  | nil => intro f j p _ h; simp at h
  | cons u us ih =>
    intro f j p hnd h
    simp only [List.map_cons, List.nodup_cons] at hnd
    simp only [List.foldl_cons]
    rcases List.mem_cons.1 h with rfl | h
    · rw [foldl_updF_not_mem _ _ _ hnd.1]
      simp [updF]
    · exact ih _ _ _ hnd.2 h

theorem lookup_toPMap (m : VMap) (j : Nat) : (toPMap m).lookup j = powerIn m j := by
  unfold toPMap powerIn
  induction m with
  | nil => simp
  | cons x xs ih =>
    obtain ⟨a, b⟩ := x
    simp only [List.map_cons, List.lookup_cons]
    split <;> simp_all

theorem lookup_of_mem_nodup {β : Type} : ∀ (m : List (Nat × β)) (k : Nat) (v : β),
    (m.map (·.1)).Nodup → (k, v) ∈ m → m.lookup k = some v := by
  intro m
  induction m with
  | nil => intro k v _ h; simp at h
  | cons x xs ih =>
    intro k v hnd h
    obtain ⟨a, b⟩ := x
    simp only [List.map_cons, List.nodup_cons, List.mem_map, not_exists, not_and] at hnd
    simp only [List.lookup_cons]
    rcases List.mem_cons.1 h with heq | h
    · have : k = a ∧ v = b := by simpa using heq
      simp [this.1, this.2]
    · have hne : k ≠ a := fun e => hnd.1 (k, v) h e
      have : (k == a) = false := by simpa using hne
      simp only [this]
      exact ih k v hnd.2 h

theorem mem_of_lookup {β : Type} : ∀ (m : List (Nat × β)) (k : Nat) (v : β),
    m.lookup k = some v → (k, v) ∈ m := by
  intro m
  induction m with
  | nil => intro k v h; simp at h
  | cons x xs ih =>
    intro k v h
    obtain ⟨a, b⟩ := x
    simp only [List.lookup_cons] at h
    split at h
    · rename_i heq
      have : k = a := by simpa using heq
      simp at h
      simp [this, h]
    · exact List.mem_cons_of_mem _ (ih k v h)

theorem lookup_none_iff {β : Type} : ∀ (m : List (Nat × β)) (k : Nat),
    m.lookup k = none ↔ k ∉ m.map (·.1) := by
  intro m
  induction m with
  | nil => intro k; simp
  | cons x xs ih =>
    intro k
    obtain ⟨a, b⟩ := x
    simp only [List.lookup_cons, List.map_cons, List.mem_cons, not_or]
    by_cases hka : k = a
    · simp [hka]
    · have : (k == a) = false := by simpa using hka
      simp only [this, ih k]
      exact ⟨fun h => ⟨hka, h⟩, fun h => h.2⟩

end OasisProofs.SchedulerH
