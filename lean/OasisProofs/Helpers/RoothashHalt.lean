import OasisModel.Roothash.Timer
import OasisProofs.Helpers.RoothashTimer
import OasisProofs.Helpers.RoothashProcess
/-
Helper lemmas for C10 at the roothash application's `EndBlock` (`OasisProofs.Props.C10Timer`):
what a `tryFinalizeRound` call keeps of a runtime state, when it cannot fail, the two loops of `EndBlock`,
the steps of a block, reachable states.
-/
namespace OasisProofs.Roothash.Halt
open OasisModel.Roothash OasisModel.Roothash.Timer OasisProofs.Roothash.Timer

variable {π : Type}

/-- `G` is closed under processing and reset. -/
def Closed (O : PoolOracle π) (G : π → Prop) : Prop :=
  (∀ p t, G p → G (O.process p t).1) ∧ (∀ p, G p → G (O.reset p))

theorem closed_of_safe {O : PoolOracle π} {G : π → Prop} (hS : PoolSafe O G) : Closed O G :=
  ⟨hS.process_good, hS.reset_good⟩

theorem closed_true (O : PoolOracle π) : Closed O (fun _ => True) := ⟨fun _ _ _ => trivial, fun _ _ => trivial⟩

/-! ### updates of one runtime -/

theorem live_iff (s : State π) (id : Nat) :
    s.Live id ↔ ∃ r, s.rts id = some r ∧ r.suspended = false ∧ r.hasCommittee = true ∧ ∃ p, r.pool = some p := by
  constructor
  · rintro ⟨r, p, h1, h2, h3, h4⟩; exact ⟨r, h1, h2, h3, p, h4⟩
  · rintro ⟨r, h1, h2, h3, p, h4⟩; exact ⟨r, p, h1, h2, h3, h4⟩

theorem live_congr {s s' : State π} (h : s'.rts = s.rts) (j : Nat) : s'.Live j ↔ s.Live j := by
  simp only [State.Live, h]

theorem live_upd_other {s s' : State π} {id : Nat} {r' : Runtime π} (hr : s'.rts = setRt s.rts id r')
    {j : Nat} (hj : j ≠ id) : s'.Live j ↔ s.Live j := by
  simp only [State.Live, hr, setRt, if_neg hj]

theorem live_upd_same {s s' : State π} {id : Nat} {r' : Runtime π} (hr : s'.rts = setRt s.rts id r')
    (h1 : r'.suspended = false) (h2 : r'.hasCommittee = true) {p : π} (h3 : r'.pool = some p) :
    s'.Live id :=
  ⟨r', p, by simp [hr, setRt], h1, h2, h3⟩

theorem armedLive_congr {s s' : State π} (h : s'.rts = s.rts) (ha : ArmedLive s) : ArmedLive s' := by
  intro j r hj; rw [h] at hj; exact ha j r hj

theorem armedLive_upd {s s' : State π} {id : Nat} {r' : Runtime π} (hr : s'.rts = setRt s.rts id r')
    (ha : ArmedLive s)
    (hl : r'.nextTimeout ≠ timeoutNever →
      r'.suspended = false ∧ r'.hasCommittee = true ∧ ∃ p, r'.pool = some p) : ArmedLive s' := by
  intro j r hj hn
  rw [hr] at hj
  by_cases e : j = id
  · subst e
    simp only [setRt, if_true, Option.some.injEq] at hj
    subst hj
    exact hl hn
  · simp only [setRt, if_neg e] at hj
    exact ha j r hj hn

theorem poolsGood_congr {G : π → Prop} {s s' : State π} (h : s'.rts = s.rts) (hg : PoolsGood G s) :
    PoolsGood G s' := by
  intro j r p hj; rw [h] at hj; exact hg j r p hj

theorem poolsGood_upd {G : π → Prop} {s s' : State π} {id : Nat} {r' : Runtime π}
    (hr : s'.rts = setRt s.rts id r') (hg : PoolsGood G s) (hp : ∀ p, r'.pool = some p → G p) :
    PoolsGood G s' := by
  intro j r p hj hpool
  rw [hr] at hj
  by_cases e : j = id
  · subst e
    simp only [setRt, if_true, Option.some.injEq] at hj
    subst hj
    exact hp p hpool
  · simp only [setRt, if_neg e] at hj
    exact hg j r p hj hpool

/-- Under `QueueMatches`, the invariant in terms of the queue and in terms of `NextTimeout` agree. -/
theorem queuedLive_of {s : State π} (hq : QueueMatches s) (ha : ArmedLive s) : QueuedLive s := by
  intro t id hm
  obtain ⟨ht, hne⟩ := (hq t id).mp hm
  cases hr : s.rts id with
  | none => rw [timerOf_of_none hr] at ht; exact absurd ht.symm hne
  | some r =>
    rw [timerOf_of_some hr] at ht
    obtain ⟨h1, h2, p, h3⟩ := ha id r hr (by rw [ht]; exact hne)
    exact ⟨r, p, hr, h1, h2, h3⟩

theorem armedLive_of {s : State π} (hq : QueueMatches s) (hl : QueuedLive s) : ArmedLive s := by
  intro id r hr hn
  have hm : (r.nextTimeout, id) ∈ s.queue := (hq _ id).mpr ⟨timerOf_of_some hr, hn⟩
  obtain ⟨r2, p, hr2, h1, h2, h3⟩ := hl _ id hm
  rw [hr] at hr2
  cases hr2
  exact ⟨h1, h2, p, h3⟩

/-! ### what one call keeps -/

theorem failRound_keeps {O : PoolOracle π} {id : Nat} {r : Runtime π} {q : Queue} {p : π} {why : Res}
    {timeout disc : Bool} {r' : Runtime π} {q' : Queue} {ev : Ev}
    (hc : failRound O id r q p why timeout disc = some (r', q', ev)) :
    r'.suspended = r.suspended ∧ r'.hasCommittee = r.hasCommittee ∧ r'.pool = some (O.reset p) := by
  unfold failRound at hc
  split at hc
  · exact absurd hc (by simp)
  · simp only [finalizeBlock, Option.some.injEq, Prod.mk.injEq] at hc
    obtain ⟨rfl, _, _⟩ := hc
    exact ⟨rfl, rfl, rfl⟩

theorem conclude_keeps {O : PoolOracle π} {id : Nat} {r : Runtime π} {q : Queue} {p : π} {res : Res}
    {timeout disc : Bool} {r' : Runtime π} {q' : Queue} {ev : Ev}
    (hc : conclude O id r q p res timeout disc = some (r', q', ev)) :
    r'.suspended = r.suspended ∧ r'.hasCommittee = r.hasCommittee ∧
      (r'.pool = some (O.reset p) ∨ r'.pool = some p) := by
  have hf : ∀ {why : Res}, failRound O id r q p why timeout disc = some (r', q', ev) →
      r'.suspended = r.suspended ∧ r'.hasCommittee = r.hasCommittee ∧
        (r'.pool = some (O.reset p) ∨ r'.pool = some p) := by
    intro why h
    obtain ⟨a, b, c⟩ := failRound_keeps h
    exact ⟨a, b, Or.inl c⟩
  unfold conclude at hc
  split at hc
  · split at hc
    · simp only [finalizeBlock, Option.some.injEq, Prod.mk.injEq] at hc
      obtain ⟨rfl, _, _⟩ := hc
      exact ⟨rfl, rfl, Or.inl rfl⟩
    · exact hf hc
    · exact absurd hc (by simp)
  · simp only [Option.some.injEq, Prod.mk.injEq] at hc
    obtain ⟨rfl, _, _⟩ := hc
    exact ⟨rfl, rfl, Or.inr rfl⟩
  · exact hf hc
  · exact hf hc
  · exact hf hc
  · exact absurd hc (by simp)
  · exact absurd hc (by simp)

/-- A call that returned without error keeps the flags and leaves a pool (obtained from the old one by
processing and reset). -/
theorem insideTx_keeps {O : PoolOracle π} {h : Int} {id : Nat} {r : Runtime π} {p : π} {q : Queue}
    {timeout : Bool} {r' : Runtime π} {q' : Queue} {ev : Ev}
    (hc : insideTx O h id r p q timeout = some (r', q', ev)) :
    r'.suspended = r.suspended ∧ r'.hasCommittee = r.hasCommittee ∧
      ∃ p', r'.pool = some p' ∧ ∀ G : π → Prop, Closed O G → G p → G p' := by
  unfold insideTx at hc
  simp only at hc
  split at hc
  · obtain ⟨a, b, c⟩ := conclude_keeps hc
    refine ⟨a, b, ?_⟩
    rcases c with c | c
    · exact ⟨_, c, fun G hcl hg => hcl.2 _ (hcl.1 _ _ (hcl.1 _ _ hg))⟩
    · exact ⟨_, c, fun G hcl hg => hcl.1 _ _ (hcl.1 _ _ hg)⟩
  · obtain ⟨a, b, c⟩ := conclude_keeps hc
    refine ⟨a, b, ?_⟩
    rcases c with c | c
    · exact ⟨_, c, fun G hcl hg => hcl.2 _ (hcl.1 _ _ hg)⟩
    · exact ⟨_, c, fun G hcl hg => hcl.1 _ _ hg⟩

theorem tryFinalizeRound_keeps {O : PoolOracle π} {h : Int} {timeout : Bool} {s s' : State π} {id : Nat}
    {ev : Ev} (hc : tryFinalizeRound O h timeout s id = some (s', ev)) :
    ∃ (r r' : Runtime π) (p p' : π), s.rts id = some r ∧ s'.rts = setRt s.rts id r' ∧
      r.suspended = false ∧ r.hasCommittee = true ∧ r.pool = some p ∧
      r'.suspended = false ∧ r'.hasCommittee = true ∧ r'.pool = some p' ∧
      ∀ G : π → Prop, Closed O G → G p → G p' := by
  unfold tryFinalizeRound at hc
  split at hc
  · exact absurd hc (by simp)
  · rename_i r hr
    split at hc
    · exact absurd hc (by simp)
    · rename_i hs
      split at hc
      · exact absurd hc (by simp)
      · rename_i hcm
        split at hc
        · exact absurd hc (by simp)
        · rename_i p hp
          split at hc
          · exact absurd hc (by simp)
          · rename_i r' q' ev' hin
            simp only [Option.some.injEq, Prod.mk.injEq] at hc
            obtain ⟨rfl, rfl⟩ := hc
            obtain ⟨a, b, p', c, d⟩ := insideTx_keeps hin
            have hs' : r.suspended = false := by simpa using hs
            have hcm' : r.hasCommittee = true := by simpa using hcm
            exact ⟨r, r', p, p', hr, rfl, hs', hcm', hp, a.trans hs', b.trans hcm', c, d⟩

theorem tryFinalizeRound_live {O : PoolOracle π} {h : Int} {timeout : Bool} {s s' : State π} {id : Nat}
    {ev : Ev} (hc : tryFinalizeRound O h timeout s id = some (s', ev)) (j : Nat) (hl : s.Live j) :
    s'.Live j := by
  obtain ⟨r, r', p, p', _, hs', _, _, _, h1, h2, h3, _⟩ := tryFinalizeRound_keeps hc
  by_cases e : j = id
  · subst e; exact live_upd_same hs' h1 h2 h3
  · exact (live_upd_other hs' e).mpr hl

theorem tryFinalizeRound_armedLive {O : PoolOracle π} {h : Int} {timeout : Bool} {s s' : State π}
    {id : Nat} {ev : Ev} (hc : tryFinalizeRound O h timeout s id = some (s', ev)) (ha : ArmedLive s) :
    ArmedLive s' := by
  obtain ⟨r, r', p, p', _, hs', _, _, _, h1, h2, h3, _⟩ := tryFinalizeRound_keeps hc
  exact armedLive_upd hs' ha (fun _ => ⟨h1, h2, p', h3⟩)

theorem tryFinalizeRound_poolsGood {O : PoolOracle π} {G : π → Prop} (hcl : Closed O G) {h : Int}
    {timeout : Bool} {s s' : State π} {id : Nat} {ev : Ev}
    (hc : tryFinalizeRound O h timeout s id = some (s', ev)) (hg : PoolsGood G s) : PoolsGood G s' := by
  obtain ⟨r, r', p, p', hr, hs', _, _, hp, _, _, h3, hG⟩ := tryFinalizeRound_keeps hc
  apply poolsGood_upd hs' hg
  intro x hx
  rw [h3] at hx
  cases hx
  exact hG G hcl (hg id r p hr hp)

/-! ### when a call cannot fail -/

theorem failRound_isSome {O : PoolOracle π} {id : Nat} {r : Runtime π} {q : Queue} {p : π} {why : Res}
    {timeout disc : Bool} (hs : O.hasScheduler p = true) :
    ∃ x, failRound O id r q p why timeout disc = some x := by
  unfold failRound
  rw [hs]
  exact ⟨_, rfl⟩

theorem conclude_isSome {O : PoolOracle π} {id : Nat} {r : Runtime π} {q : Queue} {p : π} {res : Res}
    {timeout disc : Bool} (hpost : O.post p ≠ Post.abort) (hs : O.hasScheduler p = true)
    (h1 : res ≠ Res.discrepancyDetected) (h2 : res ≠ Res.nilDeref) :
    ∃ x, conclude O id r q p res timeout disc = some x := by
  unfold conclude
  cases res with
  | ok =>
    cases hp : O.post p with
    | normal => exact ⟨_, rfl⟩
    | badMessages => exact failRound_isSome hs
    | abort => exact absurd hp hpost
  | stillWaiting => exact ⟨_, rfl⟩
  | noSchedulerCommitment => exact failRound_isSome hs
  | badSchedulerCommitment => exact failRound_isSome hs
  | insufficientVotes => exact failRound_isSome hs
  | discrepancyDetected => exact absurd rfl h1
  | nilDeref => exact absurd rfl h2

theorem insideTx_isSome {O : PoolOracle π} {G : π → Prop} (hS : PoolSafe O G) (h : Int) (id : Nat)
    (r : Runtime π) {p : π} (hG : G p) (q : Queue) (timeout : Bool) :
    ∃ x, insideTx O h id r p q timeout = some x := by
  unfold insideTx
  simp only
  have g1 : G (O.process p timeout).1 := hS.process_good _ _ hG
  split
  · rename_i hd
    have g2 : G (O.process (O.process p timeout).1 (backupTimeout h r.roundTimeout == h)).1 :=
      hS.process_good _ _ g1
    exact conclude_isSome (hS.no_abort _ g2) (hS.scheduler _ g2) (hS.retry _ _ _ hG hd)
      (hS.no_nil _ _ g1)
  · rename_i hd
    exact conclude_isSome (hS.no_abort _ g1) (hS.scheduler _ g1) hd (hS.no_nil _ _ hG)

/-- `tryFinalizeRound` for a live runtime with a good pool returns without error. -/
theorem tryFinalizeRound_isSome {O : PoolOracle π} {G : π → Prop} (hS : PoolSafe O G) (h : Int)
    (timeout : Bool) {s : State π} {id : Nat} (hl : s.Live id) (hg : PoolsGood G s) :
    ∃ x, tryFinalizeRound O h timeout s id = some x := by
  obtain ⟨r, p, hr, h1, h2, h3⟩ := hl
  obtain ⟨⟨r', q', ev⟩, hx⟩ := insideTx_isSome hS h id r (hg id r p hr h3) s.queue timeout
  unfold tryFinalizeRound
  simp only [hr, h1, h2, h3, hx]
  exact ⟨_, rfl⟩

/-! ### the loops -/

theorem finalizeAll_isSome {O : PoolOracle π} {G : π → Prop} (hS : PoolSafe O G) (h : Int) (t : Bool) :
    ∀ (ids : List Nat) (s : State π), PoolsGood G s → (∀ id ∈ ids, s.Live id) →
      ∃ x, finalizeAll O h t ids s = some x := by
  intro ids
  induction ids with
  | nil => intro s _ _; exact ⟨_, rfl⟩
  | cons id rest ih =>
    intro s hg hl
    obtain ⟨⟨s1, ev⟩, h1⟩ := tryFinalizeRound_isSome hS h t (hl id List.mem_cons_self) hg
    obtain ⟨⟨s2, evs⟩, h2⟩ := ih s1 (tryFinalizeRound_poolsGood (closed_of_safe hS) h1 hg)
      (fun j hj => tryFinalizeRound_live h1 j (hl j (List.mem_cons_of_mem _ hj)))
    refine ⟨(s2, ev :: evs), ?_⟩
    unfold finalizeAll
    simp only [h1, h2]

theorem finalizeAll_armedLive {O : PoolOracle π} {h : Int} {t : Bool} {ids : List Nat} {s s' : State π}
    {evs : List Ev} (hc : finalizeAll O h t ids s = some (s', evs)) (ha : ArmedLive s) : ArmedLive s' :=
  (finalizeAll_induct ArmedLive (fun _ => True)
    (fun _ _ _ _ hp h1 => ⟨tryFinalizeRound_armedLive h1 hp, trivial⟩) ids s s' evs ha hc).1

theorem finalizeAll_poolsGood {O : PoolOracle π} {G : π → Prop} (hcl : Closed O G) {h : Int} {t : Bool}
    {ids : List Nat} {s s' : State π} {evs : List Ev} (hc : finalizeAll O h t ids s = some (s', evs))
    (hg : PoolsGood G s) : PoolsGood G s' :=
  (finalizeAll_induct (PoolsGood G) (fun _ => True)
    (fun _ _ _ _ hp h1 => ⟨tryFinalizeRound_poolsGood hcl h1 hp, trivial⟩) ids s s' evs hg hc).1

theorem finalizeAll_live {O : PoolOracle π} {h : Int} {t : Bool} {ids : List Nat} {s s' : State π}
    {evs : List Ev} (hc : finalizeAll O h t ids s = some (s', evs)) (j : Nat) (hl : s.Live j) :
    s'.Live j :=
  (finalizeAll_induct (fun x => x.Live j) (fun _ => True)
    (fun _ _ _ _ hp h1 => ⟨tryFinalizeRound_live h1 j hp, trivial⟩) ids s s' evs hl hc).1

/-! ### `EndBlock` -/

theorem tryFinalizeRounds_isSome {O : PoolOracle π} {G : π → Prop} (hS : PoolSafe O G) (h : Int)
    {s : State π} (hg : PoolsGood G s) (hr : RegisteredLive s) :
    ∃ x, tryFinalizeRounds O h s = some x :=
  finalizeAll_isSome hS h false s.toFinalize s hg hr

theorem processRoundTimeouts_isSome {O : PoolOracle π} {G : π → Prop} (hS : PoolSafe O G) (h : Int)
    {s : State π} (hg : PoolsGood G s) (hl : QueuedLive s) :
    ∃ x, processRoundTimeouts O h s = some x :=
  finalizeAll_isSome hS h true _ s hg (fun id hm => hl h id ((mem_timeoutsAt _ _ _).mp hm))

theorem endBlock_isSome {O : PoolOracle π} {G : π → Prop} (hS : PoolSafe O G) (h : Int) {s : State π}
    (hq : QueueMatches s) (ha : ArmedLive s) (hg : PoolsGood G s) (hr : RegisteredLive s) :
    ∃ x, endBlock O h s = some x := by
  obtain ⟨⟨s1, evs1⟩, h1⟩ := tryFinalizeRounds_isSome hS h hg hr
  have hq1 : QueueMatches s1 := finalizeAll_queueMatches h1 hq
  have ha1 : ArmedLive s1 := finalizeAll_armedLive h1 ha
  have hg1 : PoolsGood G s1 := finalizeAll_poolsGood (closed_of_safe hS) h1 hg
  obtain ⟨⟨s2, evs2⟩, h2⟩ := processRoundTimeouts_isSome hS h hg1 (queuedLive_of hq1 ha1)
  refine ⟨(s2, evs1 ++ evs2), ?_⟩
  unfold endBlock
  simp only [h1, h2]

theorem endBlock_armedLive {O : PoolOracle π} {h : Int} {s s' : State π} {evs : List Ev}
    (hc : endBlock O h s = some (s', evs)) (ha : ArmedLive s) : ArmedLive s' := by
  obtain ⟨s1, evs1, evs2, h1, h2, _⟩ := endBlock_split hc
  exact finalizeAll_armedLive h2 (finalizeAll_armedLive h1 ha)

theorem endBlock_poolsGood {O : PoolOracle π} {G : π → Prop} (hcl : Closed O G) {h : Int} {s s' : State π}
    {evs : List Ev} (hc : endBlock O h s = some (s', evs)) (hg : PoolsGood G s) : PoolsGood G s' := by
  obtain ⟨s1, evs1, evs2, h1, h2, _⟩ := endBlock_split hc
  exact finalizeAll_poolsGood hcl h2 (finalizeAll_poolsGood hcl h1 hg)

/-! ### the steps of a block -/

theorem mem_register (l : List Nat) (id j : Nat) : j ∈ register l id ↔ j ∈ l ∨ j = id := by
  induction l with
  | nil => simp [register]
  | cons x rest ih =>
    unfold register
    split
    · simp only [List.mem_cons]; constructor
      · rintro (e | e | e)
        · exact Or.inr e
        · exact Or.inl (Or.inl e)
        · exact Or.inl (Or.inr e)
      · rintro ((e | e) | e)
        · exact Or.inr (Or.inl e)
        · exact Or.inr (Or.inr e)
        · exact Or.inl e
    · split
      · rename_i e
        subst e
        simp only [List.mem_cons]
        constructor
        · exact Or.inl
        · rintro (e | e)
          · exact e
          · exact Or.inl e
      · simp only [List.mem_cons, ih]
        constructor
        · rintro (e | e | e)
          · exact Or.inl (Or.inl e)
          · exact Or.inl (Or.inr e)
          · exact Or.inr e
        · rintro ((e | e) | e)
          · exact Or.inl e
          · exact Or.inr (Or.inl e)
          · exact Or.inr (Or.inr e)

/-- What a step does to the runtime states: nothing, or one runtime is replaced. -/
theorem step_cases {h : Int} {s s' : State π} {st : Step π} (hc : step h s st = some s') :
    (s' = s) ∨
    (∃ id rt, st = .newRuntime id rt ∧ s.rts id = none ∧ s'.toFinalize = s.toFinalize ∧
      s'.rts = setRt s.rts id { roundTimeout := rt }) ∨
    (∃ id suspend hasC pool rt r r', st = .committeeChanged id suspend hasC pool rt ∧ s.rts id = some r ∧
      s'.toFinalize = s.toFinalize ∧ s'.rts = setRt s.rts id r' ∧ r'.nextTimeout = timeoutNever ∧
      r'.suspended = suspend ∧ r'.hasCommittee = (!suspend && hasC) ∧
      r'.pool = (if suspend then none else some pool) ∧
      s'.queue = rearm s.queue id r.nextTimeout timeoutNever) ∨
    (∃ id pool rc r r', st = .executorCommit id pool rc ∧ s.rts id = some r ∧
      s'.toFinalize = register s.toFinalize id ∧ s'.rts = setRt s.rts id r' ∧
      r'.suspended = false ∧ r'.hasCommittee = true ∧ r'.pool = some pool) := by
  cases st with
  | newRuntime id rt =>
    simp only [Timer.step] at hc
    split at hc
    · simp only [Option.some.injEq] at hc; exact Or.inl hc.symm
    · rename_i hn
      simp only [Option.some.injEq] at hc; subst hc
      exact Or.inr (Or.inl ⟨id, rt, rfl, hn, rfl, rfl⟩)
  | committeeChanged id suspend hasC pool rt =>
    simp only [Timer.step] at hc
    split at hc
    · exact absurd hc (by simp)
    · rename_i r hr
      simp only [finalizeBlock, Option.some.injEq] at hc; subst hc
      exact Or.inr (Or.inr (Or.inl ⟨id, suspend, hasC, pool, rt, r, _, rfl, hr, rfl, rfl, rfl, rfl, rfl, rfl,
        rfl⟩))
  | executorCommit id pool rc =>
    simp only [Timer.step] at hc
    split at hc
    · simp only [Option.some.injEq] at hc; exact Or.inl hc.symm
    · rename_i r hr
      split at hc
      · simp only [Option.some.injEq] at hc; exact Or.inl hc.symm
      · rename_i hg
        simp only [Bool.or_eq_true, not_or, Bool.not_eq_true, Bool.not_eq_eq_eq_not, Bool.not_true] at hg
        simp only [executorCommitArm, Option.some.injEq] at hc; subst hc
        refine Or.inr (Or.inr (Or.inr ⟨id, pool, rc, r, _, rfl, hr, rfl, rfl, hg.1.1, ?_, rfl⟩))
        have := hg.1.2
        simpa using this

theorem step_armedLive {h : Int} {s s' : State π} {st : Step π} (hc : step h s st = some s')
    (ha : ArmedLive s) : ArmedLive s' := by
  rcases step_cases hc with e | ⟨id, rt, _, _, _, hr⟩ | ⟨id, su, hC, pl, rt, r, r', _, _, _, hr, hn, _⟩ |
      ⟨id, pl, rc, r, r', _, _, _, hr, h1, h2, h3⟩
  · subst e; exact ha
  · exact armedLive_upd hr ha (fun hn => absurd rfl hn)
  · exact armedLive_upd hr ha (fun hn' => absurd hn hn')
  · exact armedLive_upd hr ha (fun _ => ⟨h1, h2, pl, h3⟩)

theorem step_poolsGood {G : π → Prop} {h : Int} {s s' : State π} {st : Step π}
    (hG : ∀ p, st.pool? = some p → G p) (hc : step h s st = some s') (hg : PoolsGood G s) :
    PoolsGood G s' := by
  rcases step_cases hc with e | ⟨id, rt, _, _, _, hr⟩ |
      ⟨id, su, hC, pl, rt, r, r', hst, _, _, hr, _, _, _, hp, _⟩ |
      ⟨id, pl, rc, r, r', hst, _, _, hr, _, _, h3⟩
  · subst e; exact hg
  · exact poolsGood_upd hr hg (fun p hp => by simp at hp)
  · apply poolsGood_upd hr hg
    intro p hp'
    rw [hp] at hp'
    subst hst
    cases su with
    | true => simp at hp'
    | false =>
      simp only [Bool.false_eq_true, if_false, Option.some.injEq] at hp'
      subst hp'
      exact hG _ (by simp [Step.pool?])
  · apply poolsGood_upd hr hg
    intro p hp'
    rw [h3] at hp'
    cases hp'
    subst hst
    exact hG _ rfl

/-- A step keeps "every registered runtime is live" when a committee change only happens while nothing is
registered; a step that is not an accepted executor commit registers nothing. -/
theorem step_registeredLive {h : Int} {s s' : State π} {st : Step π} (hc : step h s st = some s')
    (hr : RegisteredLive s) (hcc : st.isCommitteeChange = true → s.toFinalize = []) :
    RegisteredLive s' ∧ (st.isCommit = false → s'.toFinalize = s.toFinalize) := by
  rcases step_cases hc with e | ⟨id, rt, hst, hn, htf, hrts⟩ |
      ⟨id, su, hC, pl, rt, r, r', hst, _, htf, hrts, _⟩ |
      ⟨id, pl, rc, r, r', hst, _, htf, hrts, h1, h2, h3⟩
  · subst e; exact ⟨hr, fun _ => rfl⟩
  · refine ⟨?_, fun _ => htf⟩
    intro j hj
    rw [htf] at hj
    have hl := hr j hj
    have hne : j ≠ id := by
      rintro rfl
      obtain ⟨r, _, hr', _⟩ := hl
      rw [hn] at hr'
      exact absurd hr' (by simp)
    exact (live_upd_other hrts hne).mpr hl
  · subst hst
    have he := hcc rfl
    refine ⟨?_, fun _ => htf⟩
    intro j hj
    rw [htf, he] at hj
    exact absurd hj (by simp)
  · subst hst
    refine ⟨?_, fun hf => absurd hf (by simp [Step.isCommit])⟩
    intro j hj
    rw [htf, mem_register] at hj
    by_cases e : j = id
    · subst e; exact live_upd_same hrts h1 h2 h3
    · rcases hj with hj | hj
      · exact (live_upd_other hrts e).mpr (hr j hj)
      · exact absurd hj e

theorem steps_cons {h : Int} {st : Step π} {rest : List (Step π)} {s s' : State π}
    (hc : steps h (st :: rest) s = some s') : ∃ s1, step h s st = some s1 ∧ steps h rest s1 = some s' := by
  simp only [steps] at hc
  split at hc
  · exact absurd hc (by simp)
  · rename_i s1 h1
    exact ⟨s1, h1, hc⟩

theorem steps_armedLive {h : Int} : ∀ {sts : List (Step π)} {s s' : State π},
    steps h sts s = some s' → ArmedLive s → ArmedLive s' := by
  intro sts
  induction sts with
  | nil => intro s s' hc hq; simp only [steps, Option.some.injEq] at hc; subst hc; exact hq
  | cons st rest ih =>
    intro s s' hc hq
    obtain ⟨s1, h1, h2⟩ := steps_cons hc
    exact ih h2 (step_armedLive h1 hq)

theorem steps_poolsGood {G : π → Prop} {h : Int} : ∀ {sts : List (Step π)} {s s' : State π},
    (∀ st ∈ sts, ∀ p, st.pool? = some p → G p) → steps h sts s = some s' → PoolsGood G s →
      PoolsGood G s' := by
  intro sts
  induction sts with
  | nil => intro s s' _ hc hq; simp only [steps, Option.some.injEq] at hc; subst hc; exact hq
  | cons st rest ih =>
    intro s s' hG hc hq
    obtain ⟨s1, h1, h2⟩ := steps_cons hc
    exact ih (fun x hx => hG x (List.mem_cons_of_mem _ hx)) h2
      (step_poolsGood (hG st List.mem_cons_self) h1 hq)

theorem steps_registeredLive {h : Int} : ∀ {sts : List (Step π)} {s s' : State π},
    sts.Pairwise (fun a c => ¬(a.isCommit = true ∧ c.isCommitteeChange = true)) →
    (s.toFinalize = [] ∨ ∀ c ∈ sts, c.isCommitteeChange = false) →
    steps h sts s = some s' → RegisteredLive s → RegisteredLive s' := by
  intro sts
  induction sts with
  | nil => intro s s' _ _ hc hq; simp only [steps, Option.some.injEq] at hc; subst hc; exact hq
  | cons st rest ih =>
    intro s s' hpw hd hc hq
    obtain ⟨s1, h1, h2⟩ := steps_cons hc
    rw [List.pairwise_cons] at hpw
    have hcc : st.isCommitteeChange = true → s.toFinalize = [] := by
      intro hst
      rcases hd with hd | hd
      · exact hd
      · have := hd st List.mem_cons_self
        rw [hst] at this
        exact absurd this (by simp)
    obtain ⟨hq1, htf⟩ := step_registeredLive h1 hq hcc
    refine ih hpw.2 ?_ h2 hq1
    cases hic : st.isCommit with
    | true =>
      right
      intro c hcm
      have := hpw.1 c hcm
      cases hx : c.isCommitteeChange with
      | false => rfl
      | true => exact absurd ⟨hic, hx⟩ this
    | false =>
      rcases hd with hd | hd
      · left; rw [htf hic]; exact hd
      · right; exact fun c hcm => hd c (List.mem_cons_of_mem _ hcm)

/-! ### reachable states -/

theorem execBlock_armedLive {O : PoolOracle π} {b : Block π} {s s' : State π} {evs : List Ev}
    (hc : execBlock O b s = some (s', evs)) (ha : ArmedLive s) : ArmedLive s' := by
  unfold execBlock at hc
  split at hc
  · exact absurd hc (by simp)
  · rename_i s1 hst
    exact endBlock_armedLive hc (steps_armedLive hst (fun j r hj => ha j r hj))

theorem execBlock_poolsGood {O : PoolOracle π} {G : π → Prop} (hcl : Closed O G) {b : Block π}
    (hb : b.PoolsIn G) {s s' : State π} {evs : List Ev} (hc : execBlock O b s = some (s', evs))
    (hg : PoolsGood G s) : PoolsGood G s' := by
  unfold execBlock at hc
  split at hc
  · exact absurd hc (by simp)
  · rename_i s1 hst
    exact endBlock_poolsGood hcl hc (steps_poolsGood hb hst (fun j r p hj => hg j r p hj))

theorem empty_armedLive : ArmedLive (State.empty : State π) := by
  intro j r hj; simp [State.empty] at hj

theorem empty_poolsGood (G : π → Prop) : PoolsGood G (State.empty : State π) := by
  intro j r p hj; simp [State.empty] at hj

theorem reachable_armedLive {O : PoolOracle π} {H h : Int} {s : State π} (hr : Reachable O H h s) :
    ArmedLive s := by
  induction hr with
  | init h0 _ => exact empty_armedLive
  | block b _ _ _ _ hc ih => exact execBlock_armedLive hc ih

theorem reachableG_reachable {O : PoolOracle π} {G : π → Prop} {H h : Int} {s : State π}
    (hr : ReachableG O G H h s) : Reachable O H h s := by
  induction hr with
  | init h0 h0pos => exact .init h0 h0pos
  | block b _ hb hH hok _ hc ih => exact .block b ih hb hH hok hc

theorem reachable_reachableG_true {O : PoolOracle π} {H h : Int} {s : State π}
    (hr : Reachable O H h s) : ReachableG O (fun _ => True) H h s := by
  induction hr with
  | init h0 h0pos => exact .init h0 h0pos
  | block b _ hb hH hok hc ih => exact .block b ih hb hH hok (fun _ _ _ _ => trivial) hc

theorem reachableG_poolsGood {O : PoolOracle π} {G : π → Prop} (hcl : Closed O G) {H h : Int}
    {s : State π} (hr : ReachableG O G H h s) : PoolsGood G s := by
  induction hr with
  | init h0 _ => exact empty_poolsGood G
  | block b _ _ _ _ hb hc ih => exact execBlock_poolsGood hcl hb hc ih

theorem reachable_queueMatches {O : PoolOracle π} {H h : Int} {s : State π} (hr : Reachable O H h s) :
    QueueMatches s := by
  induction hr with
  | init h0 _ => exact empty_queueMatches
  | block b _ _ _ _ hc ih => exact execBlock_queueMatches hc ih

/-- `BeginBlock` fails only in `onRuntimeCommitteeChanged` for a runtime without roothash state
(roothash.go:146-149). -/
theorem step_none_iff {h : Int} {s : State π} {st : Step π} :
    step h s st = none ↔ ∃ id su hC p rt, st = .committeeChanged id su hC p rt ∧ s.rts id = none := by
  constructor
  · intro hc
    cases st with
    | newRuntime id rt =>
      simp only [Timer.step] at hc
      split at hc <;> exact absurd hc (by simp)
    | committeeChanged id su hC p rt =>
      simp only [Timer.step] at hc
      split at hc
      · rename_i hn; exact ⟨id, su, hC, p, rt, rfl, hn⟩
      · exact absurd hc (by simp)
    | executorCommit id p rc =>
      simp only [Timer.step] at hc
      split at hc
      · exact absurd hc (by simp)
      · split at hc <;> exact absurd hc (by simp)
  · rintro ⟨id, su, hC, p, rt, rfl, hn⟩
    simp only [Timer.step, hn]

/-! ### the pool model of `OasisModel.Roothash` -/

/-- Pools (with committee and straggler allowance) for which `EndBlock` cannot fail: the committee has a
worker and the entry at `HighestRank`, if any, holds the scheduler's commitment. -/
def GoodPool (x : Committee × Nat × Pool) : Prop :=
  workerTotal x.1 > 0 ∧ ∀ sc, x.2.2.scs x.2.2.highestRank = some sc → ∃ o, sc.commitment = some o

theorem processInner_no_nil (c : Committee) (p : Pool) (s : Nat) (tmo : Bool)
    (hp : ∀ sc, p.scs p.highestRank = some sc → ∃ o, sc.commitment = some o) :
    processInner c p s tmo ≠ Res.nilDeref := by
  unfold processInner
  cases hsc : p.scs p.highestRank with
  | none => simp only; split <;> simp
  | some sc =>
    obtain ⟨o, h1⟩ := hp sc hsc
    simp only [h1]
    repeat' split
    all_goals first | exact OasisProofs.Roothash.resolve_some_no_nilDeref _ _ _ _ _ | simp

theorem process_fst_entry (c : Committee) (p : Pool) (s : Nat) (tmo : Bool) :
    (process c p s tmo).1.highestRank = p.highestRank ∧
      (process c p s tmo).1.scs p.highestRank = p.scs p.highestRank := by
  unfold process
  split <;> simp

theorem goodPool_process (post : Committee × Nat × Pool → Post) (x : Committee × Nat × Pool) (t : Bool)
    (hg : GoodPool x) : GoodPool ((poolOracle post).process x t).1 := by
  obtain ⟨h1, h2⟩ := hg
  obtain ⟨e1, e2⟩ := process_fst_entry x.1 x.2.2 x.2.1 t
  refine ⟨h1, ?_⟩
  intro sc hsc
  simp only [poolOracle] at hsc
  rw [e1, e2] at hsc
  exact h2 sc hsc

theorem goodPool_reset (post : Committee × Nat × Pool → Post) (x : Committee × Nat × Pool)
    (hg : GoodPool x) : GoodPool ((poolOracle post).reset x) :=
  ⟨hg.1, fun sc hsc => by simp [poolOracle, Pool.empty] at hsc⟩

/-! ### data for witnesses and non-vacuity examples -/

theorem toyO_safe : PoolSafe toyO (fun _ => True) where
  process_good := fun _ _ _ => trivial
  reset_good := fun _ _ => trivial
  no_abort := fun p _ => by simp [toyO]
  no_nil := fun p t _ => by cases p <;> cases t <;> simp [toyO]
  retry := fun p t t' _ => by cases p <;> cases t <;> cases t' <;> simp [toyO]
  scheduler := fun _ _ => rfl

/-- `ProcessCommitments` answers `nil` but the code after it returns an error (finalization.go:173,…). -/
def abortO : PoolOracle Bool where
  process := fun d _ => (d, .ok)
  post := fun _ => .abort
  hasScheduler := fun _ => true
  reset := fun _ => false

/-- A committee without workers: `failRound` cannot find the primary scheduler. -/
def noSchedO : PoolOracle Bool where
  process := fun d t => (d, if t then .insufficientVotes else .stillWaiting)
  post := fun _ => .normal
  hasScheduler := fun _ => false
  reset := fun _ => false

/-- A pool that reports a discrepancy again when retried. -/
def discO : PoolOracle Bool where
  process := fun d _ => (d, .discrepancyDetected)
  post := fun _ => .normal
  hasScheduler := fun _ => true
  reset := fun _ => false

/-- A pool whose scheduler entry has no commitment. -/
def nilO : PoolOracle Bool where
  process := fun d _ => (d, .nilDeref)
  post := fun _ => .normal
  hasScheduler := fun _ => true
  reset := fun _ => false

theorem rtOk_10_2 : RtOk 10 2 := by
  simp only [RtOk, two63]; omega

/-- The epoch transition that suspends runtime 0. -/
def blockSuspend (h rt : Int) : Block Bool := { height := h, steps := [.committeeChanged 0 true false false rt] }

theorem blockSuspend_ok (H h rt : Int) (hrt : RtOk H rt) : (blockSuspend h rt).Ok H := by
  intro st hm r hr
  simp only [blockSuspend, List.mem_cons, List.not_mem_nil, or_false] at hm
  subst hm
  simp [Step.roundTimeout?] at hr
  subst hr
  exact hrt

theorem blockEmpty_ok (H h : Int) : (blockEmpty h).Ok H := by
  intro st hm; simp [blockEmpty] at hm

/-- A committee change after an executor commit in the same block (not a block the multiplexer can
build): runtime 0 is registered for finalization and then suspended. -/
def blockUnordered : Block Bool :=
  { height := 1,
    steps := [.newRuntime 0 1, .committeeChanged 0 false true false 1, .executorCommit 0 false true,
              .committeeChanged 0 true false false 1] }

theorem poolsIn_true (b : Block π) : b.PoolsIn (fun _ => True) := fun _ _ _ _ => trivial

theorem reachableG_two {O : PoolOracle π} {G : π → Prop} {H h : Int} (h0 : 0 ≤ h) (b1 b2 : Block π)
    (e1 : b1.height = h + 1) (e2 : b2.height = b1.height + 1) (hH : b2.height ≤ H)
    (ok1 : b1.Ok H) (ok2 : b2.Ok H) (g1 : b1.PoolsIn G) (g2 : b2.PoolsIn G)
    (r1 : (execBlock O b1 State.empty).isSome = true)
    (r2 : (execBlock O b2 (after (execBlock O b1 State.empty))).isSome = true) :
    ReachableG O G H b2.height (after (execBlock O b2 (after (execBlock O b1 State.empty)))) :=
  .block b2 (.block b1 (.init h h0) e1 (by omega) ok1 g1 (eq_some_after r1)) e2 hH ok2 g2 (eq_some_after r2)

theorem reachableStale_two {O : PoolOracle π} {H h : Int} (h0 : 0 ≤ h) (b1 b2 : Block π)
    (e1 : b1.height = h + 1) (e2 : b2.height = b1.height + 1) (hH : b2.height ≤ H)
    (ok1 : b1.Ok H) (ok2 : b2.Ok H)
    (r1 : (execBlockStale O b1 State.empty).isSome = true)
    (r2 : (execBlockStale O b2 (after (execBlockStale O b1 State.empty))).isSome = true) :
    ReachableStale O H b2.height
      (after (execBlockStale O b2 (after (execBlockStale O b1 State.empty)))) :=
  .block b2 (.block b1 (.init h h0) e1 (by omega) ok1 (eq_some_after r1)) e2 hH ok2 (eq_some_after r2)

end OasisProofs.Roothash.Halt
