import OasisProofs.Helpers.MkvsKey
/-
`Key.CommonPrefixLen` and `Key.Merge` of node/key.go (byte-level transcriptions in
`OasisModel.Mkvs.Key`) equal the bit-list operations of the trie model: the length of the longest
common prefix of the two truncated bit strings, and the concatenation of the two truncated bit
strings packed into bytes.  Unbounded (any key lengths).
-/
namespace OasisProofs.Mkvs
open OasisModel.Mkvs
open OasisModel.Mkvs.Iter (toBytesLen)

/-! ### `CommonPrefixLen` -/

/-- Truncating both bit strings truncates the common prefix. -/
theorem lcp_take_take (X Y : Bits) (a b : Nat) :
    lcp (X.take a) (Y.take b) = min (min (lcp X Y) a) b := by
  induction X generalizing Y a b with
  | nil => simp [lcp_nil_left]
  | cons x xs ih =>
    cases Y with
    | nil => simp [lcp_nil_right]
    | cons y ys =>
      cases a with
      | zero => simp [lcp_nil_left]
      | succ a =>
        cases b with
        | zero => simp [lcp_nil_right]
        | succ b =>
          simp only [List.take_succ_cons, lcp]
          by_cases h : x = y
          · simp only [h, if_true, ih]; omega
          · simp [h]

/-- The byte loop of `CommonPrefixLen` followed by `LeadingZeros8` of the first differing pair. -/
def cplBytes : Bytes → Bytes → Nat
  | a :: as, b :: bs => if a = b then cplBytes as bs + 8 else Key.leadingZeros8 (a ^^^ b)
  | _, _ => 0

/-- The value `CommonPrefixLen` holds before it is capped by the two bit lengths. -/
def cplPre (k k2 : Bytes) : Nat :=
  let i := ((List.range (min k2.length k.length)).takeWhile (fun j => Key.byteAt k j == Key.byteAt k2 j)).length
  if i != k.length && i != k2.length then i * 8 + Key.leadingZeros8 (Key.byteAt k i ^^^ Key.byteAt k2 i)
  else i * 8

theorem commonPrefixLen_eq_pre (k : Bytes) (a : Nat) (k2 : Bytes) (b : Nat) :
    Key.commonPrefixLen k a k2 b = min (min (cplPre k k2) a) b := by
  simp only [Key.commonPrefixLen, cplPre]

theorem cplPre_eq_cplBytes (k k2 : Bytes) : cplPre k k2 = cplBytes k k2 := by
  induction k generalizing k2 with
  | nil => simp [cplPre, cplBytes]
  | cons a as ih =>
    cases k2 with
    | nil => simp [cplPre, cplBytes]
    | cons b bs =>
      have hmin : min (b :: bs).length (a :: as).length = min bs.length as.length + 1 := by
        simp only [List.length_cons]; omega
      have ih' := ih bs
      simp only [cplPre] at ih' ⊢
      rw [hmin, List.range_succ_eq_map, List.takeWhile_cons]
      by_cases hab : a = b
      · subst hab
        have h0 : (Key.byteAt (a :: as) 0 == Key.byteAt (a :: bs) 0) = true := by simp [Key.byteAt]
        simp only [h0, if_true, List.takeWhile_map, List.length_cons, List.length_map]
        have hfun : ((fun j => Key.byteAt (a :: as) j == Key.byteAt (a :: bs) j) ∘ Nat.succ)
            = (fun j => Key.byteAt as j == Key.byteAt bs j) := by
          funext j; simp [Function.comp, byteAt_cons_succ]
        rw [hfun]
        simp only [cplBytes, if_true, byteAt_cons_succ]
        rw [← ih']
        generalize ((List.range (min bs.length as.length)).takeWhile
          (fun j => Key.byteAt as j == Key.byteAt bs j)).length = i
        by_cases h1 : i = as.length <;> by_cases h2 : i = bs.length <;> simp [h1, h2] <;> omega
      · have h0 : (Key.byteAt (a :: as) 0 == Key.byteAt (b :: bs) 0) = false := by
          simp [Key.byteAt, hab]
        simp [cplBytes, hab, Key.byteAt]

/-- Bits of a byte, most significant first, by position. -/
theorem byteBits_eq_map (b : UInt8) : byteBits b = (List.range 8).map (fun i => tb b (7 - i)) := by
  apply List.ext_getElem
  · simp [byteBits_length]
  · intro i h1 h2
    have hi : i < 8 := by simpa [byteBits_length] using h1
    have := byteBits_getD b i hi
    rw [List.getD_eq_getElem?_getD, List.getElem?_eq_getElem h1] at this
    simpa using this

theorem tb_xor (a b : UInt8) (j : Nat) : tb (a ^^^ b) j = (tb a j != tb b j) := by
  simp [tb, UInt8.toNat_xor, Nat.testBit_xor, bne]

/-- Common prefix of two equally long lists = leading `false`s of their pointwise difference. -/
theorem lcp_map_map {α} (l : List α) (f g : α → Bool) :
    lcp (l.map f) (l.map g) = ((l.map (fun x => f x != g x)).takeWhile (· == false)).length := by
  induction l with
  | nil => simp [lcp]
  | cons x xs ih =>
    simp only [List.map_cons, lcp, List.takeWhile_cons]
    by_cases h : f x = g x
    · simp [h, ih]
    · have : (f x != g x) = true := by simpa [bne_iff_ne] using h
      simp [h, this]

theorem lcp_byteBits (a b : UInt8) : lcp (byteBits a) (byteBits b) = Key.leadingZeros8 (a ^^^ b) := by
  rw [byteBits_eq_map, byteBits_eq_map, lcp_map_map]
  simp only [Key.leadingZeros8]
  congr 2
  apply List.map_congr_left
  intro i _
  exact (tb_xor a b (7 - i)).symm

/-- A difference inside the first (equally long) blocks decides the common prefix. -/
theorem lcp_append_of_ne (u w : Bits) (hl : u.length = w.length) (hne : u ≠ w) (X Y : Bits) :
    lcp (u ++ X) (w ++ Y) = lcp u w := by
  induction u generalizing w with
  | nil => cases w with
    | nil => exact absurd rfl hne
    | cons _ _ => simp at hl
  | cons x xs ih =>
    cases w with
    | nil => simp at hl
    | cons y ys =>
      simp only [List.cons_append, lcp]
      by_cases h : x = y
      · subst h
        have hne' : xs ≠ ys := fun e => hne (by rw [e])
        simp [ih ys (by simpa using hl) hne']
      · simp [h]

theorem cplBytes_eq_lcp (k k2 : Bytes) : cplBytes k k2 = lcp (toBits k) (toBits k2) := by
  induction k generalizing k2 with
  | nil => simp [cplBytes, toBits, lcp_nil_left]
  | cons a as ih =>
    cases k2 with
    | nil => simp [cplBytes, toBits, lcp_nil_right]
    | cons b bs =>
      simp only [cplBytes, toBits_cons]
      by_cases hab : a = b
      · subst hab
        simp only [if_true, lcp_append_left, byteBits_length, ih]; omega
      · simp only [hab, if_false]
        rw [lcp_append_of_ne _ _ (by simp [byteBits_length]) (fun e => hab (byteBits_injective e))]
        exact (lcp_byteBits a b).symm

/-- `Key.CommonPrefixLen` on bytes is the length of the longest common prefix of the two keys'
bit strings truncated to their bit lengths (any lengths, no well-formedness needed). -/
theorem key_commonPrefixLen_eq (k : Bytes) (keyLen : Nat) (k2 : Bytes) (k2Len : Nat) :
    Key.commonPrefixLen k keyLen k2 k2Len = lcp ((toBits k).take keyLen) ((toBits k2).take k2Len) := by
  rw [commonPrefixLen_eq_pre, cplPre_eq_cplBytes, cplBytes_eq_lcp, lcp_take_take]


/-! ### `Merge` -/

/-- One iteration of the loop of `Merge` (key.go:149-159). -/def mergeStep (keyLen n : Nat) (k2 : Bytes) (newKey : Bytes) (i : Nat) : Bytes :=
  let keyLenBytes := toBytesLen keyLen
  let nk1 :=
    if keyLen % 8 != 0 && keyLenBytes > 0 then
      newKey.set (keyLenBytes + i - 1)
        (Key.byteAt newKey (keyLenBytes + i - 1) ||| (Key.byteAt k2 i >>> UInt8.ofNat (keyLen % 8)))
    else newKey
  if keyLenBytes + i < n then
    nk1.set (keyLenBytes + i)
      (Key.byteAt nk1 (keyLenBytes + i) ||| (Key.byteAt k2 i <<< UInt8.ofNat ((8 - keyLen % 8) % 8)))
  else nk1

theorem mergeStep_aligned (keyLen n : Nat) (k2 cur : Bytes) (i : Nat) (h : keyLen % 8 = 0) :
    mergeStep keyLen n k2 cur i =
      if keyLen / 8 + i < n then
        cur.set (keyLen / 8 + i) (Key.byteAt cur (keyLen / 8 + i) ||| (Key.byteAt k2 i <<< UInt8.ofNat 0))
      else cur := by
  have hkb : toBytesLen keyLen = keyLen / 8 := by simp only [toBytesLen]; omega
  have hc : (keyLen % 8 != 0 && decide (toBytesLen keyLen > 0)) = false := by simp [h]
  unfold mergeStep
  simp only [hc, Bool.false_eq_true, if_false]
  rw [hkb, h]

theorem mergeStep_unaligned (keyLen n : Nat) (k2 cur : Bytes) (i : Nat) (h : keyLen % 8 ≠ 0) :
    mergeStep keyLen n k2 cur i =
      if keyLen / 8 + 1 + i < n then
        (cur.set (keyLen / 8 + i) (Key.byteAt cur (keyLen / 8 + i) ||| (Key.byteAt k2 i >>> UInt8.ofNat (keyLen % 8)))).set
          (keyLen / 8 + 1 + i)
          (Key.byteAt (cur.set (keyLen / 8 + i) (Key.byteAt cur (keyLen / 8 + i) ||| (Key.byteAt k2 i >>> UInt8.ofNat (keyLen % 8))))
             (keyLen / 8 + 1 + i) ||| (Key.byteAt k2 i <<< UInt8.ofNat (8 - keyLen % 8)))
      else cur.set (keyLen / 8 + i) (Key.byteAt cur (keyLen / 8 + i) ||| (Key.byteAt k2 i >>> UInt8.ofNat (keyLen % 8))) := by
  have hkb : toBytesLen keyLen = keyLen / 8 + 1 := by simp only [toBytesLen]; omega
  have hc : (keyLen % 8 != 0 && decide (toBytesLen keyLen > 0)) = true := by simp [h, hkb]
  have hidx : keyLen / 8 + 1 + i - 1 = keyLen / 8 + i := by omega
  have hs2 : (8 - keyLen % 8) % 8 = 8 - keyLen % 8 := by omega
  unfold mergeStep
  simp only [hc, if_true]
  rw [hkb, hidx, hs2]

theorem mergeStep_length (keyLen n : Nat) (k2 cur : Bytes) (i : Nat) :
    (mergeStep keyLen n k2 cur i).length = cur.length := by
  by_cases h : keyLen % 8 = 0
  · rw [mergeStep_aligned _ _ _ _ _ h]; split <;> simp
  · rw [mergeStep_unaligned _ _ _ _ _ h]; split <;> simp

/-- What one iteration does to the bits: byte `i` of `k2` is OR-ed in at bit positions
`keyLen + 8i … keyLen + 8i + 7` (as far as they lie inside the buffer). -/
theorem mergeStep_bits (keyLen n : Nat) (k2 cur : Bytes) (i : Nat) (hlen : cur.length = n) (p : Nat) :
    bitAt (mergeStep keyLen n k2 cur i) p =
      (bitAt cur p || (decide (keyLen + 8 * i ≤ p) && decide (p < keyLen + 8 * i + 8) && decide (p < 8 * n)
        && bitAt k2 (p - keyLen))) := by
  have hr8 : keyLen % 8 < 8 := Nat.mod_lt _ (by decide)
  have hj : 7 - p % 8 < 8 := by omega
  rw [bitAt_eq, bitAt_eq cur, bitAt_eq k2]
  by_cases hr : keyLen % 8 = 0
  · -- byte aligned: only the second assignment, shift 0
    rw [mergeStep_aligned _ _ _ _ _ hr]
    by_cases hin : keyLen / 8 + i < n
    · simp only [hin, if_true, byteAt_set, hlen, and_true]
      by_cases ha : p / 8 = keyLen / 8 + i
      · simp only [ha, if_true, tb_or]
        rw [tb_shl _ (by decide : 0 < 8)]
        have e1 : (p - keyLen) / 8 = i := by omega
        have e2 : 7 - (p - keyLen) % 8 = 7 - p % 8 := by omega
        have c1 : keyLen + 8 * i ≤ p := by omega
        have c2 : p < keyLen + 8 * i + 8 := by omega
        have c3 : p < 8 * n := by omega
        simp [e1, e2, c1, c2, c3, hj]
      · simp only [ha, if_false]
        by_cases c1 : keyLen + 8 * i ≤ p
        · have c2 : ¬ p < keyLen + 8 * i + 8 := by omega
          simp [c2]
        · simp [c1]
    · simp only [hin, if_false]
      by_cases c1 : keyLen + 8 * i ≤ p
      · have : ¬ p < 8 * n := by omega
        simp [this]
      · simp [c1]
  · -- not aligned: low part into byte q+i, high part into byte q+i+1
    rw [mergeStep_unaligned _ _ _ _ _ hr]
    have hs2lt : 8 - keyLen % 8 < 8 := by omega
    by_cases hin : keyLen / 8 + 1 + i < n
    · simp only [hin, if_true, byteAt_set, List.length_set, hlen, and_true]
      by_cases ha : p / 8 = keyLen / 8 + 1 + i
      · -- high part
        have hne : ¬ (keyLen / 8 + 1 + i = keyLen / 8 + i ∧ keyLen / 8 + i < n) := by omega
        simp only [ha, if_true, hne, if_false, tb_or]
        rw [tb_shl _ hs2lt]
        by_cases hlow : p % 8 < keyLen % 8
        · have e1 : (p - keyLen) / 8 = i := by omega
          have e2 : 7 - (p - keyLen) % 8 = 7 - p % 8 - (8 - keyLen % 8) := by omega
          have c1 : keyLen + 8 * i ≤ p := by omega
          have c2 : p < keyLen + 8 * i + 8 := by omega
          have c3 : p < 8 * n := by omega
          have c4 : 8 - keyLen % 8 ≤ 7 - p % 8 := by omega
          simp [e1, e2, c1, c2, c3, c4, hj]
        · have c4 : ¬ 8 - keyLen % 8 ≤ 7 - p % 8 := by omega
          have c2 : ¬ p < keyLen + 8 * i + 8 := by omega
          simp [c4, c2]
      · simp only [ha, if_false]
        by_cases hb : p / 8 = keyLen / 8 + i
        · have hlt : keyLen / 8 + i < n := by omega
          simp only [hb, hlt, and_self, if_true, tb_or]
          rw [tb_shr _ hr8]
          by_cases hhigh : keyLen % 8 ≤ p % 8
          · have e1 : (p - keyLen) / 8 = i := by omega
            have e2 : 7 - (p - keyLen) % 8 = keyLen % 8 + (7 - p % 8) := by omega
            have c1 : keyLen + 8 * i ≤ p := by omega
            have c2 : p < keyLen + 8 * i + 8 := by omega
            have c3 : p < 8 * n := by omega
            simp [e1, e2, c1, c2, c3]
          · have c1 : ¬ keyLen + 8 * i ≤ p := by omega
            have : tb (Key.byteAt k2 i) (keyLen % 8 + (7 - p % 8)) = false := tb_high _ (by omega)
            simp [c1, this]
        · have hne3 : ¬ (p / 8 = keyLen / 8 + i ∧ keyLen / 8 + i < n) := fun h => hb h.1
          simp only [hne3, if_false]
          by_cases c1 : keyLen + 8 * i ≤ p
          · have c2 : ¬ p < keyLen + 8 * i + 8 := by omega
            simp [c2]
          · simp [c1]
    · simp only [hin, if_false, byteAt_set, hlen]
      by_cases hb : p / 8 = keyLen / 8 + i
      · by_cases hlt : keyLen / 8 + i < n
        · simp only [hb, hlt, and_self, if_true, tb_or]
          rw [tb_shr _ hr8]
          by_cases hhigh : keyLen % 8 ≤ p % 8
          · have e1 : (p - keyLen) / 8 = i := by omega
            have e2 : 7 - (p - keyLen) % 8 = keyLen % 8 + (7 - p % 8) := by omega
            have c1 : keyLen + 8 * i ≤ p := by omega
            have c2 : p < keyLen + 8 * i + 8 := by omega
            have c3 : p < 8 * n := by omega
            simp [e1, e2, c1, c2, c3]
          · have c1 : ¬ keyLen + 8 * i ≤ p := by omega
            have : tb (Key.byteAt k2 i) (keyLen % 8 + (7 - p % 8)) = false := tb_high _ (by omega)
            simp [c1, this]
        · have hne3 : ¬ (p / 8 = keyLen / 8 + i ∧ keyLen / 8 + i < n) := fun h => hlt h.2
          have c3 : ¬ p < 8 * n := by omega
          simp [hne3, c3]
      · have hne3 : ¬ (p / 8 = keyLen / 8 + i ∧ keyLen / 8 + i < n) := fun h => hb h.1
        simp only [hne3, if_false]
        by_cases c1 : keyLen + 8 * i ≤ p
        · by_cases c2 : p < keyLen + 8 * i + 8
          · have c3 : ¬ p < 8 * n := by omega
            simp [c3]
          · simp [c2]
        · simp [c1]


/-- The loop of `Merge` after `m` iterations: the first `m` bytes of `k2` have been OR-ed in behind
bit `keyLen`. -/
theorem mergeFold_bits (keyLen n : Nat) (k2 new0 : Bytes) (hlen : new0.length = n) (m : Nat) :
    ((List.range m).foldl (mergeStep keyLen n k2) new0).length = n ∧
    ∀ p, bitAt ((List.range m).foldl (mergeStep keyLen n k2) new0) p =
      (bitAt new0 p || (decide (keyLen ≤ p) && decide (p < keyLen + 8 * m) && decide (p < 8 * n)
        && bitAt k2 (p - keyLen))) := by
  induction m with
  | zero =>
    refine ⟨by simpa using hlen, fun p => ?_⟩
    by_cases c : keyLen ≤ p
    · have : ¬ p < keyLen := by omega
      simp [this]
    · simp [c]
  | succ m ih =>
    obtain ⟨ihl, ihb⟩ := ih
    rw [List.range_succ, List.foldl_append]
    simp only [List.foldl_cons, List.foldl_nil]
    refine ⟨by rw [mergeStep_length, ihl], fun p => ?_⟩
    rw [mergeStep_bits _ _ _ _ _ ihl, ihb]
    by_cases c0 : keyLen ≤ p
    · by_cases c1 : p < keyLen + 8 * m
      · have c2 : p < keyLen + 8 * (m + 1) := by omega
        have c3 : ¬ keyLen + 8 * m ≤ p := by omega
        simp [c0, c1, c2, c3]
      · by_cases c2 : p < keyLen + 8 * (m + 1)
        · have c3 : keyLen + 8 * m ≤ p := by omega
          have c4 : p < keyLen + 8 * m + 8 := by omega
          simp [c0, c1, c2, c3, c4]
        · have c4 : ¬ p < keyLen + 8 * m + 8 := by omega
          simp [c1, c2, c4]
    · have c3 : ¬ keyLen + 8 * m ≤ p := by omega
      simp [c0, c3]

theorem merge_eq_fold (k : Bytes) (keyLen : Nat) (k2 : Bytes) (k2Len : Nat) :
    Key.merge k keyLen k2 k2Len =
      (List.range k2.length).foldl (mergeStep keyLen (toBytesLen (keyLen + k2Len)) k2)
        (Key.copyInto (toBytesLen (keyLen + k2Len)) (k.take (toBytesLen keyLen))) := rfl

/-- `Key.Merge` on bytes (copy of the first key, then every byte of the second key OR-ed in as two
shifted chunks) is the concatenation of the two bit strings, packed into bytes. -/
theorem key_merge_eq (k : Bytes) (keyLen : Nat) (k2 : Bytes) (k2Len : Nat)
    (hwf : KeyWF k keyLen) (hwf2 : KeyWF k2 k2Len) :
    Key.merge k keyLen k2 k2Len = packBits ((toBits k).take keyLen ++ (toBits k2).take k2Len) := by
  obtain ⟨hlen, hzero⟩ := hwf
  obtain ⟨hlen2, hzero2⟩ := hwf2
  have hb1 : keyLen ≤ (toBits k).length := by
    rw [toBits_length, hlen]; simp only [toBytesLen]; omega
  have hb2 : k2Len ≤ (toBits k2).length := by
    rw [toBits_length, hlen2]; simp only [toBytesLen]; omega
  have hk2 : k2Len ≤ 8 * k2.length := by rw [toBits_length] at hb2; exact hb2
  have htake : k.take (toBytesLen keyLen) = k := by rw [← hlen]; exact List.take_length
  rw [merge_eq_fold, htake]
  obtain ⟨hl, hb⟩ := mergeFold_bits keyLen (toBytesLen (keyLen + k2Len)) k2
    (Key.copyInto (toBytesLen (keyLen + k2Len)) k) (copyInto_length _ _) k2.length
  apply eq_packBits
  · rw [hl]; simp [List.length_take, Nat.min_eq_left hb1, Nat.min_eq_left hb2]
  · intro i
    rw [hb]
    have hnew : bitAt (Key.copyInto (toBytesLen (keyLen + k2Len)) k) i
        = (decide (i / 8 < toBytesLen (keyLen + k2Len)) && bitAt k i) := by
      rw [bitAt_eq, byteAt_copyInto, bitAt_eq k]
      by_cases h : i / 8 < toBytesLen (keyLen + k2Len) <;> simp [h, tb_zero]
    rw [hnew]
    have hL1 : ((toBits k).take keyLen).length = keyLen := by simp [List.length_take, Nat.min_eq_left hb1]
    by_cases c : i < keyLen
    · have hin : i / 8 < toBytesLen (keyLen + k2Len) := by simp only [toBytesLen]; omega
      have c0 : ¬ keyLen ≤ i := by omega
      rw [List.getD_eq_getElem?_getD, List.getElem?_append_left (by rw [hL1]; exact c),
        ← List.getD_eq_getElem?_getD, take_getD, bitAt_def]
      simp [hin, c, c0]
    · have c0 : keyLen ≤ i := by omega
      rw [List.getD_eq_getElem?_getD, List.getElem?_append_right (by rw [hL1]; exact c0),
        ← List.getD_eq_getElem?_getD, hL1, take_getD, bitAt_def, hzero i c0]
      by_cases c1 : i - keyLen < k2Len
      · have c2 : i < keyLen + 8 * k2.length := by omega
        have c3 : i < 8 * toBytesLen (keyLen + k2Len) := by simp only [toBytesLen]; omega
        simp [c0, c1, c2, c3]
      · simp [c1, hzero2 (i - keyLen) (by omega)]


end OasisProofs.Mkvs
