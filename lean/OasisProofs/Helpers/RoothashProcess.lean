import OasisModel.Roothash.Pool
/-
Helper lemmas for C11 about one processing call (`gather`, `processInner`, `process`,
`tryFinalize`) on an arbitrary pool.
-/
namespace OasisProofs.Roothash
open OasisModel.Roothash

/-- In discrepancy-resolution mode the gathering loop never exits early. -/
theorem gather_disc_some (hr : Nat) (sc : SC) (s : Nat) (to : Bool) (ms : List Member) (t : Tally) :
    ∃ t', gather true hr sc s to ms t = some t' := by
  induction ms generalizing t with
  | nil => exact ⟨t, rfl⟩
  | cons n rest ih =>
    unfold gather
    split
    · exact ih _
    · split
      · exact ih _
      · simp only [if_true]
        exact ih _

/-- With an expired timer, a gathering loop that ran to its end saw no discrepancy. -/
theorem gather_timeout_clean (hr : Nat) (sc : SC) (s : Nat) (ms : List Member) (t t' : Tally)
    (h0 : t.votes.length ≤ 1 ∧ t.failures ≤ s)
    (h : gather false hr sc s true ms t = some t') :
    t'.votes.length ≤ 1 ∧ t'.failures ≤ s := by
  induction ms generalizing t with
  | nil => simp [gather] at h; subst h; exact h0
  | cons n rest ih =>
    unfold gather at h
    split at h
    · exact ih t h0 h
    · split at h
      · exact ih _ (by simpa using h0) h
      · rename_i vote hv
        simp only [Bool.false_eq_true, if_false] at h
        split at h
        · rename_i hc
          refine ih _ ?_ h
          simpa using hc
        · simp at h

/-- The three possible answers of `resolve`, by cases. -/
theorem resolve_cases (votes : List (Nat × Nat)) (total commits : Nat) (tmo : Bool) (own : Option EC) :
    (resolve votes total commits tmo own = Res.insufficientVotes ∧
      ((pickBest votes (0, 0)).2 + (total - commits) < total / 2 + 1 ∨
       ((pickBest votes (0, 0)).2 < total / 2 + 1 ∧ tmo = true))) ∨
    (resolve votes total commits tmo own = Res.stillWaiting ∧ tmo = false ∧
      (pickBest votes (0, 0)).2 < total / 2 + 1) ∨
    (total / 2 + 1 ≤ (pickBest votes (0, 0)).2 ∧
      resolve votes total commits tmo own =
        match own with
        | none => Res.nilDeref
        | some o => if (pickBest votes (0, 0)).1 != o.hash then Res.badSchedulerCommitment else Res.ok) := by
  unfold resolve
  generalize pickBest votes (0, 0) = pb
  obtain ⟨hash, best⟩ := pb
  simp only
  by_cases h1 : best + (total - commits) < total / 2 + 1
  · left; simp [h1]
  · by_cases h2 : best < total / 2 + 1
    · cases tmo with
      | true => left; simp [h1, h2]
      | false => right; left; simp [h1, h2]
    · right; right
      refine ⟨by omega, ?_⟩
      simp only [h1, h2, if_false, Bool.false_and, Bool.false_eq_true, decide_false]
      cases own <;> rfl

theorem resolve_timeout (votes : List (Nat × Nat)) (total commits : Nat) (own : Option EC) :
    resolve votes total commits true own ≠ Res.stillWaiting := by
  rcases resolve_cases votes total commits true own with ⟨h, _⟩ | ⟨_, h, _⟩ | ⟨_, h⟩
  · rw [h]; simp
  · simp at h
  · rw [h]; repeat' split
    all_goals simp

theorem resolve_no_discrepancy (votes : List (Nat × Nat)) (total commits : Nat) (tmo : Bool)
    (own : Option EC) : resolve votes total commits tmo own ≠ Res.discrepancyDetected := by
  rcases resolve_cases votes total commits tmo own with ⟨h, _⟩ | ⟨h, _⟩ | ⟨_, h⟩
  · rw [h]; simp
  · rw [h]; simp
  · rw [h]; repeat' split
    all_goals simp

theorem resolve_some_no_nilDeref (votes : List (Nat × Nat)) (total commits : Nat) (tmo : Bool)
    (o : EC) : resolve votes total commits tmo (some o) ≠ Res.nilDeref := by
  rcases resolve_cases votes total commits tmo (some o) with ⟨h, _⟩ | ⟨h, _⟩ | ⟨_, h⟩
  · rw [h]; simp
  · rw [h]; simp
  · rw [h]; simp only; split <;> simp

/-- Once the round timer has expired, a processing call never answers "still waiting". -/
theorem processInner_timeout (c : Committee) (p : Pool) (s : Nat) :
    processInner c p s true ≠ Res.stillWaiting := by
  unfold processInner
  split
  · simp
  · rename_i sc hsc
    split
    · simp
    · rename_i t ht
      cases hd : p.discrepancy with
      | false =>
        rw [hd] at ht
        have hc := gather_timeout_clean _ _ _ _ _ _ (by simp) ht
        have h1 : ¬ (t.votes.length > 1) := by omega
        have h2 : ¬ (t.failures > s) := by omega
        simp [h1, h2]
        split <;> simp
      | true =>
        simp only [Bool.not_true, Bool.false_eq_true, if_false]
        exact resolve_timeout _ _ _ _

/-- In discrepancy-resolution mode a processing call never answers "discrepancy detected". -/
theorem processInner_disc_no_discrepancy (c : Committee) (p : Pool) (s : Nat) (to : Bool)
    (hd : p.discrepancy = true) : processInner c p s to ≠ Res.discrepancyDetected := by
  unfold processInner
  split
  · split <;> simp
  · rename_i sc hsc
    rw [hd]
    obtain ⟨t, ht⟩ := gather_disc_some p.highestRank sc s to c {}
    rw [ht]
    simp only [Bool.not_true, Bool.false_eq_true, if_false]
    exact resolve_no_discrepancy _ _ _ _ _

theorem process_snd (c : Committee) (p : Pool) (s : Nat) (to : Bool) :
    (process c p s to).2 = processInner c p s to := by
  unfold process
  split <;> simp_all

theorem process_disc_flag (c : Committee) (p : Pool) (s : Nat) (to : Bool)
    (h : (process c p s to).2 = Res.discrepancyDetected) : (process c p s to).1.discrepancy = true := by
  have h' := process_snd c p s to
  rw [h] at h'
  unfold process
  rw [← h']

theorem process_not_disc_pool (c : Committee) (p : Pool) (s : Nat) (to : Bool)
    (h : (process c p s to).2 ≠ Res.discrepancyDetected) : (process c p s to).1 = p := by
  have h' := process_snd c p s to
  unfold process
  split
  · rename_i hx; rw [h', hx] at h; exact absurd rfl h
  · rfl

theorem tryFinalize_disc (c : Committee) (p : Pool) (s : Nat) (tmo rt : Bool)
    (h : (process c p s tmo).2 = Res.discrepancyDetected) :
    tryFinalize c p s tmo rt =
      ((process c (process c p s tmo).1 s rt).1,
        mapResult (process c (process c p s tmo).1 s rt).1 true (process c (process c p s tmo).1 s rt).2) := by
  unfold tryFinalize
  generalize process c p s tmo = r1 at *
  obtain ⟨p1, res1⟩ := r1
  simp only at h
  subst h
  rfl

theorem tryFinalize_nodisc (c : Committee) (p : Pool) (s : Nat) (tmo rt : Bool)
    (h : (process c p s tmo).2 ≠ Res.discrepancyDetected) :
    tryFinalize c p s tmo rt =
      ((process c p s tmo).1, mapResult (process c p s tmo).1 false (process c p s tmo).2) := by
  unfold tryFinalize
  generalize process c p s tmo = r1 at *
  obtain ⟨p1, res1⟩ := r1
  simp only at h
  cases res1 <;> simp_all

end OasisProofs.Roothash
