import OasisProofs.Helpers.MkvsBits
/-
Insert / remove / get on the MKVS trie model: canonical form is preserved and the contents change
as in a map (membership characterisations).  Everything is for arbitrary byte-string keys and values.
-/
namespace OasisProofs.Mkvs
open OasisModel.Mkvs

/-! ### basic facts -/

theorem mem_toList_node {lab : Bits} {lf : Option (Bytes × Bytes)} {l r : Trie} {kv : Bytes × Bytes} :
    kv ∈ (Trie.node lab lf l r).toList ↔ lf = some kv ∨ kv ∈ l.toList ∨ kv ∈ r.toList := by
  cases lf <;> simp [Trie.toList, eq_comm]

theorem mem_toList_leaf {k v : Bytes} {kv : Bytes × Bytes} :
    kv ∈ (Trie.leaf k v).toList ↔ kv = (k, v) := by simp [Trie.toList]

theorem toList_nil : Trie.nil.toList = [] := rfl

theorem drop_of_prefix {p kb : Bits} {k : Bytes} (h : p ++ kb = toBits k) :
    (toBits k).drop p.length = kb := by rw [← h]; simp

/-- All keys below a well-formed subtree extend its path. -/
theorem wfAt_allKeys {p : Bits} {t : Trie} (h : WFAt p t) : t.AllKeys (fun k => p <+: toBits k) := by
  induction t generalizing p with
  | nil => intro kv hkv; simp [Trie.toList] at hkv
  | leaf k v => intro kv hkv; simp [Trie.toList] at hkv; subst hkv; exact h
  | node lab lf l r ihl ihr =>
    obtain ⟨hlf, hl, _, hr, _, _⟩ := h
    intro kv hkv
    have hpq : p <+: p ++ lab := List.prefix_append _ _
    rcases mem_toList_node.1 hkv with h1 | h1 | h1
    · simp only [hlf kv h1]; exact hpq
    · exact List.IsPrefix.trans hpq (ihl hl kv h1)
    · exact List.IsPrefix.trans hpq (ihr hr kv h1)

/-- All keys below a well-formed internal node extend path ++ label. -/
theorem wfAt_node_allKeys {p lab : Bits} {lf : Option (Bytes × Bytes)} {l r : Trie}
    (h : WFAt p (.node lab lf l r)) :
    (Trie.node lab lf l r).AllKeys (fun k => p ++ lab <+: toBits k) := by
  obtain ⟨hlf, hl, _, hr, _, _⟩ := h
  intro kv hkv
  rcases mem_toList_node.1 hkv with h1 | h1 | h1
  · simp only [hlf kv h1]; exact List.prefix_refl _
  · exact wfAt_allKeys hl kv h1
  · exact wfAt_allKeys hr kv h1

/-- A non-nil well-formed subtree stores at least one key. -/
theorem wfAt_toList_ne_nil {p : Bits} {t : Trie} (h : WFAt p t) (hn : t ≠ .nil) : t.toList ≠ [] := by
  induction t generalizing p with
  | nil => exact absurd rfl hn
  | leaf k v => simp [Trie.toList]
  | node lab lf l r ihl ihr =>
    obtain ⟨_, hl, _, hr, _, hc⟩ := h
    intro he
    have he' : lf.toList ++ (l.toList ++ r.toList) = [] := he
    simp only [List.append_eq_nil_iff] at he'
    obtain ⟨h1, h2, h3⟩ := he'
    have hl' : l = .nil := Classical.byContradiction fun hne => ihl hl hne h2
    have hr' : r = .nil := Classical.byContradiction fun hne => ihr hr hne h3
    subst hl' hr'
    cases lf <;> simp [Trie.isNil] at hc h1

theorem isNil_iff {t : Trie} : t.isNil = true ↔ t = .nil := by cases t <;> simp [Trie.isNil]

theorem isNil_false_of_ne {t : Trie} (h : t ≠ .nil) : t.isNil = false := by
  cases t <;> simp [Trie.isNil] at h ⊢

/-- Keys that extend `q ++ [b]` differ from a key whose bit string is `q`. -/
theorem ne_of_longer {q : Bits} {b : Bool} {k k' : Bytes} (hk : toBits k = q)
    (hk' : q ++ [b] <+: toBits k') : k' ≠ k := by
  intro h; subst h
  have := hk'.length_le
  rw [hk] at this; simp at this; omega

/-- Keys below different children differ. -/
theorem ne_of_bit {q : Bits} {b : Bool} {k k' : Bytes} (hk : q ++ [b] <+: toBits k)
    (hk' : q ++ [!b] <+: toBits k') : k' ≠ k := by
  intro h; subst h
  obtain ⟨t1, h1⟩ := hk
  obtain ⟨t2, h2⟩ := hk'
  rw [← h2] at h1
  simp only [List.append_assoc, List.append_cancel_left_eq, List.cons_append, List.nil_append,
    List.cons.injEq] at h1
  cases b <;> simp at h1


/-! ### insert -/

/-- The statement proved for `insertAux` by induction. -/
def InsertSpec (k v : Bytes) (p : Bits) (t : Trie) (res : Trie × Bool) : Prop :=
  WFAt p res.1 ∧ res.1 ≠ .nil ∧
  (∀ kv, kv ∈ res.1.toList ↔ kv = (k, v) ∨ (kv ∈ t.toList ∧ kv.1 ≠ k)) ∧
  (res.2 = true ↔ ∃ v', (k, v') ∈ t.toList)

theorem insert_leaf_spec (k v k' v' : Bytes) (p : Bits) (hp : p <+: toBits k)
    (hwf : WFAt p (.leaf k' v')) :
    InsertSpec k v p (.leaf k' v') ((Trie.leaf k' v').insertAux k v p.length) := by
  obtain ⟨kb, hkb⟩ := hp
  obtain ⟨lb, hlb⟩ := (hwf : p <+: toBits k')
  by_cases hkk : k' = k
  · subst hkk
    simp only [Trie.insertAux, if_true]
    refine ⟨?_, by simp, ?_, ?_⟩
    · exact ⟨kb, hkb⟩
    · intro kv; simp only [mem_toList_leaf]
      constructor
      · intro h; exact Or.inl h
      · rintro (h | ⟨h, h2⟩)
        · exact h
        · subst h; exact absurd rfl h2
    · simp [mem_toList_leaf]
  · simp only [Trie.insertAux, if_neg hkk, drop_of_prefix hkb, drop_of_prefix hlb]
    obtain ⟨pre, rl, rk, hl, hk, hcp, hcase⟩ := lcp_cases lb kb
    subst hl hk
    have hne : rl ≠ rk := by
      intro h; subst h
      exact hkk (toBits_injective (by rw [← hlb, ← hkb]))
    have hmem : ∀ kv : Bytes × Bytes, (kv = (k, v) ∨ kv = (k', v')) ↔
        (kv = (k, v) ∨ (kv = (k', v') ∧ kv.1 ≠ k)) := by
      intro kv
      constructor
      · rintro (h | h)
        · exact Or.inl h
        · subst h; exact Or.inr ⟨rfl, hkk⟩
      · rintro (h | ⟨h, _⟩)
        · exact Or.inl h
        · exact Or.inr h
    have hex : ¬ ∃ w, (k, w) ∈ (Trie.leaf k' v').toList := by
      rintro ⟨w, hw⟩
      rw [mem_toList_leaf] at hw
      exact hkk (by injection hw with h1 _; exact h1.symm)
    rw [hcp]
    simp only [List.drop_left, List.take_left]
    refine ⟨?_, ?_, ?_, ?_⟩
    rotate_left
    · -- not nil
      rcases rk with _ | ⟨x, rk⟩ <;> rcases rl with _ | ⟨y, rl⟩
      all_goals (try cases x)
      all_goals (try cases y)
      all_goals simp
    · -- membership
      intro kv
      rw [mem_toList_leaf, ← hmem]
      rcases rk with _ | ⟨x, rk⟩ <;> rcases rl with _ | ⟨y, rl⟩
      all_goals (try cases x)
      all_goals (try cases y)
      all_goals simp [mem_toList_node, mem_toList_leaf, Trie.toList, or_comm]
    · simp [hex]
    · -- well-formed
      rcases rk with _ | ⟨x, rk⟩ <;> rcases rl with _ | ⟨y, rl⟩
      · exact absurd rfl hne
      · cases y <;>
          simp [WFAt, Trie.AllKeys, Trie.toList, Trie.isNil, ← hkb, ← hlb, List.append_assoc]
      · cases x <;>
          simp [WFAt, Trie.AllKeys, Trie.toList, Trie.isNil, ← hkb, ← hlb, List.append_assoc]
      · rcases hcase with h | h | ⟨z, ra', rb', h1, h2⟩
        · simp at h
        · simp at h
        · injection h1 with h1 h1'; injection h2 with h2 h2'
          subst h1 h2 h1' h2'
          cases y <;>
            simp [WFAt, Trie.AllKeys, Trie.toList, Trie.isNil, ← hkb, ← hlb, List.append_assoc]


theorem toList_node_label (lab lab' : Bits) (lf : Option (Bytes × Bytes)) (l r : Trie) :
    (Trie.node lab lf l r).toList = (Trie.node lab' lf l r).toList := rfl

theorem wfAt_node_relabel {p pre suf : Bits} {lf : Option (Bytes × Bytes)} {l r : Trie}
    (h : WFAt p (.node (pre ++ suf) lf l r)) : WFAt (p ++ pre) (.node suf lf l r) := by
  simpa [WFAt, List.append_assoc] using h

theorem insert_split_spec (k v : Bytes) (p lab : Bits) (lf : Option (Bytes × Bytes)) (l r : Trie)
    (hp : p <+: toBits k) (hwf : WFAt p (.node lab lf l r))
    (hcp : lcp lab ((toBits k).drop p.length) ≠ lab.length) :
    InsertSpec k v p (.node lab lf l r) ((Trie.node lab lf l r).insertAux k v p.length) := by
  obtain ⟨kb, hkb⟩ := hp
  rw [drop_of_prefix hkb] at hcp
  simp only [Trie.insertAux, drop_of_prefix hkb, if_neg hcp]
  obtain ⟨pre, rlab, rk, hl, hk, hcp', hcase⟩ := lcp_cases lab kb
  subst hl hk
  rw [hcp'] at hcp ⊢
  have hrl : rlab ≠ [] := by intro h; subst h; simp at hcp
  have hall := wfAt_node_allKeys hwf
  have hold := wfAt_node_relabel hwf
  -- old keys differ from k
  have hne : ∀ kv ∈ (Trie.node (pre ++ rlab) lf l r).toList, kv.1 ≠ k := by
    intro kv hkv hkk
    have h1 := hall kv hkv
    rw [hkk, ← hkb] at h1
    simp only [List.append_assoc, List.prefix_append_right_inj] at h1
    rcases hcase with h | h | ⟨x, ra', rb', h2, h3⟩
    · exact hrl h
    · subst h
      have := h1.length_le
      simp at this
      exact hrl this
    · subst h2 h3
      simp only [List.cons_prefix_cons] at h1
      cases x <;> simp at h1
  have hex : ¬ ∃ w, (k, w) ∈ (Trie.node (pre ++ rlab) lf l r).toList := by
    rintro ⟨w, hw⟩; exact hne _ hw rfl
  have hmem : ∀ kv : Bytes × Bytes,
      (kv = (k, v) ∨ kv ∈ (Trie.node rlab lf l r).toList) ↔
      (kv = (k, v) ∨ (kv ∈ (Trie.node (pre ++ rlab) lf l r).toList ∧ kv.1 ≠ k)) := by
    intro kv
    rw [toList_node_label rlab (pre ++ rlab)]
    constructor
    · rintro (h | h)
      · exact Or.inl h
      · exact Or.inr ⟨h, hne kv h⟩
    · rintro (h | ⟨h, _⟩)
      · exact Or.inl h
      · exact Or.inr h
  simp only [List.drop_left, List.take_left]
  have hallb : ∀ y rest, rlab = y :: rest →
      (Trie.node rlab lf l r).AllKeys (fun k => (p ++ pre) ++ [y] <+: toBits k) := by
    intro y rest hy kv hkv
    rw [toList_node_label rlab (pre ++ rlab)] at hkv
    have h1 := hall kv hkv
    refine List.IsPrefix.trans ?_ h1
    subst hy
    simp [List.append_assoc]
  refine ⟨?_, ?_, ?_, ?_⟩
  rotate_left
  · rcases rk with _ | ⟨x, rk⟩ <;> rcases rlab with _ | ⟨y, rlab⟩
    all_goals (try cases x)
    all_goals (try cases y)
    all_goals simp
  · intro kv
    rw [← hmem]
    rcases rk with _ | ⟨x, rk⟩ <;> rcases rlab with _ | ⟨y, rlab⟩
    all_goals (try cases x)
    all_goals (try cases y)
    all_goals simp [mem_toList_node, mem_toList_leaf, Trie.toList, or_comm, or_assoc, or_left_comm]
  · simp [hex]
  · have hkey : toBits k = p ++ pre ++ rk := by rw [← hkb]; simp [List.append_assoc]
    have hnil : ∀ (P : Bytes → Prop), Trie.nil.AllKeys P := by intro P kv hkv; simp [Trie.toList] at hkv
    rcases rk with _ | ⟨x, rk⟩
    · rcases rlab with _ | ⟨y, rlab⟩
      · exact absurd rfl hrl
      · have hb := hallb y rlab rfl
        have hlf : ∀ kv, some (k, v) = some kv → toBits kv.1 = p ++ pre := by
          intro kv h; injection h with h; subst h; simpa using hkey
        cases y
        · exact ⟨hlf, hold, hb, trivial, hnil _, by simp [Trie.isNil]⟩
        · exact ⟨hlf, trivial, hnil _, hold, hb, by simp [Trie.isNil]⟩
    · rcases hcase with h | h | ⟨z, ra', rb', h1, h2⟩
      · exact absurd h hrl
      · simp at h
      · injection h2 with h2 h2'
        subst h1 h2 h2'
        have hb := hallb z ra' rfl
        have hlf : ∀ kv, (none : Option (Bytes × Bytes)) = some kv → toBits kv.1 = p ++ pre := by
          intro kv h; simp at h
        have hleaf : WFAt (p ++ pre) (Trie.leaf k v) := by
          show p ++ pre <+: toBits k
          rw [hkey]; exact List.prefix_append _ _
        have hleafb : (Trie.leaf k v).AllKeys (fun k => (p ++ pre) ++ [!z] <+: toBits k) := by
          intro kv hkv
          rw [mem_toList_leaf] at hkv; subst hkv
          show (p ++ pre) ++ [!z] <+: toBits k
          rw [hkey]; simp
        cases z
        · exact ⟨hlf, hold, hb, hleaf, hleafb, by simp [Trie.isNil]⟩
        · exact ⟨hlf, hleaf, hleafb, hold, hb, by simp [Trie.isNil]⟩


theorem lcp_eq_length {a b : Bits} (h : lcp a b = a.length) : ∃ rest, b = a ++ rest := by
  obtain ⟨pre, ra, rb, h1, h2, h3, _⟩ := lcp_cases a b
  subst h1 h2
  rw [h3] at h
  have : ra = [] := by
    simp at h
    exact h
  subst this
  exact ⟨rb, by simp⟩

theorem insertAux_ne_nil (k v : Bytes) (t : Trie) (d : Nat) : (t.insertAux k v d).1 ≠ .nil := by
  cases t with
  | nil => simp [Trie.insertAux]
  | leaf k' v' =>
    simp only [Trie.insertAux]
    split
    · simp
    · simp only []
      split <;> simp
  | node lab lf l r =>
    simp only [Trie.insertAux]
    split
    · split <;> simp
    · simp only []
      split
      · split <;> simp
      · simp
      · simp

/-- Main lemma for `doInsert`: canonical form is preserved, the contents change as in a map,
and `existed` says whether the key was present. -/
theorem insertAux_spec (k v : Bytes) (t : Trie) :
    ∀ (p : Bits), p <+: toBits k → WFAt p t → InsertSpec k v p t (t.insertAux k v p.length) := by
  induction t with
  | nil =>
    intro p hp _
    refine ⟨hp, by simp [Trie.insertAux], ?_, ?_⟩
    · intro kv; simp [Trie.insertAux, Trie.toList]
    · simp [Trie.insertAux, Trie.toList]
  | leaf k' v' => intro p hp hwf; exact insert_leaf_spec k v k' v' p hp hwf
  | node lab lf l r ihl ihr =>
    intro p hp hwf
    by_cases hcp' : lcp lab ((toBits k).drop p.length) ≠ lab.length
    · exact insert_split_spec k v p lab lf l r hp hwf hcp'
    have hcp : lcp lab ((toBits k).drop p.length) = lab.length := Classical.not_not.1 hcp'
    obtain ⟨kb, hkb⟩ := hp
    obtain ⟨rest, hrest⟩ := lcp_eq_length hcp
    rw [drop_of_prefix hkb] at hrest
    subst hrest
    have hkey : toBits k = (p ++ lab) ++ rest := by rw [← hkb]; simp
    have hdrop : (toBits k).drop (p.length + lab.length) = rest := by
      rw [hkey, ← List.length_append]; simp
    obtain ⟨hlf, hl, hlb, hr, hrb, hc⟩ := hwf
    have hlen : (p ++ lab).length = p.length + lab.length := List.length_append
    simp only [Trie.insertAux, if_pos hcp, hdrop]
    rcases rest with _ | ⟨b, rest⟩
    · -- the key ends at this node
      have hkq : toBits k = p ++ lab := by simpa using hkey
      have hnl : ∀ kv ∈ l.toList, kv.1 ≠ k := fun kv h => ne_of_longer hkq (hlb kv h)
      have hnr : ∀ kv ∈ r.toList, kv.1 ≠ k := fun kv h => ne_of_longer hkq (hrb kv h)
      have hlfk : ∀ kv, lf = some kv → kv.1 = k := fun kv h =>
        toBits_injective (by rw [hlf kv h, hkq])
      refine ⟨⟨?_, hl, hlb, hr, hrb, ?_⟩, by simp, ?_, ?_⟩
      · intro kv h; injection h with h; subst h; exact hkq
      · cases lf <;> simp at hc ⊢ <;> omega
      · intro kv
        simp only [mem_toList_node]
        constructor
        · rintro (h | h | h)
          · injection h with h; exact Or.inl h.symm
          · exact Or.inr ⟨Or.inr (Or.inl h), hnl kv h⟩
          · exact Or.inr ⟨Or.inr (Or.inr h), hnr kv h⟩
        · rintro (h | ⟨h | h | h, hne⟩)
          · exact Or.inl (by rw [h])
          · exact absurd (hlfk kv h) hne
          · exact Or.inr (Or.inl h)
          · exact Or.inr (Or.inr h)
      · cases lf with
        | none =>
          simp only [Bool.false_eq_true, false_iff]
          rintro ⟨w, hw⟩
          rcases mem_toList_node.1 hw with h | h | h
          · simp at h
          · exact hnl _ h rfl
          · exact hnr _ h rfl
        | some kv' =>
          obtain ⟨k', v'⟩ := kv'
          have : k' = k := hlfk (k', v') rfl
          subst this
          simp only [decide_true, true_iff]
          exact ⟨v', mem_toList_node.2 (Or.inl rfl)⟩
    · have hpre : p ++ lab <+: toBits k := ⟨b :: rest, hkey.symm⟩
      have hkb' : (p ++ lab) ++ [b] <+: toBits k := ⟨rest, by rw [hkey]; simp⟩
      have hlfne : ∀ kv, lf = some kv → kv.1 ≠ k := by
        intro kv h hk
        have h1 := hlf kv h
        rw [hk, hkey] at h1
        have := congrArg List.length h1
        simp at this
      cases b
      · -- left
        have ih := ihl (p ++ lab) hpre hl
        rw [hlen] at ih
        obtain ⟨iwf, inn, imem, iex⟩ := ih
        have hnr : ∀ kv ∈ r.toList, kv.1 ≠ k := fun kv h => ne_of_bit hkb' (hrb kv h)
        refine ⟨⟨hlf, iwf, ?_, hr, hrb, ?_⟩, by simp, ?_, ?_⟩
        · intro kv hkv
          rcases (imem kv).1 hkv with h | ⟨h, _⟩
          · rw [h]; exact hkb'
          · exact hlb kv h
        · have : (l.insertAux k v (p.length + lab.length)).1.isNil = false := isNil_false_of_ne inn
          rw [this]
          cases l <;> simp [Trie.isNil] at hc ⊢ <;> omega
        · intro kv
          simp only [mem_toList_node, imem]
          constructor
          · rintro (h | h | h)
            · exact Or.inr ⟨Or.inl h, hlfne kv h⟩
            · rcases h with h | ⟨h, hne⟩
              · exact Or.inl h
              · exact Or.inr ⟨Or.inr (Or.inl h), hne⟩
            · exact Or.inr ⟨Or.inr (Or.inr h), hnr kv h⟩
          · rintro (h | ⟨h | h | h, hne⟩)
            · exact Or.inr (Or.inl (Or.inl h))
            · exact Or.inl h
            · exact Or.inr (Or.inl (Or.inr ⟨h, hne⟩))
            · exact Or.inr (Or.inr h)
        · rw [iex]
          constructor
          · rintro ⟨w, hw⟩; exact ⟨w, mem_toList_node.2 (Or.inr (Or.inl hw))⟩
          · rintro ⟨w, hw⟩
            rcases mem_toList_node.1 hw with h | h | h
            · exact absurd rfl (hlfne _ h)
            · exact ⟨w, h⟩
            · exact absurd rfl (hnr _ h)
      · -- right
        have ih := ihr (p ++ lab) hpre hr
        rw [hlen] at ih
        obtain ⟨iwf, inn, imem, iex⟩ := ih
        have hnl : ∀ kv ∈ l.toList, kv.1 ≠ k := fun kv h => ne_of_bit (b := true) hkb' (hlb kv h)
        refine ⟨⟨hlf, hl, hlb, iwf, ?_, ?_⟩, by simp, ?_, ?_⟩
        · intro kv hkv
          rcases (imem kv).1 hkv with h | ⟨h, _⟩
          · rw [h]; exact hkb'
          · exact hrb kv h
        · have : (r.insertAux k v (p.length + lab.length)).1.isNil = false := isNil_false_of_ne inn
          rw [this]
          cases r <;> simp [Trie.isNil] at hc ⊢ <;> omega
        · intro kv
          simp only [mem_toList_node, imem]
          constructor
          · rintro (h | h | h)
            · exact Or.inr ⟨Or.inl h, hlfne kv h⟩
            · exact Or.inr ⟨Or.inr (Or.inl h), hnl kv h⟩
            · rcases h with h | ⟨h, hne⟩
              · exact Or.inl h
              · exact Or.inr ⟨Or.inr (Or.inr h), hne⟩
          · rintro (h | ⟨h | h | h, hne⟩)
            · exact Or.inr (Or.inr (Or.inl h))
            · exact Or.inl h
            · exact Or.inr (Or.inl h)
            · exact Or.inr (Or.inr (Or.inr ⟨h, hne⟩))
        · rw [iex]
          constructor
          · rintro ⟨w, hw⟩; exact ⟨w, mem_toList_node.2 (Or.inr (Or.inr hw))⟩
          · rintro ⟨w, hw⟩
            rcases mem_toList_node.1 hw with h | h | h
            · exact absurd rfl (hlfne _ h)
            · exact absurd rfl (hnl _ h)
            · exact ⟨w, h⟩

end OasisProofs.Mkvs
