import OasisProofs.Helpers.MkvsRemove
/-
`doGet` on the MKVS trie model returns exactly the binding stored in the contents list.
`doGet` never compares labels on the way down; the proof uses the canonical form for "present ⇒
found" and only the final key comparison for "found ⇒ present".
-/
namespace OasisProofs.Mkvs
open OasisModel.Mkvs

theorem getAux_spec (k : Bytes) (t : Trie) :
    ∀ (p : Bits), WFAt p t → ∀ v, t.getAux k p.length = some v ↔ (k, v) ∈ t.toList := by
  induction t with
  | nil => intro p _ v; simp [Trie.getAux, Trie.toList]
  | leaf k' v' =>
    intro p _ v
    simp only [Trie.getAux, mem_toList_leaf]
    by_cases h : k' = k
    · subst h; simp [eq_comm]
    · simp only [if_neg h, reduceCtorEq, false_iff]
      intro h2; injection h2 with h2 _; exact h h2.symm
  | node lab lf l r ihl ihr =>
    intro p hwf v
    obtain ⟨hlf, hl, hlb, hr, hrb, hc⟩ := hwf
    have hlen : (p ++ lab).length = p.length + lab.length := List.length_append
    have hlfl : ∀ kv, lf = some kv → (toBits kv.1).length = p.length + lab.length := by
      intro kv h; rw [hlf kv h, hlen]
    have hll : ∀ kv ∈ l.toList, p.length + lab.length + 1 ≤ (toBits kv.1).length := by
      intro kv h; have := length_of_ext (hlb kv h); omega
    have hrl : ∀ kv ∈ r.toList, p.length + lab.length + 1 ≤ (toBits kv.1).length := by
      intro kv h; have := length_of_ext (hrb kv h); omega
    simp only [Trie.getAux]
    by_cases h2 : (toBits k).length = p.length + lab.length
    · rw [if_pos h2]
      have hnl : ¬ (k, v) ∈ l.toList := by intro h; have := hll _ h; simp only at this; omega
      have hnr : ¬ (k, v) ∈ r.toList := by intro h; have := hrl _ h; simp only at this; omega
      rw [mem_toList_node]
      rcases lf with _ | ⟨k', v'⟩
      · simp [hnl, hnr]
      · simp only [Option.some.injEq, hnl, hnr, or_false]
        by_cases hkk : k' = k
        · subst hkk; simp
        · simp only [if_neg hkk, reduceCtorEq, Prod.mk.injEq, false_iff]
          intro h; exact hkk h.1
    · rw [if_neg h2]
      by_cases h1 : (toBits k).length < p.length + lab.length
      · rw [if_pos h1]
        simp only [reduceCtorEq, false_iff, mem_toList_node]
        rintro (h | h | h)
        · have := hlfl _ h; simp only at this; omega
        · have := hll _ h; simp only at this; omega
        · have := hrl _ h; simp only at this; omega
      · rw [if_neg h1]
        have hlfne : ¬ lf = some (k, v) := by intro h; have := hlfl _ h; simp only at this; omega
        obtain ⟨b, rest, hdrop⟩ : ∃ b rest, (toBits k).drop (p.length + lab.length) = b :: rest := by
          cases hd : (toBits k).drop (p.length + lab.length) with
          | nil =>
            have := congrArg List.length hd
            simp at this; omega
          | cons b rest => exact ⟨b, rest, rfl⟩
        have hdrop' : (toBits k).drop (p ++ lab).length = b :: rest := by rw [hlen]; exact hdrop
        rw [hdrop, mem_toList_node]
        cases b
        · have hnr : ¬ (k, v) ∈ r.toList := fun h => ne_of_bit_drop hdrop' (hrb _ h) rfl
          have ih := ihl (p ++ lab) hl v
          rw [hlen] at ih
          simp only [ih, hlfne, hnr, false_or, or_false]
        · have hnl : ¬ (k, v) ∈ l.toList := fun h => ne_of_bit_drop (b := true) hdrop' (hlb _ h) rfl
          have ih := ihr (p ++ lab) hr v
          rw [hlen] at ih
          simp only [ih, hlfne, hnl, false_or]

end OasisProofs.Mkvs
