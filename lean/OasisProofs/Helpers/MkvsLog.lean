import OasisProofs.Helpers.MkvsRefine
import OasisModel.Mkvs.Tree
/-
Write logs (C13) and the tree object with its pending write log (C03, C13).
-/
namespace OasisProofs.Mkvs
open OasisModel.Mkvs

/-! ### more ordered-map facts -/

theorem smap_get_insert {m : List KV} (hm : SMap.Sorted m) (k v k' : Bytes) :
    SMap.get (SMap.insert m k v) k' = if k' = k then some v else SMap.get m k' := by
  apply option_ext
  intro w
  rw [smap_get_eq_some (smap_sorted_insert hm k v), smap_mem_insert hm]
  by_cases hk : k' = k
  · subst hk
    simp only [if_true, Option.some.injEq, Prod.mk.injEq, true_and, ne_eq, not_true_eq_false,
      and_false, or_false]
    exact eq_comm
  · simp only [if_neg hk, Prod.mk.injEq, hk, false_and, ne_eq, not_false_eq_true, and_true, false_or]
    exact (smap_get_eq_some hm k' w).symm

theorem smap_get_erase {m : List KV} (hm : SMap.Sorted m) (k k' : Bytes) :
    SMap.get (SMap.erase m k) k' = if k' = k then none else SMap.get m k' := by
  apply option_ext
  intro w
  rw [smap_get_eq_some (smap_sorted_erase hm k), smap_mem_erase hm]
  by_cases hk : k' = k
  · subst hk; simp
  · simp only [if_neg hk, ne_eq, hk, not_false_eq_true, and_true]
    exact (smap_get_eq_some hm k' w).symm

/-- Sorted maps with the same lookup function are equal. -/
theorem smap_ext_get {a b : List KV} (ha : SMap.Sorted a) (hb : SMap.Sorted b)
    (h : ∀ k, SMap.get a k = SMap.get b k) : a = b := by
  apply smap_sorted_ext ha hb
  intro kv
  obtain ⟨k, v⟩ := kv
  rw [← smap_get_eq_some ha, ← smap_get_eq_some hb, h]

theorem smap_erase_absent {m : List KV} (hm : SMap.Sorted m) (k : Bytes) (h : SMap.get m k = none) :
    SMap.erase m k = m := by
  apply smap_ext_get (smap_sorted_erase hm k) hm
  intro k'
  rw [smap_get_erase hm]
  by_cases hk : k' = k
  · subst hk; simp [h]
  · simp [hk]

/-! ### write logs applied to contents -/

def logStep (m : List KV) (e : LogEntry) : List KV :=
  match e.2 with
  | none => SMap.erase m e.1
  | some v => SMap.insert m e.1 v

theorem applyLogSpec_eq (m : List KV) (l : List LogEntry) : applyLogSpec m l = l.foldl logStep m := rfl

theorem logStep_sorted {m : List KV} (hm : SMap.Sorted m) (e : LogEntry) : SMap.Sorted (logStep m e) := by
  obtain ⟨k, v⟩ := e
  cases v with
  | none => exact smap_sorted_erase hm k
  | some v => exact smap_sorted_insert hm k v

theorem logStep_get {m : List KV} (hm : SMap.Sorted m) (e : LogEntry) (k : Bytes) :
    SMap.get (logStep m e) k = if k = e.1 then e.2 else SMap.get m k := by
  obtain ⟨k', v⟩ := e
  cases v with
  | none => exact smap_get_erase hm k' k
  | some v => exact smap_get_insert hm k' v k

theorem applyLogSpec_sorted {m : List KV} (hm : SMap.Sorted m) (l : List LogEntry) :
    SMap.Sorted (applyLogSpec m l) := by
  rw [applyLogSpec_eq]
  induction l generalizing m with
  | nil => exact hm
  | cons e l ih => exact ih (logStep_sorted hm e)

/-- Entry of a log for a key. -/
def logLookup : List LogEntry → Bytes → Option (Option Bytes)
  | [], _ => none
  | (k', v) :: l, k => if k' = k then some v else logLookup l k

theorem logLookup_none {l : List LogEntry} {k : Bytes} (h : k ∉ l.map (·.1)) : logLookup l k = none := by
  induction l with
  | nil => rfl
  | cons e l ih =>
    obtain ⟨k', v⟩ := e
    simp only [List.map_cons, List.mem_cons, not_or] at h
    have hne : ¬ k' = k := fun hh => h.1 hh.symm
    simp only [logLookup, if_neg hne]
    exact ih h.2

theorem logLookup_mem {l : List LogEntry} (hn : (l.map (·.1)).Nodup) (k : Bytes) (v : Option Bytes) :
    logLookup l k = some v ↔ (k, v) ∈ l := by
  induction l with
  | nil => simp [logLookup]
  | cons e l ih =>
    obtain ⟨k', v'⟩ := e
    simp only [List.map_cons, List.nodup_cons] at hn
    simp only [logLookup, List.mem_cons, Prod.mk.injEq]
    by_cases hk : k' = k
    · subst hk
      simp only [if_true, Option.some.injEq, true_and]
      constructor
      · intro h; exact Or.inl h.symm
      · rintro (h | h)
        · exact h.symm
        · exact absurd (List.mem_map.2 ⟨(k', v), h, rfl⟩) hn.1
    · simp only [if_neg hk, ih hn.2]
      constructor
      · intro h; exact Or.inr h
      · rintro (⟨h, _⟩ | h)
        · exact absurd h.symm hk
        · exact h

/-- Lookup in the result of applying a log with unique keys: the log's entry if there is one,
else the old binding — independent of the order of the log. -/
theorem applyLogSpec_get {m : List KV} (hm : SMap.Sorted m) (l : List LogEntry)
    (hn : (l.map (·.1)).Nodup) (k : Bytes) :
    SMap.get (applyLogSpec m l) k = (match logLookup l k with
      | some e => e
      | none => SMap.get m k) := by
  rw [applyLogSpec_eq]
  induction l generalizing m with
  | nil => rfl
  | cons e l ih =>
    obtain ⟨k', v⟩ := e
    simp only [List.map_cons, List.nodup_cons] at hn
    simp only [List.foldl_cons, logLookup]
    rw [ih (logStep_sorted hm _) hn.2, logStep_get hm]
    by_cases hk : k' = k
    · subst hk
      rw [logLookup_none hn.1]
      simp
    · simp only [if_neg hk, if_neg (fun h : k = k' => hk h.symm)]

/-- C13: applying a write log with unique keys is independent of the order of its entries. -/
theorem applyLogSpec_perm {m : List KV} (hm : SMap.Sorted m) {l l' : List LogEntry}
    (hn : (l.map (·.1)).Nodup) (hp : l'.Perm l) : applyLogSpec m l' = applyLogSpec m l := by
  have hn' : (l'.map (·.1)).Nodup := (hp.map _).nodup_iff.2 hn
  apply smap_ext_get (applyLogSpec_sorted hm l') (applyLogSpec_sorted hm l)
  intro k
  rw [applyLogSpec_get hm l' hn', applyLogSpec_get hm l hn]
  have : logLookup l' k = logLookup l k := by
    cases h1 : logLookup l k with
    | none =>
      cases h2 : logLookup l' k with
      | none => rfl
      | some v =>
        have := (logLookup_mem hn k v).2 (hp.mem_iff.1 ((logLookup_mem hn' k v).1 h2))
        rw [h1] at this; simp at this
    | some v =>
      exact (logLookup_mem hn' k v).2 (hp.mem_iff.2 ((logLookup_mem hn k v).1 h1))
  rw [this]

end OasisProofs.Mkvs
