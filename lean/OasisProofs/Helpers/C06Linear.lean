import OasisProofs.Props.C06
/-
Helper lemmas for `OasisProofs/Props/C06Linear.lean` (property C06, badger backend, linear
histories): MVCC timestamp monotonicity, the shape of the roots metadata after a commit, the
lone-node plan of a `Finalize` that finalizes every candidate, the definition of `Lin` / `Linear`
and of the invariant `LInv`, and its preservation by the three operations.
-/
namespace OasisProofs.C06Linear
open OasisModel.NodeDB OasisModel.NodeDB.Badger OasisProofs.C06

/-! ### MVCC: writes never lower the timestamp of the visible entry -/

theorem get_ts_le (m : MV) (k : Nat) : ∀ (t : Nat) (x : Nat × Bool), m.get k t = some x → x.1 ≤ t := by
  intro t
  induction t with
  | zero =>
    intro x hx
    simp only [MV.get] at hx
    cases h0 : m.at k 0 with
    | none => simp [h0] at hx
    | some y => simp only [h0, Option.map_some, Option.some.injEq] at hx; rw [← hx]; exact Nat.le_refl _
  | succ t ih =>
    intro x hx
    simp only [MV.get] at hx
    cases h1 : m.at k (t + 1) with
    | some y => simp only [h1, Option.some.injEq] at hx; rw [← hx]; exact Nat.le_refl _
    | none => simp only [h1] at hx; have := ih x hx; omega

theorem get_of_at (m : MV) (k t : Nat) (b : Bool) (h : m.at k t = some b) : m.get k t = some (t, b) := by
  cases t with
  | zero => simp [MV.get, h]
  | succ t => simp [MV.get, h]

theorem get_write_ts_mono (m : MV) (k v : Nat) (b : Bool) (k' : Nat) :
    ∀ (t ts : Nat) (bv : Bool), m.get k' t = some (ts, bv) →
      ∃ ts' bv', (m.write k v b).get k' t = some (ts', bv') ∧ ts ≤ ts' := by
  intro t
  induction t with
  | zero =>
    intro ts bv hg
    simp only [MV.get] at hg ⊢
    rw [at_write]
    cases h0 : m.at k' 0 with
    | none => simp [h0] at hg
    | some y =>
      simp only [h0, Option.map_some, Option.some.injEq, Prod.mk.injEq] at hg
      by_cases hc : k = k' ∧ v = 0
      · exact ⟨0, b, by simp [hc], by omega⟩
      · exact ⟨0, y, by simp [hc], by omega⟩
  | succ t ih =>
    intro ts bv hg
    simp only [MV.get] at hg ⊢
    rw [at_write]
    by_cases hc : k = k' ∧ v = t + 1
    · refine ⟨t + 1, b, by simp [hc], ?_⟩
      cases h1 : m.at k' (t + 1) with
      | some y => simp only [h1, Option.some.injEq, Prod.mk.injEq] at hg; omega
      | none => simp only [h1] at hg; have := get_ts_le m k' t _ hg; simp at this; omega
    · simp only [hc, if_false]
      cases h1 : m.at k' (t + 1) with
      | some y =>
        simp only [h1, Option.some.injEq, Prod.mk.injEq] at hg
        exact ⟨t + 1, y, rfl, by omega⟩
      | none =>
        simp only [h1] at hg
        exact ih ts bv hg

theorem get_writeAll_ts_mono (m : MV) (ks : List Nat) (v : Nat) (b : Bool) (k' t ts : Nat) (bv : Bool)
    (hg : m.get k' t = some (ts, bv)) :
    ∃ ts' bv', (m.writeAll ks v b).get k' t = some (ts', bv') ∧ ts ≤ ts' := by
  induction ks generalizing m ts bv with
  | nil => exact ⟨ts, bv, hg, Nat.le_refl _⟩
  | cons a ks ih =>
    simp only [MV.writeAll, List.foldl] at ih ⊢
    obtain ⟨ts1, bv1, h1, hle1⟩ := get_write_ts_mono m a v b k' t ts bv hg
    obtain ⟨ts2, bv2, h2, hle2⟩ := ih _ ts1 bv1 h1
    exact ⟨ts2, bv2, h2, by omega⟩

/-- `shielded` only depends on the node store. -/
theorem shielded_def (s : St) (n v w : Nat) :
    shielded s n v w = (match s.node.get n w with | some (ts, _) => decide (v < ts) | none => false) := rfl

theorem shielded_iff (s : St) (n v w : Nat) :
    shielded s n v w = true ↔ ∃ ts bv, s.node.get n w = some (ts, bv) ∧ v < ts := by
  rw [shielded_def]
  cases h : s.node.get n w with
  | none => simp
  | some x => obtain ⟨ts, bv⟩ := x; simp

/-- A batch of writes (values or tombstones, at any timestamp) keeps a key shielded. -/
theorem shielded_writeAll (s s' : St) (ks : List Nat) (v' : Nat) (b : Bool)
    (hn : s'.node = s.node.writeAll ks v' b) (n v w : Nat) (h : shielded s n v w = true) :
    shielded s' n v w = true := by
  rw [shielded_iff] at h ⊢
  obtain ⟨ts, bv, hg, hlt⟩ := h
  obtain ⟨ts', bv', hg', hle⟩ := get_writeAll_ts_mono s.node ks v' b n w ts bv hg
  exact ⟨ts', bv', by rw [hn]; exact hg', by omega⟩

theorem shielded_succ (s : St) (n v w : Nat) (h : shielded s n v w = true) : shielded s n v (w + 1) = true := by
  rw [shielded_iff] at h ⊢
  obtain ⟨ts, bv, hg, hlt⟩ := h
  have hle := get_ts_le _ _ _ _ hg
  simp only at hle
  cases h1 : s.node.at n (w + 1) with
  | some y => exact ⟨w + 1, y, by simp [MV.get, h1], by omega⟩
  | none => exact ⟨ts, bv, by simp [MV.get, h1, hg], hlt⟩

theorem shielded_of_written (s : St) (ks : List Nat) (w : Nat) (b : Bool) (n v : Nat) (hn : n ∈ ks) (hv : v < w) :
    ∀ s' : St, s'.node = s.node.writeAll ks w b → shielded s' n v w = true := by
  intro s' hs'
  rw [shielded_iff]
  refine ⟨w, b, ?_, hv⟩
  rw [hs']
  apply get_of_at
  rw [at_writeAll]
  simp [hn]

/-! ### linear histories

`Lin clv τ nv tips pend ops`: `ops` is a linear continuation of a database whose last finalized
roots are `tips` (all of version `nv - 1`; `[]` before the first finalization), in which the
candidates `pend` have been committed for the version `nv` under construction.

  * `commit old new added removed`: `new` is a candidate of version `nv` of a root type that has no
    candidate yet; it follows `old`, which is either empty ("from nothing", hash 0 — allowed at every
    version: this is how io roots are built) or one of the finalized roots of the previous version;
    the batch carries what the tree hands over (`CommitOK`).
  * `finalize nv chosen`: at least one candidate, and all candidates are finalized at once.
  * `prune v`: anywhere, any `v` (the database refuses all but the earliest non-last version).

`τ` assigns a root type to every node hash: trees of different types share no nodes.  Without it
the statement is false for two root types (finding D1, `C06.prune_can_destroy_later_finalized_root`,
is a history that is linear in every other respect); for histories with a single root type take
`τ := fun _ => typ`.  `clv h` is the set of node keys stored for the tree with root hash `h`
(`Badger.lean`: the nodes a reader fetches, `cl h`, plus the separately stored copies of the leaves
embedded in internal nodes — a derived tree points to such a copy when an embedded leaf becomes an
ordinary child, commit.go:190 / badger.go:1183). -/

/-- What `Batch.Commit` is given in a linear history (`tree.Commit`, commit.go:103-141).
`added` are the hashes passed to `PutNode` (every dirty node, commit.go:204,225), `removed` those
passed to `RemoveNodes` (`pendingRemovedNodes`, commit.go:131):
every stored node of the new tree is put by the batch or is a stored node of the old tree
(`added ⊇ new \ old`), every removed node is a stored node of the old tree, and a removed node that
is (again) part of the new tree was put again (`removed ⊆ old \ (new \ added)`). -/
def CommitOK (clv : Nat → List Nat) (τ : Nat → Nat) (nv : Nat) (tips pend : List Root)
    (o n : Root) (a r : List Nat) : Prop :=
  n.ver = nv ∧
  (∀ p ∈ pend, p.typ ≠ n.typ) ∧
  o.typ = n.typ ∧ (o.ver = nv ∨ o.ver + 1 = nv) ∧
  (o.hash ≠ 0 → o ∈ tips) ∧
  (n.hash ≠ 0 → ∀ x ∈ clv n.hash, τ x = n.typ ∧ (x ∈ a ∨ (o.hash ≠ 0 ∧ x ∈ clv o.hash))) ∧
  (∀ x ∈ r, (o.hash ≠ 0 ∧ x ∈ clv o.hash) ∧ (n.hash ≠ 0 → x ∈ clv n.hash → x ∈ a))

instance (clv : Nat → List Nat) (τ : Nat → Nat) (nv : Nat) (tips pend : List Root)
    (o n : Root) (a r : List Nat) : Decidable (CommitOK clv τ nv tips pend o n a r) := by
  unfold CommitOK; infer_instance

inductive Lin (clv : Nat → List Nat) (τ : Nat → Nat) : Nat → List Root → List Root → List BOp → Prop
  | nil (nv : Nat) (tips pend : List Root) : Lin clv τ nv tips pend []
  | prune (nv : Nat) (tips pend : List Root) (v : Nat) (ops : List BOp) :
      Lin clv τ nv tips pend ops → Lin clv τ nv tips pend (BOp.prune v :: ops)
  | commit (nv : Nat) (tips pend : List Root) (o n : Root) (a r : List Nat) (ops : List BOp) :
      CommitOK clv τ nv tips pend o n a r → Lin clv τ nv tips (pend ++ [n]) ops →
      Lin clv τ nv tips pend (BOp.commit o n a r :: ops)
  | finalize (nv : Nat) (tips pend chosen : List Root) (ops : List BOp) :
      pend ≠ [] → (∀ x, x ∈ chosen ↔ x ∈ pend) → Lin clv τ (nv + 1) pend [] ops →
      Lin clv τ nv tips pend (BOp.finalize nv chosen :: ops)

/-- A linear history of an empty database, starting at any version `v0`. -/
def Linear (clv : Nat → List Nat) (τ : Nat → Nat) (ops : List BOp) : Prop :=
  ∃ v0, Lin clv τ v0 [] [] ops

/-! ### the invariant -/

/-- Two reported roots of different versions that share a stored node: the later one sees a copy
written after the earlier version, or the earlier root has a derived root — `Batch.Commit` appended the
new root to the old root's list (badger.go:1106-1126), so `Prune` skips it ("Not a lone root",
badger.go:782-785) and deletes none of its nodes. -/
def Shield (clv : Nat → List Nat) (s : St) : Prop :=
  ∀ (u w : Nat) (e : TH × List TH) (x : TH) (n : Nat), u < w → e ∈ s.rmeta u → e.1.2 ≠ 0 →
    hasKey (s.rmeta w) x = true → x.2 ≠ 0 → n ∈ clv e.1.2 → n ∈ clv x.2 →
    shielded s n u w = true ∨ e.2 ≠ []

structure LInv (clv : Nat → List Nat) (τ : Nat → Nat) (s : St) (nv : Nat) (tips pend : List Root) : Prop where
  first : tips = [] → s.last = none ∧ s.earliest = 0
  later : tips ≠ [] → ∃ u, nv = u + 1 ∧ s.last = some u ∧ s.earliest ≤ u ∧
            ∀ t ∈ tips, t.ver = u ∧ hasKey (s.rmeta u) (t.typ, t.hash) = true
  pendVer : ∀ p ∈ pend, p.ver = nv
  pendKeys : ∀ x, hasKey (s.rmeta nv) x = true ↔ ∃ p ∈ pend, x = (p.typ, p.hash)
  above : ∀ w, nv < w → s.rmeta w = []
  tyUniq : ∀ w x y, hasKey (s.rmeta w) x = true → hasKey (s.rmeta w) y = true → x.1 = y.1 → x = y
  typed : ∀ w x, hasKey (s.rmeta w) x = true → x.2 ≠ 0 → ∀ n ∈ clv x.2, τ n = x.1
  good : Good clv s
  shield : Shield clv s
  updOK : ∀ e ∈ s.rmeta nv, ∀ x, (true, x) ∈ updOf s nv e.1 →
            τ x = e.1.1 ∧ (e.1.2 ≠ 0 → x ∈ clv e.1.2 → (false, x) ∈ updOf s nv e.1)
  noTomb : ∀ k w, nv ≤ w → s.node.at k w ≠ some false

theorem linv_init (clv : Nat → List Nat) (τ : Nat → Nat) (v0 : Nat) : LInv clv τ Badger.init v0 [] [] := by
  have hm : ∀ w, Badger.init.rmeta w = [] := fun w => rfl
  refine ⟨fun _ => ⟨rfl, rfl⟩, fun h => absurd rfl h, by simp, ?_, fun w _ => hm w, ?_, ?_, ?_, ?_, ?_, ?_⟩
  · intro x; rw [hm]; simp [hasKey]
  · intro w x y hx; rw [hm] at hx; simp [hasKey] at hx
  · intro w x hx; rw [hm] at hx; simp [hasKey] at hx
  · intro w th _ hk; rw [hm] at hk; simp [hasKey] at hk
  · intro u w e x n _ he; rw [hm] at he; simp at he
  · intro e he; rw [hm] at he; simp at he
  · intro k w _; simp [Badger.init, MV.empty, MV.at]

theorem linv_earliest_le (clv : Nat → List Nat) (τ : Nat → Nat) {s : St} {nv : Nat} {tips pend : List Root}
    (h : LInv clv τ s nv tips pend) : s.earliest ≤ nv := by
  by_cases ht : tips = []
  · rw [(h.first ht).2]; omega
  · obtain ⟨u, h1, _, h3, _⟩ := h.later ht; omega

theorem linv_not_finalized (clv : Nat → List Nat) (τ : Nat → Nat) {s : St} {nv : Nat} {tips pend : List Root}
    (h : LInv clv τ s nv tips pend) : Badger.finalizedGE s nv = false ∧ Badger.gapBefore s nv = false := by
  by_cases ht : tips = []
  · simp [Badger.finalizedGE, Badger.gapBefore, (h.first ht).1]
  · obtain ⟨u, h1, h2, _, _⟩ := h.later ht
    simp [Badger.finalizedGE, Badger.gapBefore, h2, h1]

theorem mem_hasKey (rm : RootsMeta) (e : TH × List TH) (h : e ∈ rm) : hasKey rm e.1 = true := by
  simp only [hasKey, List.any_eq_true, beq_iff_eq]
  exact ⟨e, h, rfl⟩

theorem hasKey_mem (rm : RootsMeta) (x : TH) (h : hasKey rm x = true) : ∃ e ∈ rm, e.1 = x := by
  simpa only [hasKey, List.any_eq_true, beq_iff_eq] using h

/-! ### commit -/

/-- The roots metadata after a commit that creates a root derived from nothing or from a root of
another version. -/
theorem rmeta_commitSt (s : St) (o n : Root) (a r : List Nat) (hov : o.hash ≠ 0 → o.ver ≠ n.ver) (w : Nat) :
    (commitSt s o n a r).rmeta w =
      if w = n.ver then s.rmeta n.ver ++ [((n.typ, n.hash), [])]
      else if o.hash ≠ 0 ∧ w = o.ver then
        (s.rmeta w).map (fun e => if e.1 == (o.typ, o.hash) then (e.1, e.2 ++ [(n.typ, n.hash)]) else e)
      else s.rmeta w := by
  have hmeta1 : ∀ u, getMeta (metaWithRoot s n) u =
      if n.ver = u then s.rmeta n.ver ++ [((n.typ, n.hash), [])] else s.rmeta u := by
    intro u; simp [metaWithRoot, getMeta_cons, St.rmeta]
  unfold commitSt
  simp only [St.rmeta]
  by_cases h0 : o.hash = 0
  · have hb : (o.hash != 0) = false := by simp [h0]
    simp only [hb, Bool.false_eq_true, if_false]
    rw [hmeta1]
    by_cases hw : w = n.ver
    · subst hw; simp [St.rmeta]
    · have : ¬ n.ver = w := fun e => hw e.symm
      simp [hw, this, h0, St.rmeta]
  · have hb : (o.hash != 0) = true := by simp [h0]
    have hne := hov h0
    simp only [hb, if_true, getMeta_cons]
    by_cases hw : w = n.ver
    · subst hw
      simp only [hne, if_false, if_true]
      rw [hmeta1]; simp [St.rmeta]
    · simp only [hw, if_false]
      by_cases hwo : w = o.ver
      · subst hwo
        simp only [if_true, h0, ne_eq, not_false_eq_true, and_self]
        rw [hmeta1]
        have : ¬ n.ver = o.ver := fun e => hw e.symm
        simp [this, St.rmeta]
      · have h1 : ¬ o.ver = w := fun e => hwo e.symm
        have h2 : ¬ n.ver = w := fun e => hw e.symm
        simp only [h1, if_false, hwo, and_false]
        rw [hmeta1]; simp [h2, St.rmeta]

/-- Entries of a version other than the new root's after such a commit: same key, and a derived-root
list that only grew; the entry of the old root is no longer lone. -/
theorem mem_rmeta_commitSt_other (s : St) (o n : Root) (a r : List Nat) (hov : o.hash ≠ 0 → o.ver ≠ n.ver)
    (w : Nat) (hw : w ≠ n.ver) (e' : TH × List TH) (he' : e' ∈ (commitSt s o n a r).rmeta w) :
    ∃ e0 ∈ s.rmeta w, e0.1 = e'.1 ∧ (e0.2 ≠ [] → e'.2 ≠ []) ∧
      (o.hash ≠ 0 → w = o.ver → e0.1 = (o.typ, o.hash) → e'.2 ≠ []) := by
  rw [rmeta_commitSt s o n a r hov w] at he'
  simp only [hw, if_false] at he'
  by_cases hc : o.hash ≠ 0 ∧ w = o.ver
  · obtain ⟨hc1, hc2⟩ := hc
    subst hc2
    simp only [hc1, ne_eq, not_false_eq_true, and_self, if_true, List.mem_map] at he'
    obtain ⟨e0, he0, hf⟩ := he'
    refine ⟨e0, he0, ?_, ?_, ?_⟩
    · rw [← hf]; split <;> rfl
    · intro hne; rw [← hf]; split
      · simp
      · exact hne
    · intro _ _ hk
      rw [← hf]
      have : (e0.1 == (o.typ, o.hash)) = true := by simp [hk]
      simp [this]
  · simp only [hc, if_false] at he'
    refine ⟨e', he', rfl, id, ?_⟩
    intro h1 h2 _
    exact absurd ⟨h1, h2⟩ hc

theorem updOf_commitSt (s : St) (o n : Root) (a r : List Nat) (v : Nat) (th : TH) :
    updOf (commitSt s o n a r) v th =
      if ((n.ver, (n.typ, n.hash)) : Nat × TH) = (v, th) then a.map (fun h => (false, h)) ++ r.map (fun h => (true, h))
      else updOf s v th := by
  unfold updOf St.upd commitSt
  simp only [getUpd]
  split <;> simp

theorem commit_facts (clv : Nat → List Nat) (τ : Nat → Nat) {s : St} {nv : Nat} {tips pend : List Root}
    {o n : Root} {a r : List Nat} (hI : LInv clv τ s nv tips pend) (hc : CommitOK clv τ nv tips pend o n a r) :
    hasKey (s.rmeta n.ver) (n.typ, n.hash) = false ∧
    (∀ x, hasKey (s.rmeta n.ver) x = true → x.1 ≠ n.typ) ∧
    (o.hash ≠ 0 → o.ver + 1 = n.ver ∧ s.earliest ≤ o.ver ∧ hasKey (s.rmeta o.ver) (o.typ, o.hash) = true) := by
  obtain ⟨hnv, hty, _, _, htip, _, _⟩ := hc
  subst hnv
  have h2 : ∀ x, hasKey (s.rmeta n.ver) x = true → x.1 ≠ n.typ := by
    intro x hx
    obtain ⟨p, hp, hpx⟩ := (hI.pendKeys x).1 hx
    rw [hpx]; exact hty p hp
  refine ⟨?_, h2, ?_⟩
  · cases hk : hasKey (s.rmeta n.ver) (n.typ, n.hash) with
    | false => rfl
    | true => exact absurd rfl (h2 _ hk)
  · intro h0
    have hmem := htip h0
    have hne : tips ≠ [] := by intro e; rw [e] at hmem; simp at hmem
    obtain ⟨u, h1, _, h3, h4⟩ := hI.later hne
    obtain ⟨h5, h6⟩ := h4 o hmem
    rw [h5]; exact ⟨h1.symm, h3, h6⟩

theorem commit_succeeds (clv : Nat → List Nat) (τ : Nat → Nat) {s : St} {nv : Nat} {tips pend : List Root}
    {o n : Root} {a r : List Nat} (hI : LInv clv τ s nv tips pend) (hc : CommitOK clv τ nv tips pend o n a r) :
    Badger.commit s o n a r = .ok (commitSt s o n a r) := by
  obtain ⟨hk, _, hold⟩ := commit_facts clv τ hI hc
  obtain ⟨hnv, _, hot, hover, _, _, _⟩ := hc
  have hfol : Spec.follows n o = true := by
    unfold Spec.follows
    simp only [Bool.and_eq_true, beq_iff_eq, Bool.or_eq_true]
    exact ⟨hot.symm, by omega⟩
  have hfin : Badger.finalizedGE s n.ver = false := by rw [hnv]; exact (linv_not_finalized clv τ hI).1
  have herr : commitErr s o n = none := by
    unfold commitErr
    simp only [hfol, hfin, hk, Bool.not_true, Bool.false_eq_true, if_false]
    by_cases h0 : o.hash = 0
    · simp [h0]
    · obtain ⟨h1, h2, h3⟩ := hold h0
      have hb : (o.hash != 0) = true := by simp [h0]
      have hlt : (decide (o.ver < s.earliest) && (o.ver != n.ver)) = false := by
        have : ¬ o.ver < s.earliest := by omega
        simp [this]
      have hm : getMeta (metaWithRoot s n) o.ver = s.rmeta o.ver := by
        have : ¬ n.ver = o.ver := by omega
        simp [metaWithRoot, getMeta_cons, this, St.rmeta]
      simp only [hb, if_true, hlt, Bool.false_eq_true, if_false, hm, h3, Bool.not_true]
  unfold Badger.commit
  rw [herr]
  simp only [hk, Bool.false_eq_true, if_false]

theorem live_next (clv : Nat → List Nat) (τ : Nat → Nat) {s : St} {nv : Nat} {tips pend : List Root}
    (hI : LInv clv τ s nv tips pend) (k u : Nat) (hu : u + 1 = nv) (h : s.node.live k u = true) :
    s.node.live k nv = true := by
  rw [← hu, live_succ]
  cases hat : s.node.at k (u + 1) with
  | none => exact h
  | some b =>
    cases b with
    | true => rfl
    | false => exact absurd hat (hI.noTomb k (u + 1) (by omega))

theorem commit_safe (clv : Nat → List Nat) (τ : Nat → Nat) {s : St} {nv : Nat} {tips pend : List Root}
    {o n : Root} {a r : List Nat} (hI : LInv clv τ s nv tips pend) (hc : CommitOK clv τ nv tips pend o n a r) :
    commitSafe clv s n a = true := by
  obtain ⟨_, _, hold⟩ := commit_facts clv τ hI hc
  obtain ⟨hnv, _, _, _, _, hnew, _⟩ := hc
  unfold commitSafe
  by_cases h0 : n.hash = 0
  · simp [h0]
  · have hb : (n.hash == 0) = false := by simp [h0]
    simp only [hb, Bool.false_or, List.all_eq_true, Bool.or_eq_true, List.contains_eq_mem, decide_eq_true_eq]
    intro x hx
    rcases (hnew h0 x hx).2 with ha | ⟨ho, hxo⟩
    · exact Or.inl ha
    · right
      obtain ⟨h1, h2, h3⟩ := hold ho
      have hl := (hI.good o.ver (o.typ, o.hash) h2 h3).2 ho x hxo
      rw [hnv]
      exact live_next clv τ hI x o.ver (by omega) hl

theorem commit_shield (clv : Nat → List Nat) (τ : Nat → Nat) {s : St} {nv : Nat} {tips pend : List Root}
    {o n : Root} {a r : List Nat} (hI : LInv clv τ s nv tips pend) (hc : CommitOK clv τ nv tips pend o n a r) :
    Shield clv (commitSt s o n a r) := by
  obtain ⟨_, _, hold⟩ := commit_facts clv τ hI hc
  have hc' := hc
  obtain ⟨hnv, _, hot, _, _, hnew, _⟩ := hc
  have hov : o.hash ≠ 0 → o.ver ≠ n.ver := fun h0 => by have := (hold h0).1; omega
  have hnode : (commitSt s o n a r).node = s.node.writeAll a n.ver true := rfl
  have hmono : ∀ k v w, shielded s k v w = true → shielded (commitSt s o n a r) k v w = true :=
    fun k v w h => shielded_writeAll s _ a n.ver true hnode k v w h
  intro u w e' x k huw he' he0 hx hx0 hke hkx
  -- the earlier root is never the new one: nothing is reported above the new version
  have hune : u ≠ n.ver := by
    intro hu
    have : s.rmeta w = [] := hI.above w (by omega)
    rw [hasKey_commitSt, this] at hx
    have : ¬ w = n.ver := by omega
    simp [hasKey, this] at hx
  obtain ⟨e0, he0m, hk0, hgrow, hlink⟩ := mem_rmeta_commitSt_other s o n a r hov u hune e' he'
  rw [hasKey_commitSt] at hx
  by_cases hnewx : (decide (w = n.ver) && x == (n.typ, n.hash)) = true
  · -- the later root is the new one
    simp only [Bool.and_eq_true, decide_eq_true_eq, beq_iff_eq] at hnewx
    obtain ⟨hw, hxe⟩ := hnewx
    subst hxe
    have hn0 : n.hash ≠ 0 := hx0
    rcases (hnew hn0 k hkx).2 with hka | ⟨ho0, hko⟩
    · left
      rw [hw]
      exact shielded_of_written s a n.ver true k u hka (by omega) _ hnode
    · obtain ⟨h1, h2, h3⟩ := hold ho0
      by_cases huo : u = o.ver
      · -- same version as the old root: by typing it is the old root, which now has a derived root
        right
        apply hlink ho0 huo
        have hke0 : k ∈ clv e0.1.2 := by rw [hk0]; exact hke
        have he00 : e0.1.2 ≠ 0 := by rw [hk0]; exact he0
        have t1 := hI.typed u e0.1 (mem_hasKey _ _ he0m) he00 k hke0
        have t2 := hI.typed o.ver (o.typ, o.hash) h3 ho0 k hko
        apply hI.tyUniq u e0.1 (o.typ, o.hash) (mem_hasKey _ _ he0m) (by rw [huo]; exact h3)
        rw [← t1, t2]
      · have hlt : u < o.ver := by omega
        have he00 : e0.1.2 ≠ 0 := by rw [hk0]; exact he0
        rcases hI.shield u o.ver e0 (o.typ, o.hash) k hlt he0m he00 h3 ho0 (by rw [hk0]; exact hke) hko with hs | hne
        · left
          apply hmono
          have := shielded_succ s k u o.ver hs
          rw [hw, ← h1]; exact this
        · exact Or.inr (hgrow hne)
  · have hx' : hasKey (s.rmeta w) x = true := by
      simp only [Bool.or_eq_true] at hx
      rcases hx with hx | hx
      · exact hx
      · exact absurd hx hnewx
    have he00 : e0.1.2 ≠ 0 := by rw [hk0]; exact he0
    rcases hI.shield u w e0 x k huw he0m he00 hx' hx0 (by rw [hk0]; exact hke) hkx with hs | hne
    · exact Or.inl (hmono _ _ _ hs)
    · exact Or.inr (hgrow hne)

theorem commit_linv (clv : Nat → List Nat) (τ : Nat → Nat) {s : St} {nv : Nat} {tips pend : List Root}
    {o n : Root} {a r : List Nat} (hI : LInv clv τ s nv tips pend) (hc : CommitOK clv τ nv tips pend o n a r) :
    LInv clv τ (commitSt s o n a r) nv tips (pend ++ [n]) := by
  obtain ⟨hk, hkty, hold⟩ := commit_facts clv τ hI hc
  have hsh := commit_shield clv τ hI hc
  have hsafe := commit_safe clv τ hI hc
  have hok := commit_succeeds clv τ hI hc
  obtain ⟨hnv, hty, hot, _, _, hnew, hrem⟩ := hc
  have hov : o.hash ≠ 0 → o.ver ≠ n.ver := fun h0 => by have := (hold h0).1; omega
  have hkeys : ∀ w x, hasKey ((commitSt s o n a r).rmeta w) x = true →
      hasKey (s.rmeta w) x = true ∨ (w = n.ver ∧ x = (n.typ, n.hash)) := by
    intro w x hx
    rw [hasKey_commitSt] at hx
    simp only [Bool.or_eq_true, Bool.and_eq_true, decide_eq_true_eq, beq_iff_eq] at hx
    exact hx
  have hkeys' : ∀ w x, hasKey (s.rmeta w) x = true → hasKey ((commitSt s o n a r).rmeta w) x = true := by
    intro w x hx; rw [hasKey_commitSt, hx]; rfl
  refine ⟨hI.first, ?_, ?_, ?_, ?_, ?_, ?_, ?_, hsh, ?_, ?_⟩
  · intro ht
    obtain ⟨u, h1, h2, h3, h4⟩ := hI.later ht
    exact ⟨u, h1, h2, h3, fun t htm => ⟨(h4 t htm).1, hkeys' _ _ (h4 t htm).2⟩⟩
  · intro p hp
    rcases List.mem_append.1 hp with hp | hp
    · exact hI.pendVer p hp
    · simp only [List.mem_singleton] at hp; rw [hp]; exact hnv
  · intro x
    rw [hasKey_commitSt]
    simp only [Bool.or_eq_true, Bool.and_eq_true, decide_eq_true_eq, beq_iff_eq]
    constructor
    · rintro (hx | ⟨_, hx⟩)
      · obtain ⟨p, hp, hpx⟩ := (hI.pendKeys x).1 hx
        exact ⟨p, List.mem_append_left _ hp, hpx⟩
      · exact ⟨n, by simp, hx⟩
    · rintro ⟨p, hp, hpx⟩
      rcases List.mem_append.1 hp with hp | hp
      · exact Or.inl ((hI.pendKeys x).2 ⟨p, hp, hpx⟩)
      · simp only [List.mem_singleton] at hp
        exact Or.inr ⟨hnv.symm, by rw [hpx, hp]⟩
  · intro w hw
    rw [rmeta_commitSt s o n a r hov w]
    have h1 : ¬ w = n.ver := by omega
    have h2 : ¬ (o.hash ≠ 0 ∧ w = o.ver) := by
      rintro ⟨h0, hwo⟩
      have := (hold h0).1; omega
    simp only [h1, h2, if_false]
    exact hI.above w hw
  · intro w x y hx hy hxy
    rcases hkeys w x hx with hx | ⟨hwx, hxe⟩
    · rcases hkeys w y hy with hy | ⟨hwy, hye⟩
      · exact hI.tyUniq w x y hx hy hxy
      · subst hwy; subst hye
        exact absurd hxy (hkty x hx)
    · rcases hkeys w y hy with hy | ⟨hwy, hye⟩
      · subst hwx; subst hxe
        exact absurd hxy.symm (hkty y hy)
      · rw [hxe, hye]
  · intro w x hx hx0 k hkx
    rcases hkeys w x hx with hx | ⟨_, hxe⟩
    · exact hI.typed w x hx hx0 k hkx
    · subst hxe
      exact (hnew hx0 k hkx).1
  · exact good_commit clv s _ o n a r hok hsafe hI.good
  · -- updOK
    intro e he x hx
    rw [rmeta_commitSt s o n a r hov nv] at he
    simp only [hnv, if_true] at he
    rw [updOf_commitSt] at hx ⊢
    rcases List.mem_append.1 he with he | he
    · have hne : ¬ ((n.ver, (n.typ, n.hash)) : Nat × TH) = (nv, e.1) := by
        intro heq
        have h2 : (n.typ, n.hash) = e.1 := (Prod.mk.inj heq).2
        have := mem_hasKey _ _ he
        rw [← h2, ← hnv, hk] at this
        exact absurd this (by simp)
      simp only [hne, if_false] at hx ⊢
      exact hI.updOK e he x hx
    · simp only [List.mem_singleton] at he
      subst he
      simp only [hnv, if_true, List.mem_append, List.mem_map, Prod.mk.injEq, Bool.false_eq_true, false_and,
        and_false, exists_false, false_or, true_and, exists_eq_right] at hx ⊢
      obtain ⟨⟨ho0, hxo⟩, hre⟩ := hrem x hx
      obtain ⟨_, _, h3⟩ := hold ho0
      refine ⟨?_, fun h0 hxn => Or.inl (hre h0 hxn)⟩
      rw [hI.typed o.ver (o.typ, o.hash) h3 ho0 x hxo]
      exact hot
  · intro k w hw
    show (s.node.writeAll a n.ver true).at k w ≠ some false
    rw [at_writeAll]
    split
    · simp
    · exact hI.noTomb k w hw

/-! ### finalize -/

theorem closeStep_sup (rm : List (TH × List TH)) (fin : List TH) (x : TH) (hx : x ∈ fin) : x ∈ closeStep rm fin := by
  unfold closeStep
  induction rm generalizing fin with
  | nil => exact hx
  | cons e rm ih =>
    simp only [List.foldl_cons]
    apply ih
    split
    · exact List.mem_append_left _ hx
    · exact hx

theorem closeStep_mem (rm : List (TH × List TH)) (fin : List TH) (x : TH) (hx : x ∈ closeStep rm fin) :
    x ∈ fin ∨ ∃ e ∈ rm, e.1 = x := by
  unfold closeStep at hx
  induction rm generalizing fin with
  | nil => exact Or.inl hx
  | cons e rm ih =>
    simp only [List.foldl_cons] at hx
    rcases ih _ hx with h | ⟨e', he', hx'⟩
    · split at h
      · rcases List.mem_append.1 h with h | h
        · exact Or.inl h
        · simp only [List.mem_singleton] at h
          exact Or.inr ⟨e, by simp, h.symm⟩
      · exact Or.inl h
    · exact Or.inr ⟨e', List.mem_cons_of_mem _ he', hx'⟩

theorem closeFin_sup (rm : List (TH × List TH)) (fin : List TH) (x : TH) (hx : x ∈ fin) : x ∈ closeFin rm fin := by
  unfold closeFin
  generalize List.range (rm.length + 1) = l
  induction l generalizing fin with
  | nil => exact hx
  | cons a l ih => simp only [List.foldl_cons]; exact ih _ (closeStep_sup rm fin x hx)

theorem closeFin_mem (rm : List (TH × List TH)) (fin : List TH) (x : TH) (hx : x ∈ closeFin rm fin) :
    x ∈ fin ∨ ∃ e ∈ rm, e.1 = x := by
  unfold closeFin at hx
  generalize List.range (rm.length + 1) = l at hx
  induction l generalizing fin with
  | nil => exact Or.inl hx
  | cons a l ih =>
    simp only [List.foldl_cons] at hx
    rcases ih _ hx with h | h
    · exact closeStep_mem rm fin x h
    · exact Or.inr h

/-- With every root of the version finalized, a deleted node was removed by one of the roots and put
by none of them. -/
theorem mem_dels_all_final (s : St) (v : Nat) (ch : List TH)
    (hfin : ∀ e ∈ s.rmeta v, (closeFin (s.rmeta v) ch).contains e.1 = true) (x : Nat)
    (hx : x ∈ (finPlan s v ch).dels) :
    (∃ e ∈ s.rmeta v, (true, x) ∈ updOf s v e.1) ∧ ∀ e ∈ s.rmeta v, (false, x) ∉ updOf s v e.1 := by
  simp only [finPlan, List.mem_filter, List.mem_flatMap, Bool.not_eq_true', List.contains_eq_mem,
    decide_eq_false_iff_not, not_exists, not_and] at hx
  obtain ⟨⟨e, he, hxe⟩, hnot⟩ := hx
  have hf := hfin e he
  simp only [List.contains_eq_mem, decide_eq_true_eq] at hf
  constructor
  · refine ⟨e, he, ?_⟩
    simp only [hf, decide_true, if_true, List.mem_map, List.mem_filter] at hxe
    obtain ⟨u, ⟨hu, hu1⟩, hu2⟩ := hxe
    have : u = (true, x) := by rw [← hu1, ← hu2]
    rw [← this]; exact hu
  · intro e' he' hmem
    have hf' := hfin e' he'
    simp only [List.contains_eq_mem, decide_eq_true_eq] at hf'
    apply hnot e' he'
    simp only [hf', decide_true, if_true, List.mem_map, List.mem_filter]
    exact ⟨(false, x), ⟨hmem, by simp⟩, rfl⟩

theorem finalize_facts (clv : Nat → List Nat) (τ : Nat → Nat) {s : St} {nv : Nat} {tips pend chosen : List Root}
    (hI : LInv clv τ s nv tips pend) (hch : ∀ x, x ∈ chosen ↔ x ∈ pend) :
    (∀ e ∈ s.rmeta nv, (closeFin (s.rmeta nv) (chosenTH chosen)).contains e.1 = true) ∧
    (finPlan s nv (chosenTH chosen)).keep = s.rmeta nv ∧
    (∀ e ∈ s.rmeta nv, e.1.2 ≠ 0 → ∀ k ∈ clv e.1.2, k ∉ (finPlan s nv (chosenTH chosen)).dels) := by
  have hfin : ∀ e ∈ s.rmeta nv, (closeFin (s.rmeta nv) (chosenTH chosen)).contains e.1 = true := by
    intro e he
    obtain ⟨p, hp, hpe⟩ := (hI.pendKeys e.1).1 (mem_hasKey _ _ he)
    simp only [List.contains_eq_mem, decide_eq_true_eq]
    apply closeFin_sup
    simp only [chosenTH, List.mem_map]
    exact ⟨p, (hch p).2 hp, hpe.symm⟩
  refine ⟨hfin, ?_, ?_⟩
  · show (s.rmeta nv).filter (fun e => (closeFin (s.rmeta nv) (chosenTH chosen)).contains e.1) = s.rmeta nv
    exact List.filter_eq_self.2 hfin
  · intro e he he0 k hk hkd
    obtain ⟨⟨e', he', hrem⟩, hnot⟩ := mem_dels_all_final s nv _ hfin k hkd
    obtain ⟨hty, hre⟩ := hI.updOK e' he' k hrem
    have hte := hI.typed nv e.1 (mem_hasKey _ _ he) he0 k hk
    have : e'.1 = e.1 := hI.tyUniq nv e'.1 e.1 (mem_hasKey _ _ he') (mem_hasKey _ _ he) (by rw [← hty, hte])
    have h0' : e'.1.2 ≠ 0 := by rw [this]; exact he0
    exact hnot e' he' (hre h0' (by rw [this]; exact hk))

theorem finalize_succeeds (clv : Nat → List Nat) (τ : Nat → Nat) {s : St} {nv : Nat} {tips pend chosen : List Root}
    (hI : LInv clv τ s nv tips pend) (hne : pend ≠ []) (hch : ∀ x, x ∈ chosen ↔ x ∈ pend) :
    Badger.finalize s nv chosen = .ok (finalizeSt s nv chosen) := by
  obtain ⟨hfg, hgap⟩ := linv_not_finalized clv τ hI
  have h1 : chosen.isEmpty = false := by
    cases hc : chosen with
    | nil =>
      cases hp : pend with
      | nil => exact absurd hp hne
      | cons p ps =>
        have : p ∈ chosen := (hch p).2 (by rw [hp]; simp)
        rw [hc] at this; simp at this
    | cons c cs => rfl
  have h2 : chosen.any (fun r => r.ver != nv) = false := by
    rw [List.any_eq_false]
    intro r hr
    have := hI.pendVer r ((hch r).1 hr)
    simp [this]
  have h3 : (finPlan s nv (chosenTH chosen)).finalized.any (fun th => !hasKey (s.rmeta nv) th && th.2 != 0) = false := by
    rw [List.any_eq_false]
    intro th hth
    have hth' : th ∈ closeFin (s.rmeta nv) (chosenTH chosen) := hth
    have hk : hasKey (s.rmeta nv) th = true := by
      rcases closeFin_mem _ _ _ hth' with h | ⟨e, he, hx⟩
      · simp only [chosenTH, List.mem_map] at h
        obtain ⟨p, hp, hpe⟩ := h
        exact (hI.pendKeys th).2 ⟨p, (hch p).1 hp, hpe.symm⟩
      · rw [← hx]; exact mem_hasKey _ _ he
    simp [hk]
  have herr : finalizeErr s nv chosen = none := by
    unfold finalizeErr
    simp only [h1, hgap, hfg, h2, h3, Bool.false_eq_true, if_false]
  unfold Badger.finalize
  rw [herr]

theorem finalize_safe (clv : Nat → List Nat) (τ : Nat → Nat) {s : St} {nv : Nat} {tips pend chosen : List Root}
    (hI : LInv clv τ s nv tips pend) (hch : ∀ x, x ∈ chosen ↔ x ∈ pend) :
    finalizeSafe clv s nv chosen = true := by
  obtain ⟨_, hkeep, hdels⟩ := finalize_facts clv τ hI hch
  unfold finalizeSafe
  simp only [Bool.and_eq_true, List.all_eq_true, Bool.or_eq_true, beq_iff_eq, decide_eq_true_eq,
    Bool.not_eq_true', List.contains_eq_mem, decide_eq_false_iff_not]
  constructor
  · intro e he
    rw [hkeep] at he
    by_cases h0 : e.1.2 = 0
    · exact Or.inl h0
    · exact Or.inr (fun k hk => hdels e he h0 k hk)
  · intro w _
    by_cases hw : w ≤ nv
    · exact Or.inl hw
    · right
      intro e he
      rw [hI.above w (by omega)] at he
      simp at he

theorem rmeta_finalizeSt (s : St) (v : Nat) (ch : List Root) (hkeep : (finPlan s v (chosenTH ch)).keep = s.rmeta v)
    (w : Nat) : (finalizeSt s v ch).rmeta w = s.rmeta w := by
  simp only [finalizeSt, St.rmeta, getMeta_cons]
  split
  · rename_i h; subst h; exact hkeep
  · rfl

theorem finalize_linv (clv : Nat → List Nat) (τ : Nat → Nat) {s : St} {nv : Nat} {tips pend chosen : List Root}
    (hI : LInv clv τ s nv tips pend) (hne : pend ≠ []) (hch : ∀ x, x ∈ chosen ↔ x ∈ pend) :
    LInv clv τ (finalizeSt s nv chosen) (nv + 1) pend [] := by
  obtain ⟨_, hkeep, _⟩ := finalize_facts clv τ hI hch
  have hok := finalize_succeeds clv τ hI hne hch
  have hsafe := finalize_safe clv τ hI hch
  have hrm := rmeta_finalizeSt s nv chosen hkeep
  have hnode : (finalizeSt s nv chosen).node = s.node.writeAll (finPlan s nv (chosenTH chosen)).dels nv false := rfl
  refine ⟨fun h => absurd h hne, ?_, by simp, ?_, ?_, ?_, ?_, ?_, ?_, ?_, ?_⟩
  · intro _
    refine ⟨nv, rfl, rfl, ?_, ?_⟩
    · show (if s.last.isNone then nv else s.earliest) ≤ nv
      split
      · exact Nat.le_refl _
      · exact linv_earliest_le clv τ hI
    · intro t ht
      refine ⟨hI.pendVer t ht, ?_⟩
      rw [hrm]; exact (hI.pendKeys _).2 ⟨t, ht, rfl⟩
  · intro x
    rw [hrm, hI.above (nv + 1) (by omega)]
    simp [hasKey]
  · intro w hw; rw [hrm]; exact hI.above w (by omega)
  · intro w x y; rw [hrm]; exact hI.tyUniq w x y
  · intro w x; rw [hrm]; exact hI.typed w x
  · exact good_finalize clv s _ nv chosen hok hsafe (linv_earliest_le clv τ hI) hI.good
  · intro u w e x k huw he he0 hx hx0 hke hkx
    rw [hrm] at he hx
    rcases hI.shield u w e x k huw he he0 hx hx0 hke hkx with h | h
    · exact Or.inl (shielded_writeAll s _ _ nv false hnode k u w h)
    · exact Or.inr h
  · intro e he
    rw [hrm, hI.above (nv + 1) (by omega)] at he
    simp at he
  · intro k w hw
    show (s.node.writeAll _ nv false).at k w ≠ some false
    rw [at_writeAll]
    have : ¬ (k ∈ (finPlan s nv (chosenTH chosen)).dels ∧ nv = w) := by omega
    rw [if_neg this]
    exact hI.noTomb k w (by omega)

/-! ### prune -/

/-- `C06.good_prune` for the state `pruneSt` itself (the node set `X` of the invariant need not be the
one `Prune`'s `Visit` walks over). -/
theorem good_pruneSt (X clv : Nat → List Nat) (s : St) (v : Nat) (hearl : v = s.earliest)
    (hsafe : pruneSafe X clv s v = true) (hg : Good X s) : Good X (pruneSt clv s v) := by
  unfold pruneSafe at hsafe
  simp only [List.all_eq_true, Bool.or_eq_true, beq_iff_eq, decide_eq_true_eq,
    Bool.not_eq_true', List.contains_eq_mem, decide_eq_false_iff_not] at hsafe
  intro w th hew hk
  have hgt : v < w := by simp only [pruneSt] at hew; omega
  have hk' : hasKey (s.rmeta w) th = true := by
    have : (pruneSt clv s v).rmeta w = s.rmeta w := by
      simp [pruneSt, St.rmeta, getMeta_cons]; omega
    rw [this] at hk; exact hk
  obtain ⟨g1, g2⟩ := hg w th (by omega) hk'
  refine ⟨?_, fun h0 n hn => ?_⟩
  · show (s.rootNode.writeAll _ v false).at (encTH th) w = some true
    rw [at_writeAll]
    have : ¬ (encTH th ∈ (loneRoots s v).map (fun e => encTH e.1) ∧ v = w) := by omega
    rw [if_neg this]; exact g1
  · show (s.node.writeAll (pruneDels clv s v) v false).live n w = true
    have hwv := getMeta_mem_versions s.rmetaL w th hk'
    rcases hsafe w hwv with hle | hall
    · omega
    · simp only [hasKey, List.any_eq_true, beq_iff_eq] at hk'
      obtain ⟨e, he', hex⟩ := hk'
      rcases hall e he' with hz | hnodes
      · rw [hex] at hz; exact absurd hz h0
      · rw [hex] at hnodes
        rcases hnodes n hn with hnd | hsh
        · rw [live_congr_get _ _ _ _ (get_writeAll_notin _ _ _ _ _ _ hnd)]
          exact g2 h0 n hn
        · unfold shielded at hsh
          cases hgn : s.node.get n w with
          | none => simp [hgn] at hsh
          | some x =>
            obtain ⟨ts, bv⟩ := x
            simp only [hgn, decide_eq_true_eq] at hsh
            rw [live_congr_get _ _ _ _ ((get_writeAll_shield _ _ _ _ _ _ ts bv hgn hsh).trans hgn.symm)]
            exact g2 h0 n hn

/-- Every node `Prune(v)` deletes is a stored node of a lone, non-empty root of version `v`. -/
theorem mem_pruneDels (clv : Nat → List Nat) (s : St) (v k : Nat) (hk : k ∈ pruneDels clv s v) :
    ∃ e ∈ s.rmeta v, e.2 = [] ∧ e.1.2 ≠ 0 ∧ k ∈ clv e.1.2 := by
  simp only [pruneDels, List.mem_flatMap] at hk
  obtain ⟨e, he, hke⟩ := hk
  simp only [visitedRoots, loneRoots, List.mem_filter, Bool.and_eq_true, bne_iff_ne, ne_eq,
    List.isEmpty_iff] at he
  simp only [loneDeletes, List.mem_filter] at hke
  exact ⟨e, he.1.1, he.1.2, he.2.1, hke.1⟩

theorem prune_safe (clv : Nat → List Nat) (τ : Nat → Nat) {s : St} {nv : Nat} {tips pend : List Root}
    (hI : LInv clv τ s nv tips pend) (v : Nat) : pruneSafe clv clv s v = true := by
  unfold pruneSafe
  simp only [List.all_eq_true, Bool.or_eq_true, beq_iff_eq, decide_eq_true_eq,
    Bool.not_eq_true', List.contains_eq_mem, decide_eq_false_iff_not]
  intro w _
  by_cases hw : w ≤ v
  · exact Or.inl hw
  · right
    intro e' he'
    by_cases h0 : e'.1.2 = 0
    · exact Or.inl h0
    · right
      intro k hk
      by_cases hkd : k ∈ pruneDels clv s v
      · right
        obtain ⟨e, he, hlone, he0, hke⟩ := mem_pruneDels clv s v k hkd
        rcases hI.shield v w e e'.1 k (by omega) he he0 (mem_hasKey _ _ he') h0 hke hk with h | h
        · exact h
        · exact absurd hlone h
      · exact Or.inl hkd

theorem prune_linv (cl clv : Nat → List Nat) (τ : Nat → Nat) {s s' : St} {nv : Nat} {tips pend : List Root}
    (hI : LInv clv τ s nv tips pend) {v : Nat} (hp : Badger.prune cl clv s v = .ok s') :
    LInv clv τ s' nv tips pend := by
  obtain ⟨he, hs'⟩ := bprune_ok_inv hp
  obtain ⟨⟨l, hl, hvl⟩, hearl, _⟩ := bpruneErr_none he
  subst hs'
  have hne : tips ≠ [] := by
    intro ht; rw [(hI.first ht).1] at hl; simp at hl
  obtain ⟨u, h1, h2, h3, h4⟩ := hI.later hne
  have hlu : l = u := by rw [hl] at h2; exact Option.some.inj h2
  subst hlu
  have hrm : ∀ w, (pruneSt clv s v).rmeta w = if v = w then [] else s.rmeta w := by
    intro w; simp [pruneSt, St.rmeta, getMeta_cons]
  have hrm' : ∀ w, w ≠ v → (pruneSt clv s v).rmeta w = s.rmeta w := by
    intro w hw; rw [hrm]; have : ¬ v = w := fun e => hw e.symm
    simp [this]
  have hsub : ∀ w x, hasKey ((pruneSt clv s v).rmeta w) x = true → hasKey (s.rmeta w) x = true := by
    intro w x hx; rw [hrm] at hx
    split at hx
    · simp [hasKey] at hx
    · exact hx
  have hnode : (pruneSt clv s v).node = s.node.writeAll (pruneDels clv s v) v false := rfl
  refine ⟨fun h => absurd h hne, ?_, hI.pendVer, ?_, ?_, ?_, ?_, ?_, ?_, ?_, ?_⟩
  · intro _
    refine ⟨l, h1, hl, ?_, ?_⟩
    · show v + 1 ≤ l; omega
    · intro t ht
      refine ⟨(h4 t ht).1, ?_⟩
      rw [hrm' l (by omega)]; exact (h4 t ht).2
  · intro x; rw [hrm' nv (by omega)]; exact hI.pendKeys x
  · intro w hw; rw [hrm' w (by omega)]; exact hI.above w hw
  · intro w x y hx hy; exact hI.tyUniq w x y (hsub w x hx) (hsub w y hy)
  · intro w x hx; exact hI.typed w x (hsub w x hx)
  · exact good_pruneSt clv clv s v hearl (prune_safe clv τ hI v) hI.good
  · intro u w e x k huw hemem he0 hx hx0 hke hkx
    have hemem' : e ∈ s.rmeta u := by
      rw [hrm] at hemem
      split at hemem
      · simp at hemem
      · exact hemem
    rcases hI.shield u w e x k huw hemem' he0 (hsub w x hx) hx0 hke hkx with h | h
    · exact Or.inl (shielded_writeAll s _ _ v false hnode k u w h)
    · exact Or.inr h
  · intro e hemem
    rw [hrm' nv (by omega)] at hemem
    exact hI.updOK e hemem
  · intro k w hw
    show (s.node.writeAll _ v false).at k w ≠ some false
    rw [at_writeAll]
    have : ¬ (k ∈ pruneDels clv s v ∧ v = w) := by omega
    rw [if_neg this]
    exact hI.noTomb k w hw

/-! ### from the stored node set `clv` down to the nodes a reader fetches, `cl ⊆ clv` -/

theorem commitSafe_anti (cl clv : Nat → List Nat) (hsub : ∀ h, ∀ n ∈ cl h, n ∈ clv h) (s : St) (n : Root) (a : List Nat)
    (h : commitSafe clv s n a = true) : commitSafe cl s n a = true := by
  unfold commitSafe at h ⊢
  simp only [Bool.or_eq_true, beq_iff_eq, List.all_eq_true] at h ⊢
  rcases h with h | h
  · exact Or.inl h
  · exact Or.inr (fun x hx => h x (hsub _ x hx))

theorem finalizeSafe_anti (cl clv : Nat → List Nat) (hsub : ∀ h, ∀ n ∈ cl h, n ∈ clv h) (s : St) (v : Nat)
    (ch : List Root) (h : finalizeSafe clv s v ch = true) : finalizeSafe cl s v ch = true := by
  unfold finalizeSafe at h ⊢
  simp only [Bool.and_eq_true, List.all_eq_true, Bool.or_eq_true, beq_iff_eq, decide_eq_true_eq] at h ⊢
  refine ⟨fun e he => ?_, fun w hw => ?_⟩
  · rcases h.1 e he with h0 | h1
    · exact Or.inl h0
    · exact Or.inr (fun x hx => h1 x (hsub _ x hx))
  · rcases h.2 w hw with h0 | h1
    · exact Or.inl h0
    · right
      intro e he
      rcases h1 e he with h2 | h3
      · exact Or.inl h2
      · exact Or.inr (fun x hx => h3 x (hsub _ x hx))

theorem pruneSafe_anti (cl clv : Nat → List Nat) (hsub : ∀ h, ∀ n ∈ cl h, n ∈ clv h) (s : St) (v : Nat)
    (h : pruneSafe clv clv s v = true) : pruneSafe cl clv s v = true := by
  unfold pruneSafe at h ⊢
  simp only [List.all_eq_true, Bool.or_eq_true, beq_iff_eq, decide_eq_true_eq] at h ⊢
  intro w hw
  rcases h w hw with h0 | h1
  · exact Or.inl h0
  · right
    intro e he
    rcases h1 e he with h2 | h3
    · exact Or.inl h2
    · exact Or.inr (fun x hx => h3 x (hsub _ x hx))

/-! ### histories -/

/-- No `Commit` and no `Finalize` of the history is refused. -/
def OkRun (cl clv : Nat → List Nat) : St → List BOp → Prop
  | _, [] => True
  | s, op :: ops =>
    (match op with
      | .commit o n a r => isOk (Badger.commit s o n a r) = true
      | .finalize v ch => isOk (Badger.finalize s v ch) = true
      | .prune _ => True) ∧ OkRun cl clv (bstep cl clv s op) ops

instance okRunDec (cl clv : Nat → List Nat) : (s : St) → (ops : List BOp) → Decidable (OkRun cl clv s ops)
  | _, [] => isTrue trivial
  | s, .commit o n a r :: ops =>
    have := okRunDec cl clv (bstep cl clv s (.commit o n a r)) ops
    inferInstanceAs (Decidable (isOk (Badger.commit s o n a r) = true ∧ OkRun cl clv (bstep cl clv s (.commit o n a r)) ops))
  | s, .finalize v ch :: ops =>
    have := okRunDec cl clv (bstep cl clv s (.finalize v ch)) ops
    inferInstanceAs (Decidable (isOk (Badger.finalize s v ch) = true ∧ OkRun cl clv (bstep cl clv s (.finalize v ch)) ops))
  | s, .prune v :: ops =>
    have := okRunDec cl clv (bstep cl clv s (.prune v)) ops
    inferInstanceAs (Decidable (True ∧ OkRun cl clv (bstep cl clv s (.prune v)) ops))

theorem lin_run (cl clv : Nat → List Nat) (τ : Nat → Nat) (hsub : ∀ h, ∀ n ∈ cl h, n ∈ clv h)
    {nv : Nat} {tips pend : List Root} {ops : List BOp} (hlin : Lin clv τ nv tips pend ops) :
    ∀ s : St, LInv clv τ s nv tips pend → SafeRun cl clv s ops ∧ OkRun cl clv s ops := by
  induction hlin with
  | nil nv tips pend => intro s _; exact ⟨trivial, trivial⟩
  | prune nv tips pend v ops _ ih =>
    intro s hI
    have hsafe : SafeStep cl clv s (.prune v) := fun _ => pruneSafe_anti cl clv hsub s v (prune_safe clv τ hI v)
    have hI' : LInv clv τ (bstep cl clv s (.prune v)) nv tips pend := by
      simp only [bstep]
      cases hp : Badger.prune cl clv s v with
      | error e => exact hI
      | ok s' => exact prune_linv cl clv τ hI hp
    exact ⟨⟨hsafe, (ih _ hI').1⟩, ⟨trivial, (ih _ hI').2⟩⟩
  | commit nv tips pend o n a r ops hc _ ih =>
    intro s hI
    have hok := commit_succeeds clv τ hI hc
    have hsafe : SafeStep cl clv s (.commit o n a r) :=
      fun _ => commitSafe_anti cl clv hsub s n a (commit_safe clv τ hI hc)
    have hst : bstep cl clv s (.commit o n a r) = commitSt s o n a r := by simp only [bstep, hok]
    have hI' := commit_linv clv τ hI hc
    rw [← hst] at hI'
    exact ⟨⟨hsafe, (ih _ hI').1⟩, ⟨by simp [hok, isOk], (ih _ hI').2⟩⟩
  | finalize nv tips pend chosen ops hne hch _ ih =>
    intro s hI
    have hok := finalize_succeeds clv τ hI hne hch
    have hsafe : SafeStep cl clv s (.finalize nv chosen) :=
      fun _ => finalizeSafe_anti cl clv hsub s nv chosen (finalize_safe clv τ hI hch)
    have hst : bstep cl clv s (.finalize nv chosen) = finalizeSt s nv chosen := by simp only [bstep, hok]
    have hI' := finalize_linv clv τ hI hne hch
    rw [← hst] at hI'
    exact ⟨⟨hsafe, (ih _ hI').1⟩, ⟨by simp [hok, isOk], (ih _ hI').2⟩⟩

/-- Linear histories are closed under prefixes. -/
theorem lin_take (clv : Nat → List Nat) (τ : Nat → Nat) {nv : Nat} {tips pend : List Root} {ops : List BOp}
    (hlin : Lin clv τ nv tips pend ops) (k : Nat) : Lin clv τ nv tips pend (ops.take k) := by
  induction hlin generalizing k with
  | nil nv tips pend => simp only [List.take_nil]; exact Lin.nil _ _ _
  | prune nv tips pend v ops _ ih =>
    cases k with
    | zero => exact Lin.nil _ _ _
    | succ k => exact Lin.prune _ _ _ _ _ (ih k)
  | commit nv tips pend o n a r ops hc _ ih =>
    cases k with
    | zero => exact Lin.nil _ _ _
    | succ k => exact Lin.commit _ _ _ _ _ _ _ _ hc (ih k)
  | finalize nv tips pend chosen ops hne hch _ ih =>
    cases k with
    | zero => exact Lin.nil _ _ _
    | succ k => exact Lin.finalize _ _ _ _ _ hne hch (ih k)

end OasisProofs.C06Linear
