/- Helper lemmas for `OasisProofs.Props.C15DebondLoop`: the closed form of one iteration of the
load/save loop, sums over point updates, bookkeeping of the payout log. -/
import OasisModel.Staking.DebondLoop
import OasisProofs.Helpers.Staking

set_option linter.unusedSimpArgs false

namespace OasisProofs.DebondLoopH
open OasisModel OasisModel.Staking OasisModel.Staking.SharePool OasisModel.Staking.DebondLoop
open OasisProofs.StakingH

/-! ### Point updates and sums over `0 … n-1` -/

theorem upd_same {α : Type} (f : Nat → α) (k : Nat) (v : α) : upd f k v k = v := by simp [upd]
theorem upd_other {α : Type} (f : Nat → α) (k i : Nat) (v : α) (h : i ≠ k) : upd f k v i = f i := by
  simp [upd, h]

theorem sumTo_congr (n : Nat) (f g : Nat → Nat) (h : ∀ i < n, f i = g i) :
    Ledger.sumTo n f = Ledger.sumTo n g := by
  induction n with
  | zero => rfl
  | succ k ih =>
    simp only [Ledger.sumTo]
    rw [ih (fun i hi => h i (by omega)), h k (by omega)]

theorem sumTo_upd_ge (n k v : Nat) (f : Nat → Nat) (h : n ≤ k) :
    Ledger.sumTo n (upd f k v) = Ledger.sumTo n f :=
  sumTo_congr n _ _ (fun i hi => upd_other f k i v (by omega))

theorem sumTo_upd (n k v : Nat) (f : Nat → Nat) (h : k < n) :
    Ledger.sumTo n (upd f k v) + f k = Ledger.sumTo n f + v := by
  induction n with
  | zero => omega
  | succ m ih =>
    simp only [Ledger.sumTo]
    by_cases hk : k = m
    · subst hk
      rw [sumTo_upd_ge k k v f (Nat.le_refl _), upd_same]; omega
    · have := ih (by omega)
      rw [upd_other f k m v (by omega)]; omega

/-- A measure of the accounts commutes with a point update of the store. -/
theorem measure_upd {β : Type} (g : Account → β) (s : Store) (k : Nat) (x : Account) :
    (fun i => g (upd s k x i)) = upd (fun i => g (s i)) k (g x) := by
  funext i
  by_cases h : i = k
  · subst h; simp [upd]
  · simp [upd, h]

/-- Sum of a measure after one `save`. -/
theorem sumTo_save (g : Account → Nat) (n : Nat) (s : Store) (k : Nat) (x : Account) (h : k < n) :
    Ledger.sumTo n (fun i => g (save s k x i)) + g (s k) = Ledger.sumTo n (fun i => g (s i)) + g x := by
  unfold save
  rw [measure_upd]
  exact sumTo_upd n k (g x) (fun i => g (s i)) h

/-! ### One iteration in closed form -/

/-- The state after a successful iteration whose withdrawal returned `w`, written functionally
(the shape of `Ledger.debondEntry`). -/
def stepW (ep : Nat) (st : St) (e : DebEntry) (w : WithdrawRes) : St :=
  let esc := st.accts e.escrow
  let d := st.accts e.delegator
  { accts :=
      if e.delegator = e.escrow then
        upd st.accts e.escrow { esc with general := esc.general + w.stakeDst, debonding := w.pool }
      else
        upd (upd st.accts e.delegator { d with general := d.general + w.stakeDst }) e.escrow
          { esc with debonding := w.pool },
    deb := st.deb.filter (fun x => !x.sameKey e),
    paid := st.paid ++ [{ entry := e, epoch := ep, amount := w.stakeDst }] }

/-- The heap/pointer transcription of one iteration with a FRESH escrow load computes exactly the
functional step; the final escrow object is what the store then holds for the escrow address. -/
theorem bodyWith_load_eq (rsv : List Nat) (ep : Nat) (st : St) (e : DebEntry) :
    bodyWith rsv ep st e (load rsv st.accts e.escrow) =
      if e.delegator ∈ rsv ∨ e.escrow ∈ rsv then .error .fatal
      else match withdraw (st.accts e.escrow).debonding 0 e.shares e.shares with
        | .error _ => .error .fatal
        | .ok w => .ok (stepW ep st e w, (stepW ep st e w).accts e.escrow) := by
  unfold bodyWith load
  by_cases hd : e.delegator ∈ rsv
  · simp [hd]
  · by_cases hal : e.delegator = e.escrow
    · have hd' : e.escrow ∉ rsv := by rw [← hal]; exact hd
      cases hw : withdraw (st.accts e.escrow).debonding 0 e.shares e.shares with
      | error err => simp [hd', hal, ePtr, dPtr, upd, hw]
      | ok w => simp [hd', hal, ePtr, dPtr, upd, hw, Quantity.move, save, stepW]
    · by_cases he : e.escrow ∈ rsv
      · simp [hd, he, hal]
      · cases hw : withdraw (st.accts e.escrow).debonding 0 e.shares e.shares with
        | error err => simp [hd, he, hal, ePtr, dPtr, upd, hw]
        | ok w => simp [hd, he, hal, ePtr, dPtr, upd, hw, Quantity.move, save, stepW]

/-- The loop body of the code in closed form. -/
theorem body_eq (rsv : List Nat) (ep : Nat) (st : St) (e : DebEntry) :
    body rsv ep st e =
      if e.delegator ∈ rsv ∨ e.escrow ∈ rsv then .error .fatal
      else match withdraw (st.accts e.escrow).debonding 0 e.shares e.shares with
        | .error _ => .error .fatal
        | .ok w => .ok (stepW ep st e w) := by
  unfold body
  rw [bodyWith_load_eq]
  by_cases hr : e.delegator ∈ rsv ∨ e.escrow ∈ rsv
  · simp only [if_pos hr]
  · simp only [if_neg hr]
    cases withdraw (st.accts e.escrow).debonding 0 e.shares e.shares with
    | error err => rfl
    | ok w => rfl

/-- With a cache that holds, for every cached address, the account the store holds (and only
addresses that are not reserved), the cached fetch is the fresh load. -/
theorem fetchCached_eq_load (rsv : List Nat) (c : Cache) (s : Store) (a : Nat)
    (hc : ∀ x, c a = some x → x = s a ∧ a ∉ rsv) :
    fetchCached rsv c s a = load rsv s a := by
  unfold fetchCached
  cases hca : c a with
  | none => rfl
  | some x =>
    obtain ⟨rfl, hr⟩ := hc x hca
    simp [load, hr]

/-- The mutated loop body in terms of the code's loop body, when the cached fetch agrees with the
fresh load: same state, and the cache entry of the escrow address is the account just saved. -/
theorem bodyCached_eq (rsv : List Nat) (ep : Nat) (c : Cache) (st : St) (e : DebEntry)
    (hf : fetchCached rsv c st.accts e.escrow = load rsv st.accts e.escrow) :
    bodyCached rsv ep c st e =
      match body rsv ep st e with
      | .error err => .error err
      | .ok st1 => .ok (if e.delegator = e.escrow then c else upd c e.escrow (some (st1.accts e.escrow)), st1) := by
  unfold bodyCached
  rw [hf, body_eq, bodyWith_load_eq]
  by_cases hr : e.delegator ∈ rsv ∨ e.escrow ∈ rsv
  · simp only [if_pos hr]
  · simp only [if_neg hr]
    cases withdraw (st.accts e.escrow).debonding 0 e.shares e.shares with
    | error err => rfl
    | ok w => rfl

/-- The withdrawal result of a successful iteration, in closed form. -/
def wOf (st : St) (e : DebEntry) : WithdrawRes :=
  { pool := { balance := (st.accts e.escrow).debonding.balance - payoutNow st.accts e,
              totalShares := (st.accts e.escrow).debonding.totalShares - e.shares },
    stakeDst := payoutNow st.accts e, shareSrc := 0 }

/-- A successful iteration: neither address is reserved, the pool holds the shares and the payout,
and the new state is the functional step at the pool's current price. -/
theorem body_ok {rsv : List Nat} {ep : Nat} {st st1 : St} {e : DebEntry}
    (h : body rsv ep st e = .ok st1) :
    e.delegator ∉ rsv ∧ e.escrow ∉ rsv ∧
    e.shares ≤ (st.accts e.escrow).debonding.totalShares ∧
    payoutNow st.accts e ≤ (st.accts e.escrow).debonding.balance ∧
    st1 = stepW ep st e (wOf st e) := by
  rw [body_eq] at h
  by_cases hr : e.delegator ∈ rsv ∨ e.escrow ∈ rsv
  · rw [if_pos hr] at h; cases h
  · rw [if_neg hr] at h
    have hr' : e.delegator ∉ rsv ∧ e.escrow ∉ rsv := not_or.1 hr
    cases hw : withdraw (st.accts e.escrow).debonding 0 e.shares e.shares with
    | error err => rw [hw] at h; cases h
    | ok w =>
      rw [hw] at h
      obtain ⟨_, h2, h3, rfl⟩ := withdraw_ok hw
      injection h with h
      refine ⟨hr'.1, hr'.2, h2, h3, ?_⟩
      rw [← h]; simp [wOf, payoutNow]

/-- Conversely the iteration succeeds whenever the addresses are not reserved and the pool holds
the entry's shares. -/
theorem body_succeeds {rsv : List Nat} {ep : Nat} {st : St} {e : DebEntry}
    (hd : e.delegator ∉ rsv) (he : e.escrow ∉ rsv)
    (hs : e.shares ≤ (st.accts e.escrow).debonding.totalShares) :
    body rsv ep st e = .ok (stepW ep st e (wOf st e)) := by
  rw [body_eq]
  have hr : ¬ (e.delegator ∈ rsv ∨ e.escrow ∈ rsv) := not_or.2 ⟨hd, he⟩
  rw [if_neg hr]
  have hb : stakeForShares (st.accts e.escrow).debonding e.shares ≤ (st.accts e.escrow).debonding.balance := by
    unfold stakeForShares
    split
    · exact Nat.zero_le _
    · next hne =>
      have hts : 0 < (st.accts e.escrow).debonding.totalShares := by
        rcases Nat.eq_zero_or_pos (st.accts e.escrow).debonding.totalShares with h0 | h0
        · exact absurd (Or.inr (Or.inr h0)) hne
        · exact h0
      apply Nat.div_le_of_le_mul
      exact Nat.mul_le_mul_right _ hs
  have : withdraw (st.accts e.escrow).debonding 0 e.shares e.shares = .ok (wOf st e) := by
    unfold withdraw
    simp [Nat.not_lt.2 hs, Nat.not_lt.2 hb, wOf, payoutNow]
  rw [this]

/-! ### Per-account effect of one functional step -/

theorem stepW_general (ep : Nat) (st : St) (e : DebEntry) (w : WithdrawRes) (a : Nat) :
    ((stepW ep st e w).accts a).general =
      (st.accts a).general + (if e.delegator = a then w.stakeDst else 0) := by
  unfold stepW
  by_cases hal : e.delegator = e.escrow
  · by_cases ha : a = e.escrow
    · subst ha; simp [hal, upd]
    · have : ¬ e.escrow = a := fun h => ha h.symm
      simp [hal, upd, ha, this]
  · by_cases ha : a = e.escrow
    · subst ha; simp [hal, upd]
    · by_cases hb : a = e.delegator
      · subst hb; simp [hal, upd, ha]
      · have : ¬ e.delegator = a := fun h => hb h.symm
        simp [hal, upd, ha, hb, this]

theorem stepW_debonding (ep : Nat) (st : St) (e : DebEntry) (w : WithdrawRes) (a : Nat) :
    ((stepW ep st e w).accts a).debonding = if e.escrow = a then w.pool else (st.accts a).debonding := by
  unfold stepW
  by_cases hal : e.delegator = e.escrow
  · by_cases ha : a = e.escrow
    · subst ha; simp [hal, upd]
    · have : ¬ e.escrow = a := fun h => ha h.symm
      simp [hal, upd, ha, this]
  · by_cases ha : a = e.escrow
    · subst ha; simp [hal, upd]
    · have h1 : ¬ e.escrow = a := fun h => ha h.symm
      by_cases hb : a = e.delegator
      · subst hb; simp [hal, upd, ha, h1]
      · simp [hal, upd, ha, hb, h1]

/-- Nothing but the general balance and the debonding pool is touched. -/
theorem stepW_frame (ep : Nat) (st : St) (e : DebEntry) (w : WithdrawRes) (a : Nat) :
    ((stepW ep st e w).accts a).nonce = (st.accts a).nonce ∧
    ((stepW ep st e w).accts a).allowances = (st.accts a).allowances ∧
    ((stepW ep st e w).accts a).active = (st.accts a).active ∧
    ((stepW ep st e w).accts a).schedule = (st.accts a).schedule := by
  unfold stepW
  by_cases hal : e.delegator = e.escrow
  · by_cases ha : a = e.escrow
    · subst ha; simp [hal, upd]
    · simp [hal, upd, ha]
  · by_cases ha : a = e.escrow
    · subst ha; simp [hal, upd]
    · by_cases hb : a = e.delegator
      · subst hb; simp [hal, upd, ha]
      · simp [hal, upd, ha, hb]

/-- An account that is neither delegator nor escrow of the entry is not written. -/
theorem stepW_untouched (ep : Nat) (st : St) (e : DebEntry) (w : WithdrawRes) (a : Nat)
    (hd : e.delegator ≠ a) (he : e.escrow ≠ a) : (stepW ep st e w).accts a = st.accts a := by
  unfold stepW
  have h1 : ¬ a = e.escrow := fun h => he h.symm
  have h2 : ¬ a = e.delegator := fun h => hd h.symm
  by_cases hal : e.delegator = e.escrow
  · simp [hal, upd, h1]
  · simp [hal, upd, h1, h2]

/-- One functional step conserves the sum of every measure `g` of the accounts that counts the
general balance and the debonding pool's balance once each. -/
theorem stepW_sum (g : Account → Nat)
    (hg : ∀ (a : Account) (gen : Nat) (p : SharePool),
      g { a with general := gen, debonding := p } + a.general + a.debonding.balance =
        g a + gen + p.balance)
    (n ep : Nat) (st : St) (e : DebEntry)
    (hd : e.delegator < n) (he : e.escrow < n)
    (hb : payoutNow st.accts e ≤ (st.accts e.escrow).debonding.balance) :
    Ledger.sumTo n (fun i => g ((stepW ep st e (wOf st e)).accts i)) =
      Ledger.sumTo n (fun i => g (st.accts i)) := by
  unfold stepW
  by_cases hal : e.delegator = e.escrow
  · simp only [hal, if_true]
    have h1 := sumTo_save g n st.accts e.escrow
      { st.accts e.escrow with
        general := (st.accts e.escrow).general + (wOf st e).stakeDst, debonding := (wOf st e).pool } he
    have h2 := hg (st.accts e.escrow) ((st.accts e.escrow).general + (wOf st e).stakeDst) (wOf st e).pool
    simp only [wOf, save] at h1 h2 ⊢
    omega
  · simp only [hal, if_false]
    have hne : e.escrow ≠ e.delegator := fun h => hal h.symm
    have h1 := sumTo_save g n st.accts e.delegator
      { st.accts e.delegator with general := (st.accts e.delegator).general + (wOf st e).stakeDst } hd
    have h2 := sumTo_save g n
      (save st.accts e.delegator
        { st.accts e.delegator with general := (st.accts e.delegator).general + (wOf st e).stakeDst })
      e.escrow { st.accts e.escrow with debonding := (wOf st e).pool } he
    have h3 := hg (st.accts e.delegator) ((st.accts e.delegator).general + (wOf st e).stakeDst)
      (st.accts e.delegator).debonding
    have h4 := hg (st.accts e.escrow) (st.accts e.escrow).general (wOf st e).pool
    have h5 : save st.accts e.delegator
        { st.accts e.delegator with general := (st.accts e.delegator).general + (wOf st e).stakeDst }
        e.escrow = st.accts e.escrow := upd_other _ _ _ _ hne
    rw [h5] at h2
    simp only [wOf, save] at h1 h2 h3 h4 ⊢
    omega

/-! ### The loop -/

/-- The loop over a concatenation is the loop over the first part followed by the loop over the
second part on the state the first part left. -/
theorem loop_append (rsv : List Nat) (ep : Nat) (st : St) (es1 es2 : List DebEntry) :
    loop rsv ep st (es1 ++ es2) =
      match loop rsv ep st es1 with
      | .error err => .error err
      | .ok st1 => loop rsv ep st1 es2 := by
  induction es1 generalizing st with
  | nil => rfl
  | cons e es ih =>
    simp only [List.cons_append, loop]
    cases body rsv ep st e with
    | error err => rfl
    | ok st1 => exact ih st1

/-! ### The payout log -/

theorem paidTo_nil (a : Nat) : paidTo [] a = 0 := rfl
theorem paidFrom_nil (a : Nat) : paidFrom [] a = 0 := rfl
theorem sharesFrom_nil (a : Nat) : sharesFrom [] a = 0 := rfl

theorem paidTo_cons (p : Payout) (ps : List Payout) (a : Nat) :
    paidTo (p :: ps) a = (if p.entry.delegator = a then p.amount else 0) + paidTo ps a := by
  unfold paidTo
  by_cases h : p.entry.delegator = a
  · simp [List.filter_cons, h]
  · simp [List.filter_cons, h]

theorem paidFrom_cons (p : Payout) (ps : List Payout) (a : Nat) :
    paidFrom (p :: ps) a = (if p.entry.escrow = a then p.amount else 0) + paidFrom ps a := by
  unfold paidFrom
  by_cases h : p.entry.escrow = a
  · simp [List.filter_cons, h]
  · simp [List.filter_cons, h]

theorem sharesFrom_cons (e : DebEntry) (es : List DebEntry) (a : Nat) :
    sharesFrom (e :: es) a = (if e.escrow = a then e.shares else 0) + sharesFrom es a := by
  unfold sharesFrom DebSt.sharesSum
  by_cases h : e.escrow = a
  · simp [List.filter_cons, h]
  · simp [List.filter_cons, h]

/-! ### Measures -/

theorem held_hg (a : Account) (gen : Nat) (p : SharePool) :
    held { a with general := gen, debonding := p } + a.general + a.debonding.balance =
      held a + gen + p.balance := by
  simp only [held]; omega

theorem bal_hg (a : Account) (gen : Nat) (p : SharePool) :
    Account.bal { a with general := gen, debonding := p } + a.general + a.debonding.balance =
      Account.bal a + gen + p.balance := by
  simp only [Account.bal]; omega

/-- `upd` with the value already there. -/
theorem upd_self {α : Type} (f : Nat → α) (k : Nat) : upd f k (f k) = f := by
  funext i
  by_cases h : i = k
  · subst h; simp [upd]
  · simp [upd, h]

end OasisProofs.DebondLoopH
