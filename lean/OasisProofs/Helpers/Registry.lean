import OasisModel.Registry.Index
/-
Helper lemmas for C17 (registry indexes): closed forms of the `SetNode` index writes, the
invariant as propositions about lookups, and preservation by the state-level writes.
-/
namespace OasisProofs.Registry
open OasisModel.Registry

/-! ### maps: key lists without duplicates -/

theorem keys_del {α β : Type} [DecidableEq α] (m : Map α β) (k : α) :
    Map.keys (Map.del m k) = (Map.keys m).filter (fun a => decide (a ≠ k)) := by
  induction m with
  | nil => rfl
  | cons p m ih =>
    obtain ⟨a, b⟩ := p
    unfold Map.del Map.keys at ih ⊢
    by_cases h : a = k
    · simp [List.filter, h]
      simpa using ih
    · simp [List.filter, h]
      simpa using ih

theorem nodup_keys_del {α β : Type} [DecidableEq α] (m : Map α β) (k : α) (h : (Map.keys m).Nodup) :
    (Map.keys (Map.del m k)).Nodup := by
  rw [keys_del]
  exact h.sublist (List.filter_sublist)

theorem not_mem_keys_del {α β : Type} [DecidableEq α] (m : Map α β) (k : α) : k ∉ Map.keys (Map.del m k) := by
  intro h
  have := Map.get_isSome_of_mem_keys h
  simp [Map.get_del] at this

theorem nodup_keys_set {α β : Type} [DecidableEq α] (m : Map α β) (k : α) (v : β) (h : (Map.keys m).Nodup) :
    (Map.keys (Map.set m k v)).Nodup := by
  unfold Map.set
  simp only [Map.keys, List.map_cons, List.nodup_cons]
  exact ⟨not_mem_keys_del m k, nodup_keys_del m k h⟩

/-- An entry of a map with duplicate-free keys is what `get` returns. -/
theorem get_of_mem {α β : Type} [DecidableEq α] {m : Map α β} (h : (Map.keys m).Nodup) {a : α} {b : β}
    (hm : (a, b) ∈ m) : Map.get m a = some b := by
  induction m with
  | nil => cases hm
  | cons p m ih =>
    obtain ⟨a', b'⟩ := p
    simp only [Map.keys, List.map_cons, List.nodup_cons] at h
    rcases List.mem_cons.1 hm with e | hm'
    · cases e; simp [Map.get]
    · have hne : ¬ a' = a := by
        intro e; subst e
        exact h.1 (List.mem_map.2 ⟨(a', b), hm', rfl⟩)
      simp only [Map.get, hne, if_false]
      exact ih h.2 hm'

theorem mem_of_get {α β : Type} [DecidableEq α] {m : Map α β} {a : α} {b : β}
    (h : Map.get m a = some b) : (a, b) ∈ m := by
  induction m with
  | nil => simp [Map.get] at h
  | cons p m ih =>
    obtain ⟨a', b'⟩ := p
    by_cases e : a' = a
    · simp [Map.get, e] at h; subst h; subst e; simp
    · simp only [Map.get, e, if_false] at h
      exact List.mem_cons_of_mem _ (ih h)

theorem has_eq_true {α β : Type} [DecidableEq α] {m : Map α β} {k : α} :
    Map.has m k = true ↔ ∃ v, Map.get m k = some v := by
  unfold Map.has
  cases Map.get m k <;> simp

theorem get_unit {α : Type} [DecidableEq α] {m : Map α Unit} {k : α} :
    Map.has m k = true ↔ Map.get m k = some () := by
  rw [has_eq_true]
  constructor
  · rintro ⟨v, h⟩; exact h
  · intro h; exact ⟨(), h⟩

/-! ### closed forms of the index writes of `SetNode` -/

def oldKeys : Option Node → List Key
  | none => []
  | some o => subKeys o

theorem get_rmIfChanged (old : Option Node) (n : Node) (f : Node → Key) (km : Map Key Key) (k : Key) :
    (rmIfChanged old n f km).get k =
      match old with
      | some o => if f o ≠ f n ∧ k = f o then none else km.get k
      | none => km.get k := by
  cases old with
  | none => rfl
  | some o =>
    simp only [rmIfChanged]
    by_cases h : f o = f n
    · simp [h]
    · simp only [ne_eq, h, not_false_eq_true, ite_true, Map.get_del, true_and]
      by_cases hk : f o = k
      · simp [hk]
      · have : ¬ k = f o := fun e => hk e.symm
        simp [hk, this]

/-- Repaired order: afterwards a key maps to the node iff it is one of its new keys; other old
keys of the node are gone; everything else is untouched. -/
theorem get_setNodeKeyMap_rf (km : Map Key Key) (old : Option Node) (n : Node) (k : Key) :
    (setNodeKeyMap .removalsFirst km old n).get k =
      if k ∈ subKeys n then some n.id
      else if k ∈ oldKeys old then none else km.get k := by
  cases old with
  | none =>
    simp only [setNodeKeyMap, Map.get_set, get_rmIfChanged, subKeys, oldKeys]
    grind
  | some o =>
    simp only [setNodeKeyMap, Map.get_set, get_rmIfChanged, subKeys, oldKeys]
    grind

theorem get_setNodeConsAddr (ca : Map Key Key) (old : Option Node) (n : Node) (k : Key) :
    (setNodeConsAddr ca old n).get k =
      if k = n.cons then some n.id
      else match old with
        | some o => if k = o.cons then none else ca.get k
        | none => ca.get k := by
  cases old with
  | none => simp only [setNodeConsAddr, Map.get_set, get_rmIfChanged]; grind
  | some o => simp only [setNodeConsAddr, Map.get_set, get_rmIfChanged]; grind

/-- An update moves a key "forward" in the source order of the per-kind blocks of `SetNode`
(P2P, VRF, TLS): the new key of an earlier kind is the old key of a later kind. -/
def forwardMove (cur n : Node) : Prop := n.p2p = cur.vrf ∨ n.p2p = cur.tls ∨ n.vrf = cur.tls

instance (cur n : Node) : Decidable (forwardMove cur n) := by unfold forwardMove; infer_instance

theorem nodup4 {a b c d : Key} (h : hasDup [a, b, c, d] = false) :
    a ≠ b ∧ a ≠ c ∧ a ≠ d ∧ b ≠ c ∧ b ≠ d ∧ c ≠ d := by
  simp [hasDup] at h
  grind

/-- Code order (interleaved) agrees with the repaired order on every lookup when the consensus key
is unchanged, both descriptors have pairwise different sub-keys and no key moves forward. -/
theorem get_setNodeKeyMap_interleaved_eq (km : Map Key Key) (old : Option Node) (n : Node)
    (hn : hasDup (subKeys n) = false)
    (ho : ∀ cur, old = some cur → hasDup (subKeys cur) = false ∧ cur.cons = n.cons ∧ ¬ forwardMove cur n)
    (k : Key) :
    (setNodeKeyMap .interleaved km old n).get k = (setNodeKeyMap .removalsFirst km old n).get k := by
  have hn' := nodup4 hn
  cases old with
  | none =>
    simp only [setNodeKeyMap, Map.get_set, get_rmIfChanged]
  | some o =>
    obtain ⟨h1, h2, h3⟩ := ho o rfl
    have ho' := nodup4 h1
    simp only [forwardMove] at h3
    simp only [setNodeKeyMap, Map.get_set, get_rmIfChanged]
    grind

/-- ... and if a key does move forward, the node's new key of the earlier kind is missing. -/
theorem get_setNodeKeyMap_interleaved_forward (km : Map Key Key) (cur n : Node)
    (hn : hasDup (subKeys n) = false) (hc : hasDup (subKeys cur) = false) (hcons : cur.cons = n.cons)
    (hf : forwardMove cur n) :
    ∃ k, k ∈ subKeys n ∧ (setNodeKeyMap .interleaved km (some cur) n).get k = none := by
  have _ := hcons
  have hn' := nodup4 hn
  have hc' := nodup4 hc
  simp only [forwardMove] at hf
  by_cases h1 : n.p2p = cur.vrf ∨ n.p2p = cur.tls
  · refine ⟨n.p2p, by simp [subKeys], ?_⟩
    simp only [setNodeKeyMap, Map.get_set, get_rmIfChanged]
    grind
  · refine ⟨n.vrf, by simp [subKeys], ?_⟩
    simp only [setNodeKeyMap, Map.get_set, get_rmIfChanged]
    grind


/-! ### the invariant as propositions about lookups -/

/-- The index part of the invariant. -/
structure IndexInv (s : State) : Prop where
  node_id   : ∀ id n, s.nodes.get id = some n → n.id = id
  sub_nodup : ∀ id n, s.nodes.get id = some n → hasDup (subKeys n) = false
  km_sound  : ∀ k id, s.keyMap.get k = some id → ∃ n, s.nodes.get id = some n ∧ k ∈ subKeys n
  km_compl  : ∀ id n, s.nodes.get id = some n → ∀ k, k ∈ subKeys n → s.keyMap.get k = some id
  ca_sound  : ∀ k id, s.consAddr.get k = some id → ∃ n, s.nodes.get id = some n ∧ n.cons = k
  ca_compl  : ∀ id n, s.nodes.get id = some n → s.consAddr.get n.cons = some id
  be_sound  : ∀ e id, s.byEntity.get (e, id) = some () → ∃ n, s.nodes.get id = some n ∧ n.entity = e
  be_compl  : ∀ id n, s.nodes.get id = some n → s.byEntity.get (n.entity, id) = some ()
  rt_id     : ∀ r rt, s.runtimes.get r = some rt → rt.id = r
  rbe_sound : ∀ e r, s.rtByEntity.get (e, r) = some () → ∃ rt, s.runtimes.get r = some rt ∧ rt.entity = e
  rbe_compl : ∀ r rt, s.runtimes.get r = some rt → s.rtByEntity.get (rt.entity, r) = some ()

/-- The claim `c` on account `a` with threshold list `ths` is implied by the registered entities, nodes
and runtimes: the entity claim of a registered entity, the node claim of a registered node on its
entity's account with the thresholds of its roles and runtimes, the runtime claim of a registered
(active or suspended) runtime on its staking address with the threshold of its kind. -/
def Implied (s : State) (a : Addr) (ths : List Thr) : Claim → Prop
  | .entity => ∃ e ws, a = .ent e ∧ s.entities.get e = some ws ∧ ths = [Thr.entity]
  | .node id => ∃ n, s.nodes.get id = some n ∧ a = .ent n.entity ∧ ths = nodeThr n
  | .runtime r => ∃ rt, s.runtimes.get r = some rt ∧ rt.stakingAddr = some a ∧ ths = rtThr rt

/-- The full invariant of C17. -/
structure Inv (s : State) : Prop extends IndexInv s where
  cl_sound : ∀ a c ths, s.claims.get (a, c) = some ths → Implied s a ths c
  cl_compl : ∀ a c ths, Implied s a ths c → s.claims.get (a, c) = some ths
  st_nodes : ∀ id n, s.nodes.get id = some n → ∃ st, s.status.get id = some st
  nodes_nodup : (Map.keys s.nodes).Nodup

/-- What descriptor verification and the update rules establish about an accepted node. -/
structure Accepted (s : State) (n : Node) : Prop where
  nodup : hasDup (subKeys n) = false
  free  : ∀ k, k ∈ subKeys n → ∀ id, s.keyMap.get k = some id → (∃ m, s.nodes.get id = some m) → id = n.id
  same  : ∀ cur, s.nodes.get n.id = some cur → cur.entity = n.entity ∧ cur.cons = n.cons

/-- `SetNode` in the repaired order preserves the index invariant for an accepted descriptor. -/
theorem setNode_rf_index (s : State) (n : Node) (h : IndexInv s) (ha : Accepted s n) :
    IndexInv (setNode .removalsFirst s (s.nodes.get n.id) n) := by
  have hkm := fun k => get_setNodeKeyMap_rf s.keyMap (s.nodes.get n.id) n k
  have hca := fun k => get_setNodeConsAddr s.consAddr (s.nodes.get n.id) n k
  constructor
  · intro id m hm
    simp only [setNode, Map.get_set] at hm
    by_cases e : n.id = id
    · simp [e] at hm; subst hm; exact e
    · simp [e] at hm; exact h.node_id id m hm
  · intro id m hm
    simp only [setNode, Map.get_set] at hm
    by_cases e : n.id = id
    · simp [e] at hm; subst hm; exact ha.nodup
    · simp [e] at hm; exact h.sub_nodup id m hm
  · intro k id hk
    simp only [setNode, Map.get_set] at hk ⊢
    rw [hkm] at hk
    by_cases hkn : k ∈ subKeys n
    · simp [hkn] at hk; subst hk; exact ⟨n, by simp, hkn⟩
    · simp only [hkn, if_false] at hk
      by_cases hko : k ∈ oldKeys (s.nodes.get n.id)
      · simp [hko] at hk
      · simp only [hko, if_false] at hk
        obtain ⟨m, hm, hkm'⟩ := h.km_sound k id hk
        by_cases e : n.id = id
        · subst e; rw [hm] at hko; exact absurd hkm' hko
        · exact ⟨m, by simp [e, hm], hkm'⟩
  · -- km_compl
    intro id m hm k hk
    simp only [setNode, Map.get_set] at hm ⊢
    rw [hkm]
    by_cases e : n.id = id
    · simp [e] at hm; subst hm; simp [hk, e]
    · simp only [e, if_false] at hm
      have hkid := h.km_compl id m hm k hk
      have hnot : k ∉ subKeys n := by
        intro hkn
        exact e (ha.free k hkn id hkid ⟨m, hm⟩).symm
      simp only [hnot, if_false]
      have hnot' : k ∉ oldKeys (s.nodes.get n.id) := by
        intro hko
        cases hc : s.nodes.get n.id with
        | none => simp [hc, oldKeys] at hko
        | some cur =>
          rw [hc] at hko
          have := h.km_compl n.id cur hc k hko
          rw [this] at hkid
          exact e (Option.some.inj hkid)
      simp [hnot', hkid]
  · -- ca_sound
    intro k id hk
    simp only [setNode, Map.get_set] at hk ⊢
    rw [hca] at hk
    by_cases hkn : k = n.cons
    · simp [hkn] at hk; subst hk; exact ⟨n, by simp, hkn.symm⟩
    · simp only [hkn, if_false] at hk
      cases hc : s.nodes.get n.id with
      | none =>
        rw [hc] at hk
        obtain ⟨m, hm, hmk⟩ := h.ca_sound k id hk
        have e : ¬ n.id = id := by intro e; subst e; rw [hc] at hm; cases hm
        exact ⟨m, by simp [e, hm], hmk⟩
      | some cur =>
        rw [hc] at hk
        by_cases hko : k = cur.cons
        · simp [hko] at hk
        · simp only [hko, if_false] at hk
          obtain ⟨m, hm, hmk⟩ := h.ca_sound k id hk
          have e : ¬ n.id = id := by
            intro e; subst e; rw [hc] at hm; cases hm; exact hko hmk.symm
          exact ⟨m, by simp [e, hm], hmk⟩
  · -- ca_compl
    intro id m hm
    simp only [setNode, Map.get_set] at hm ⊢
    rw [hca]
    by_cases e : n.id = id
    · simp [e] at hm; subst hm; simp [e]
    · simp only [e, if_false] at hm
      have hc := h.ca_compl id m hm
      have hkm' := h.km_compl id m hm m.cons (by simp [subKeys])
      have hne : ¬ m.cons = n.cons := by
        intro hh
        exact e (ha.free m.cons (by simp [hh, subKeys]) id hkm' ⟨m, hm⟩).symm
      simp only [hne, if_false]
      cases hcur : s.nodes.get n.id with
      | none => simpa using hc
      | some cur =>
        have hne' : ¬ m.cons = cur.cons := by
          intro hh
          have := h.ca_compl n.id cur hcur
          rw [← hh, hc] at this
          exact e (Option.some.inj this).symm
        simpa [hne'] using hc
  · -- be_sound
    intro e id hb
    simp only [setNode, Map.get_set] at hb ⊢
    by_cases hp : (n.entity, n.id) = (e, id)
    · cases hp; exact ⟨n, by simp, rfl⟩
    · simp only [hp, if_false] at hb
      obtain ⟨m, hm, hme⟩ := h.be_sound e id hb
      by_cases hid : n.id = id
      · subst hid
        have := (ha.same m hm).1
        exact absurd (by rw [← this, hme]) hp
      · exact ⟨m, by simp [hid, hm], hme⟩
  · -- be_compl
    intro id m hm
    simp only [setNode, Map.get_set] at hm ⊢
    by_cases e : n.id = id
    · simp [e] at hm; subst hm; simp [e]
    · simp only [e, if_false] at hm
      have := h.be_compl id m hm
      have hp : ¬ (n.entity, n.id) = (m.entity, id) := by
        intro hh; exact e (Prod.mk.inj hh).2
      simpa [hp] using this
  · exact h.rt_id
  · exact h.rbe_sound
  · exact h.rbe_compl

/-- The index invariant depends on the key map only through its lookups. -/
theorem IndexInv.congr_keyMap {s : State} (km : Map Key Key) (hk : ∀ k, km.get k = s.keyMap.get k)
    (h : IndexInv s) : IndexInv { s with keyMap := km } :=
  { node_id := h.node_id, sub_nodup := h.sub_nodup
    km_sound := by intro k id hh; simp only [hk] at hh; exact h.km_sound k id hh
    km_compl := by intro id n hn k hkn; simp only [hk]; exact h.km_compl id n hn k hkn
    ca_sound := h.ca_sound, ca_compl := h.ca_compl, be_sound := h.be_sound, be_compl := h.be_compl
    rt_id := h.rt_id, rbe_sound := h.rbe_sound, rbe_compl := h.rbe_compl }

theorem setNode_interleaved_eq (s : State) (old : Option Node) (n : Node) :
    setNode .interleaved s old n =
      { setNode .removalsFirst s old n with keyMap := setNodeKeyMap .interleaved s.keyMap old n } := rfl

/-- `SetNode` in the code's (interleaved) order preserves the index invariant for an accepted
descriptor *provided no key moves forward*. -/
theorem setNode_il_index (s : State) (n : Node) (h : IndexInv s) (ha : Accepted s n)
    (hf : ∀ cur, s.nodes.get n.id = some cur → ¬ forwardMove cur n) :
    IndexInv (setNode .interleaved s (s.nodes.get n.id) n) := by
  rw [setNode_interleaved_eq]
  apply IndexInv.congr_keyMap _ _ (setNode_rf_index s n h ha)
  intro k
  exact get_setNodeKeyMap_interleaved_eq s.keyMap (s.nodes.get n.id) n ha.nodup
    (fun cur hc => ⟨h.sub_nodup n.id cur hc, (ha.same cur hc).2, hf cur hc⟩) k

/-- ... and if a key does move forward the node is afterwards *not* found under one of its keys. -/
theorem setNode_il_breaks (s : State) (n cur : Node) (h : IndexInv s) (ha : Accepted s n)
    (hc : s.nodes.get n.id = some cur) (hf : forwardMove cur n) :
    ¬ IndexInv (setNode .interleaved s (some cur) n) := by
  intro hi
  obtain ⟨k, hk, hnone⟩ := get_setNodeKeyMap_interleaved_forward s.keyMap cur n ha.nodup
    (h.sub_nodup n.id cur hc) (ha.same cur hc).2 hf
  have := hi.km_compl n.id n (by simp [setNode, Map.get_set]) k hk
  simp only [setNode] at this
  rw [hnone] at this
  cases this

/-- `RemoveNode` of a registered node (given by its stored descriptor) preserves the index invariant. -/
theorem removeNode_index (s : State) (n : Node) (h : IndexInv s) (hn : s.nodes.get n.id = some n) :
    IndexInv (removeNode s n) := by
  have hsub : ∀ k, k ∈ subKeys n ↔ (k = n.cons ∨ k = n.p2p ∨ k = n.tls ∨ k = n.vrf) := by
    intro k; simp [subKeys]
  have hkm : ∀ k, ((((s.keyMap.del n.cons).del n.p2p).del n.tls).del n.vrf).get k =
      if k ∈ subKeys n then none else s.keyMap.get k := by
    intro k
    simp only [Map.get_del, hsub]
    grind
  constructor
  · intro id m hm
    simp only [removeNode, Map.get_del] at hm
    by_cases e : n.id = id
    · simp [e] at hm
    · simp only [e, if_false] at hm; exact h.node_id id m hm
  · intro id m hm
    simp only [removeNode, Map.get_del] at hm
    by_cases e : n.id = id
    · simp [e] at hm
    · simp only [e, if_false] at hm; exact h.sub_nodup id m hm
  · intro k id hk
    simp only [removeNode] at hk ⊢
    rw [hkm] at hk
    by_cases hkn : k ∈ subKeys n
    · simp [hkn] at hk
    · simp only [hkn, if_false] at hk
      obtain ⟨m, hm, hkm'⟩ := h.km_sound k id hk
      have e : ¬ n.id = id := by
        intro e; subst e; rw [hn] at hm; cases hm; exact hkn hkm'
      exact ⟨m, by simp [Map.get_del, e, hm], hkm'⟩
  · intro id m hm k hk
    simp only [removeNode] at hm ⊢
    rw [Map.get_del] at hm
    by_cases e : n.id = id
    · simp [e] at hm
    · simp only [e, if_false] at hm
      rw [hkm]
      have hkid := h.km_compl id m hm k hk
      have : k ∉ subKeys n := by
        intro hkn
        have := h.km_compl n.id n hn k hkn
        rw [this] at hkid
        exact e (Option.some.inj hkid)
      simp [this, hkid]
  · intro k id hk
    simp only [removeNode, Map.get_del] at hk ⊢
    by_cases hkn : n.cons = k
    · simp [hkn] at hk
    · simp only [hkn, if_false] at hk
      obtain ⟨m, hm, hmk⟩ := h.ca_sound k id hk
      have e : ¬ n.id = id := by
        intro e; subst e; rw [hn] at hm; cases hm; exact hkn hmk
      exact ⟨m, by simp [e, hm], hmk⟩
  · intro id m hm
    simp only [removeNode, Map.get_del] at hm ⊢
    by_cases e : n.id = id
    · simp [e] at hm
    · simp only [e, if_false] at hm
      have hc := h.ca_compl id m hm
      have : ¬ n.cons = m.cons := by
        intro hh
        have := h.ca_compl n.id n hn
        rw [hh, hc] at this
        exact e (Option.some.inj this).symm
      simpa [this] using hc
  · intro e id hb
    simp only [removeNode, Map.get_del] at hb ⊢
    by_cases hp : (n.entity, n.id) = (e, id)
    · simp [hp] at hb
    · simp only [hp, if_false] at hb
      obtain ⟨m, hm, hme⟩ := h.be_sound e id hb
      have hid : ¬ n.id = id := by
        intro hid; subst hid; rw [hn] at hm; cases hm; exact hp (by rw [hme])
      exact ⟨m, by simp [hid, hm], hme⟩
  · intro id m hm
    simp only [removeNode, Map.get_del] at hm ⊢
    by_cases e : n.id = id
    · simp [e] at hm
    · simp only [e, if_false] at hm
      have := h.be_compl id m hm
      have hp : ¬ (n.entity, n.id) = (m.entity, id) := by
        intro hh; exact e (Prod.mk.inj hh).2
      simpa [hp] using this
  · exact h.rt_id
  · exact h.rbe_sound
  · exact h.rbe_compl

end OasisProofs.Registry
