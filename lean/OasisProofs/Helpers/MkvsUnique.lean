import OasisProofs.Helpers.MkvsOrder
import OasisModel.Mkvs.SMap
/-
In-order traversal of a canonical trie is strictly ascending, and the canonical trie of a set of
key/value pairs is unique (`wf_unique`).
-/
namespace OasisProofs.Mkvs
open OasisModel.Mkvs

theorem lt_of_prefix_ext {q : Bits} {b : Bool} {k k' : Bytes} (hk : toBits k = q)
    (hk' : q ++ [b] <+: toBits k') : k < k' := by
  rw [← toBits_lt, hk]
  obtain ⟨t, ht⟩ := hk'
  rw [← ht]
  simpa [List.append_assoc] using bits_lt_append_cons q b t

theorem lt_of_bits {q : Bits} {k k' : Bytes} (hk : q ++ [false] <+: toBits k)
    (hk' : q ++ [true] <+: toBits k') : k < k' := by
  rw [← toBits_lt]
  obtain ⟨t, ht⟩ := hk
  obtain ⟨t', ht'⟩ := hk'
  rw [← ht, ← ht']
  simpa [List.append_assoc] using bits_lt_of_bit q t t'

/-- C03: the traversal own-leaf, left, right yields strictly ascending keys (byte order). -/
theorem sorted_toList {p : Bits} {t : Trie} (h : WFAt p t) : SMap.Sorted t.toList := by
  induction t generalizing p with
  | nil => exact List.Pairwise.nil
  | leaf k v => simp [SMap.Sorted, Trie.toList]
  | node lab lf l r ihl ihr =>
    obtain ⟨hlf, hl, hlb, hr, hrb, _⟩ := h
    show List.Pairwise _ (lf.toList ++ (l.toList ++ r.toList))
    rw [List.pairwise_append, List.pairwise_append]
    refine ⟨?_, ⟨ihl hl, ihr hr, ?_⟩, ?_⟩
    · cases lf <;> simp
    · intro a ha b hb; exact lt_of_bits (hlb a ha) (hrb b hb)
    · intro a ha b hb
      have ha' : lf = some a := by cases lf <;> simp at ha ⊢; exact ha.symm
      rcases List.mem_append.1 hb with hb | hb
      · exact lt_of_prefix_ext (hlf a ha') (hlb b hb)
      · exact lt_of_prefix_ext (hlf a ha') (hrb b hb)

theorem wfAt_node_length {p lab : Bits} {lf : Option (Bytes × Bytes)} {l r : Trie}
    (h : WFAt p (.node lab lf l r)) : 2 ≤ (Trie.node lab lf l r).toList.length := by
  obtain ⟨_, hl, _, hr, _, hc⟩ := h
  have e : (Trie.node lab lf l r).toList.length = lf.toList.length + (l.toList.length + r.toList.length) := by
    simp [Trie.toList]
  have h1 : (!l.isNil).toNat ≤ l.toList.length := by
    cases hn : l.isNil
    · have := wfAt_toList_ne_nil hl (by intro h; rw [h] at hn; simp [Trie.isNil] at hn)
      have : 0 < l.toList.length := List.length_pos_iff.2 this
      simp; omega
    · simp
  have h2 : (!r.isNil).toNat ≤ r.toList.length := by
    cases hn : r.isNil
    · have := wfAt_toList_ne_nil hr (by intro h; rw [h] at hn; simp [Trie.isNil] at hn)
      have : 0 < r.toList.length := List.length_pos_iff.2 this
      simp; omega
    · simp
  have h3 : lf.isSome.toNat = lf.toList.length := by cases lf <;> simp
  omega

/-- If every key below a canonical node extends `path ++ label ++ [b]`, contradiction: the node
would have at most one of {own leaf, left, right}. -/
theorem label_maximal {p lab rest : Bits} {b : Bool} {lf : Option (Bytes × Bytes)} {l r : Trie}
    (h : WFAt p (.node lab lf l r))
    (hall : (Trie.node lab lf l r).AllKeys (fun k => (p ++ lab) ++ b :: rest <+: toBits k)) : False := by
  obtain ⟨hlf, hl, hlb, hr, hrb, hc⟩ := h
  have hlfn : lf = none := by
    cases hh : lf with
    | none => rfl
    | some kv =>
      have h1 := hall kv (mem_toList_node.2 (Or.inl hh))
      have h2 := hlf kv hh
      simp only at h1
      rw [h2] at h1
      have := h1.length_le
      simp at this
      omega
  have hside : ∀ (t : Trie) (c : Bool), WFAt (p ++ lab) t →
      t.AllKeys (fun k => (p ++ lab) ++ [c] <+: toBits k) →
      t.AllKeys (fun k => (p ++ lab) ++ b :: rest <+: toBits k) → c ≠ b → t = .nil := by
    intro t c hw h1 h2 hcb
    apply Classical.byContradiction
    intro hne
    have hne' := wfAt_toList_ne_nil hw hne
    obtain ⟨kv, hkv⟩ := List.exists_mem_of_ne_nil _ hne'
    obtain ⟨t1, e1⟩ := h1 kv hkv
    obtain ⟨t2, e2⟩ := h2 kv hkv
    rw [← e2] at e1
    simp only [List.append_assoc, List.append_cancel_left_eq, List.cons_append, List.nil_append,
      List.cons.injEq] at e1
    exact hcb e1.1
  have hl' : l.AllKeys (fun k => (p ++ lab) ++ b :: rest <+: toBits k) :=
    fun kv h => hall kv (mem_toList_node.2 (Or.inr (Or.inl h)))
  have hr' : r.AllKeys (fun k => (p ++ lab) ++ b :: rest <+: toBits k) :=
    fun kv h => hall kv (mem_toList_node.2 (Or.inr (Or.inr h)))
  subst hlfn
  cases b
  · have := hside r true hr hrb hr' (by simp)
    subst this
    cases l <;> simp [Trie.isNil] at hc
  · have := hside l false hl hlb hl' (by simp)
    subst this
    cases r <;> simp [Trie.isNil] at hc

/-- Splitting a list into three runs that are told apart by a classifier is unique. -/
theorem split3_unique {α : Type} (c : α → Nat) {a1 b1 c1 a2 b2 c2 : List α}
    (h : a1 ++ (b1 ++ c1) = a2 ++ (b2 ++ c2))
    (ha1 : ∀ x ∈ a1, c x = 0) (hb1 : ∀ x ∈ b1, c x = 1) (hc1 : ∀ x ∈ c1, c x = 2)
    (ha2 : ∀ x ∈ a2, c x = 0) (hb2 : ∀ x ∈ b2, c x = 1) (hc2 : ∀ x ∈ c2, c x = 2) :
    a1 = a2 ∧ b1 = b2 ∧ c1 = c2 := by
  have key : ∀ (n : Nat) (a b c' : List α), (∀ x ∈ a, c x = 0) → (∀ x ∈ b, c x = 1) →
      (∀ x ∈ c', c x = 2) →
      (a ++ (b ++ c')).filter (fun x => c x == n) =
        (if n = 0 then a else if n = 1 then b else if n = 2 then c' else []) := by
    intro n a b c' h0 h1 h2
    simp only [List.filter_append]
    have fa : a.filter (fun x => c x == n) = if n = 0 then a else [] := by
      split
      · next hn => subst hn; exact List.filter_eq_self.2 (fun x hx => by simp [h0 x hx])
      · next hn => exact List.filter_eq_nil_iff.2 (fun x hx => by simp [h0 x hx]; omega)
    have fb : b.filter (fun x => c x == n) = if n = 1 then b else [] := by
      split
      · next hn => subst hn; exact List.filter_eq_self.2 (fun x hx => by simp [h1 x hx])
      · next hn => exact List.filter_eq_nil_iff.2 (fun x hx => by simp [h1 x hx]; omega)
    have fc : c'.filter (fun x => c x == n) = if n = 2 then c' else [] := by
      split
      · next hn => subst hn; exact List.filter_eq_self.2 (fun x hx => by simp [h2 x hx])
      · next hn => exact List.filter_eq_nil_iff.2 (fun x hx => by simp [h2 x hx]; omega)
    rw [fa, fb, fc]
    by_cases n0 : n = 0
    · subst n0; simp
    · by_cases n1 : n = 1
      · subst n1; simp
      · by_cases n2 : n = 2
        · subst n2; simp
        · simp [n0, n1, n2]
  have e0 := key 0 a1 b1 c1 ha1 hb1 hc1
  have e1 := key 1 a1 b1 c1 ha1 hb1 hc1
  have e2 := key 2 a1 b1 c1 ha1 hb1 hc1
  rw [h, key 0 a2 b2 c2 ha2 hb2 hc2] at e0
  rw [h, key 1 a2 b2 c2 ha2 hb2 hc2] at e1
  rw [h, key 2 a2 b2 c2 ha2 hb2 hc2] at e2
  simp at e0 e1 e2
  exact ⟨e0.symm, e1.symm, e2.symm⟩

/-- Classifier of keys below a node with path `q`: 0 = ends at `q`, 1 = continues with bit 0, 2 = bit 1. -/
def sideOf (n : Nat) (kv : Bytes × Bytes) : Nat :=
  match (toBits kv.1).drop n with
  | [] => 0
  | false :: _ => 1
  | true :: _ => 2

theorem sideOf_eq {q : Bits} {kv : Bytes × Bytes} (h : toBits kv.1 = q) : sideOf q.length kv = 0 := by
  simp [sideOf, h]

theorem sideOf_ext {q : Bits} {b : Bool} {kv : Bytes × Bytes} (h : q ++ [b] <+: toBits kv.1) :
    sideOf q.length kv = if b then 2 else 1 := by
  obtain ⟨t, ht⟩ := h
  simp only [sideOf, ← ht, List.append_assoc, List.drop_left]
  cases b <;> rfl

/-- C02 core: two canonical tries (at the same path) with the same contents are equal. -/
theorem wfAt_unique (t1 : Trie) : ∀ (t2 : Trie) (p : Bits), WFAt p t1 → WFAt p t2 →
    t1.toList = t2.toList → t1 = t2 := by
  induction t1 with
  | nil =>
    intro t2 p _ h2 he
    apply Classical.byContradiction
    intro hne
    exact wfAt_toList_ne_nil h2 (fun h => hne h.symm) he.symm
  | leaf k v =>
    intro t2 p _ h2 he
    cases t2 with
    | nil => simp [Trie.toList] at he
    | leaf k' v' => simp [Trie.toList] at he; rw [he.1, he.2]
    | node lab lf l r =>
      have := wfAt_node_length h2
      rw [← he] at this; simp [Trie.toList] at this
  | node lab1 lf1 l1 r1 ihl ihr =>
    intro t2 p h1 h2 he
    cases t2 with
    | nil => exact absurd he (wfAt_toList_ne_nil h1 (by simp))
    | leaf k' v' =>
      have := wfAt_node_length h1
      rw [he] at this; simp [Trie.toList] at this
    | node lab2 lf2 l2 r2 =>
      have a1 := wfAt_node_allKeys h1
      have a2 := wfAt_node_allKeys h2
      -- the labels agree
      have hlab : lab1 = lab2 := by
        have hne := wfAt_toList_ne_nil h1 (by simp)
        obtain ⟨kv, hkv⟩ := List.exists_mem_of_ne_nil _ hne
        have p1 := a1 kv hkv
        have p2 := a2 kv (he ▸ hkv)
        have hcmp := List.prefix_or_prefix_of_prefix p1 p2
        simp only [List.prefix_append_right_inj] at hcmp
        rcases hcmp with ⟨t, ht⟩ | ⟨t, ht⟩
        · cases t with
          | nil => simpa using ht
          | cons b rest =>
            exfalso
            apply label_maximal (b := b) (rest := rest) h1
            intro kv' hkv'
            have := a2 kv' (he ▸ hkv')
            rw [← ht] at this
            simpa [List.append_assoc] using this
        · cases t with
          | nil => simpa using ht.symm
          | cons b rest =>
            exfalso
            apply label_maximal (b := b) (rest := rest) h2
            intro kv' hkv'
            have := a1 kv' (he ▸ hkv')
            rw [← ht] at this
            simpa [List.append_assoc] using this
      subst hlab
      obtain ⟨hlf1, hl1, hlb1, hr1, hrb1, _⟩ := h1
      obtain ⟨hlf2, hl2, hlb2, hr2, hrb2, _⟩ := h2
      have hs := split3_unique (sideOf (p ++ lab1).length)
        (a1 := lf1.toList) (b1 := l1.toList) (c1 := r1.toList)
        (a2 := lf2.toList) (b2 := l2.toList) (c2 := r2.toList) he
        (by intro x hx; exact sideOf_eq (hlf1 x (by cases lf1 <;> simp at hx ⊢; exact hx.symm)))
        (by intro x hx; simpa using sideOf_ext (hlb1 x hx))
        (by intro x hx; simpa using sideOf_ext (hrb1 x hx))
        (by intro x hx; exact sideOf_eq (hlf2 x (by cases lf2 <;> simp at hx ⊢; exact hx.symm)))
        (by intro x hx; simpa using sideOf_ext (hlb2 x hx))
        (by intro x hx; simpa using sideOf_ext (hrb2 x hx))
      obtain ⟨e1, e2, e3⟩ := hs
      have : lf1 = lf2 := by
        cases lf1 <;> cases lf2 <;> simp at e1 ⊢
        exact e1
      rw [this, ihl l2 _ hl1 hl2 e2, ihr r2 _ hr1 hr2 e3]

end OasisProofs.Mkvs
