import OasisModel.Mkvs.RestorerFail
/-
Helpers for `OasisProofs/Props/C12RestorerFail.lean`: the invariant of the restorer under failing
imports (`pending` is exactly the not yet imported part of `0..n-1`) and its preservation by every
event of a history.
-/
namespace OasisProofs.RestorerFail
open OasisModel.Mkvs.RestorerFail

/-- Invariant of the restorer: while a restore of `n` chunks is in progress, the pending list is
`[0, .., n-1]` without the imported indices (as lists, in order). -/
def Inv (rs : FRestorer) : Prop :=
  ∀ n, rs.current = some n →
    rs.pending = (List.range n).filter (fun i => !rs.imported.contains i)

theorem inv_init : Inv {} := by
  intro n h; simp at h

theorem inv_start {rs rs' : FRestorer} {n : Nat} (h : fStart rs n = some rs') : Inv rs' := by
  unfold fStart at h
  cases hc : rs.current with
  | some m => simp [hc] at h
  | none =>
    simp [hc] at h
    subst h
    intro m hm
    simp at hm
    subst hm
    exact (List.filter_eq_self.mpr (by simp)).symm

theorem inv_abort (rs : FRestorer) : Inv (fAbort rs) := by
  intro n h; simp [fAbort] at h

theorem filter_step (l imp : List Nat) (idx : Nat) :
    (l.filter (fun i => !imp.contains i)).filter (fun i => i != idx) =
      l.filter (fun i => !(idx :: imp).contains i) := by
  rw [List.filter_filter]
  congr 1
  funext i
  by_cases h : i = idx
  · subst h; simp
  · have h' : (i != idx) = true := by simpa using h
    simp [h, h']

theorem fFinish_ok_stale {rs : FRestorer} {idx seen : Nat}
    (hg : (rs.current.isNone || rs.gen != seen) = true) :
    fFinish rs idx seen .ok = (.noRestore, rs) := by
  simp only [fFinish, hg, if_true]

theorem fFinish_ok_done {rs : FRestorer} {idx seen : Nat}
    (hg : (rs.current.isNone || rs.gen != seen) = false)
    (he : (rs.pending.filter (fun i => i != idx)).isEmpty = true) :
    fFinish rs idx seen .ok =
      (.done true, { rs with current := none, pending := [], imported := idx :: rs.imported }) := by
  simp only [fFinish, hg, he, if_true, Bool.false_eq_true, if_false]

theorem fFinish_ok_more {rs : FRestorer} {idx seen : Nat}
    (hg : (rs.current.isNone || rs.gen != seen) = false)
    (he : (rs.pending.filter (fun i => i != idx)).isEmpty = false) :
    fFinish rs idx seen .ok =
      (.done false, { rs with pending := rs.pending.filter (fun i => i != idx),
                              imported := idx :: rs.imported }) := by
  simp only [fFinish, hg, he, Bool.false_eq_true, if_false]

theorem inv_finish {rs : FRestorer} (hi : Inv rs) (idx seen : Nat) (o : Outcome) :
    Inv (fFinish rs idx seen o).2 := by
  cases o with
  | proofFailed => exact inv_abort rs
  | corrupted => exact hi
  | transient => exact hi
  | ok =>
    cases hg : (rs.current.isNone || rs.gen != seen) with
    | true => rw [fFinish_ok_stale hg]; exact hi
    | false =>
      cases he : (rs.pending.filter (fun i => i != idx)).isEmpty with
      | true =>
        rw [fFinish_ok_done hg he]
        intro n h; simp at h
      | false =>
        rw [fFinish_ok_more hg he]
        intro n h
        have h' : rs.current = some n := h
        show rs.pending.filter (fun i => i != idx) = _
        rw [hi n h', filter_step]

theorem inv_step {s : FState} (hi : Inv s.rs) (e : Ev) : Inv (fStep s e).1.rs := by
  cases e with
  | start n =>
    cases h : fStart s.rs n with
    | none => simp only [fStep, h]; exact hi
    | some rs' => simp only [fStep, h]; exact inv_start h
  | abort => exact inv_abort s.rs
  | «begin» idx =>
    cases h : fBegin s.rs idx with
    | ok g => simp only [fStep, h]; exact hi
    | error e => simp only [fStep, h]; exact hi
  | finish idx seen o =>
    cases hc : s.inflight.contains (idx, seen) with
    | true => simp only [fStep, hc, if_true]; exact inv_finish hi idx seen o
    | false => simp only [fStep, hc, Bool.false_eq_true, if_false]; exact hi

theorem inv_run {s : FState} (hi : Inv s.rs) (evs : List Ev) : Inv (fRun s evs).rs := by
  induction evs generalizing s with
  | nil => exact hi
  | cons e evs ih =>
    show Inv (fRun (fStep s e).1 evs).rs
    exact ih (inv_step hi e)

/-- Under the invariant, membership in `pending` is "in range and not imported". -/
theorem inv_mem {rs : FRestorer} (hi : Inv rs) {n : Nat} (hc : rs.current = some n) (i : Nat) :
    i ∈ rs.pending ↔ (i < n ∧ i ∉ rs.imported) := by
  rw [hi n hc]
  simp [List.mem_filter]

/-- A `finish` reports done only from a state with a restore in progress, and then every index of
that restore is imported afterwards. -/
theorem finish_done {rs : FRestorer} (hi : Inv rs) {idx seen : Nat} {o : Outcome}
    (hd : (fFinish rs idx seen o).1 = .done true) :
    ∃ n, rs.current = some n ∧ rs.gen = seen ∧ o = .ok ∧
      ∀ i, i < n → i ∈ (fFinish rs idx seen o).2.imported := by
  cases o with
  | proofFailed => simp [fFinish] at hd
  | corrupted => simp [fFinish] at hd
  | transient => simp [fFinish] at hd
  | ok =>
    cases hg : (rs.current.isNone || rs.gen != seen) with
    | true => rw [fFinish_ok_stale hg] at hd; simp at hd
    | false =>
      cases he : (rs.pending.filter (fun i => i != idx)).isEmpty with
      | false => rw [fFinish_ok_more hg he] at hd; simp at hd
      | true =>
        rw [fFinish_ok_done hg he]
        cases hc : rs.current with
        | none => simp [hc] at hg
        | some n =>
          have hgen : rs.gen = seen := by
            simp [hc] at hg; exact hg
          refine ⟨n, rfl, hgen, rfl, ?_⟩
          intro i hlt
          have hemp : (rs.pending.filter (fun i => i != idx)) = [] := by
            simpa using he
          rw [hi n hc, filter_step] at hemp
          have hm := List.filter_eq_nil_iff.mp hemp i (by simpa using hlt)
          show i ∈ idx :: rs.imported
          have hm' : ¬i = idx → i ∈ rs.imported := by simpa using hm
          by_cases hx : i = idx
          · subst hx; exact List.mem_cons_self
          · exact List.mem_cons_of_mem _ (hm' hx)

end OasisProofs.RestorerFail
