import OasisModel.Pcs.Parse
/-
Helper lemmas for C18: what each step of the symbolic verifier's decision sequence implies when
it succeeds ("acceptance implies the link").
-/
namespace OasisProofs.C18
open OasisModel.Pcs

theorem bind_ok {ε α β : Type} (x : Except ε α) (f : α → Except ε β) (v : β) :
    (x >>= f) = .ok v ↔ ∃ a, x = .ok a ∧ f a = .ok v := by
  cases x <;> simp [bind, Except.bind]

@[simp] theorem chk_ok (b : Bool) (s : Stage) (u : Unit) : chk b s = .ok u ↔ b = true := by
  cases b <;> simp [chk]

@[simp] theorem pchk_ok (b : Bool) (s : ParseErr) (u : Unit) : pchk b s = .ok u ↔ b = true := by
  cases b <;> simp [pchk]

/-! ### the links -/

/-- TEE-type / debug / TDX-module policy on the report body. -/
def TeeOK (env : Env) (pol : Policy) (q : Quote) : Prop :=
  (q.teeType = teeSGX ∧ q.bodyKind = .sgx ∧ sgxMrSigner q.bodyRaw ∉ env.mrSignerBlacklist ∧
      env.allowDebug = sgxDebug q.bodyRaw) ∨
  (q.teeType = teeTDX ∧ q.bodyKind = .td ∧ env.allowDebug = tdDebug q.bodyRaw ∧
      ∃ mods, pol.tdx = some mods ∧ tdxModuleAllowed mods q.bodyRaw = true)

/-- The PCK certificate chain of the quote validates to the Intel root at `ts`, the chain's
root is the supplied third certificate, and `p` is what the leaf certifies. -/
def PckLink (L : Lib) (ts : Time) (q : Quote) (p : PckInfo) : Prop :=
  ∃ leaf inter root chain, q.certData = .chain [leaf, inter, root] ∧
    L.x509Verify leaf [inter] ts = some [chain] ∧ lastIs chain root = true ∧
    leaf.ecdsaPk = some p.pk ∧ leaf.ext = .ok (some p.fmspc) p.compSvn p.pcesvn

/-- The TCB signing certificate validates to the Intel root at `ts`; `pk` is its key. -/
def TcbKeyLink (L : Lib) (ts : Time) (b : Bundle) (pk : Bytes) : Prop :=
  ∃ cert root chain, L.pem b.certs = some [cert, root] ∧
    L.x509Verify cert [] ts = some [chain] ∧ lastIs chain root = true ∧ cert.ecdsaPk = some pk

/-- The validity window. -/
def InWindow (issue ts : Time) (validity : Nat) : Prop := issue ≤ ts ∧ ts - issue ≤ validity * dayNs

/-- The QE identity is signed by `pk`, is for this TEE type, current, and recent enough. -/
def QeIdLink (L : Lib) (teeType : Nat) (ts : Time) (pol : Policy) (pk : Bytes) (s : SignedJson)
    (qe : QeIdentity) : Prop :=
  ∃ sig issue, sigFromHex s.sigHex = some sig ∧ L.ecdsaOK pk s.raw sig = true ∧
    L.jsonQe s.raw = some qe ∧
    qe.id = (if teeType = teeSGX then sQE else sTDQE) ∧ qe.version = 2 ∧
    qe.issueDate = some issue ∧ qe.nextUpdateOk = true ∧ InWindow issue ts pol.validity ∧
    pol.minEval ≤ qe.evalNum

/-- The QE report is the quoting enclave the identity describes, at an up-to-date level. -/
def QeReportOK (qe : QeIdentity) (rep : Bytes) : Prop :=
  ∃ ms m mm a am l, hexLen qe.mrSigner 32 = some ms ∧ ms = sgxMrSigner rep ∧
    qe.isvProdId = sgxIsvProdId rep ∧
    hexLen qe.miscSelect 4 = some m ∧ hexLen qe.miscSelectMask 4 = some mm ∧
    (sgxMiscSelect rep) &&& (leNat mm) = leNat m ∧
    hexLen qe.attributes 16 = some a ∧ hexLen qe.attributesMask 16 = some am ∧
    (sgxFlags rep) &&& (leNat (am.take 8)) = leNat (a.take 8) ∧
    (sgxXfrm rep) &&& (leNat (am.drop 8)) = leNat (a.drop 8) ∧
    enclaveLevel qe.levels (sgxIsvSvn rep) = some l ∧ l.status = 1

/-- The TCB info is signed by `pk`, is for this TEE type, current, recent enough and its
FMSPC passes the white and black lists. -/
def TcbInfoLink (L : Lib) (teeType : Nat) (ts : Time) (pol : Policy) (pk : Bytes) (s : SignedJson)
    (ti : TcbInfo) : Prop :=
  ∃ sig issue, sigFromHex s.sigHex = some sig ∧ L.ecdsaOK pk s.raw sig = true ∧
    L.jsonTcb s.raw = some ti ∧
    ti.id = (if teeType = teeSGX then sSGX else sTDX) ∧ ti.version = 3 ∧
    ti.issueDate = some issue ∧ ti.nextUpdateOk = true ∧ InWindow issue ts pol.validity ∧
    pol.minEval ≤ ti.evalNum ∧
    (pol.whitelist = [] ∨ ti.fmspc ∈ pol.whitelist) ∧ ti.fmspc ∉ pol.blacklist

/-- The TDX module part of `getTCBLevel`. -/
def TdxModuleOK (ti : TcbInfo) (tdxSvn : Option (List Nat)) : Prop :=
  ti.id = sTDX →
    ∃ t, tdxSvn = some t ∧
      (1 ≤ t.getD 1 0 →
        ∃ m ml, ti.modules.find? (fun m => m.id == tdxModuleName (t.getD 1 0)) = some m ∧
          enclaveLevel m.levels (t.getD 0 0) = some ml ∧ ml.status = 1)

/-- The platform's TCB level: `lvl` is the first level of the TCB info the platform reaches. -/
def LevelLink (ti : TcbInfo) (pck : PckInfo) (tdxSvn : Option (List Nat)) (lvl : TcbLevel) : Prop :=
  ti.levels.find? (fun l => l.matches pck.compSvn tdxSvn pck.pcesvn) = some lvl ∧
    lvl.status ≠ 0 ∧ TdxModuleOK ti tdxSvn

/-! ### step lemmas -/

theorem checkTee_ok {env : Env} {pol : Policy} {q : Quote} (h : checkTee env pol q = .ok ()) :
    TeeOK env pol q := by
  unfold checkTee at h
  split at h
  · rename_i ht
    simp only [bind_ok, chk_ok] at h
    obtain ⟨_, h1, _, h2, h3⟩ := h
    left
    refine ⟨ht, by simpa using h1, ?_, by simpa using h3⟩
    simpa using h2
  · split at h
    · rename_i ht
      simp only [bind_ok, chk_ok] at h
      obtain ⟨_, h1, _, h2, h3⟩ := h
      right
      refine ⟨ht, by simpa using h1, by simpa using h2, ?_⟩
      split at h3
      · simp at h3
      · rename_i mods hm
        exact ⟨mods, hm, by simpa using h3⟩
    · simp at h

theorem verifyPCK_ok {L : Lib} {ts : Time} {q : Quote} {p : PckInfo}
    (h : verifyPCK L ts q = .ok p) : PckLink L ts q p := by
  unfold verifyPCK at h
  split at h
  · simp at h
  · rename_i leaf inter root hcd
    split at h
    · simp at h
    · rename_i chain hx
      simp only [bind_ok, chk_ok] at h
      obtain ⟨_, hl, h⟩ := h
      split at h
      · simp at h
      · rename_i pk hpk
        split at h
        · simp at h
        · simp at h
        · rename_i f svn pce hext
          simp at h
          subst h
          exact ⟨leaf, inter, root, chain, hcd, hx, hl, hpk, hext⟩
    · simp at h
  · simp at h

theorem tcbPublicKey_ok {L : Lib} {ts : Time} {b : Bundle} {pk : Bytes}
    (h : tcbPublicKey L ts b = .ok pk) : TcbKeyLink L ts b pk := by
  unfold tcbPublicKey at h
  split at h
  · simp at h
  · rename_i cert root hp
    split at h
    · simp at h
    · rename_i chain hx
      simp only [bind_ok, chk_ok] at h
      obtain ⟨_, hl, h⟩ := h
      split at h
      · simp at h
      · rename_i pk' hpk
        simp at h
        subst h
        exact ⟨cert, root, chain, hp, hx, hl, hpk⟩
    · simp at h
  · simp at h

theorem openQeIdentity_ok {L : Lib} {tee : Nat} {ts : Time} {pol : Policy} {pk : Bytes}
    {s : SignedJson} {qe : QeIdentity} (h : openQeIdentity L tee ts pol pk s = .ok qe) :
    QeIdLink L tee ts pol pk s qe := by
  unfold openQeIdentity at h
  split at h
  · simp at h
  · rename_i sig hsig
    simp only [bind_ok, chk_ok] at h
    obtain ⟨_, hs, h⟩ := h
    split at h
    · simp at h
    · rename_i qe' hj
      simp only [bind_ok, chk_ok] at h
      obtain ⟨_, hid, _, hv, h⟩ := h
      split at h
      · simp at h
      · rename_i issue hi
        simp only [bind_ok, chk_ok] at h
        obtain ⟨_, hn, _, hf, _, he, _, hm, h⟩ := h
        simp at h
        subst h
        exact ⟨sig, issue, hsig, hs, hj, by simpa using hid, by simpa using hv, hi, hn,
          ⟨by simpa using hf, by simpa using he⟩, by simpa using hm⟩

theorem qeIdentityVerify_ok {qe : QeIdentity} {rep : Bytes}
    (h : qeIdentityVerify qe rep = .ok ()) : QeReportOK qe rep := by
  unfold qeIdentityVerify at h
  split at h
  · simp at h
  · rename_i ms hms
    simp only [bind_ok, chk_ok] at h
    obtain ⟨_, h1, _, h2, h⟩ := h
    split at h
    · rename_i m mm hm hmm
      simp only [bind_ok, chk_ok] at h
      obtain ⟨_, h3, h⟩ := h
      split at h
      · rename_i a am ha ham
        simp only [bind_ok, chk_ok] at h
        obtain ⟨_, h4, h⟩ := h
        split at h
        · simp at h
        · rename_i l hl
          simp only [Bool.and_eq_true, beq_iff_eq] at h4
          exact ⟨ms, m, mm, a, am, l, hms, by simpa using h1, by simpa using h2, hm, hmm,
            by simpa using h3, ha, ham, h4.1, h4.2, hl, by simpa using h⟩
      · simp at h
    · simp at h

theorem openTcbInfo_ok {L : Lib} {tee : Nat} {ts : Time} {pol : Policy} {pk : Bytes}
    {s : SignedJson} {ti : TcbInfo} (h : openTcbInfo L tee ts pol pk s = .ok ti) :
    TcbInfoLink L tee ts pol pk s ti := by
  unfold openTcbInfo at h
  split at h
  · simp at h
  · rename_i sig hsig
    simp only [bind_ok, chk_ok] at h
    obtain ⟨_, hs, h⟩ := h
    split at h
    · simp at h
    · rename_i ti' hj
      simp only [bind_ok, chk_ok] at h
      obtain ⟨_, hid, _, hv, h⟩ := h
      split at h
      · simp at h
      · rename_i issue hi
        simp only [bind_ok, chk_ok] at h
        obtain ⟨_, hn, _, hf, _, he, _, hm, _, hw, _, hb, h⟩ := h
        simp at h
        subst h
        refine ⟨sig, issue, hsig, hs, hj, by simpa using hid, by simpa using hv, hi, hn,
          ⟨by simpa using hf, by simpa using he⟩, by simpa using hm, ?_, by simpa using hb⟩
        simpa [List.isEmpty_iff] using hw

theorem getTcbLevel_ok {ti : TcbInfo} {pck : PckInfo} {tdxSvn : Option (List Nat)} {lvl : TcbLevel}
    (h : getTcbLevel ti pck.compSvn tdxSvn pck.pcesvn = .ok lvl) : LevelLink ti pck tdxSvn lvl := by
  unfold getTcbLevel at h
  split at h
  · simp at h
  · rename_i lvl' hfind
    simp only [bind_ok, chk_ok] at h
    obtain ⟨_, hst, h⟩ := h
    have hst' : lvl'.status ≠ 0 := by simpa using hst
    split at h
    · rename_i hid
      split at h
      · simp at h
      · rename_i t
        split at h
        · rename_i hver
          split at h
          · simp at h
          · rename_i m hm
            split at h
            · simp at h
            · rename_i ml hml
              simp only [bind_ok, chk_ok] at h
              obtain ⟨_, hs1, h⟩ := h
              simp at h
              subst h
              refine ⟨hfind, hst', fun _ => ⟨t, rfl, fun _ => ⟨m, ml, hm, hml, by simpa using hs1⟩⟩⟩
        · rename_i hver
          simp at h
          subst h
          exact ⟨hfind, hst', fun _ => ⟨t, rfl, fun h1 => absurd h1 hver⟩⟩
    · rename_i hid
      simp at h
      subst h
      refine ⟨hfind, hst', fun h1 => ?_⟩
      exact absurd (by simp [h1]) hid

/-! ### converse step lemmas (the link implies the step succeeds) -/

theorem checkTee_of {env : Env} {pol : Policy} {q : Quote} (h : TeeOK env pol q) :
    checkTee env pol q = .ok () := by
  unfold checkTee
  rcases h with ⟨ht, hk, hb, hd⟩ | ⟨ht, hk, hd, mods, hm, ha⟩
  · simp [ht, hk, hb, hd, chk, bind, Except.bind]
  · have hne : ¬ teeTDX = teeSGX := by decide
    simp [hne, ht, hk, hd, hm, ha, chk, bind, Except.bind]

theorem verifyPCK_of {L : Lib} {ts : Time} {q : Quote} {p : PckInfo} (h : PckLink L ts q p) :
    verifyPCK L ts q = .ok p := by
  obtain ⟨leaf, inter, root, chain, hcd, hx, hl, hpk, hext⟩ := h
  unfold verifyPCK
  rw [hcd]
  simp [hx, hl, hpk, hext, chk, bind, Except.bind]

theorem tcbPublicKey_of {L : Lib} {ts : Time} {b : Bundle} {pk : Bytes} (h : TcbKeyLink L ts b pk) :
    tcbPublicKey L ts b = .ok pk := by
  obtain ⟨cert, root, chain, hp, hx, hl, hpk⟩ := h
  unfold tcbPublicKey
  simp [hp, hx, hl, hpk, chk, bind, Except.bind]

theorem openQeIdentity_of {L : Lib} {tee : Nat} {ts : Time} {pol : Policy} {pk : Bytes}
    {s : SignedJson} {qe : QeIdentity} (h : QeIdLink L tee ts pol pk s qe) :
    openQeIdentity L tee ts pol pk s = .ok qe := by
  obtain ⟨sig, issue, hsig, hs, hj, hid, hv, hi, hn, ⟨hf, he⟩, hm⟩ := h
  unfold openQeIdentity
  simp [hsig, hs, hj, hid, hv, hi, hn, hf, he, hm, chk, bind, Except.bind]

theorem qeIdentityVerify_of {qe : QeIdentity} {rep : Bytes} (h : QeReportOK qe rep) :
    qeIdentityVerify qe rep = .ok () := by
  obtain ⟨ms, m, mm, a, am, l, hms, h1, h2, hm, hmm, h3, ha, ham, h4, h5, hl, hs⟩ := h
  unfold qeIdentityVerify
  simp [hms, h1, h2, hm, hmm, h3, ha, ham, h4, h5, hl, hs, chk, bind, Except.bind]

theorem openTcbInfo_of {L : Lib} {tee : Nat} {ts : Time} {pol : Policy} {pk : Bytes}
    {s : SignedJson} {ti : TcbInfo} (h : TcbInfoLink L tee ts pol pk s ti) :
    openTcbInfo L tee ts pol pk s = .ok ti := by
  obtain ⟨sig, issue, hsig, hs, hj, hid, hv, hi, hn, ⟨hf, he⟩, hm, hw, hb⟩ := h
  unfold openTcbInfo
  simp [hsig, hs, hj, hid, hv, hi, hn, hf, he, hm, hw, hb, chk, bind, Except.bind]

theorem getTcbLevel_of {ti : TcbInfo} {pck : PckInfo} {tdxSvn : Option (List Nat)} {lvl : TcbLevel}
    (h : LevelLink ti pck tdxSvn lvl) : getTcbLevel ti pck.compSvn tdxSvn pck.pcesvn = .ok lvl := by
  obtain ⟨hfind, hst, hmod⟩ := h
  unfold getTcbLevel
  rw [hfind]
  by_cases hid : ti.id = sTDX
  · obtain ⟨t, ht, hm⟩ := hmod hid
    subst ht
    by_cases hver : 1 ≤ t.getD 1 0
    · obtain ⟨m, ml, hm1, hml, hs⟩ := hm hver
      simp only [List.getD_eq_getElem?_getD] at hver hm1 hml
      simp [hst, hid, hver, hm1, hml, hs, chk, bind, Except.bind]
    · simp only [List.getD_eq_getElem?_getD] at hver
      simp [hst, hid, hver, chk, bind, Except.bind]
  · simp [hst, hid, chk, bind, Except.bind]

end OasisProofs.C18
