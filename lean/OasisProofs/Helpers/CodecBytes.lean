import OasisModel.Codec.Proof
/-
Byte-level lemmas for the C16 codec proofs (core Lean only).
-/
namespace OasisProofs.CodecBytes
open OasisModel.Codec

theorem byteAt_lt (d : Bytes) (p : Nat) : byteAt d p < 256 := by
  unfold byteAt; exact UInt8.toNat_lt _

theorem le16At_lt (d : Bytes) (p : Nat) : le16At d p < 65536 := by
  unfold le16At
  have := byteAt_lt d p; have := byteAt_lt d (p + 1); omega

theorem le32At_lt (d : Bytes) (p : Nat) : le32At d p < 4294967296 := by
  unfold le32At
  have := byteAt_lt d p; have := byteAt_lt d (p + 1)
  have := byteAt_lt d (p + 2); have := byteAt_lt d (p + 3); omega

theorem byteAt_cons_zero (x : UInt8) (l : Bytes) : byteAt (x :: l) 0 = x.toNat := by
  simp [byteAt]

theorem byteAt_cons_succ (x : UInt8) (l : Bytes) (p : Nat) : byteAt (x :: l) (p + 1) = byteAt l p := by
  simp [byteAt]

theorem byteAt_drop (d : Bytes) (k p : Nat) : byteAt (d.drop k) p = byteAt d (k + p) := by
  simp [byteAt, List.getD_eq_getElem?_getD, List.getElem?_drop]

theorem le16At_drop (d : Bytes) (k p : Nat) : le16At (d.drop k) p = le16At d (k + p) := by
  simp [le16At, byteAt_drop, Nat.add_assoc]

theorem le32At_drop (d : Bytes) (k p : Nat) : le32At (d.drop k) p = le32At d (k + p) := by
  simp [le32At, byteAt_drop, Nat.add_assoc]

theorem slice_drop (d : Bytes) (k p n : Nat) : slice (d.drop k) p n = slice d (k + p) n := by
  simp [slice, List.drop_drop]

theorem slice_length (d : Bytes) (p n : Nat) (h : p + n ≤ d.length) : (slice d p n).length = n := by
  simp [slice]; omega

theorem slice_length_le (d : Bytes) (p n : Nat) : (slice d p n).length ≤ n := by
  simp [slice]; omega

theorem byteAt_append_left (a b : Bytes) (p : Nat) (h : p < a.length) : byteAt (a ++ b) p = byteAt a p := by
  simp [byteAt, List.getD_eq_getElem?_getD, List.getElem?_append_left h]

theorem byteAt_append_right (a b : Bytes) (p : Nat) : byteAt (a ++ b) (a.length + p) = byteAt b p := by
  simp [byteAt, List.getD_eq_getElem?_getD, List.getElem?_append_right]

theorem slice_append_right (a b : Bytes) (p n : Nat) : slice (a ++ b) (a.length + p) n = slice b p n := by
  simp only [slice, List.drop_length_add_append]

theorem slice_zero_append (a b : Bytes) : slice (a ++ b) 0 a.length = a := by
  simp [slice]

/-- `data[:p+n] = data[:p] ++ data[p:p+n]`. -/
theorem take_add_slice (d : Bytes) (p n : Nat) : d.take (p + n) = d.take p ++ slice d p n := by
  simp [slice, List.take_add]

theorem toNat_ofNat_lt (n : Nat) (h : n < 256) : (UInt8.ofNat n).toNat = n := by
  simp [UInt8.toNat_ofNat']; omega

/-- One byte of the input, as a list. -/
theorem slice_one (d : Bytes) (p : Nat) (h : p < d.length) : slice d p 1 = [UInt8.ofNat (byteAt d p)] := by
  simp only [slice, byteAt]
  rw [List.getD_eq_getElem?_getD, List.getElem?_eq_getElem h]
  simp only [Option.getD_some, UInt8.ofNat_toNat]
  rw [List.drop_eq_getElem_cons h]; simp [List.take]

theorem slice_add (d : Bytes) (p n m : Nat) : slice d p (n + m) = slice d p n ++ slice d (p + n) m := by
  simp [slice, List.take_add, List.drop_drop]

theorem enc16_le16At (d : Bytes) (p : Nat) (h : p + 2 ≤ d.length) : enc16 (le16At d p) = slice d p 2 := by
  have h0 := byteAt_lt d p; have h1 := byteAt_lt d (p + 1)
  rw [show (2 : Nat) = 1 + 1 from rfl, slice_add, slice_one d p (by omega), slice_one d (p + 1) (by omega)]
  simp only [enc16, le16At, List.singleton_append]
  congr 2 <;> congr 1 <;> omega

theorem enc32_le32At (d : Bytes) (p : Nat) (h : p + 4 ≤ d.length) : enc32 (le32At d p) = slice d p 4 := by
  have h0 := byteAt_lt d p; have h1 := byteAt_lt d (p + 1)
  have h2 := byteAt_lt d (p + 2); have h3 := byteAt_lt d (p + 3)
  rw [show (4 : Nat) = 1 + (1 + (1 + 1)) from rfl, slice_add, slice_add, slice_add,
    slice_one d p (by omega), slice_one d (p + 1) (by omega), slice_one d (p + 1 + 1) (by omega),
    slice_one d (p + 1 + 1 + 1) (by omega)]
  simp only [enc32, le32At, List.singleton_append, Nat.add_assoc]
  have e0 : (byteAt d p + (256 * byteAt d (p + 1) + (65536 * byteAt d (p + 2) + 16777216 * byteAt d (p + 3)))) % 256 = byteAt d p := by omega
  have e1 : (byteAt d p + (256 * byteAt d (p + 1) + (65536 * byteAt d (p + 2) + 16777216 * byteAt d (p + 3)))) / 256 % 256 = byteAt d (p + 1) := by omega
  have e2 : (byteAt d p + (256 * byteAt d (p + 1) + (65536 * byteAt d (p + 2) + 16777216 * byteAt d (p + 3)))) / 65536 % 256 = byteAt d (p + 2) := by omega
  have e3 : (byteAt d p + (256 * byteAt d (p + 1) + (65536 * byteAt d (p + 2) + 16777216 * byteAt d (p + 3)))) / 16777216 % 256 = byteAt d (p + 3) := by omega
  rw [e0, e1, e2, e3]

theorem le16At_enc16 (n : Nat) (t : Bytes) : le16At (enc16 n ++ t) 0 = n % 65536 := by
  simp [le16At, enc16, byteAt]
  omega

theorem le32At_enc32 (n : Nat) (t : Bytes) : le32At (enc32 n ++ t) 0 = n % 4294967296 := by
  simp [le32At, enc32, byteAt]
  omega

theorem enc16_length (n : Nat) : (enc16 n).length = 2 := rfl
theorem enc32_length (n : Nat) : (enc32 n).length = 4 := rfl


/-! Reading at the seam of an append: `p = a.length`. -/

theorem byteAt_seam (a b : Bytes) (p q : Nat) (h : p = a.length) : byteAt (a ++ b) (p + q) = byteAt b q := by
  subst h; exact byteAt_append_right a b q

theorem le16At_seam (a b : Bytes) (p : Nat) (h : p = a.length) : le16At (a ++ b) p = le16At b 0 := by
  subst h
  simp only [le16At]
  rw [← Nat.add_zero a.length, byteAt_append_right, Nat.add_assoc, byteAt_append_right]

theorem le32At_seam (a b : Bytes) (p : Nat) (h : p = a.length) : le32At (a ++ b) p = le32At b 0 := by
  subst h
  simp only [le32At]
  rw [← Nat.add_zero a.length]
  simp only [Nat.add_assoc, byteAt_append_right]

theorem slice_seam (a b : Bytes) (p n : Nat) (h : p = a.length) : slice (a ++ b) p n = slice b 0 n := by
  subst h
  rw [← Nat.add_zero a.length, slice_append_right]

theorem slice_prefix (a b : Bytes) (n : Nat) (h : n = a.length) : slice (a ++ b) 0 n = a := by
  subst h; exact slice_zero_append a b

theorem byteAt_seam0 (a b : Bytes) (p : Nat) (h : p = a.length) : byteAt (a ++ b) p = byteAt b 0 := by
  subst h
  rw [← Nat.add_zero a.length, byteAt_append_right]

end OasisProofs.CodecBytes
