import OasisProofs.Helpers.RegistryKeys
/-
C17 helper lemmas, part 8: `InitChain` (genesis entities, runtimes incl. suspended ones, nodes, node
statuses, each through the transaction handlers in genesis mode) establishes / preserves the invariant,
whatever the genesis document contains and wherever it aborts.
-/
namespace OasisProofs.Registry
open OasisModel.Registry

theorem runUntilErr_inv (fs : List (State → State × Res))
    (hf : ∀ f, f ∈ fs → ∀ s, Inv s → Inv (f s).1) (s : State) (h : Inv s) : Inv (runUntilErr fs s).1 := by
  induction fs generalizing s with
  | nil => exact h
  | cons f fs ih =>
    simp only [runUntilErr]
    have h1 := hf f (by simp) s h
    split
    · rename_i s' hfs
      rw [hfs] at h1
      exact ih (fun g hg => hf g (List.mem_cons_of_mem _ hg)) s' h1
    · rename_i s' e hne hfs
      rw [hfs] at h1
      exact h1

theorem suspendRuntime_inv (s : State) (r : RtId) (h : Inv s) : Inv (suspendRuntime s r).1 := by
  unfold suspendRuntime
  split
  · rename_i rt hrt
    split
    · exact h
    · have hid := h.rt_id r rt hrt
      have hsa : ({ rt with suspended := true } : Runtime).stakingAddr = rt.stakingAddr := by
        cases hg : rt.gov <;> simp [Runtime.stakingAddr, hg]
      have hth : rtThr { rt with suspended := true } = rtThr rt := rfl
      refine { toIndexInv := ?_, cl_sound := ?_, cl_compl := ?_, st_nodes := h.st_nodes, nodes_nodup := h.nodes_nodup }
      · constructor
        · exact h.node_id
        · exact h.sub_nodup
        · exact h.km_sound
        · exact h.km_compl
        · exact h.ca_sound
        · exact h.ca_compl
        · exact h.be_sound
        · exact h.be_compl
        · intro r' x hx
          simp only [Map.get_set] at hx
          have := h.rt_id r' x
          grind
        · intro e r' hb
          simp only [Map.get_set]
          have := h.rbe_sound e r' hb
          grind
        · intro r' x hx
          simp only [Map.get_set] at hx
          have := h.rbe_compl r' x
          have := h.rbe_compl r rt hrt
          grind
      · intro a c ths hc
        have := h.cl_sound a c ths hc
        cases c with
        | entity => exact this
        | node id => exact this
        | runtime r' =>
          simp only [Implied, Map.get_set] at this ⊢
          grind
      · intro a c ths hi
        apply h.cl_compl a c ths
        cases c with
        | entity => exact hi
        | node id => exact hi
        | runtime r' =>
          simp only [Implied, Map.get_set] at hi ⊢
          grind
  · exact h

/-- `InitChain` preserves the invariant from any state satisfying it — in particular it establishes it
from the empty state — for every genesis document, also when it aborts part-way. -/
theorem initChain_inv (s : State) (g : Genesis) (h : Inv s) : Inv (initChain .removalsFirst s g).1 := by
  unfold initChain
  apply runUntilErr_inv _ _ s h
  intro f hf s' hs'
  simp only [List.mem_append, List.mem_map, List.mem_flatMap, List.mem_filter] at hf
  rcases hf with ((((⟨se, _, rfl⟩ | ⟨rt, _, rfl⟩) | ⟨rt, _, rfl⟩) | ⟨rt, _, hrt⟩) | ⟨sn, _, rfl⟩) | ⟨p, _, rfl⟩
  · exact regEntity_inv true s' 0 se hs'
  · exact regRuntime_inv true s' (.ent 0) rt hs'
  · exact regRuntime_inv true s' (.ent 0) rt hs'
  · simp only [List.mem_cons, List.not_mem_nil, or_false] at hrt
    rcases hrt with rfl | rfl
    · exact regRuntime_inv true s' (.ent 0) rt hs'
    · exact suspendRuntime_inv s' rt.id hs'
  · exact regNode_inv_rf true s' 0 sn hs'
  · exact hs'.set_status p.1 p.2

end OasisProofs.Registry
