import OasisProofs.Helpers.MkvsTree
import OasisModel.Mkvs.Overlay
/-
Overlays (overlay.go): one `Layer` over *any* inner key-value tree that behaves as an ordered map
`m` behaves as the ordered map `view L m`; by induction a stack of any depth does.
-/
namespace OasisProofs.Mkvs
open OasisModel.Mkvs

/-- Invariant of an overlay: the overlay map is sorted, its keys are dirty, no duplicates in `dirty`. -/
structure LInv (L : Layer) : Prop where
  sorted : SMap.Sorted L.overlay
  sub : ∀ kv ∈ L.overlay, kv.1 ∈ L.dirty
  nodup : L.dirty.Nodup

/-- What the overlay holds, as an ordered map: the state `Commit` would produce in the inner map. -/
def view (L : Layer) (m : List KV) : List KV := applyLogSpec m L.commitOps

/-- Pointwise description of the view. -/
def lview (L : Layer) (m : List KV) (k : Bytes) : Option Bytes :=
  if L.isDirty k then SMap.get L.overlay k else SMap.get m k

theorem isDirty_iff (L : Layer) (k : Bytes) : L.isDirty k = true ↔ k ∈ L.dirty := by
  simp [Layer.isDirty]

theorem smap_get_isSome_iff {m : List KV} (hm : SMap.Sorted m) (k : Bytes) :
    (SMap.get m k).isSome = true ↔ k ∈ m.map (·.1) := by
  constructor
  · intro h
    cases hg : SMap.get m k with
    | none => rw [hg] at h; simp at h
    | some v => exact List.mem_map.2 ⟨(k, v), (smap_get_eq_some hm k v).1 hg, rfl⟩
  · intro h
    obtain ⟨⟨k', v⟩, h1, h2⟩ := List.mem_map.1 h
    simp only at h2; subst h2
    rw [(smap_get_eq_some hm k' v).2 h1]; rfl

theorem sorted_keys_nodup {m : List KV} (hm : SMap.Sorted m) : (m.map (·.1)).Nodup := by
  induction m with
  | nil => simp
  | cons x m ih =>
    obtain ⟨hx, hm'⟩ := smap_sorted_cons.1 hm
    simp only [List.map_cons, List.nodup_cons]
    refine ⟨?_, ih hm'⟩
    intro h
    obtain ⟨y, hy, hxy⟩ := List.mem_map.1 h
    have := hx y hy
    rw [hxy] at this
    exact bytes_lt_irrefl _ this

theorem commitOps_keys (L : Layer) :
    L.commitOps.map (·.1) = L.overlay.map (·.1) ++ L.dirty.filter (fun k => (SMap.get L.overlay k).isNone) := by
  simp [Layer.commitOps, List.map_append, List.map_map, Function.comp_def]

theorem commitOps_nodup {L : Layer} (h : LInv L) : (L.commitOps.map (·.1)).Nodup := by
  rw [commitOps_keys, List.nodup_append]
  refine ⟨sorted_keys_nodup h.sorted, h.nodup.sublist List.filter_sublist, ?_⟩
  intro a ha b hb hab
  subst hab
  have := (List.mem_filter.1 hb).2
  have h2 := (smap_get_isSome_iff h.sorted a).2 ha
  cases hg : SMap.get L.overlay a <;> simp [hg] at this h2

theorem commitOps_lookup {L : Layer} (h : LInv L) (k : Bytes) :
    logLookup L.commitOps k =
      if L.isDirty k then some (SMap.get L.overlay k) else none := by
  have hn := commitOps_nodup h
  by_cases hd : L.isDirty k = true
  · rw [if_pos hd]
    rw [logLookup_mem hn]
    simp only [Layer.commitOps, List.mem_append, List.mem_map, List.mem_filter, Prod.mk.injEq]
    cases hg : SMap.get L.overlay k with
    | none =>
      right
      exact ⟨k, ⟨(isDirty_iff L k).1 hd, by simp [hg]⟩, rfl, rfl⟩
    | some v =>
      left
      exact ⟨(k, v), (smap_get_eq_some h.sorted k v).1 hg, rfl, rfl⟩
  · rw [if_neg hd]
    apply logLookup_none
    rw [commitOps_keys]
    simp only [List.mem_append, List.mem_filter, not_or, not_and]
    have hd' : k ∉ L.dirty := fun hh => hd ((isDirty_iff L k).2 hh)
    refine ⟨?_, fun hh => absurd hh hd'⟩
    intro hh
    obtain ⟨kv, h1, h2⟩ := List.mem_map.1 hh
    exact hd' (h2 ▸ h.sub kv h1)

theorem view_sorted {L : Layer} {m : List KV} (hm : SMap.Sorted m) : SMap.Sorted (view L m) :=
  applyLogSpec_sorted hm _

theorem view_get {L : Layer} (h : LInv L) {m : List KV} (hm : SMap.Sorted m) (k : Bytes) :
    SMap.get (view L m) k = lview L m k := by
  simp only [view, lview]
  rw [applyLogSpec_get hm _ (commitOps_nodup h), commitOps_lookup h]
  by_cases hd : L.isDirty k = true <;> simp [hd]

/-- overlay.go `Get` answers what the view answers. -/
theorem layer_get {L : Layer} (h : LInv L) {m : List KV} (hm : SMap.Sorted m) (k : Bytes) :
    L.get (SMap.get m) k = SMap.get (view L m) k := by
  rw [view_get h hm]; rfl

theorem linv_empty : LInv {} := ⟨List.Pairwise.nil, by intro kv h; simp at h, List.nodup_nil⟩

theorem mem_markDirty (L : Layer) (k k' : Bytes) : k' ∈ L.markDirty k ↔ (k' = k ∨ k' ∈ L.dirty) := by
  simp only [Layer.markDirty]
  split
  · next hh =>
    have : k ∈ L.dirty := by simpa using hh
    constructor
    · exact Or.inr
    · rintro (h | h)
      · rw [h]; exact this
      · exact h
  · simp

theorem nodup_markDirty {L : Layer} (h : L.dirty.Nodup) (k : Bytes) : (L.markDirty k).Nodup := by
  simp only [Layer.markDirty]
  split
  · exact h
  · next hh =>
    have : k ∉ L.dirty := by simpa using hh
    exact List.nodup_cons.2 ⟨this, h⟩

theorem linv_insert {L : Layer} (h : LInv L) (k v : Bytes) : LInv (L.insert k v) := by
  refine ⟨smap_sorted_insert h.sorted k v, ?_, nodup_markDirty h.nodup k⟩
  intro kv hkv
  rw [Layer.insert, mem_markDirty]
  rcases (smap_mem_insert h.sorted k v kv).1 hkv with e | ⟨e, _⟩
  · left; rw [e]
  · right; exact h.sub kv e

theorem linv_remove {L : Layer} (h : LInv L) (k : Bytes) : LInv (L.remove k) := by
  refine ⟨smap_sorted_erase h.sorted k, ?_, nodup_markDirty h.nodup k⟩
  intro kv hkv
  rw [Layer.remove, mem_markDirty]
  right; exact h.sub kv ((smap_mem_erase h.sorted k kv).1 hkv).1

theorem lview_eq (L : Layer) (m : List KV) (k : Bytes) :
    lview L m k = if k ∈ L.dirty then SMap.get L.overlay k else SMap.get m k := by
  simp [lview, Layer.isDirty]

/-- overlay.go `Insert`. -/
theorem layer_insert {L : Layer} (h : LInv L) {m : List KV} (hm : SMap.Sorted m) (k v : Bytes) :
    view (L.insert k v) m = SMap.insert (view L m) k v := by
  apply smap_ext_get (view_sorted hm) (smap_sorted_insert (view_sorted hm) k v)
  intro k'
  rw [view_get (linv_insert h k v) hm, smap_get_insert (view_sorted hm), view_get h hm, lview_eq, lview_eq]
  have e1 : (L.insert k v).overlay = SMap.insert L.overlay k v := rfl
  have e2 : k' ∈ (L.insert k v).dirty ↔ (k' = k ∨ k' ∈ L.dirty) := mem_markDirty L k k'
  rw [e1, smap_get_insert h.sorted]
  by_cases hk : k' = k
  · subst hk
    have : k' ∈ (L.insert k' v).dirty := e2.2 (Or.inl rfl)
    simp [this]
  · by_cases hd : k' ∈ L.dirty <;> simp [hk, hd, e2]

/-- overlay.go `Remove`. -/
theorem layer_remove {L : Layer} (h : LInv L) {m : List KV} (hm : SMap.Sorted m) (k : Bytes) :
    view (L.remove k) m = SMap.erase (view L m) k := by
  apply smap_ext_get (view_sorted hm) (smap_sorted_erase (view_sorted hm) k)
  intro k'
  rw [view_get (linv_remove h k) hm, smap_get_erase (view_sorted hm), view_get h hm, lview_eq, lview_eq]
  have e1 : (L.remove k).overlay = SMap.erase L.overlay k := rfl
  have e2 : k' ∈ (L.remove k).dirty ↔ (k' = k ∨ k' ∈ L.dirty) := mem_markDirty L k k'
  rw [e1, smap_get_erase h.sorted]
  by_cases hk : k' = k
  · subst hk
    have : k' ∈ (L.remove k').dirty := e2.2 (Or.inl rfl)
    simp [this]
  · by_cases hd : k' ∈ L.dirty <;> simp [hk, hd, e2]

/-- overlay.go `RemoveExisting`: previous value returned, the key is gone afterwards; a key that is
not dirty and absent below stays not dirty. -/
theorem layer_removeExisting {L : Layer} (h : LInv L) {m : List KV} (hm : SMap.Sorted m) (k : Bytes) :
    LInv (L.removeExisting (SMap.get m) k).1 ∧
    (L.removeExisting (SMap.get m) k).2 = SMap.get (view L m) k ∧
    view (L.removeExisting (SMap.get m) k).1 m = SMap.erase (view L m) k := by
  by_cases hd : k ∈ L.dirty
  · have hd' : L.isDirty k = true := (isDirty_iff L k).2 hd
    have e : L.removeExisting (SMap.get m) k =
        ({ L with overlay := SMap.erase L.overlay k }, SMap.get L.overlay k) := by
      simp [Layer.removeExisting, hd']
    rw [e]
    have hi : LInv { L with overlay := SMap.erase L.overlay k } :=
      ⟨smap_sorted_erase h.sorted k,
        fun kv hkv => h.sub kv ((smap_mem_erase h.sorted k kv).1 hkv).1, h.nodup⟩
    refine ⟨hi, ?_, ?_⟩
    · rw [view_get h hm, lview_eq]; simp [hd]
    · apply smap_ext_get (view_sorted hm) (smap_sorted_erase (view_sorted hm) k)
      intro k'
      rw [view_get hi hm, smap_get_erase (view_sorted hm), view_get h hm, lview_eq, lview_eq]
      show (if k' ∈ L.dirty then SMap.get (SMap.erase L.overlay k) k' else SMap.get m k') = _
      rw [smap_get_erase h.sorted]
      by_cases hk : k' = k
      · simp [hk, hd]
      · by_cases hd2 : k' ∈ L.dirty <;> simp [hk, hd2]
  · have hd' : ¬ L.isDirty k = true := fun hh => hd ((isDirty_iff L k).1 hh)
    cases hg : SMap.get m k with
    | none =>
      have e : L.removeExisting (SMap.get m) k = (L, none) := by
        simp [Layer.removeExisting, hd', hg]
      rw [e]
      have hv : SMap.get (view L m) k = none := by rw [view_get h hm, lview_eq]; simp [hd, hg]
      exact ⟨h, hv.symm, (smap_erase_absent (view_sorted hm) k hv).symm⟩
    | some w =>
      have e : L.removeExisting (SMap.get m) k = ({ L with dirty := k :: L.dirty }, some w) := by
        simp [Layer.removeExisting, hd', hg]
      rw [e]
      have hi : LInv { L with dirty := k :: L.dirty } :=
        ⟨h.sorted, fun kv hkv => List.mem_cons_of_mem _ (h.sub kv hkv), List.nodup_cons.2 ⟨hd, h.nodup⟩⟩
      refine ⟨hi, ?_, ?_⟩
      · rw [view_get h hm, lview_eq]; simp [hd, hg]
      · apply smap_ext_get (view_sorted hm) (smap_sorted_erase (view_sorted hm) k)
        intro k'
        rw [view_get hi hm, smap_get_erase (view_sorted hm), view_get h hm, lview_eq, lview_eq]
        show (if k' ∈ k :: L.dirty then SMap.get L.overlay k' else SMap.get m k') = _
        by_cases hk : k' = k
        · subst hk
          have : SMap.get L.overlay k' = none := by
            cases ho : SMap.get L.overlay k' with
            | none => rfl
            | some x => exact absurd (h.sub _ ((smap_get_eq_some h.sorted k' x).1 ho)) hd
          simp [this]
        · by_cases hd2 : k' ∈ L.dirty <;> simp [hk, hd2]


/-! ### the merge iterator -/

theorem mem_seekGE (m : List KV) (s : Bytes) (x : KV) : x ∈ SMap.seekGE m s ↔ (x ∈ m ∧ ¬ x.1 < s) := by
  simp [SMap.seekGE]

theorem seekGE_sorted {m : List KV} (hm : SMap.Sorted m) (s : Bytes) : SMap.Sorted (SMap.seekGE m s) :=
  List.Pairwise.sublist List.filter_sublist hm

theorem mem_dropWhile_not {α : Type} (p : α → Bool) (l : List α) (x : α) :
    (x ∈ l ∧ p x = false) ↔ (x ∈ l.dropWhile p ∧ p x = false) := by
  induction l with
  | nil => simp
  | cons a l ih =>
    simp only [List.dropWhile_cons]
    by_cases ha : p a = true
    · simp only [ha, if_true, List.mem_cons, ← ih]
      constructor
      · rintro ⟨h | h, hx⟩
        · subst h; rw [ha] at hx; simp at hx
        · exact ⟨h, hx⟩
      · rintro ⟨h, hx⟩; exact ⟨Or.inr h, hx⟩
    · simp [ha]

theorem dropWhile_head_not {α : Type} (p : α → Bool) (l : List α) (a : α) (t : List α)
    (h : l.dropWhile p = a :: t) : p a = false := by
  induction l with
  | nil => simp at h
  | cons b l ih =>
    simp only [List.dropWhile_cons] at h
    by_cases hb : p b = true
    · simp only [hb, if_true] at h; exact ih h
    · simp only [hb, Bool.false_eq_true, if_false] at h
      injection h with h1 _; subst h1; simpa using hb

/-- Specification of the merge iterator: with enough fuel, for a sorted inner item list and a
sorted overlay item list whose keys are all dirty, the yielded list is sorted and consists of the
non-dirty inner items and the overlay items. -/
theorem mergeIter_spec (dirty : List Bytes) :
    ∀ (fuel : Nat) (is os : List KV), is.length + os.length < fuel →
      SMap.Sorted is → SMap.Sorted os → (∀ o ∈ os, o.1 ∈ dirty) →
      SMap.Sorted (Layer.mergeIter dirty fuel is os) ∧
      ∀ x, x ∈ Layer.mergeIter dirty fuel is os ↔ ((x ∈ is ∧ x.1 ∉ dirty) ∨ x ∈ os) := by
  intro fuel
  induction fuel with
  | zero => intro is os h; omega
  | succ fuel ih =>
    intro is os hlen his hos hd
    simp only [Layer.mergeIter]
    generalize hpd : (fun kv : KV => dirty.contains kv.1) = p
    have hp : ∀ x : KV, p x = false ↔ x.1 ∉ dirty := by intro x; rw [← hpd]; simp
    have hmem : ∀ x, (x ∈ is ∧ x.1 ∉ dirty) ↔ (x ∈ is.dropWhile p ∧ x.1 ∉ dirty) := by
      intro x; rw [← hp]; exact mem_dropWhile_not p is x
    have hsub : (is.dropWhile p).Sublist is := List.dropWhile_sublist p
    have hsorted : SMap.Sorted (is.dropWhile p) := List.Pairwise.sublist hsub his
    have hle : (is.dropWhile p).length ≤ is.length := hsub.length_le
    cases hdw : is.dropWhile p with
    | nil =>
      cases os with
      | nil =>
        refine ⟨List.Pairwise.nil, ?_⟩
        intro x; rw [hmem, hdw]; simp
      | cons o os' =>
        obtain ⟨ho, hos'⟩ := smap_sorted_cons.1 hos
        obtain ⟨i1, i2⟩ := ih [] os' (by simp at hlen ⊢; omega) List.Pairwise.nil hos'
          (fun x hx => hd x (List.mem_cons_of_mem _ hx))
        refine ⟨smap_sorted_cons.2 ⟨?_, i1⟩, ?_⟩
        · intro b hb
          rcases (i2 b).1 hb with ⟨h, _⟩ | h
          · simp at h
          · exact ho b h
        · intro x
          rw [hmem, hdw]
          simp only [List.mem_cons, i2, List.not_mem_nil, false_and, false_or]
    | cons i is' =>
      rw [hdw] at hsorted hle
      obtain ⟨hi, his'⟩ := smap_sorted_cons.1 hsorted
      have hind : i.1 ∉ dirty := (hp i).1 (dropWhile_head_not p is i is' hdw)
      cases os with
      | nil =>
        obtain ⟨i1, i2⟩ := ih is' [] (by simp at hlen hle ⊢; omega) his' List.Pairwise.nil
          (fun x hx => by simp at hx)
        refine ⟨smap_sorted_cons.2 ⟨?_, i1⟩, ?_⟩
        · intro b hb
          rcases (i2 b).1 hb with ⟨h, _⟩ | h
          · exact hi b h
          · simp at h
        · intro x
          rw [hmem, hdw]
          simp only [List.mem_cons, i2, List.not_mem_nil, or_false]
          constructor
          · rintro (h | ⟨h, h2⟩)
            · subst h; exact ⟨Or.inl rfl, hind⟩
            · exact ⟨Or.inr h, h2⟩
          · rintro ⟨h | h, h2⟩
            · exact Or.inl h
            · exact Or.inr ⟨h, h2⟩
      | cons o os' =>
        obtain ⟨ho, hos'⟩ := smap_sorted_cons.1 hos
        have hod : o.1 ∈ dirty := hd o (by simp)
        have hne : i.1 ≠ o.1 := fun hh => hind (hh ▸ hod)
        simp only
        by_cases hlt : i.1 < o.1
        · rw [if_pos hlt]
          obtain ⟨i1, i2⟩ := ih is' (o :: os') (by simp at hlen hle ⊢; omega) his' hos hd
          refine ⟨smap_sorted_cons.2 ⟨?_, i1⟩, ?_⟩
          · intro b hb
            rcases (i2 b).1 hb with ⟨h, _⟩ | h
            · exact hi b h
            · rcases List.mem_cons.1 h with h | h
              · rw [h]; exact hlt
              · exact bytes_lt_trans hlt (ho b h)
          · intro x
            rw [hmem, hdw]
            simp only [List.mem_cons, i2]
            constructor
            · rintro (h | ⟨h, h2⟩ | h)
              · subst h; exact Or.inl ⟨Or.inl rfl, hind⟩
              · exact Or.inl ⟨Or.inr h, h2⟩
              · exact Or.inr h
            · rintro (⟨h | h, h2⟩ | h)
              · exact Or.inl h
              · exact Or.inr (Or.inl ⟨h, h2⟩)
              · exact Or.inr (Or.inr h)
        · rw [if_neg hlt, if_neg hne]
          have hgt : o.1 < i.1 := by
            rcases bytes_lt_trichotomy i.1 o.1 with h | h | h
            · exact absurd h hlt
            · exact absurd h hne
            · exact h
          obtain ⟨i1, i2⟩ := ih (i :: is') os' (by simp at hlen hle ⊢; omega) hsorted hos'
            (fun x hx => hd x (List.mem_cons_of_mem _ hx))
          refine ⟨smap_sorted_cons.2 ⟨?_, i1⟩, ?_⟩
          · intro b hb
            rcases (i2 b).1 hb with ⟨h, _⟩ | h
            · rcases List.mem_cons.1 h with h | h
              · rw [h]; exact hgt
              · exact bytes_lt_trans hgt (hi b h)
            · exact ho b h
          · intro x
            rw [hmem, hdw]
            simp only [List.mem_cons, i2]
            constructor
            · rintro (h | ⟨h, h2⟩ | h)
              · exact Or.inr (Or.inl h)
              · exact Or.inl ⟨h, h2⟩
              · exact Or.inr (Or.inr h)
            · rintro (⟨h, h2⟩ | h | h)
              · exact Or.inr (Or.inl ⟨h, h2⟩)
              · exact Or.inl h
              · exact Or.inr (Or.inr h)

/-- overlay.go iterator: after `Seek s` the merge iterator yields exactly the view's items ≥ s in
ascending order, given that the inner iterator yields the inner map's items ≥ s. -/
theorem layer_iter {L : Layer} (h : LInv L) {m : List KV} (hm : SMap.Sorted m) (s : Bytes) :
    L.iter (SMap.seekGE m s) s = SMap.seekGE (view L m) s := by
  have hspec := mergeIter_spec L.dirty ((SMap.seekGE m s).length + (SMap.seekGE L.overlay s).length + 1)
    (SMap.seekGE m s) (SMap.seekGE L.overlay s) (by omega) (seekGE_sorted hm s) (seekGE_sorted h.sorted s)
    (fun o ho => h.sub o ((mem_seekGE _ _ _).1 ho).1)
  apply smap_sorted_ext hspec.1 (seekGE_sorted (view_sorted hm) s)
  intro x
  obtain ⟨k, v⟩ := x
  show (k, v) ∈ Layer.mergeIter _ _ _ _ ↔ _
  rw [hspec.2, mem_seekGE, mem_seekGE, mem_seekGE, ← smap_get_eq_some (view_sorted hm),
    view_get h hm, lview_eq]
  by_cases hd : k ∈ L.dirty
  · simp only [hd, not_true_eq_false, and_false, false_or, if_true,
      smap_get_eq_some h.sorted]
  · simp only [hd, not_false_eq_true, and_true, if_false, smap_get_eq_some hm]
    constructor
    · rintro (⟨h1, h2⟩ | ⟨h1, _⟩)
      · exact ⟨h1, h2⟩
      · exact absurd (h.sub _ h1) hd
    · rintro ⟨h1, h2⟩; exact Or.inl ⟨h1, h2⟩


/-! ### stacks of overlays over the tree object -/

/-- The ordered map a handle shows: the tree's contents seen through the overlays above it. -/
def sview (b : TreeState) : List Layer → List KV
  | [] => b.root.toList
  | L :: rest => view L (sview b rest)

structure SInv (old : List KV) (b : TreeState) (ls : List Layer) : Prop where
  base : TInv old b
  layers : ∀ L ∈ ls, LInv L

theorem sview_sorted {old : List KV} {b : TreeState} {ls : List Layer} (h : SInv old b ls) :
    SMap.Sorted (sview b ls) := by
  cases ls with
  | nil => exact wf_sorted h.base.wf
  | cons L rest =>
    have : SMap.Sorted (sview b rest) := by
      have hr : SInv old b rest := ⟨h.base, fun L' hL' => h.layers L' (List.mem_cons_of_mem _ hL')⟩
      exact sview_sorted hr
    exact view_sorted this
termination_by ls.length

theorem sinv_tail {old : List KV} {b : TreeState} {L : Layer} {rest : List Layer}
    (h : SInv old b (L :: rest)) : SInv old b rest :=
  ⟨h.base, fun L' hL' => h.layers L' (List.mem_cons_of_mem _ hL')⟩

theorem stack_get {old : List KV} {b : TreeState} {ls : List Layer} (h : SInv old b ls) :
    ∀ k : Bytes, Stack.get b ls k = SMap.get (sview b ls) k := by
  induction ls with
  | nil => intro k; exact tinv_get h.base k
  | cons L rest ih =>
    intro k
    have hr := sinv_tail h
    have hfun : Stack.get b rest = SMap.get (sview b rest) := funext (ih hr)
    show L.get (Stack.get b rest) k = _
    rw [hfun]
    exact layer_get (h.layers L (by simp)) (sview_sorted hr) k

theorem stack_iter {old : List KV} {b : TreeState} {ls : List Layer} (h : SInv old b ls) (s : Bytes) :
    Stack.iter b ls s = SMap.seekGE (sview b ls) s := by
  induction ls with
  | nil => rfl
  | cons L rest ih =>
    have hr := sinv_tail h
    show L.iter (Stack.iter b rest s) s = _
    rw [ih hr]
    exact layer_iter (h.layers L (by simp)) (sview_sorted hr) s

theorem stack_insert {old : List KV} {b : TreeState} {ls : List Layer} (h : SInv old b ls) (k v : Bytes) :
    SInv old (Stack.insert b ls k v).1 (Stack.insert b ls k v).2 ∧
    sview (Stack.insert b ls k v).1 (Stack.insert b ls k v).2 = SMap.insert (sview b ls) k v := by
  cases ls with
  | nil =>
    have := tinv_insert h.base k v
    exact ⟨⟨this.1, by intro L hL; simp [Stack.insert] at hL⟩, this.2⟩
  | cons L rest =>
    have hr := sinv_tail h
    have hL := h.layers L (by simp)
    refine ⟨⟨h.base, ?_⟩, layer_insert hL (sview_sorted hr) k v⟩
    intro L' hL'
    simp only [Stack.insert, List.mem_cons] at hL'
    rcases hL' with e | e
    · rw [e]; exact linv_insert hL k v
    · exact h.layers L' (List.mem_cons_of_mem _ e)

theorem stack_remove {old : List KV} {b : TreeState} {ls : List Layer} (h : SInv old b ls) (k : Bytes) :
    SInv old (Stack.remove b ls k).1 (Stack.remove b ls k).2 ∧
    sview (Stack.remove b ls k).1 (Stack.remove b ls k).2 = SMap.erase (sview b ls) k := by
  cases ls with
  | nil =>
    have := tinv_removeExisting h.base k
    exact ⟨⟨this.1, by intro L hL; simp [Stack.remove] at hL⟩, this.2.1⟩
  | cons L rest =>
    have hr := sinv_tail h
    have hL := h.layers L (by simp)
    refine ⟨⟨h.base, ?_⟩, layer_remove hL (sview_sorted hr) k⟩
    intro L' hL'
    simp only [Stack.remove, List.mem_cons] at hL'
    rcases hL' with e | e
    · rw [e]; exact linv_remove hL k
    · exact h.layers L' (List.mem_cons_of_mem _ e)

theorem stack_removeExisting {old : List KV} {b : TreeState} {ls : List Layer} (h : SInv old b ls)
    (k : Bytes) :
    SInv old (Stack.removeExisting b ls k).1.1 (Stack.removeExisting b ls k).1.2 ∧
    sview (Stack.removeExisting b ls k).1.1 (Stack.removeExisting b ls k).1.2 = SMap.erase (sview b ls) k ∧
    (Stack.removeExisting b ls k).2 = SMap.get (sview b ls) k := by
  cases ls with
  | nil =>
    have := tinv_removeExisting h.base k
    exact ⟨⟨this.1, by intro L hL; simp [Stack.removeExisting] at hL⟩, this.2.1, this.2.2⟩
  | cons L rest =>
    have hr := sinv_tail h
    have hL := h.layers L (by simp)
    have hfun : Stack.get b rest = SMap.get (sview b rest) := funext (stack_get hr)
    have := layer_removeExisting hL (sview_sorted hr) k
    simp only [Stack.removeExisting, hfun]
    refine ⟨⟨h.base, ?_⟩, this.2.2, this.2.1⟩
    intro L' hL'
    simp only [List.mem_cons] at hL'
    rcases hL' with e | e
    · rw [e]; exact this.1
    · exact h.layers L' (List.mem_cons_of_mem _ e)

/-- Applying a sequence of inserts/removes to a handle acts on its view as `applyLogSpec`. -/
theorem stack_applyOps {old : List KV} (ops : List LogEntry) :
    ∀ {b : TreeState} {ls : List Layer}, SInv old b ls →
    SInv old (Stack.applyOps b ls ops).1 (Stack.applyOps b ls ops).2 ∧
    sview (Stack.applyOps b ls ops).1 (Stack.applyOps b ls ops).2 = applyLogSpec (sview b ls) ops := by
  induction ops with
  | nil => intro b ls h; exact ⟨h, rfl⟩
  | cons e ops ih =>
    intro b ls h
    obtain ⟨k, v⟩ := e
    cases v with
    | none =>
      have h1 := stack_remove h k
      have h2 := ih h1.1
      have e : Stack.applyOps b ls ((k, none) :: ops) =
          Stack.applyOps (Stack.remove b ls k).1 (Stack.remove b ls k).2 ops := rfl
      rw [e]
      refine ⟨h2.1, ?_⟩
      rw [h2.2, h1.2]; rfl
    | some v =>
      have h1 := stack_insert h k v
      have h2 := ih h1.1
      have e : Stack.applyOps b ls ((k, some v) :: ops) =
          Stack.applyOps (Stack.insert b ls k v).1 (Stack.insert b ls k v).2 ops := rfl
      rw [e]
      refine ⟨h2.1, ?_⟩
      rw [h2.2, h1.2]; rfl

/-- `Commit` of the outermost overlay: the handle below then shows what the overlay showed. -/
theorem stack_commitTop {old : List KV} {b : TreeState} {L : Layer} {rest : List Layer}
    (h : SInv old b (L :: rest)) :
    SInv old (Stack.commitTop b (L :: rest)).1 (Stack.commitTop b (L :: rest)).2 ∧
    sview (Stack.commitTop b (L :: rest)).1 (Stack.commitTop b (L :: rest)).2 = sview b (L :: rest) := by
  have := stack_applyOps (old := old) L.commitOps (sinv_tail h)
  exact ⟨this.1, this.2⟩

/-- A fresh overlay shows the handle below unchanged. -/
theorem view_empty (m : List KV) : view {} m = m := rfl


/-! ### all handles of a stack at once -/

/-- The maps shown by every handle of the stack, outermost first, the tree last. -/
def views (b : TreeState) : List Layer → List (List KV)
  | [] => [b.root.toList]
  | L :: rest => sview b (L :: rest) :: views b rest

theorem views_head (b : TreeState) (ls : List Layer) : (views b ls).head? = some (sview b ls) := by
  cases ls <;> rfl

theorem views_eq (b : TreeState) (ls : List Layer) : views b ls = sview b ls :: (views b ls).tail := by
  cases ls <;> rfl

theorem views_tail_insert (b : TreeState) (ls : List Layer) (k v : Bytes) :
    (views (Stack.insert b ls k v).1 (Stack.insert b ls k v).2).tail = (views b ls).tail := by
  cases ls <;> rfl

theorem views_tail_remove (b : TreeState) (ls : List Layer) (k : Bytes) :
    (views (Stack.remove b ls k).1 (Stack.remove b ls k).2).tail = (views b ls).tail := by
  cases ls <;> rfl

theorem views_tail_removeExisting (b : TreeState) (ls : List Layer) (k : Bytes) :
    (views (Stack.removeExisting b ls k).1.1 (Stack.removeExisting b ls k).1.2).tail = (views b ls).tail := by
  cases ls <;> rfl

theorem views_tail_applyOps (ops : List LogEntry) : ∀ (b : TreeState) (ls : List Layer),
    (views (Stack.applyOps b ls ops).1 (Stack.applyOps b ls ops).2).tail = (views b ls).tail := by
  induction ops with
  | nil => intro b ls; rfl
  | cons e ops ih =>
    intro b ls
    obtain ⟨k, v⟩ := e
    cases v with
    | none =>
      have e : Stack.applyOps b ls ((k, none) :: ops) =
          Stack.applyOps (Stack.remove b ls k).1 (Stack.remove b ls k).2 ops := rfl
      rw [e, ih, views_tail_remove]
    | some v =>
      have e : Stack.applyOps b ls ((k, some v) :: ops) =
          Stack.applyOps (Stack.insert b ls k v).1 (Stack.insert b ls k v).2 ops := rfl
      rw [e, ih, views_tail_insert]

end OasisProofs.Mkvs
