import OasisModel.Mkvs.Iter
import OasisProofs.Helpers.MkvsIterMachine
import OasisProofs.Helpers.MkvsChunkCover
/-
Bridge between the iterator with a proof builder over hash-annotated tries (`OasisModel/Mkvs/Chunk.lean`,
`doNext`/`itSeek`/`itNext`) and the plain iterator machine of `OasisModel/Mkvs/Iter.lean` (whose ordering
correctness `iterate_eq_seekGE` is the trie builder's theorem): same items, same resume stacks.
-/
namespace OasisProofs.MkvsIter
open OasisModel.Mkvs OasisProofs.MkvsChunk

def mapSt : VState → Iter.VState
  | .before => .before
  | .at => .at
  | .atLeft => .atLeft
  | .after => .after

def eraseAtom (a : Atom) : Iter.Atom := ⟨a.t.erase, a.path, mapSt a.st⟩

/-- What an `ItOut` says, without the builder. -/
def eraseOut (o : ItOut) : Option (KV × List Iter.Atom) :=
  o.found.map (fun kv => (kv, o.pos.map eraseAtom))

theorem toBytesLen_eq (n : Nat) : Iter.toBytesLen n = toBytesLen n := by
  simp only [Iter.toBytesLen, toBytesLen]
  split <;> omega

theorem appendBit_eq (k : Bytes) (n : Nat) (v : Bool) : Iter.appendBit k n v = keyAppendBit k n v := by
  simp only [Iter.appendBit, keyAppendBit, toBytesLen_eq]

theorem pushAtom_eraseOut (self : Atom) (o : ItOut) :
    Iter.pushAtom (eraseAtom self) (eraseOut o) = eraseOut (pushOut self o) := by
  cases h : o.found with
  | none => simp [eraseOut, pushOut, h, Iter.pushAtom]
  | some kv => simp [eraseOut, pushOut, h, Iter.pushAtom]

theorem eraseOut_isSome (o : ItOut) : (eraseOut o).isSome = o.found.isSome := by
  cases h : o.found <;> simp [eraseOut, h]

theorem leafStage_bridge (self : Atom) (lf : Option (Bytes × Bytes)) (hlf : Bytes) (newPath : Bits) (key : Bytes)
    (b : Builder) :
    Iter.viaLeaf (eraseAtom self) lf newPath key = eraseOut (leafStage self lf hlf newPath.length newPath key b) := by
  unfold Iter.viaLeaf leafStage
  have hc : (Iter.keyNotLonger newPath key || Iter.takeFirst newPath key) =
      (keyNotLongerB newPath.length key || takeFirstB newPath.length newPath key) := rfl
  rw [hc]
  by_cases hq : (keyNotLongerB newPath.length key || takeFirstB newPath.length newPath key) = true
  · rw [if_pos hq, if_pos hq]
    rcases lf with _ | ⟨k, v⟩
    · rfl
    · simp only
      by_cases hk : k < key
      · rw [if_pos hk, if_pos hk]; rfl
      · rw [if_neg hk, if_neg hk]; rfl
  · rw [if_neg hq, if_neg hq]; rfl

theorem fromAt_bridge (self : Atom) (newPath : Bits) (key : Bytes) (goL goR : Bytes → Builder → ItOut)
    (goL' goR' : Bytes → Option (KV × List Iter.Atom))
    (hL : ∀ k b, goL' k = eraseOut (goL k b)) (hR : ∀ k b, goR' k = eraseOut (goR k b)) (b : Builder) :
    Iter.fromAt (eraseAtom self) newPath key goL' goR' =
      eraseOut (fromAtStage self newPath.length newPath key goL goR b) := by
  unfold Iter.fromAt fromAtStage
  have htf : Iter.takeFirst newPath key = takeFirstB newPath.length newPath key := rfl
  have hkn : Iter.keyNotLonger newPath key = keyNotLongerB newPath.length key := rfl
  simp only [htf, hkn, appendBit_eq]
  generalize (if keyNotLongerB newPath.length key = true then keyAppendBit key newPath.length false else key) = key'
  have hgb : Iter.getBit key' newPath.length = keyGetBit key' newPath.length := rfl
  rw [hgb]
  generalize (!keyGetBit key' newPath.length || takeFirstB newPath.length newPath key) = goLeft
  have hatL : ({ eraseAtom self with st := Iter.VState.atLeft } : Iter.Atom) = eraseAtom { self with st := .atLeft } := rfl
  have hatR : ({ eraseAtom self with st := Iter.VState.after } : Iter.Atom) = eraseAtom { self with st := .after } := rfl
  rw [hatL, hatR]
  cases goLeft with
  | true =>
    simp only [if_true]
    rw [hL key' b, pushAtom_eraseOut]
    cases hf : (pushOut { self with st := .atLeft } (goL key' b)).found with
    | some kv =>
      simp only [eraseOut, hf, Option.map_some, Option.isSome_some, if_true]
    | none =>
      simp only [eraseOut, hf, Option.map_none, Option.isSome_none, Bool.false_eq_true, if_false]
      have : Iter.advanceRight key' newPath.length = keyAdvanceRight key' newPath.length := rfl
      rw [this, hR _ (pushOut { self with st := .atLeft } (goL key' b)).b, pushAtom_eraseOut]
      rfl
  | false =>
    simp only [Bool.false_eq_true, if_false, Option.isSome_none]
    rw [hR key' b, pushAtom_eraseOut]

/-- **Bridge for `doNext`**: the item and the resume stack are those of the plain machine. -/
theorem doNext_bridge (ver : Nat) (t : HTrie) : ∀ (d : Nat) (path : Bits) (key : Bytes) (st : VState) (b : Builder),
    d = path.length →
    Iter.doNext t.erase path key (mapSt st) = eraseOut (doNext ver t d path key st b) := by
  induction t with
  | nil => intro d path key st b _; rfl
  | leaf h k v =>
    intro d path key st b _
    simp only [HTrie.erase, Iter.doNext, doNext]
    split <;> simp [eraseOut]
  | node h lab lf hlf l r ihl ihr =>
    intro d path key st b hd
    subst hd
    have hlen : path.length + lab.length = (path ++ lab).length := List.length_append.symm
    have hself : (⟨Trie.node lab lf l.erase r.erase, path, mapSt st⟩ : Iter.Atom) =
        eraseAtom ⟨HTrie.node h lab lf hlf l r, path.length, path, st⟩ := rfl
    have hL : ∀ k b, Iter.doNext l.erase (path ++ lab) k Iter.VState.before =
        eraseOut (doNext ver l (path ++ lab).length (path ++ lab) k .before b) :=
      fun k b => ihl _ _ k .before b rfl
    have hR : ∀ k b, Iter.doNext r.erase (path ++ lab) k Iter.VState.before =
        eraseOut (doNext ver r (path ++ lab).length (path ++ lab) k .before b) :=
      fun k b => ihr _ _ k .before b rfl
    simp only [HTrie.erase, Iter.doNext, doNext, hlen, hself]
    cases st with
    | before =>
      simp only [mapSt]
      rw [leafStage_bridge _ lf hlf (path ++ lab) key (b.includeNode ver h lab lf)]
      cases hf : (leafStage ⟨HTrie.node h lab lf hlf l r, path.length, path, .before⟩ lf hlf (path ++ lab).length
          (path ++ lab) key (b.includeNode ver h lab lf)).found with
      | some kv => simp only [eraseOut, hf, Option.map_some, Option.isSome_some, if_true]
      | none =>
        simp only [eraseOut, hf, Option.map_none, Option.isSome_none, Bool.false_eq_true, if_false]
        exact fromAt_bridge _ _ _ _ _ _ _ hL hR _
    | «at» =>
      simp only [mapSt]
      exact fromAt_bridge _ _ _ _ _ _ _ hL hR _
    | atLeft =>
      simp only [mapSt]
      rw [hR _ (b.includeNode ver h lab lf)]
      exact pushAtom_eraseOut ⟨HTrie.node h lab lf hlf l r, path.length, path, .after⟩ _
    | after => rfl

/-! ### the resume stack is the chain of ancestors of the found item, all included -/

/-- `ChainCov incl anc t as kv`: following the atoms `as` (root-most first) from the node `t` (whose
ancestors are `anc`) leads to the item `kv`; every node on the way, with its ancestors, is included. -/
inductive ChainCov (incl : List Bytes) : List HTrie → HTrie → List Atom → (Bytes × Bytes) → Prop
  | leaf {anc : List HTrie} {h k v : Bytes} : Covered incl (anc, .leaf h k v) →
      ChainCov incl anc (.leaf h k v) [] (k, v)
  | own {anc : List HTrie} {h : Bytes} {lab : Bits} {kv : Bytes × Bytes} {hlf : Bytes} {l r : HTrie} {a : Atom} :
      Covered incl (anc, .node h lab (some kv) hlf l r) → a.t = .node h lab (some kv) hlf l r → a.st = .at →
      hlf ∈ incl → ChainCov incl anc (.node h lab (some kv) hlf l r) [a] kv
  | left {anc : List HTrie} {h : Bytes} {lab : Bits} {lf : Option (Bytes × Bytes)} {hlf : Bytes} {l r : HTrie}
      {a : Atom} {as : List Atom} {kv : Bytes × Bytes} :
      Covered incl (anc, .node h lab lf hlf l r) → a.t = .node h lab lf hlf l r → a.st = .atLeft →
      ChainCov incl (anc ++ [.node h lab lf hlf l r]) l as kv →
      ChainCov incl anc (.node h lab lf hlf l r) (a :: as) kv
  | right {anc : List HTrie} {h : Bytes} {lab : Bits} {lf : Option (Bytes × Bytes)} {hlf : Bytes} {l r : HTrie}
      {a : Atom} {as : List Atom} {kv : Bytes × Bytes} :
      Covered incl (anc, .node h lab lf hlf l r) → a.t = .node h lab lf hlf l r → a.st = .after →
      ChainCov incl (anc ++ [.node h lab lf hlf l r]) r as kv →
      ChainCov incl anc (.node h lab lf hlf l r) (a :: as) kv

theorem chainCov_mono {incl incl' : List Bytes} (h : ∀ x ∈ incl, x ∈ incl')
    {as : List Atom} {anc : List HTrie} {t : HTrie} {kv : Bytes × Bytes}
    (hc : ChainCov incl anc t as kv) : ChainCov incl' anc t as kv := by
  induction hc with
  | leaf hcv => exact .leaf (covered_mono h hcv)
  | own hcv h1 h2 h3 => exact .own (covered_mono h hcv) h1 h2 (h _ h3)
  | left hcv h1 h2 _ ih => exact .left (covered_mono h hcv) h1 h2 ih
  | right hcv h1 h2 _ ih => exact .right (covered_mono h hcv) h1 h2 ih

/-- What `doNext` guarantees about inclusion and the resume stack. -/
def DNPost (anc : List HTrie) (t : HTrie) (b : Builder) (o : ItOut) : Prop :=
  (∀ x ∈ b.incl, x ∈ o.b.incl) ∧ (∀ a ∈ o.pos, a.d = a.path.length) ∧
  ∀ kv, o.found = some kv → ChainCov o.b.incl anc t o.pos.reverse kv

theorem covered_self {incl : List Bytes} {anc : List HTrie} {t : HTrie} (ha : ∀ x ∈ anc, nh x ∈ incl)
    (ht : nh t ∈ incl) : Covered incl (anc, t) := ⟨ht, ha⟩

/-- `pushOut` extends the chain by the parent's atom. -/
theorem pushOut_post {anc : List HTrie} {hh : Bytes} {lab : Bits} {lf : Option (Bytes × Bytes)} {hlf : Bytes}
    {l r : HTrie} {child : HTrie} {d : Nat} {path : Bits} {st0 st : VState} {b0 b : Builder} {o : ItOut}
    (hst : (st = .atLeft ∧ child = l) ∨ (st = .after ∧ child = r)) (hd : d = path.length)
    (hb0 : ∀ x ∈ b0.incl, x ∈ b.incl)
    (hanc : ∀ x ∈ anc, nh x ∈ b.incl) (hself : hh ∈ b.incl)
    (ho : DNPost (anc ++ [HTrie.node hh lab lf hlf l r]) child b o) :
    DNPost anc (HTrie.node hh lab lf hlf l r) b0
      (pushOut { (⟨HTrie.node hh lab lf hlf l r, d, path, st0⟩ : Atom) with st := st } o) := by
  obtain ⟨o1, o2, o3⟩ := ho
  unfold pushOut
  cases hf : o.found with
  | none =>
    simp only [Option.isSome_none, Bool.false_eq_true, if_false]
    exact ⟨fun x hx => o1 x (hb0 x hx), fun a ha => by simp at ha, fun kv hkv => by simp at hkv⟩
  | some kv0 =>
    simp only [Option.isSome_some, if_true]
    refine ⟨fun x hx => o1 x (hb0 x hx), ?_, ?_⟩
    · intro a ha
      rcases List.mem_append.1 ha with ha | ha
      · exact o2 a ha
      · simp only [List.mem_singleton] at ha; subst ha; exact hd
    · intro kv hkv
      simp only [Option.some.injEq] at hkv
      subst hkv
      have hc := o3 kv0 hf
      simp only [List.reverse_append, List.reverse_cons, List.reverse_nil, List.nil_append, List.cons_append]
      have hcov : Covered o.b.incl (anc, HTrie.node hh lab lf hlf l r) :=
        covered_self (fun x hx => o1 _ (hanc x hx)) (o1 _ hself)
      rcases hst with ⟨rfl, rfl⟩ | ⟨rfl, rfl⟩
      · exact .left hcov rfl rfl hc
      · exact .right hcov rfl rfl hc

theorem dnPost_none {anc : List HTrie} {t : HTrie} {b0 b : Builder} (h : ∀ x ∈ b0.incl, x ∈ b.incl) :
    DNPost anc t b0 ⟨none, [], b⟩ :=
  ⟨h, fun a ha => by simp at ha, fun kv hkv => by simp at hkv⟩

theorem leafStage_post {anc : List HTrie} {hh : Bytes} {lab : Bits} {lf : Option (Bytes × Bytes)} {hlf : Bytes}
    {l r : HTrie} {d : Nat} {path : Bits} {st0 : VState} (nbd : Nat) (newPath : Bits) (key : Bytes) {b0 b : Builder}
    (hd : d = path.length) (hb0 : ∀ x ∈ b0.incl, x ∈ b.incl)
    (hanc : ∀ x ∈ anc, nh x ∈ b.incl) (hself : hh ∈ b.incl) :
    DNPost anc (HTrie.node hh lab lf hlf l r) b0
      (leafStage ⟨HTrie.node hh lab lf hlf l r, d, path, st0⟩ lf hlf nbd newPath key b) := by
  unfold leafStage
  split
  · rcases lf with _ | ⟨k, v⟩
    · exact dnPost_none hb0
    · simp only
      have hm : ∀ x ∈ b.incl, x ∈ (b.includeLeaf hlf k v).incl := OasisProofs.MkvsProof.include_mono _ _ _
      split
      · exact dnPost_none (fun x hx => hm x (hb0 x hx))
      · refine ⟨fun x hx => hm x (hb0 x hx), ?_, ?_⟩
        · intro a ha; simp only [List.mem_singleton] at ha; subst ha; exact hd
        · intro kv hkv
          simp only [Option.some.injEq] at hkv
          subst hkv
          exact .own (covered_self (fun x hx => hm _ (hanc x hx)) (hm _ hself)) rfl rfl
            (OasisProofs.MkvsProof.mem_include_self _ _ _)
  · exact dnPost_none hb0

theorem fromAtStage_post {anc : List HTrie} {hh : Bytes} {lab : Bits} {lf : Option (Bytes × Bytes)} {hlf : Bytes}
    {l r : HTrie} {d : Nat} {path : Bits} {st0 : VState} (nbd : Nat) (newPath : Bits) (key : Bytes)
    (goL goR : Bytes → Builder → ItOut) {b0 b : Builder}
    (hd : d = path.length) (hb0 : ∀ x ∈ b0.incl, x ∈ b.incl)
    (hanc : ∀ x ∈ anc, nh x ∈ b.incl) (hself : hh ∈ b.incl)
    (hL : ∀ k b', (∀ x ∈ anc ++ [HTrie.node hh lab lf hlf l r], nh x ∈ b'.incl) →
      DNPost (anc ++ [HTrie.node hh lab lf hlf l r]) l b' (goL k b'))
    (hR : ∀ k b', (∀ x ∈ anc ++ [HTrie.node hh lab lf hlf l r], nh x ∈ b'.incl) →
      DNPost (anc ++ [HTrie.node hh lab lf hlf l r]) r b' (goR k b')) :
    DNPost anc (HTrie.node hh lab lf hlf l r) b0
      (fromAtStage ⟨HTrie.node hh lab lf hlf l r, d, path, st0⟩ nbd newPath key goL goR b) := by
  have hanc' : ∀ b' : Builder, (∀ x ∈ b.incl, x ∈ b'.incl) →
      ∀ x ∈ anc ++ [HTrie.node hh lab lf hlf l r], nh x ∈ b'.incl := by
    intro b' hm x hx
    rcases List.mem_append.1 hx with hx | hx
    · exact hm _ (hanc x hx)
    · simp only [List.mem_singleton] at hx; subst hx; exact hm _ hself
  unfold fromAtStage
  simp only
  generalize (if keyNotLongerB nbd key = true then keyAppendBit key nbd false else key) = key'
  generalize (!keyGetBit key' nbd || takeFirstB nbd newPath key) = goLeft
  cases goLeft with
  | true =>
    simp only [if_true]
    have hpL := pushOut_post (st0 := st0) (st := .atLeft) (child := l) (Or.inl ⟨rfl, rfl⟩) hd hb0 hanc hself
      (hL key' b (hanc' b (fun x hx => hx)))
    split
    · exact hpL
    · next hnf =>
      -- nothing on the left: continue on the right with the builder the left call left behind
      have hmono : ∀ x ∈ b.incl, x ∈ (pushOut { (⟨HTrie.node hh lab lf hlf l r, d, path, st0⟩ : Atom) with st := .atLeft }
          (goL key' b)).b.incl := by
        have := (hL key' b (hanc' b (fun x hx => hx))).1
        unfold pushOut
        split <;> exact this
      exact pushOut_post (st0 := st0) (st := .after) (child := r) (Or.inr ⟨rfl, rfl⟩) hd
        (fun x hx => hmono x (hb0 x hx)) (fun x hx => hmono _ (hanc x hx)) (hmono _ hself)
        (hR _ _ (hanc' _ hmono))
  | false =>
    simp only [Bool.false_eq_true, if_false, Option.isSome_none]
    exact pushOut_post (st0 := st0) (st := .after) (child := r) (Or.inr ⟨rfl, rfl⟩) hd hb0 hanc hself
      (hR key' b (hanc' b (fun x hx => hx)))

/-- **Inclusion**: whenever `doNext` finds an item, the nodes from the start node down to the item, with
their ancestors, are all in the proof builder, and the resume stack is that chain. -/
theorem doNext_chain (ver : Nat) (t : HTrie) : ∀ (anc : List HTrie) (d : Nat) (path : Bits) (key : Bytes)
    (st : VState) (b : Builder), d = path.length → (∀ x ∈ anc, nh x ∈ b.incl) →
    DNPost anc t b (doNext ver t d path key st b) := by
  induction t with
  | nil => intro anc d path key st b _ _; exact dnPost_none (fun x hx => hx)
  | leaf h k v =>
    intro anc d path key st b _ hanc
    simp only [doNext]
    have hm : ∀ x ∈ b.incl, x ∈ (b.includeLeaf h k v).incl := OasisProofs.MkvsProof.include_mono _ _ _
    split
    · exact dnPost_none hm
    · refine ⟨hm, fun a ha => by simp at ha, ?_⟩
      intro kv hkv
      simp only [Option.some.injEq] at hkv
      subst hkv
      exact .leaf (covered_self (fun x hx => hm _ (hanc x hx)) (OasisProofs.MkvsProof.mem_include_self _ _ _))
  | node h lab lf hlf l r ihl ihr =>
    intro anc d path key st b hd hanc
    have hm : ∀ x ∈ b.incl, x ∈ (b.includeNode ver h lab lf).incl := OasisProofs.MkvsProof.include_mono _ _ _
    have hself : h ∈ (b.includeNode ver h lab lf).incl := OasisProofs.MkvsProof.mem_include_self _ _ _
    have hanc1 : ∀ x ∈ anc, nh x ∈ (b.includeNode ver h lab lf).incl := fun x hx => hm _ (hanc x hx)
    have hdl : d + lab.length = (path ++ lab).length := by rw [List.length_append, hd]
    have hL : ∀ k b', (∀ x ∈ anc ++ [HTrie.node h lab lf hlf l r], nh x ∈ b'.incl) →
        DNPost (anc ++ [HTrie.node h lab lf hlf l r]) l b' (doNext ver l (d + lab.length) (path ++ lab) k .before b') :=
      fun k b' hb' => ihl _ _ _ k .before b' hdl hb'
    have hR : ∀ k b', (∀ x ∈ anc ++ [HTrie.node h lab lf hlf l r], nh x ∈ b'.incl) →
        DNPost (anc ++ [HTrie.node h lab lf hlf l r]) r b' (doNext ver r (d + lab.length) (path ++ lab) k .before b') :=
      fun k b' hb' => ihr _ _ _ k .before b' hdl hb'
    simp only [doNext]
    cases st with
    | before =>
      simp only
      have hleaf := leafStage_post (anc := anc) (lab := lab) (l := l) (r := r) (st0 := .before) (d + lab.length) (path ++ lab) key
        (lf := lf) (hlf := hlf) hd hm hanc1 hself
      split
      · exact hleaf
      · have hmono := hleaf.1
        refine fromAtStage_post _ _ _ _ _ hd hmono ?_ ?_ hL hR
        · intro x hx
          have := (leafStage_post (anc := anc) (lab := lab) (l := l) (r := r) (st0 := .before) (d + lab.length) (path ++ lab) key
            (lf := lf) (hlf := hlf) (b0 := b.includeNode ver h lab lf) hd (fun x hx => hx) hanc1 hself).1
          exact this _ (hanc1 x hx)
        · have := (leafStage_post (anc := anc) (lab := lab) (l := l) (r := r) (st0 := .before) (d + lab.length) (path ++ lab) key
            (lf := lf) (hlf := hlf) (b0 := b.includeNode ver h lab lf) hd (fun x hx => hx) hanc1 hself).1
          exact this _ hself
    | «at» => exact fromAtStage_post _ _ _ _ _ hd hm hanc1 hself hL hR
    | atLeft =>
      have hanc' : ∀ x ∈ anc ++ [HTrie.node h lab lf hlf l r], nh x ∈ (b.includeNode ver h lab lf).incl := by
        intro x hx
        rcases List.mem_append.1 hx with hx | hx
        · exact hanc1 x hx
        · simp only [List.mem_singleton] at hx; subst hx; exact hself
      exact pushOut_post (st0 := .atLeft) (st := .after) (child := r) (Or.inr ⟨rfl, rfl⟩) hd hm hanc1 hself
        (hR _ _ hanc')
    | after => exact dnPost_none hm

/-! ### descending along a resume stack; `Next` -/

/-- Following the atoms (root-most first) from `t` arrives at the node `t'` with ancestors `anc'`. -/
inductive DescCov (incl : List Bytes) : List HTrie → HTrie → List Atom → List HTrie → HTrie → Prop
  | nil {anc : List HTrie} {t : HTrie} : DescCov incl anc t [] anc t
  | left {anc : List HTrie} {h : Bytes} {lab : Bits} {lf : Option (Bytes × Bytes)} {hlf : Bytes} {l r : HTrie}
      {a : Atom} {as : List Atom} {anc' : List HTrie} {t' : HTrie} :
      Covered incl (anc, .node h lab lf hlf l r) → a.t = .node h lab lf hlf l r → a.st = .atLeft →
      DescCov incl (anc ++ [.node h lab lf hlf l r]) l as anc' t' →
      DescCov incl anc (.node h lab lf hlf l r) (a :: as) anc' t'
  | right {anc : List HTrie} {h : Bytes} {lab : Bits} {lf : Option (Bytes × Bytes)} {hlf : Bytes} {l r : HTrie}
      {a : Atom} {as : List Atom} {anc' : List HTrie} {t' : HTrie} :
      Covered incl (anc, .node h lab lf hlf l r) → a.t = .node h lab lf hlf l r → a.st = .after →
      DescCov incl (anc ++ [.node h lab lf hlf l r]) r as anc' t' →
      DescCov incl anc (.node h lab lf hlf l r) (a :: as) anc' t'

theorem descCov_mono {incl incl' : List Bytes} (h : ∀ x ∈ incl, x ∈ incl')
    {as : List Atom} {anc anc' : List HTrie} {t t' : HTrie}
    (hc : DescCov incl anc t as anc' t') : DescCov incl' anc t as anc' t' := by
  induction hc with
  | nil => exact .nil
  | left hcv h1 h2 _ ih => exact .left (covered_mono h hcv) h1 h2 ih
  | right hcv h1 h2 _ ih => exact .right (covered_mono h hcv) h1 h2 ih

theorem chainCov_covered {incl : List Bytes} {as : List Atom} {anc : List HTrie} {t : HTrie} {kv : Bytes × Bytes}
    (hc : ChainCov incl anc t as kv) : Covered incl (anc, t) := by
  cases hc with
  | leaf h => exact h
  | own h _ _ _ => exact h
  | left h _ _ _ => exact h
  | right h _ _ _ => exact h

/-- Split a chain at its deepest atom. -/
theorem chainCov_split {incl : List Bytes} : ∀ (as : List Atom) (a : Atom) (anc : List HTrie) (t : HTrie)
    (kv : Bytes × Bytes), ChainCov incl anc t (as ++ [a]) kv →
    ∃ anc', DescCov incl anc t as anc' a.t ∧ Covered incl (anc', a.t) := by
  intro as
  induction as with
  | nil =>
    intro a anc t kv hc
    simp only [List.nil_append] at hc
    have hcov := chainCov_covered hc
    cases hc with
    | own _ h1 _ _ => exact ⟨anc, by rw [h1]; exact .nil, by rw [h1]; exact hcov⟩
    | left _ h1 _ _ => exact ⟨anc, by rw [h1]; exact .nil, by rw [h1]; exact hcov⟩
    | right _ h1 _ _ => exact ⟨anc, by rw [h1]; exact .nil, by rw [h1]; exact hcov⟩
  | cons a0 as ih =>
    intro a anc t kv hc
    simp only [List.cons_append] at hc
    generalize hl : as ++ [a] = tl at hc
    cases hc with
    | own _ _ _ _ => simp at hl
    | left hcv h1 h2 hrec =>
      subst hl
      obtain ⟨anc', hd, hc'⟩ := ih a _ _ kv hrec
      exact ⟨anc', .left hcv h1 h2 hd, hc'⟩
    | right hcv h1 h2 hrec =>
      subst hl
      obtain ⟨anc', hd, hc'⟩ := ih a _ _ kv hrec
      exact ⟨anc', .right hcv h1 h2 hd, hc'⟩

/-- Split a descent at its deepest atom. -/
theorem descCov_split {incl : List Bytes} : ∀ (as : List Atom) (a : Atom) (anc : List HTrie) (t : HTrie)
    (anc' : List HTrie) (t' : HTrie), DescCov incl anc t (as ++ [a]) anc' t' →
    ∃ anc'', DescCov incl anc t as anc'' a.t ∧ Covered incl (anc'', a.t) := by
  intro as
  induction as with
  | nil =>
    intro a anc t anc' t' hc
    simp only [List.nil_append] at hc
    cases hc with
    | left hcv h1 _ _ => exact ⟨anc, by rw [h1]; exact .nil, by rw [h1]; exact hcv⟩
    | right hcv h1 _ _ => exact ⟨anc, by rw [h1]; exact .nil, by rw [h1]; exact hcv⟩
  | cons a0 as ih =>
    intro a anc t anc' t' hc
    simp only [List.cons_append] at hc
    cases hc with
    | left hcv h1 h2 hrec =>
      obtain ⟨anc'', hd, hc'⟩ := ih a _ _ _ _ hrec
      exact ⟨anc'', .left hcv h1 h2 hd, hc'⟩
    | right hcv h1 h2 hrec =>
      obtain ⟨anc'', hd, hc'⟩ := ih a _ _ _ _ hrec
      exact ⟨anc'', .right hcv h1 h2 hd, hc'⟩

/-- Continue a descent with a chain. -/
theorem descCov_chain {incl : List Bytes} {as bs : List Atom} {anc anc' : List HTrie} {t t' : HTrie}
    {kv : Bytes × Bytes} (hd : DescCov incl anc t as anc' t') (hc : ChainCov incl anc' t' bs kv) :
    ChainCov incl anc t (as ++ bs) kv := by
  induction hd with
  | nil => exact hc
  | left hcv h1 h2 _ ih => exact .left hcv h1 h2 (ih hc)
  | right hcv h1 h2 _ ih => exact .right hcv h1 h2 (ih hc)

/-- The loop of `Next` re-establishes the chain for the next item (or yields nothing), and only adds to
the builder. -/
theorem itNextLoop_chain (ver : Nat) (root : HTrie) (key : Bytes) : ∀ (pos : List Atom) (b : Builder),
    (∀ a ∈ pos, a.d = a.path.length) →
    (∀ a rest, pos = a :: rest → ∃ anc', DescCov b.incl [] root rest.reverse anc' a.t ∧ Covered b.incl (anc', a.t)) →
    (∀ x ∈ b.incl, x ∈ (itNextLoop ver key pos b).b.incl) ∧
    (∀ a ∈ (itNextLoop ver key pos b).pos, a.d = a.path.length) ∧
    ∀ y, (itNextLoop ver key pos b).cur = some y →
      ChainCov (itNextLoop ver key pos b).b.incl [] root (itNextLoop ver key pos b).pos.reverse y := by
  intro pos
  induction pos with
  | nil =>
    intro b _ _
    exact ⟨fun x hx => hx, fun a ha => by simp [itNextLoop] at ha, fun y hy => by simp [itNextLoop] at hy⟩
  | cons a rest ih =>
    intro b hd hdesc
    obtain ⟨anc', hdc, hcov⟩ := hdesc a rest rfl
    have hpost := doNext_chain ver a.t anc' a.d a.path key a.st b (hd a List.mem_cons_self) hcov.2
    obtain ⟨p1, p2, p3⟩ := hpost
    simp only [itNextLoop]
    split
    · next hfound =>
      refine ⟨p1, ?_, ?_⟩
      · intro x hx
        rcases List.mem_append.1 hx with hx | hx
        · exact p2 x hx
        · exact hd x (List.mem_cons_of_mem _ hx)
      · intro y hy
        simp only [List.reverse_append]
        exact descCov_chain (descCov_mono p1 hdc) (p3 y hy)
    · have hrec := ih (doNext ver a.t a.d a.path key a.st b).b (fun x hx => hd x (List.mem_cons_of_mem _ hx)) (by
        intro a1 rest1 he
        subst he
        simp only [List.reverse_cons] at hdc
        obtain ⟨anc'', h1, h2⟩ := descCov_split _ _ _ _ _ _ hdc
        exact ⟨anc'', descCov_mono p1 h1, covered_mono p1 h2⟩)
      exact ⟨fun x hx => hrec.1 _ (p1 x hx), hrec.2.1, hrec.2.2⟩

/-! ### the iterator state between calls -/

open OasisProofs.Mkvs in
/-- The iterator (with builder) stands on item `x`: the plain machine's stack invariant holds for the
erased stack, and the chain from the root to `x` is included in the builder. -/
structure ItOK (root : HTrie) (it : Iter) (x : KV) : Prop where
  cur : it.cur = some x
  stack : StackOK x (it.pos.map eraseAtom)
  atomD : ∀ a ∈ it.pos, a.d = a.path.length
  chain : ChainCov it.b.incl [] root it.pos.reverse x

/-- Items the iterator will still yield. -/
def itRem (it : Iter) : List KV := OasisProofs.Mkvs.remaining (it.pos.map eraseAtom)

theorem itNextLoop_bridge (ver : Nat) (key : Bytes) : ∀ (pos : List Atom) (b : Builder),
    (∀ a ∈ pos, a.d = a.path.length) →
    Iter.nextLoop key (pos.map eraseAtom) =
      (itNextLoop ver key pos b).cur.map (fun kv => (kv, (itNextLoop ver key pos b).pos.map eraseAtom)) := by
  intro pos
  induction pos with
  | nil => intro b _; rfl
  | cons a rest ih =>
    intro b hd
    simp only [List.map_cons, Iter.nextLoop, itNextLoop]
    have hb := doNext_bridge ver a.t a.d a.path key a.st b (hd a List.mem_cons_self)
    have he : (eraseAtom a).t = a.t.erase ∧ (eraseAtom a).path = a.path ∧ (eraseAtom a).st = mapSt a.st := ⟨rfl, rfl, rfl⟩
    rw [he.1, he.2.1, he.2.2, hb]
    cases hf : (doNext ver a.t a.d a.path key a.st b).found with
    | none =>
      simp only [eraseOut, hf, Option.map_none, Option.isSome_none, Bool.false_eq_true, if_false]
      exact ih _ (fun x hx => hd x (List.mem_cons_of_mem _ hx))
    | some kv =>
      simp only [eraseOut, hf, Option.map_some, Option.isSome_some, if_true, List.map_append]

open OasisProofs.Mkvs in
/-- **Seek**: the iterator stands on the first item with key ≥ the seek key (or is invalid if there is
none), the items it will still yield are the ones after it, and the chain to the item is included. -/
theorem itSeek_spec (ver : Nat) (root : HTrie) (hwf : WF root.erase) (key : Bytes) (b : Builder) :
    (∀ x ∈ b.incl, x ∈ (itSeek ver root key b).b.incl) ∧
    match firstGE key root.erase.toList with
    | [] => (itSeek ver root key b).cur = none
    | x :: rest => ItOK root (itSeek ver root key b) x ∧ itRem (itSeek ver root key b) = rest := by
  have hsorted := wf_sorted hwf
  have hspec := doNext_spec root.erase [] key .before hwf (fun h => absurd rfl h) (fun h => by cases h)
  have hbr := doNext_bridge ver root 0 [] key .before b rfl
  have hch := doNext_chain ver root [] 0 [] key .before b rfl (by intro x hx; simp at hx)
  simp only [mapSt] at hbr
  rw [hbr] at hspec
  simp only [Post, part] at hspec
  refine ⟨hch.1, ?_⟩
  cases hf : firstGE key root.erase.toList with
  | nil =>
    rw [hf] at hspec
    simp only [itSeek]
    cases hc : (doNext ver root 0 [] key .before b).found with
    | none => rfl
    | some kv => simp [eraseOut, hc] at hspec
  | cons x rest =>
    rw [hf] at hspec
    obtain ⟨pos, hres, hrem, hgood, hmono⟩ := hspec
    simp only
    cases hc : (doNext ver root 0 [] key .before b).found with
    | none => simp [eraseOut, hc] at hres
    | some kv =>
      simp only [eraseOut, hc, Option.map_some, Option.some.injEq, Prod.mk.injEq] at hres
      obtain ⟨rfl, hpos⟩ := hres
      have hsub : (kv :: rest).Sublist root.erase.toList := by rw [← hf]; exact firstGE_sublist key _
      refine ⟨⟨hc, ?_, hch.2.1, hch.2.2 kv hc⟩, ?_⟩
      · show StackOK kv ((doNext ver root 0 [] key .before b).pos.map eraseAtom)
        rw [hpos]
        exact ⟨by rw [hrem]; exact List.Pairwise.sublist hsub hsorted,
          fun a ha => atomGood_mono (Nat.zero_le _) (hgood a ha), hmono⟩
      · show remaining ((doNext ver root 0 [] key .before b).pos.map eraseAtom) = rest
        rw [hpos, hrem]

open OasisProofs.Mkvs in
/-- **Next**: the iterator moves to the next item in order (or becomes invalid after the last one); the
chain to the new item is included; the builder only grows. -/
theorem itNext_spec (ver : Nat) (root : HTrie) (it : Iter) (x : KV) (h : ItOK root it x) :
    (∀ z ∈ it.b.incl, z ∈ (itNext ver it).b.incl) ∧
    match itRem it with
    | [] => (itNext ver it).cur = none
    | y :: ys => ItOK root (itNext ver it) y ∧ itRem (itNext ver it) = ys := by
  have hnl := nextLoop_spec x (it.pos.map eraseAtom) h.stack
  have hbr := itNextLoop_bridge ver x.1 it.pos it.b h.atomD
  have hch := itNextLoop_chain ver root x.1 it.pos it.b h.atomD (by
    intro a rest he
    have hc := h.chain
    rw [he, List.reverse_cons] at hc
    exact chainCov_split _ _ _ _ _ hc)
  have hnext : itNext ver it = itNextLoop ver x.1 it.pos it.b := by
    simp only [itNext, h.cur]
  rw [hnext]
  refine ⟨hch.1, ?_⟩
  unfold itRem
  cases hr : remaining (it.pos.map eraseAtom) with
  | nil =>
    rw [hr] at hnl
    simp only at hnl ⊢
    rw [hbr] at hnl
    cases hc : (itNextLoop ver x.1 it.pos it.b).cur with
    | none => rfl
    | some kv => simp [hc] at hnl
  | cons y ys =>
    rw [hr] at hnl
    simp only at hnl ⊢
    obtain ⟨pos', hres, hrem, hok⟩ := hnl
    rw [hbr] at hres
    cases hc : (itNextLoop ver x.1 it.pos it.b).cur with
    | none => simp [hc] at hres
    | some kv =>
      simp only [hc, Option.map_some, Option.some.injEq, Prod.mk.injEq] at hres
      obtain ⟨rfl, hpos⟩ := hres
      refine ⟨⟨hc, by rw [hpos]; exact hok, hch.2.1, hch.2.2 kv hc⟩, by rw [hpos]; exact hrem⟩

end OasisProofs.MkvsIter
