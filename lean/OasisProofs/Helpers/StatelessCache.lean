import OasisModel.Stateless.Cache
/-
Helper lemmas for `OasisProofs/Props/C19Cache.lean`: the LRU model (`Lru.get`/`Lru.put` keep every
entry they do not write; well-formedness), the specification predicates of the cache invariant, and
the one-call preservation lemmas for `stateRoot`, `resultsHash` and the entry points.
-/
namespace OasisProofs.StatelessCache
open OasisModel.Stateless (Bytes Header Lib BlockResults ResultsMeta RV verifyTransactions
  stateRootFromBlockTxs verifyBlockResultsPure)
open OasisModel.Stateless.Cache

variable {Sig Ev P : Type}

/-! ### LRU -/

/-- Every entry of the cache satisfies `p key value`. -/
def LruAll (p : Nat → Bytes → Prop) (c : Lru) : Prop := ∀ k v, (k, v) ∈ c.entries → p k v

theorem lookup_mem {l : List (Nat × Bytes)} {k : Nat} {v : Bytes} (h : l.lookup k = some v) : (k, v) ∈ l := by
  induction l with
  | nil => simp at h
  | cons x xs ih =>
    obtain ⟨a, b⟩ := x
    by_cases e : k = a
    · subst e
      simp only [List.lookup_cons_self, Option.some.injEq] at h
      subst h; exact List.mem_cons_self
    · have hb : (k == a) = false := by simpa using e
      rw [List.lookup_cons, hb] at h
      exact List.mem_cons_of_mem _ (ih h)

theorem peek_mem {c : Lru} {k : Nat} {v : Bytes} (h : c.peek k = some v) : (k, v) ∈ c.entries :=
  lookup_mem h

theorem without_mem {c : Lru} {k : Nat} {x : Nat × Bytes} (h : x ∈ c.without k) : x ∈ c.entries :=
  (List.mem_filter.1 h).1

theorem get_fst (c : Lru) (k : Nat) : (c.get k).1 = c.peek k := by
  unfold Lru.get; split <;> simp_all

theorem get_mem {c : Lru} {k : Nat} {x : Nat × Bytes} (h : x ∈ (c.get k).2.entries) : x ∈ c.entries := by
  unfold Lru.get at h
  split at h
  · exact h
  · rename_i v hv
    simp only [List.mem_cons] at h
    rcases h with rfl | h
    · exact peek_mem hv
    · exact without_mem h

theorem get_cap (c : Lru) (k : Nat) : (c.get k).2.cap = c.cap := by
  unfold Lru.get; split <;> rfl

theorem put_mem {c : Lru} {k : Nat} {v : Bytes} {x : Nat × Bytes} (h : x ∈ (c.put k v).entries) :
    x = (k, v) ∨ x ∈ c.entries := by
  unfold Lru.put at h
  simp only [List.mem_cons] at h
  rcases h with rfl | h
  · exact Or.inl rfl
  · right
    split at h
    · exact without_mem (List.mem_of_mem_take h)
    · exact without_mem h

theorem put_peek (c : Lru) (k : Nat) (v : Bytes) : (c.put k v).peek k = some v := by
  simp [Lru.put, Lru.peek]

theorem lookup_filter_ne (l : List (Nat × Bytes)) (k k' : Nat) (h : k' ≠ k) :
    (l.filter (fun e => e.1 != k)).lookup k' = l.lookup k' := by
  induction l with
  | nil => rfl
  | cons x xs ih =>
    obtain ⟨a, b⟩ := x
    by_cases e : a = k
    · subst e
      have h1 : (k' == a) = false := by simpa using h
      simp [List.lookup_cons, h1, ih]
    · have h2 : (a != k) = true := by simpa using e
      simp only [List.filter_cons, h2, if_true, List.lookup_cons, ih]

/-- `Get` does not change what is stored (it only reorders). -/
theorem get_peek (c : Lru) (k k' : Nat) : (c.get k).2.peek k' = c.peek k' := by
  unfold Lru.get
  split
  · rfl
  · rename_i v hv
    by_cases e : k' = k
    · subst e; simpa [Lru.peek] using hv.symm
    · have h1 : (k' == k) = false := by simpa using e
      simp only [Lru.peek, Lru.without, List.lookup_cons, h1]
      exact lookup_filter_ne _ _ _ e

theorem lruAll_new (p : Nat → Bytes → Prop) (n : Nat) : LruAll p (Lru.new n) := by
  intro k v h; simp [Lru.new] at h

theorem lruAll_get {p : Nat → Bytes → Prop} {c : Lru} (h : LruAll p c) (k : Nat) : LruAll p (c.get k).2 :=
  fun a b hab => h a b (get_mem hab)

theorem lruAll_put {p : Nat → Bytes → Prop} {c : Lru} (h : LruAll p c) (k : Nat) (v : Bytes) (hv : p k v) :
    LruAll p (c.put k v) := by
  intro a b hab
  rcases put_mem hab with e | e
  · cases e; exact hv
  · exact h a b e

/-- Well-formedness of the LRU model: one entry per key (the Go map `c.entries`) and at most `cap`
entries (`c.size ≤ c.capacity`). -/
def LruWF (c : Lru) : Prop := (c.entries.map Prod.fst).Nodup ∧ (0 < c.cap → c.entries.length ≤ c.cap)

theorem nodup_filter_keys {l : List (Nat × Bytes)} (h : (l.map Prod.fst).Nodup) (q : Nat × Bytes → Bool) :
    ((l.filter q).map Prod.fst).Nodup :=
  (List.filter_sublist.map Prod.fst).nodup h

theorem key_not_mem_without (c : Lru) (k : Nat) : k ∉ (c.without k).map Prod.fst := by
  intro h
  obtain ⟨x, hx, rfl⟩ := List.mem_map.1 h
  have := (List.mem_filter.1 hx).2
  simp at this

theorem length_without_lt {c : Lru} {k : Nat} {v : Bytes} (h : (k, v) ∈ c.entries) :
    (c.without k).length < c.entries.length := by
  unfold Lru.without
  apply List.length_filter_lt_length_iff_exists.2
  exact ⟨(k, v), h, by simp⟩

theorem lruWF_new (n : Nat) : LruWF (Lru.new n) := by
  simp [LruWF, Lru.new]

theorem lruWF_get {c : Lru} (h : LruWF c) (k : Nat) : LruWF (c.get k).2 := by
  unfold Lru.get
  split
  · exact h
  · rename_i v hv
    refine ⟨?_, ?_⟩
    · simp only [List.map_cons, List.nodup_cons]
      exact ⟨key_not_mem_without c k, nodup_filter_keys h.1 _⟩
    · intro hc
      have := length_without_lt (peek_mem hv)
      have := h.2 hc
      simp only [List.length_cons]
      omega

theorem lruWF_put {c : Lru} (h : LruWF c) (k : Nat) (v : Bytes) : LruWF (c.put k v) := by
  unfold Lru.put
  refine ⟨?_, ?_⟩
  · simp only [List.map_cons, List.nodup_cons]
    split
    · refine ⟨fun hm => key_not_mem_without c k ?_, ?_⟩
      · exact ((List.take_sublist _ _).map Prod.fst).subset hm
      · exact ((List.take_sublist _ _).map Prod.fst).nodup (nodup_filter_keys h.1 _)
    · exact ⟨key_not_mem_without c k, nodup_filter_keys h.1 _⟩
  · intro hc
    have hc' : 0 < c.cap := hc
    simp only [gt_iff_lt, hc', if_true, List.length_cons, List.length_take]
    omega

/-! ### Specification predicates -/

/-- What the code binds a state root filed under height `k` to: the app hash of the verified header
`k+1` (core.go:817, :834), or — only when that header could not be obtained — the state root carried
by the last transaction of a list that hashes to the verified data hash of header `k`
(core.go:824, :842, :853). -/
def StateRootBound (L : Lib Sig Ev P) (H : Bytes → Bytes) (ch : Chain) (k : Nat) (v : Bytes) : Prop :=
  v = (ch.hdr (k + 1)).appHash ∨
  ∃ txs, verifyTransactions H txs (ch.hdr k) = true ∧ stateRootFromBlockTxs L txs = some v

/-- The results hash of block `k` is the `LastResultsHash` of the verified header `k+1`. -/
def ResultsHashBound (ch : Chain) (k : Nat) (v : Bytes) : Prop := v = (ch.hdr (k + 1)).lastResultsHash

/-- The hypothesis-free invariant. -/
def CoherentG (L : Lib Sig Ev P) (H : Bytes → Bytes) (ch : Chain) (c : Core) : Prop :=
  LruAll (StateRootBound L H ch) c.stateRootCache ∧ LruAll (ResultsHashBound ch) c.resultsHashCache

/-- **The invariant of the task**: every entry `stateRootCache[h]` is `(hdr (h+1)).appHash`, every
entry `resultsHashCache[h]` is `(hdr (h+1)).lastResultsHash`. -/
def Coherent (ch : Chain) (c : Core) : Prop :=
  (∀ h v, (h, v) ∈ c.stateRootCache.entries → v = (ch.hdr (h + 1)).appHash) ∧
  (∀ h v, (h, v) ∈ c.resultsHashCache.entries → v = (ch.hdr (h + 1)).lastResultsHash)

/-- The chain is consistent with its metadata transactions: the state root carried by the last
transaction of (any list hashing to the data hash of) block `h` is the app hash of header `h+1`.
On the real chain this is what the validators check before voting for block `h` (the proposer's
`consensus.Meta` transaction must carry the state root they computed themselves). -/
def MetaConsistent (L : Lib Sig Ev P) (H : Bytes → Bytes) (ch : Chain) : Prop :=
  ∀ h txs r, verifyTransactions H txs (ch.hdr h) = true → stateRootFromBlockTxs L txs = some r →
    r = (ch.hdr (h + 1)).appHash

theorem coherent_of_general {L : Lib Sig Ev P} {H : Bytes → Bytes} {ch : Chain} {c : Core}
    (mc : MetaConsistent L H ch) (h : CoherentG L H ch c) : Coherent ch c := by
  refine ⟨fun k v hkv => ?_, fun k v hkv => h.2 k v hkv⟩
  rcases h.1 k v hkv with e | ⟨txs, h1, h2⟩
  · exact e
  · exact mc k txs v h1 h2

theorem general_of_coherent {L : Lib Sig Ev P} {H : Bytes → Bytes} {ch : Chain} {c : Core}
    (h : Coherent ch c) : CoherentG L H ch c :=
  ⟨fun k v hkv => Or.inl (h.1 k v hkv), fun k v hkv => h.2 k v hkv⟩

theorem coherentG_new (L : Lib Sig Ev P) (H : Bytes → Bytes) (ch : Chain) : CoherentG L H ch Core.new :=
  ⟨lruAll_new _ _, lruAll_new _ _⟩

/-! ### resolveHeight -/

/-- A resolved height resolves to itself (the second `resolveHeight` inside
`GetTransactions`, core.go:842 → :319 → :768, sees the height `StateRoot` already resolved). -/
theorem resolve_idem {e : Env} {req h : Nat} (hr : resolveHeight e req = some h) : resolveHeight e h = some h := by
  by_cases h0 : h = 0
  · subst h0
    by_cases r0 : req = 0
    · subst r0; exact hr
    · simp [resolveHeight, r0] at hr
  · simp [resolveHeight, h0]

theorem resolve_nonzero {e : Env} {h : Nat} (h0 : h ≠ 0) : resolveHeight e h = some h := by
  simp [resolveHeight, h0]

/-! ### state root: one call -/

theorem fetchFromLightBlock_eq {ch : Chain} {e : Env} {k : Nat} {v : Bytes}
    (h : fetchStateRootFromLightBlock ch e k = some v) :
    e.avail k = true ∧ v = (ch.hdr k).appHash ∧ v.length = 32 := by
  unfold fetchStateRootFromLightBlock at h
  split at h
  · rename_i ha
    simp only at h
    split at h
    · rename_i hl
      simp only [Option.some.injEq] at h
      subst h; exact ⟨ha, rfl, hl⟩
    · cases h
  · cases h

theorem getTransactions_verified {H : Bytes → Bytes} {ch : Chain} {e : Env} {k : Nat} {txs : List Bytes}
    (hk : resolveHeight e k = some k) (h : getTransactions H ch e k = some txs) :
    e.avail k = true ∧ e.txs k = some txs ∧ verifyTransactions H txs (ch.hdr k) = true := by
  unfold getTransactions lightBlock at h
  rw [hk] at h
  simp only at h
  by_cases ha : e.avail k = true
  · simp only [ha, if_true] at h
    cases ht : e.txs k with
    | none => simp [ht] at h
    | some t =>
      simp only [ht] at h
      by_cases hv : verifyTransactions H t (ch.hdr k) = true
      · simp only [hv, if_true, Option.some.injEq] at h
        subst h; exact ⟨ha, rfl, hv⟩
      · simp [hv] at h
  · simp [ha] at h

theorem fetchStateRoot_bound {L : Lib Sig Ev P} {H : Bytes → Bytes} {ch : Chain} {e : Env} {k : Nat} {v : Bytes}
    (hk : resolveHeight e k = some k) (h : fetchStateRoot L H ch e k = some v) : StateRootBound L H ch k v := by
  unfold fetchStateRoot at h
  split at h
  · rename_i r hr
    simp only [Option.some.injEq] at h; subst h
    exact Or.inl (fetchFromLightBlock_eq hr).2.1
  · unfold fetchStateRootFromMetaTx at h
    split at h
    · cases h
    · rename_i txs ht
      exact Or.inr ⟨txs, (getTransactions_verified hk ht).2.2, h⟩

/-- One `stateRoot` call: the answer is bound to the height, the invariant is kept, the results
cache is not touched. -/
theorem stateRoot_step {L : Lib Sig Ev P} {H : Bytes → Bytes} {ch : Chain} {e : Env} {c : Core} {k : Nat}
    (hk : resolveHeight e k = some k) (inv : CoherentG L H ch c) :
    CoherentG L H ch (stateRoot L H ch e c k).2 ∧
    (stateRoot L H ch e c k).2.resultsHashCache = c.resultsHashCache ∧
    ∀ v, (stateRoot L H ch e c k).1 = some v → StateRootBound L H ch k v := by
  unfold stateRoot
  split
  · rename_i v cache' hg
    have h1 : (c.stateRootCache.get k).1 = some v := by rw [hg]
    have h2 : (c.stateRootCache.get k).2 = cache' := by rw [hg]
    rw [get_fst] at h1
    refine ⟨⟨?_, inv.2⟩, rfl, ?_⟩
    · rw [← h2]; exact lruAll_get inv.1 k
    · intro v' hv'
      simp only [Option.some.injEq] at hv'; subst hv'
      exact inv.1 k v (peek_mem h1)
  · split
    · exact ⟨inv, rfl, fun v hv => by cases hv⟩
    · rename_i v hf
      have hb := fetchStateRoot_bound hk hf
      refine ⟨⟨lruAll_put inv.1 k v hb, inv.2⟩, rfl, ?_⟩
      intro v' hv'
      simp only [Option.some.injEq] at hv'; subst hv'
      exact hb

theorem stateRootAPI_step {L : Lib Sig Ev P} {H : Bytes → Bytes} {ch : Chain} {e : Env} {c : Core} {req : Nat}
    (inv : CoherentG L H ch c) :
    CoherentG L H ch (stateRootAPI L H ch e c req).2 ∧
    ∀ k v, (stateRootAPI L H ch e c req).1 = some (k, v) →
      resolveHeight e req = some k ∧ StateRootBound L H ch k v := by
  unfold stateRootAPI
  split
  · exact ⟨inv, fun k v h => by cases h⟩
  · rename_i k hr
    have hs := stateRoot_step (L := L) (H := H) (ch := ch) (c := c) (resolve_idem hr) inv
    split
    · rename_i c' hc
      have : (stateRoot L H ch e c k).2 = c' := by rw [hc]
      exact ⟨this ▸ hs.1, fun k v h => by cases h⟩
    · rename_i v c' hc
      have h2 : (stateRoot L H ch e c k).2 = c' := by rw [hc]
      have h1 : (stateRoot L H ch e c k).1 = some v := by rw [hc]
      refine ⟨h2 ▸ hs.1, ?_⟩
      intro k' v' h
      simp only [Option.some.injEq, Prod.mk.injEq] at h
      obtain ⟨rfl, rfl⟩ := h
      exact ⟨hr, hs.2.2 _ h1⟩

/-! ### results hash: one call -/

/-- One `resultsHash` call on a cache whose entries are all bound: the answer is the hash bound to
the height, the invariant is kept, the state-root cache is not touched. -/
theorem resultsHash_step {ch : Chain} {e : Env} {c : Core} {k : Nat}
    (inv : LruAll (ResultsHashBound ch) c.resultsHashCache) :
    LruAll (ResultsHashBound ch) (resultsHash ch e c k).2.resultsHashCache ∧
    (resultsHash ch e c k).2.stateRootCache = c.stateRootCache ∧
    ∀ v, (resultsHash ch e c k).1 = some v → v = (ch.hdr (k + 1)).lastResultsHash := by
  unfold resultsHash
  split
  · rename_i v cache' hg
    have h1 : (c.resultsHashCache.get k).1 = some v := by rw [hg]
    have h2 : (c.resultsHashCache.get k).2 = cache' := by rw [hg]
    rw [get_fst] at h1
    refine ⟨?_, rfl, ?_⟩
    · rw [← h2]; exact lruAll_get inv k
    · intro v' hv'
      simp only [Option.some.injEq] at hv'; subst hv'
      exact inv k v (peek_mem h1)
  · split
    · exact ⟨inv, rfl, fun v hv => by cases hv⟩
    · rename_i v hf
      have hb : v = (ch.hdr (k + 1)).lastResultsHash := by
        unfold fetchResultsHash fetchResultsHashFromLightBlock at hf
        split at hf
        · simp only [Option.some.injEq] at hf; exact hf.symm
        · cases hf
      refine ⟨lruAll_put inv k v hb, rfl, ?_⟩
      intro v' hv'
      simp only [Option.some.injEq] at hv'; subst hv'
      exact hb

/-- When the light client can serve header `k+1`, `resultsHash` on a bound cache answers. -/
theorem resultsHash_some {ch : Chain} {e : Env} {c : Core} {k : Nat}
    (inv : LruAll (ResultsHashBound ch) c.resultsHashCache) (ha : e.avail (k + 1) = true) :
    (resultsHash ch e c k).1 = some (ch.hdr (k + 1)).lastResultsHash := by
  have hs := (resultsHash_step (e := e) (k := k) inv).2.2
  cases hv : (resultsHash ch e c k).1 with
  | some v => rw [hs v hv]
  | none =>
    exfalso
    unfold resultsHash at hv
    split at hv
    · cases hv
    · simp [fetchResultsHash, fetchResultsHashFromLightBlock, ha] at hv

/-- `(*Core).verifyBlockResults`: the state it leaves. -/
theorem verifyBlockResults_step {L : Lib Sig Ev P} {H : Bytes → Bytes} {ch : Chain} {e : Env} {c : Core}
    {r : BlockResults} {k : Nat} (inv : CoherentG L H ch c) :
    CoherentG L H ch (verifyBlockResults L H ch e c r k).2 := by
  unfold verifyBlockResults verifyBlockResultsWith
  split
  · exact inv
  · split
    · split
      · exact inv
      · split <;> exact inv
    · have hs := resultsHash_step (e := e) (k := k) inv.2
      split
      · rename_i c' hc
        have : (resultsHash ch e c k).2 = c' := by rw [hc]
        subst this
        exact ⟨hs.2.1 ▸ inv.1, hs.1⟩
      · rename_i v c' hc
        have : (resultsHash ch e c k).2 = c' := by rw [hc]
        subst this
        exact ⟨hs.2.1 ▸ inv.1, hs.1⟩

theorem getBlockResults_step {L : Lib Sig Ev P} {H : Bytes → Bytes} {ch : Chain} {e : Env} {c : Core}
    {req : Nat} {resp : Nat → Option BlockResults} (inv : CoherentG L H ch c) :
    CoherentG L H ch (getBlockResults L H ch e c req resp).2 := by
  unfold getBlockResults getBlockResultsWith
  split
  · exact inv
  · rename_i k lb hl
    split
    · exact inv
    · rename_i r hr
      have hs := verifyBlockResults_step (L := L) (H := H) (ch := ch) (e := e) (r := r) (k := k) inv
      unfold verifyBlockResults at hs
      split
      · rename_i m c' hc
        rw [hc] at hs; exact hs
      · rename_i x c' hx hc
        rw [hc] at hs; exact hs

theorem step_coherentG {L : Lib Sig Ev P} {H : Bytes → Bytes} {ch : Chain} {c : Core} (op : Op)
    (inv : CoherentG L H ch c) : CoherentG L H ch (step L H ch c op) := by
  cases op with
  | stateRoot e req => exact (stateRootAPI_step inv).1
  | blockResults e req resp => exact getBlockResults_step inv

theorem run_coherentG {L : Lib Sig Ev P} {H : Bytes → Bytes} {ch : Chain} (ops : List Op) (c : Core)
    (inv : CoherentG L H ch c) : CoherentG L H ch (run L H ch c ops) := by
  induction ops generalizing c with
  | nil => exact inv
  | cons op ops ih => exact ih _ (step_coherentG op inv)

/-! ### verdicts -/

/-- The pure check (core.go:636) accepts iff the height is the light block's, the meta decodes and
the deterministic parts hash to the given results hash. -/
theorem pure_ok_iff (L : Lib Sig Ev P) (H : Bytes → Bytes) (r : BlockResults) (rh : Bytes) (lb : Header)
    (m : ResultsMeta Ev) :
    verifyBlockResultsPure L H r rh lb = (.ok, some m) ↔
      r.height = lb.height ∧ L.decResults r.metaB = some m ∧ OasisModel.Stateless.resultsHash L H m = rh := by
  unfold verifyBlockResultsPure
  constructor
  · intro h
    split at h; · cases h
    rename_i hh
    split at h
    · cases h
    · rename_i m' hm'
      split at h
      · cases h
      · rename_i hrh
        simp only [Prod.mk.injEq, Option.some.injEq, true_and] at h
        subst h
        exact ⟨by simpa using hh, hm', by simpa using hrh⟩
  · rintro ⟨h1, h2, h3⟩
    simp [h1, h2, h3]

/-- The pure check never answers `ok` without a decoded meta. -/
theorem pure_ok_some (L : Lib Sig Ev P) (H : Bytes → Bytes) (r : BlockResults) (rh : Bytes) (lb : Header)
    (h : (verifyBlockResultsPure L H r rh lb).1 = .ok) :
    ∃ m, verifyBlockResultsPure L H r rh lb = (.ok, some m) := by
  unfold verifyBlockResultsPure at h ⊢
  split
  · rename_i hh; simp [hh] at h
  · rename_i hh
    split
    · rename_i hd; simp [hh, hd] at h
    · rename_i m hd
      split
      · rename_i hr; simp [hh, hd, hr] at h
      · exact ⟨m, rfl⟩

/-- A wrong results hash is answered with `hash`. -/
theorem pure_hash_mismatch (L : Lib Sig Ev P) (H : Bytes → Bytes) (r : BlockResults) (rh : Bytes) (lb : Header)
    (m : ResultsMeta Ev) (h1 : r.height = lb.height) (h2 : L.decResults r.metaB = some m)
    (h3 : OasisModel.Stateless.resultsHash L H m ≠ rh) :
    verifyBlockResultsPure L H r rh lb = (.hash, none) := by
  simp [verifyBlockResultsPure, h1, h2, h3]

theorem lightBlock_of {ch : Chain} {e : Env} {h : Nat} (h0 : h ≠ 0) (ha : e.avail h = true) :
    lightBlock ch e h = some (h, ch.hdr h) := by
  simp [lightBlock, resolve_nonzero h0, ha]

theorem lightBlock_some {ch : Chain} {e : Env} {req h : Nat} {lb : Header}
    (hl : lightBlock ch e req = some (h, lb)) :
    resolveHeight e req = some h ∧ e.avail h = true ∧ lb = ch.hdr h := by
  unfold lightBlock at hl
  split at hl
  · cases hl
  · rename_i h' hr
    split at hl
    · rename_i ha
      simp only [Option.some.injEq, Prod.mk.injEq] at hl
      obtain ⟨rfl, rfl⟩ := hl
      exact ⟨hr, ha, rfl⟩
    · cases hl

/-- Below the latest trusted height the verdict is the pure check against whatever the
`resultsHash` in use answered (core.go:628-633). -/
theorem verifyWith_below {rh : Chain → Env → Core → Nat → Option Bytes × Core}
    {L : Lib Sig Ev P} {H : Bytes → Bytes} {ch : Chain} {e : Env} {c c' : Core} {r : BlockResults}
    {h last : Nat} {v : Bytes} (hlast : e.last = some last) (hbelow : h < last)
    (hrh : rh ch e c h = (some v, c')) :
    verifyBlockResultsWith rh L H ch e c r h = (verifyBlockResultsPure L H r v (ch.hdr h), c') := by
  have hle : ¬ last ≤ h := by omega
  simp [verifyBlockResultsWith, hlast, hle, hrh]

theorem verifyWith_below_fetch {rh : Chain → Env → Core → Nat → Option Bytes × Core}
    {L : Lib Sig Ev P} {H : Bytes → Bytes} {ch : Chain} {e : Env} {c c' : Core} {r : BlockResults}
    {h last : Nat} (hlast : e.last = some last) (hbelow : h < last)
    (hrh : rh ch e c h = (none, c')) :
    verifyBlockResultsWith rh L H ch e c r h = ((.fetch, none), c') := by
  have hle : ¬ last ≤ h := by omega
  simp [verifyBlockResultsWith, hlast, hle, hrh]

/-- The latest-height exception (core.go:619-626): no cache access, only height and decoding. -/
theorem verifyWith_latest {rh : Chain → Env → Core → Nat → Option Bytes × Core}
    {L : Lib Sig Ev P} {H : Bytes → Bytes} {ch : Chain} {e : Env} {c : Core} {r : BlockResults}
    {h last : Nat} {m : ResultsMeta Ev} (hlast : e.last = some last) (hlatest : last ≤ h)
    (hh : r.height = (ch.hdr h).height) (hm : L.decResults r.metaB = some m) :
    verifyBlockResultsWith rh L H ch e c r h = ((.ok, some m), c) := by
  simp [verifyBlockResultsWith, hlast, hlatest, hh, hm]

/-- The verdict of the code below the latest trusted height on a bound cache. -/
theorem verifyBlockResults_below {L : Lib Sig Ev P} {H : Bytes → Bytes} {ch : Chain} {e : Env} {c : Core}
    {r : BlockResults} {h last : Nat} (inv : LruAll (ResultsHashBound ch) c.resultsHashCache)
    (hlast : e.last = some last) (hbelow : h < last) :
    (verifyBlockResults L H ch e c r h).1 = (.fetch, none) ∨
    (verifyBlockResults L H ch e c r h).1 =
      verifyBlockResultsPure L H r (ch.hdr (h + 1)).lastResultsHash (ch.hdr h) := by
  have hs := (resultsHash_step (e := e) (k := h) inv).2.2
  cases hq : resultsHash ch e c h with
  | mk o c' =>
    cases o with
    | none => left; unfold verifyBlockResults; rw [verifyWith_below_fetch hlast hbelow hq]
    | some v =>
      right
      have : v = (ch.hdr (h + 1)).lastResultsHash := hs v (by rw [hq])
      unfold verifyBlockResults; rw [verifyWith_below hlast hbelow hq, this]

theorem getWith_accept {rh : Chain → Env → Core → Nat → Option Bytes × Core}
    {L : Lib Sig Ev P} {H : Bytes → Bytes} {ch : Chain} {e : Env} {c c' : Core} {req h : Nat} {lb : Header}
    {resp : Nat → Option BlockResults} {r : BlockResults} {m : ResultsMeta Ev}
    (hl : lightBlock ch e req = some (h, lb)) (hr : resp h = some r)
    (hv : verifyBlockResultsWith rh L H ch e c r h = ((.ok, some m), c')) :
    getBlockResultsWith rh L H ch e c req resp = (some (h, r, m), c') := by
  simp [getBlockResultsWith, hl, hr, hv]

theorem getWith_reject {rh : Chain → Env → Core → Nat → Option Bytes × Core}
    {L : Lib Sig Ev P} {H : Bytes → Bytes} {ch : Chain} {e : Env} {c c' : Core} {req h : Nat} {lb : Header}
    {resp : Nat → Option BlockResults} {r : BlockResults} {x : RV}
    (hl : lightBlock ch e req = some (h, lb)) (hr : resp h = some r)
    (hv : verifyBlockResultsWith rh L H ch e c r h = ((x, none), c')) :
    getBlockResultsWith rh L H ch e c req resp = (none, c') := by
  cases x <;> simp [getBlockResultsWith, hl, hr, hv]

/-- What an accepted `GetBlockResults` went through. -/
theorem getWith_some {rh : Chain → Env → Core → Nat → Option Bytes × Core}
    {L : Lib Sig Ev P} {H : Bytes → Bytes} {ch : Chain} {e : Env} {c : Core} {req h : Nat}
    {resp : Nat → Option BlockResults} {r : BlockResults} {m : ResultsMeta Ev}
    (hacc : (getBlockResultsWith rh L H ch e c req resp).1 = some (h, r, m)) :
    resolveHeight e req = some h ∧ e.avail h = true ∧ resp h = some r ∧
    (verifyBlockResultsWith rh L H ch e c r h).1 = (.ok, some m) := by
  unfold getBlockResultsWith at hacc
  split at hacc
  · cases hacc
  · rename_i k lb hl
    obtain ⟨h1, h2, _⟩ := lightBlock_some hl
    split at hacc
    · cases hacc
    · rename_i r' hr
      split at hacc
      · rename_i m' c' hv
        simp only [Option.some.injEq, Prod.mk.injEq] at hacc
        obtain ⟨rfl, rfl, rfl⟩ := hacc
        exact ⟨h1, h2, hr, by rw [hv]⟩
      · cases hacc

/-! ### the seeded variant -/

theorem misfiled_miss {ch : Chain} {e : Env} {c : Core} {h : Nat}
    (hm : c.resultsHashCache.peek h = none) (ha : e.avail (h + 1) = true) :
    resultsHashMisfiled ch e c h =
      (some (ch.hdr (h + 1)).lastResultsHash,
       { c with resultsHashCache := c.resultsHashCache.put (h + 1) (ch.hdr (h + 1)).lastResultsHash }) := by
  have hg : c.resultsHashCache.get h = (none, c.resultsHashCache) := by
    simp [Lru.get, hm]
  simp [resultsHashMisfiled, hg, fetchResultsHash, fetchResultsHashFromLightBlock, ha]

theorem misfiled_hit {ch : Chain} {e : Env} {c : Core} {k : Nat} {v : Bytes}
    (hp : c.resultsHashCache.peek k = some v) :
    resultsHashMisfiled ch e c k = (some v, { c with resultsHashCache := (c.resultsHashCache.get k).2 }) := by
  have hg : c.resultsHashCache.get k = (some v, (c.resultsHashCache.get k).2) := by
    simp [Lru.get, hp]
  unfold resultsHashMisfiled
  rw [hg]

theorem genuine_hit {ch : Chain} {e : Env} {c : Core} {k : Nat} {v : Bytes}
    (hp : c.resultsHashCache.peek k = some v) :
    OasisModel.Stateless.Cache.resultsHash ch e c k =
      (some v, { c with resultsHashCache := (c.resultsHashCache.get k).2 }) := by
  have hg : c.resultsHashCache.get k = (some v, (c.resultsHashCache.get k).2) := by
    simp [Lru.get, hp]
  unfold OasisModel.Stateless.Cache.resultsHash
  rw [hg]

theorem genuine_miss {ch : Chain} {e : Env} {c : Core} {h : Nat}
    (hm : c.resultsHashCache.peek h = none) (ha : e.avail (h + 1) = true) :
    OasisModel.Stateless.Cache.resultsHash ch e c h =
      (some (ch.hdr (h + 1)).lastResultsHash,
       { c with resultsHashCache := c.resultsHashCache.put h (ch.hdr (h + 1)).lastResultsHash }) := by
  have hg : c.resultsHashCache.get h = (none, c.resultsHashCache) := by
    simp [Lru.get, hm]
  simp [OasisModel.Stateless.Cache.resultsHash, hg, fetchResultsHash, fetchResultsHashFromLightBlock, ha]

/-! ### LRU bookkeeping along histories -/

/-- Both caches are well-formed LRUs of the configured capacity. -/
def CoreWF (c : Core) : Prop :=
  LruWF c.stateRootCache ∧ LruWF c.resultsHashCache ∧ c.stateRootCache.cap = 128 ∧ c.resultsHashCache.cap = 128

theorem put_cap (c : Lru) (k : Nat) (v : Bytes) : (c.put k v).cap = c.cap := rfl

theorem coreWF_new : CoreWF Core.new := ⟨lruWF_new _, lruWF_new _, rfl, rfl⟩

theorem stateRoot_wf {L : Lib Sig Ev P} {H : Bytes → Bytes} {ch : Chain} {e : Env} {c : Core} {k : Nat}
    (wf : CoreWF c) : CoreWF (stateRoot L H ch e c k).2 := by
  obtain ⟨w1, w2, c1, c2⟩ := wf
  unfold stateRoot
  split
  · rename_i v cache' hg
    have h2 : (c.stateRootCache.get k).2 = cache' := by rw [hg]
    subst h2
    exact ⟨lruWF_get w1 k, w2, by simp only [get_cap]; exact c1, c2⟩
  · split
    · exact ⟨w1, w2, c1, c2⟩
    · exact ⟨lruWF_put w1 k _, w2, c1, c2⟩

theorem resultsHash_wf {ch : Chain} {e : Env} {c : Core} {k : Nat}
    (wf : CoreWF c) : CoreWF (OasisModel.Stateless.Cache.resultsHash ch e c k).2 := by
  obtain ⟨w1, w2, c1, c2⟩ := wf
  unfold OasisModel.Stateless.Cache.resultsHash
  split
  · rename_i v cache' hg
    have h2 : (c.resultsHashCache.get k).2 = cache' := by rw [hg]
    subst h2
    exact ⟨w1, lruWF_get w2 k, c1, by simp only [get_cap]; exact c2⟩
  · split
    · exact ⟨w1, w2, c1, c2⟩
    · exact ⟨w1, lruWF_put w2 k _, c1, c2⟩

theorem step_wf {L : Lib Sig Ev P} {H : Bytes → Bytes} {ch : Chain} {c : Core} (op : Op)
    (wf : CoreWF c) : CoreWF (step L H ch c op) := by
  cases op with
  | stateRoot e req =>
    show CoreWF (stateRootAPI L H ch e c req).2
    unfold stateRootAPI
    split
    · exact wf
    · rename_i k hr
      have hs := stateRoot_wf (L := L) (H := H) (ch := ch) (e := e) (k := k) wf
      split
      · rename_i c' hc; rw [hc] at hs; exact hs
      · rename_i v c' hc; rw [hc] at hs; exact hs
  | blockResults e req resp =>
    show CoreWF (getBlockResults L H ch e c req resp).2
    unfold getBlockResults getBlockResultsWith
    split
    · exact wf
    · rename_i k lb hl
      split
      · exact wf
      · rename_i r hr
        have hv : CoreWF (verifyBlockResultsWith OasisModel.Stateless.Cache.resultsHash L H ch e c r k).2 := by
          unfold verifyBlockResultsWith
          split
          · exact wf
          · split
            · split
              · exact wf
              · split <;> exact wf
            · have hs := resultsHash_wf (ch := ch) (e := e) (k := k) wf
              split
              · rename_i c' hc; rw [hc] at hs; exact hs
              · rename_i v c' hc; rw [hc] at hs; exact hs
        split
        · rename_i m c' hc; rw [hc] at hv; exact hv
        · rename_i x c' hx hc; rw [hc] at hv; exact hv

theorem run_wf {L : Lib Sig Ev P} {H : Bytes → Bytes} {ch : Chain} (ops : List Op) (c : Core)
    (wf : CoreWF c) : CoreWF (run L H ch c ops) := by
  induction ops generalizing c with
  | nil => exact wf
  | cons op ops ih => exact ih _ (step_wf op wf)

/-! ### the light client of `Verify.lean` -/

/-- The light client of `Verify.lean` presented by a chain and an environment serves header `h+1`
for the height after `(hdr h).height`. -/
theorem lightClientOf_next (ch : Chain) (wf : ChainWF ch) (e : Env) (h : Nat) (ha : e.avail (h + 1) = true) :
    (lightClientOf ch e).trusted ((ch.hdr h).height + 1) = some (ch.hdr (h + 1)) := by
  have h1 : (0 : Int) < (h : Int) + 1 := by omega
  have h2 : ((h : Int) + 1).toNat = h + 1 := by omega
  simp [lightClientOf, wf h, h1, h2, ha]

end OasisProofs.StatelessCache
