import OasisModel.Roothash.Pool
import OasisProofs.Helpers.RoothashCount
import OasisProofs.Helpers.RoothashProcess
/-
Helper lemmas for C11: a processing call that answers `ok` satisfies `MayFinalize`, given that the
votes stored for the chosen scheduler are the first accepted commitments per node.
-/
namespace OasisProofs.Roothash
open OasisModel.Roothash

theorem primary_eq_rel (c : Committee) : primary c = (rel false c).map (·.node) := by
  unfold primary rel
  congr 1
  apply List.filter_congr
  intro m _
  cases hm : m.role <;> simp [skips, hm] <;> decide

theorem backups_eq_rel (c : Committee) : backups c = (rel true c).map (·.node) := by
  unfold backups rel
  congr 1
  apply List.filter_congr
  intro m _
  cases hm : m.role <;> simp [skips, hm] <;> decide

/-- Counting votes in the rule predicate = counting committee slots. -/
theorem spec_count (ms : List Member) (f : Nat → Option EC) (q : EC → Bool) :
    (((ms.map (·.node)).filterMap f).filter q).length =
      ms.countP (fun m => match f m.node with | some e => q e | none => false) := by
  induction ms with
  | nil => simp
  | cons m rest ih =>
    rw [List.map_cons, List.filterMap_cons, List.countP_cons]
    cases hf : f m.node with
    | none => simp only []; rw [ih]; simp
    | some e =>
      simp only []
      rw [List.filter_cons]
      by_cases hq : q e = true
      · simp only [hq, if_true, List.length_cons]; rw [ih]
      · simp only [hq, Bool.false_eq_true, if_false]; rw [ih]; simp

theorem cnt_congr (sc : SC) (ms : List Member) (P : Option (Option Nat) → Bool) (Q : Member → Bool)
    (h : ∀ m ∈ ms, P (sc.votes m.node) = Q m) : cnt sc ms P = ms.countP Q := by
  unfold cnt
  apply List.countP_congr
  intro m hm
  rw [h m hm]

theorem cnt_pos (sc : SC) (ms : List Member) (P : Option (Option Nat) → Bool) (m : Member)
    (hm : m ∈ ms) (hp : P (sc.votes m.node) = true) : 1 ≤ cnt sc ms P := by
  unfold cnt
  exact List.countP_pos_iff.2 ⟨m, hm, hp⟩

theorem cnt_zero (sc : SC) (ms : List Member) (P : Option (Option Nat) → Bool)
    (h : cnt sc ms P = 0) (m : Member) (hm : m ∈ ms) : P (sc.votes m.node) = false := by
  unfold cnt at h
  rw [List.countP_eq_zero] at h
  have := h m hm
  simpa using this

theorem vote_eq_none (e : EC) : e.vote = none ↔ e.failure = true := by
  unfold EC.vote; split <;> simp_all

theorem vote_eq_some (e : EC) (h : Nat) : e.vote = some h ↔ (e.failure = false ∧ e.hash = h) := by
  unfold EC.vote; split <;> simp_all

/-- Soundness of one processing call against the rule predicate. -/
theorem process_ok_sound (c : Committee) (p : Pool) (s : Nat) (to : Bool) (log : List EC)
    (sc : SC) (own : EC)
    (hsc : p.scs p.highestRank = some sc) (hown : sc.commitment = some own)
    (hvotes : ∀ n, sc.votes n = (voteOf log own.sched n).map EC.vote)
    (hownvote : voteOf log own.sched own.node = some own)
    (hmem : own ∈ log) (hnode : own.node = own.sched) (hnf : own.failure = false)
    (hprim : own.node ∈ primary c)
    (hok : processInner c p s to = Res.ok) :
    MayFinalize c log s p.discrepancy own = true := by
  unfold MayFinalize
  have hhead : (log.contains own && own.node == own.sched && !own.failure) = true := by
    simp [hmem, hnode, hnf]
  rw [hhead, Bool.true_and]
  unfold processInner at hok
  rw [hsc] at hok
  simp only at hok
  split at hok
  · simp at hok
  · rename_i t ht
    obtain ⟨g1, g2, g3, g4, g5⟩ := gather_tally _ _ _ _ _ _ _ _ ht
    simp only [vc_empty, Nat.zero_add] at g1 g2 g3 g4 g5
    have g5' : vsum t.votes = cnt sc (rel p.discrepancy c) isVote := by
      rw [g5]; simp [vsum]
    cases hd : p.discrepancy with
    | false =>
      rw [hd] at g1 g2 g3 g4 g5' ht
      simp only [hd, Bool.not_false, if_true] at hok ⊢
      split at hok
      · simp at hok
      · rename_i hclean
        split at hok
        · split at hok <;> simp at hok
        · rename_i hreq
          simp only [Bool.or_eq_true, decide_eq_true_eq, not_or, Nat.not_lt] at hclean
          -- the scheduler's own vote is among the primary votes
          rw [primary_eq_rel, List.mem_map] at hprim
          obtain ⟨mo, hmo, hmon⟩ := hprim
          have hov : sc.votes own.node = some (some own.hash) := by
            rw [hvotes, hownvote]; simp [EC.vote, hnf]
          have hge : 1 ≤ vc t.votes own.hash := by
            rw [g4]
            exact cnt_pos sc _ _ mo hmo (by rw [hmon, hov]; simp)
          obtain ⟨hsum, hother⟩ := single_key t.votes own.hash hclean.1 hge
          rw [primary_eq_rel]
          simp only [Bool.and_eq_true, decide_eq_true_eq]
          refine ⟨⟨?_, ?_⟩, ?_⟩
          · -- no dissenting result
            rw [List.all_eq_true]
            intro e he
            rw [List.mem_filterMap] at he
            obtain ⟨n, hn, hne⟩ := he
            rw [List.mem_map] at hn
            obtain ⟨m, hm, hmn⟩ := hn
            by_cases hf : e.failure = true
            · simp [hf]
            · by_cases hh : e.hash = own.hash
              · simp [hh]
              · exfalso
                have h0 := hother e.hash hh
                rw [g4] at h0
                have := cnt_zero sc _ _ h0 m hm
                rw [hmn, hvotes, hne] at this
                simp [EC.vote, hf] at this
          · -- at most the allowed number of failures
            rw [spec_count]
            have : cnt sc (rel false c) (· == some none) =
                (rel false c).countP (fun m => match voteOf log own.sched m.node with
                  | some e => e.failure | none => false) := by
              apply cnt_congr
              intro m _
              rw [hvotes]
              cases hv : voteOf log own.sched m.node with
              | none => simp
              | some e =>
                simp only [Option.map_some]
                by_cases hf : e.failure = true
                · simp [EC.vote, hf]
                · simp [EC.vote, hf]
            rw [← this, ← g3]; exact hclean.2
          · -- enough agreeing votes
            rw [spec_count, List.length_map]
            have : cnt sc (rel false c) (· == some (some own.hash)) =
                (rel false c).countP (fun m => match voteOf log own.sched m.node with
                  | some e => (!e.failure && e.hash == own.hash) | none => false) := by
              apply cnt_congr
              intro m _
              rw [hvotes]
              cases hv : voteOf log own.sched m.node with
              | none => simp
              | some e =>
                simp only [Option.map_some]
                by_cases hf : e.failure = true
                · simp [EC.vote, hf]
                · simp [EC.vote, hf]
            rw [← this, ← g4, ← hsum]
            have : ¬ (t.total > s + vsum t.votes) := by
              simpa [vsum] using hreq
            omega
    | true =>
      rw [hd] at g1 g2 g3 g4 g5' ht
      simp only [hd, Bool.not_true, Bool.false_eq_true, if_false] at hok ⊢
      rw [hown] at hok
      rcases resolve_cases t.votes t.total t.commits to (some own) with ⟨h, _⟩ | ⟨h, _⟩ | ⟨hbest', h⟩
      · rw [h] at hok; simp at hok
      · rw [h] at hok; simp at hok
      · rw [h] at hok
        simp only at hok
        generalize hpb : pickBest t.votes (0, 0) = pb at hok hbest'
        obtain ⟨hash, best⟩ := pb
        simp only at hok hbest'
        split at hok
        · simp at hok
        · rename_i hh
          simp only [bne_iff_ne, ne_eq, Decidable.not_not] at hh
          have hbest : t.total / 2 + 1 ≤ best := hbest'
          have hmemb : (hash, best) ∈ t.votes := by
            rcases pickBest_mem t.votes (0, 0) with h | h
            · rw [hpb] at h; cases h; omega
            · rw [hpb] at h; exact h
          have hvc := vc_ge_of_mem _ _ _ hmemb
          rw [g4, hh] at hvc
          rw [backups_eq_rel, spec_count, List.length_map]
          have : cnt sc (rel true c) (· == some (some own.hash)) =
              (rel true c).countP (fun m => match voteOf log own.sched m.node with
                | some e => (!e.failure && e.hash == own.hash) | none => false) := by
            apply cnt_congr
            intro m _
            rw [hvotes]
            cases hv : voteOf log own.sched m.node with
            | none => simp
            | some e =>
              simp only [Option.map_some]
              by_cases hf : e.failure = true
              · simp [EC.vote, hf]
              · simp [EC.vote, hf]
          rw [← this, decide_eq_true_eq]
          omega

end OasisProofs.Roothash
