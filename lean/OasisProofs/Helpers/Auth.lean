import OasisModel.Auth.SigCtx
import OasisModel.Auth.Nonce
/-
Helper lemmas for property C09 (prefix algebra on byte strings; case analysis of the admission pipeline;
the sequence invariant over histories).  The property theorems are in OasisProofs/Props/C09.lean.
-/
namespace OasisProofs.C09
open OasisModel.Auth

theorem isPrefix_iff (a b : Bytes) : isPrefix a b = true ↔ ∃ t, b = a ++ t := by
  induction a generalizing b with
  | nil => simp [isPrefix]
  | cons x xs ih =>
    cases b with
    | nil => simp [isPrefix]
    | cons y ys =>
      simp only [isPrefix, Bool.and_eq_true, beq_iff_eq, ih, List.cons_append, List.cons.injEq]
      constructor
      · rintro ⟨rfl, t, rfl⟩; exact ⟨t, rfl, rfl⟩
      · rintro ⟨t, rfl, rfl⟩; exact ⟨rfl, t, rfl⟩

theorem comparable_symm (a b : Bytes) : comparable a b = comparable b a := by
  simp [comparable, Bool.or_comm]

/-- Two byte strings with a common extension are comparable. -/
theorem comparable_of_append_eq (a b x y : Bytes) (h : a ++ x = b ++ y) : comparable a b = true := by
  induction a generalizing b with
  | nil => simp [comparable, isPrefix]
  | cons p ps ih =>
    cases b with
    | nil => simp [comparable, isPrefix]
    | cons q qs =>
      simp only [List.cons_append, List.cons.injEq] at h
      obtain ⟨rfl, h⟩ := h
      have := ih qs h
      simpa [comparable, isPrefix] using this

/-- In a heads-prefix-free table, two registrations with comparable heads are the same registration. -/
theorem eq_of_comparable_heads (t : List Ctx) (hpf : headsPrefixFree t = true) (c d : Ctx)
    (hc : c ∈ t) (hd : d ∈ t) (h : comparable (head c) (head d) = true) : c = d := by
  induction t with
  | nil => simp at hc
  | cons x xs ih =>
    simp only [headsPrefixFree, Bool.and_eq_true, List.all_eq_true, Bool.not_eq_true'] at hpf
    obtain ⟨hx, hxs⟩ := hpf
    rcases List.mem_cons.1 hc with rfl | hc' <;> rcases List.mem_cons.1 hd with rfl | hd'
    · rfl
    · rw [hx d hd'] at h; cases h
    · rw [comparable_symm, hx c hc'] at h; cases h
    · exact ih hxs hc' hd'

theorem authenticate_deliver_ok (p : Params) (acct : Nat → Account) (feeAcc signer nonce feeAmt feeGas : Nat)
    (acct' : Nat → Account) (fee' : Nat)
    (h : authenticate p .deliver acct feeAcc signer nonce feeAmt feeGas = .ok (acct', fee')) :
    p.reserved signer = false ∧ (acct signer).nonce = nonce ∧
    feeAmt + p.minTransactBalance ≤ (acct signer).balance ∧
    acct' = setAcct acct signer
      { nonce := (nonce + 1) % nonceMod, balance := (acct signer).balance - feeAmt } ∧
    fee' = feeAcc + feeAmt := by
  unfold authenticate at h
  simp only [reduceCtorEq, if_false] at h
  split at h
  · cases h
  · rename_i hr
    split at h
    · cases h
    · rename_i hn
      split at h
      · cases h
      · rename_i hb
        simp only [Except.ok.injEq, Prod.mk.injEq] at h
        have hn' : (acct signer).nonce = nonce := by
          simpa using hn
        refine ⟨by simpa using hr, hn', by omega, ?_, h.2.symm⟩
        rw [← h.1, hn']

/-- What `deliver` does, in two cases. -/
theorem deliver_cases (p : Params) (dec : Bytes → Decoded) (s : State) (b : Bytes) (ho : Bool) :
    ((deliver p dec s b ho).2.authenticated = false ∧
      (deliver p dec s b ho).1.acct = s.acct ∧ (deliver p dec s b ho).1.feeAcc = s.feeAcc ∧
      (deliver p dec s b ho).1.authed = s.authed ∧
      ((deliver p dec s b ho).1.effects = s.effects ∨
        ((dec b).kind = .critical ∧ (deliver p dec s b ho).1.effects = b :: s.effects)))
    ∨
    ((deliver p dec s b ho).2.authenticated = true ∧
      (p.maxTxSize = 0 ∨ (dec b).size ≤ p.maxTxSize) ∧
      (dec b).envOk = true ∧ (dec b).sigOk = true ∧ (dec b).txOk = true ∧ (dec b).kind = .normal ∧
      p.reserved (dec b).signer = false ∧
      (s.acct (dec b).signer).nonce = (dec b).nonce ∧
      (dec b).feeAmt + p.minTransactBalance ≤ (s.acct (dec b).signer).balance ∧
      (deliver p dec s b ho).1.acct = setAcct s.acct (dec b).signer
        { nonce := ((dec b).nonce + 1) % nonceMod,
          balance := (s.acct (dec b).signer).balance - (dec b).feeAmt } ∧
      (deliver p dec s b ho).1.feeAcc = s.feeAcc + (dec b).feeAmt ∧
      (deliver p dec s b ho).1.authed = b :: s.authed ∧
      (deliver p dec s b ho).1.effects = (if ho then b :: s.effects else s.effects) ∧
      ((deliver p dec s b ho).2 = if ho then .ok else .failed)) := by
  unfold deliver
  simp only
  split
  · left; simp [Res.authenticated]
  · rename_i hsz
    split
    · left; simp [Res.authenticated]
    · rename_i he
      split
      · left; simp [Res.authenticated]
      · rename_i hsg
        split
        · left; simp [Res.authenticated]
        · rename_i ht
          split
          · left; simp [Res.authenticated, *]
          · left; simp [Res.authenticated, *]
          · left
            rename_i hk
            cases ho <;> simp [Res.authenticated, hk]
          · rename_i hk
            split
            · left; simp [Res.authenticated, hk]
            · rename_i acct' fee' ha
              right
              have := authenticate_deliver_ok p s.acct s.feeAcc _ _ _ _ acct' fee' ha
              obtain ⟨h1, h2, h3, h4, h5⟩ := this
              have hsz' : p.maxTxSize = 0 ∨ (dec b).size ≤ p.maxTxSize := by omega
              cases ho <;> simp_all [Res.authenticated]

/-- Nonces of the authenticated transactions of signer `a`, most recent first. -/
def authedNonces (dec : Bytes → Decoded) (s : State) (a : Nat) : List Nat :=
  (s.authed.filter (fun b => (dec b).signer == a)).map (fun b => (dec b).nonce)

/-- Invariant: relative to the nonces `n0` at the start of the history, the authenticated nonces of every
signer are exactly `n0 a, n0 a + 1, …, current nonce - 1`, in this order. -/
def SeqInv (dec : Bytes → Decoded) (n0 : Nat → Nat) (s : State) : Prop :=
  ∀ a, n0 a ≤ (s.acct a).nonce ∧
    authedNonces dec s a = (List.range' (n0 a) ((s.acct a).nonce - n0 a)).reverse

theorem step_acct (p : Params) (dec : Bytes → Decoded) (s : State) (op : Op) (a : Nat) :
    ((step p dec s op).acct a).nonce = (s.acct a).nonce ∨
    (∃ b ho, op = .deliver b ho ∧ (deliver p dec s b ho).2.authenticated = true ∧ (dec b).signer = a ∧
      (dec b).nonce = (s.acct a).nonce ∧
      ((step p dec s op).acct a).nonce = ((s.acct a).nonce + 1) % nonceMod) := by
  cases op with
  | deliver b ho =>
    simp only [step]
    rcases deliver_cases p dec s b ho with h | h
    · left; rw [h.2.1]
    · obtain ⟨hau, _, _, _, _, _, _, hn, _, hacct, _⟩ := h
      by_cases ha : (dec b).signer = a
      · right
        refine ⟨b, ho, rfl, hau, ha, by rw [← ha, hn], ?_⟩
        rw [hacct, ← ha]
        simp [setAcct, hn]
      · left
        rw [hacct]
        have : ¬ a = (dec b).signer := fun h => ha h.symm
        simp [setAcct, this]
  | checkTx b => left; rfl
  | simulate b => left; rfl
  | newBlock => left; rfl
  | restart => left; rfl
  | setBalance x v =>
    left
    simp only [step, setAcct]
    split <;> simp_all

/-- One operation changes a nonce by 0 or +1 (short of the wrap). -/
theorem step_nonce_bounds (p : Params) (dec : Bytes → Decoded) (s : State) (op : Op) (a : Nat)
    (hnw : (s.acct a).nonce + 1 < nonceMod) :
    (s.acct a).nonce ≤ ((step p dec s op).acct a).nonce ∧
    ((step p dec s op).acct a).nonce ≤ (s.acct a).nonce + 1 := by
  rcases step_acct p dec s op a with h | ⟨_, _, _, _, _, _, h⟩
  · omega
  · rw [h, Nat.mod_eq_of_lt hnw]; omega


theorem step_authed (p : Params) (dec : Bytes → Decoded) (s : State) (op : Op) :
    (step p dec s op).authed = s.authed ∨
    (∃ b ho, op = .deliver b ho ∧ (deliver p dec s b ho).2.authenticated = true ∧
      (step p dec s op).authed = b :: s.authed) := by
  cases op with
  | deliver b ho =>
    simp only [step]
    rcases deliver_cases p dec s b ho with h | h
    · left; exact h.2.2.2.1
    · right; exact ⟨b, ho, rfl, h.1, h.2.2.2.2.2.2.2.2.2.2.2.1⟩
  | checkTx b => left; rfl
  | simulate b => left; rfl
  | newBlock => left; rfl
  | restart => left; rfl
  | setBalance x v => left; rfl

theorem seqInv_step (p : Params) (dec : Bytes → Decoded) (n0 : Nat → Nat) (s : State) (op : Op)
    (hinv : SeqInv dec n0 s) (hnw : ∀ a, (s.acct a).nonce + 1 < nonceMod) :
    SeqInv dec n0 (step p dec s op) := by
  intro a
  obtain ⟨hle, hseq⟩ := hinv a
  have hmono := step_nonce_bounds p dec s op a (hnw a)
  refine ⟨by omega, ?_⟩
  rcases step_authed p dec s op with hau | ⟨b, ho, rfl, hauth, hau⟩
  · -- log unchanged: then the nonce of `a` is unchanged too
    rcases step_acct p dec s op a with hn | ⟨b, ho, rfl, hauth, _, _, _⟩
    · unfold authedNonces at *
      rw [hau, hn]; exact hseq
    · exfalso
      rcases deliver_cases p dec s b ho with h | h
      · rw [h.1] at hauth; cases hauth
      · have := h.2.2.2.2.2.2.2.2.2.2.2.1
        simp only [step] at hau
        rw [this] at hau
        exact absurd hau (by simp)
  · rcases step_acct p dec s (.deliver b ho) a with hn | ⟨b', ho', heq, _, hsa, hna, hn⟩
    · -- a is not the signer of b
      have hsig : (dec b).signer ≠ a := by
        intro hsa
        rcases deliver_cases p dec s b ho with h | h
        · rw [h.1] at hauth; cases hauth
        · obtain ⟨_, _, _, _, _, _, _, hnn, _, hacct, _⟩ := h
          simp only [step] at hn
          rw [hacct, ← hsa] at hn
          simp [setAcct] at hn
          rw [hnn] at hn
          have := hnw (dec b).signer
          rw [hnn] at this
          rw [Nat.mod_eq_of_lt this] at hn
          omega
      unfold authedNonces at *
      rw [hau, hn]
      simp [hsig, hseq]
    · cases heq
      unfold authedNonces at *
      rw [hau, hn, Nat.mod_eq_of_lt (hnw a)]
      simp only [List.filter_cons, hsa, beq_self_eq_true, if_true, List.map_cons, hseq, hna]
      have : (s.acct a).nonce + 1 - n0 a = ((s.acct a).nonce - n0 a) + 1 := by omega
      rw [this, List.range'_concat]
      simp
      omega

theorem run_nil (p : Params) (dec : Bytes → Decoded) (s : State) : run p dec s [] = s := rfl
theorem run_cons (p : Params) (dec : Bytes → Decoded) (s : State) (op : Op) (ops : List Op) :
    run p dec s (op :: ops) = run p dec (step p dec s op) ops := rfl

theorem run_bounds (p : Params) (dec : Bytes → Decoded) (ops : List Op) (s : State) (a : Nat)
    (hnw : (s.acct a).nonce + ops.length < nonceMod) :
    (s.acct a).nonce ≤ ((run p dec s ops).acct a).nonce ∧
    ((run p dec s ops).acct a).nonce ≤ (s.acct a).nonce + ops.length := by
  induction ops generalizing s with
  | nil => simp [run_nil]
  | cons op ops ih =>
    rw [run_cons]
    simp only [List.length_cons] at hnw ⊢
    have h1 := step_nonce_bounds p dec s op a (by omega)
    have h2 := ih (step p dec s op) (by omega)
    omega

theorem seqInv_run (p : Params) (dec : Bytes → Decoded) (n0 : Nat → Nat) (ops : List Op) (s : State)
    (hinv : SeqInv dec n0 s) (hnw : ∀ a, (s.acct a).nonce + ops.length < nonceMod) :
    SeqInv dec n0 (run p dec s ops) := by
  induction ops generalizing s with
  | nil => exact hinv
  | cons op ops ih =>
    rw [run_cons]
    simp only [List.length_cons] at hnw
    apply ih _ (seqInv_step p dec n0 s op hinv (fun a => by have := hnw a; omega))
    intro a
    have := (step_nonce_bounds p dec s op a (by have := hnw a; omega)).2
    have := hnw a
    omega

theorem seqInv_init (dec : Bytes → Decoded) (s : State) (h : s.authed = []) :
    SeqInv dec (fun a => (s.acct a).nonce) s := by
  intro a
  simp [authedNonces, h]

theorem nodup_of_classes {α : Type} (l : List α) (f g : α → Nat)
    (h : ∀ a, ((l.filter (fun b => f b == a)).map g).Nodup) : l.Nodup := by
  induction l with
  | nil => exact List.nodup_nil
  | cons b l ih =>
    rw [List.nodup_cons]
    constructor
    · intro hb
      have := h (f b)
      simp only [List.filter_cons, beq_self_eq_true, if_true, List.map_cons, List.nodup_cons] at this
      apply this.1
      exact List.mem_map.2 ⟨b, List.mem_filter.2 ⟨hb, by simp⟩, rfl⟩
    · apply ih
      intro a
      have := h a
      simp only [List.filter_cons] at this
      split at this
      · simp only [List.map_cons, List.nodup_cons] at this; exact this.2
      · exact this


theorem nodup_pairs_of_classes {α : Type} (l : List α) (f g : α → Nat)
    (h : ∀ a, ((l.filter (fun b => f b == a)).map g).Nodup) : (l.map (fun b => (f b, g b))).Nodup := by
  induction l with
  | nil => exact List.nodup_nil
  | cons b l ih =>
    rw [List.map_cons, List.nodup_cons]
    constructor
    · intro hb
      obtain ⟨c, hc, hceq⟩ := List.mem_map.1 hb
      simp only [Prod.mk.injEq] at hceq
      have := h (f b)
      simp only [List.filter_cons, beq_self_eq_true, if_true, List.map_cons, List.nodup_cons] at this
      apply this.1
      exact List.mem_map.2 ⟨c, List.mem_filter.2 ⟨hc, by simp [hceq.1]⟩, hceq.2⟩
    · apply ih
      intro a
      have := h a
      simp only [List.filter_cons] at this
      split at this
      · simp only [List.map_cons, List.nodup_cons] at this; exact this.2
      · exact this

end OasisProofs.C09
