import OasisModel.Mkvs.Lazy
/-
Helper lemmas for `OasisProofs/Props/C03Fault.lean` (lazy MKVS tree, failing fetches).
-/
namespace OasisProofs.MkvsLazy
open OasisModel.Mkvs OasisModel.Mkvs.LT

/-! ### deref -/

theorem deref_of_not_stub (fetch : Oracle) {t : LT} (h : t.isStub = false) : deref fetch t = some t := by
  cases t <;> simp_all [deref, isStub]

theorem deref_not_stub {fetch : Oracle} {t t' : LT} (h : deref fetch t = some t') : t'.isStub = false := by
  cases t with
  | stub n =>
    simp only [deref] at h
    split at h
    · cases h
    · split at h
      · cases h
      · cases h; simp_all
  | nil => simp only [deref] at h; cases h; rfl
  | leaf k v => simp only [deref] at h; cases h; rfl
  | node lab lf l r => simp only [deref] at h; cases h; rfl

/-- What `deref` can be: the pointer itself when resident, the fetched node otherwise. -/
theorem deref_cases {fetch : Oracle} {t t' : LT} (h : deref fetch t = some t') :
    (t = t' ∧ t.isStub = false) ∨ (∃ n, t = .stub n ∧ fetch n = some t' ∧ t'.isStub = false) := by
  cases t with
  | stub n =>
    right
    simp only [deref] at h
    split at h
    · cases h
    · rename_i t0 h0
      split at h
      · cases h
      · cases h; exact ⟨n, rfl, h0, by simp_all⟩
  | nil => simp only [deref] at h; cases h; exact .inl ⟨rfl, rfl⟩
  | leaf k v => simp only [deref] at h; cases h; exact .inl ⟨rfl, rfl⟩
  | node lab lf l r => simp only [deref] at h; cases h; exact .inl ⟨rfl, rfl⟩

theorem deref_stable {fetch refetch : Oracle} (hs : Oracle.Stable fetch refetch) {t t' : LT}
    (h : deref fetch t = some t') : deref refetch t = some t' := by
  rcases deref_cases h with ⟨rfl, hn⟩ | ⟨n, rfl, hf, hn⟩
  · exact deref_of_not_stub _ hn
  · simp [deref, hs n t' hf, hn]

/-! ### Unfolds -/

theorem Unfolds.trans {fetch : Oracle} {a b c : LT} (h1 : Unfolds fetch a b) (h2 : Unfolds fetch b c) :
    Unfolds fetch a c := by
  induction h1 generalizing c with
  | refl t => exact h2
  | fetch hf _ ih => exact .fetch hf (ih h2)
  | node hl hr ihl ihr =>
    cases h2 with
    | refl => exact .node hl hr
    | node hl' hr' => exact .node (ihl hl') (ihr hr')

theorem deref_unfolds {fetch : Oracle} {t t' : LT} (h : deref fetch t = some t') : Unfolds fetch t t' := by
  rcases deref_cases h with ⟨rfl, _⟩ | ⟨n, rfl, hf, _⟩
  · exact .refl _
  · exact .fetch hf (.refl _)

/-- The pointer was dereferenced to an internal node whose children were then unfolded. -/
theorem unfolds_of_deref_node {fetch : Oracle} {t l r l' r' : LT} {lab : Bits} {lf : Option (Bytes × Bytes)}
    (h : deref fetch t = some (.node lab lf l r)) (hl : Unfolds fetch l l') (hr : Unfolds fetch r r') :
    Unfolds fetch t (.node lab lf l' r') :=
  Unfolds.trans (deref_unfolds h) (.node hl hr)

theorem Unfolds.same {fetch : Oracle} {a b : LT} (h : Unfolds fetch a b) : sameUpToFetch fetch a b := by
  induction h with
  | refl t => exact .refl t
  | fetch hf _ ih => exact .trans (.fetch hf) ih
  | node _ _ ihl ihr => exact .node ihl ihr

/-! ### Resolves -/

theorem Resolves.functional {fetch : Oracle} {t : LT} {T T' : Trie} (h : Resolves fetch t T)
    (h' : Resolves fetch t T') : T = T' := by
  induction h generalizing T' with
  | nil => cases h'; rfl
  | leaf k v => cases h'; rfl
  | fetch hf _ ih =>
    cases h' with
    | fetch hf' hr' => rw [hf] at hf'; cases hf'; exact ih hr'
  | node _ _ ihl ihr =>
    cases h' with
    | node hl' hr' => rw [ihl hl', ihr hr']

theorem resolves_ofTrie (fetch : Oracle) (T : Trie) : Resolves fetch (ofTrie T) T := by
  induction T with
  | nil => exact .nil
  | leaf k v => exact .leaf k v
  | node lab lf l r ihl ihr => exact .node ihl ihr

theorem resolves_stub_iff {fetch : Oracle} {n : Nat} {t : LT} (hf : fetch n = some t) (T : Trie) :
    Resolves fetch (.stub n) T ↔ Resolves fetch t T := by
  constructor
  · intro h
    cases h with
    | fetch hf' hr => rw [hf] at hf'; cases hf'; exact hr
  · exact .fetch hf

theorem resolves_deref {fetch : Oracle} {t t' : LT} (h : deref fetch t = some t') (T : Trie) :
    Resolves fetch t T ↔ Resolves fetch t' T := by
  rcases deref_cases h with ⟨rfl, _⟩ | ⟨n, rfl, hf, _⟩
  · exact Iff.rfl
  · exact resolves_stub_iff hf T

/-- Equality up to fetching does not change what a tree denotes. -/
theorem sameUpToFetch.resolves_iff {fetch : Oracle} {a b : LT} (h : sameUpToFetch fetch a b) (T : Trie) :
    Resolves fetch a T ↔ Resolves fetch b T := by
  induction h generalizing T with
  | refl t => exact Iff.rfl
  | symm _ ih => exact (ih T).symm
  | trans _ _ ih1 ih2 => exact (ih1 T).trans (ih2 T)
  | fetch hf => exact resolves_stub_iff hf T
  | node _ _ ihl ihr =>
    constructor
    · intro h
      cases h with
      | node hl hr => exact .node ((ihl _).1 hl) ((ihr _).1 hr)
    · intro h
      cases h with
      | node hl hr => exact .node ((ihl _).2 hl) ((ihr _).2 hr)

/-- … nor which bindings a reader can get to. -/
theorem sameUpToFetch.reach_iff {fetch : Oracle} {a b : LT} (h : sameUpToFetch fetch a b) (k v : Bytes) :
    Reach fetch a k v ↔ Reach fetch b k v := by
  induction h with
  | refl t => exact Iff.rfl
  | symm _ ih => exact ih.symm
  | trans _ _ ih1 ih2 => exact ih1.trans ih2
  | fetch hf =>
    constructor
    · intro h
      cases h with
      | fetch hf' hr => rw [hf] at hf'; cases hf'; exact hr
    · exact .fetch hf
  | node _ _ ihl ihr =>
    constructor
    · intro h
      cases h with
      | own k v => exact .own k v
      | left hl => exact .left (ihl.1 hl)
      | right hr => exact .right (ihr.1 hr)
    · intro h
      cases h with
      | own k v => exact .own k v
      | left hl => exact .left (ihl.2 hl)
      | right hr => exact .right (ihr.2 hr)

/-! ### denote / visible vs the relations -/

theorem denote_sound {fetch : Oracle} : ∀ (n : Nat) (t : LT) (T : Trie),
    denote fetch n t = some T → Resolves fetch t T
  | 0, _, _, h => by simp [denote] at h
  | n + 1, .nil, T, h => by simp only [denote] at h; cases h; exact .nil
  | n + 1, .leaf k v, T, h => by simp only [denote] at h; cases h; exact .leaf k v
  | n + 1, .stub m, T, h => by
    simp only [denote] at h
    split at h
    · cases h
    · rename_i t hf; exact .fetch hf (denote_sound n t T h)
  | n + 1, .node lab lf l r, T, h => by
    simp only [denote] at h
    split at h
    · rename_i L R hl hr; cases h
      exact .node (denote_sound n l L hl) (denote_sound n r R hr)
    · cases h

theorem denote_mono {fetch : Oracle} : ∀ (n : Nat) (t : LT) (T : Trie),
    denote fetch n t = some T → denote fetch (n + 1) t = some T
  | 0, _, _, h => by simp [denote] at h
  | n + 1, .nil, T, h => by simpa [denote] using h
  | n + 1, .leaf k v, T, h => by simpa [denote] using h
  | n + 1, .stub m, T, h => by
    simp only [denote] at h
    split at h
    · cases h
    · rename_i t hf
      have := denote_mono n t T h
      rw [denote, hf]; exact this
  | n + 1, .node lab lf l r, T, h => by
    simp only [denote] at h
    split at h
    · rename_i L R hl hr
      rw [denote, denote_mono n l L hl, denote_mono n r R hr]; exact h
    · cases h

theorem denote_mono_le {fetch : Oracle} {n m : Nat} (hnm : n ≤ m) {t : LT} {T : Trie}
    (h : denote fetch n t = some T) : denote fetch m t = some T := by
  induction hnm with
  | refl => exact h
  | step _ ih => exact denote_mono _ _ _ ih

theorem denote_complete {fetch : Oracle} {t : LT} {T : Trie} (h : Resolves fetch t T) :
    ∃ n, denote fetch n t = some T := by
  induction h with
  | nil => exact ⟨1, rfl⟩
  | leaf k v => exact ⟨1, rfl⟩
  | fetch hf _ ih =>
    obtain ⟨n, hn⟩ := ih
    exact ⟨n + 1, by rw [denote, hf]; exact hn⟩
  | node _ _ ihl ihr =>
    obtain ⟨n, hn⟩ := ihl
    obtain ⟨m, hm⟩ := ihr
    refine ⟨max n m + 1, ?_⟩
    rw [denote, denote_mono_le (Nat.le_max_left n m) hn, denote_mono_le (Nat.le_max_right n m) hm]

theorem reach_of_mem_visible {fetch : Oracle} : ∀ (n : Nat) (t : LT) (k v : Bytes),
    (k, v) ∈ visible fetch n t → Reach fetch t k v
  | 0, _, _, _, h => by simp [visible] at h
  | n + 1, .nil, _, _, h => by simp [visible] at h
  | n + 1, .leaf k' v', k, v, h => by
    simp only [visible, List.mem_singleton, Prod.mk.injEq] at h
    obtain ⟨rfl, rfl⟩ := h; exact .leaf _ _
  | n + 1, .stub m, k, v, h => by
    simp only [visible] at h
    split at h
    · simp at h
    · rename_i t hf; exact .fetch hf (reach_of_mem_visible n t k v h)
  | n + 1, .node lab lf l r, k, v, h => by
    simp only [visible, List.mem_append] at h
    rcases h with h | h | h
    · cases lf with
      | none => simp at h
      | some kv =>
        simp only [Option.toList, List.mem_singleton] at h
        subst h; exact .own _ _
    · exact .left (reach_of_mem_visible n l k v h)
    · exact .right (reach_of_mem_visible n r k v h)

/-! ### the write functions -/

theorem prependLabel_not_stub {lab : Bits} {t : LT} (h : t.isStub = false) :
    (LT.prependLabel lab t).isStub = false := by
  cases t <;> simp_all [LT.prependLabel, isStub]

theorem collapse_not_stub {lab : Bits} {lf : Option (Bytes × Bytes)} {l r : LT} {ch : Bool}
    (hl : l.isStub = false) (hr : r.isStub = false) : (LT.collapse lab lf l r ch).1.isStub = false := by
  unfold LT.collapse
  split
  · rfl
  · exact prependLabel_not_stub hl
  · exact prependLabel_not_stub hr
  · rfl

theorem finishRemove_ok_not_stub {refetch : Oracle} {evict : Bool} {lab : Bits} {lf : Option (Bytes × Bytes)}
    {l0 l1 r0 r1 nr : LT} {ch ch' : Bool} {ex ex' : Option Bytes}
    (h : finishRemove refetch evict lab lf l0 l1 r0 r1 ch ex = .ok nr ch' ex') : nr.isStub = false := by
  unfold finishRemove at h
  simp only at h
  split at h
  · cases h
  · rename_i l2 hl2
    split at h
    · cases h
    · rename_i r2 hr2
      cases h
      exact collapse_not_stub (deref_not_stub hl2) (deref_not_stub hr2)

/-- A successful `doRemove` never hands back a non-resident pointer. -/
theorem doRemove_ok_not_stub {fetch refetch : Oracle} {evict : Bool} {k : Bytes} {fuel : Nat} {t : LT} {d : Nat}
    {nr : LT} {ch : Bool} {ex : Option Bytes}
    (h : doRemove fetch refetch evict k fuel t d = .ok nr ch ex) : nr.isStub = false := by
  cases fuel with
  | zero => simp [doRemove] at h
  | succ fuel =>
    unfold doRemove at h
    split at h
    · cases h
    · cases h
    · cases h; rfl
    · split at h <;> cases h <;> rfl
    · simp only at h
      split at h
      · cases h; rfl
      · split at h
        · cases h
        · split at h
          · cases h
          · split at h
            · split at h
              · split at h <;> exact finishRemove_ok_not_stub h
              · exact finishRemove_ok_not_stub h
            · split at h
              · split at h
                · cases h
                · exact finishRemove_ok_not_stub h
              · split at h
                · cases h
                · exact finishRemove_ok_not_stub h

/-- Under a stable oracle the second dereference of the children (remove.go:126-133) cannot fail:
the prefetched node is either still resident or fetched again with the same answer. -/
theorem finishRemove_not_fail {fetch refetch : Oracle} (hs : Oracle.Stable fetch refetch) {evict : Bool}
    {lab : Bits} {lf : Option (Bytes × Bytes)} {l0 l1 r0 r1 : LT} {ch : Bool} {ex : Option Bytes}
    (hl : deref fetch l0 = some l1) (hr : deref fetch r0 = some r1) (mem : LT) :
    finishRemove refetch evict lab lf l0 l1 r0 r1 ch ex ≠ .fail mem := by
  have hl1 : deref refetch l1 = some l1 := deref_of_not_stub _ (deref_not_stub hl)
  have hr1 : deref refetch r1 = some r1 := deref_of_not_stub _ (deref_not_stub hr)
  have hl0 := deref_stable hs hl
  have hr0 := deref_stable hs hr
  unfold finishRemove
  cases evict <;> simp [hl1, hr1, hl0, hr0]

/-! ### fixtures of the non-vacuity examples in Props/C03Fault.lean -/

/-- Oracle of the examples: pointer 1 resolves to an internal node with a non-resident left child
(pointer 2); every other fetch fails. -/
def exFetch : Oracle := fun h =>
  if h = 1 then some (.node [false] none (.stub 2) (.leaf [0x40] [5])) else none

def exTree : LT := .node [] none (.stub 1) (.leaf [0x80] [2])

/-- Memory after the failed call: pointer 1 has been resolved, nothing else differs. -/
def exMem : LT := .node [] none (.node [false] none (.stub 2) (.leaf [0x40] [5])) (.leaf [0x80] [2])

/-! ### inversion of `Reach` (used by the witnesses) -/

@[simp] theorem reach_nil_iff {fetch : Oracle} {k v : Bytes} : Reach fetch .nil k v ↔ False :=
  ⟨fun h => (nomatch h), False.elim⟩

@[simp] theorem reach_leaf_iff {fetch : Oracle} {k' v' k v : Bytes} :
    Reach fetch (.leaf k' v') k v ↔ (k' = k ∧ v' = v) :=
  ⟨fun h => (by cases h; exact ⟨rfl, rfl⟩), fun ⟨h1, h2⟩ => (by subst h1; subst h2; exact .leaf _ _)⟩

@[simp] theorem reach_node_iff {fetch : Oracle} {lab : Bits} {lf : Option (Bytes × Bytes)} {l r : LT} {k v : Bytes} :
    Reach fetch (.node lab lf l r) k v ↔ (lf = some (k, v) ∨ Reach fetch l k v ∨ Reach fetch r k v) := by
  constructor
  · intro h
    cases h with
    | own => exact .inl rfl
    | left h => exact .inr (.inl h)
    | right h => exact .inr (.inr h)
  · rintro (h | h | h)
    · subst h; exact .own _ _
    · exact .left h
    · exact .right h

theorem reach_stub_iff {fetch : Oracle} {n : Nat} {k v : Bytes} :
    Reach fetch (.stub n) k v ↔ ∃ t, fetch n = some t ∧ Reach fetch t k v :=
  ⟨fun h => (by cases h with | fetch hf hr => exact ⟨_, hf, hr⟩), fun ⟨_, hf, hr⟩ => .fetch hf hr⟩

theorem reach_stub_none {fetch : Oracle} {n : Nat} {k v : Bytes} (h : fetch n = none) :
    ¬ Reach fetch (.stub n) k v := by
  rw [reach_stub_iff]; rintro ⟨t, hf, _⟩; rw [h] at hf; cases hf

theorem stable_refl (fetch : Oracle) : Oracle.Stable fetch fetch := fun _ _ h => h

/-! ### refinement on success -/

theorem resolves_nil_inv {fetch : Oracle} {T : Trie} (h : Resolves fetch .nil T) : T = .nil := by
  cases h; rfl

theorem resolves_leaf_inv {fetch : Oracle} {k v : Bytes} {T : Trie} (h : Resolves fetch (.leaf k v) T) :
    T = .leaf k v := by
  cases h; rfl

theorem resolves_node_inv {fetch : Oracle} {lab : Bits} {lf : Option (Bytes × Bytes)} {l r : LT} {T : Trie}
    (h : Resolves fetch (.node lab lf l r) T) :
    ∃ L R, T = .node lab lf L R ∧ Resolves fetch l L ∧ Resolves fetch r R := by
  cases h with
  | node hl hr => exact ⟨_, _, rfl, hl, hr⟩

theorem collapse_refines {fetch : Oracle} {lab : Bits} {lf : Option (Bytes × Bytes)} {l r : LT} {L R : Trie}
    {ch : Bool} (hl : l.isStub = false) (hr : r.isStub = false)
    (hL : Resolves fetch l L) (hR : Resolves fetch r R) :
    Resolves fetch (LT.collapse lab lf l r ch).1 (Trie.collapse lab lf L R ch).1 ∧
    (LT.collapse lab lf l r ch).2 = (Trie.collapse lab lf L R ch).2 := by
  cases hL with
  | fetch _ _ => simp [isStub] at hl
  | nil =>
    cases hR with
    | fetch _ _ => simp [isStub] at hr
    | nil =>
      rcases lf with _ | ⟨k1, v1⟩ <;> simp [LT.collapse, Trie.collapse, LT.prependLabel, Trie.prependLabel] <;>
        first | exact .nil | exact .leaf _ _ | exact .node .nil .nil
    | leaf k v =>
      rcases lf with _ | ⟨k1, v1⟩ <;> simp [LT.collapse, Trie.collapse, LT.prependLabel, Trie.prependLabel] <;>
        first | exact .leaf _ _ | exact .node .nil (.leaf _ _)
    | node hl' hr' =>
      rcases lf with _ | ⟨k1, v1⟩ <;> simp [LT.collapse, Trie.collapse, LT.prependLabel, Trie.prependLabel] <;>
        first | exact .node hl' hr' | exact .node .nil (.node hl' hr')
  | leaf k v =>
    cases hR with
    | fetch _ _ => simp [isStub] at hr
    | nil =>
      rcases lf with _ | ⟨k1, v1⟩ <;> simp [LT.collapse, Trie.collapse, LT.prependLabel, Trie.prependLabel] <;>
        first | exact .leaf _ _ | exact .node (.leaf _ _) .nil
    | leaf k' v' =>
      rcases lf with _ | ⟨k1, v1⟩ <;> simp [LT.collapse, Trie.collapse] <;>
        exact .node (.leaf _ _) (.leaf _ _)
    | node hl' hr' =>
      rcases lf with _ | ⟨k1, v1⟩ <;> simp [LT.collapse, Trie.collapse] <;>
        exact .node (.leaf _ _) (.node hl' hr')
  | node hl1 hr1 =>
    cases hR with
    | fetch _ _ => simp [isStub] at hr
    | nil =>
      rcases lf with _ | ⟨k1, v1⟩ <;> simp [LT.collapse, Trie.collapse, LT.prependLabel, Trie.prependLabel] <;>
        first | exact .node hl1 hr1 | exact .node (.node hl1 hr1) .nil
    | leaf k' v' =>
      rcases lf with _ | ⟨k1, v1⟩ <;> simp [LT.collapse, Trie.collapse] <;>
        exact .node (.node hl1 hr1) (.leaf _ _)
    | node hl' hr' =>
      rcases lf with _ | ⟨k1, v1⟩ <;> simp [LT.collapse, Trie.collapse] <;>
        exact .node (.node hl1 hr1) (.node hl' hr')

theorem finishRemove_refines {fetch refetch : Oracle} (hs : Oracle.Stable fetch refetch) {evict : Bool}
    {lab : Bits} {lf : Option (Bytes × Bytes)} {l0 l1 r0 r1 nr : LT} {L R : Trie} {ch ch' : Bool}
    {ex ex' : Option Bytes}
    (hl : deref fetch l0 = some l1) (hr : deref fetch r0 = some r1)
    (hL : Resolves fetch l1 L) (hR : Resolves fetch r1 R)
    (h : finishRemove refetch evict lab lf l0 l1 r0 r1 ch ex = .ok nr ch' ex') :
    Resolves fetch nr (Trie.collapse lab lf L R ch).1 ∧ ch' = (Trie.collapse lab lf L R ch).2 ∧ ex' = ex := by
  have hl1 : deref refetch l1 = some l1 := deref_of_not_stub _ (deref_not_stub hl)
  have hr1 : deref refetch r1 = some r1 := deref_of_not_stub _ (deref_not_stub hr)
  have hl0 := deref_stable hs hl
  have hr0 := deref_stable hs hr
  have hc := collapse_refines (lab := lab) (lf := lf) (ch := ch) (deref_not_stub hl) (deref_not_stub hr) hL hR
  unfold finishRemove at h
  cases evict <;> simp [hl1, hr1, hl0, hr0] at h <;> obtain ⟨h1, h2, h3⟩ := h <;>
    exact ⟨h1 ▸ hc.1, h2 ▸ hc.2, h3.symm⟩

theorem doInsert_refines (fetch : Oracle) (k v : Bytes) :
    ∀ (fuel : Nat) (t : LT) (d : Nat) (T : Trie) (nr : LT) (ex : Bool),
      Resolves fetch t T → doInsert fetch k v fuel t d = .ok nr ex →
      Resolves fetch nr (T.insertAux k v d).1 ∧ ex = (T.insertAux k v d).2 := by
  intro fuel
  induction fuel with
  | zero => intro t d T nr ex _ h; simp [doInsert] at h
  | succ fuel ih =>
    intro t d T nr ex hT h
    unfold doInsert at h
    split at h
    · cases h
    · cases h
    · rename_i hd
      have := resolves_nil_inv ((resolves_deref hd T).1 hT)
      subst this; cases h
      exact ⟨.leaf k v, rfl⟩
    · rename_i k' v' hd
      have := resolves_leaf_inv ((resolves_deref hd T).1 hT)
      subst this; cases h
      exact ⟨resolves_ofTrie _ _, rfl⟩
    · rename_i lab lf l r hd
      obtain ⟨L, R, rfl, hL, hR⟩ := resolves_node_inv ((resolves_deref hd T).1 hT)
      simp only at h
      simp only [Trie.insertAux]
      split at h
      · rename_i hcp
        rw [if_pos hcp]
        split at h
        · rename_i heq
          cases h
          simp only [heq]
          exact ⟨.node hL hR, rfl⟩
        · rename_i tl heq
          simp only [heq]
          split at h
          · cases h
          · rename_i nr' ex' hok
            cases h
            obtain ⟨h1, h2⟩ := ih _ _ _ _ _ hR hok
            exact ⟨.node hL h1, h2⟩
        · rename_i tl heq
          simp only [heq]
          split at h
          · cases h
          · rename_i nl' ex' hok
            cases h
            obtain ⟨h1, h2⟩ := ih _ _ _ _ _ hL hok
            exact ⟨.node h1 hR, h2⟩
      · rename_i hcp
        rw [if_neg hcp]
        cases h
        refine ⟨?_, rfl⟩
        simp only
        generalize List.drop (lcp lab (List.drop d (toBits k))) (List.drop d (toBits k)) = x
        generalize List.drop (lcp lab (List.drop d (toBits k))) lab = suf
        rcases x with _ | ⟨_ | _, _⟩
        · rcases suf with _ | ⟨_ | _, _⟩ <;>
            first | exact .node .nil (.node hL hR) | exact .node (.node hL hR) .nil
        · exact .node (.leaf _ _) (.node hL hR)
        · exact .node (.node hL hR) (.leaf _ _)

theorem doRemove_refines (fetch refetch : Oracle) (hs : Oracle.Stable fetch refetch) (evict : Bool) (k : Bytes) :
    ∀ (fuel : Nat) (t : LT) (d : Nat) (T : Trie) (nr : LT) (ch : Bool) (ex : Option Bytes),
      Resolves fetch t T → doRemove fetch refetch evict k fuel t d = .ok nr ch ex →
      Resolves fetch nr (T.removeAux k d).1 ∧ ch = (T.removeAux k d).2.1 ∧ ex = (T.removeAux k d).2.2 := by
  intro fuel
  induction fuel with
  | zero => intro t d T nr ch ex _ h; simp [doRemove] at h
  | succ fuel ih =>
    intro t d T nr ch ex hT h
    unfold doRemove at h
    split at h
    · cases h
    · cases h
    · rename_i hd
      have := resolves_nil_inv ((resolves_deref hd T).1 hT)
      subst this; cases h
      exact ⟨.nil, rfl, rfl⟩
    · rename_i k' v' hd
      have := resolves_leaf_inv ((resolves_deref hd T).1 hT)
      subst this
      simp only [Trie.removeAux]
      split at h
      · rename_i hk; cases h; rw [if_pos hk]; exact ⟨.nil, rfl, rfl⟩
      · rename_i hk; cases h; rw [if_neg hk]; exact ⟨.leaf _ _, rfl, rfl⟩
    · rename_i lab lf l r hd
      obtain ⟨L, R, rfl, hL, hR⟩ := resolves_node_inv ((resolves_deref hd T).1 hT)
      simp only at h
      simp only [Trie.removeAux]
      split at h
      · rename_i hlt
        cases h; rw [if_pos hlt]
        exact ⟨.node hL hR, rfl, rfl⟩
      · rename_i hlt
        rw [if_neg hlt]
        split at h
        · cases h
        · rename_i l1 hl1
          split at h
          · cases h
          · rename_i r1 hr1
            have hL1 := (resolves_deref hl1 L).1 hL
            have hR1 := (resolves_deref hr1 R).1 hR
            split at h
            · rename_i heq
              rw [if_pos heq]
              split at h
              · rename_i k' v'
                simp only
                split at h
                · rename_i hk
                  rw [if_pos hk]
                  obtain ⟨h1, h2, h3⟩ := finishRemove_refines hs hl1 hr1 hL1 hR1 h
                  exact ⟨h1, h2, h3⟩
                · rename_i hk
                  rw [if_neg hk]
                  obtain ⟨h1, h2, h3⟩ := finishRemove_refines hs hl1 hr1 hL1 hR1 h
                  exact ⟨h1, h2, h3⟩
              · simp only
                obtain ⟨h1, h2, h3⟩ := finishRemove_refines hs hl1 hr1 hL1 hR1 h
                exact ⟨h1, h2, h3⟩
            · rename_i heq
              rw [if_neg heq]
              split at h
              · rename_i tl hdrop
                simp only [hdrop]
                split at h
                · cases h
                · rename_i nr' ch' ex' hok
                  obtain ⟨i1, i2, i3⟩ := ih _ _ _ _ _ _ hR1 hok
                  have hnr : deref fetch nr' = some nr' := deref_of_not_stub _ (doRemove_ok_not_stub hok)
                  obtain ⟨h1, h2, h3⟩ := finishRemove_refines hs hl1 hnr hL1 i1 h
                  subst i2; subst i3
                  exact ⟨h1, h2, h3⟩
              · rename_i hdrop
                have hres : Resolves fetch nr
                      (Trie.collapse lab lf (Trie.removeAux k L (d + lab.length)).1 R
                        (Trie.removeAux k L (d + lab.length)).2.1).1 ∧
                    ch = (Trie.collapse lab lf (Trie.removeAux k L (d + lab.length)).1 R
                        (Trie.removeAux k L (d + lab.length)).2.1).2 ∧
                    ex = (Trie.removeAux k L (d + lab.length)).2.2 := by
                  split at h
                  · cases h
                  · rename_i nl' ch' ex' hok
                    obtain ⟨i1, i2, i3⟩ := ih _ _ _ _ _ _ hL1 hok
                    have hnl : deref fetch nl' = some nl' := deref_of_not_stub _ (doRemove_ok_not_stub hok)
                    obtain ⟨h1, h2, h3⟩ := finishRemove_refines hs hnl hr1 i1 hR1 h
                    subst i2; subst i3
                    exact ⟨h1, h2, h3⟩
                generalize List.drop (d + lab.length) (toBits k) = x at hdrop
                rcases x with _ | ⟨_ | _, tl⟩
                · exact hres
                · exact hres
                · exact absurd rfl (hdrop tl)

end OasisProofs.MkvsLazy
