import OasisModel.Mkvs.Lru
import Mathlib.Data.Finset.Card
import Mathlib.Data.List.Nodup
/-
Transparency of the node-cache replacement policy (model: OasisModel/Mkvs/Lru.lean): while one tree
operation runs, no node it has dereferenced leaves the cache, provided the capacity exceeds the
number of distinct nodes the operation dereferences.
-/
namespace OasisProofs.Mkvs
open OasisModel.Mkvs
open OasisModel.Mkvs.Lru

theorem filter_ne_length {x : Nat} {l : List Nat} (h : x ∈ l) :
    (l.filter (fun y => !(y == x))).length + 1 ≤ l.length := by
  induction l with
  | nil => simp at h
  | cons a as ih =>
    by_cases hax : a = x
    · subst hax
      simp only [List.filter_cons, beq_self_eq_true, Bool.not_true, Bool.false_eq_true, if_false,
        List.length_cons]
      have := List.length_filter_le (fun y => !(y == a)) as
      omega
    · have hx : x ∈ as := by
        rcases List.mem_cons.mp h with h | h
        · exact absurd h.symm hax
        · exact h
      have hb : (!(a == x)) = true := by simp [hax]
      simp only [List.filter_cons, hb, if_true, List.length_cons]
      have := ih hx
      omega

theorem mem_insertAfter (q p x : Nat) (l : List Nat) : x ∈ insertAfter q p l ↔ x = p ∨ x ∈ l := by
  induction l with
  | nil => simp [insertAfter]
  | cons a as ih =>
    simp only [insertAfter]
    split
    · simp only [List.mem_cons]; constructor <;> (intro h; rcases h with h | h | h <;> simp [h])
    · simp only [List.mem_cons, ih]; constructor <;> (intro h; rcases h with h | h | h <;> simp [h])

theorem length_insertAfter (q p : Nat) (l : List Nat) : (insertAfter q p l).length = l.length + 1 := by
  induction l with
  | nil => simp [insertAfter]
  | cons a as ih =>
    simp only [insertAfter]
    split <;> simp [ih]

theorem insertAfter_append (q p : Nat) (a b : List Nat) (h : q ∈ a) :
    insertAfter q p (a ++ b) = insertAfter q p a ++ b := by
  induction a with
  | nil => simp at h
  | cons x xs ih =>
    simp only [List.cons_append, insertAfter]
    by_cases hx : x = q
    · simp [hx]
    · have : q ∈ xs := by
        rcases List.mem_cons.mp h with h | h
        · exact absurd h.symm hx
        · exact h
      simp [hx, ih this]


/-- Making room never removes a node of the running operation: if the nodes `T` the operation has
touched all sit in the front part of the list, nothing behind it has been touched, `T` contains the
ancestors of its members, and the capacity exceeds the length of the front part, then every victim
comes from the part behind. -/
theorem evict_spec (below : Nat → List Nat) (cap : Nat) (T : List Nat)
    (hclT : ∀ t ∈ T, ∀ a, t ∈ below a → a ∈ T) :
    ∀ (fuel : Nat) (front rest : List Nat), (∀ x ∈ T, x ∈ front) → (∀ x ∈ rest, x ∉ T) →
      front.length + 1 ≤ cap →
      ∃ front' rest', evict below cap fuel (front ++ rest) = front' ++ rest' ∧
        (∀ x ∈ T, x ∈ front') ∧ (∀ x ∈ front', x ∈ front) ∧ front'.length ≤ front.length ∧
        (∀ x ∈ rest', x ∈ rest) := by
  intro fuel
  induction fuel with
  | zero => intro front rest hT _ _; exact ⟨front, rest, rfl, hT, fun _ h => h, Nat.le_refl _, fun _ h => h⟩
  | succ fuel ih =>
    intro front rest hT hrest hcap
    simp only [evict]
    by_cases hfull : cap < (front ++ rest).length + 1
    · simp only [hfull, if_true]
      have hne : rest ≠ [] := by
        intro h; subst h; simp at hfull; omega
      cases hlast : (front ++ rest).getLast? with
      | none => exact ⟨front, rest, rfl, hT, fun _ h => h, Nat.le_refl _, fun _ h => h⟩
      | some v =>
        simp only
        have hv : v ∈ rest := by
          rw [List.getLast?_append] at hlast
          cases hr : rest.getLast? with
          | none => exact absurd (List.getLast?_eq_none_iff.mp hr) hne
          | some w =>
            rw [hr] at hlast
            simp at hlast
            subst hlast
            exact List.mem_of_getLast? hr
        have hvT : v ∉ T := hrest v hv
        simp only [removeSubtree, List.filter_append]
        have hT' : ∀ x ∈ T, x ∈ front.filter (fun x => !(x == v) && !(below v).contains x) := by
          intro x hx
          apply List.mem_filter.mpr
          refine ⟨hT x hx, ?_⟩
          have h1 : x ≠ v := fun e => hvT (e ▸ hx)
          have h2 : x ∉ below v := fun hb => hvT (hclT x hx v hb)
          simp [h1, h2]
        have hrest' : ∀ x ∈ rest.filter (fun x => !(x == v) && !(below v).contains x), x ∉ T :=
          fun x hx => hrest x (List.mem_filter.mp hx).1
        have hlen' : (front.filter (fun x => !(x == v) && !(below v).contains x)).length + 1 ≤ cap := by
          have := List.length_filter_le (fun x => !(x == v) && !(below v).contains x) front
          omega
        obtain ⟨f', r', he, h1, h2, h3, h4⟩ := ih _ _ hT' hrest' hlen'
        refine ⟨f', r', he, h1, fun x hx => (List.mem_filter.mp (h2 x hx)).1, ?_, fun x hx => (List.mem_filter.mp (h4 x hx)).1⟩
        have := List.length_filter_le (fun x => !(x == v) && !(below v).contains x) front
        omega
    · simp only [hfull, if_false]
      exact ⟨front, rest, rfl, hT, fun _ h => h, Nat.le_refl _, fun _ h => h⟩


theorem evict_sublist (below : Nat → List Nat) (cap : Nat) :
    ∀ (fuel : Nat) (l : List Nat), (evict below cap fuel l).Sublist l := by
  intro fuel
  induction fuel with
  | zero => intro l; exact List.Sublist.refl _
  | succ fuel ih =>
    intro l
    simp only [evict]
    split
    · cases l.getLast? with
      | none => exact List.Sublist.refl _
      | some v => exact (ih _).trans List.filter_sublist
    · exact List.Sublist.refl _

theorem nodup_insertAfter (q p : Nat) (l : List Nat) (hl : l.Nodup) (hp : p ∉ l) :
    (insertAfter q p l).Nodup := by
  induction l with
  | nil => simp [insertAfter]
  | cons a as ih =>
    have hnd := List.nodup_cons.mp hl
    have hpa : p ≠ a := fun e => hp (e ▸ List.mem_cons_self)
    have hpas : p ∉ as := fun h => hp (List.mem_cons_of_mem _ h)
    simp only [insertAfter]
    split
    · refine List.nodup_cons.mpr ⟨?_, List.nodup_cons.mpr ⟨hpas, hnd.2⟩⟩
      intro h
      rcases List.mem_cons.mp h with h | h
      · exact hpa h.symm
      · exact hnd.1 h
    · refine List.nodup_cons.mpr ⟨?_, ih hnd.2 hpas⟩
      intro h
      rcases (mem_insertAfter q p a as).mp h with h | h
      · exact hpa h.symm
      · exact hnd.1 h

/-- The invariant of a running operation: the list splits into a front part that holds every node
touched so far (`T`, the distinct members of `seen`) and at most one more node (the marked one), and
a part behind it that holds no touched node. -/
structure Inv (below : Nat → List Nat) (seen T : List Nat) (s : Lru) (front rest : List Nat) : Prop where
  hlist : s.list = front ++ rest
  hndl : s.list.Nodup
  hseen : ∀ x, x ∈ T ↔ x ∈ seen
  hnd : T.Nodup
  hfront : ∀ x ∈ T, x ∈ front
  hrest : ∀ x ∈ rest, x ∉ T
  hpos : ∀ q, s.pos = some q → q ∈ front
  hlen : front.length ≤ T.length + 1
  hcl : ∀ t ∈ T, ∀ a, t ∈ below a → a ∈ T

theorem deref_step (below : Nat → List Nat) (seen T : List Nat) (s : Lru) (front rest : List Nat) (p : Nat)
    (inv : Inv below seen T s front rest)
    (hanc : ∀ a, p ∈ below a → a ∈ seen)
    (hcap : s.cap = 0 ∨ (p ∉ T → T.length + 2 ≤ s.cap)) :
    ∃ T' front' rest', Inv below (p :: seen) T' (deref below s p) front' rest' ∧
      (deref below s p).cap = s.cap ∧ (∀ x ∈ T', x = p ∨ x ∈ T) := by
  obtain ⟨hlist, hndl, hseen, hnd, hfront, hrest, hpos, hlen, hcl⟩ := inv
  have hclp : ∀ a, p ∈ below a → a ∈ T := fun a h => (hseen a).mpr (hanc a h)
  by_cases hin : p ∈ s.list
  · -- the node is cached: it moves to the front
    have hd : deref below s p = s.use p := by simp [deref, hin]
    rw [hd]
    have hl' : (s.use p).list = (p :: front.filter (fun x => !(x == p))) ++ rest.filter (fun x => !(x == p)) := by
      simp [Lru.use, hlist, List.filter_append]
    have hndl' : (s.use p).list.Nodup := by
      simp only [Lru.use]
      refine List.nodup_cons.mpr ⟨?_, hndl.filter _⟩
      intro h; have := (List.mem_filter.mp h).2; simp at this
    have hposf : ∀ q, (s.use p).pos = some q → q ∈ p :: front.filter (fun x => !(x == p)) := by
      intro q hq
      have hqf : q ∈ front := hpos q hq
      by_cases e : q = p
      · simp [e]
      · exact List.mem_cons_of_mem _ (List.mem_filter.mpr ⟨hqf, by simp [e]⟩)
    have hrest' : ∀ T' : List Nat, (∀ x ∈ T', x = p ∨ x ∈ T) → ∀ x ∈ rest.filter (fun x => !(x == p)), x ∉ T' := by
      intro T' hT' x hx hxT
      have hx' := List.mem_filter.mp hx
      rcases hT' x hxT with e | e
      · simp [e] at hx'
      · exact hrest x hx'.1 e
    by_cases hpT : p ∈ T
    · refine ⟨T, _, _, ⟨hl', hndl', ?_, hnd, ?_, hrest' T (fun x hx => Or.inr hx), hposf, ?_, hcl⟩, rfl, fun x hx => Or.inr hx⟩
      · intro x; rw [hseen x, List.mem_cons]
        constructor
        · exact fun h => Or.inr h
        · rintro (h | h)
          · exact h ▸ (hseen p).mp hpT
          · exact h
      · intro x hx
        by_cases e : x = p
        · simp [e]
        · exact List.mem_cons_of_mem _ (List.mem_filter.mpr ⟨hfront x hx, by simp [e]⟩)
      · have := filter_ne_length (hfront p hpT)
        simp only [List.length_cons]; omega
    · refine ⟨p :: T, _, _, ⟨hl', hndl', ?_, List.nodup_cons.mpr ⟨hpT, hnd⟩, ?_, hrest' (p :: T) (fun x hx => List.mem_cons.mp hx), hposf, ?_, ?_⟩, rfl, fun x hx => List.mem_cons.mp hx⟩
      · intro x; simp only [List.mem_cons, hseen x]
      · intro x hx
        rcases List.mem_cons.mp hx with e | hx
        · simp [e]
        · have e : x ≠ p := fun e => hpT (e ▸ hx)
          exact List.mem_cons_of_mem _ (List.mem_filter.mpr ⟨hfront x hx, by simp [e]⟩)
      · have := List.length_filter_le (fun x => !(x == p)) front
        simp only [List.length_cons]; omega
      · intro t ht a hta
        rcases List.mem_cons.mp ht with e | ht
        · exact List.mem_cons_of_mem _ (hclp a (e ▸ hta))
        · exact List.mem_cons_of_mem _ (hcl t ht a hta)
  · -- the node is fetched: room is made behind the operation's nodes, then it is inserted
    have hpT : p ∉ T := fun h => hin (by rw [hlist]; exact List.mem_append_left _ (hfront p h))
    have hd : deref below s p = s.load below p := by simp [deref, hin]
    rw [hd]
    -- the list after making room
    have hroom : ∃ front1 rest1,
        (if s.cap = 0 then s.list else evict below s.cap s.list.length s.list) = front1 ++ rest1 ∧
        (∀ x ∈ T, x ∈ front1) ∧ (∀ x ∈ front1, x ∈ front) ∧ front1.length ≤ front.length ∧
        (∀ x ∈ rest1, x ∈ rest) ∧ (front1 ++ rest1).Nodup := by
      by_cases hc0 : s.cap = 0
      · exact ⟨front, rest, by simp [hc0, hlist], hfront, fun _ h => h, Nat.le_refl _, fun _ h => h, hlist ▸ hndl⟩
      · have hc : T.length + 2 ≤ s.cap := by
          rcases hcap with h | h
          · exact absurd h hc0
          · exact h hpT
        obtain ⟨f1, r1, he, h1, h2, h3, h4⟩ :=
          evict_spec below s.cap T hcl s.list.length front rest hfront hrest (by omega)
        refine ⟨f1, r1, by simp only [hc0, if_false]; rw [hlist]; rw [hlist] at he; exact he, h1, h2, h3, h4, ?_⟩
        have hs := evict_sublist below s.cap s.list.length s.list
        rw [hlist] at hs he
        rw [← he]
        exact (hlist ▸ hndl).sublist hs
    obtain ⟨front1, rest1, hl1, hT1, hf1, hlen1, hr1, hnd1⟩ := hroom
    have hpl1 : p ∉ front1 ++ rest1 := by
      intro h
      rcases List.mem_append.mp h with h | h
      · exact hin (by rw [hlist]; exact List.mem_append_left _ (hf1 p h))
      · exact hin (by rw [hlist]; exact List.mem_append_right _ (hr1 p h))
    have hrest1 : ∀ x ∈ rest1, x ∉ p :: T := by
      intro x hx hxT
      rcases List.mem_cons.mp hxT with e | e
      · exact hpl1 (e ▸ List.mem_append_right _ hx)
      · exact hrest x (hr1 x hx) e
    have hseen' : ∀ x, x ∈ p :: T ↔ x ∈ p :: seen := by
      intro x; simp only [List.mem_cons, hseen x]
    have hcl' : ∀ t ∈ p :: T, ∀ a, t ∈ below a → a ∈ p :: T := by
      intro t ht a hta
      rcases List.mem_cons.mp ht with e | ht
      · exact List.mem_cons_of_mem _ (hclp a (e ▸ hta))
      · exact List.mem_cons_of_mem _ (hcl t ht a hta)
    have hndT' : (p :: T).Nodup := List.nodup_cons.mpr ⟨hpT, hnd⟩
    have hmem' : ∀ x ∈ p :: T, x = p ∨ x ∈ T := fun x hx => List.mem_cons.mp hx
    -- inserted at the front
    have atFront : ∀ (pos' : Option Nat), (∀ q, pos' = some q → q ∈ p :: front1) →
        Inv below (p :: seen) (p :: T) { s with list := p :: (front1 ++ rest1), pos := pos' } (p :: front1) rest1 := by
      intro pos' hp'
      refine ⟨rfl, List.nodup_cons.mpr ⟨hpl1, hnd1⟩, hseen', hndT', ?_, hrest1, hp', ?_, hcl'⟩
      · intro x hx
        rcases List.mem_cons.mp hx with e | hx
        · simp [e]
        · exact List.mem_cons_of_mem _ (hT1 x hx)
      · simp only [List.length_cons]; omega
    simp only [Lru.load, hl1]
    cases hq : s.pos with
    | none =>
      simp only
      exact ⟨p :: T, p :: front1, rest1, atFront none (fun q h => by simp at h), trivial, hmem'⟩
    | some q =>
      simp only
      by_cases hql : (front1 ++ rest1).contains q = true
      · simp only [hql, if_true]
        have hqfront : q ∈ front := hpos q hq
        have hqnotrest : q ∉ rest := by
          intro h
          have := (List.nodup_append.mp (hlist ▸ hndl)).2.2 q hqfront q h
          exact this rfl
        have hq1 : q ∈ front1 := by
          have : q ∈ front1 ++ rest1 := by simpa using hql
          rcases List.mem_append.mp this with h | h
          · exact h
          · exact absurd (hr1 q h) hqnotrest
        refine ⟨p :: T, insertAfter q p front1, rest1, ⟨?_, ?_, hseen', hndT', ?_, hrest1, ?_, ?_, hcl'⟩, trivial, hmem'⟩
        · exact insertAfter_append q p front1 rest1 hq1
        · exact nodup_insertAfter q p _ hnd1 hpl1
        · intro x hx
          apply (mem_insertAfter q p x front1).mpr
          rcases List.mem_cons.mp hx with e | hx
          · exact Or.inl e
          · exact Or.inr (hT1 x hx)
        · intro q' hq'
          have : q' = q := by simpa [hq] using hq'.symm
          subst this
          exact (mem_insertAfter _ p _ front1).mpr (Or.inr hq1)
        · rw [length_insertAfter]; simp only [List.length_cons]; omega
      · simp only [hql, Bool.false_eq_true, if_false]
        exact ⟨p :: T, p :: front1, rest1, atFront none (fun q h => by simp at h), trivial, hmem'⟩


theorem run_keeps (below : Nat → List Nat) :
    ∀ (ps seen T : List Nat) (s : Lru) (front rest : List Nat),
      Inv below seen T s front rest →
      AncestorClosed below seen ps →
      (s.cap = 0 ∨ ∀ T' : List Nat, T'.Nodup → (∀ x ∈ T', x ∈ seen ∨ x ∈ ps) → T'.length + 1 ≤ s.cap) →
      ∃ T' front' rest', Inv below (ps.reverse ++ seen) T' (ps.foldl (deref below) s) front' rest' := by
  intro ps
  induction ps with
  | nil => intro seen T s front rest inv _ _; exact ⟨T, front, rest, by simpa using inv⟩
  | cons p ps ih =>
    intro seen T s front rest inv hclosed hcap
    obtain ⟨hanc, hclosed'⟩ := hclosed
    have hstepcap : s.cap = 0 ∨ (p ∉ T → T.length + 2 ≤ s.cap) := by
      rcases hcap with h | h
      · exact Or.inl h
      · refine Or.inr (fun hpT => ?_)
        have := h (p :: T) (List.nodup_cons.mpr ⟨hpT, inv.hnd⟩) (by
          intro x hx
          rcases List.mem_cons.mp hx with e | hx
          · exact Or.inr (e ▸ List.mem_cons_self)
          · exact Or.inl ((inv.hseen x).mp hx))
        simpa using this
    obtain ⟨T1, f1, r1, inv1, hcapeq, _⟩ := deref_step below seen T s front rest p inv hanc hstepcap
    have hcap1 : (deref below s p).cap = 0 ∨ ∀ T' : List Nat, T'.Nodup →
        (∀ x ∈ T', x ∈ p :: seen ∨ x ∈ ps) → T'.length + 1 ≤ (deref below s p).cap := by
      rw [hcapeq]
      rcases hcap with h | h
      · exact Or.inl h
      · refine Or.inr (fun T' hnd hmem => h T' hnd (fun x hx => ?_))
        rcases hmem x hx with hm | hm
        · rcases List.mem_cons.mp hm with e | hm
          · exact Or.inr (e ▸ List.mem_cons_self)
          · exact Or.inl hm
        · exact Or.inr (List.mem_cons_of_mem _ hm)
    obtain ⟨T2, f2, r2, inv2⟩ := ih (p :: seen) T1 (deref below s p) f1 r1 inv1 hclosed' hcap1
    refine ⟨T2, f2, r2, ?_⟩
    simpa [List.foldl_cons, List.reverse_cons, List.append_assoc] using inv2

theorem inv_mark (below : Nat → List Nat) (s : Lru) (hnd : s.list.Nodup) :
    ∃ front rest, Inv below [] [] s.mark front rest := by
  cases hl : s.list with
  | nil =>
    refine ⟨[], [], ⟨by simp [Lru.mark, hl], by simp [Lru.mark, hl], by simp, List.nodup_nil, by simp, by simp, ?_, by simp, by simp⟩⟩
    intro q hq; simp [Lru.mark, hl] at hq
  | cons h t =>
    refine ⟨[h], t, ⟨by simp [Lru.mark, hl], by rw [hl] at hnd; simpa [Lru.mark, hl] using hnd, by simp, List.nodup_nil, by simp, by simp, ?_, by simp, by simp⟩⟩
    intro q hq
    simp [Lru.mark, hl] at hq
    simp [hq]

theorem ancestorClosed_take (below : Nat → List Nat) :
    ∀ (ps seen : List Nat) (n : Nat), AncestorClosed below seen ps → AncestorClosed below seen (ps.take n) := by
  intro ps
  induction ps with
  | nil => intro seen n h; simpa using h
  | cons p ps ih =>
    intro seen n h
    cases n with
    | zero => simp [AncestorClosed]
    | succ n => exact ⟨h.1, ih (p :: seen) n h.2⟩

/-- **Transparency of the replacement policy.** One tree operation: `markPosition`, then the
dereferences `ps` (every node after all nodes above it).  If the cache is unlimited or its capacity
exceeds the number of distinct nodes in `ps`, every node of `ps` is still cached when the operation
ends. -/
theorem held_nodes_stay_end (below : Nat → List Nat) (s : Lru) (ps : List Nat) (hnd : s.list.Nodup)
    (hclosed : AncestorClosed below [] ps)
    (hcap : s.cap = 0 ∨ ps.toFinset.card + 1 ≤ s.cap) :
    ∀ x ∈ ps, x ∈ (runOp below s ps).list := by
  obtain ⟨front, rest, inv0⟩ := inv_mark below s hnd
  have hcap' : s.mark.cap = 0 ∨ ∀ T' : List Nat, T'.Nodup → (∀ x ∈ T', x ∈ ([] : List Nat) ∨ x ∈ ps) →
      T'.length + 1 ≤ s.mark.cap := by
    rcases hcap with h | h
    · exact Or.inl h
    · refine Or.inr (fun T' hndT hmem => ?_)
      have hsub : T'.toFinset ⊆ ps.toFinset := by
        intro a ha
        rcases hmem a (List.mem_toFinset.mp ha) with h | h
        · simp at h
        · exact List.mem_toFinset.mpr h
      have := Finset.card_le_card hsub
      rw [List.toFinset_card_of_nodup hndT] at this
      show T'.length + 1 ≤ s.cap
      omega
  obtain ⟨T, f, r, inv⟩ := run_keeps below ps [] [] s.mark front rest inv0 hclosed hcap'
  intro x hx
  have hxT : x ∈ T := (inv.hseen x).mpr (by simpa using hx)
  have : x ∈ (ps.foldl (deref below) s.mark).list := by
    rw [inv.hlist]; exact List.mem_append_left _ (inv.hfront x hxT)
  exact this

/-- … and at every moment of the operation: after any number of its dereferences, every node
dereferenced so far is still cached, i.e. no node the operation holds is evicted before it ends. -/
theorem held_nodes_stay (below : Nat → List Nat) (s : Lru) (ps : List Nat) (hnd : s.list.Nodup)
    (hclosed : AncestorClosed below [] ps)
    (hcap : s.cap = 0 ∨ ps.toFinset.card + 1 ≤ s.cap) (n : Nat) :
    ∀ x ∈ ps.take n, x ∈ (runOp below s (ps.take n)).list := by
  apply held_nodes_stay_end below s (ps.take n) hnd (ancestorClosed_take below ps [] n hclosed)
  rcases hcap with h | h
  · exact Or.inl h
  · refine Or.inr ?_
    have hsub : (ps.take n).toFinset ⊆ ps.toFinset := by
      intro a ha
      exact List.mem_toFinset.mpr (List.mem_of_mem_take (List.mem_toFinset.mp ha))
    have := Finset.card_le_card hsub
    omega

end OasisProofs.Mkvs
