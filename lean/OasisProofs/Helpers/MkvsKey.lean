import OasisProofs.Helpers.MkvsIterBits
import OasisModel.Mkvs.Key
/-
The byte-level key operations of node/key.go (`OasisModel.Mkvs.Key`: shifts and masks on bytes) equal
the bit-list operations used by the trie and iterator models.
-/
namespace OasisProofs.Mkvs
open OasisModel.Mkvs
open OasisModel.Mkvs.Iter (toBytesLen)

/-- Bit `j` (from the least significant) of a byte. -/
def tb (b : UInt8) (j : Nat) : Bool := b.toNat.testBit j

/-- Bit `i` (MSB-first numbering over the whole key) of a byte string, `false` beyond the end. -/
def bitAt (k : Bytes) (i : Nat) : Bool := (toBits k).getD i false

theorem tb_high (b : UInt8) {j : Nat} (h : 8 ≤ j) : tb b j = false := by
  apply Nat.testBit_lt_two_pow
  have := b.toNat_lt
  exact Nat.lt_of_lt_of_le this (Nat.pow_le_pow_right (by decide) h)

theorem byte_ext {a b : UInt8} (h : ∀ j, j < 8 → tb a j = tb b j) : a = b := by
  apply UInt8.toNat_inj.1
  apply Nat.eq_of_testBit_eq
  intro j
  by_cases hj : j < 8
  · exact h j hj
  · have h1 := tb_high a (Nat.le_of_not_lt hj)
    have h2 := tb_high b (Nat.le_of_not_lt hj)
    simp only [tb] at h1 h2; rw [h1, h2]

theorem tb_and (a b : UInt8) (j : Nat) : tb (a &&& b) j = (tb a j && tb b j) := by
  simp [tb, UInt8.toNat_and, Nat.testBit_and]

theorem tb_or (a b : UInt8) (j : Nat) : tb (a ||| b) j = (tb a j || tb b j) := by
  simp [tb, UInt8.toNat_or, Nat.testBit_or]

theorem tb_zero (j : Nat) : tb 0 j = false := by simp [tb]

theorem ofNat_toNat_lt8 {s : Nat} (h : s < 8) : (UInt8.ofNat s).toNat % 8 = s := by
  rw [UInt8.toNat_ofNat']; omega

theorem tb_shl (a : UInt8) {s : Nat} (hs : s < 8) (j : Nat) :
    tb (a <<< UInt8.ofNat s) j = (decide (j < 8) && decide (s ≤ j) && tb a (j - s)) := by
  simp only [tb, UInt8.toNat_shiftLeft, ofNat_toNat_lt8 hs, Nat.testBit_mod_two_pow, Nat.testBit_shiftLeft]
  simp [Bool.and_assoc]

theorem tb_shr (a : UInt8) {s : Nat} (hs : s < 8) (j : Nat) :
    tb (a >>> UInt8.ofNat s) j = tb a (s + j) := by
  simp only [tb, UInt8.toNat_shiftRight, ofNat_toNat_lt8 hs, Nat.testBit_shiftRight]

/-! ### bits of a byte string by position -/

theorem natBits_getD (w n i : Nat) (h : i < w) : (natBits w n).getD i false = n.testBit (w - 1 - i) := by
  induction w generalizing i with
  | zero => omega
  | succ w ih =>
    simp only [natBits]
    cases i with
    | zero =>
      simp only [List.getD_cons_zero, Nat.testBit_eq_decide_div_mod_eq]
      simp
    | succ i =>
      simp only [List.getD_cons_succ]
      rw [ih i (by omega)]
      congr 1; omega

theorem byteBits_getD (b : UInt8) (i : Nat) (h : i < 8) : (byteBits b).getD i false = tb b (7 - i) := by
  simp only [byteBits, tb]; exact natBits_getD 8 _ i h

theorem byteAt_cons_succ (b : UInt8) (k : Bytes) (i : Nat) : Key.byteAt (b :: k) (i + 1) = Key.byteAt k i := by
  simp [Key.byteAt]

/-- Bit `i` of a key is bit `7 - i%8` of byte `i/8`. -/
theorem bitAt_eq (k : Bytes) (i : Nat) : bitAt k i = tb (Key.byteAt k (i / 8)) (7 - i % 8) := by
  induction k generalizing i with
  | nil => simp [bitAt, toBits, Key.byteAt, tb_zero]
  | cons b k ih =>
    simp only [bitAt, toBits_cons]
    by_cases h : i < 8
    · rw [List.getD_eq_getElem?_getD, List.getElem?_append_left (by simp [byteBits_length]; exact h),
        ← List.getD_eq_getElem?_getD, byteBits_getD b i h]
      have : i / 8 = 0 := by omega
      have h2 : i % 8 = i := by omega
      rw [this, h2]; simp [Key.byteAt]
    · rw [List.getD_eq_getElem?_getD, List.getElem?_append_right (by simp [byteBits_length]; omega),
        ← List.getD_eq_getElem?_getD, byteBits_length]
      have := ih (i - 8)
      simp only [bitAt] at this
      rw [this]
      have e1 : i / 8 = (i - 8) / 8 + 1 := by omega
      have e2 : i % 8 = (i - 8) % 8 := by omega
      rw [e1, e2, byteAt_cons_succ]

theorem bitAt_beyond (k : Bytes) {i : Nat} (h : 8 * k.length ≤ i) : bitAt k i = false := by
  simp only [bitAt]
  rw [List.getD_eq_getElem?_getD, List.getElem?_eq_none (by rw [toBits_length]; exact h)]
  rfl

/-- Two byte strings of the same length with the same bits are equal. -/
theorem bytes_ext_bits {a b : Bytes} (hl : a.length = b.length) (h : ∀ i, bitAt a i = bitAt b i) : a = b := by
  apply toBits_injective
  apply List.ext_getElem
  · rw [toBits_length, toBits_length, hl]
  · intro i h1 h2
    have := h i
    simp only [bitAt, List.getD_eq_getElem?_getD, List.getElem?_eq_getElem h1, List.getElem?_eq_getElem h2,
      Option.getD_some] at this
    exact this

theorem packBitsAux_length : ∀ (n : Nat) (bs : Bits), bs.length ≤ n →
    (packBitsAux n bs).length = toBytesLen bs.length := by
  intro n
  induction n with
  | zero => intro bs h; have : bs = [] := List.eq_nil_of_length_eq_zero (by omega); subst this; rfl
  | succ n ih =>
    intro bs h
    simp only [packBitsAux]
    by_cases hb : bs = []
    · subst hb; rfl
    · rw [if_neg hb]
      have hne : 0 < bs.length := List.length_pos_iff.2 hb
      simp only [List.length_cons]
      rw [ih _ (by simp; omega)]
      simp only [List.length_drop, toBytesLen]
      omega

theorem packBits_length (bs : Bits) : (packBits bs).length = toBytesLen bs.length :=
  packBitsAux_length _ _ (Nat.le_refl _)

theorem bitAt_packBits (bs : Bits) (i : Nat) : bitAt (packBits bs) i = bs.getD i false := by
  obtain ⟨j, _, _, he⟩ := toBits_packBits bs
  simp only [bitAt, he]
  by_cases h : i < bs.length
  · rw [List.getD_eq_getElem?_getD, List.getElem?_append_left h, ← List.getD_eq_getElem?_getD]
  · rw [List.getD_eq_getElem?_getD, List.getElem?_append_right (by omega)]
    have : bs.getD i false = false := by
      rw [List.getD_eq_getElem?_getD, List.getElem?_eq_none (by omega)]; rfl
    rw [this]
    by_cases h2 : i - bs.length < j
    · simp [zeros, List.getElem?_replicate, h2]
    · rw [List.getElem?_eq_none (by simp [zeros]; omega)]; rfl

/-- A byte string with the right length and the right bits is `packBits` of the bit list. -/
theorem eq_packBits {X : Bytes} {bs : Bits} (hl : X.length = toBytesLen bs.length)
    (hb : ∀ i, bitAt X i = bs.getD i false) : X = packBits bs := by
  apply bytes_ext_bits (by rw [hl, packBits_length])
  intro i; rw [hb, bitAt_packBits]


/-! ### `GetBit` -/

theorem tb_one (j : Nat) : tb 1 j = decide (j = 0) := by
  cases j with
  | zero => rfl
  | succ j => simp [tb, Nat.testBit_succ]

theorem tb_bitmask {m : Nat} (hm : m < 8) (j : Nat) : tb ((1 : UInt8) <<< UInt8.ofNat m) j = decide (j = m) := by
  rw [tb_shl 1 hm, tb_one]
  by_cases h : j = m
  · subst h; simp [hm]
  · simp only [h, decide_false]
    by_cases h1 : m ≤ j
    · have : j - m ≠ 0 := by omega
      simp [this]
    · simp [h1]

theorem and_bitmask_ne_zero (a : UInt8) {m : Nat} (hm : m < 8) :
    ((a &&& ((1 : UInt8) <<< UInt8.ofNat m)) != 0) = tb a m := by
  cases h : tb a m with
  | true =>
    have : tb (a &&& ((1 : UInt8) <<< UInt8.ofNat m)) m = true := by rw [tb_and, tb_bitmask hm, h]; simp
    have hne : a &&& ((1 : UInt8) <<< UInt8.ofNat m) ≠ 0 := by
      intro he; rw [he, tb_zero] at this; simp at this
    simp [hne]
  | false =>
    have : a &&& ((1 : UInt8) <<< UInt8.ofNat m) = 0 := by
      apply byte_ext
      intro j _
      rw [tb_and, tb_bitmask hm, tb_zero]
      by_cases hj : j = m
      · subst hj; simp [h]
      · simp [hj]
    simp [this]

/-- `Key.GetBit` (byte and mask) is the bit of the bit string. -/
theorem key_getBit_eq (k : Bytes) (i : Nat) : Key.getBit k i = Iter.getBit k i := by
  simp only [Key.getBit, Iter.getBit]
  rw [and_bitmask_ne_zero _ (by omega)]
  exact (bitAt_eq k i).symm


/-! ### `Split` -/

/-- A key of `keyLen` bits as Go holds it: `ToBytes(keyLen)` bytes, unused low bits zero. -/
def KeyWF (k : Bytes) (keyLen : Nat) : Prop :=
  k.length = toBytesLen keyLen ∧ ∀ i, keyLen ≤ i → bitAt k i = false

theorem byteAt_copyInto (n : Nat) (k : Bytes) (a : Nat) :
    Key.byteAt (Key.copyInto n k) a = if a < n then Key.byteAt k a else 0 := by
  simp only [Key.byteAt, Key.copyInto, List.getD_eq_getElem?_getD, List.getElem?_take]
  by_cases h : a < n
  · simp only [h, if_true]
    by_cases h2 : a < k.length
    · rw [List.getElem?_append_left h2]
    · rw [List.getElem?_append_right (by omega), List.getElem?_eq_none (l := k) (by omega)]
      by_cases h3 : a - k.length < n
      · simp [List.getElem?_replicate, h3]
      · simp [List.getElem?_replicate, h3]
  · simp [h]

theorem copyInto_length (n : Nat) (k : Bytes) : (Key.copyInto n k).length = n := by
  simp [Key.copyInto]

theorem byteAt_set (l : Bytes) (p : Nat) (v : UInt8) (a : Nat) :
    Key.byteAt (l.set p v) a = if a = p ∧ p < l.length then v else Key.byteAt l a := by
  simp only [Key.byteAt, List.getD_eq_getElem?_getD, List.getElem?_set]
  by_cases h : p = a
  · subst h
    by_cases h2 : p < l.length
    · simp [h2]
    · simp [h2, List.getElem?_eq_none (Nat.le_of_not_lt h2)]
  · have : ¬ a = p := fun hh => h hh.symm
    simp [h, this]

theorem byteAt_range_map (n : Nat) (f : Nat → UInt8) (a : Nat) :
    Key.byteAt ((List.range n).map f) a = if a < n then f a else 0 := by
  simp only [Key.byteAt, List.getD_eq_getElem?_getD]
  by_cases h : a < n
  · simp [h]
  · simp [h, List.getElem?_eq_none]

theorem tb_ff_shl {s : Nat} (hs : s < 8) (j : Nat) :
    tb ((0xff : UInt8) <<< UInt8.ofNat s) j = (decide (j < 8) && decide (s ≤ j)) := by
  rw [tb_shl _ hs]
  by_cases h1 : j < 8
  · by_cases h2 : s ≤ j
    · have : tb (0xff : UInt8) (j - s) = true := by
        have : j - s < 8 := by omega
        simp only [tb]
        have h255 : (0xff : UInt8).toNat = 2 ^ 8 - 1 := by decide
        rw [h255, Nat.testBit_two_pow_sub_one]; simpa using this
      simp [h1, h2, this]
    · simp [h2]
  · simp [h1]

theorem take_getD (bs : Bits) (n i : Nat) : (bs.take n).getD i false = (decide (i < n) && bs.getD i false) := by
  simp only [List.getD_eq_getElem?_getD, List.getElem?_take]
  by_cases h : i < n <;> simp [h]

theorem toBytesLen_le {a b : Nat} (h : a ≤ b) : toBytesLen a ≤ toBytesLen b := by
  simp only [toBytesLen]; omega

/-- `Split`, prefix part: the first `splitPoint` bits, rest of the last byte cleared. -/
theorem key_split_prefix (k : Bytes) (sp keyLen : Nat) (hwf : KeyWF k keyLen) (hsp : sp ≤ keyLen) :
    (Key.split k sp keyLen).1 = packBits ((toBits k).take sp) := by
  obtain ⟨hlen, _⟩ := hwf
  have hbits : sp ≤ (toBits k).length := by
    rw [toBits_length, hlen]; simp only [toBytesLen]; omega
  have hn : toBytesLen sp ≤ k.length := by rw [hlen]; exact toBytesLen_le hsp
  apply eq_packBits
  · simp only [Key.split]
    split <;> simp [copyInto_length, List.length_take, Nat.min_eq_left hbits]
  · intro i
    rw [take_getD, bitAt_eq]
    simp only [Key.split]
    by_cases hs : sp % 8 = 0
    · -- byte aligned: no masking
      have e : (sp % 8 != 0) = false := by simp [hs]
      simp only [e, Bool.false_eq_true, if_false]
      rw [byteAt_copyInto]
      by_cases hi : i < sp
      · have : i / 8 < toBytesLen sp := by simp only [toBytesLen]; omega
        simp only [this, if_true, hi, decide_true, Bool.true_and]
        exact (bitAt_eq k i).symm
      · have : ¬ i / 8 < toBytesLen sp := by simp only [toBytesLen]; omega
        simp [this, hi, tb_zero]
    · have e : (sp % 8 != 0) = true := by simp [hs]
      simp only [e, if_true]
      have hpos : 0 < toBytesLen sp := by simp only [toBytesLen]; omega
      have hlast : toBytesLen sp - 1 = sp / 8 := by simp only [toBytesLen]; omega
      rw [byteAt_set, copyInto_length, hlast]
      by_cases hb : i / 8 = sp / 8
      · have hlt : sp / 8 < toBytesLen sp := by simp only [toBytesLen]; omega
        simp only [hb, hlt, and_self, if_true]
        rw [tb_and, byteAt_copyInto, if_pos hlt, tb_ff_shl (by omega)]
        have hbk : tb (Key.byteAt k (sp / 8)) (7 - i % 8) = bitAt k i := by rw [bitAt_eq, hb]
        rw [hbk]
        by_cases hi : i < sp
        · have : 8 - sp % 8 ≤ 7 - i % 8 := by omega
          have h7 : 7 - i % 8 < 8 := by omega
          simp [hi, this, h7, bitAt, List.getD_eq_getElem?_getD]
        · have : ¬ 8 - sp % 8 ≤ 7 - i % 8 := by omega
          simp [hi, this]
      · simp only [hb, false_and, if_false]
        rw [byteAt_copyInto]
        by_cases hi : i < sp
        · have : i / 8 < toBytesLen sp := by simp only [toBytesLen]; omega
          simp only [this, if_true, hi, decide_true, Bool.true_and]
          exact (bitAt_eq k i).symm
        · have : ¬ i / 8 < toBytesLen sp := by simp only [toBytesLen]; omega
          simp [this, hi, tb_zero]


theorem drop_getD (bs : Bits) (n i : Nat) : (bs.drop n).getD i false = bs.getD (n + i) false := by
  simp [List.getD_eq_getElem?_getD, List.getElem?_drop]

theorem bitAt_def (k : Bytes) (i : Nat) : (toBits k).getD i false = bitAt k i := rfl

/-- `Split`, suffix part: the bits from `splitPoint` on, shifted to the front across byte
boundaries. -/
theorem key_split_suffix (k : Bytes) (sp keyLen : Nat) (hwf : KeyWF k keyLen) (hsp : sp ≤ keyLen) :
    (Key.split k sp keyLen).2 = packBits (((toBits k).take keyLen).drop sp) := by
  obtain ⟨hlen, hzero⟩ := hwf
  have hbits : keyLen ≤ (toBits k).length := by
    rw [toBits_length, hlen]; simp only [toBytesLen]; omega
  apply eq_packBits
  · simp [Key.split, List.length_take, Nat.min_eq_left hbits]
  · intro i
    rw [drop_getD, take_getD, bitAt_def]
    -- the target bit: bit sp+i of k (zero beyond keyLen anyway)
    have htarget : (decide (sp + i < keyLen) && bitAt k (sp + i)) = bitAt k (sp + i) := by
      by_cases h : sp + i < keyLen
      · simp [h]
      · simp [h, hzero (sp + i) (by omega)]
    rw [htarget, bitAt_eq]
    simp only [Key.split]
    rw [byteAt_range_map]
    by_cases hin : i / 8 < toBytesLen (keyLen - sp)
    · simp only [hin, if_true]
      have hs8 : sp % 8 < 8 := Nat.mod_lt _ (by decide)
      -- the two source bytes
      by_cases hj : sp % 8 ≤ 7 - i % 8
      · -- the bit comes from byte a = i/8 + sp/8
        have hsrc : bitAt k (sp + i) = tb (Key.byteAt k (i / 8 + sp / 8)) (7 - i % 8 - sp % 8) := by
          rw [bitAt_eq]
          have e1 : (sp + i) / 8 = i / 8 + sp / 8 := by omega
          have e2 : 7 - (sp + i) % 8 = 7 - i % 8 - sp % 8 := by omega
          rw [e1, e2]
        rw [hsrc]
        split
        · next hc =>
          have hs0 : sp % 8 ≠ 0 := by
            simp only [Bool.and_eq_true, bne_iff_ne, ne_eq] at hc; exact hc.1
          rw [tb_or, tb_shl _ hs8, tb_shr _ (by omega : 8 - sp % 8 < 8)]
          have h7 : 7 - i % 8 < 8 := by omega
          have hhigh : tb (Key.byteAt k (i / 8 + sp / 8 + 1)) (8 - sp % 8 + (7 - i % 8)) = false :=
            tb_high _ (by omega)
          simp [h7, hj, hhigh]
        · rw [tb_shl _ hs8]
          have h7 : 7 - i % 8 < 8 := by omega
          simp [h7, hj]
      · -- the bit comes from the next byte
        have hs0 : sp % 8 ≠ 0 := by omega
        have hsrc : bitAt k (sp + i) = tb (Key.byteAt k (i / 8 + sp / 8 + 1)) (8 - sp % 8 + (7 - i % 8)) := by
          rw [bitAt_eq]
          have e1 : (sp + i) / 8 = i / 8 + sp / 8 + 1 := by omega
          have e2 : 7 - (sp + i) % 8 = 8 - sp % 8 + (7 - i % 8) := by omega
          rw [e1, e2]
        rw [hsrc]
        split
        · next hc =>
          rw [tb_or, tb_shl _ hs8, tb_shr _ (by omega : 8 - sp % 8 < 8)]
          simp [hj]
        · next hc =>
          -- no next byte: it reads as zero
          have hend : i / 8 + sp / 8 + 1 = k.length := by
            simp only [Bool.and_eq_true, bne_iff_ne, ne_eq, not_and, Decidable.not_not] at hc
            exact hc hs0
          have : Key.byteAt k (i / 8 + sp / 8 + 1) = 0 := by
            simp [Key.byteAt, hend, List.getD_eq_getElem?_getD]
          rw [this, tb_zero, tb_shl _ hs8]
          simp [hj]
    · simp only [hin, if_false, tb_zero]
      have : keyLen ≤ sp + i := by simp only [toBytesLen] at hin; omega
      rw [hzero _ this]


/-! ### `AppendBit` -/

theorem tb_not (a : UInt8) {j : Nat} (hj : j < 8) : tb (~~~ a) j = !tb a j := by
  simp only [tb, UInt8.toNat_not]
  have : UInt8.size - 1 - a.toNat = 2 ^ 8 - (a.toNat + 1) := by simp [UInt8.size]
  rw [this, Nat.testBit_two_pow_sub_succ a.toNat_lt]
  simp [hj]

theorem tb_80 (j : Nat) : tb (0x80 : UInt8) j = decide (j = 7) := by
  have : (0x80 : UInt8).toNat = 2 ^ 7 := by decide
  simp only [tb, this, Nat.testBit_two_pow]
  by_cases h : j = 7 <;> simp [h, eq_comm]

theorem set_getD (bs : Bits) (p : Nat) (v : Bool) (i : Nat) :
    (bs.set p v).getD i false = if i = p ∧ p < bs.length then v else bs.getD i false := by
  simp only [List.getD_eq_getElem?_getD, List.getElem?_set]
  by_cases h : p = i
  · subst h
    by_cases h2 : p < bs.length
    · simp [h2]
    · simp [h2, List.getElem?_eq_none (Nat.le_of_not_lt h2)]
  · have : ¬ i = p := fun hh => h hh.symm
    simp [h, this]

/-- `AppendBit` (copy into a zeroed buffer, set or clear one bit) is the bit-list operation. -/
theorem key_appendBit_eq (k : Bytes) (keyLen : Nat) (v : Bool) (hk : k.length ≤ toBytesLen (keyLen + 1)) :
    Key.appendBit k keyLen v = Iter.appendBit k keyLen v := by
  simp only [Iter.appendBit]
  have hn : keyLen / 8 < toBytesLen (keyLen + 1) := by simp only [toBytesLen]; omega
  have hbl : ((toBits k ++ List.replicate (8 * toBytesLen (keyLen + 1)) false).take
      (8 * toBytesLen (keyLen + 1))).length = 8 * toBytesLen (keyLen + 1) := by simp
  apply eq_packBits
  · rw [List.length_set, hbl]
    simp only [Key.appendBit, List.length_set, copyInto_length, toBytesLen]; omega
  · intro i
    rw [set_getD, hbl, take_getD]
    have hpad : (toBits k ++ List.replicate (8 * toBytesLen (keyLen + 1)) false).getD i false = bitAt k i := by
      simp only [bitAt, List.getD_eq_getElem?_getD]
      by_cases h : i < (toBits k).length
      · rw [List.getElem?_append_left h]
      · rw [List.getElem?_append_right (by omega), List.getElem?_eq_none (l := toBits k) (by omega)]
        by_cases h2 : i - (toBits k).length < 8 * toBytesLen (keyLen + 1)
        · simp [List.getElem?_replicate, h2]
        · simp [List.getElem?_replicate, h2]
    rw [hpad, bitAt_eq]
    simp only [Key.appendBit]
    rw [byteAt_set, copyInto_length]
    have hkl8 : keyLen < 8 * toBytesLen (keyLen + 1) := by simp only [toBytesLen]; omega
    by_cases hb : i / 8 = keyLen / 8
    · simp only [hb, hn, and_self, if_true]
      rw [byteAt_copyInto, if_pos hn]
      have hi8 : i < 8 * toBytesLen (keyLen + 1) := by omega
      have hmask : tb ((0x80 : UInt8) >>> UInt8.ofNat (keyLen % 8)) (7 - i % 8) = decide (i = keyLen) := by
        rw [tb_shr _ (Nat.mod_lt _ (by decide)), tb_80]
        by_cases h : i = keyLen
        · subst h; simp; omega
        · simp only [h, decide_false, decide_eq_false_iff_not]; omega
      have hbk : tb (Key.byteAt k (keyLen / 8)) (7 - i % 8) = bitAt k i := by rw [bitAt_eq, hb]
      cases v with
      | true =>
        simp only [if_true]
        rw [tb_or, hmask, hbk]
        by_cases h : i = keyLen
        · simp [h, hkl8]
        · simp [h, hi8]
      | false =>
        simp only [Bool.false_eq_true, if_false]
        rw [tb_and, tb_not _ (by omega), hmask, hbk]
        by_cases h : i = keyLen
        · simp [h, hkl8]
        · simp [h, hi8]
    · have hne : ¬ i = keyLen := fun h => hb (by rw [h])
      simp only [hb, false_and, if_false, hne]
      rw [byteAt_copyInto]
      by_cases hi8 : i < 8 * toBytesLen (keyLen + 1)
      · have : i / 8 < toBytesLen (keyLen + 1) := by omega
        simp only [this, if_true, hi8, decide_true, Bool.true_and]
        exact (bitAt_eq k i).symm
      · have : ¬ i / 8 < toBytesLen (keyLen + 1) := by omega
        simp [this, hi8, tb_zero]

end OasisProofs.Mkvs
