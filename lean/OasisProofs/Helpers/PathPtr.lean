import OasisModel.NodeDB.PathPtr
import OasisProofs.Helpers.PathBadger
import Mathlib.Data.List.Nodup
/-
Helper definitions and lemmas for `Props/C06PathPtr.lean` (property C06, pathbadger: what a
long-lived tree hands to a batch): the well-formedness of the in-memory tree before a commit, the
post-condition of the walk below the root, and its proof by structural induction.
-/
namespace OasisProofs.PathPtrH
open OasisModel.NodeDB OasisModel.NodeDB.PathPtr
open OasisModel.NodeDB.PathBadger (Key NodeVal Batch)

/-- (key, hash) of a put. -/
def kh (q : Key × NodeVal) : Key × Nat := (q.1, q.2.hash)

/-- The positions carried by the pointers of a tree (embedded leaves included). -/
def posKeys (t : Tree) : List Key := (allPtrs t ++ embPtrs t).filterMap (·.pos)

/-- The positions carried below the top pointer. -/
def belowKeys (t : Tree) : List Key := (childPtrs t ++ embPtrs t).filterMap (·.pos)

/-! ### well-formedness of the in-memory tree before a commit

`inh` are the database nodes (key, hash) alive for the old root ("inherited"). -/

/-- A child pointer the walk will not visit (its parent is clean): a proper position of a live node. -/
def ChildPos (inh : List (Key × Nat)) (p : Ptr) : Prop :=
  ∃ k, p.pos = some k ∧ isInvalid k = false ∧ isRootKey k = false ∧ (k, p.hash) ∈ inh

/-- An embedded leaf the walk will not visit: the invalid marker (loaded from the database) or the
position of a live node (it was a node of its own earlier, or was put as one while dirty). -/
def EmbPos (inh : List (Key × Nat)) (p : Ptr) : Prop :=
  ∃ k, p.pos = some k ∧ (isInvalid k = true ∨ (k, p.hash) ∈ inh)

/-- A clean pointer the walk will visit (below a dirty parent): it may have been anything before —
embedded (invalid marker), the root (index 0), or a node of its own. -/
def VisitPos (inh : List (Key × Nat)) (p : Ptr) : Prop :=
  ∃ k, p.pos = some k ∧ (isInvalid k = true ∨ isRootKey k = true ∨ (k, p.hash) ∈ inh)

def CleanEmb (inh : List (Key × Nat)) (e : Option Ptr) : Prop :=
  ∀ q, e = some q → q.clean = true ∧ EmbPos inh q

/-- A subtree below a clean pointer: everything clean, every pointer as the last commit (or the
database) left it. -/
def CleanBelow (inh : List (Key × Nat)) : Tree → Prop
  | .nil => True
  | .leaf p => p.clean = true ∧ ChildPos inh p
  | .node p e l r => p.clean = true ∧ ChildPos inh p ∧ CleanEmb inh e ∧ CleanBelow inh l ∧ CleanBelow inh r

/-- A dirty pointer has no position (`Pointer.SetDirty`, node/node.go:214-223; new pointers,
cache.go:103-120). -/
def WFEmb (inh : List (Key × Nat)) (e : Option Ptr) : Prop :=
  ∀ q, e = some q → (q.clean = true → VisitPos inh q) ∧ (q.clean = false → q.pos = none)

/-- A subtree below a dirty pointer. -/
def WFSub (inh : List (Key × Nat)) : Tree → Prop
  | .nil => True
  | .leaf p => (p.clean = true → VisitPos inh p) ∧ (p.clean = false → p.pos = none)
  | .node p e l r =>
    (p.clean = true → VisitPos inh p ∧ CleanEmb inh e ∧ CleanBelow inh l ∧ CleanBelow inh r) ∧
    (p.clean = false → p.pos = none ∧ WFEmb inh e ∧ WFSub inh l ∧ WFSub inh r)

/-- The whole tree: as `WFSub`, and a clean root pointer may be unresolved (node.go:120-125). -/
def WFRoot (inh : List (Key × Nat)) : Tree → Prop
  | .nil => True
  | .leaf p => (p.clean = true → p.pos = none ∨ VisitPos inh p) ∧ (p.clean = false → p.pos = none)
  | .node p e l r =>
    (p.clean = true → (p.pos = none ∨ VisitPos inh p) ∧ CleanEmb inh e ∧ CleanBelow inh l ∧ CleanBelow inh r) ∧
    (p.clean = false → p.pos = none ∧ WFEmb inh e ∧ WFSub inh l ∧ WFSub inh r)

/-- The position a clean node that becomes the root gives up is not carried by a pointer below it
(positions are not shared inside one tree). -/
def RootPosFresh (t : Tree) : Prop :=
  ∀ p, t.ptr? = some p → p.clean = true → ∀ k, p.pos = some k → isRootKey k = false → k ∉ belowKeys t

/-- What the tree dropped (`pendingRemovedNodes`) is not carried by a pointer still in the tree. -/
def PendingGone (t : Tree) (pending : List (Option Key)) : Prop :=
  ∀ k ∈ removeNodes pending, isInvalid k = false → k ∉ posKeys t

/-! ### where a position comes from -/

/-- Fresh in this batch (version `v`, put with this hash) or inherited and carried by the tree before. -/
def Src (v : Nat) (inh : List (Key × Nat)) (P : List Key) (puts : List (Key × NodeVal)) (c : Key × Nat) : Prop :=
  (c.1.1 = v ∧ c ∈ puts.map kh) ∨ (c ∈ inh ∧ c.1 ∈ P)

def GoodKid (v : Nat) (inh : List (Key × Nat)) (P : List Key) (puts : List (Key × NodeVal)) (c : Key × Nat) : Prop :=
  isInvalid c.1 = false ∧ isRootKey c.1 = false ∧ Src v inh P puts c

theorem Src.mono {v : Nat} {inh : List (Key × Nat)} {P P' : List Key} {puts puts' : List (Key × NodeVal)}
    {c : Key × Nat} (hP : ∀ k ∈ P, k ∈ P') (hp : ∀ q ∈ puts, q ∈ puts') (h : Src v inh P puts c) :
    Src v inh P' puts' c := by
  rcases h with ⟨h1, h2⟩ | ⟨h1, h2⟩
  · left; refine ⟨h1, ?_⟩
    obtain ⟨q, hq, rfl⟩ := List.mem_map.1 h2
    exact List.mem_map.2 ⟨q, hp q hq, rfl⟩
  · right; exact ⟨h1, hP _ h2⟩

theorem GoodKid.mono {v : Nat} {inh : List (Key × Nat)} {P P' : List Key} {puts puts' : List (Key × NodeVal)}
    {c : Key × Nat} (hP : ∀ k ∈ P, k ∈ P') (hp : ∀ q ∈ puts, q ∈ puts') (h : GoodKid v inh P puts c) :
    GoodKid v inh P' puts' c := ⟨h.1, h.2.1, h.2.2.mono hP hp⟩

/-! ### fresh runs of keys -/

/-- `new` are keys of version `v` with pairwise distinct indices in `(lo, hi]`. -/
def FreshRun (v lo hi : Nat) (new : List (Key × NodeVal)) : Prop :=
  lo ≤ hi ∧ (∀ q ∈ new, q.1.1 = v ∧ lo < q.1.2 ∧ q.1.2 ≤ hi) ∧ (new.map (·.1)).Nodup

theorem FreshRun.nil (v lo : Nat) : FreshRun v lo lo [] := ⟨Nat.le_refl _, by simp, by simp⟩

theorem FreshRun.single (v lo : Nat) (val : NodeVal) : FreshRun v lo (lo + 1) [((v, lo + 1), val)] :=
  ⟨Nat.le_succ _, by simp, by simp⟩

/-- Two runs over adjacent index ranges, in either list order. -/
theorem FreshRun.append {v lo mid hi : Nat} {a b : List (Key × NodeVal)}
    (ha : FreshRun v lo mid a) (hb : FreshRun v mid hi b) : FreshRun v lo hi (a ++ b) := by
  obtain ⟨h1, h2, h3⟩ := ha
  obtain ⟨g1, g2, g3⟩ := hb
  refine ⟨Nat.le_trans h1 g1, ?_, ?_⟩
  · intro q hq
    rcases List.mem_append.1 hq with hq | hq
    · have := h2 q hq; exact ⟨this.1, this.2.1, Nat.le_trans this.2.2 g1⟩
    · have := g2 q hq; exact ⟨this.1, Nat.lt_of_le_of_lt h1 this.2.1, this.2.2⟩
  · rw [List.map_append]
    refine List.Nodup.append h3 g3 ?_
    intro k hka hkb
    obtain ⟨qa, hqa, rfl⟩ := List.mem_map.1 hka
    obtain ⟨qb, hqb, hkk⟩ := List.mem_map.1 hkb
    have e1 := (h2 qa hqa).2.2
    have e2 := (g2 qb hqb).2.1
    rw [hkk] at e2
    omega

theorem FreshRun.append' {v lo mid hi : Nat} {a b : List (Key × NodeVal)}
    (ha : FreshRun v lo mid a) (hb : FreshRun v mid hi b) : FreshRun v lo hi (b ++ a) := by
  obtain ⟨h1, h2, h3⟩ := ha
  obtain ⟨g1, g2, g3⟩ := hb
  refine ⟨Nat.le_trans h1 g1, ?_, ?_⟩
  · intro q hq
    rcases List.mem_append.1 hq with hq | hq
    · have := g2 q hq; exact ⟨this.1, Nat.lt_of_le_of_lt h1 this.2.1, this.2.2⟩
    · have := h2 q hq; exact ⟨this.1, this.2.1, Nat.le_trans this.2.2 g1⟩
  · rw [List.map_append]
    refine List.Nodup.append g3 h3 ?_
    intro k hkb hka
    obtain ⟨qa, hqa, rfl⟩ := List.mem_map.1 hka
    obtain ⟨qb, hqb, hkk⟩ := List.mem_map.1 hkb
    have e1 := (h2 qa hqa).2.2
    have e2 := (g2 qb hqb).2.1
    rw [hkk] at e2
    omega

/-! ### the batch callbacks -/

theorem isInvalid_fresh {v : Nat} (hv : v < versionInvalid) (i : Nat) : isInvalid (v, i) = false := by
  have : v ≠ versionInvalid := Nat.ne_of_lt hv
  simp [isInvalid, this]

theorem putNode_fresh {v : Nat} (hv : v < versionInvalid) (i : Nat) (val : NodeVal) (w : Walk) :
    putNode (v, i + 1) val w = { w with puts := w.puts ++ [((v, i + 1), val)] } := by
  simp [putNode, isInvalid_fresh hv, isRootKey]

theorem putNode_root {v : Nat} (hv : v < versionInvalid) (val : NodeVal) (w : Walk) :
    putNode (v, 0) val w = { w with root := some val } := by
  simp [putNode, isInvalid_fresh hv, isRootKey]

theorem invalid_not_root {k : Key} (h : isInvalid k = true) : isRootKey k = false := by
  simp only [isInvalid, Bool.and_eq_true, beq_iff_eq] at h
  simp [isRootKey, h.2, indexInvalid]

theorem ptr_pos_eta (p : Ptr) (k : Key) (hp : p.pos = some k) : { p with pos := some k } = p := by
  cases p; simp_all

/-- `VisitCleanNode` below the root: nothing happens (a proper position, or an embedded leaf that
stays embedded), or the node is re-put under a fresh index (it was the root, or it was embedded
and is a node of its own now). -/
theorem visitClean_sub (v : Nat) (p : Ptr) (k : Key) (emb : Bool) (val : NodeVal) (w : Walk)
    (hp : p.pos = some k) :
    ((isRootKey k = false ∧ (isInvalid k = false ∨ emb = true)) ∧
      visitClean false v p false emb val w = (p, w)) ∨
    ((isRootKey k = true ∨ (isInvalid k = true ∧ emb = false)) ∧
      visitClean false v p false emb val w =
        ({ p with pos := some (v, w.last + 1) },
         putNode (v, w.last + 1) val { w with last := w.last + 1 })) := by
  unfold visitClean
  rw [hp]
  cases hr : isRootKey k <;> cases hi : isInvalid k <;> cases emb <;>
    simp [refreshDbPtr, ptr_pos_eta p k hp, hr, hi]

/-- `VisitCleanNode` on the root pointer. -/
theorem visitClean_root {v : Nat} (hv : v < versionInvalid) (p : Ptr) (k : Key) (val : NodeVal) (w : Walk)
    (hp : p.pos = some k) :
    (isRootKey k = true ∧ visitClean false v p true false val w = (p, w)) ∨
    (isRootKey k = false ∧
      visitClean false v p true false val w =
        ({ p with pos := some (v, 0) }, { w with removed := w.removed ++ [k], root := some val })) := by
  unfold visitClean
  rw [hp]
  have hni := @invalid_not_root k
  cases hr : isRootKey k <;> cases hi : isInvalid k <;>
    simp [refreshDbPtr, ptr_pos_eta p k hp, putNode_root hv, hr, hi] at hni ⊢

theorem visitClean_none (gc : Bool) (v : Nat) (p : Ptr) (isRoot emb : Bool) (val : NodeVal) (w : Walk)
    (hp : p.pos = none) : visitClean gc v p isRoot emb val w = (p, w) := by
  unfold visitClean; rw [hp]

/-! ### the post-condition of a piece of the walk below the root -/

/-- From batch state `w` to `w'`, having produced the (non-embedded) pointers `ps` and the
embedded-leaf pointers `es`. -/
structure StepPost (v : Nat) (inh : List (Key × Nat)) (P : List Key) (w w' : Walk) (ps es : List Ptr) : Prop where
  removed_eq : w'.removed = w.removed
  root_eq : w'.root = w.root
  ext : ∃ new, w'.puts = w.puts ++ new ∧ FreshRun v w.last w'.last new ∧
        ∀ q ∈ new, ∀ c ∈ q.2.kids, GoodKid v inh P w'.puts c
  ptrs : ∀ p ∈ ps, ∃ k, p.pos = some k ∧ GoodKid v inh P w'.puts (k, p.hash)
  embs : ∀ p ∈ es, ∃ k, p.pos = some k ∧ (isInvalid k = true ∨ Src v inh P w'.puts (k, p.hash))

theorem StepPost.puts_sub {v : Nat} {inh : List (Key × Nat)} {P : List Key} {w w' : Walk} {ps es : List Ptr}
    (h : StepPost v inh P w w' ps es) : ∀ q ∈ w.puts, q ∈ w'.puts := by
  obtain ⟨new, hn, _⟩ := h.ext
  intro q hq; rw [hn]; exact List.mem_append_left _ hq

theorem StepPost.trans {v : Nat} {inh : List (Key × Nat)} {P : List Key} {w w1 w2 : Walk}
    {ps1 es1 ps2 es2 : List Ptr}
    (h1 : StepPost v inh P w w1 ps1 es1) (h2 : StepPost v inh P w1 w2 ps2 es2) :
    StepPost v inh P w w2 (ps1 ++ ps2) (es1 ++ es2) := by
  have hsub := h2.puts_sub
  obtain ⟨n1, e1, f1, k1⟩ := h1.ext
  obtain ⟨n2, e2, f2, k2⟩ := h2.ext
  refine ⟨h2.removed_eq.trans h1.removed_eq, h2.root_eq.trans h1.root_eq,
    ⟨n1 ++ n2, by rw [e2, e1, List.append_assoc], f1.append f2, ?_⟩, ?_, ?_⟩
  · intro q hq c hc
    rcases List.mem_append.1 hq with hq | hq
    · exact (k1 q hq c hc).mono (fun _ h => h) hsub
    · exact k2 q hq c hc
  · intro p hp
    rcases List.mem_append.1 hp with hp | hp
    · obtain ⟨k, hk, hg⟩ := h1.ptrs p hp
      exact ⟨k, hk, hg.mono (fun _ h => h) hsub⟩
    · exact h2.ptrs p hp
  · intro p hp
    rcases List.mem_append.1 hp with hp | hp
    · obtain ⟨k, hk, hg⟩ := h1.embs p hp
      exact ⟨k, hk, hg.imp id (fun h => h.mono (fun _ h => h) hsub)⟩
    · exact h2.embs p hp

theorem StepPost.congr {v : Nat} {inh : List (Key × Nat)} {P P' : List Key} {w w' : Walk}
    {ps es ps' es' : List Ptr} (h : StepPost v inh P w w' ps es)
    (hP : ∀ k ∈ P, k ∈ P') (hps : ∀ p ∈ ps', p ∈ ps) (hes : ∀ p ∈ es', p ∈ es) :
    StepPost v inh P' w w' ps' es' := by
  obtain ⟨n, e, f, k⟩ := h.ext
  refine ⟨h.removed_eq, h.root_eq, ⟨n, e, f, fun q hq c hc => (k q hq c hc).mono hP (fun _ h => h)⟩, ?_, ?_⟩
  · intro p hp
    obtain ⟨k, hk, hg⟩ := h.ptrs p (hps p hp)
    exact ⟨k, hk, hg.mono hP (fun _ h => h)⟩
  · intro p hp
    obtain ⟨k, hk, hg⟩ := h.embs p (hes p hp)
    exact ⟨k, hk, hg.imp id (fun h => h.mono hP (fun _ h => h))⟩

/-- A pointer good as a node of its own is good as an embedded leaf. -/
theorem StepPost.toEmb {v : Nat} {inh : List (Key × Nat)} {P : List Key} {w w' : Walk} {ps es : List Ptr}
    (h : StepPost v inh P w w' ps es) : StepPost v inh P w w' [] (ps ++ es) := by
  refine ⟨h.removed_eq, h.root_eq, h.ext, by simp, ?_⟩
  intro p hp
  rcases List.mem_append.1 hp with hp | hp
  · obtain ⟨k, hk, hg⟩ := h.ptrs p hp
    exact ⟨k, hk, Or.inr hg.2.2⟩
  · exact h.embs p hp

/-- Nothing happens: pointers that are as the last commit left them. -/
theorem step_id (v : Nat) (inh : List (Key × Nat)) (P : List Key) (w : Walk) (ps es : List Ptr)
    (hps : ∀ p ∈ ps, ChildPos inh p ∧ ∀ k, p.pos = some k → k ∈ P)
    (hes : ∀ p ∈ es, EmbPos inh p ∧ ∀ k, p.pos = some k → k ∈ P) :
    StepPost v inh P w w ps es := by
  refine ⟨rfl, rfl, ⟨[], by simp, FreshRun.nil _ _, by simp⟩, ?_, ?_⟩
  · intro p hp
    obtain ⟨⟨k, hk, h1, h2, h3⟩, hP⟩ := hps p hp
    exact ⟨k, hk, h1, h2, Or.inr ⟨h3, hP k hk⟩⟩
  · intro p hp
    obtain ⟨⟨k, hk, h1⟩, hP⟩ := hes p hp
    refine ⟨k, hk, ?_⟩
    rcases h1 with h1 | h1
    · exact Or.inl h1
    · exact Or.inr (Or.inr ⟨h1, hP k hk⟩)

/-- A node put under the fresh index `w.last + 1`. -/
theorem step_put {v : Nat} (hv : v < versionInvalid) (inh : List (Key × Nat)) (P : List Key) (w : Walk)
    (pn : Ptr) (val : NodeVal) (hpos : pn.pos = some (v, w.last + 1)) (hh : val.hash = pn.hash)
    (hk : ∀ c ∈ val.kids, GoodKid v inh P w.puts c) :
    StepPost v inh P w (putNode (v, w.last + 1) val { w with last := w.last + 1 }) [pn] [] := by
  rw [putNode_fresh hv]
  refine ⟨rfl, rfl, ⟨[((v, w.last + 1), val)], rfl, FreshRun.single _ _ _, ?_⟩, ?_, by simp⟩
  · intro q hq c hc
    rw [List.mem_singleton.1 hq] at hc
    exact (hk c hc).mono (fun _ h => h) (fun _ h => List.mem_append_left _ h)
  · intro p hp
    rw [List.mem_singleton.1 hp]
    refine ⟨_, hpos, isInvalid_fresh hv _, by simp [isRootKey], Or.inl ⟨rfl, ?_⟩⟩
    refine List.mem_map.2 ⟨((v, w.last + 1), val), by simp, ?_⟩
    simp [kh, hh]

theorem kidOf_mem {t : Tree} {c : Key × Nat} (h : c ∈ kidOf t) :
    ∃ p ∈ allPtrs t, c = (p.pos.getD invalidKey, p.hash) := by
  cases t with
  | nil => simp [kidOf, Tree.ptr?] at h
  | leaf p => simp only [kidOf, Tree.ptr?, List.mem_singleton] at h; exact ⟨p, by simp [allPtrs], h⟩
  | node p e l r => simp only [kidOf, Tree.ptr?, List.mem_singleton] at h; exact ⟨p, by simp [allPtrs], h⟩

theorem kidsOf_mem {l r : Tree} {c : Key × Nat} (h : c ∈ kidsOf l r) :
    ∃ p ∈ allPtrs l ++ allPtrs r, c = (p.pos.getD invalidKey, p.hash) := by
  rcases List.mem_append.1 h with h | h
  · obtain ⟨p, hp, e⟩ := kidOf_mem h; exact ⟨p, List.mem_append_left _ hp, e⟩
  · obtain ⟨p, hp, e⟩ := kidOf_mem h; exact ⟨p, List.mem_append_right _ hp, e⟩

theorem cleanBelow_ptrs {inh : List (Key × Nat)} : ∀ {t : Tree}, CleanBelow inh t →
    (∀ p ∈ allPtrs t, p.clean = true ∧ ChildPos inh p) ∧ (∀ p ∈ embPtrs t, p.clean = true ∧ EmbPos inh p)
  | .nil, _ => by simp [allPtrs, embPtrs]
  | .leaf p, h => by
    simp only [CleanBelow] at h
    simp [allPtrs, embPtrs, h]
  | .node p e l r, h => by
    simp only [CleanBelow] at h
    obtain ⟨h1, h2, h3, h4, h5⟩ := h
    have il := cleanBelow_ptrs h4
    have ir := cleanBelow_ptrs h5
    constructor
    · intro q hq
      simp only [allPtrs, List.mem_cons, List.mem_append] at hq
      rcases hq with rfl | hq | hq
      · exact ⟨h1, h2⟩
      · exact il.1 q hq
      · exact ir.1 q hq
    · intro q hq
      simp only [embPtrs, List.mem_append, Option.mem_toList] at hq
      rcases hq with hq | hq | hq
      · exact h3 q hq
      · exact il.2 q hq
      · exact ir.2 q hq

theorem mem_posKeys_of_ptr {t : Tree} {p : Ptr} {k : Key} (hp : p ∈ allPtrs t) (hk : p.pos = some k) :
    k ∈ posKeys t :=
  List.mem_filterMap.2 ⟨p, List.mem_append_left _ hp, hk⟩

theorem mem_posKeys_of_emb {t : Tree} {p : Ptr} {k : Key} (hp : p ∈ embPtrs t) (hk : p.pos = some k) :
    k ∈ posKeys t :=
  List.mem_filterMap.2 ⟨p, List.mem_append_right _ hp, hk⟩

theorem posKeys_left (p : Ptr) (e : Option Ptr) (l r : Tree) : ∀ k ∈ posKeys l, k ∈ posKeys (.node p e l r) := by
  intro k hk
  obtain ⟨q, hq, hqk⟩ := List.mem_filterMap.1 hk
  refine List.mem_filterMap.2 ⟨q, ?_, hqk⟩
  simp only [allPtrs, embPtrs, List.mem_append, List.mem_cons] at hq ⊢
  tauto

theorem posKeys_right (p : Ptr) (e : Option Ptr) (l r : Tree) : ∀ k ∈ posKeys r, k ∈ posKeys (.node p e l r) := by
  intro k hk
  obtain ⟨q, hq, hqk⟩ := List.mem_filterMap.1 hk
  refine List.mem_filterMap.2 ⟨q, ?_, hqk⟩
  simp only [allPtrs, embPtrs, List.mem_append, List.mem_cons] at hq ⊢
  tauto

/-- `VisitCleanNode` of a clean pointer below the root, as a node of its own (`emb = false`). -/
theorem visit_step {v : Nat} (hv : v < versionInvalid) (inh : List (Key × Nat)) (P : List Key) (w : Walk)
    (p : Ptr) (hvis : VisitPos inh p) (hP : ∀ k, p.pos = some k → k ∈ P)
    (val : NodeVal) (hh : val.hash = p.hash) (hk : ∀ c ∈ val.kids, GoodKid v inh P w.puts c) :
    StepPost v inh P w (visitClean false v p false false val w).2 [(visitClean false v p false false val w).1] [] := by
  obtain ⟨k, hpk, hsrc⟩ := hvis
  rcases visitClean_sub v p k false val w hpk with ⟨⟨hr, hi⟩, e⟩ | ⟨_, e⟩
  · rw [e]
    have hi : isInvalid k = false := by simpa using hi
    refine step_id v inh P w [p] [] ?_ (by simp)
    intro q hq
    rw [List.mem_singleton.1 hq]
    refine ⟨⟨k, hpk, hi, hr, ?_⟩, hP⟩
    rcases hsrc with h | h | h
    · rw [hi] at h; cases h
    · rw [hr] at h; cases h
    · exact h
  · rw [e]
    exact step_put hv inh P w _ val rfl hh hk

/-- `VisitCleanNode` of a clean embedded leaf. -/
theorem visit_step_emb {v : Nat} (hv : v < versionInvalid) (inh : List (Key × Nat)) (P : List Key) (w : Walk)
    (p : Ptr) (hvis : VisitPos inh p) (hP : ∀ k, p.pos = some k → k ∈ P) :
    StepPost v inh P w (visitClean false v p false true ⟨p.hash, []⟩ w).2 []
      [(visitClean false v p false true ⟨p.hash, []⟩ w).1] := by
  obtain ⟨k, hpk, hsrc⟩ := hvis
  rcases visitClean_sub v p k true ⟨p.hash, []⟩ w hpk with ⟨⟨hr, _⟩, e⟩ | ⟨_, e⟩
  · rw [e]
    refine step_id v inh P w [] [p] (by simp) ?_
    intro q hq
    rw [List.mem_singleton.1 hq]
    refine ⟨⟨k, hpk, ?_⟩, hP⟩
    rcases hsrc with h | h | h
    · exact Or.inl h
    · rw [hr] at h; cases h
    · exact Or.inr h
  · rw [e]
    exact (step_put hv inh P w { p with pos := some (v, w.last + 1) } ⟨p.hash, []⟩ rfl rfl (by simp)).toEmb

/-- `doCommit` of the embedded leaf of a dirty internal node. -/
theorem walkEmb_step {v : Nat} (hv : v < versionInvalid) (inh : List (Key × Nat)) (P : List Key) (w : Walk)
    (e : Option Ptr) (hwf : WFEmb inh e) (hP : ∀ q k, e = some q → q.pos = some k → k ∈ P) :
    StepPost v inh P w (walkEmb false v e w).2 [] (walkEmb false v e w).1.toList := by
  cases e with
  | none => exact step_id v inh P w [] [] (by simp) (by simp)
  | some p =>
    obtain ⟨h1, h2⟩ := hwf p rfl
    unfold walkEmb
    by_cases hc : p.clean = true
    · simp only [hc, if_true, Option.toList_some]
      exact visit_step_emb hv inh P w p (h1 hc) (hP p · rfl)
    · have hc' : p.clean = false := by simpa using hc
      simp only [hc', Bool.false_eq_true, if_false, Option.toList_some, h2 hc', refreshDbPtr]
      exact (step_put hv inh P w { clean := true, pos := some (v, w.last + 1), hash := p.hash }
        ⟨p.hash, []⟩ rfl rfl (by simp)).toEmb

/-- The dirty internal node is put last, under the index it reserved first. -/
theorem step_close {v : Nat} (hv : v < versionInvalid) (inh : List (Key × Nat)) (P : List Key) (w wd : Walk)
    (ps es : List Ptr) (S : StepPost v inh P { w with last := w.last + 1 } wd ps es)
    (pn : Ptr) (val : NodeVal) (hpos : pn.pos = some (v, w.last + 1)) (hh : val.hash = pn.hash)
    (hk : ∀ c ∈ val.kids, GoodKid v inh P wd.puts c) :
    StepPost v inh P w (putNode (v, w.last + 1) val wd) (pn :: ps) es := by
  rw [putNode_fresh hv]
  obtain ⟨n, e, f, k⟩ := S.ext
  have hsub : ∀ q ∈ wd.puts, q ∈ wd.puts ++ [((v, w.last + 1), val)] := fun _ h => List.mem_append_left _ h
  refine ⟨S.removed_eq, S.root_eq,
    ⟨n ++ [((v, w.last + 1), val)], ?_, FreshRun.append' (FreshRun.single v w.last val) f, ?_⟩, ?_, ?_⟩
  · show wd.puts ++ _ = w.puts ++ _
    rw [e, List.append_assoc]
  · intro q hq c hc
    rcases List.mem_append.1 hq with hq | hq
    · exact (k q hq c hc).mono (fun _ h => h) hsub
    · rw [List.mem_singleton.1 hq] at hc
      exact (hk c hc).mono (fun _ h => h) hsub
  · intro p hp
    rcases List.mem_cons.1 hp with rfl | hp
    · refine ⟨_, hpos, isInvalid_fresh hv _, by simp [isRootKey], Or.inl ⟨rfl, ?_⟩⟩
      refine List.mem_map.2 ⟨((v, w.last + 1), val), by simp, ?_⟩
      simp [kh, hh]
    · obtain ⟨k', hk', hg⟩ := S.ptrs p hp
      exact ⟨k', hk', hg.mono (fun _ h => h) hsub⟩
  · intro p hp
    obtain ⟨k', hk', hg⟩ := S.embs p hp
    exact ⟨k', hk', hg.imp id (fun h => h.mono (fun _ h => h) hsub)⟩

/-- The pointers serialised into a node value are good when the child pointers are. -/
theorem kids_good {v : Nat} {inh : List (Key × Nat)} {P : List Key} {puts : List (Key × NodeVal)} {l r : Tree}
    (h : ∀ p ∈ allPtrs l ++ allPtrs r, ∃ k, p.pos = some k ∧ GoodKid v inh P puts (k, p.hash)) :
    ∀ c ∈ kidsOf l r, GoodKid v inh P puts c := by
  intro c hc
  obtain ⟨p, hp, rfl⟩ := kidsOf_mem hc
  obtain ⟨k, hk, hg⟩ := h p hp
  rw [hk]; exact hg

theorem childPos_good {v : Nat} {inh : List (Key × Nat)} {P : List Key} {puts : List (Key × NodeVal)} {p : Ptr}
    (h : ChildPos inh p) (hP : ∀ k, p.pos = some k → k ∈ P) :
    ∃ k, p.pos = some k ∧ GoodKid v inh P puts (k, p.hash) := by
  obtain ⟨k, hk, h1, h2, h3⟩ := h
  exact ⟨k, hk, h1, h2, Or.inr ⟨h3, hP k hk⟩⟩

/-- **The walk below the root** (`doCommit` with `parent != nil`), by structural induction. -/
theorem walk_sub {v : Nat} (hv : v < versionInvalid) (inh : List (Key × Nat)) :
    ∀ (t : Tree) (w : Walk), WFSub inh t →
      StepPost v inh (posKeys t) w (walk false v t false w).2
        (allPtrs (walk false v t false w).1) (embPtrs (walk false v t false w).1)
  | .nil, w, _ => by
    simpa [walk, allPtrs, embPtrs] using step_id v inh (posKeys .nil) w [] [] (by simp) (by simp)
  | .leaf p, w, h => by
    simp only [WFSub] at h
    by_cases hc : p.clean = true
    · simp only [walk, hc, if_true, allPtrs, embPtrs]
      exact visit_step hv inh _ w p (h.1 hc) (fun k hk => mem_posKeys_of_ptr (by simp [allPtrs]) hk)
        ⟨p.hash, []⟩ rfl (by simp)
    · have hc' : p.clean = false := by simpa using hc
      simp only [walk, hc', Bool.false_eq_true, if_false, h.2 hc', refreshDbPtr, allPtrs, embPtrs]
      exact step_put hv inh _ w { clean := true, pos := some (v, w.last + 1), hash := p.hash }
        ⟨p.hash, []⟩ rfl rfl (by simp)
  | .node p e l r, w, h => by
    simp only [WFSub] at h
    by_cases hc : p.clean = true
    · obtain ⟨hvis, hemb, hl, hr⟩ := h.1 hc
      have cl := cleanBelow_ptrs hl
      have cr := cleanBelow_ptrs hr
      simp only [walk, hc, if_true, allPtrs, embPtrs]
      have hch : ∀ q ∈ allPtrs l ++ allPtrs r,
          ChildPos inh q ∧ ∀ k, q.pos = some k → k ∈ posKeys (.node p e l r) := by
        intro q hq
        rcases List.mem_append.1 hq with hq | hq
        · exact ⟨(cl.1 q hq).2, fun k hk => posKeys_left p e l r k (mem_posKeys_of_ptr hq hk)⟩
        · exact ⟨(cr.1 q hq).2, fun k hk => posKeys_right p e l r k (mem_posKeys_of_ptr hq hk)⟩
      have s1 := visit_step hv inh (posKeys (.node p e l r)) w p hvis
        (fun k hk => mem_posKeys_of_ptr (by simp [allPtrs]) hk) ⟨p.hash, kidsOf l r⟩ rfl
        (kids_good (fun q hq => childPos_good (hch q hq).1 (hch q hq).2))
      have s2 := step_id v inh (posKeys (.node p e l r)) (visitClean false v p false false ⟨p.hash, kidsOf l r⟩ w).2
        (allPtrs l ++ allPtrs r) (e.toList ++ (embPtrs l ++ embPtrs r)) hch (by
          intro q hq
          have hmem : q ∈ embPtrs (.node p e l r) := by simpa [embPtrs] using hq
          refine ⟨?_, fun k hk => mem_posKeys_of_emb hmem hk⟩
          simp only [List.mem_append, Option.mem_toList] at hq
          rcases hq with hq | hq | hq
          · exact (hemb q hq).2
          · exact (cl.2 q hq).2
          · exact (cr.2 q hq).2)
      exact (s1.trans s2).congr (fun _ h => h) (by simp) (by simp)
    · have hc' : p.clean = false := by simpa using hc
      obtain ⟨hpos, hE, hl, hr⟩ := h.2 hc'
      simp only [walk, hc', Bool.false_eq_true, if_false, hpos, refreshDbPtr, allPtrs, embPtrs]
      have sE := walkEmb_step hv inh (posKeys (.node p e l r)) { w with last := w.last + 1 } e hE
        (fun q k hq hk => mem_posKeys_of_emb (t := .node p e l r) (by simp [embPtrs, hq]) hk)
      have sL := (walk_sub hv inh l (walkEmb false v e { w with last := w.last + 1 }).2 hl).congr
        (posKeys_left p e l r) (fun _ h => h) (fun _ h => h)
      have sR := (walk_sub hv inh r
        (walk false v l false (walkEmb false v e { w with last := w.last + 1 }).2).2 hr).congr
        (posKeys_right p e l r) (fun _ h => h) (fun _ h => h)
      have S := (sE.trans sL).trans sR
      refine (step_close hv inh _ w _ _ _ S
        { clean := true, pos := some (v, w.last + 1), hash := p.hash } _ rfl rfl
        (kids_good (fun q hq => S.ptrs q (by simpa using hq)))).congr (fun _ h => h) ?_ ?_
      · intro q hq; simpa using hq
      · intro q hq; simpa [List.append_assoc] using hq

/-! ### the whole commit -/

/-- A pointer (key, hash) resolves after the batch `w`: it names a node this batch put (version `v`,
that hash), or a node alive before that this batch does not record as removed. -/
def Resolves (v : Nat) (inh : List (Key × Nat)) (w : Walk) (c : Key × Nat) : Prop :=
  (c.1.1 = v ∧ c ∈ w.puts.map kh) ∨ (c ∈ inh ∧ c.1 ∉ w.removed)

/-- A pointer as `ptrToDb` needs it, resolving. -/
def ResolvesProper (v : Nat) (inh : List (Key × Nat)) (w : Walk) (c : Key × Nat) : Prop :=
  isInvalid c.1 = false ∧ isRootKey c.1 = false ∧ Resolves v inh w c

theorem GoodKid.resolves {v : Nat} {inh : List (Key × Nat)} {P : List Key} {puts : List (Key × NodeVal)}
    {c : Key × Nat} (h : GoodKid v inh P puts c) (wf : Walk) (hputs : wf.puts = puts)
    (hrem : ∀ k ∈ P, isInvalid k = false → k ∉ wf.removed) : ResolvesProper v inh wf c := by
  refine ⟨h.1, h.2.1, ?_⟩
  rcases h.2.2 with ⟨h1, h2⟩ | ⟨h1, h2⟩
  · exact Or.inl ⟨h1, hputs ▸ h2⟩
  · exact Or.inr ⟨h1, hrem _ h2 h.1⟩

theorem StepPost.resolves {v : Nat} {inh : List (Key × Nat)} {P : List Key} {w0 wd : Walk} {ps es : List Ptr}
    (S : StepPost v inh P w0 wd ps es) (hw0 : w0.puts = []) (wf : Walk) (hputs : wf.puts = wd.puts)
    (hrem : ∀ k ∈ P, isInvalid k = false → k ∉ wf.removed) :
    (∀ p ∈ ps, ∃ k, p.pos = some k ∧ ResolvesProper v inh wf (k, p.hash)) ∧
    (∀ p ∈ es, ∃ k, p.pos = some k ∧ (isInvalid k = true ∨ Resolves v inh wf (k, p.hash))) ∧
    (∀ q ∈ wf.puts, ∀ c ∈ q.2.kids, ResolvesProper v inh wf c) ∧
    FreshRun v w0.last wd.last wf.puts := by
  obtain ⟨n, e, f, k⟩ := S.ext
  rw [hw0, List.nil_append] at e
  refine ⟨?_, ?_, ?_, ?_⟩
  · intro p hp
    obtain ⟨k', hk', hg⟩ := S.ptrs p hp
    exact ⟨k', hk', hg.resolves wf hputs hrem⟩
  · intro p hp
    obtain ⟨k', hk', hg⟩ := S.embs p hp
    refine ⟨k', hk', ?_⟩
    rcases hg with hg | hg
    · exact Or.inl hg
    · cases hi : isInvalid k' with
      | true => exact Or.inl rfl
      | false =>
        rcases hg with ⟨h1, h2⟩ | ⟨h1, h2⟩
        · exact Or.inr (Or.inl ⟨h1, hputs ▸ h2⟩)
        · exact Or.inr (Or.inr ⟨h1, hrem _ h2 hi⟩)
  · intro q hq c hc
    rw [hputs, e] at hq
    exact (k q hq c hc).resolves wf hputs hrem
  · rw [hputs, e]; exact f

/-- The post-condition of one `Commit` of the tree. -/
structure RootPost (v : Nat) (inh : List (Key × Nat)) (t : Tree) (pending : List (Option Key))
    (r : Tree × Walk) : Prop where
  fresh : FreshRun v 0 r.2.last r.2.puts
  childs : ∀ p ∈ childPtrs r.1, ∃ k, p.pos = some k ∧ ResolvesProper v inh r.2 (k, p.hash)
  embs : ∀ p ∈ embPtrs r.1, ∃ k, p.pos = some k ∧ (isInvalid k = true ∨ Resolves v inh r.2 (k, p.hash))
  putkids : ∀ q ∈ r.2.puts, ∀ c ∈ q.2.kids, ResolvesProper v inh r.2 c
  rootkids : ∀ rv, r.2.root = some rv →
    (∃ p, r.1.ptr? = some p ∧ p.pos = some (v, 0) ∧ rv.hash = p.hash) ∧
    ∀ c ∈ rv.kids, ResolvesProper v inh r.2 c
  removed_src : ∀ k ∈ r.2.removed, k ∈ removeNodes pending ∨
    (isRootKey k = false ∧ (isInvalid k = true ∨ ∃ h, (k, h) ∈ inh))
  rootnone : r.2.root = none → r.1 = t ∧ r.2.puts = [] ∧ r.2.removed = removeNodes pending

theorem belowKeys_sub (t : Tree) : ∀ k ∈ belowKeys t, k ∈ posKeys t := by
  intro k hk
  obtain ⟨q, hq, hqk⟩ := List.mem_filterMap.1 hk
  refine List.mem_filterMap.2 ⟨q, ?_, hqk⟩
  cases t with
  | nil => simp [childPtrs, embPtrs] at hq
  | leaf p => simp [childPtrs, embPtrs] at hq
  | node p e l r =>
    simp only [childPtrs, allPtrs, embPtrs, List.mem_append, List.mem_cons] at hq ⊢
    tauto

/-- The root pointer is clean: whatever `VisitCleanNode` does to it, nothing below it is touched. -/
theorem static_below {v : Nat} (inh : List (Key × Nat)) (e : Option Ptr) (l r : Tree) (p : Ptr)
    (hemb : CleanEmb inh e) (hl : CleanBelow inh l) (hr : CleanBelow inh r) (w : Walk) :
    StepPost v inh (belowKeys (.node p e l r)) w w (allPtrs l ++ allPtrs r) (e.toList ++ (embPtrs l ++ embPtrs r)) := by
  have cl := cleanBelow_ptrs hl
  have cr := cleanBelow_ptrs hr
  refine step_id v inh _ w _ _ ?_ ?_
  · intro q hq
    refine ⟨?_, fun k hk => List.mem_filterMap.2
      ⟨q, List.mem_append_left _ (show q ∈ childPtrs (.node p e l r) from hq), hk⟩⟩
    rcases List.mem_append.1 hq with hq | hq
    · exact (cl.1 q hq).2
    · exact (cr.1 q hq).2
  · intro q hq
    refine ⟨?_, fun k hk => List.mem_filterMap.2
      ⟨q, List.mem_append_right _ (show q ∈ embPtrs (.node p e l r) from hq), hk⟩⟩
    simp only [List.mem_append, Option.mem_toList] at hq
    rcases hq with hq | hq | hq
    · exact (hemb q hq).2
    · exact (cl.2 q hq).2
    · exact (cr.2 q hq).2

theorem rootPost_leafish (v : Nat) (inh : List (Key × Nat)) (t : Tree) (pending : List (Option Key))
    (t' : Tree) (w : Walk) (hc : childPtrs t' = []) (he : embPtrs t' = []) (hp : w.puts = [])
    (hroot : ∀ rv, w.root = some rv →
      (∃ p, t'.ptr? = some p ∧ p.pos = some (v, 0) ∧ rv.hash = p.hash) ∧ rv.kids = [])
    (hrem : ∀ k ∈ w.removed, isRootKey k = false ∧ (isInvalid k = true ∨ ∃ h, (k, h) ∈ inh))
    (hnone : w.root = none → t' = t ∧ w.removed = []) :
    RootPost v inh t pending (t', { w with removed := w.removed ++ removeNodes pending }) := by
  refine ⟨?_, ?_, ?_, ?_, ?_, ?_, ?_⟩
  · show FreshRun v 0 w.last w.puts
    rw [hp]; exact ⟨Nat.zero_le _, by simp, by simp⟩
  · show ∀ p ∈ childPtrs t', _
    rw [hc]; simp
  · show ∀ p ∈ embPtrs t', _
    rw [he]; simp
  · show ∀ q ∈ w.puts, _
    rw [hp]; simp
  · intro rv hrv
    obtain ⟨h1, h2⟩ := hroot rv hrv
    exact ⟨h1, by rw [h2]; simp⟩
  · intro k hk
    rcases List.mem_append.1 hk with hk | hk
    · exact Or.inr (hrem k hk)
    · exact Or.inl hk
  · intro hn
    obtain ⟨h1, h2⟩ := hnone hn
    exact ⟨h1, hp, by show w.removed ++ _ = _; rw [h2]; rfl⟩

theorem rootPost_of_step {v : Nat} {inh : List (Key × Nat)} {P : List Key} {t : Tree} {pending : List (Option Key)}
    {w0 wd : Walk} {ptop : Ptr} {e' : Option Ptr} {l' r' : Tree}
    (S : StepPost v inh P w0 wd (allPtrs l' ++ allPtrs r') (e'.toList ++ (embPtrs l' ++ embPtrs r')))
    (hw0p : w0.puts = []) (hw0l : w0.last = 0) (R0 : List Key) (rootv : Option NodeVal)
    (hrem : ∀ k ∈ P, isInvalid k = false → k ∉ R0 ++ removeNodes pending)
    (hroot : ∀ rv, rootv = some rv → ptop.pos = some (v, 0) ∧ rv.hash = ptop.hash ∧ rv.kids = kidsOf l' r')
    (hsrc : ∀ k ∈ R0, isRootKey k = false ∧ (isInvalid k = true ∨ ∃ h, (k, h) ∈ inh))
    (hnone : rootv = none → Tree.node ptop e' l' r' = t ∧ wd.puts = [] ∧ R0 = []) :
    RootPost v inh t pending
      (.node ptop e' l' r', { wd with removed := R0 ++ removeNodes pending, root := rootv }) := by
  obtain ⟨hc, he, hk, hf⟩ := S.resolves hw0p
    { wd with removed := R0 ++ removeNodes pending, root := rootv } rfl hrem
  refine ⟨by rw [hw0l] at hf; exact hf, hc, he, hk, ?_, ?_, ?_⟩
  · intro rv hrv
    obtain ⟨h1, h2, h3⟩ := hroot rv hrv
    refine ⟨⟨ptop, rfl, h1, h2⟩, ?_⟩
    rw [h3]
    intro c hc'
    exact (kids_good (fun q hq => S.ptrs q hq) c hc').resolves _ rfl hrem
  · intro k hk
    rcases List.mem_append.1 hk with hk | hk
    · exact Or.inr (hsrc k hk)
    · exact Or.inl hk
  · intro hn
    obtain ⟨h1, h2, h3⟩ := hnone hn
    exact ⟨h1, h2, by show R0 ++ _ = _; rw [h3]; rfl⟩

theorem visitPos_src {inh : List (Key × Nat)} {p : Ptr} {k : Key} (h : p.pos = none ∨ VisitPos inh p)
    (hk : p.pos = some k) (hr : isRootKey k = false) :
    isRootKey k = false ∧ (isInvalid k = true ∨ ∃ h, (k, h) ∈ inh) := by
  refine ⟨hr, ?_⟩
  rcases h with h | ⟨k', hk', h⟩
  · rw [h] at hk; cases hk
  · rw [hk] at hk'; cases hk'
    rcases h with h | h | h
    · exact Or.inl h
    · rw [hr] at h; cases h
    · exact Or.inr ⟨_, h⟩

/-- **One `Commit` of a well-formed long-lived tree.** -/
theorem commitWalk_post {v : Nat} (hv : v < versionInvalid) (inh : List (Key × Nat)) (t : Tree)
    (pending : List (Option Key)) (hwf : WFRoot inh t) (hfresh : RootPosFresh t)
    (hpend : PendingGone t pending) :
    RootPost v inh t pending (commitWalk v t pending) := by
  unfold commitWalk commitWalkG
  cases t with
  | nil =>
    simp only [walk]
    exact rootPost_leafish v inh _ pending .nil {} rfl rfl rfl (by simp) (by simp) (by simp)
  | leaf p =>
    simp only [WFRoot] at hwf
    by_cases hc : p.clean = true
    · simp only [walk, hc, if_true]
      cases hpk : p.pos with
      | none =>
        rw [visitClean_none _ _ _ _ _ _ _ hpk]
        exact rootPost_leafish v inh _ pending (.leaf p) {} rfl rfl rfl (by simp) (by simp) (by simp)
      | some k =>
        rcases visitClean_root hv p k ⟨p.hash, []⟩ {} hpk with ⟨hr, e⟩ | ⟨hr, e⟩
        · rw [e]
          exact rootPost_leafish v inh _ pending (.leaf p) {} rfl rfl rfl (by simp) (by simp) (by simp)
        · rw [e]
          refine rootPost_leafish v inh _ pending _ _ rfl rfl rfl ?_ ?_ (by simp)
          · intro rv hrv
            simp only [Option.some.injEq] at hrv
            subst hrv
            exact ⟨⟨_, rfl, rfl, rfl⟩, rfl⟩
          · intro k' hk'
            simp only [List.nil_append, List.mem_singleton] at hk'
            subst hk'
            exact visitPos_src (hwf.1 hc) hpk hr
    · have hc' : p.clean = false := by simpa using hc
      simp only [walk, hc', Bool.false_eq_true, if_false, hwf.2 hc', refreshDbPtr, if_true, putNode_root hv]
      refine rootPost_leafish v inh _ pending (.leaf { clean := true, pos := some (v, 0), hash := p.hash })
        { ({} : Walk) with root := some ⟨p.hash, []⟩ } rfl rfl rfl ?_ (by simp) (by simp)
      intro rv hrv
      simp only [Option.some.injEq] at hrv
      subst hrv
      exact ⟨⟨_, rfl, rfl, rfl⟩, rfl⟩
  | node p e l r =>
    simp only [WFRoot] at hwf
    by_cases hc : p.clean = true
    · obtain ⟨hvis, hemb, hl, hr⟩ := hwf.1 hc
      have S := static_below (v := v) inh e l r p hemb hl hr {}
      have hbelow : ∀ k ∈ belowKeys (.node p e l r), isInvalid k = false → k ∉ removeNodes pending :=
        fun k hk hi hmem => hpend k hmem hi (belowKeys_sub _ k hk)
      simp only [walk, hc, if_true]
      have unchanged : RootPost v inh (.node p e l r) pending
          (.node p e l r, { ({} : Walk) with removed := ({} : Walk).removed ++ removeNodes pending }) := by
        refine rootPost_of_step S rfl rfl [] none ?_ (by simp) (by simp) (by simp)
        intro k hk hi; simpa using hbelow k hk hi
      cases hpk : p.pos with
      | none => rw [visitClean_none _ _ _ _ _ _ _ hpk]; exact unchanged
      | some k =>
        rcases visitClean_root hv p k ⟨p.hash, kidsOf l r⟩ {} hpk with ⟨hr', e'⟩ | ⟨hr', e'⟩
        · rw [e']; exact unchanged
        · rw [e']
          refine rootPost_of_step S rfl rfl [k] (some ⟨p.hash, kidsOf l r⟩) ?_ ?_ ?_ (by simp)
          · intro k' hk' hi hmem
            rcases List.mem_append.1 hmem with hmem | hmem
            · rw [List.mem_singleton.1 hmem] at hk'
              exact hfresh p rfl hc k hpk hr' hk'
            · exact hbelow k' hk' hi hmem
          · intro rv hrv
            simp only [Option.some.injEq] at hrv
            subst hrv
            exact ⟨rfl, rfl, rfl⟩
          · intro k' hk'
            rw [List.mem_singleton.1 hk']
            exact visitPos_src hvis hpk hr'
    · have hc' : p.clean = false := by simpa using hc
      obtain ⟨hpos, hE, hl, hr⟩ := hwf.2 hc'
      simp only [walk, hc', Bool.false_eq_true, if_false, hpos, refreshDbPtr, if_true, putNode_root hv]
      have sE := walkEmb_step hv inh (posKeys (.node p e l r)) {} e hE
        (fun q k hq hk => mem_posKeys_of_emb (t := .node p e l r) (by simp [embPtrs, hq]) hk)
      have sL := (walk_sub hv inh l (walkEmb false v e {}).2 hl).congr
        (posKeys_left p e l r) (fun _ h => h) (fun _ h => h)
      have sR := (walk_sub hv inh r (walk false v l false (walkEmb false v e {}).2).2 hr).congr
        (posKeys_right p e l r) (fun _ h => h) (fun _ h => h)
      have S := ((sE.trans sL).trans sR).congr (fun _ h => h)
        (ps' := allPtrs (walk false v l false (walkEmb false v e {}).2).1 ++
          allPtrs (walk false v r false (walk false v l false (walkEmb false v e {}).2).2).1)
        (es' := (walkEmb false v e {}).1.toList ++
          (embPtrs (walk false v l false (walkEmb false v e {}).2).1 ++
           embPtrs (walk false v r false (walk false v l false (walkEmb false v e {}).2).2).1))
        (by intro q hq; simpa using hq) (by intro q hq; simpa [List.append_assoc] using hq)
      have hrm : (walk false v r false (walk false v l false (walkEmb false v e {}).2).2).2.removed = [] :=
        S.removed_eq
      rw [hrm]
      refine rootPost_of_step S rfl rfl [] _ ?_ ?_ (by simp) (by simp)
      · intro k hk hi; simpa using fun hmem => hpend k hmem hi hk
      · intro rv hrv
        simp only [Option.some.injEq] at hrv
        subst hrv
        exact ⟨rfl, rfl, rfl⟩

/-! ### the vocabulary of `PathBadger.lean` -/

theorem nodupB_iff (l : List Key) : PathBadger.nodupB l = true ↔ l.Nodup := by
  induction l with
  | nil => simp [PathBadger.nodupB]
  | cons a l ih => simp [PathBadger.nodupB, ih]

/-- The hash of the root pointer (0: the empty root). -/
def rootHash (t : Tree) : Nat :=
  match t.ptr? with
  | none => 0
  | some p => p.hash

/-- The in-memory view `inh` of the inherited nodes agrees with the database state: every (key, hash)
is a node the old root's tree uses and reads back with that hash. -/
def InhSynced (s : PathBadger.St) (old : Root) (inh : List (Key × Nat)) : Prop :=
  ∀ c ∈ inh, old.hash ≠ 0 ∧ c.1 ∈ PathBadger.usesOf s old.ver (old.typ, old.hash) ∧
    ∃ nv, PathBadger.getNode s old c.1 = some nv ∧ nv.hash = c.2

theorem ptrOK_of_resolves {v : Nat} {inh : List (Key × Nat)} {w : Walk} {c : Key × Nat}
    (s : PathBadger.St) (old : Root) (hsync : InhSynced s old inh) (h : Resolves v inh w c) :
    PathBadger.ptrOK s old (toBatch w) c = true := by
  unfold PathBadger.ptrOK
  rcases h with ⟨_, h2⟩ | ⟨h1, h2⟩
  · obtain ⟨q, hq, hqc⟩ := List.mem_map.1 h2
    simp only [Bool.or_eq_true, List.any_eq_true, Bool.and_eq_true, beq_iff_eq]
    left
    refine ⟨q, hq, ?_⟩
    rw [← hqc]; exact ⟨rfl, rfl⟩
  · obtain ⟨g1, g2, nv, g3, g4⟩ := hsync c h1
    simp only [Bool.or_eq_true, Bool.and_eq_true, bne_iff_ne, ne_eq, List.contains_eq_mem,
      decide_eq_true_eq, Bool.not_eq_true', decide_eq_false_iff_not]
    right
    refine ⟨⟨⟨g1, g2⟩, ?_⟩, ?_⟩
    · intro hm
      exact h2 (List.mem_filter.1 hm).1
    · rw [g3]; simpa using g4

/-! ### the tree after a commit is ready for the next one -/

/-- Every pointer (embedded leaves included) is clean. -/
def AllClean (t : Tree) : Prop := ∀ p ∈ allPtrs t ++ embPtrs t, p.clean = true

/-- The root pointer after a commit: unresolved or index 0. -/
def RootPtrPos (p : Ptr) : Prop := p.pos = none ∨ ∃ k, p.pos = some k ∧ isRootKey k = true

/-- The in-memory tree right after a commit, relative to the nodes alive now: everything clean, the
root pointer carries index 0 (or is unresolved), everything below it is as `CleanBelow` wants it. -/
def Settled (live : List (Key × Nat)) : Tree → Prop
  | .nil => True
  | .leaf p => p.clean = true ∧ RootPtrPos p
  | .node p e l r => p.clean = true ∧ RootPtrPos p ∧ CleanEmb live e ∧ CleanBelow live l ∧ CleanBelow live r

/-- Structure-only part of the well-formedness: below a clean pointer everything is clean. -/
def CleanUnderClean : Tree → Prop
  | .nil => True
  | .leaf _ => True
  | .node p e l r =>
    (p.clean = true → (∀ q, e = some q → q.clean = true) ∧ AllClean l ∧ AllClean r) ∧
    (p.clean = false → CleanUnderClean l ∧ CleanUnderClean r)

theorem cleanBelow_allClean {inh : List (Key × Nat)} {t : Tree} (h : CleanBelow inh t) : AllClean t := by
  intro p hp
  rcases List.mem_append.1 hp with hp | hp
  · exact ((cleanBelow_ptrs h).1 p hp).1
  · exact ((cleanBelow_ptrs h).2 p hp).1

theorem wfSub_cuc {inh : List (Key × Nat)} : ∀ {t : Tree}, WFSub inh t → CleanUnderClean t
  | .nil, _ => trivial
  | .leaf _, _ => trivial
  | .node p e l r, h => by
    simp only [WFSub] at h
    refine ⟨fun hc => ?_, fun hc => ?_⟩
    · obtain ⟨_, h2, h3, h4⟩ := h.1 hc
      exact ⟨fun q hq => (h2 q hq).1, cleanBelow_allClean h3, cleanBelow_allClean h4⟩
    · obtain ⟨_, _, h3, h4⟩ := h.2 hc
      exact ⟨wfSub_cuc h3, wfSub_cuc h4⟩

theorem wfRoot_cuc {inh : List (Key × Nat)} {t : Tree} (h : WFRoot inh t) : CleanUnderClean t := by
  cases t with
  | nil => trivial
  | leaf _ => trivial
  | node p e l r =>
    simp only [WFRoot] at h
    refine ⟨fun hc => ?_, fun hc => ?_⟩
    · obtain ⟨_, h2, h3, h4⟩ := h.1 hc
      exact ⟨fun q hq => (h2 q hq).1, cleanBelow_allClean h3, cleanBelow_allClean h4⟩
    · obtain ⟨_, _, h3, h4⟩ := h.2 hc
      exact ⟨wfSub_cuc h3, wfSub_cuc h4⟩

theorem visitClean_clean (gc : Bool) (v : Nat) (p : Ptr) (isRoot emb : Bool) (val : NodeVal) (w : Walk) :
    (visitClean gc v p isRoot emb val w).1.clean = p.clean := by
  unfold visitClean
  split <;> rfl

theorem walkEmb_clean (v : Nat) (e : Option Ptr) (w : Walk) :
    ∀ q ∈ (walkEmb false v e w).1.toList, q.clean = true := by
  intro q hq
  cases e with
  | none => simp [walkEmb] at hq
  | some p =>
    unfold walkEmb at hq
    by_cases hc : p.clean = true
    · simp only [hc, if_true, Option.toList_some, List.mem_singleton] at hq
      rw [hq, visitClean_clean]; exact hc
    · have hc' : p.clean = false := by simpa using hc
      simp only [hc', Bool.false_eq_true, if_false, Option.toList_some, List.mem_singleton] at hq
      rw [hq]

theorem walk_clean (v : Nat) : ∀ (t : Tree) (isRoot : Bool) (w : Walk), CleanUnderClean t →
    AllClean (walk false v t isRoot w).1
  | .nil, _, _, _ => by simp [walk, AllClean, allPtrs, embPtrs]
  | .leaf p, isRoot, w, _ => by
    by_cases hc : p.clean = true
    · simp only [walk, hc, if_true, AllClean, allPtrs, embPtrs, List.append_nil, List.mem_singleton]
      intro q hq; rw [hq, visitClean_clean]; exact hc
    · have hc' : p.clean = false := by simpa using hc
      simp only [walk, hc', Bool.false_eq_true, if_false, AllClean, allPtrs, embPtrs, List.append_nil,
        List.mem_singleton]
      intro q hq; rw [hq]
  | .node p e l r, isRoot, w, h => by
    simp only [CleanUnderClean] at h
    by_cases hc : p.clean = true
    · obtain ⟨h1, h2, h3⟩ := h.1 hc
      simp only [walk, hc, if_true]
      intro q hq
      simp only [allPtrs, embPtrs, List.mem_append, List.mem_cons, Option.mem_toList] at hq
      rcases hq with (rfl | hq | hq) | hq | hq | hq
      · rw [visitClean_clean]; exact hc
      · exact h2 q (List.mem_append_left _ hq)
      · exact h3 q (List.mem_append_left _ hq)
      · exact h1 q hq
      · exact h2 q (List.mem_append_right _ hq)
      · exact h3 q (List.mem_append_right _ hq)
    · have hc' : p.clean = false := by simpa using hc
      obtain ⟨h1, h2⟩ := h.2 hc'
      simp only [walk, hc', Bool.false_eq_true, if_false]
      intro q hq
      simp only [allPtrs, embPtrs, List.mem_append, List.mem_cons] at hq
      rcases hq with (rfl | hq | hq) | hq | hq | hq
      · rfl
      · exact walk_clean v l false _ h1 q (List.mem_append_left _ hq)
      · exact walk_clean v r false _ h2 q (List.mem_append_left _ hq)
      · exact walkEmb_clean v e _ q hq
      · exact walk_clean v l false _ h1 q (List.mem_append_right _ hq)
      · exact walk_clean v r false _ h2 q (List.mem_append_right _ hq)

/-- The root pointer after the walk: unresolved (an untouched clean root) or index 0. -/
theorem walk_rootptr {v : Nat} (hv : v < versionInvalid) (inh : List (Key × Nat)) (t : Tree) (w : Walk)
    (hwf : WFRoot inh t) : ∀ p, (walk false v t true w).1.ptr? = some p → RootPtrPos p := by
  have key : ∀ (p : Ptr) (val : NodeVal), RootPtrPos (visitClean false v p true false val w).1 := by
    intro p val
    cases hpk : p.pos with
    | none => rw [visitClean_none _ _ _ _ _ _ _ hpk]; exact Or.inl hpk
    | some k =>
      rcases visitClean_root hv p k val w hpk with ⟨hr, e⟩ | ⟨_, e⟩
      · rw [e]; exact Or.inr ⟨k, hpk, hr⟩
      · rw [e]; exact Or.inr ⟨(v, 0), rfl, rfl⟩
  intro q hq
  cases t with
  | nil => simp [walk, Tree.ptr?] at hq
  | leaf p =>
    simp only [WFRoot] at hwf
    by_cases hc : p.clean = true
    · simp only [walk, hc, if_true, Tree.ptr?, Option.some.injEq] at hq
      rw [← hq]; exact key p _
    · have hc' : p.clean = false := by simpa using hc
      simp only [walk, hc', Bool.false_eq_true, if_false, hwf.2 hc', refreshDbPtr, if_true, Tree.ptr?,
        Option.some.injEq] at hq
      rw [← hq]; exact Or.inr ⟨(v, 0), rfl, rfl⟩
  | node p e l r =>
    simp only [WFRoot] at hwf
    by_cases hc : p.clean = true
    · simp only [walk, hc, if_true, Tree.ptr?, Option.some.injEq] at hq
      rw [← hq]; exact key p _
    · have hc' : p.clean = false := by simpa using hc
      simp only [walk, hc', Bool.false_eq_true, if_false, (hwf.2 hc').1, refreshDbPtr, if_true, Tree.ptr?,
        Option.some.injEq] at hq
      rw [← hq]; exact Or.inr ⟨(v, 0), rfl, rfl⟩

theorem cleanBelow_of_ptrs {live : List (Key × Nat)} : ∀ {t : Tree},
    (∀ p ∈ allPtrs t, p.clean = true ∧ ChildPos live p) →
    (∀ p ∈ embPtrs t, p.clean = true ∧ EmbPos live p) → CleanBelow live t
  | .nil, _, _ => trivial
  | .leaf p, h, _ => by
    have := h p (by simp [allPtrs])
    exact ⟨this.1, this.2⟩
  | .node p e l r, h, g => by
    have hp := h p (by simp [allPtrs])
    refine ⟨hp.1, hp.2, ?_, ?_, ?_⟩
    · intro q hq; exact g q (by simp [embPtrs, hq])
    · exact cleanBelow_of_ptrs (fun q hq => h q (by simp [allPtrs, hq])) (fun q hq => g q (by simp [embPtrs, hq]))
    · exact cleanBelow_of_ptrs (fun q hq => h q (by simp [allPtrs, hq])) (fun q hq => g q (by simp [embPtrs, hq]))

theorem resolves_live {v : Nat} {inh : List (Key × Nat)} {w : Walk} {c : Key × Nat}
    (h : Resolves v inh w c) : c ∈ nextLive inh w := by
  unfold nextLive
  rcases h with ⟨_, h2⟩ | ⟨h1, h2⟩
  · exact List.mem_append_right _ h2
  · exact List.mem_append_left _ (List.mem_filter.2 ⟨h1, by simpa using h2⟩)

theorem settled_of {live : List (Key × Nat)} {t : Tree} (hc : AllClean t)
    (hroot : ∀ p, t.ptr? = some p → RootPtrPos p)
    (hch : ∀ p ∈ childPtrs t, ChildPos live p) (hem : ∀ p ∈ embPtrs t, EmbPos live p) : Settled live t := by
  cases t with
  | nil => trivial
  | leaf p => exact ⟨hc p (by simp [allPtrs]), hroot p rfl⟩
  | node p e l r =>
    refine ⟨hc p (by simp [allPtrs]), hroot p rfl, ?_, ?_, ?_⟩
    · intro q hq
      have hm : q ∈ embPtrs (.node p e l r) := by simp [embPtrs, hq]
      exact ⟨hc q (List.mem_append_right _ hm), hem q hm⟩
    · refine cleanBelow_of_ptrs (fun q hq => ?_) (fun q hq => ?_)
      · have hm : q ∈ childPtrs (.node p e l r) := by simp [childPtrs, hq]
        exact ⟨hc q (by simp [allPtrs, hq]), hch q hm⟩
      · have hm : q ∈ embPtrs (.node p e l r) := by simp [embPtrs, hq]
        exact ⟨hc q (List.mem_append_right _ hm), hem q hm⟩
    · refine cleanBelow_of_ptrs (fun q hq => ?_) (fun q hq => ?_)
      · have hm : q ∈ childPtrs (.node p e l r) := by simp [childPtrs, hq]
        exact ⟨hc q (by simp [allPtrs, hq]), hch q hm⟩
      · have hm : q ∈ embPtrs (.node p e l r) := by simp [embPtrs, hq]
        exact ⟨hc q (List.mem_append_right _ hm), hem q hm⟩

/-- A settled tree that is not edited is well-formed for the next commit. -/
theorem Settled.wfRoot {live : List (Key × Nat)} {t : Tree} (h : Settled live t) :
    WFRoot live t ∧ RootPosFresh t := by
  have vis : ∀ p : Ptr, RootPtrPos p → p.pos = none ∨ VisitPos live p := by
    intro p hp
    rcases hp with hp | ⟨k, hk, hr⟩
    · exact Or.inl hp
    · exact Or.inr ⟨k, hk, Or.inr (Or.inl hr)⟩
  have fresh : ∀ p : Ptr, t.ptr? = some p → RootPtrPos p → RootPosFresh t := by
    intro p hp hpos q hq _ k hk hr
    rw [hp] at hq; cases hq
    rcases hpos with hpos | ⟨k', hk', hr'⟩
    · rw [hpos] at hk; cases hk
    · rw [hk] at hk'; cases hk'; rw [hr] at hr'; cases hr'
  cases t with
  | nil => exact ⟨trivial, fun p hp => by simp [Tree.ptr?] at hp⟩
  | leaf p =>
    obtain ⟨h1, h2⟩ := h
    exact ⟨⟨fun _ => vis p h2, fun hc => by rw [h1] at hc; cases hc⟩, fresh p rfl h2⟩
  | node p e l r =>
    obtain ⟨h1, h2, h3, h4, h5⟩ := h
    exact ⟨⟨fun _ => ⟨vis p h2, h3, h4, h5⟩, fun hc => by rw [h1] at hc; cases hc⟩, fresh p rfl h2⟩

/-- A clean subtree of a settled tree may hang below a new dirty node. -/
theorem CleanBelow.wfSub {live : List (Key × Nat)} {t : Tree} (h : CleanBelow live t) : WFSub live t := by
  have vis : ∀ p : Ptr, ChildPos live p → VisitPos live p := by
    intro p ⟨k, hk, _, _, h3⟩
    exact ⟨k, hk, Or.inr (Or.inr h3)⟩
  cases t with
  | nil => trivial
  | leaf p =>
    obtain ⟨h1, h2⟩ := h
    exact ⟨fun _ => vis p h2, fun hc => by rw [h1] at hc; cases hc⟩
  | node p e l r =>
    obtain ⟨h1, h2, h3, h4, h5⟩ := h
    exact ⟨fun _ => ⟨vis p h2, h3, h4, h5⟩, fun hc => by rw [h1] at hc; cases hc⟩

end OasisProofs.PathPtrH
