import OasisProofs.Helpers.TxPoolImpl
/-
Helper lemmas for C20 (implementation-level model of the txpool scheduler): every operation of
`OasisModel.TxPool.Impl` (scheduleOne, forward, handleTxUsed, restoreMaxHeap/reset, add, clear)
terminates without a `Fault`, preserves the invariant `Inv` and maps under `abs` to the
operation of the reference model.
-/
set_option linter.unusedSimpArgs false
set_option linter.unusedVariables false

namespace OasisProofs.TxPoolImpl
open OasisModel.TxPool
open OasisModel.TxPool.Impl (Rec.first Rec.current getSched setSched updS succ64 minSeq heapPush heapRemove heapReplace Rec Fault
  isPending isSchedulable nextSchedulable peekOk restoreMaxHeap restoreAll resetWith
  forwardLoop handleTxUsed abs)

/-! ### general facts -/

theorem rdy_unique (s : Impl.State) (t u : Tx) (h1 : Rdy s t) (h2 : Rdy s u) (hs : t.sender = u.sender) :
    t.seq = u.seq := by
  rw [rdy_iff] at h1 h2
  rw [hs] at h1
  unfold rdyOf at h1 h2
  split at h1
  · rename_i last heq; rw [heq] at h2; simp only at h2; omega
  · rename_i heq; rw [heq] at h2; simp only at h2; rw [h1] at h2; simpa using h2

theorem mem_sender (s : Impl.State) (hw : WF s) (t : Tx) (ht : t ∈ s.txs) :
    ∃ r, s.senders t.sender = some r ∧ t ∈ r.txs := by
  cases hr : s.senders t.sender with
  | none => exact absurd rfl (hw.sndNone _ hr t ht)
  | some r => exact ⟨r, rfl, (hw.sndSome _ r hr t).2 ⟨ht, rfl⟩⟩

theorem get_some (r : Rec) (q : Nat) (t : Tx) (h : r.get q = some t) : t ∈ r.txs ∧ t.seq = q := by
  unfold Rec.get at h
  have h1 := List.mem_of_find?_eq_some h
  have h2 := List.find?_some h
  exact ⟨h1, by simpa using h2⟩

theorem get_none (r : Rec) (q : Nat) (h : r.get q = none) : ∀ t ∈ r.txs, t.seq ≠ q := by
  unfold Rec.get at h
  intro t ht
  have := List.find?_eq_none.1 h t ht
  simpa using this

theorem setSched_keys (m : List (Nat × Nat)) (a q : Nat) (h : (m.map Prod.fst).Nodup) :
    ((setSched m a q).map Prod.fst).Nodup := by
  unfold setSched
  simp only [List.map_cons]
  refine List.nodup_cons.2 ⟨?_, ?_⟩
  · intro hm
    obtain ⟨e, he, hea⟩ := List.mem_map.1 hm
    have := (List.mem_filter.1 he).2
    simp [hea] at this
  · exact (List.filter_sublist.map Prod.fst).nodup h

/-! ### `scheduleOne` -/

def scheduleEff (s : Impl.State) (w : Tx) (p : List Tx) : Impl.State :=
  { s with pending := p, scheduled := setSched s.scheduled w.sender w.seq, picked := w :: s.picked }

theorem scheduleEff_abs (s : Impl.State) (w : Tx) (p : List Tx) :
    abs (scheduleEff s w p) = pick (abs s) w := by
  apply state_ext
  · rfl
  · rfl
  · intro b; rfl
  · intro b
    show getSched (setSched s.scheduled w.sender w.seq) b = upd (getSched s.scheduled) w.sender (some w.seq) b
    rw [getSched_set]; rfl
  · rfl

theorem scheduleEff_rdy (s : Impl.State) (w : Tx) (p : List Tx) (u : Tx) :
    Rdy (scheduleEff s w p) u ↔ (if u.sender = w.sender then u.seq = w.seq + 1 else Rdy s u) := by
  rw [rdy_iff, rdy_iff]
  show rdyOf (getSched (setSched s.scheduled w.sender w.seq) u.sender) ((s.senders u.sender).map (·.seq)) u ↔ _
  rw [getSched_set]
  by_cases h : u.sender = w.sender <;> simp [h, rdyOf]

/-- The state after `scheduleOne` satisfies the invariant as soon as the new heap content `p`
holds, of the picked sender, exactly the direct successor of the pick. -/
theorem scheduleEff_inv (s : Impl.State) (w : Tx) (p : List Tx) (hi : Inv s) (hwp : w ∈ s.pending)
    (hnd : p.Nodup)
    (hmem : ∀ u, u ∈ p ↔ ((u ∈ s.pending ∧ u.sender ≠ w.sender) ∨
      (u ∈ s.txs ∧ u.sender = w.sender ∧ u.seq = w.seq + 1))) :
    Inv (scheduleEff s w p) := by
  obtain ⟨hw, hl, hs⟩ := hi
  have hwtx := hw.pSub w hwp
  refine ⟨⟨hw.ids, hw.keys, hw.sndSome, hw.sndNone, hw.sndNodup, hw.bTx, hw.bRec, ?_, ?_, hnd, ?_⟩, hl, ?_⟩
  · intro a q hq
    change getSched (setSched s.scheduled w.sender w.seq) a = some q at hq
    rw [getSched_set] at hq
    by_cases ha : a = w.sender
    · simp [ha] at hq; rw [← hq]; exact hw.bTx w hwtx
    · simp only [ha, if_false] at hq; exact hw.bSched a q hq
  · exact setSched_keys _ _ _ hw.schedKeys
  · intro u hu
    rcases (hmem u).1 hu with ⟨h, _⟩ | ⟨h, _⟩
    · exact hw.pSub u h
    · exact h
  · intro u
    rw [scheduleEff_rdy]
    show u ∈ p ↔ (u ∈ s.txs ∧ _)
    rw [hmem u, hs u]
    by_cases h : u.sender = w.sender <;> simp [h]

theorem scheduleOne_spec (s : Impl.State) (w : Tx) (hi : Inv s) (hpk : peekOk s w = true) :
    ∃ p, Impl.scheduleOne s w = .ok (scheduleEff s w p) ∧ Inv (scheduleEff s w p) := by
  obtain ⟨hw, hl, hs⟩ := hi
  have hwp : w ∈ s.pending := by
    unfold peekOk at hpk
    simp only [Bool.and_eq_true, List.contains_iff_mem] at hpk
    exact hpk.1
  have hwtx := hw.pSub w hwp
  have hwr : Rdy s w := ((hs w).1 hwp).2
  obtain ⟨r, hr, hwr'⟩ := mem_sender s hw w hwtx
  have hc : s.pending.contains w = true := List.contains_iff_mem.2 hwp
  -- other pending transactions of the same sender do not exist
  have hsame : ∀ u ∈ s.pending, u.sender = w.sender → u = w := by
    intro u hu hus
    have hu' := (hs u).1 hu
    exact hw.keys u hu'.1 w hwtx hus (rdy_unique s u w hu'.2 hwr hus)
  cases hn : nextSchedulable s w with
  | some nx =>
    have hnx : nx ∈ r.txs ∧ nx.seq = w.seq + 1 := by
      unfold nextSchedulable at hn
      split at hn
      · simp at hn
      · rename_i hne
        have hlt : w.seq < maxSeq := by
          have := hw.bTx w hwtx
          simp at hne; omega
        rw [hr] at hn
        have := get_some r _ nx hn
        rw [succ64_lt _ hlt] at this
        exact this
    have hnxtx := (hw.sndSome _ r hr nx).1 hnx.1
    have hnp : nx ∉ s.pending := by
      intro h
      have := hsame nx h hnxtx.2
      rw [this] at hnx; omega
    have hc2 : (s.pending.erase w).contains nx = false := by
      cases h : (s.pending.erase w).contains nx with
      | false => rfl
      | true => exact absurd (List.mem_of_mem_erase (List.contains_iff_mem.1 h)) hnp
    refine ⟨nx :: s.pending.erase w, ?_, ?_⟩
    · simp only [Impl.scheduleOne, hn, heapReplace, hc, hc2, if_true, bind, Except.bind, pure, Except.pure,
        Bool.false_eq_true, if_false, scheduleEff]
    · apply scheduleEff_inv s w _ ⟨hw, hl, hs⟩ hwp
      · exact List.nodup_cons.2 ⟨fun h => hnp (List.mem_of_mem_erase h), hw.pNodup.erase w⟩
      · intro u
        simp only [List.mem_cons, hw.pNodup.mem_erase_iff]
        constructor
        · rintro (h | ⟨h1, h2⟩)
          · subst h; exact Or.inr ⟨hnxtx.1, hnxtx.2, hnx.2⟩
          · exact Or.inl ⟨h2, fun hus => h1 (hsame u h2 hus)⟩
        · rintro (⟨h1, h2⟩ | ⟨h1, h2, h3⟩)
          · exact Or.inr ⟨fun h => h2 (h ▸ rfl), h1⟩
          · exact Or.inl (hw.keys u h1 nx hnxtx.1 (h2.trans hnxtx.2.symm) (h3.trans hnx.2.symm))
  | none =>
    have hnone : ∀ u ∈ s.txs, u.sender = w.sender → u.seq ≠ w.seq + 1 := by
      intro u hu hus
      unfold nextSchedulable at hn
      split at hn
      · rename_i he
        have := hw.bTx u hu
        simp at he; omega
      · rename_i hne
        have hlt : w.seq < maxSeq := by
          have := hw.bTx w hwtx
          simp at hne; omega
        rw [hr] at hn
        have := get_none r _ hn u ((hw.sndSome _ r hr u).2 ⟨hu, hus⟩)
        rw [succ64_lt _ hlt] at this
        exact this
    refine ⟨s.pending.erase w, ?_, ?_⟩
    · simp only [Impl.scheduleOne, hn, heapRemove, hc, if_true, bind, Except.bind, pure, Except.pure, scheduleEff]
    · apply scheduleEff_inv s w _ ⟨hw, hl, hs⟩ hwp
      · exact hw.pNodup.erase w
      · intro u
        simp only [hw.pNodup.mem_erase_iff]
        constructor
        · rintro ⟨h1, h2⟩
          exact Or.inl ⟨h2, fun hus => h1 (hsame u h2 hus)⟩
        · rintro (⟨h1, h2⟩ | ⟨h1, h2, h3⟩)
          · exact ⟨fun h => h2 (h ▸ rfl), h1⟩
          · exact absurd h3 (hnone u h1 h2)

/-- Under the invariant the max heap's content is the reference ready set, so the two
admissibility checks for a pick coincide. -/
theorem peekOk_eq_pickOk (s : Impl.State) (w : Tx) (hi : Inv s) : peekOk s w = pickOk (abs s) w := by
  obtain ⟨hw, hl, hs⟩ := hi
  have hmem : ∀ u, u ∈ readyList (abs s) ↔ u ∈ s.pending := by
    intro u
    rw [hs u]
    unfold readyList
    rw [List.mem_filter]
    rfl
  unfold peekOk pickOk
  rw [Bool.eq_iff_iff]
  simp only [Bool.and_eq_true, List.contains_iff_mem, List.all_eq_true, decide_eq_true_eq, hmem]

/-! ### the `forward` loop -/

/-- The filter of the reference `forward`. -/
def keepF (a n : Nat) (t : Tx) : Bool := !(t.sender == a && decide (t.seq < n))

structure FwdPost (P : Tx → Prop) (a n : Nat) (s s' : Impl.State) : Prop where
  wf : WF s'
  sync : SyncP P s'
  txs : s'.txs = s.txs.filter (keepF a n)
  sched : s'.scheduled = s.scheduled
  picked : s'.picked = s.picked
  cap : s'.cap = s.cap
  other : ∀ b, b ≠ a → s'.senders b = s.senders b
  low : ∀ r', s'.senders a = some r' → ∀ t ∈ r'.txs, n ≤ t.seq
  gone : ∀ r, s.senders a = some r → s'.senders a = none → hasSender s.txs a = true
  kept : ∀ r r', s.senders a = some r → s'.senders a = some r' → r'.seq = r.seq ∧ (r'.txs = [] → r.txs = [])
  none : s.senders a = none → s'.senders a = none

theorem fwdPost_refl (P : Tx → Prop) (a n : Nat) (s : Impl.State) (hw : WF s) (hs : SyncP P s)
    (hge : ∀ r, s.senders a = some r → ∀ t ∈ r.txs, n ≤ t.seq) : FwdPost P a n s s := by
  refine ⟨hw, hs, ?_, rfl, rfl, rfl, fun _ _ => rfl, hge, ?_, ?_, fun h => h⟩
  · symm
    apply List.filter_eq_self.2
    intro t ht
    unfold keepF
    by_cases hta : t.sender = a
    · cases hr : s.senders a with
      | none => exact absurd hta (hw.sndNone a hr t ht)
      | some r =>
        have := hge r hr t ((hw.sndSome a r hr t).2 ⟨ht, hta⟩)
        simp [hta]; omega
    · simp [hta]
  · intro r hr hn; rw [hr] at hn; simp at hn
  · intro r r' hr hr'; rw [hr] at hr'; simp at hr'; subst hr'; exact ⟨rfl, fun h => h⟩

theorem forwardLoop_spec (P : Tx → Prop) (a n : Nat) : ∀ (fuel : Nat) (s : Impl.State),
    WF s → SyncP P s → 0 < fuel → (∀ r, s.senders a = some r → r.txs.length < fuel) →
    ∃ s', forwardLoop fuel s a n = .ok s' ∧ FwdPost P a n s s' := by
  intro fuel
  induction fuel with
  | zero => intro s _ _ h; omega
  | succ k ih =>
    intro s hw hs _ hlen
    cases hr : s.senders a with
    | none =>
      refine ⟨s, by simp [forwardLoop, hr, pure, Except.pure], fwdPost_refl P a n s hw hs ?_⟩
      intro r h; rw [hr] at h; simp at h
    | some r =>
      cases hm : minSeq r.txs with
      | none =>
        have he : r.txs = [] := (minSeq_none _).1 hm
        refine ⟨s, by simp [forwardLoop, hr, hm, pure, Except.pure], fwdPost_refl P a n s hw hs ?_⟩
        intro r' h; rw [hr] at h; simp at h; subst h; rw [he]; simp
      | some t =>
        have ⟨htr, htmin⟩ := minSeq_spec _ _ hm
        by_cases hge : t.seq ≥ n
        · refine ⟨s, by simp [forwardLoop, hr, hm, hge, pure, Except.pure], fwdPost_refl P a n s hw hs ?_⟩
          intro r' h; rw [hr] at h; simp at h; subst h
          intro u hu; exact Nat.le_trans hge (htmin u hu)
        · have hlt : t.seq < n := by omega
          have httx := (hw.sndSome a r hr t).1 htr
          have hrm := remove_eq s a r t hw hr htr
          have hwm := removeEff_wf s a r t hw hr htr
          have hsm := removeEff_syncP P s a r t hw hr htr hs
          have hsnd := removeEff_senders s a r t hw hr htr
          have hk : 0 < k := by
            have := hlen r hr
            have : 0 < r.txs.length := List.length_pos_of_mem htr
            omega
          have hlen' : ∀ r', (removeEff s a r t).senders a = some r' → r'.txs.length < k := by
            intro r' h
            rw [hsnd] at h
            simp only [if_true] at h
            split at h
            · simp at h
            · simp at h; subst h
              have := hlen r hr
              simp only [List.length_erase_of_mem htr]
              have : 0 < r.txs.length := List.length_pos_of_mem htr
              omega
          obtain ⟨s', hrun, hpost⟩ := ih (removeEff s a r t) hwm hsm hk hlen'
          refine ⟨s', ?_, ?_⟩
          · simp only [forwardLoop, hr, hm, hge, if_false, hrm, bind, Except.bind]
            exact hrun
          · refine ⟨hpost.wf, hpost.sync, ?_, hpost.sched, hpost.picked, hpost.cap, ?_, hpost.low, ?_, ?_, ?_⟩
            · rw [hpost.txs]
              show List.filter (keepF a n) (List.filter (fun u => u.id != t.id) s.txs) = _
              rw [List.filter_filter]
              apply List.filter_congr
              intro u hu
              by_cases hk : keepF a n u = true
              · have : u ≠ t := by
                  intro h; subst h
                  unfold keepF at hk; simp [httx.2, hlt] at hk
                have hid : u.id ≠ t.id := fun h => this (hw.ids u hu t httx.1 h)
                simp [hk, hid]
              · simp at hk; simp [hk]
            · intro b hb
              rw [hpost.other b hb, hsnd]; simp [hb]
            · intro r0 _ hn
              rw [hasSender_iff]; exact ⟨t, httx.1, httx.2⟩
            · intro r0 r' h0 h'
              rw [hr] at h0; simp at h0; subst h0
              by_cases he : r.txs.erase t = []
              · have : (removeEff s a r t).senders a = none := by rw [hsnd]; simp [he]
                rw [hpost.none this] at h'; simp at h'
              · have hmid : (removeEff s a r t).senders a = some { r with txs := r.txs.erase t } := by
                  rw [hsnd]; simp [he]
                have := hpost.kept _ r' hmid h'
                exact ⟨this.1, fun h => absurd (this.2 h) he⟩
            · intro h; rw [hr] at h; simp at h

/-! ### `forward` -/

/-- `seqHeap.seq = seq`. -/
def setSeq (s : Impl.State) (a : Nat) (r : Rec) (n : Nat) : Impl.State :=
  { s with senders := updS s.senders a (some { r with seq := n }) }

theorem setSeq_senders (s : Impl.State) (a : Nat) (r : Rec) (n b : Nat) :
    (setSeq s a r n).senders b = if b = a then some { r with seq := n } else s.senders b := by
  simp [setSeq]

theorem setSeq_wf (s : Impl.State) (a : Nat) (r : Rec) (n : Nat) (hw : WF s)
    (hr : s.senders a = some r) (hn : n ≤ maxSeq) : WF (setSeq s a r n) := by
  have hsn := setSeq_senders s a r n
  refine ⟨hw.ids, hw.keys, ?_, ?_, ?_, hw.bTx, ?_, hw.bSched, hw.schedKeys, hw.pNodup, hw.pSub⟩
  · intro b r' hb
    rw [hsn] at hb
    by_cases hba : b = a
    · subst hba; simp at hb; subst hb; exact hw.sndSome b r hr
    · simp only [hba, if_false] at hb; exact hw.sndSome b r' hb
  · intro b hb
    rw [hsn] at hb
    by_cases hba : b = a
    · simp [hba] at hb
    · simp only [hba, if_false] at hb; exact hw.sndNone b hb
  · intro b r' hb
    rw [hsn] at hb
    by_cases hba : b = a
    · subst hba; simp at hb; subst hb; exact hw.sndNodup b r hr
    · simp only [hba, if_false] at hb; exact hw.sndNodup b r' hb
  · intro b r' hb
    rw [hsn] at hb
    by_cases hba : b = a
    · subst hba; simp at hb; subst hb; exact hn
    · simp only [hba, if_false] at hb; exact hw.bRec b r' hb

/-- The last statement of `forward`: push the sender's new head if it became schedulable. -/
def pushHead (s2 : Impl.State) (a : Nat) : Except Fault Impl.State :=
  match s2.senders a with
  | none => pure s2
  | some r2 =>
    match minSeq r2.txs with
    | none => pure s2
    | some t =>
      if !isPending s2 t && isSchedulable s2 t r2 then do
        let p ← heapPush s2.pending t
        pure { s2 with pending := p }
      else pure s2

theorem forward_unfold (s : Impl.State) (a n : Nat) (r : Rec) (hr : s.senders a = some r)
    (hlt : ¬ n ≤ r.seq) :
    Impl.forward s a n = (forwardLoop (r.txs.length + 1) (setSeq s a r n) a n >>= fun s2 => pushHead s2 a) := by
  simp only [Impl.forward, hr, hlt, if_false, setSeq, pushHead]
  rfl

/-- `pushHead` only changes the max heap: by at most the sender's head. -/
theorem pushHead_spec (s2 : Impl.State) (a : Nat) (hw : WF s2) :
    ∃ p, pushHead s2 a = .ok { s2 with pending := p } ∧
      ((p = s2.pending ∧ ∀ r2 h, s2.senders a = some r2 → minSeq r2.txs = some h →
          ¬ (h ∉ s2.pending ∧ isSchedulable s2 h r2 = true)) ∨
       (∃ r2 h, s2.senders a = some r2 ∧ minSeq r2.txs = some h ∧ h ∉ s2.pending ∧
          isSchedulable s2 h r2 = true ∧ p = h :: s2.pending)) := by
  cases hr : s2.senders a with
  | none =>
    refine ⟨s2.pending, ?_, Or.inl ⟨rfl, fun r2 h h1 => by simp at h1⟩⟩
    simp only [pushHead, hr]; rfl
  | some r2 =>
    cases hm : minSeq r2.txs with
    | none =>
      refine ⟨s2.pending, ?_, Or.inl ⟨rfl, fun r2' h h1 h2 => by simp at h1; subst h1; rw [hm] at h2; simp at h2⟩⟩
      simp only [pushHead, hr, hm]; rfl
    | some h =>
      cases hc : s2.pending.contains h with
      | true =>
        refine ⟨s2.pending, ?_, Or.inl ⟨rfl, ?_⟩⟩
        · simp only [pushHead, hr, hm, isPending, hc, Bool.not_true, Bool.false_and, Bool.false_eq_true, if_false]; rfl
        · intro r2' h' h1 h2
          simp at h1; subst h1; rw [hm] at h2; simp at h2; subst h2
          intro hx; exact hx.1 (List.contains_iff_mem.1 hc)
      | false =>
        have hnp : h ∉ s2.pending := fun hx => by rw [List.contains_iff_mem.2 hx] at hc; simp at hc
        cases hsch : isSchedulable s2 h r2 with
        | false =>
          refine ⟨s2.pending, ?_, Or.inl ⟨rfl, ?_⟩⟩
          · simp only [pushHead, hr, hm, isPending, hc, hsch, Bool.not_false, Bool.and_false, Bool.false_eq_true, if_false]; rfl
          · intro r2' h' h1 h2
            simp at h1; subst h1; rw [hm] at h2; simp at h2; subst h2
            intro hx; rw [hsch] at hx; simp at hx
        | true =>
          refine ⟨h :: s2.pending, ?_, Or.inr ⟨r2, h, rfl, hm, hnp, hsch, rfl⟩⟩
          simp only [pushHead, hr, hm, isPending, hc, hsch, Bool.not_false, Bool.and_self, if_true, heapPush,
            Bool.false_eq_true, if_false, bind, Except.bind, pure, Except.pure]

theorem ref_forward_eq (s : State) (a n c : Nat) (hc : s.cur a = some c) (hlt : ¬ n ≤ c) :
    OasisModel.TxPool.forward s a n =
      { s with txs := s.txs.filter (keepF a n),
               cur := if (hasSender s.txs a && !hasSender (s.txs.filter (keepF a n)) a) = true
                      then upd s.cur a none else upd s.cur a (some n) } := by
  unfold OasisModel.TxPool.forward
  rw [hc]
  simp only [hlt, if_false]
  rfl

theorem forward_spec (s : Impl.State) (a n : Nat) (hi : Inv s) (hn : n ≤ maxSeq) :
    ∃ s', Impl.forward s a n = .ok s' ∧ Inv s' ∧ abs s' = OasisModel.TxPool.forward (abs s) a n := by
  obtain ⟨hw, hl, hs⟩ := hi
  cases hr : s.senders a with
  | none =>
    refine ⟨s, by simp [Impl.forward, hr, pure, Except.pure], ⟨hw, hl, hs⟩, ?_⟩
    have : (abs s).cur a = none := by simp [abs, hr]
    simp [OasisModel.TxPool.forward, this]
  | some r =>
    have hcur : (abs s).cur a = some r.seq := by simp [abs, hr]
    by_cases hle : n ≤ r.seq
    · refine ⟨s, by simp [Impl.forward, hr, hle, pure, Except.pure], ⟨hw, hl, hs⟩, ?_⟩
      simp [OasisModel.TxPool.forward, hcur, hle]
    · have hgt : r.seq < n := by omega
      have hw1 := setSeq_wf s a r n hw hr hn
      have hs1 : SyncP (Rdy s) (setSeq s a r n) := hs
      have h1a : (setSeq s a r n).senders a = some { r with seq := n } := by rw [setSeq_senders]; simp
      obtain ⟨s2, hrun, hpost⟩ := forwardLoop_spec (Rdy s) a n (r.txs.length + 1) (setSeq s a r n) hw1 hs1
        (by omega) (by intro r' h; rw [h1a] at h; simp at h; subst h; simp)
      have hw2 := hpost.wf
      obtain ⟨p, hpush, hp⟩ := pushHead_spec s2 a hw2
      refine ⟨{ s2 with pending := p }, ?_, ?_, ?_⟩
      · rw [forward_unfold s a n r hr hle, hrun]; exact hpush
      · -- invariant
        have hother : ∀ b, b ≠ a → s2.senders b = s.senders b := by
          intro b hb; rw [hpost.other b hb, setSeq_senders]; simp [hb]
        have hseq2 : ∀ r2, s2.senders a = some r2 → r2.seq = n := by
          intro r2 h2; exact (hpost.kept _ r2 h1a h2).1
        -- readiness of the remaining transactions, new versus old
        have hrdy_other : ∀ u, u.sender ≠ a → (Rdy s2 u ↔ Rdy s u) := by
          intro u hu
          apply rdy_congr
          · exact congrArg (fun m => getSched m u.sender) hpost.sched
          · show (s2.senders u.sender).map (·.seq) = _
            rw [hother _ hu]
        have hrdy_a : ∀ u, u ∈ s2.txs → u.sender = a →
            ∃ r2, s2.senders a = some r2 ∧ u ∈ r2.txs ∧ n ≤ u.seq ∧
              (Rdy s2 u ↔ rdyOf (getSched s.scheduled a) (some n) u) ∧
              (Rdy s u ↔ rdyOf (getSched s.scheduled a) (some r.seq) u) := by
          intro u hu hua
          obtain ⟨r2, hr2, hur2⟩ := mem_sender s2 hw2 u hu
          rw [hua] at hr2
          refine ⟨r2, hr2, hur2, hpost.low r2 hr2 u hur2, ?_, ?_⟩
          · rw [rdy_iff]
            show rdyOf (getSched s2.scheduled u.sender) ((s2.senders u.sender).map (·.seq)) u ↔ _
            rw [hua, hr2, hpost.sched]; simp [hseq2 r2 hr2]; rfl
          · rw [rdy_iff, hua, hr]; rfl
        have hpsub : ∀ u ∈ p, u ∈ s2.txs := by
          intro u hu
          rcases hp with ⟨rfl, _⟩ | ⟨r2, h, hr2, hm, _, _, rfl⟩
          · exact hw2.pSub u hu
          · rcases List.mem_cons.1 hu with rfl | hu
            · exact ((hw2.sndSome a r2 hr2 u).1 (minSeq_spec _ _ hm).1).1
            · exact hw2.pSub u hu
        have hpnd : p.Nodup := by
          rcases hp with ⟨rfl, _⟩ | ⟨r2, h, hr2, hm, hnp, _, rfl⟩
          · exact hw2.pNodup
          · exact List.nodup_cons.2 ⟨hnp, hw2.pNodup⟩
        refine ⟨⟨hw2.ids, hw2.keys, hw2.sndSome, hw2.sndNone, hw2.sndNodup, hw2.bTx, hw2.bRec,
          hw2.bSched, hw2.schedKeys, hpnd, hpsub⟩, ?_, ?_⟩
        · intro b r' hb x hx
          change s2.senders b = some r' at hb
          by_cases hba : b = a
          · subst hba; rw [hseq2 r' hb]; exact hpost.low r' hb x hx
          · rw [hother b hba] at hb; exact hl b r' hb x hx
        · intro u
          show u ∈ p ↔ (u ∈ s2.txs ∧ Rdy s2 u)
          have hsync2 := hpost.sync u
          by_cases hua : u.sender = a
          · by_cases hutx : u ∈ s2.txs
            · obtain ⟨r2, hr2, hur2, hnle, hnew, hold⟩ := hrdy_a u hutx hua
              have hisch : ∀ h, h ∈ r2.txs → (isSchedulable s2 h r2 = true ↔ Rdy s2 h) := by
                intro h hh
                have hh' := (hw2.sndSome a r2 hr2 h).1 hh
                exact isSchedulable_iff s2 h r2 hw2 (hh'.2 ▸ hr2) (hw2.bTx h hh'.1)
              cases hg : getSched s.scheduled a with
              | some last =>
                -- readiness of the sender's transactions is unchanged; nothing is pushed
                have heq : Rdy s2 u ↔ Rdy s u := by
                  rw [hnew, hold, hg]; rfl
                have hp' : p = s2.pending := by
                  rcases hp with ⟨rfl, _⟩ | ⟨r2', h, hr2', hm, hnp, hsch, rfl⟩
                  · rfl
                  · exfalso
                    rw [hr2] at hr2'; simp at hr2'; subst hr2'
                    have hh := (minSeq_spec _ _ hm).1
                    have hh' := (hw2.sndSome a r2 hr2 h).1 hh
                    obtain ⟨_, _, _, _, hnewh, holdh⟩ := hrdy_a h hh'.1 hh'.2
                    have : Rdy s h := by
                      rw [holdh, hg]
                      have := (hisch h hh).1 hsch
                      rw [hnewh, hg] at this; exact this
                    exact hnp ((hpost.sync h).2 ⟨hh'.1, this⟩)
                rw [hp', hsync2, heq]
              | none =>
                -- the old head lay below `n`; the sender's only ready transaction is the one at `n`
                have hnew' : Rdy s2 u ↔ u.seq = n := by
                  rw [hnew, hg]; simp [rdyOf]; exact eq_comm
                have hold' : ¬ Rdy s u := by
                  rw [hold, hg]; simp [rdyOf]; omega
                have hnotp : u ∉ s2.pending := fun h => hold' ((hsync2.1 h).2)
                rw [hnew']
                constructor
                · intro hu
                  rcases hp with ⟨rfl, _⟩ | ⟨r2', h, hr2', hm, hnp, hsch, rfl⟩
                  · exact absurd hu hnotp
                  · rcases List.mem_cons.1 hu with rfl | hu
                    · rw [hr2] at hr2'; simp at hr2'; subst hr2'
                      have hh := (minSeq_spec _ _ hm).1
                      have := (hisch u hh).1 hsch
                      rw [hnew'] at this
                      exact ⟨hutx, this⟩
                    · exact absurd hu hnotp
                · rintro ⟨_, hun⟩
                  obtain ⟨h, hm⟩ : ∃ h, minSeq r2.txs = some h := by
                    cases hm : minSeq r2.txs with
                    | none => rw [(minSeq_none _).1 hm] at hur2; simp at hur2
                    | some h => exact ⟨h, rfl⟩
                  have ⟨hh, hmin⟩ := minSeq_spec _ _ hm
                  have hh' := (hw2.sndSome a r2 hr2 h).1 hh
                  have hhn : h.seq = n := by
                    have := hmin u hur2
                    have := hpost.low r2 hr2 h hh
                    omega
                  have huh : u = h := hw2.keys u hutx h hh'.1 (hua.trans hh'.2.symm) (hun.trans hhn.symm)
                  subst huh
                  rcases hp with ⟨rfl, hno⟩ | ⟨r2', h', hr2', hm', hnp, hsch, rfl⟩
                  · exfalso
                    apply hno r2 u hr2 hm
                    refine ⟨hnotp, (hisch u hh).2 ?_⟩
                    rw [hnew']; exact hun
                  · rw [hr2] at hr2'; simp at hr2'; subst hr2'
                    rw [hm] at hm'; simp at hm'; subst hm'
                    exact List.mem_cons_self
            · -- not queued: not in the heap either
              constructor
              · intro hu; exact absurd (hpsub u hu) hutx
              · rintro ⟨h, _⟩; exact absurd h hutx
          · -- other senders: nothing changed
            rw [hrdy_other u hua]
            have : u ∈ p ↔ u ∈ s2.pending := by
              rcases hp with ⟨rfl, _⟩ | ⟨r2, h, hr2, hm, hnp, hsch, rfl⟩
              · exact Iff.rfl
              · have hh' := (hw2.sndSome a r2 hr2 h).1 (minSeq_spec _ _ hm).1
                constructor
                · intro hu
                  rcases List.mem_cons.1 hu with rfl | hu
                  · exact absurd hh'.2 hua
                  · exact hu
                · exact List.mem_cons_of_mem _
            rw [this, hsync2]
      · -- abstraction
        have hother : ∀ b, b ≠ a → s2.senders b = s.senders b := by
          intro b hb; rw [hpost.other b hb, setSeq_senders]; simp [hb]
        rw [ref_forward_eq (abs s) a n r.seq hcur hle]
        have htxs : s2.txs = List.filter (keepF a n) s.txs := hpost.txs
        apply state_ext
        · exact hpost.cap
        · exact htxs
        · intro b
          show (s2.senders b).map (·.seq) = (if (hasSender s.txs a && !hasSender (List.filter (keepF a n) s.txs) a) = true
            then upd (abs s).cur a none else upd (abs s).cur a (some n)) b
          rw [← htxs]
          by_cases hba : b = a
          · subst hba
            cases h2 : s2.senders b with
            | none =>
              have hgone : hasSender s.txs b = true := hpost.gone _ h1a h2
              have hno : hasSender s2.txs b = false := by
                cases hh : hasSender s2.txs b with
                | false => rfl
                | true =>
                  obtain ⟨t, ht, hts⟩ := (hasSender_iff _ _).1 hh
                  exact absurd hts (hw2.sndNone b h2 t ht)
              rw [hgone, hno]; simp [upd]
            | some r2 =>
              have hk := hpost.kept _ r2 h1a h2
              have hcond : (hasSender s.txs b && !hasSender s2.txs b) = false := by
                cases hh : hasSender s.txs b with
                | false => simp
                | true =>
                  obtain ⟨t, ht, hts⟩ := (hasSender_iff _ _).1 hh
                  have hne : r.txs ≠ [] := by
                    intro he
                    have := (hw.sndSome b r hr t).2 ⟨ht, hts⟩
                    rw [he] at this; simp at this
                  have hne2 : r2.txs ≠ [] := fun he => hne (hk.2 he)
                  obtain ⟨u, hu⟩ := List.exists_mem_of_ne_nil _ hne2
                  have hu' := (hw2.sndSome b r2 h2 u).1 hu
                  have : hasSender s2.txs b = true := by
                    rw [hasSender_iff]; exact ⟨u, hu'.1, hu'.2⟩
                  rw [this]; simp
              rw [hcond]; simp [upd, hk.1]
          · rw [hother b hba]
            split <;> simp [upd, hba, abs]
        · intro b
          show getSched s2.scheduled b = getSched s.scheduled b
          rw [hpost.sched]; rfl
        · exact hpost.picked

/-! ### `delete`, `handleTxUsed` -/

theorem delete_spec (s : Impl.State) (t : Tx) (hi : Inv s) (ht : t ∈ s.txs) :
    ∃ s', Impl.delete s t = .ok s' ∧ Inv s' ∧ abs s' = removeTx (abs s) t := by
  obtain ⟨r, hr, htr, heq⟩ := delete_eq s t hi.1 ht
  exact ⟨_, heq, removeEff_inv s _ r t hi hr htr, removeEff_abs s _ r t hi.1 hr htr⟩

theorem handleTxUsed_spec (s : Impl.State) (id : Nat) (hi : Inv s) :
    ∃ s', handleTxUsed s id = .ok s' ∧ Inv s' ∧ abs s' = txUsed (abs s) id := by
  cases hf : s.txs.find? (fun t => t.id == id) with
  | none =>
    have hf' : (abs s).txs.find? (fun t => t.id == id) = none := hf
    refine ⟨s, ?_, hi, ?_⟩
    · simp only [handleTxUsed, hf]; rfl
    · simp only [txUsed, findId, hf']
  | some t =>
    have hf' : (abs s).txs.find? (fun t => t.id == id) = some t := hf
    have ht : t ∈ s.txs := List.mem_of_find?_eq_some hf
    obtain ⟨s1, h1, hi1, ha1⟩ := delete_spec s t hi ht
    by_cases hlt : t.seq < maxSeq
    · have hn : t.seq + 1 ≤ maxSeq := by omega
      obtain ⟨s2, h2, hi2, ha2⟩ := forward_spec s1 t.sender (t.seq + 1) hi1 hn
      refine ⟨s2, ?_, hi2, ?_⟩
      · simp only [handleTxUsed, hf, h1, bind, Except.bind, hlt, if_true, succ64_lt _ hlt]; exact h2
      · simp only [txUsed, findId, hf', hlt, if_true]; rw [ha2, ha1]
    · refine ⟨s1, ?_, hi1, ?_⟩
      · simp only [handleTxUsed, hf, h1, bind, Except.bind, hlt, if_false]; rfl
      · simp only [txUsed, findId, hf', hlt, if_false]; exact ha1

/-! ### `clear` -/

theorem clear_spec (s : Impl.State) (hi : Inv s) :
    Inv (Impl.clear s) ∧ abs (Impl.clear s) = OasisModel.TxPool.clear (abs s) := by
  obtain ⟨hw, hl, hs⟩ := hi
  refine ⟨⟨⟨?_, ?_, ?_, ?_, ?_, ?_, ?_, hw.bSched, hw.schedKeys, ?_, ?_⟩, ?_, ?_⟩, ?_⟩
  all_goals first
    | (apply state_ext <;> first | rfl | (intro b; rfl))
    | (intro a; simp [Impl.clear])
    | simp [Impl.clear]
    | skip
  all_goals (intro a r h; simp [Impl.clear] at h)

/-! ### `add` -/

/-- `seqHeap, ok := s.senders[tx.sender]; if !ok { seqHeap = newSenderTxHeap(seq); ... }` -/
def ensure (s : Impl.State) (a ss : Nat) : Impl.State :=
  match s.senders a with
  | some _ => s
  | none => { s with senders := updS s.senders a (some { seq := ss, txs := [] }) }

theorem ensure_spec (s : Impl.State) (a ss : Nat) (hi : Inv s) (hss : ss ≤ maxSeq) :
    Inv (ensure s a ss) ∧ abs (ensure s a ss) = ensureSender (abs s) a ss ∧
    (ensure s a ss).txs = s.txs ∧ ∃ r, (ensure s a ss).senders a = some r := by
  obtain ⟨hw, hl, hs⟩ := hi
  cases hr : s.senders a with
  | some r =>
    have : ensure s a ss = s := by simp [ensure, hr]
    rw [this]
    refine ⟨⟨hw, hl, hs⟩, ?_, rfl, r, hr⟩
    have : (abs s).cur a = some r.seq := by simp [abs, hr]
    simp [ensureSender, this]
  | none =>
    have he : ensure s a ss = { s with senders := updS s.senders a (some { seq := ss, txs := [] }) } := by
      simp [ensure, hr]
    rw [he]
    have hsn : ∀ b, (updS s.senders a (some { seq := ss, txs := [] })) b =
        if b = a then some { seq := ss, txs := [] } else s.senders b := by
      intro b; simp
    have hnone := hw.sndNone a hr
    refine ⟨⟨⟨hw.ids, hw.keys, ?_, ?_, ?_, hw.bTx, ?_, hw.bSched, hw.schedKeys, hw.pNodup, hw.pSub⟩, ?_, ?_⟩, ?_, rfl, ?_⟩
    · intro b r' hb x
      change updS s.senders a _ b = some r' at hb
      rw [hsn] at hb
      by_cases hba : b = a
      · subst hba; simp at hb; subst hb
        simp only [List.not_mem_nil, false_iff, not_and]
        intro hx; exact hnone x hx
      · simp only [hba, if_false] at hb; exact hw.sndSome b r' hb x
    · intro b hb
      change updS s.senders a _ b = none at hb
      rw [hsn] at hb
      by_cases hba : b = a
      · simp [hba] at hb
      · simp only [hba, if_false] at hb; exact hw.sndNone b hb
    · intro b r' hb
      change updS s.senders a _ b = some r' at hb
      rw [hsn] at hb
      by_cases hba : b = a
      · subst hba; simp at hb; subst hb; exact List.nodup_nil
      · simp only [hba, if_false] at hb; exact hw.sndNodup b r' hb
    · intro b r' hb
      change updS s.senders a _ b = some r' at hb
      rw [hsn] at hb
      by_cases hba : b = a
      · subst hba; simp at hb; subst hb; exact hss
      · simp only [hba, if_false] at hb; exact hw.bRec b r' hb
    · intro b r' hb x hx
      change updS s.senders a _ b = some r' at hb
      rw [hsn] at hb
      by_cases hba : b = a
      · subst hba; simp at hb; subst hb; simp at hx
      · simp only [hba, if_false] at hb; exact hl b r' hb x hx
    · apply syncP_congr (Rdy s) _ _ (show SyncP (Rdy s) _ from hs)
      intro u hu
      have hu' : u ∈ s.txs := hu
      symm
      apply rdy_congr
      · rfl
      · show (updS s.senders a _ u.sender).map (·.seq) = _
        rw [hsn]; simp [hnone u hu']
    · have hc : (abs s).cur a = none := by simp [abs, hr]
      apply state_ext
      · simp [ensureSender, hc]; rfl
      · simp [ensureSender, hc]; rfl
      · intro b
        show (updS s.senders a _ b).map (·.seq) = _
        rw [hsn]
        simp only [ensureSender, hc, upd]
        by_cases hba : b = a <;> simp [hba, abs]
      · intro b; simp [ensureSender, hc]; rfl
      · simp [ensureSender, hc]; rfl
    · exact ⟨{ seq := ss, txs := [] }, by show updS s.senders a _ a = _; rw [hsn]; simp⟩

@[simp] theorem abs_txs (s : Impl.State) : (abs s).txs = s.txs := rfl
@[simp] theorem abs_cap (s : Impl.State) : (abs s).cap = s.cap := rfl

theorem add_unfold (s : Impl.State) (t : Tx) (ss : Nat) (v : Option Tx) :
    Impl.add s t ss v =
      (match (ensure s t.sender ss).senders t.sender with
      | none => .error .nilSender
      | some r =>
        if t.seq < r.seq then pure (some (ensure s t.sender ss, .expired)) else
        match r.get t.seq with
        | some old =>
          if old.prio ≥ t.prio then pure (some (ensure s t.sender ss, .replaceUnderpriced)) else do
            let s1 ← Impl.replace (ensure s t.sender ss) t.sender t old
            pure (some (s1, .ok))
        | none => do
          let s1 ← Impl.insert (ensure s t.sender ss) t.sender t
          if s1.txs.length ≤ s1.cap then pure (some (s1, .ok)) else
          match chooseVictim s1.txs v with
          | none => pure (some (s1, .ok))
          | some w =>
            if Impl.evictOk s1 w then do
              let s2 ← Impl.delete s1 w
              pure (some (s2, if w == t then .underpriced else .ok))
            else pure none) := by
  unfold Impl.add ensure
  rfl

def insRef (s0 : Impl.State) (t : Tx) : State :=
  { cap := s0.cap, txs := t :: s0.txs, cur := (abs s0).cur, sched := (abs s0).sched, picked := (abs s0).picked }

/-- What `add` must establish with respect to the reference result `ref`. -/
def AddPost (o : Option (Impl.State × AddRes)) (ref : Option (State × AddRes)) : Prop :=
  o.map (fun x => (abs x.1, x.2)) = ref ∧ ∀ x, o = some x → Inv x.1

theorem addCore_spec (s0 : Impl.State) (r : Rec) (t : Tx) (ss : Nat) (v : Option Tx) (hi : Inv s0)
    (hr : s0.senders t.sender = some r) (hfresh : ∀ u ∈ s0.txs, u.id ≠ t.id) (ht : t.seq ≤ maxSeq) :
    ∃ o, (if t.seq < r.seq then pure (some (s0, AddRes.expired)) else
        match r.get t.seq with
        | some old =>
          if old.prio ≥ t.prio then pure (some (s0, .replaceUnderpriced)) else do
            let s1 ← Impl.replace s0 t.sender t old
            pure (some (s1, .ok))
        | none => do
          let s1 ← Impl.insert s0 t.sender t
          if s1.txs.length ≤ s1.cap then pure (some (s1, .ok)) else
          match chooseVictim s1.txs v with
          | none => pure (some (s1, .ok))
          | some w =>
            if Impl.evictOk s1 w then do
              let s2 ← Impl.delete s1 w
              pure (some (s2, if w == t then .underpriced else .ok))
            else pure none : Except Fault (Option (Impl.State × AddRes))) = .ok o ∧
      AddPost o (addCore (abs s0) t ss v) := by
  obtain ⟨hw, hl, hs⟩ := hi
  have hcur : (abs s0).cur t.sender = some r.seq := by simp [abs, hr]
  have hrm := hw.sndSome _ r hr
  unfold addCore
  rw [hcur]
  simp only [Option.getD_some]
  by_cases hexp : t.seq < r.seq
  · refine ⟨some (s0, .expired), by simp [hexp, pure, Except.pure], ?_, ?_⟩
    · simp [hexp]
    · intro x hx; simp at hx; subst hx; exact ⟨hw, hl, hs⟩
  · simp only [hexp, if_false]
    cases hg : r.get t.seq with
    | some old =>
      have ⟨hold, hoseq⟩ := get_some r _ old hg
      have hotx := (hrm old).1 hold
      have hfind : (abs s0).txs.find? (fun u => u.sender == t.sender && u.seq == t.seq) = some old := by
        cases hf : (abs s0).txs.find? (fun u => u.sender == t.sender && u.seq == t.seq) with
        | none =>
          have := List.find?_eq_none.1 hf old hotx.1
          simp [hotx.2, hoseq] at this
        | some o' =>
          have h1 : o' ∈ s0.txs := List.mem_of_find?_eq_some hf
          have h2 := List.find?_some hf
          simp only [Bool.and_eq_true, beq_iff_eq] at h2
          rw [hw.keys o' h1 old hotx.1 (h2.1.trans hotx.2.symm) (h2.2.trans hoseq.symm)]
      rw [hfind]
      simp only
      by_cases hpr : old.prio ≥ t.prio
      · have : t.prio ≤ old.prio := hpr
        refine ⟨some (s0, .replaceUnderpriced), by simp [hpr, pure, Except.pure], ?_, ?_⟩
        · simp [this]
        · intro x hx; simp at hx; subst hx; exact ⟨hw, hl, hs⟩
      · have hnle : ¬ t.prio ≤ old.prio := hpr
        have hpre : ReplacePre s0 r t old := ⟨hr, hold, hoseq.symm, hfresh⟩
        refine ⟨some (replaceEff s0 t.sender r t old, .ok), ?_, ?_, ?_⟩
        · simp only [hpr, if_false, replace_eq s0 r t old hw hpre, bind, Except.bind, pure, Except.pure]
        · simp only [hnle, if_false, Option.map_some]
          rw [replaceEff_abs s0 r t old hpre]
        · intro x hx; simp at hx; subst hx
          exact replaceEff_inv s0 r t old ⟨hw, hl, hs⟩ hpre
    | none =>
      have hnk := get_none r _ hg
      have hfind : (abs s0).txs.find? (fun u => u.sender == t.sender && u.seq == t.seq) = none := by
        apply List.find?_eq_none.2
        intro u hu
        simp only [Bool.and_eq_true, beq_iff_eq, not_and]
        intro hus
        exact hnk u ((hrm u).2 ⟨hu, hus⟩)
      rw [hfind]
      simp only
      have hpre : InsertPre s0 r t := ⟨hr, hfresh, fun u hu hus => hnk u ((hrm u).2 ⟨hu, hus⟩), ht⟩
      have hins := insert_eq s0 t.sender r t hw hr hpre.notMem
      have hi1 := insertEff_inv s0 r t ⟨hw, hl, hs⟩ hpre (by omega)
      have ha1 := insertEff_abs s0 r t hpre
      have htxs1 : (insertEff s0 t.sender r t).txs = t :: s0.txs := rfl
      have hcap1 : (insertEff s0 t.sender r t).cap = s0.cap := rfl
      simp only [hins, bind, Except.bind, abs_txs, abs_cap]
      rw [htxs1, hcap1]
      by_cases hcap : (t :: s0.txs).length ≤ s0.cap
      · refine ⟨some (insertEff s0 t.sender r t, .ok), by rw [if_pos hcap]; rfl, ?_, ?_⟩
        · simp only [hcap, if_true, Option.map_some]; rw [ha1]; rfl
        · intro x hx; simp at hx; subst hx; exact hi1
      · simp only [hcap, if_false]
        cases hv : chooseVictim (t :: s0.txs) v with
        | none =>
          refine ⟨some (insertEff s0 t.sender r t, .ok), rfl, ?_, ?_⟩
          · simp only [Option.map_some]; rw [ha1]; rfl
          · intro x hx; simp at hx; subst hx; exact hi1
        | some w =>
          simp only
          cases hok : Impl.evictOk (insertEff s0 t.sender r t) w with
          | false =>
            have hok' : evictOk (insRef s0 t) w = false := hok
            simp only [insRef] at hok'
            refine ⟨none, by simp [pure, Except.pure], ?_, ?_⟩
            · simp only [hok', Bool.false_eq_true, if_false]; rfl
            · intro x hx; simp at hx
          | true =>
            have hok' : evictOk (insRef s0 t) w = true := hok
            simp only [insRef] at hok'
            have hwmem : w ∈ (insertEff s0 t.sender r t).txs := by
              unfold Impl.evictOk at hok
              simp only [Bool.and_eq_true, List.contains_iff_mem] at hok
              exact hok.1
            obtain ⟨s2, hdel, hi2, ha2⟩ := delete_spec _ w hi1 hwmem
            have hflag : (w == t) = (w.id == t.id) := by
              rw [Bool.eq_iff_iff]
              simp only [beq_iff_eq]
              constructor
              · intro h; rw [h]
              · intro h
                exact hi1.1.ids w hwmem t (by rw [htxs1]; exact List.mem_cons_self) h
            refine ⟨some (s2, if w == t then .underpriced else .ok), ?_, ?_, ?_⟩
            · simp only [if_true, hdel, bind, Except.bind, pure, Except.pure]
            · simp only [hok', if_true, Option.map_some]
              rw [ha2, ha1, hflag]; rfl
            · intro x hx; simp at hx; subst hx; exact hi2

theorem add_spec (s : Impl.State) (t : Tx) (ss : Nat) (v : Option Tx) (hi : Inv s)
    (hfresh : ∀ u ∈ s.txs, u.id ≠ t.id) (ht : t.seq ≤ maxSeq) (hss : ss ≤ maxSeq) :
    ∃ o, Impl.add s t ss v = .ok o ∧ AddPost o (addWith (abs s) t ss v) := by
  obtain ⟨hi0, ha0, htx0, r, hr⟩ := ensure_spec s t.sender ss hi hss
  rw [add_unfold, hr]
  simp only
  unfold addWith
  rw [← ha0]
  exact addCore_spec (ensure s t.sender ss) r t ss v hi0 hr (by rw [htx0]; exact hfresh) ht

theorem queueAdd_spec (s : Impl.State) (t : Tx) (ss : Nat) (v : Option Tx) (hi : Inv s)
    (hfresh : ∀ u ∈ s.txs, u.id ≠ t.id) (ht : t.seq ≤ maxSeq) (hss : ss ≤ maxSeq) :
    ∃ o, Impl.queueAdd s t ss v = .ok o ∧ AddPost o (OasisModel.TxPool.queueAdd (abs s) t ss v) := by
  obtain ⟨s1, h1, hi1, ha1⟩ := forward_spec s t.sender ss hi hss
  have hsub : ∀ u ∈ s1.txs, u.id ≠ t.id := by
    intro u hu
    have : u ∈ (OasisModel.TxPool.forward (abs s) t.sender ss).txs := by rw [← ha1]; exact hu
    have hu' : u ∈ s.txs := by
      unfold OasisModel.TxPool.forward at this
      split at this
      · exact this
      · split at this
        · exact this
        · exact (List.mem_filter.1 this).1
    exact hfresh u hu'
  obtain ⟨o, h2, hpost⟩ := add_spec s1 t ss v hi1 hsub ht hss
  refine ⟨o, ?_, ?_⟩
  · simp only [Impl.queueAdd, h1, bind, Except.bind]; exact h2
  · unfold OasisModel.TxPool.queueAdd; rw [← ha1]; exact hpost

/-! ### `restoreMaxHeap`, `reset` -/

/-- Readiness after the reset: the transaction sits at its sender's current sequence number. -/
def curRdy (snd : Nat → Option Rec) (t : Tx) : Prop := (snd t.sender).map (·.seq) = some t.seq

/-- Readiness while `reset` is under way: senders in `D` have been restored already. -/
def PD (snd : Nat → Option Rec) (sch : List (Nat × Nat)) (D : List Nat) (t : Tx) : Prop :=
  if t.sender ∈ D then curRdy snd t else rdyOf (getSched sch t.sender) ((snd t.sender).map (·.seq)) t

/-- A change of the max heap's content only. -/
theorem wf_pending (s : Impl.State) (p : List Tx) (hw : WF s) (hnd : p.Nodup) (hsub : ∀ u ∈ p, u ∈ s.txs) :
    WF { s with pending := p } :=
  ⟨hw.ids, hw.keys, hw.sndSome, hw.sndNone, hw.sndNodup, hw.bTx, hw.bRec, hw.bSched, hw.schedKeys, hnd, hsub⟩

theorem restoreMaxHeap_spec (s : Impl.State) (a q : Nat) (P : Tx → Prop) (hw : WF s) (hl : Low s)
    (hs : SyncP P s) (hq : q ≤ maxSeq) (hP : ∀ t, t.sender = a → (P t ↔ t.seq = q + 1)) :
    ∃ p, restoreMaxHeap s a q = .ok { s with pending := p } ∧ p.Nodup ∧
      ∀ u, u ∈ p ↔ ((u ∈ s.pending ∧ u.sender ≠ a) ∨ (u ∈ s.txs ∧ u.sender = a ∧ curRdy s.senders u)) := by
  -- pending transactions of `a` sit at `q + 1`
  have hpa : ∀ u ∈ s.pending, u.sender = a → u.seq = q + 1 := by
    intro u hu hua; exact (hP u hua).1 ((hs u).1 hu).2
  cases hr : s.senders a with
  | none =>
    refine ⟨s.pending, by simp only [restoreMaxHeap, hr]; rfl, hw.pNodup, ?_⟩
    intro u
    constructor
    · intro hu
      exact Or.inl ⟨hu, hw.sndNone a hr u (hw.pSub u hu)⟩
    · rintro (⟨h, _⟩ | ⟨h1, h2, _⟩)
      · exact h
      · exact absurd h2 (hw.sndNone a hr u h1)
  | some r =>
    have hrm := hw.sndSome a r hr
    have hcr : ∀ u, u.sender = a → (curRdy s.senders u ↔ u.seq = r.seq) := by
      intro u hua; unfold curRdy; rw [hua, hr]; simp; exact eq_comm
    by_cases hemp : r.txs = []
    · refine ⟨s.pending, by simp [restoreMaxHeap, hr, hemp, pure, Except.pure], hw.pNodup, ?_⟩
      have hno : ∀ u ∈ s.txs, u.sender ≠ a := by
        intro u hu hua
        have := (hrm u).2 ⟨hu, hua⟩
        rw [hemp] at this; simp at this
      intro u
      constructor
      · intro hu; exact Or.inl ⟨hu, hno u (hw.pSub u hu)⟩
      · rintro (⟨h, _⟩ | ⟨h1, h2, _⟩)
        · exact h
        · exact absurd h2 (hno u h1)
    · have hemp' : r.txs.isEmpty = false := by simp [hemp]
      by_cases hfw : q < maxSeq ∧ r.seq = q + 1
      · -- the sender was forwarded to the successor of its last scheduled transaction
        have hcond : (decide (q < maxSeq) && r.seq == succ64 q) = true := by
          simp [hfw.1, succ64_lt q hfw.1, hfw.2]
        refine ⟨s.pending, by simp only [restoreMaxHeap, hr, hemp', hcond, if_true, Bool.false_eq_true, if_false]; rfl,
          hw.pNodup, ?_⟩
        intro u
        by_cases hua : u.sender = a
        · rw [hcr u hua, hs u, hP u hua, hfw.2]
          simp [hua]
        · simp [hua]
      · have hcond : (decide (q < maxSeq) && r.seq == succ64 q) = false := by
          by_cases h1 : q < maxSeq
          · have : r.seq ≠ q + 1 := fun h => hfw ⟨h1, h⟩
            simp [h1, succ64_lt q h1, this]
          · simp [h1]
        have hne : r.seq ≠ q + 1 := by
          intro h
          by_cases h1 : q < maxSeq
          · exact hfw ⟨h1, h⟩
          · have := hw.bRec a r hr; omega
        -- `first`
        obtain ⟨first, hfdef, hfspec, hfmem⟩ : ∃ first : Option Tx,
            r.first = first ∧
            (∀ u ∈ s.txs, u.sender = a → (first = some u ↔ u.seq = r.seq)) ∧
            (∀ f, first = some f → f ∈ s.txs ∧ f.sender = a ∧ f.seq = r.seq) := by
          cases hm : minSeq r.txs with
          | none => exact absurd ((minSeq_none _).1 hm) hemp
          | some f =>
            have ⟨hf, hmin⟩ := minSeq_spec _ _ hm
            have hf' := (hrm f).1 hf
            by_cases hfs : f.seq = r.seq
            · refine ⟨some f, by simp [Rec.first, hm, hfs], ?_, ?_⟩
              · intro u hu hua
                constructor
                · intro h; simp at h; rw [← h]; exact hfs
                · intro h
                  rw [hw.keys u hu f hf'.1 (hua.trans hf'.2.symm) (h.trans hfs.symm)]
              · intro f' h; simp at h; subst h; exact ⟨hf'.1, hf'.2, hfs⟩
            · refine ⟨none, by simp [Rec.first, hm, hfs], ?_, by simp⟩
              intro u hu hua
              have h1 := hmin u ((hrm u).2 ⟨hu, hua⟩)
              have h2 := hl a r hr f hf
              constructor
              · intro h; simp at h
              · intro h; omega
        -- `current`
        obtain ⟨current, hcdef, hcspec, hcmem⟩ : ∃ current : Option Tx,
            r.current q = current ∧
            (∀ u ∈ s.txs, u.sender = a → (current = some u ↔ u.seq = q + 1)) ∧
            (∀ c, current = some c → c ∈ s.txs ∧ c.sender = a ∧ c.seq = q + 1) := by
          by_cases h1 : q < maxSeq
          · simp only [Rec.current, h1, if_true, succ64_lt q h1]
            cases hg : r.get (q + 1) with
            | none =>
              refine ⟨none, rfl, ?_, by simp⟩
              intro u hu hua
              have := get_none r _ hg u ((hrm u).2 ⟨hu, hua⟩)
              simp [this]
            | some c =>
              have ⟨hc, hcs⟩ := get_some r _ c hg
              have hc' := (hrm c).1 hc
              refine ⟨some c, rfl, ?_, ?_⟩
              · intro u hu hua
                constructor
                · intro h; simp at h; rw [← h]; exact hcs
                · intro h
                  rw [hw.keys u hu c hc'.1 (hua.trans hc'.2.symm) (h.trans hcs.symm)]
              · intro c' h; simp at h; subst h; exact ⟨hc'.1, hc'.2, hcs⟩
          · refine ⟨none, by simp [Rec.current, h1], ?_, by simp⟩
            intro u hu hua
            have := hw.bTx u hu
            constructor
            · intro h; simp at h
            · intro h; omega
        have hunf : restoreMaxHeap s a q = Impl.restoreSwitch s current first := by
          simp only [restoreMaxHeap, hr, hemp', hcond, Bool.false_eq_true, if_false, hfdef, hcdef]
        rw [hunf]
        -- the heap's only possible transaction of `a` is `current`
        have hpend_a : ∀ u ∈ s.pending, u.sender = a → current = some u := by
          intro u hu hua
          exact (hcspec u (hw.pSub u hu) hua).2 (hpa u hu hua)
        cases current with
        | some c =>
          simp only [Impl.restoreSwitch]
          have ⟨hctx, hca, hcq⟩ := hcmem c rfl
          have hcp : c ∈ s.pending := (hs c).2 ⟨hctx, (hP c hca).2 hcq⟩
          have hcc : s.pending.contains c = true := List.contains_iff_mem.2 hcp
          cases first with
          | some f =>
            have ⟨hftx, hfa, hfq⟩ := hfmem f rfl
            have hfp : f ∉ s.pending := by
              intro h; have := hpa f h hfa; omega
            have hfc : (s.pending.erase c).contains f = false := by
              cases h : (s.pending.erase c).contains f with
              | false => rfl
              | true => exact absurd (List.mem_of_mem_erase (List.contains_iff_mem.1 h)) hfp
            refine ⟨f :: s.pending.erase c, ?_, ?_, ?_⟩
            · simp only [heapReplace, hcc, hfc, if_true, Bool.false_eq_true, if_false, bind, Except.bind, pure, Except.pure]
            · exact List.nodup_cons.2 ⟨fun h => hfp (List.mem_of_mem_erase h), hw.pNodup.erase c⟩
            · intro u
              simp only [List.mem_cons, hw.pNodup.mem_erase_iff]
              constructor
              · rintro (h | ⟨h1, h2⟩)
                · subst h; exact Or.inr ⟨hftx, hfa, (hcr u hfa).2 hfq⟩
                · refine Or.inl ⟨h2, fun hua => h1 ?_⟩
                  have := hpend_a u h2 hua; simp at this; exact this.symm
              · rintro (⟨h1, h2⟩ | ⟨h1, h2, h3⟩)
                · exact Or.inr ⟨fun h => h2 (h ▸ hca), h1⟩
                · have := (hfspec u h1 h2).2 ((hcr u h2).1 h3)
                  simp at this; exact Or.inl this.symm
          | none =>
            refine ⟨s.pending.erase c, ?_, hw.pNodup.erase c, ?_⟩
            · simp only [heapRemove, hcc, if_true, bind, Except.bind, pure, Except.pure]
            · intro u
              simp only [hw.pNodup.mem_erase_iff]
              constructor
              · rintro ⟨h1, h2⟩
                refine Or.inl ⟨h2, fun hua => h1 ?_⟩
                have := hpend_a u h2 hua; simp at this; exact this.symm
              · rintro (⟨h1, h2⟩ | ⟨h1, h2, h3⟩)
                · exact ⟨fun h => h2 (h ▸ hca), h1⟩
                · have := (hfspec u h1 h2).2 ((hcr u h2).1 h3)
                  simp at this
        | none =>
          simp only [Impl.restoreSwitch]
          have hnoa : ∀ u ∈ s.pending, u.sender ≠ a := by
            intro u hu hua; have := hpend_a u hu hua; simp at this
          cases first with
          | some f =>
            have ⟨hftx, hfa, hfq⟩ := hfmem f rfl
            have hfp : f ∉ s.pending := fun h => hnoa f h hfa
            have hfc : s.pending.contains f = false := by
              cases h : s.pending.contains f with
              | false => rfl
              | true => exact absurd (List.contains_iff_mem.1 h) hfp
            refine ⟨f :: s.pending, ?_, List.nodup_cons.2 ⟨hfp, hw.pNodup⟩, ?_⟩
            · simp only [heapPush, hfc, Bool.false_eq_true, if_false, bind, Except.bind, pure, Except.pure]
            · intro u
              simp only [List.mem_cons]
              constructor
              · rintro (h | h)
                · subst h; exact Or.inr ⟨hftx, hfa, (hcr u hfa).2 hfq⟩
                · exact Or.inl ⟨h, hnoa u h⟩
              · rintro (⟨h1, h2⟩ | ⟨h1, h2, h3⟩)
                · exact Or.inr h1
                · have := (hfspec u h1 h2).2 ((hcr u h2).1 h3)
                  simp at this; exact Or.inl this.symm
          | none =>
            refine ⟨s.pending, rfl, hw.pNodup, ?_⟩
            intro u
            constructor
            · intro h; exact Or.inl ⟨h, hnoa u h⟩
            · rintro (⟨h1, h2⟩ | ⟨h1, h2, h3⟩)
              · exact h1
              · have := (hfspec u h1 h2).2 ((hcr u h2).1 h3)
                simp at this

theorem restoreAll_spec : ∀ (order : List (Nat × Nat)) (s : Impl.State) (D : List Nat),
    WF s → Low s → SyncP (PD s.senders s.scheduled D) s →
    (∀ a q, (a, q) ∈ order → getSched s.scheduled a = some q ∧ a ∉ D) →
    (order.map Prod.fst).Nodup →
    ∃ p, restoreAll order s = .ok { s with pending := p } ∧ WF { s with pending := p } ∧
      SyncP (PD s.senders s.scheduled (order.map Prod.fst ++ D)) { s with pending := p } := by
  intro order
  induction order with
  | nil =>
    intro s D hw hl hs _ _
    exact ⟨s.pending, rfl, hw, hs⟩
  | cons e rest ih =>
    intro s D hw hl hs hord hnd
    obtain ⟨a, q⟩ := e
    have ⟨hq, haD⟩ := hord a q List.mem_cons_self
    have hP : ∀ t, t.sender = a → (PD s.senders s.scheduled D t ↔ t.seq = q + 1) := by
      intro t hta
      unfold PD
      rw [hta]
      simp only [haD, if_false, hq, rdyOf]
    obtain ⟨p, hrun, hpnd, hmem⟩ := restoreMaxHeap_spec s a q _ hw hl hs (hw.bSched a q hq) hP
    have hpsub : ∀ u ∈ p, u ∈ s.txs := by
      intro u hu
      rcases (hmem u).1 hu with ⟨h, _⟩ | ⟨h, _⟩
      · exact hw.pSub u h
      · exact h
    have hw1 : WF { s with pending := p } := wf_pending s p hw hpnd hpsub
    have hs1 : SyncP (PD s.senders s.scheduled (a :: D)) { s with pending := p } := by
      intro u
      show u ∈ p ↔ (u ∈ s.txs ∧ PD s.senders s.scheduled (a :: D) u)
      rw [hmem u, hs u]
      unfold PD
      by_cases hua : u.sender = a
      · simp [hua]
      · have : (u.sender ∈ a :: D) ↔ u.sender ∈ D := by simp [hua]
        simp only [this, hua]
        simp only [ne_eq, not_false_eq_true, and_true, false_and, and_false, or_false]
        exact ⟨fun h => h.1, fun h => ⟨h, hua⟩⟩
    have hnd' := List.nodup_cons.1 hnd
    have hord1 : ∀ a' q', (a', q') ∈ rest → getSched s.scheduled a' = some q' ∧ a' ∉ a :: D := by
      intro a' q' h
      have := hord a' q' (List.mem_cons_of_mem _ h)
      refine ⟨this.1, ?_⟩
      intro hm
      rcases List.mem_cons.1 hm with rfl | hm
      · exact hnd'.1 (List.mem_map.2 ⟨(a', q'), h, rfl⟩)
      · exact this.2 hm
    obtain ⟨p', hrun', hw', hs'⟩ := ih { s with pending := p } (a :: D) hw1 hl hs1 hord1 hnd'.2
    refine ⟨p', ?_, hw', ?_⟩
    · simp only [restoreAll, hrun, bind, Except.bind]
      exact hrun'
    · intro u
      have := hs' u
      have hperm : (PD s.senders s.scheduled (List.map Prod.fst rest ++ a :: D) u ↔
          PD s.senders s.scheduled (List.map Prod.fst ((a, q) :: rest) ++ D) u) := by
        unfold PD
        have : (u.sender ∈ List.map Prod.fst rest ++ a :: D) ↔
            (u.sender ∈ List.map Prod.fst ((a, q) :: rest) ++ D) := by
          simp only [List.map_cons, List.mem_append, List.mem_cons]
          constructor
          · rintro (h | h | h)
            · exact Or.inl (Or.inr h)
            · exact Or.inl (Or.inl h)
            · exact Or.inr h
          · rintro ((h | h) | h)
            · exact Or.inr (Or.inl h)
            · exact Or.inl h
            · exact Or.inr (Or.inr h)
        simp only [this]
      exact this.trans (and_congr_right fun _ => hperm)

theorem getSched_mem (m : List (Nat × Nat)) (a q : Nat) (h : getSched m a = some q) : (a, q) ∈ m := by
  induction m with
  | nil => simp [getSched] at h
  | cons e m ih =>
    obtain ⟨k, v⟩ := e
    simp only [getSched] at h
    by_cases hk : k = a
    · simp [hk] at h; subst hk; subst h; exact List.mem_cons_self
    · simp only [hk, if_false] at h; exact List.mem_cons_of_mem _ (ih h)

theorem getSched_of_mem (m : List (Nat × Nat)) (a q : Nat) (hnd : (m.map Prod.fst).Nodup) (h : (a, q) ∈ m) :
    getSched m a = some q := by
  induction m with
  | nil => simp at h
  | cons e m ih =>
    obtain ⟨k, v⟩ := e
    simp only [List.map_cons] at hnd
    have hnd' := List.nodup_cons.1 hnd
    simp only [getSched]
    rcases List.mem_cons.1 h with h | h
    · simp at h; simp [h.1, h.2]
    · by_cases hk : k = a
      · subst hk
        exact absurd (List.mem_map.2 ⟨(k, q), h, rfl⟩) hnd'.1
      · simp only [hk, if_false]; exact ih hnd'.2 h

/-- The iteration orders `reset` may use: each entry of `scheduled` exactly once. -/
def OrderOk (s : Impl.State) (order : List (Nat × Nat)) : Prop :=
  (order.map Prod.fst).Nodup ∧ ∀ a q, (a, q) ∈ order ↔ getSched s.scheduled a = some q

theorem orderOk_self (s : Impl.State) (hw : WF s) : OrderOk s s.scheduled :=
  ⟨hw.schedKeys, fun a q => ⟨getSched_of_mem _ a q hw.schedKeys, getSched_mem _ a q⟩⟩

theorem resetWith_spec (s : Impl.State) (order : List (Nat × Nat)) (hi : Inv s) (ho : OrderOk s order) :
    ∃ s', resetWith s order = .ok s' ∧ Inv s' ∧ abs s' = OasisModel.TxPool.reset (abs s) := by
  obtain ⟨hw, hl, hs⟩ := hi
  have hs0 : SyncP (PD s.senders s.scheduled []) s := by
    apply syncP_congr (Rdy s) _ _ hs
    intro t _
    rw [rdy_iff]; unfold PD; simp
  obtain ⟨p, hrun, hwp, hsp⟩ := restoreAll_spec order s [] hw hl hs0
    (fun a q h => ⟨(ho.2 a q).1 h, by simp⟩) ho.1
  refine ⟨{ s with pending := p, scheduled := [], picked := [] }, ?_, ⟨?_, hl, ?_⟩, ?_⟩
  · simp only [resetWith, hrun, bind, Except.bind, pure, Except.pure]
  · exact ⟨hwp.ids, hwp.keys, hwp.sndSome, hwp.sndNone, hwp.sndNodup, hwp.bTx, hwp.bRec,
      fun a q h => by simp [getSched] at h, List.nodup_nil, hwp.pNodup, hwp.pSub⟩
  · intro u
    show u ∈ p ↔ (u ∈ s.txs ∧ Rdy { s with pending := p, scheduled := [], picked := [] } u)
    have := hsp u
    rw [show (u ∈ ({ s with pending := p } : Impl.State).pending) = (u ∈ p) from rfl] at this
    rw [this]
    apply and_congr_right
    intro _
    rw [rdy_iff]
    show PD s.senders s.scheduled (List.map Prod.fst order ++ []) u ↔
      rdyOf (getSched [] u.sender) ((s.senders u.sender).map (·.seq)) u
    unfold PD
    simp only [List.append_nil, getSched, rdyOf, curRdy]
    by_cases hm : u.sender ∈ List.map Prod.fst order
    · simp [hm]
    · have hnone : getSched s.scheduled u.sender = none := by
        cases hg : getSched s.scheduled u.sender with
        | none => rfl
        | some q =>
          exact absurd (List.mem_map.2 ⟨(u.sender, q), (ho.2 _ q).2 hg, rfl⟩) hm
      simp [hm, hnone]
  · apply state_ext
    · rfl
    · rfl
    · intro b; rfl
    · intro b; rfl
    · rfl

theorem reset_spec (s : Impl.State) (hi : Inv s) :
    ∃ s', Impl.reset s = .ok s' ∧ Inv s' ∧ abs s' = OasisModel.TxPool.reset (abs s) :=
  resetWith_spec s s.scheduled hi (orderOk_self s hi.1)

end OasisProofs.TxPoolImpl
