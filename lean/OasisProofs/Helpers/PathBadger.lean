import OasisModel.NodeDB.PathBadger
/-
Lemmas about the pathbadger bookkeeping model (property C06): store lemmas, the pointwise
"closed tree" invariant, and its preservation by Commit / Finalize / Prune.
-/
namespace OasisProofs.PathBadgerH
open OasisModel.NodeDB OasisModel.NodeDB.PathBadger

/-! ### association lists -/

theorem lookupD_cons {α β : Type} [DecidableEq α] (l : List (α × β)) (k k' : α) (a d : β) :
    lookupD ((k, a) :: l) k' d = if k = k' then a else lookupD l k' d := by
  simp [lookupD]

theorem lookupD_append_map_ne {α β γ : Type} [DecidableEq α] (xs : List γ) (f : γ → α × β) (l : List (α × β))
    (k : α) (d : β) (h : ∀ x ∈ xs, (f x).1 ≠ k) :
    lookupD (xs.map f ++ l) k d = lookupD l k d := by
  induction xs with
  | nil => rfl
  | cons x xs ih =>
    simp only [List.map_cons, List.cons_append, lookupD]
    have : ¬ (f x).1 = k := h x (by simp)
    simp only [this, if_false]
    exact ih (fun y hy => h y (List.mem_cons_of_mem _ hy))

/-! ### the finalized key space -/

theorem finAt_write (m : FinStore) (k : Nat × Key) (w : Nat) (v : Option NodeVal) (k' : Nat × Key) (t : Nat) :
    finAt (finWrite m k w v) k' t = if k = k' ∧ w = t then some v else finAt m k' t := by
  simp [finWrite, finAt]

theorem finGet_congr (m m' : FinStore) (k : Nat × Key) (t : Nat) (h : ∀ t' ≤ t, finAt m' k t' = finAt m k t') :
    finGet m' k t = finGet m k t := by
  induction t with
  | zero => simp [finGet, h 0 (Nat.le_refl 0)]
  | succ t ih =>
    simp only [finGet, h (t + 1) (Nat.le_refl _)]
    rw [ih (fun t' ht' => h t' (by omega))]

theorem finAt_writeAll (m : FinStore) (ws : List ((Nat × Key) × Option NodeVal)) (w : Nat) (k : Nat × Key) (t : Nat)
    (h : t ≠ w ∨ ∀ e ∈ ws, e.1 ≠ k) :
    finAt (finWriteAll m ws w) k t = finAt m k t := by
  induction ws generalizing m with
  | nil => rfl
  | cons e ws ih =>
    simp only [finWriteAll, List.foldl] at ih ⊢
    rw [ih]
    · rw [finAt_write]
      have : ¬ (e.1 = k ∧ w = t) := by
        rcases h with h | h
        · intro hc; exact h hc.2.symm
        · intro hc; exact h e (by simp) hc.1
      simp [this]
    · rcases h with h | h
      · exact Or.inl h
      · exact Or.inr (fun x hx => h x (List.mem_cons_of_mem _ hx))

/-- Writes at timestamp `w` do not change what a reader at an earlier timestamp sees, and never
what it sees under a key that is not written. -/
theorem finGet_writeAll_frame (m : FinStore) (ws : List ((Nat × Key) × Option NodeVal)) (w : Nat) (k : Nat × Key) (t : Nat)
    (h : t < w ∨ ∀ e ∈ ws, e.1 ≠ k) :
    finGet (finWriteAll m ws w) k t = finGet m k t := by
  apply finGet_congr
  intro t' ht'
  apply finAt_writeAll
  rcases h with h | h
  · exact Or.inl (by omega)
  · exact Or.inr h

/-- If every write of the batch under `k` carries the value `v` and there is at least one, a
reader at the batch's timestamp sees `v`. -/
theorem finAt_writeAll_hit (m : FinStore) (ws : List ((Nat × Key) × Option NodeVal)) (w : Nat) (k : Nat × Key)
    (v : Option NodeVal) (hall : ∀ e ∈ ws, e.1 = k → e.2 = v) (hex : ∃ e ∈ ws, e.1 = k) :
    finAt (finWriteAll m ws w) k w = some v := by
  induction ws generalizing m with
  | nil => obtain ⟨e, he, _⟩ := hex; simp at he
  | cons e ws ih =>
    simp only [finWriteAll, List.foldl] at ih ⊢
    by_cases hrest : ∃ x ∈ ws, x.1 = k
    · exact ih _ (fun x hx => hall x (List.mem_cons_of_mem _ hx)) hrest
    · have hne : ∀ x ∈ ws, x.1 ≠ k := fun x hx hc => hrest ⟨x, hx, hc⟩
      have := finAt_writeAll (finWrite m e.1 w e.2) ws w k w (Or.inr hne)
      simp only [finWriteAll] at this
      rw [this, finAt_write]
      obtain ⟨x, hx, hxk⟩ := hex
      rcases List.mem_cons.1 hx with rfl | hx'
      · simp [hxk, hall x (by simp) hxk]
      · exact absurd hxk (hne x hx')

theorem finGet_of_finAt (m : FinStore) (k : Nat × Key) (t : Nat) (v : Option NodeVal) (h : finAt m k t = some v) :
    finGet m k t = v := by
  cases t with
  | zero => simp [finGet, h]
  | succ t => simp [finGet, h]

/-- Reading one timestamp later gives the same answer when nothing was written at that timestamp. -/
theorem finGet_succ_of_none (m : FinStore) (k : Nat × Key) (t : Nat) (h : finAt m k (t + 1) = none) :
    finGet m k (t + 1) = finGet m k t := by
  simp [finGet, h]

/-! ### closed trees -/

/-- Every pointer of the list points to a key of `U` that resolves, under root `r`, to a node
with the recorded hash. -/
def PtrsOK (s : St) (r : Root) (U : List Key) (ps : List (Key × Nat)) : Prop :=
  ∀ p ∈ ps, p.1 ∈ U ∧ ∃ v, getNode s r p.1 = some v ∧ v.hash = p.2

/-- The tree under root `r` is closed inside the key set `U`: the root node is there with the right
hash, and every node of `U` resolves and points only to nodes of `U` with the recorded hashes. -/
def Closed (s : St) (r : Root) (U : List Key) : Prop :=
  ∃ rv, rootVal s r.ver (r.typ, r.hash) = some rv ∧ rv.hash = r.hash ∧ PtrsOK s r U rv.kids ∧
    ∀ k ∈ U, ∃ v, getNode s r k = some v ∧ PtrsOK s r U v.kids

theorem walk_ok (s : St) (r : Root) (U : List Key)
    (hU : ∀ k ∈ U, ∃ v, getNode s r k = some v ∧ PtrsOK s r U v.kids) :
    ∀ (n : Nat) (ps : List (Key × Nat)), PtrsOK s r U ps → walk s r n ps = (true, true) := by
  intro n
  induction n with
  | zero => intro ps _; rfl
  | succ n ih =>
    intro ps hps
    simp only [walk]
    have key : ∀ (l : List (Key × Nat)), PtrsOK s r U l →
        l.foldl (fun acc p =>
          match getNode s r p.1 with
          | none => (false, acc.2)
          | some val =>
            let sub := walk s r n val.kids
            (acc.1 && sub.1, acc.2 && decide (val.hash = p.2) && sub.2)) (true, true) = (true, true) := by
      intro l
      induction l with
      | nil => intro _; rfl
      | cons p l ihl =>
        intro hl
        obtain ⟨hpU, v, hv, hh⟩ := hl p (by simp)
        obtain ⟨v', hv', hk⟩ := hU p.1 hpU
        have hvv : v' = v := by rw [hv] at hv'; exact (Option.some.inj hv').symm
        subst hvv
        simp only [List.foldl, hv]
        rw [ih v'.kids hk]
        simp only [Bool.and_self, hh, decide_true]
        exact ihl (fun q hq => hl q (List.mem_cons_of_mem _ hq))
    exact key ps hps

/-- A closed tree of a retained version reads back completely, every node with its recorded hash. -/
theorem read_ok_of_closed (s : St) (r : Root) (U : List Key) (hc : Closed s r U) (he : s.earliest ≤ r.ver) :
    PathBadger.read s r = .ok := by
  obtain ⟨rv, hrv, hh, hk, hU⟩ := hc
  unfold PathBadger.read
  by_cases h0 : (r.hash == 0) = true
  · simp [h0]
  · have hlt : ¬ r.ver < s.earliest := by omega
    simp only [h0, hlt, hrv, if_false, Bool.false_eq_true]
    rw [walk_ok s r U hU 70 rv.kids hk]
    simp [hh]

theorem closed_congr (s s' : St) (r : Root) (U : List Key)
    (hroot : rootVal s' r.ver (r.typ, r.hash) = rootVal s r.ver (r.typ, r.hash))
    (hget : ∀ k ∈ U, getNode s' r k = getNode s r k) (hc : Closed s r U) : Closed s' r U := by
  obtain ⟨rv, hrv, hh, hk, hU⟩ := hc
  have tr : ∀ ps, PtrsOK s r U ps → PtrsOK s' r U ps := by
    intro ps hps p hp
    obtain ⟨hpU, v, hv, hvh⟩ := hps p hp
    exact ⟨hpU, v, by rw [hget p.1 hpU]; exact hv, hvh⟩
  refine ⟨rv, by rw [hroot]; exact hrv, hh, tr _ hk, ?_⟩
  intro k hkU
  obtain ⟨v, hv, hvk⟩ := hU k hkU
  exact ⟨v, by rw [hget k hkU]; exact hv, tr _ hvk⟩

/-! ### the invariant -/

structure Inv (s : St) : Prop where
  /-- every reported root of a retained version is a closed tree inside its (ghost) key set -/
  closed : ∀ v th rv, rootVal s v th = some rv → s.earliest ≤ v → Closed s ⟨v, th.1, th.2⟩ (usesOf s v th)
  /-- a tree uses keys of its own version, or older keys if it was built on a finalized root -/
  keyver : ∀ v th rv, rootVal s v th = some rv → ∀ k ∈ usesOf s v th,
      k.1 = v ∨ (k.1 < v ∧ ∃ l, s.last = some l ∧ v ≤ l + 1)
  /-- io trees only use keys of their own version -/
  io : ∀ v h rv, rootVal s v (1, h) = some rv → ∀ k ∈ usesOf s v (1, h), k.1 = v
  /-- tombstones only at finalized timestamps -/
  tomb : ∀ k ts, finAt s.fin k ts = some none → ∃ l, s.last = some l ∧ ts ≤ l
  /-- values are written at the timestamp of the key's creation version -/
  valver : ∀ k ts val, finAt s.fin k ts = some (some val) → k.2.1 = ts
  seq0 : ∀ v th, finalizedGE s v = true → s.earliest ≤ v → seqOf s v th = 0
  pendfresh : ∀ v e, e ∈ pendAt s v → e.1.2.1 < nextSeqOf s v e.1.1 ∧ e.1.2.2.1 = v
  seqlt : ∀ v th rv, rootVal s v th = some rv → finalizedGE s v = false → seqOf s v th < nextSeqOf s v th.1
  ownpend : ∀ v th rv, rootVal s v th = some rv → 0 < seqOf s v th →
      ∀ k ∈ usesOf s v th, k.1 = v → (pendGet s v th.1 (seqOf s v th) k).isSome = true
  updrec : ∀ v th rv, rootVal s v th = some rv → finalizedGE s v = false →
      (∀ k ∈ usesOf s v th, k.1 = v → (false, k) ∈ updOf s v th) ∧
      (∀ k ∈ usesOf s v th, (true, k) ∉ updOf s v th) ∧
      (∀ u ∈ updOf s v th, u.1 = false → u.2.1 = v) ∧
      (∀ u ∈ updOf s v th, u.1 = true → u.2.1 < v)
  window : ∀ l, s.last = some l → s.earliest ≤ l
  nolast : s.last = none → s.earliest = 0

theorem inv_init : Inv PathBadger.init := by
  constructor <;> intros <;> simp_all [PathBadger.init, rootVal, lookupD, finAt, pendAt, seqOf, finalizedGE]

/-! ### reserving a sequence number -/

theorem nextSeqOf_bump (s : St) (v t v' t' : Nat) :
    nextSeqOf (bumpSeq s v t) v' t' =
      if v = v' then (if t = t' then nextSeqOf s v t + 1 else nextSeqOf s v' t') else nextSeqOf s v' t' := by
  unfold nextSeqOf bumpSeq
  simp only [lookupD_cons]
  by_cases hv : v = v'
  · subst hv
    simp only [if_true, lookupD_cons]
    by_cases ht : t = t'
    · subst ht; simp [nextSeqOf]
    · simp [ht]
  · simp [hv]

theorem nextSeqOf_bump_le (s : St) (v t v' t' : Nat) :
    nextSeqOf s v' t' ≤ nextSeqOf (bumpSeq s v t) v' t' := by
  rw [nextSeqOf_bump]
  split
  · rename_i h; subst h
    split
    · rename_i h; subst h; omega
    · exact Nat.le_refl _
  · exact Nat.le_refl _

theorem inv_bumpSeq (s : St) (v t : Nat) (h : Inv s) : Inv (bumpSeq s v t) where
  closed := h.closed
  keyver := h.keyver
  io := h.io
  tomb := h.tomb
  valver := h.valver
  seq0 := h.seq0
  pendfresh := fun v' e he =>
    ⟨Nat.lt_of_lt_of_le (h.pendfresh v' e he).1 (nextSeqOf_bump_le s v t v' e.1.1), (h.pendfresh v' e he).2⟩
  seqlt := fun v' th rv hr hf =>
    Nat.lt_of_lt_of_le (h.seqlt v' th rv hr hf) (nextSeqOf_bump_le s v t v' th.1)
  ownpend := h.ownpend
  updrec := h.updrec
  window := h.window
  nolast := h.nolast

/-! ### more store lemmas -/

theorem finAt_writeAll_cases (m : FinStore) (ws : List ((Nat × Key) × Option NodeVal)) (w : Nat) (k : Nat × Key)
    (t : Nat) (x : Option NodeVal) (h : finAt (finWriteAll m ws w) k t = some x) :
    finAt m k t = some x ∨ (t = w ∧ ∃ e ∈ ws, e.1 = k ∧ e.2 = x) := by
  induction ws generalizing m with
  | nil => exact Or.inl h
  | cons e ws ih =>
    simp only [finWriteAll, List.foldl] at ih h
    rcases ih _ h with h1 | ⟨ht, e', he', hk, hx⟩
    · rw [finAt_write] at h1
      by_cases hc : e.1 = k ∧ w = t
      · simp only [hc, and_self, if_true] at h1
        exact Or.inr ⟨hc.2.symm, e, by simp, hc.1, Option.some.inj h1⟩
      · simp only [hc, if_false] at h1
        exact Or.inl h1
    · exact Or.inr ⟨ht, e', List.mem_cons_of_mem _ he', hk, hx⟩

/-- `getNode` only looks at the sequence numbers, the pending space and the finalized space. -/
theorem getNode_congr (s s' : St) (r : Root) (k : Key)
    (hseq : seqOf s' r.ver (r.typ, r.hash) = seqOf s r.ver (r.typ, r.hash))
    (hpend : pendGet s' r.ver r.typ (seqOf s r.ver (r.typ, r.hash)) k = pendGet s r.ver r.typ (seqOf s r.ver (r.typ, r.hash)) k)
    (hfin : finGet s'.fin (r.typ, k) r.ver = finGet s.fin (r.typ, k) r.ver) :
    getNode s' r k = getNode s r k := by
  unfold getNode
  simp only [hseq, hpend, hfin]

theorem rootVal_nulls (l : List ((Nat × TH) × Option NodeVal)) (v : Nat) (ths : List TH) (u : Nat) (th : TH) :
    lookupD (ths.map (fun x => ((v, x), (none : Option NodeVal))) ++ l) (u, th) none =
      if u = v ∧ th ∈ ths then none else lookupD l (u, th) none := by
  induction ths with
  | nil => simp
  | cons a ths ih =>
    simp only [List.map_cons, List.cons_append, lookupD, ih]
    by_cases h1 : (v, a) = (u, th)
    · have : u = v ∧ th = a := by
        have := Prod.mk.inj h1; exact ⟨this.1.symm, this.2.symm⟩
      simp [h1, this.1, this.2]
    · simp only [h1, if_false]
      by_cases h2 : u = v ∧ th ∈ ths
      · simp [h2]
      · have : ¬ (u = v ∧ th ∈ a :: ths) := by
          rintro ⟨hu, hm⟩
          rcases List.mem_cons.1 hm with rfl | hm
          · exact h1 (by rw [hu])
          · exact h2 ⟨hu, hm⟩
        rw [if_neg h2, if_neg this]

theorem lookupD_some_mem {α β : Type} [DecidableEq α] (l : List (α × Option β)) (k : α) (x : β)
    (h : lookupD l k none = some x) : ∃ e ∈ l, e.1 = k := by
  induction l with
  | nil => simp [lookupD] at h
  | cons e l ih =>
    simp only [lookupD] at h
    by_cases hk : e.1 = k
    · exact ⟨e, by simp, hk⟩
    · simp only [hk, if_false] at h
      obtain ⟨e', he', hk'⟩ := ih h
      exact ⟨e', List.mem_cons_of_mem _ he', hk'⟩

theorem mem_rootsAt (s : St) (v : Nat) (th : TH) :
    th ∈ rootsAt s v ↔ (rootVal s v th).isSome = true := by
  unfold rootsAt
  constructor
  · intro h; exact (List.mem_filter.1 h).2
  · intro h
    refine List.mem_filter.2 ⟨?_, h⟩
    obtain ⟨x, hx⟩ := Option.isSome_iff_exists.1 h
    obtain ⟨e, he, hk⟩ := lookupD_some_mem s.rootNode (v, th) x hx
    refine List.mem_map.2 ⟨e, List.mem_filter.2 ⟨he, ?_⟩, ?_⟩
    · simp [hk]
    · simp [hk]

/-! ### Prune -/

theorem pruneErr_none {s : St} {v : Nat} (h : pruneErr s v = none) :
    ∃ l, s.last = some l ∧ v < l ∧ v = s.earliest := by
  unfold pruneErr at h
  cases hl : s.last with
  | none => simp [hl] at h
  | some l =>
    simp only [hl] at h
    by_cases h1 : l < v
    · simp [h1] at h
    · simp only [h1] at h
      by_cases h2 : (v != s.earliest) = true
      · simp [h2] at h
      · simp only [h2] at h
        by_cases h3 : (v == l) = true
        · simp [h3] at h
        · refine ⟨l, rfl, ?_, by simpa using h2⟩
          simp at h3; omega

theorem rootVal_pruneSt (s : St) (v u : Nat) (th : TH) :
    rootVal (pruneSt s v) u th =
      if u = v ∧ th ∈ (rootsAt s v).filter (fun x => x.1 == 1) then none else rootVal s u th := by
  unfold rootVal pruneSt
  exact rootVal_nulls _ _ _ _ _

theorem rootVal_pruneSt_some {s : St} {v u : Nat} {th : TH} {rv : NodeVal}
    (h : rootVal (pruneSt s v) u th = some rv) : rootVal s u th = some rv := by
  rw [rootVal_pruneSt] at h
  split at h
  · simp at h
  · exact h

theorem ioKeysOf_mem {s : St} {v : Nat} {k : Nat × Key} (h : k ∈ ioKeysOf s v) : k.1 = 1 ∧ k.2.1 = v := by
  unfold ioKeysOf at h
  have := (List.mem_filter.1 (List.mem_filter.1 h).1).2
  simpa using this

theorem inv_pruneSt (s : St) (v : Nat) (herr : pruneErr s v = none) (h : Inv s) : Inv (pruneSt s v) := by
  obtain ⟨l, hl, hlt, hearl⟩ := pruneErr_none herr
  have hfinframe : ∀ (t : Nat) (k : Key) (u : Nat), (t = 1 → k.1 ≠ v) →
      finGet (pruneSt s v).fin (t, k) u = finGet s.fin (t, k) u := by
    intro t k u hk
    apply finGet_writeAll_frame
    right
    intro e he
    obtain ⟨k', hk', rfl⟩ := List.mem_map.1 he
    obtain ⟨h1, h2⟩ := ioKeysOf_mem hk'
    intro hc
    have : k' = (t, k) := hc
    subst this
    exact hk h1 h2
  constructor
  · -- closed
    intro u th rv hr he
    have hr' := rootVal_pruneSt_some hr
    have hu : s.earliest ≤ u := by simp only [pruneSt] at he; omega
    have hne : u ≠ v := by simp only [pruneSt] at he; omega
    have hc := h.closed u th rv hr' hu
    apply closed_congr s (pruneSt s v) ⟨u, th.1, th.2⟩ (usesOf s u th) _ _ hc
    · show rootVal (pruneSt s v) u (th.1, th.2) = rootVal s u (th.1, th.2)
      rw [rootVal_pruneSt]; simp [hne]
    · intro k hk
      apply getNode_congr
      · rfl
      · rfl
      · apply hfinframe
        intro ht
        have : th = (1, th.2) := by cases th; simp_all
        have := h.io u th.2 rv (by rw [← this]; exact hr') k (by rw [← this]; exact hk)
        omega
  · intro u th rv hr k hk
    exact h.keyver u th rv (rootVal_pruneSt_some hr) k hk
  · intro u hh rv hr k hk
    exact h.io u hh rv (rootVal_pruneSt_some hr) k hk
  · -- tomb
    intro k ts hk
    rcases finAt_writeAll_cases _ _ _ _ _ _ hk with h1 | ⟨ht, _⟩
    · exact h.tomb k ts h1
    · exact ⟨l, hl, by omega⟩
  · -- valver
    intro k ts val hk
    rcases finAt_writeAll_cases _ _ _ _ _ _ hk with h1 | ⟨_, e, he, _, hx⟩
    · exact h.valver k ts val h1
    · obtain ⟨k', _, rfl⟩ := List.mem_map.1 he
      simp at hx
  · intro u th hf he
    exact h.seq0 u th hf (by simp only [pruneSt] at he; omega)
  · exact h.pendfresh
  · intro u th rv hr hf
    exact h.seqlt u th rv (rootVal_pruneSt_some hr) hf
  · intro u th rv hr
    exact h.ownpend u th rv (rootVal_pruneSt_some hr)
  · intro u th rv hr hf
    exact h.updrec u th rv (rootVal_pruneSt_some hr) hf
  · intro l' hl'
    have : l' = l := by
      have : (pruneSt s v).last = s.last := rfl
      rw [this, hl] at hl'; exact (Option.some.inj hl').symm
    subst this
    show v + 1 ≤ l'
    omega
  · intro hn
    have : (pruneSt s v).last = s.last := rfl
    rw [this, hl] at hn
    simp at hn

/-! ### Finalize -/

theorem nodupNat_inj {α : Type} (f : α → Nat) (l : List α) (h : nodupNat (l.map f) = true)
    (a b : α) (ha : a ∈ l) (hb : b ∈ l) (hab : f a = f b) : a = b := by
  induction l with
  | nil => simp at ha
  | cons x l ih =>
    simp only [List.map_cons, nodupNat, Bool.and_eq_true, Bool.not_eq_true', List.contains_eq_mem,
      decide_eq_false_iff_not] at h
    rcases List.mem_cons.1 ha with rfl | ha' <;> rcases List.mem_cons.1 hb with rfl | hb'
    · rfl
    · exact absurd (List.mem_map.2 ⟨b, hb', hab.symm⟩) h.1
    · exact absurd (List.mem_map.2 ⟨a, ha', hab⟩) h.1
    · exact ih h.2 ha' hb'

/-- `th` is one of the roots named in the Finalize call. -/
def isFin (chosen : List Root) (th : TH) : Bool := chosen.any (fun r => (r.typ, r.hash) == th)

structure FinOK (s : St) (v : Nat) (chosen : List Root) : Prop where
  notfin : finalizedGE s v = false
  next : ∀ l, s.last = some l → l + 1 = v
  onePerType : ∀ th th', isFin chosen th = true → isFin chosen th' = true → th.1 = th'.1 → th = th'

theorem finalizeRes_ok {s : St} {v : Nat} {chosen : List Root} (h : finalizeRes s v chosen = .ok) :
    FinOK s v chosen := by
  unfold finalizeRes at h
  by_cases h1 : chosen.isEmpty = true
  · simp [h1] at h
  · simp only [h1] at h
    by_cases h2 : finalizedGE s v = true
    · simp [h2] at h
    · simp only [h2] at h
      by_cases h3 : notNext s v = true
      · simp [h3] at h
      · simp only [h3] at h
        by_cases h4 : chosen.any (fun r => r.ver != v) = true
        · simp [h4] at h
        · simp only [h4] at h
          by_cases h5 : (!nodupNat (chosen.map (·.typ))) = true
          · simp [h5] at h
          · refine ⟨by simpa using h2, ?_, ?_⟩
            · intro l hl
              simp only [notNext, hl] at h3
              simpa using h3
            · intro th th' hf hf' ht
              simp only [isFin, List.any_eq_true, beq_iff_eq] at hf hf'
              obtain ⟨r, hr, hrt⟩ := hf
              obtain ⟨r', hr', hrt'⟩ := hf'
              have hnd : nodupNat (chosen.map (·.typ)) = true := by simpa using h5
              have : r = r' := nodupNat_inj (·.typ) chosen hnd r r' hr hr' (by
                have e1 : r.typ = th.1 := by rw [← hrt]
                have e2 : r'.typ = th'.1 := by rw [← hrt']
                show r.typ = r'.typ
                rw [e1, e2, ht])
              subst this
              rw [← hrt, ← hrt']

theorem seqOf_finalizeSt (s : St) (v : Nat) (ch : List Root) (u : Nat) (th : TH) :
    seqOf (finalizeSt s v ch) u th = if v = u then 0 else seqOf s u th := by
  unfold seqOf finalizeSt
  simp only [lookupD_cons]
  split <;> simp [lookupD]

theorem pendAt_finalizeSt (s : St) (v : Nat) (ch : List Root) (u : Nat) :
    pendAt (finalizeSt s v ch) u = if v = u then [] else pendAt s u := by
  unfold pendAt finalizeSt
  simp only [lookupD_cons]

theorem nextSeqOf_finalizeSt (s : St) (v : Nat) (ch : List Root) (u t : Nat) :
    nextSeqOf (finalizeSt s v ch) u t = if v = u then 0 else nextSeqOf s u t := by
  unfold nextSeqOf finalizeSt
  simp only [lookupD_cons]
  split <;> simp [lookupD]

theorem rootVal_finalizeSt (s : St) (v : Nat) (ch : List Root) (u : Nat) (th : TH) :
    rootVal (finalizeSt s v ch) u th =
      if u = v ∧ th ∈ (finPlan s v ch).discarded then none else rootVal s u th := by
  unfold rootVal finalizeSt
  exact rootVal_nulls _ _ _ _ _

theorem mem_discarded (s : St) (v : Nat) (ch : List Root) (th : TH) :
    th ∈ (finPlan s v ch).discarded ↔ (rootVal s v th).isSome = true ∧ isFin ch th = false := by
  simp only [finPlan, List.mem_filter, mem_rootsAt, isFin, Bool.not_eq_true']

theorem rootVal_finalizeSt_some {s : St} {v : Nat} {ch : List Root} {u : Nat} {th : TH} {rv : NodeVal}
    (h : rootVal (finalizeSt s v ch) u th = some rv) :
    rootVal s u th = some rv ∧ (u = v → isFin ch th = true) := by
  rw [rootVal_finalizeSt] at h
  split at h
  · simp at h
  · rename_i hn
    refine ⟨h, fun hu => ?_⟩
    by_cases hf : isFin ch th = true
    · exact hf
    · exfalso
      apply hn
      refine ⟨hu, (mem_discarded s v ch th).2 ⟨?_, by simpa using hf⟩⟩
      rw [← hu, h]; rfl

theorem updOf_finalizeSt (s : St) (v : Nat) (ch : List Root) (u : Nat) (th : TH) (hne : u ≠ v) :
    updOf (finalizeSt s v ch) u th = updOf s u th := by
  unfold updOf finalizeSt
  simp only
  rw [lookupD_append_map_ne]
  intro x _ hc
  exact hne (Prod.mk.inj hc).1.symm

/-- Every finalized-space write of a Finalize, with where it comes from. -/
theorem finalize_writes {s : St} {v : Nat} {ch : List Root} {e : (Nat × Key) × Option NodeVal}
    (he : e ∈ (finPlan s v ch).copies ∨ e ∈ (finPlan s v ch).dels) :
    ∃ th, (rootVal s v th).isSome = true ∧ e.1.1 = th.1 ∧
      ((isFin ch th = true ∧ seqOf s v th ≠ 0 ∧ (false, e.1.2) ∈ updOf s v th ∧
          e.2 = pendGet s v th.1 (seqOf s v th) e.1.2 ∧ (e.2).isSome = true) ∨
       (e.2 = none ∧ isFin ch th = true ∧ (true, e.1.2) ∈ updOf s v th ∧
          ∀ th', (rootVal s v th').isSome = true → isFin ch th' = true → th'.1 = th.1 → (false, e.1.2) ∉ updOf s v th') ∨
       (e.2 = none ∧ isFin ch th = false ∧ (false, e.1.2) ∈ updOf s v th ∧
          ∀ th', (rootVal s v th').isSome = true → isFin ch th' = true → th'.1 = th.1 → (false, e.1.2) ∉ updOf s v th')) := by
  rcases he with he | he
  · simp only [finPlan, List.mem_flatMap, List.mem_filter, mem_rootsAt] at he
    obtain ⟨th, ⟨hr, hf⟩, hin⟩ := he
    by_cases hs : (seqOf s v th == 0) = true
    · simp [hs] at hin
    · simp only [hs, Bool.false_eq_true, if_false, List.mem_filterMap, List.mem_filter] at hin
      obtain ⟨u, ⟨hu, hu1⟩, hm⟩ := hin
      cases hp : pendGet s v th.1 (seqOf s v th) u.2 with
      | none => simp [hp] at hm
      | some val =>
        simp only [hp, Option.map_some, Option.some.injEq] at hm
        subst hm
        refine ⟨th, hr, rfl, Or.inl ⟨by simpa [isFin] using hf, by simpa using hs, ?_, by simp [hp], by simp⟩⟩
        have : u = (false, u.2) := by
          cases u with | mk a b => simp at hu1; simp [hu1]
        rw [← this]; exact hu
  · simp only [finPlan, List.mem_map, List.mem_filter, List.mem_append, List.mem_flatMap, mem_rootsAt] at he
    obtain ⟨k, ⟨hml, hnl⟩, rfl⟩ := he
    have hnot : ∀ th', (rootVal s v th').isSome = true → isFin ch th' = true → th'.1 = k.1 →
        (false, k.2) ∉ updOf s v th' := by
      intro th' hr' hf' ht hmem
      simp only [Bool.not_eq_true', List.contains_eq_mem, decide_eq_false_iff_not, List.mem_flatMap,
        List.mem_filter, mem_rootsAt, List.mem_map] at hnl
      apply hnl
      refine ⟨th', ⟨hr', by simpa [isFin] using hf'⟩, (false, k.2), ⟨hmem, by simp⟩, ?_⟩
      cases k; simp_all
    rcases hml with ⟨th, ⟨hr, hf⟩, hin⟩ | ⟨th, ⟨hr, hf⟩, hin⟩
    · obtain ⟨u, ⟨hu, hu1⟩, rfl⟩ := hin
      refine ⟨th, hr, rfl, Or.inr (Or.inl ⟨rfl, by simpa [isFin] using hf, ?_, hnot⟩)⟩
      have : u = (true, u.2) := by cases u with | mk a b => simp at hu1; simp [hu1]
      show (true, u.2) ∈ updOf s v th
      rw [← this]; exact hu
    · by_cases hs : (seqOf s v th == 0) = true
      · simp only [hs, if_true, List.mem_map, List.mem_filter] at hin
        obtain ⟨u, ⟨hu, hu1⟩, rfl⟩ := hin
        refine ⟨th, hr, rfl, Or.inr (Or.inr ⟨rfl, by simpa [isFin] using hf, ?_, hnot⟩)⟩
        have : u = (false, u.2) := by cases u with | mk a b => simp at hu1; simp [hu1]
        show (false, u.2) ∈ updOf s v th
        rw [← this]; exact hu
      · rw [if_neg hs] at hin
        cases hin

theorem finGet_finalizeSt_frame (s : St) (v : Nat) (ch : List Root) (k : Nat × Key) (u : Nat)
    (hk : u < v ∨ ∀ e, (e ∈ (finPlan s v ch).copies ∨ e ∈ (finPlan s v ch).dels) → e.1 ≠ k) :
    finGet (finalizeSt s v ch).fin k u = finGet s.fin k u := by
  show finGet (finWriteAll (finWriteAll s.fin (finPlan s v ch).copies v) (finPlan s v ch).dels v) k u = _
  rw [finGet_writeAll_frame, finGet_writeAll_frame]
  · rcases hk with hk | hk
    · exact Or.inl hk
    · exact Or.inr (fun e he => hk e (Or.inl he))
  · rcases hk with hk | hk
    · exact Or.inl hk
    · exact Or.inr (fun e he => hk e (Or.inr he))

theorem write_key_version {s : St} {v : Nat} {ch : List Root} (h : Inv s) (hnf : finalizedGE s v = false)
    {e : (Nat × Key) × Option NodeVal}
    (he : e ∈ (finPlan s v ch).copies ∨ e ∈ (finPlan s v ch).dels) : e.1.2.1 ≤ v := by
  obtain ⟨th, hr, _, hcase⟩ := finalize_writes he
  obtain ⟨rv, hrv⟩ := Option.isSome_iff_exists.1 hr
  obtain ⟨_, _, h3, h4⟩ := h.updrec v th rv hrv hnf
  rcases hcase with ⟨_, _, hm, _⟩ | ⟨_, _, hm, _⟩ | ⟨_, _, hm, _⟩
  · have := h3 _ hm rfl; simp at this; omega
  · have := h4 _ hm rfl; simp at this; omega
  · have := h3 _ hm rfl; simp at this; omega

theorem finalizedGE_finalizeSt (s : St) (v : Nat) (ch : List Root) (u : Nat) :
    finalizedGE (finalizeSt s v ch) u = decide (u ≤ v) := by
  simp [finalizedGE, finalizeSt]

theorem inv_finalizeSt (s : St) (v : Nat) (ch : List Root) (hok : FinOK s v ch) (h : Inv s) :
    Inv (finalizeSt s v ch) := by
  have hnf := hok.notfin
  have hlastlt : ∀ l, s.last = some l → l < v := fun l hl => by have := hok.next l hl; omega
  have hfinold : ∀ u, finalizedGE s u = true → u < v := by
    intro u hu
    unfold finalizedGE at hu
    cases hl : s.last with
    | none => simp [hl] at hu
    | some l => simp only [hl, decide_eq_true_eq] at hu; have := hlastlt l hl; omega
  constructor
  · -- closed
    intro u th rv hr he
    obtain ⟨hr', hfin⟩ := rootVal_finalizeSt_some hr
    have hearl : s.earliest ≤ u := by
      cases hl : s.last with
      | none => rw [h.nolast hl]; omega
      | some l => simp only [finalizeSt, hl] at he; simpa using he
    have hc := h.closed u th rv hr' hearl
    apply closed_congr s (finalizeSt s v ch) ⟨u, th.1, th.2⟩ (usesOf s u th) _ _ hc
    · show rootVal (finalizeSt s v ch) u (th.1, th.2) = rootVal s u (th.1, th.2)
      have : (th.1, th.2) = th := by cases th; rfl
      rw [this, hr, hr']
    · intro k hk
      have hth : (th.1, th.2) = th := by cases th; rfl
      rcases Nat.lt_trichotomy u v with hlt | heq | hgt
      · -- an older version: nothing is written below timestamp v, and it is finalized (sequence number 0)
        have hfu : finalizedGE s u = true := by
          cases hl : s.last with
          | none =>
            simp only [finalizeSt, hl] at he
            simp at he; omega
          | some l =>
            have := hok.next l hl
            simp [finalizedGE, hl]; omega
        have hs0 := h.seq0 u th hfu hearl
        unfold getNode
        simp only [hth, seqOf_finalizeSt, hs0]
        have : ¬ v = u := by omega
        simp only [this, if_false, hs0]
        exact finGet_finalizeSt_frame s v ch _ u (Or.inl hlt)
      · -- the finalized root itself
        subst heq
        have hisfin := hfin rfl
        have hkv := h.keyver u th rv hr' k hk
        obtain ⟨u1, u2, u3, u4⟩ := h.updrec u th rv hr' hnf
        unfold getNode
        simp only [hth, seqOf_finalizeSt, if_true]
        have hsome : ∀ th', (rootVal s u th').isSome = true → isFin ch th' = true → th'.1 = th.1 → th' = th :=
          fun th' _ hf' ht => hok.onePerType th' th hf' hisfin ht
        by_cases hq : seqOf s u th = 0
        · -- sequence number 0: its nodes already sit in the finalized space and are not touched
          simp only [hq]
          apply finGet_finalizeSt_frame
          right
          intro e he' hek
          obtain ⟨th', hr'', ht', hcase⟩ := finalize_writes he'
          have hk1 : e.1.1 = th.1 := by rw [hek]
          have hk2 : e.1.2 = k := by rw [hek]
          rcases hcase with ⟨hf', hs', _, _⟩ | ⟨_, hf', hm, _⟩ | ⟨_, hf', hm, hnl⟩
          · have := hsome th' hr'' hf' (by rw [← ht', hk1]); subst this; exact hs' hq
          · have := hsome th' hr'' hf' (by rw [← ht', hk1]); subst this
            rw [hk2] at hm; exact u2 k hk hm
          · -- put by a discarded root with sequence number 0: a key of this version, kept by notLone
            obtain ⟨rv', hrv'⟩ := Option.isSome_iff_exists.1 hr''
            have hv' := (h.updrec u th' rv' hrv' hnf).2.2.1 _ hm rfl
            rw [hk2] at hv' hnl
            try simp at hv'
            exact hnl th (by rw [hr']; rfl) hisfin (by rw [← ht', hk1]) (u1 k hk hv')
        · -- a later sequence number: own nodes are copied, inherited nodes were read by fallback
          have hqpos : 0 < seqOf s u th := by omega
          have hq' : (seqOf s u th == 0) = false := by simpa using hq
          simp only [hq']
          rcases hkv with hown | ⟨hold, _⟩
          · -- own node: copied from the pending space
            have hp := h.ownpend u th rv hr' hqpos k hk hown
            obtain ⟨val, hval⟩ := Option.isSome_iff_exists.1 hp
            simp only [hval]
            have hm := u1 k hk hown
            -- the copy is there ...
            have hcopy : ((th.1, k), some val) ∈ (finPlan s u ch).copies := by
              simp only [finPlan, List.mem_flatMap, List.mem_filter, mem_rootsAt]
              refine ⟨th, ⟨by rw [hr']; rfl, by simpa [isFin] using hisfin⟩, ?_⟩
              simp only [hq', Bool.false_eq_true, if_false, List.mem_filterMap, List.mem_filter]
              exact ⟨(false, k), ⟨hm, by simp⟩, by simp [hval]⟩
            -- ... every copy under this key carries this value ...
            have hall : ∀ e ∈ (finPlan s u ch).copies, e.1 = (th.1, k) → e.2 = some val := by
              intro e he' hek
              obtain ⟨th', hr'', ht', hcase⟩ := finalize_writes (Or.inl he')
              have hk1 : e.1.1 = th.1 := by rw [hek]
              have hk2 : e.1.2 = k := by rw [hek]
              rcases hcase with ⟨hf', _, _, hpe, _⟩ | ⟨hn, _, _, _⟩ | ⟨hn, _, _, _⟩
              · have := hsome th' hr'' hf' (by rw [← ht', hk1]); subst this
                rw [hpe, hk2, hval]
              · have : e ∈ (finPlan s u ch).copies := he'
                obtain ⟨_, _, _, hc2⟩ := finalize_writes (Or.inl this)
                exfalso
                simp only [finPlan, List.mem_flatMap, List.mem_filter, mem_rootsAt] at he'
                obtain ⟨th2, _, hin⟩ := he'
                by_cases hs2 : (seqOf s u th2 == 0) = true
                · simp [hs2] at hin
                · simp only [hs2, Bool.false_eq_true, if_false, List.mem_filterMap] at hin
                  obtain ⟨u', _, hm'⟩ := hin
                  cases hp' : pendGet s u th2.1 (seqOf s u th2) u'.2 with
                  | none => simp [hp'] at hm'
                  | some x => simp only [hp', Option.map_some, Option.some.injEq] at hm'; rw [← hm'] at hn; simp at hn
              · exfalso
                simp only [finPlan, List.mem_flatMap, List.mem_filter, mem_rootsAt] at he'
                obtain ⟨th2, _, hin⟩ := he'
                by_cases hs2 : (seqOf s u th2 == 0) = true
                · simp [hs2] at hin
                · simp only [hs2, Bool.false_eq_true, if_false, List.mem_filterMap] at hin
                  obtain ⟨u', _, hm'⟩ := hin
                  cases hp' : pendGet s u th2.1 (seqOf s u th2) u'.2 with
                  | none => simp [hp'] at hm'
                  | some x => simp only [hp', Option.map_some, Option.some.injEq] at hm'; rw [← hm'] at hn; simp at hn
            -- ... and no deletion touches the key
            have hnodel : ∀ e ∈ (finPlan s u ch).dels, e.1 ≠ (th.1, k) := by
              intro e he' hek
              obtain ⟨th', hr'', ht', hcase⟩ := finalize_writes (Or.inr he')
              have hk1 : e.1.1 = th.1 := by rw [hek]
              have hk2 : e.1.2 = k := by rw [hek]
              rcases hcase with ⟨_, _, _, _, hsm⟩ | ⟨_, hf', hm', _⟩ | ⟨_, _, _, hnl⟩
              · simp only [finPlan, List.mem_map] at he'
                obtain ⟨_, _, rfl⟩ := he'
                simp at hsm
              · have := hsome th' hr'' hf' (by rw [← ht', hk1]); subst this
                rw [hk2] at hm'; exact u2 k hk hm'
              · rw [hk2] at hnl
                exact hnl th (by rw [hr']; rfl) hisfin (by rw [← ht', hk1]) hm
            show finGet (finWriteAll (finWriteAll s.fin (finPlan s u ch).copies u) (finPlan s u ch).dels u) (th.1, k) u = some val
            apply finGet_of_finAt
            rw [finAt_writeAll _ _ _ _ _ (Or.inr hnodel)]
            exact finAt_writeAll_hit _ _ _ _ _ hall ⟨_, hcopy, rfl⟩
          · -- inherited node: not in the pending space, read from the finalized space before and after
            have hpn : pendGet s u th.1 (seqOf s u th) k = none := by
              unfold pendGet
              cases hf : (pendAt s u).find? (fun e => e.1 == (th.1, seqOf s u th, k)) with
              | none => rfl
              | some e =>
                exfalso
                have hm := List.mem_of_find?_eq_some hf
                have hp := List.find?_some hf
                have := (h.pendfresh u e hm).2
                have hke : e.1 = (th.1, seqOf s u th, k) := by simpa using hp
                rw [hke] at this
                simp at this; omega
            simp only [hpn]
            apply finGet_finalizeSt_frame
            right
            intro e he' hek
            obtain ⟨th', hr'', ht', hcase⟩ := finalize_writes he'
            have hk1 : e.1.1 = th.1 := by rw [hek]
            have hk2 : e.1.2 = k := by rw [hek]
            obtain ⟨rv', hrv'⟩ := Option.isSome_iff_exists.1 hr''
            obtain ⟨_, _, w3, _⟩ := h.updrec u th' rv' hrv' hnf
            rcases hcase with ⟨_, _, hm, _⟩ | ⟨_, hf', hm, _⟩ | ⟨_, _, hm, _⟩
            · have := w3 _ hm rfl; rw [hk2] at this; (try simp at this); omega
            · have := hsome th' hr'' hf' (by rw [← ht', hk1]); subst this
              rw [hk2] at hm; exact u2 k hk hm
            · have := w3 _ hm rfl; rw [hk2] at this; (try simp at this); omega
      · -- a later (pending) version: it only uses keys of its own version, which are not written
        have hkv := h.keyver u th rv hr' k hk
        have hown : k.1 = u := by
          rcases hkv with hk1 | ⟨_, l, hl, hle⟩
          · exact hk1
          · have := hok.next l hl; omega
        apply getNode_congr
        · show seqOf (finalizeSt s v ch) u (th.1, th.2) = seqOf s u (th.1, th.2)
          rw [seqOf_finalizeSt]; have : ¬ v = u := by omega
          simp [this]
        · show pendGet (finalizeSt s v ch) u th.1 _ k = pendGet s u th.1 _ k
          unfold pendGet
          rw [pendAt_finalizeSt]; have : ¬ v = u := by omega
          simp [this]
        · apply finGet_finalizeSt_frame
          right
          intro e he' hek
          have := write_key_version h hnf he'
          rw [hek] at this
          simp at this; omega
  · -- keyver
    intro u th rv hr k hk
    obtain ⟨hr', _⟩ := rootVal_finalizeSt_some hr
    rcases h.keyver u th rv hr' k hk with h1 | ⟨h1, l, hl, hle⟩
    · exact Or.inl h1
    · exact Or.inr ⟨h1, v, rfl, by have := hok.next l hl; omega⟩
  · intro u hh rv hr k hk
    exact h.io u hh rv (rootVal_finalizeSt_some hr).1 k hk
  · -- tomb
    intro k ts hk
    refine ⟨v, rfl, ?_⟩
    rcases finAt_writeAll_cases _ _ _ _ _ _ hk with h1 | ⟨ht, _⟩
    · rcases finAt_writeAll_cases _ _ _ _ _ _ h1 with h2 | ⟨ht, _⟩
      · obtain ⟨l, hl, hle⟩ := h.tomb k ts h2
        have := hlastlt l hl; omega
      · omega
    · omega
  · -- valver
    intro k ts val hk
    rcases finAt_writeAll_cases _ _ _ _ _ _ hk with h1 | ⟨ht, e, he, hek, hx⟩
    · rcases finAt_writeAll_cases _ _ _ _ _ _ h1 with h2 | ⟨ht, e, he, hek, hx⟩
      · exact h.valver k ts val h2
      · obtain ⟨th, hr, _, hcase⟩ := finalize_writes (Or.inl he)
        obtain ⟨rv', hrv'⟩ := Option.isSome_iff_exists.1 hr
        obtain ⟨_, _, w3, _⟩ := h.updrec v th rv' hrv' hnf
        rcases hcase with ⟨_, _, hm, _⟩ | ⟨hn, _⟩ | ⟨hn, _⟩
        · have := w3 _ hm rfl; rw [hek] at this; simp at this; omega
        · rw [hn] at hx; simp at hx
        · rw [hn] at hx; simp at hx
    · exfalso
      simp only [finPlan, List.mem_map] at he
      obtain ⟨_, _, rfl⟩ := he
      simp at hx
  · -- seq0
    intro u th hf he
    rw [seqOf_finalizeSt]
    by_cases hvu : v = u
    · simp [hvu]
    · simp only [hvu, if_false]
      rw [finalizedGE_finalizeSt] at hf
      have hlt : u < v := by simp at hf; omega
      cases hl : s.last with
      | none => simp only [finalizeSt, hl] at he; simp at he; omega
      | some l =>
        have := hok.next l hl
        apply h.seq0 u th
        · simp [finalizedGE, hl]; omega
        · simp only [finalizeSt, hl] at he; simpa using he
  · -- pendfresh
    intro u e he
    rw [pendAt_finalizeSt] at he
    by_cases hvu : v = u
    · simp [hvu] at he
    · simp only [hvu, if_false] at he
      rw [nextSeqOf_finalizeSt]; simp only [hvu, if_false]
      exact h.pendfresh u e he
  · -- seqlt
    intro u th rv hr hf
    obtain ⟨hr', _⟩ := rootVal_finalizeSt_some hr
    rw [finalizedGE_finalizeSt] at hf
    have hgt : v < u := by simp at hf; omega
    have hvu : ¬ v = u := by omega
    rw [seqOf_finalizeSt, nextSeqOf_finalizeSt]; simp only [hvu, if_false]
    apply h.seqlt u th rv hr'
    cases hfu : finalizedGE s u with
    | false => rfl
    | true => have := hfinold u hfu; omega
  · -- ownpend
    intro u th rv hr hq k hk hku
    obtain ⟨hr', _⟩ := rootVal_finalizeSt_some hr
    rw [seqOf_finalizeSt] at hq ⊢
    by_cases hvu : v = u
    · simp [hvu] at hq
    · simp only [hvu, if_false] at hq ⊢
      unfold pendGet
      rw [pendAt_finalizeSt]; simp only [hvu, if_false]
      exact h.ownpend u th rv hr' hq k hk hku
  · -- updrec
    intro u th rv hr hf
    obtain ⟨hr', _⟩ := rootVal_finalizeSt_some hr
    rw [finalizedGE_finalizeSt] at hf
    have hgt : v < u := by simp at hf; omega
    rw [updOf_finalizeSt s v ch u th (by omega)]
    apply h.updrec u th rv hr'
    cases hfu : finalizedGE s u with
    | false => rfl
    | true => have := hfinold u hfu; omega
  · -- window
    intro l hl
    have : l = v := by
      have : (finalizeSt s v ch).last = some v := rfl
      rw [this] at hl; exact (Option.some.inj hl).symm
    subst this
    cases hl' : s.last with
    | none => simp [finalizeSt, hl']
    | some l' =>
      simp only [finalizeSt, hl']
      have := h.window l' hl'
      have := hlastlt l' hl'
      simp; omega
  · intro hn
    have : (finalizeSt s v ch).last = some v := rfl
    rw [this] at hn; simp at hn

/-! ### Commit -/

theorem nodupB_unique {β : Type} (l : List (Key × β)) (h : nodupB (l.map (·.1)) = true)
    (k : Key) (a b : β) (ha : (k, a) ∈ l) (hb : (k, b) ∈ l) : a = b := by
  induction l with
  | nil => simp at ha
  | cons x l ih =>
    simp only [List.map_cons, nodupB, Bool.and_eq_true, Bool.not_eq_true', List.contains_eq_mem,
      decide_eq_false_iff_not] at h
    rcases List.mem_cons.1 ha with hxa | ha' <;> rcases List.mem_cons.1 hb with hxb | hb'
    · rw [← hxa] at hxb; exact (Prod.mk.inj hxb).2.symm
    · exfalso; apply h.1; rw [← hxa]; exact List.mem_map.2 ⟨(k, b), hb', rfl⟩
    · exfalso; apply h.1; rw [← hxb]; exact List.mem_map.2 ⟨(k, a), ha', rfl⟩
    · exact ih h.2 ha' hb'

/-- What `NewBatch` and `Commit` have checked when a commit creates a new root. -/
structure CommitCtx (s : St) (old new : Root) : Prop where
  sametype : new.typ = old.typ
  notfin : finalizedGE s new.ver = false
  fresh : rootVal s new.ver (new.typ, new.hash) = none
  next : old.hash ≠ 0 → new.ver = old.ver + 1
  state : old.hash ≠ 0 → old.typ ≠ 1
  oldroot : old.hash ≠ 0 → (rootVal s old.ver (old.typ, old.hash)).isSome = true

/-- The hypotheses about what a tree hands to a batch (`batchOK`), as propositions. -/
structure BatchHyp (s : St) (old new : Root) (b : Batch) : Prop where
  srcfin : old.hash ≠ 0 → finalizedGE s old.ver = true
  putver : ∀ p ∈ b.puts, p.1.1 = new.ver
  nodup : nodupB (b.puts.map (·.1)) = true
  remver : ∀ k ∈ b.removed, k.1 < new.ver
  rootsome : ∀ rv, b.root = some rv → rv.hash = new.hash ∧ ∀ c ∈ rv.kids, ptrOK s old b c = true
  rootnone : b.root = none → new.hash = 0 ∨ (new.hash = old.hash ∧ b.puts = [] ∧ b.removed = [])
  putsok : ∀ p ∈ b.puts, ∀ c ∈ p.2.kids, ptrOK s old b c = true
  kept : old.hash ≠ 0 → ∀ k ∈ usesOf s old.ver (old.typ, old.hash), k ∉ b.removed →
      ∀ val, getNode s old k = some val → ∀ c ∈ val.kids, c.1 ∉ b.removed

theorem batchOK_hyp {s : St} {old new : Root} {b : Batch} (h : batchOK s old new b = true) :
    BatchHyp s old new b := by
  unfold batchOK at h
  simp only [Bool.and_eq_true, Bool.or_eq_true, beq_iff_eq, List.all_eq_true, decide_eq_true_eq] at h
  obtain ⟨⟨⟨⟨⟨⟨h1, h2⟩, h3⟩, h4⟩, h5⟩, h6⟩, h7⟩ := h
  refine ⟨?_, ?_, h3, h4, ?_, ?_, ?_, ?_⟩
  · intro hne; rcases h1 with h1 | h1
    · exact absurd h1 hne
    · exact h1
  · intro p hp; exact h2 p hp
  · intro rv hrv
    rw [hrv] at h5
    simp only [Bool.and_eq_true, beq_iff_eq, List.all_eq_true] at h5
    exact h5
  · intro hrn
    rw [hrn] at h5
    simp only [Bool.or_eq_true, beq_iff_eq, Bool.and_eq_true, List.isEmpty_iff] at h5
    rcases h5 with h5 | ⟨⟨a, b'⟩, c⟩
    · exact Or.inl h5
    · exact Or.inr ⟨a, b', c⟩
  · intro p hp c hc; exact h6 p hp c hc
  · intro hne k hk hkr val hval c hc
    rcases h7 with h7 | h7
    · exact absurd h7 hne
    · have := h7 k hk
      simp only [Bool.or_eq_true, List.contains_eq_mem, decide_eq_true_eq] at this
      rcases this with this | this
      · exact absurd this hkr
      · rw [hval] at this
        simp only [List.all_eq_true, Bool.not_eq_true', List.contains_eq_mem, decide_eq_false_iff_not] at this
        exact this c hc

theorem rootVal_commitSt (s : St) (old new : Root) (b : Batch) (u : Nat) (th' : TH) :
    rootVal (commitSt s old new b) u th' =
      if (new.ver, (new.typ, new.hash)) = (u, th') then some (newRootVal s old new b) else rootVal s u th' := by
  unfold rootVal commitSt
  simp only [lookupD_cons]

theorem usesOf_commitSt (s : St) (old new : Root) (b : Batch) (u : Nat) (th' : TH) :
    usesOf (commitSt s old new b) u th' =
      if (new.ver, (new.typ, new.hash)) = (u, th') then newUses s old b else usesOf s u th' := by
  unfold usesOf commitSt
  simp only [lookupD_cons]

theorem seqOf_commitSt (s : St) (old new : Root) (b : Batch) (u : Nat) (th' : TH) :
    seqOf (commitSt s old new b) u th' =
      if new.ver = u then (if (new.typ, new.hash) = th' then nextSeqOf s new.ver old.typ else seqOf s u th')
      else seqOf s u th' := by
  unfold seqOf commitSt
  simp only [lookupD_cons]
  by_cases h : new.ver = u
  · subst h; simp only [if_true, lookupD_cons]
  · simp [h]

theorem updOf_commitSt (s : St) (old new : Root) (b : Batch) (u : Nat) (th' : TH) :
    updOf (commitSt s old new b) u th' =
      if (new.ver, (new.typ, new.hash)) = (u, th') then
        b.puts.map (fun (p : Key × NodeVal) => (false, p.1)) ++ b.removed.map (fun (k : Key) => (true, k))
      else updOf s u th' := by
  unfold updOf commitSt
  simp only [lookupD_cons]
  split <;> rfl

theorem pendAt_commitSt (s : St) (old new : Root) (b : Batch) (u : Nat) :
    pendAt (commitSt s old new b) u =
      if (nextSeqOf s new.ver old.typ == 0) = true then pendAt s u
      else if new.ver = u then
        b.puts.map (fun (p : Key × NodeVal) => ((new.typ, nextSeqOf s new.ver old.typ, p.1), p.2)) ++ pendAt s new.ver
      else pendAt s u := by
  unfold pendAt commitSt
  simp only
  split
  · rfl
  · simp only [lookupD_cons]
    rfl

theorem other_root_ne {s : St} {old new : Root} (hc : CommitCtx s old new) {u : Nat} {th' : TH} {rv : NodeVal}
    (hr : rootVal s u th' = some rv) : ¬ (new.ver, (new.typ, new.hash)) = (u, th') := by
  intro he
  obtain ⟨h1, h2⟩ := Prod.mk.inj he
  rw [← h1, ← h2, hc.fresh] at hr
  simp at hr

/-- The nodes of the trees of the other reported roots read exactly as before. -/
theorem getNode_commitSt_other {s : St} {old new : Root} {b : Batch} (h : Inv s) (hc : CommitCtx s old new)
    (hb : BatchHyp s old new b) {u : Nat} {th' : TH} {rv : NodeVal} (hr : rootVal s u th' = some rv)
    (k : Key) (hk : k ∈ usesOf s u th') :
    getNode (commitSt s old new b) ⟨u, th'.1, th'.2⟩ k = getNode s ⟨u, th'.1, th'.2⟩ k := by
  have hth : (th'.1, th'.2) = th' := by cases th'; rfl
  have hne := other_root_ne hc hr
  have hseq : seqOf (commitSt s old new b) u th' = seqOf s u th' := by
    rw [seqOf_commitSt]
    by_cases hv : new.ver = u
    · have : ¬ (new.typ, new.hash) = th' := fun e => hne (by rw [hv, e])
      simp [hv, this]
    · simp [hv]
  apply getNode_congr
  · simp only [hth]; exact hseq
  · -- the pending space of this root's sequence number is not touched
    simp only [hth]
    unfold pendGet
    rw [pendAt_commitSt]
    by_cases h0 : (nextSeqOf s new.ver old.typ == 0) = true
    · simp [h0]
    · simp only [h0, Bool.false_eq_true, if_false]
      by_cases hv : new.ver = u
      · subst hv
        simp only [if_true]
        rw [List.find?_append]
        have : (b.puts.map (fun (p : Key × NodeVal) => ((new.typ, nextSeqOf s new.ver old.typ, p.1), p.2))).find?
            (fun e => e.1 == (th'.1, seqOf s new.ver th', k)) = none := by
          rw [List.find?_eq_none]
          intro e he hp
          obtain ⟨p, _, rfl⟩ := List.mem_map.1 he
          simp only [beq_iff_eq, Prod.mk.injEq] at hp
          have hlt := h.seqlt new.ver th' rv hr hc.notfin
          rw [← hp.1, ← hp.2.1, hc.sametype] at hlt
          omega
        rw [this]; rfl
      · simp [hv]
  · -- the finalized space is only written under fresh keys of the new version
    show finGet (commitSt s old new b).fin (th'.1, k) u = finGet s.fin (th'.1, k) u
    unfold commitSt
    simp only
    by_cases h0 : (nextSeqOf s new.ver old.typ == 0) = true
    · simp only [h0, if_true]
      apply finGet_writeAll_frame
      right
      intro e he hek
      obtain ⟨p, hp, rfl⟩ := List.mem_map.1 he
      simp only [Prod.mk.injEq] at hek
      have hpv := hb.putver p hp
      have hkv := h.keyver u th' rv hr k hk
      rw [← hek.2] at hkv
      have hs0 : nextSeqOf s new.ver old.typ = 0 := by simpa using h0
      rcases hkv with hown | ⟨hlt, l, hl, hle⟩
      · -- a root of the new version and the same type would have a sequence number below 0
        have hu : u = new.ver := by omega
        subst hu
        have := h.seqlt new.ver th' rv hr hc.notfin
        rw [← hek.1, hc.sametype, hs0] at this
        omega
      · -- a later root using an older key was built on a finalized version
        have hnf := hc.notfin
        simp only [finalizedGE, hl] at hnf
        simp at hnf
        omega
    · simp [h0]

/-- A node put by the batch reads back under the new root. -/
theorem getNode_commitSt_put {s : St} {old new : Root} {b : Batch} (h : Inv s) (hc : CommitCtx s old new)
    (hb : BatchHyp s old new b) (k : Key) (val : NodeVal) (hp : (k, val) ∈ b.puts) :
    getNode (commitSt s old new b) new k = some val := by
  unfold getNode
  have hseq : seqOf (commitSt s old new b) new.ver (new.typ, new.hash) = nextSeqOf s new.ver old.typ := by
    rw [seqOf_commitSt]; simp
  rw [hseq]
  by_cases h0 : (nextSeqOf s new.ver old.typ == 0) = true
  · simp only [h0, if_true]
    unfold commitSt
    simp only [h0, if_true]
    apply finGet_of_finAt
    apply finAt_writeAll_hit
    · intro e he hek
      obtain ⟨p, hpp, rfl⟩ := List.mem_map.1 he
      simp only [Prod.mk.injEq, true_and] at hek
      have : (k, p.2) ∈ b.puts := by rw [← hek]; exact hpp
      rw [nodupB_unique b.puts hb.nodup k p.2 val this hp]
    · exact ⟨((new.typ, k), some val), List.mem_map.2 ⟨(k, val), hp, rfl⟩, rfl⟩
  · simp only [h0, Bool.false_eq_true, if_false]
    have hget : pendGet (commitSt s old new b) new.ver new.typ (nextSeqOf s new.ver old.typ) k = some val := by
      unfold pendGet
      rw [pendAt_commitSt]
      simp only [h0, Bool.false_eq_true, if_false, if_true]
      have hex : ((new.typ, nextSeqOf s new.ver old.typ, k), val) ∈
          b.puts.map (fun (p : Key × NodeVal) => ((new.typ, nextSeqOf s new.ver old.typ, p.1), p.2)) ++ pendAt s new.ver :=
        List.mem_append_left _ (List.mem_map.2 ⟨(k, val), hp, rfl⟩)
      cases hf : (b.puts.map (fun (p : Key × NodeVal) => ((new.typ, nextSeqOf s new.ver old.typ, p.1), p.2)) ++
          pendAt s new.ver).find? (fun e => e.1 == (new.typ, nextSeqOf s new.ver old.typ, k)) with
      | none =>
        exfalso
        rw [List.find?_eq_none] at hf
        exact hf _ hex (by simp)
      | some e =>
        have hm := List.mem_of_find?_eq_some hf
        have hpe : e.1 = (new.typ, nextSeqOf s new.ver old.typ, k) := by simpa using List.find?_some hf
        rcases List.mem_append.1 hm with hm | hm
        · obtain ⟨p, hpp, rfl⟩ := List.mem_map.1 hm
          simp only [Prod.mk.injEq, true_and] at hpe
          have : (k, p.2) ∈ b.puts := by rw [← hpe]; exact hpp
          simp [nodupB_unique b.puts hb.nodup k p.2 val this hp]
        · exfalso
          have := (h.pendfresh new.ver e hm).1
          rw [hpe, hc.sametype] at this
          simp at this
    rw [hget]

/-- A node inherited from the (finalized) old root reads under the new root exactly as it read
under the old one. -/
theorem getNode_commitSt_inherited {s : St} {old new : Root} {b : Batch} (h : Inv s) (hc : CommitCtx s old new)
    (hb : BatchHyp s old new b) (hne : old.hash ≠ 0) (k : Key)
    (hk : k ∈ usesOf s old.ver (old.typ, old.hash)) :
    getNode (commitSt s old new b) new k = getNode s old k := by
  obtain ⟨orv, horv⟩ := Option.isSome_iff_exists.1 (hc.oldroot hne)
  have hnext := hc.next hne
  have hsrc := hb.srcfin hne
  -- the old version is inside the window and finalized: sequence number 0
  obtain ⟨l, hl, hle⟩ : ∃ l, s.last = some l ∧ old.ver ≤ l := by
    unfold finalizedGE at hsrc
    cases hl : s.last with
    | none => simp [hl] at hsrc
    | some l => exact ⟨l, rfl, by simpa [hl] using hsrc⟩
  have hnf : l < new.ver := by
    have := hc.notfin
    simp only [finalizedGE, hl] at this
    simpa using this
  have hearl : s.earliest ≤ old.ver := by
    have := h.window l hl
    omega
  have hs0 := h.seq0 old.ver (old.typ, old.hash) hsrc hearl
  have hkv : k.1 < new.ver := by
    rcases h.keyver old.ver (old.typ, old.hash) orv horv k hk with h1 | ⟨h1, _⟩ <;> omega
  have hold : getNode s old k = finGet s.fin (old.typ, k) old.ver := by
    unfold getNode; simp [hs0]
  -- nothing is written under this key at the new version's timestamp
  have hat : finAt s.fin (old.typ, k) (old.ver + 1) = none := by
    cases hx : finAt s.fin (old.typ, k) (old.ver + 1) with
    | none => rfl
    | some x =>
      exfalso
      cases x with
      | none =>
        obtain ⟨l', hl', hle'⟩ := h.tomb _ _ hx
        rw [hl] at hl'; have := Option.some.inj hl'; omega
      | some val =>
        have := h.valver _ _ val hx
        simp at this; omega
  have hfin : finGet (commitSt s old new b).fin (new.typ, k) new.ver = finGet s.fin (old.typ, k) old.ver := by
    rw [hc.sametype, hnext, ← finGet_succ_of_none s.fin (old.typ, k) old.ver hat]
    unfold commitSt
    simp only
    by_cases h0 : (nextSeqOf s new.ver old.typ == 0) = true
    · simp only [h0, if_true]
      rw [← hnext]
      apply finGet_writeAll_frame
      right
      intro e he hek
      obtain ⟨p, hp, rfl⟩ := List.mem_map.1 he
      simp only [Prod.mk.injEq] at hek
      have := hb.putver p hp
      rw [hek.2] at this; omega
    · simp [h0]
  rw [hold, ← hfin]
  unfold getNode
  have hseq : seqOf (commitSt s old new b) new.ver (new.typ, new.hash) = nextSeqOf s new.ver old.typ := by
    rw [seqOf_commitSt]; simp
  rw [hseq]
  by_cases h0 : (nextSeqOf s new.ver old.typ == 0) = true
  · simp [h0]
  · simp only [h0, Bool.false_eq_true, if_false]
    have hpn : pendGet (commitSt s old new b) new.ver new.typ (nextSeqOf s new.ver old.typ) k = none := by
      unfold pendGet
      rw [pendAt_commitSt]
      simp only [h0, Bool.false_eq_true, if_false, if_true]
      cases hf : (b.puts.map (fun (p : Key × NodeVal) => ((new.typ, nextSeqOf s new.ver old.typ, p.1), p.2)) ++
          pendAt s new.ver).find? (fun e => e.1 == (new.typ, nextSeqOf s new.ver old.typ, k)) with
      | none => rfl
      | some e =>
        exfalso
        have hm := List.mem_of_find?_eq_some hf
        have hpe : e.1 = (new.typ, nextSeqOf s new.ver old.typ, k) := by simpa using List.find?_some hf
        rcases List.mem_append.1 hm with hm | hm
        · obtain ⟨p, hpp, rfl⟩ := List.mem_map.1 hm
          simp only [Prod.mk.injEq, true_and] at hpe
          have := hb.putver p hpp
          rw [hpe] at this; omega
        · have := (h.pendfresh new.ver e hm).1
          rw [hpe, hc.sametype] at this
          simp at this
    rw [hpn]

theorem mem_newUses (s : St) (old : Root) (b : Batch) (k : Key) :
    k ∈ newUses s old b ↔ (∃ val, (k, val) ∈ b.puts) ∨
      (old.hash ≠ 0 ∧ k ∈ usesOf s old.ver (old.typ, old.hash) ∧ k ∉ b.removed) := by
  unfold newUses
  simp only [List.mem_append, List.mem_map]
  constructor
  · rintro (⟨p, hp, rfl⟩ | hk)
    · exact Or.inl ⟨p.2, hp⟩
    · by_cases h0 : (old.hash == 0) = true
      · simp [h0] at hk
      · simp only [h0, Bool.false_eq_true, if_false, List.mem_filter, Bool.not_eq_true', List.contains_eq_mem,
          decide_eq_false_iff_not] at hk
        exact Or.inr ⟨by simpa using h0, hk.1, hk.2⟩
  · rintro (⟨val, hp⟩ | ⟨hne, hk, hr⟩)
    · exact Or.inl ⟨(k, val), hp, rfl⟩
    · right
      have h0 : ¬ (old.hash == 0) = true := by simpa using hne
      simp only [h0, Bool.false_eq_true, if_false, List.mem_filter, Bool.not_eq_true', List.contains_eq_mem,
        decide_eq_false_iff_not]
      exact ⟨hk, hr⟩

theorem ptr_transfer {s : St} {old new : Root} {b : Batch} (h : Inv s) (hc : CommitCtx s old new)
    (hb : BatchHyp s old new b) (p : Key × Nat) (hp : ptrOK s old b p = true) :
    p.1 ∈ newUses s old b ∧ ∃ v, getNode (commitSt s old new b) new p.1 = some v ∧ v.hash = p.2 := by
  unfold ptrOK at hp
  simp only [Bool.or_eq_true, List.any_eq_true, Bool.and_eq_true, beq_iff_eq, bne_iff_ne, ne_eq,
    List.contains_eq_mem, decide_eq_true_eq, Bool.not_eq_true', decide_eq_false_iff_not] at hp
  rcases hp with ⟨q, hq, hq1, hq2⟩ | ⟨⟨⟨hne, hk⟩, hr⟩, hv⟩
  · have hq' : (p.1, q.2) ∈ b.puts := by rw [← hq1]; exact hq
    exact ⟨(mem_newUses s old b p.1).2 (Or.inl ⟨q.2, hq'⟩), q.2,
      getNode_commitSt_put h hc hb p.1 q.2 hq', hq2⟩
  · refine ⟨(mem_newUses s old b p.1).2 (Or.inr ⟨hne, hk, hr⟩), ?_⟩
    rw [getNode_commitSt_inherited h hc hb hne p.1 hk]
    cases hg : getNode s old p.1 with
    | none => simp [hg] at hv
    | some v => exact ⟨v, rfl, by simpa [hg] using hv⟩

theorem closed_commitSt_new {s : St} {old new : Root} {b : Batch} (h : Inv s) (hc : CommitCtx s old new)
    (hb : BatchHyp s old new b) :
    Closed (commitSt s old new b) new (newUses s old b) := by
  -- the old root's closed tree, when there is an old root
  have hold : old.hash ≠ 0 → ∃ orv, rootVal s old.ver (old.typ, old.hash) = some orv ∧
      Closed s old (usesOf s old.ver (old.typ, old.hash)) := by
    intro hne
    obtain ⟨orv, horv⟩ := Option.isSome_iff_exists.1 (hc.oldroot hne)
    refine ⟨orv, horv, ?_⟩
    have hsrc := hb.srcfin hne
    have hearl : s.earliest ≤ old.ver := by
      unfold finalizedGE at hsrc
      cases hl : s.last with
      | none => simp [hl] at hsrc
      | some l =>
        have h1 : old.ver ≤ l := by simpa [hl] using hsrc
        have h2 := hc.notfin
        simp only [finalizedGE, hl] at h2
        have h3 := h.window l hl
        have h4 := hc.next hne
        simp at h2; omega
    have := h.closed old.ver (old.typ, old.hash) orv horv hearl
    exact this
  have inh : ∀ (ps : List (Key × Nat)), old.hash ≠ 0 →
      PtrsOK s old (usesOf s old.ver (old.typ, old.hash)) ps → (∀ c ∈ ps, c.1 ∉ b.removed) →
      PtrsOK (commitSt s old new b) new (newUses s old b) ps := by
    intro ps hne hps hnr c hcm
    obtain ⟨hcU, v, hv, hvh⟩ := hps c hcm
    exact ⟨(mem_newUses s old b c.1).2 (Or.inr ⟨hne, hcU, hnr c hcm⟩), v,
      by rw [getNode_commitSt_inherited h hc hb hne c.1 hcU]; exact hv, hvh⟩
  refine ⟨newRootVal s old new b, by rw [rootVal_commitSt]; simp, ?_, ?_, ?_⟩
  · -- hash of the stored root node
    unfold newRootVal
    cases hr : b.root with
    | some rv => exact (hb.rootsome rv hr).1
    | none =>
      simp only
      by_cases h0 : (new.hash == 0) = true
      · simp only [h0, if_true]; exact (by simpa using h0 : new.hash = 0).symm
      · simp only [h0, Bool.false_eq_true, if_false]
        rcases hb.rootnone hr with hz | ⟨hsame, _, _⟩
        · exact absurd (by simpa using hz) h0
        · have hne : old.hash ≠ 0 := by rw [← hsame]; simpa using h0
          obtain ⟨orv, horv, ⟨orv', horv', hh, _, _⟩⟩ := hold hne
          rw [horv]
          simp only [Option.getD_some]
          rw [horv] at horv'
          rw [Option.some.inj horv', hh, hsame]
  · -- pointers of the root node
    unfold newRootVal
    cases hr : b.root with
    | some rv =>
      intro c hcm
      exact ptr_transfer h hc hb c ((hb.rootsome rv hr).2 c hcm)
    | none =>
      simp only
      by_cases h0 : (new.hash == 0) = true
      · simp only [h0, if_true]; intro c hcm; simp at hcm
      · simp only [h0, Bool.false_eq_true, if_false]
        rcases hb.rootnone hr with hz | ⟨hsame, _, hrem⟩
        · exact absurd (by simpa using hz) h0
        · have hne : old.hash ≠ 0 := by rw [← hsame]; simpa using h0
          obtain ⟨orv, horv, ⟨orv', horv', _, hk, _⟩⟩ := hold hne
          rw [horv]
          simp only [Option.getD_some]
          rw [horv] at horv'
          rw [Option.some.inj horv']
          exact inh _ hne hk (fun c _ => by rw [hrem]; simp)
  · -- every used node resolves and points inside the key set
    intro k hk
    rcases (mem_newUses s old b k).1 hk with ⟨val, hp⟩ | ⟨hne, hkU, hkr⟩
    · refine ⟨val, getNode_commitSt_put h hc hb k val hp, ?_⟩
      intro c hcm
      exact ptr_transfer h hc hb c (hb.putsok (k, val) hp c hcm)
    · obtain ⟨_, _, ⟨_, _, _, _, hU⟩⟩ := hold hne
      obtain ⟨v, hv, hvk⟩ := hU k hkU
      refine ⟨v, by rw [getNode_commitSt_inherited h hc hb hne k hkU]; exact hv, ?_⟩
      exact inh _ hne hvk (hb.kept hne k hkU hkr v hv)

theorem inv_commitSt (s : St) (old new : Root) (b : Batch) (hc : CommitCtx s old new)
    (hb : BatchHyp s old new b) (h : Inv s) : Inv (commitSt s old new b) := by
  have hlast : (commitSt s old new b).last = s.last := rfl
  have hearl : (commitSt s old new b).earliest = s.earliest := rfl
  have hfinGE : ∀ u, finalizedGE (commitSt s old new b) u = finalizedGE s u := fun _ => rfl
  -- the root of a query is either the new root or one that was there before
  have hcase : ∀ u th' rv, rootVal (commitSt s old new b) u th' = some rv →
      ((new.ver, (new.typ, new.hash)) = (u, th')) ∨
      (¬ (new.ver, (new.typ, new.hash)) = (u, th') ∧ rootVal s u th' = some rv) := by
    intro u th' rv hr
    rw [rootVal_commitSt] at hr
    by_cases he : (new.ver, (new.typ, new.hash)) = (u, th')
    · exact Or.inl he
    · simp only [he, if_false] at hr; exact Or.inr ⟨he, hr⟩
  have hseqnew : seqOf (commitSt s old new b) new.ver (new.typ, new.hash) = nextSeqOf s new.ver old.typ := by
    rw [seqOf_commitSt]; simp
  have hnextnew : nextSeqOf (commitSt s old new b) new.ver new.typ = nextSeqOf s new.ver old.typ + 1 := by
    show nextSeqOf (bumpSeq s new.ver old.typ) new.ver new.typ = _
    rw [nextSeqOf_bump, hc.sametype]; simp
  have hnextle : ∀ u t, nextSeqOf s u t ≤ nextSeqOf (commitSt s old new b) u t :=
    fun u t => nextSeqOf_bump_le s new.ver old.typ u t
  have hseqold : ∀ u th' rv, rootVal s u th' = some rv →
      seqOf (commitSt s old new b) u th' = seqOf s u th' := by
    intro u th' rv hr
    have hne := other_root_ne hc hr
    rw [seqOf_commitSt]
    by_cases hv : new.ver = u
    · have : ¬ (new.typ, new.hash) = th' := fun e => hne (by rw [hv, e])
      simp [hv, this]
    · simp [hv]
  constructor
  · -- closed
    intro u th' rv hr he
    rcases hcase u th' rv hr with heq | ⟨hne, hr'⟩
    · obtain ⟨h1, h2⟩ := Prod.mk.inj heq
      subst h1; subst h2
      rw [usesOf_commitSt]; simp only [if_true]
      exact closed_commitSt_new h hc hb
    · rw [usesOf_commitSt]; simp only [hne, if_false]
      have hc' := h.closed u th' rv hr' (by rw [hearl] at he; exact he)
      apply closed_congr s _ ⟨u, th'.1, th'.2⟩ _ _ _ hc'
      · show rootVal (commitSt s old new b) u (th'.1, th'.2) = rootVal s u (th'.1, th'.2)
        have : (th'.1, th'.2) = th' := by cases th'; rfl
        rw [this, hr, hr']
      · intro k hk
        exact getNode_commitSt_other h hc hb hr' k hk
  · -- keyver
    intro u th' rv hr k hk
    rcases hcase u th' rv hr with heq | ⟨hne, hr'⟩
    · obtain ⟨h1, h2⟩ := Prod.mk.inj heq
      subst h1; subst h2
      rw [usesOf_commitSt] at hk; simp only [if_true] at hk
      rcases (mem_newUses s old b k).1 hk with ⟨val, hp⟩ | ⟨hne, hkU, _⟩
      · exact Or.inl (hb.putver (k, val) hp)
      · obtain ⟨orv, horv⟩ := Option.isSome_iff_exists.1 (hc.oldroot hne)
        have hnext := hc.next hne
        have hsrc := hb.srcfin hne
        right
        refine ⟨?_, ?_⟩
        · rcases h.keyver old.ver (old.typ, old.hash) orv horv k hkU with h1 | ⟨h1, _⟩ <;> omega
        · unfold finalizedGE at hsrc
          cases hl : s.last with
          | none => simp [hl] at hsrc
          | some l =>
            have hle : old.ver ≤ l := by simpa [hl] using hsrc
            exact ⟨l, by rw [hlast, hl], by omega⟩
    · rw [usesOf_commitSt] at hk; simp only [hne, if_false] at hk
      exact h.keyver u th' rv hr' k hk
  · -- io
    intro u hh rv hr k hk
    rcases hcase u (1, hh) rv hr with heq | ⟨hne, hr'⟩
    · obtain ⟨h1, h2⟩ := Prod.mk.inj heq
      rw [usesOf_commitSt] at hk; simp only [heq, if_true] at hk
      have ht : new.typ = 1 := (Prod.mk.inj h2).1
      rcases (mem_newUses s old b k).1 hk with ⟨val, hp⟩ | ⟨hne, _, _⟩
      · rw [← h1]; exact hb.putver (k, val) hp
      · exact absurd (by rw [← hc.sametype, ht]) (hc.state hne)
    · rw [usesOf_commitSt] at hk; simp only [hne, if_false] at hk
      exact h.io u hh rv hr' k hk
  · -- tomb: a commit writes values only
    intro k ts hk
    rw [hlast]
    unfold commitSt at hk
    simp only at hk
    by_cases h0 : (nextSeqOf s new.ver old.typ == 0) = true
    · simp only [h0, if_true] at hk
      rcases finAt_writeAll_cases _ _ _ _ _ _ hk with h1 | ⟨_, e, he, _, hx⟩
      · exact h.tomb k ts h1
      · obtain ⟨p, _, rfl⟩ := List.mem_map.1 he
        simp at hx
    · simp only [h0, Bool.false_eq_true, if_false] at hk
      exact h.tomb k ts hk
  · -- valver
    intro k ts val hk
    unfold commitSt at hk
    simp only at hk
    by_cases h0 : (nextSeqOf s new.ver old.typ == 0) = true
    · simp only [h0, if_true] at hk
      rcases finAt_writeAll_cases _ _ _ _ _ _ hk with h1 | ⟨ht, e, he, hek, _⟩
      · exact h.valver k ts val h1
      · obtain ⟨p, hp, rfl⟩ := List.mem_map.1 he
        rw [← hek, ht]
        exact hb.putver p hp
    · simp only [h0, Bool.false_eq_true, if_false] at hk
      exact h.valver k ts val hk
  · -- seq0
    intro u th' hf he
    rw [hfinGE] at hf
    rw [hearl] at he
    rw [seqOf_commitSt]
    have : ¬ new.ver = u := by
      intro e; rw [← e, hc.notfin] at hf; simp at hf
    simp only [this, if_false]
    exact h.seq0 u th' hf he
  · -- pendfresh
    intro u e he
    rw [pendAt_commitSt] at he
    by_cases h0 : (nextSeqOf s new.ver old.typ == 0) = true
    · simp only [h0, if_true] at he
      exact ⟨Nat.lt_of_lt_of_le (h.pendfresh u e he).1 (hnextle u e.1.1), (h.pendfresh u e he).2⟩
    · simp only [h0, Bool.false_eq_true, if_false] at he
      by_cases hv : new.ver = u
      · subst hv
        simp only [if_true] at he
        rcases List.mem_append.1 he with he | he
        · obtain ⟨p, hp, rfl⟩ := List.mem_map.1 he
          refine ⟨?_, hb.putver p hp⟩
          show nextSeqOf s new.ver old.typ < nextSeqOf (commitSt s old new b) new.ver new.typ
          rw [hnextnew]; omega
        · exact ⟨Nat.lt_of_lt_of_le (h.pendfresh new.ver e he).1 (hnextle new.ver e.1.1), (h.pendfresh new.ver e he).2⟩
      · simp only [hv, if_false] at he
        exact ⟨Nat.lt_of_lt_of_le (h.pendfresh u e he).1 (hnextle u e.1.1), (h.pendfresh u e he).2⟩
  · -- seqlt
    intro u th' rv hr hf
    rcases hcase u th' rv hr with heq | ⟨hne, hr'⟩
    · obtain ⟨h1, h2⟩ := Prod.mk.inj heq
      subst h1; subst h2
      rw [hseqnew, hnextnew]; omega
    · rw [hseqold u th' rv hr']
      exact Nat.lt_of_lt_of_le (h.seqlt u th' rv hr' hf) (hnextle u th'.1)
  · -- ownpend
    intro u th' rv hr hq k hk hku
    rcases hcase u th' rv hr with heq | ⟨hne, hr'⟩
    · obtain ⟨h1, h2⟩ := Prod.mk.inj heq
      subst h1; subst h2
      rw [usesOf_commitSt] at hk; simp only [if_true] at hk
      rw [hseqnew] at hq ⊢
      rcases (mem_newUses s old b k).1 hk with ⟨val, hp⟩ | ⟨hne, hkU, _⟩
      · have := getNode_commitSt_put h hc hb k val hp
        unfold getNode at this
        rw [hseqnew] at this
        have h0 : ¬ (nextSeqOf s new.ver old.typ == 0) = true := by simp; omega
        simp only [h0, Bool.false_eq_true, if_false] at this
        -- the put is found in the pending space itself (not by fallback): replay the lookup
        cases hpg : pendGet (commitSt s old new b) new.ver new.typ (nextSeqOf s new.ver old.typ) k with
        | some x => rfl
        | none =>
          exfalso
          unfold pendGet at hpg
          rw [pendAt_commitSt] at hpg
          simp only [h0, Bool.false_eq_true, if_false, if_true, Option.map_eq_none_iff, List.find?_eq_none] at hpg
          exact hpg ((new.typ, nextSeqOf s new.ver old.typ, k), val)
            (List.mem_append_left _ (List.mem_map.2 ⟨(k, val), hp, rfl⟩)) (by simp)
      · obtain ⟨orv, horv⟩ := Option.isSome_iff_exists.1 (hc.oldroot hne)
        have := hc.next hne
        rcases h.keyver old.ver (old.typ, old.hash) orv horv k hkU with h1 | ⟨h1, _⟩ <;> omega
    · rw [usesOf_commitSt] at hk; simp only [hne, if_false] at hk
      rw [hseqold u th' rv hr'] at hq ⊢
      have hold := h.ownpend u th' rv hr' hq k hk hku
      -- unchanged lookup, as in `getNode_commitSt_other`
      unfold pendGet at hold ⊢
      rw [pendAt_commitSt]
      by_cases h0 : (nextSeqOf s new.ver old.typ == 0) = true
      · simpa [h0] using hold
      · simp only [h0, Bool.false_eq_true, if_false]
        by_cases hv : new.ver = u
        · subst hv
          simp only [if_true]
          rw [List.find?_append]
          have : (b.puts.map (fun (p : Key × NodeVal) => ((new.typ, nextSeqOf s new.ver old.typ, p.1), p.2))).find?
              (fun e => e.1 == (th'.1, seqOf s new.ver th', k)) = none := by
            rw [List.find?_eq_none]
            intro e he hp
            obtain ⟨p, _, rfl⟩ := List.mem_map.1 he
            simp only [beq_iff_eq, Prod.mk.injEq] at hp
            have hlt := h.seqlt new.ver th' rv hr' hc.notfin
            rw [← hp.1, ← hp.2.1, hc.sametype] at hlt
            omega
          rw [this]; simpa using hold
        · simpa [hv] using hold
  · -- updrec
    intro u th' rv hr hf
    rcases hcase u th' rv hr with heq | ⟨hne, hr'⟩
    · obtain ⟨h1, h2⟩ := Prod.mk.inj heq
      subst h1; subst h2
      rw [usesOf_commitSt, updOf_commitSt]; simp only [if_true]
      refine ⟨?_, ?_, ?_, ?_⟩
      · intro k hk hkv
        rcases (mem_newUses s old b k).1 hk with ⟨val, hp⟩ | ⟨hne, hkU, _⟩
        · exact List.mem_append_left _ (List.mem_map.2 ⟨(k, val), hp, rfl⟩)
        · obtain ⟨orv, horv⟩ := Option.isSome_iff_exists.1 (hc.oldroot hne)
          have := hc.next hne
          rcases h.keyver old.ver (old.typ, old.hash) orv horv k hkU with h1 | ⟨h1, _⟩ <;> omega
      · intro k hk hm
        rcases List.mem_append.1 hm with hm | hm
        · obtain ⟨p, _, hp⟩ := List.mem_map.1 hm; simp at hp
        · obtain ⟨k', hk', hp⟩ := List.mem_map.1 hm
          have hkk : k' = k := (Prod.mk.inj hp).2
          subst hkk
          rcases (mem_newUses s old b k').1 hk with ⟨val, hp'⟩ | ⟨_, _, hnr⟩
          · have := hb.putver (k', val) hp'
            have := hb.remver k' hk'
            simp at *; omega
          · exact hnr hk'
      · intro x hx hx1
        rcases List.mem_append.1 hx with hx | hx
        · obtain ⟨p, hp, rfl⟩ := List.mem_map.1 hx; exact hb.putver p hp
        · obtain ⟨k', _, rfl⟩ := List.mem_map.1 hx; simp at hx1
      · intro x hx hx1
        rcases List.mem_append.1 hx with hx | hx
        · obtain ⟨p, _, rfl⟩ := List.mem_map.1 hx; simp at hx1
        · obtain ⟨k', hk', rfl⟩ := List.mem_map.1 hx; exact hb.remver k' hk'
    · rw [usesOf_commitSt, updOf_commitSt]; simp only [hne, if_false]
      exact h.updrec u th' rv hr' hf
  · intro l hl; rw [hearl]; exact h.window l (by rw [← hlast]; exact hl)
  · intro hn; rw [hearl]; exact h.nolast (by rw [← hlast]; exact hn)

end OasisProofs.PathBadgerH
