import OasisModel.Mkvs.ProofIter
import OasisProofs.Helpers.MkvsProofIter
/-
C04, soundness of iteration over verified nodes: the iterator of a client that holds a sub-tree of the
real tree yields, as long as it does not have to dereference a hash-only pointer, exactly the items
the iterator over the real tree yields — the same items, none skipped.
-/
namespace OasisProofs.MkvsIter
open OasisModel.Mkvs OasisProofs.Mkvs OasisProofs.MkvsProof

/-- A rebuilt atom is a sub-tree view of a real atom. -/
def AtomSub (H : Bytes → Bytes) (a : PTAtom) (b : Iter.Atom) : Prop :=
  SubT H a.t b.t ∧ a.path = b.path ∧ a.st = b.st

inductive PosSub (H : Bytes → Bytes) : List PTAtom → List Iter.Atom → Prop
  | nil : PosSub H [] []
  | cons {a : PTAtom} {b : Iter.Atom} {as : List PTAtom} {bs : List Iter.Atom} :
      AtomSub H a b → PosSub H as bs → PosSub H (a :: as) (b :: bs)

theorem posSub_append {H : Bytes → Bytes} {as as' : List PTAtom} {bs bs' : List Iter.Atom}
    (h1 : PosSub H as bs) (h2 : PosSub H as' bs') : PosSub H (as ++ as') (bs ++ bs') := by
  induction h1 with
  | nil => exact h2
  | cons hab _ ih => exact .cons hab ih

def ResSub (H : Bytes → Bytes) : Option (KV × List PTAtom) → Option (KV × List Iter.Atom) → Prop
  | none, none => True
  | some (kv, pos), some (kv', pos') => kv = kv' ∧ PosSub H pos pos'
  | _, _ => False

theorem take_toBits_packBits (lab : Bits) : (toBits (packBits lab)).take lab.length = lab := by
  obtain ⟨j, _, _, he⟩ := toBits_packBits lab
  rw [he, List.take_left']
  rfl

theorem empty_of_hash {H : Bytes → Bytes} (hinj : Function.Injective H) {t : Trie} (h : hashWith H t = H []) :
    t = .nil :=
  hashWith_eq_empty (noColl_of_injective hinj ([] :: trieInputs H t)) List.mem_cons_self
    (fun _ hx => List.mem_cons_of_mem _ hx) h

theorem ptPush_sim {H : Bytes → Bytes} {a : PTAtom} {b : Iter.Atom} (hab : AtomSub H a b)
    {x : PTRes} {y : Option (KV × List Iter.Atom)} (hx : ∀ r, x = some r → ResSub H r y) :
    ∀ r, ptPush a x = some r → ResSub H r (Iter.pushAtom b y) := by
  intro r hr
  cases x with
  | none => simp [ptPush] at hr
  | some x' =>
    have hs := hx x' rfl
    cases x' with
    | none =>
      simp only [ptPush, Option.some.injEq] at hr
      subst hr
      cases y with
      | none => simp [Iter.pushAtom, ResSub]
      | some y' => simp [ResSub] at hs
    | some p =>
      obtain ⟨kv, pos⟩ := p
      simp only [ptPush, Option.some.injEq] at hr
      subst hr
      cases y with
      | none => simp [ResSub] at hs
      | some y' =>
        obtain ⟨kv', pos'⟩ := y'
        simp only [ResSub] at hs
        simp only [Iter.pushAtom, ResSub]
        exact ⟨hs.1, posSub_append hs.2 (.cons hab .nil)⟩

theorem ptViaLeaf_sim {H : Bytes → Bytes} (hinj : Function.Injective H) {a : PTAtom} {b : Iter.Atom}
    (hab : AtomSub H a b) {lf : PT} {olf : Option KV} (hlf : SubT H lf (optLeaf olf)) (newPath : Bits) (key : Bytes) :
    ∀ r, ptViaLeaf (H []) a lf newPath key = some r → ResSub H r (Iter.viaLeaf b olf newPath key) := by
  intro r hr
  unfold Iter.viaLeaf
  by_cases hc : (Iter.keyNotLonger newPath key || Iter.takeFirst newPath key) = true
  · rw [if_pos hc]
    cases lf with
    | nil =>
      simp only [SubT] at hlf
      simp only [ptViaLeaf, hc, if_true, Option.some.injEq] at hr
      subst hr
      cases olf with
      | none => simp [ResSub]
      | some kv => simp [optLeaf] at hlf
    | hash h =>
      simp only [SubT] at hlf
      simp only [ptViaLeaf, hc, if_true] at hr
      by_cases he : h = H []
      · rw [if_pos he] at hr
        simp only [Option.some.injEq] at hr
        subst hr
        have := empty_of_hash hinj (by rw [← hlf, he])
        cases olf with
        | none => simp [ResSub]
        | some kv => simp [optLeaf] at this
      · rw [if_neg he] at hr; exact absurd hr (by simp)
    | leaf k v =>
      simp only [SubT] at hlf
      simp only [ptViaLeaf, hc, if_true, Option.some.injEq] at hr
      subst hr
      cases olf with
      | none => simp [optLeaf] at hlf
      | some kv =>
        obtain ⟨k', v'⟩ := kv
        simp only [optLeaf, Trie.leaf.injEq] at hlf
        obtain ⟨rfl, rfl⟩ := hlf
        simp only
        split
        · simp [ResSub]
        · simp only [ResSub, true_and]
          exact .cons ⟨hab.1, hab.2.1, rfl⟩ .nil
    | node b' lb lf' l' r' =>
      simp only [ptViaLeaf, hc, if_true] at hr
      exact absurd hr (by simp)
  · rw [if_neg hc]
    simp only [ptViaLeaf, hc] at hr
    simp only [Bool.false_eq_true, if_false, Option.some.injEq] at hr
    subst hr
    simp [ResSub]

theorem ptFromAt_sim {H : Bytes → Bytes} {a : PTAtom} {b : Iter.Atom} (hab : AtomSub H a b)
    (newPath : Bits) (key : Bytes) {goL goR : Bytes → PTRes} {goL' goR' : Bytes → Option (KV × List Iter.Atom)}
    (hL : ∀ k r, goL k = some r → ResSub H r (goL' k)) (hR : ∀ k r, goR k = some r → ResSub H r (goR' k)) :
    ∀ r, ptFromAt a newPath key goL goR = some r → ResSub H r (Iter.fromAt b newPath key goL' goR') := by
  intro r hr
  unfold ptFromAt at hr
  unfold Iter.fromAt
  simp only at hr ⊢
  generalize (if Iter.keyNotLonger newPath key = true then Iter.appendBit key newPath.length false else key) = key' at hr ⊢
  generalize (!Iter.getBit key' newPath.length || Iter.takeFirst newPath key) = goLeft at hr ⊢
  have habL : AtomSub H { a with st := .atLeft } { b with st := .atLeft } := ⟨hab.1, hab.2.1, rfl⟩
  have habR : AtomSub H { a with st := .after } { b with st := .after } := ⟨hab.1, hab.2.1, rfl⟩
  cases goLeft with
  | true =>
    simp only [if_true] at hr ⊢
    cases hvl : ptPush { a with st := .atLeft } (goL key') with
    | none => rw [hvl] at hr; exact absurd hr (by simp)
    | some vl =>
      have hsim := ptPush_sim habL (hL key') vl hvl
      rw [hvl] at hr
      cases vl with
      | some res =>
        simp only [Option.some.injEq] at hr
        subst hr
        cases hy : Iter.pushAtom { b with st := .atLeft } (goL' key') with
        | none => rw [hy] at hsim; obtain ⟨kv, pos⟩ := res; simp [ResSub] at hsim
        | some res' => rw [hy] at hsim; exact hsim
      | none =>
        simp only at hr
        cases hy : Iter.pushAtom { b with st := .atLeft } (goL' key') with
        | some res' => rw [hy] at hsim; simp [ResSub] at hsim
        | none =>
          simp only
          exact ptPush_sim habR (hR _) r hr
  | false =>
    simp only [Bool.false_eq_true, if_false] at hr ⊢
    exact ptPush_sim habR (hR _) r hr

/-- **Simulation for `doNext`.** -/
theorem ptDoNext_sim {H : Bytes → Bytes} (hinj : Function.Injective H) (s : PT) :
    ∀ (t : Trie) (path : Bits) (key : Bytes) (st : Iter.VState) (r : Option (KV × List PTAtom)),
      SubT H s t → ptDoNext (H []) s path key st = some r → ResSub H r (Iter.doNext t path key st) := by
  induction s with
  | nil =>
    intro t path key st r hs hr
    simp only [SubT] at hs; subst hs
    simp only [ptDoNext, Option.some.injEq] at hr; subst hr
    simp [Iter.doNext, ResSub]
  | hash h =>
    intro t path key st r hs hr
    simp only [SubT] at hs
    simp only [ptDoNext] at hr
    split at hr
    · next he =>
      have := empty_of_hash hinj (by rw [← hs, he])
      subst this
      simp only [Option.some.injEq] at hr; subst hr
      simp [Iter.doNext, ResSub]
    · exact absurd hr (by simp)
  | leaf k v =>
    intro t path key st r hs hr
    simp only [SubT] at hs; subst hs
    simp only [ptDoNext, Option.some.injEq] at hr; subst hr
    simp only [Iter.doNext]
    split
    · simp [ResSub]
    · exact ⟨rfl, .nil⟩
  | node bits label lf l r ihlf ihl ihr =>
    intro t path key st res hs hr
    cases t with
    | nil => exact absurd hs (by simp [SubT])
    | leaf _ _ => exact absurd hs (by simp [SubT])
    | node lab olf tl tr =>
      have hs' := hs
      obtain ⟨e1, e2, slf, sl, sr⟩ := hs
      subst e1 e2
      have hab : AtomSub H ⟨PT.node lab.length (packBits lab) lf l r, path, st⟩ ⟨Trie.node lab olf tl tr, path, st⟩ :=
        ⟨hs', rfl, rfl⟩
      simp only [ptDoNext, take_toBits_packBits] at hr
      simp only [Iter.doNext]
      have hL : ∀ k r', ptDoNext (H []) l (path ++ lab) k .before = some r' →
          ResSub H r' (Iter.doNext tl (path ++ lab) k .before) := fun k r' h => ihl tl _ k .before r' sl h
      have hR : ∀ k r', ptDoNext (H []) r (path ++ lab) k .before = some r' →
          ResSub H r' (Iter.doNext tr (path ++ lab) k .before) := fun k r' h => ihr tr _ k .before r' sr h
      cases st with
      | before =>
        simp only at hr ⊢
        cases hvl : ptViaLeaf (H []) ⟨PT.node lab.length (packBits lab) lf l r, path, .before⟩ lf (path ++ lab) key with
        | none => rw [hvl] at hr; exact absurd hr (by simp)
        | some vl =>
          have hsim := ptViaLeaf_sim hinj hab slf (path ++ lab) key vl hvl
          rw [hvl] at hr
          cases vl with
          | some res0 =>
            simp only [Option.some.injEq] at hr
            subst hr
            cases hy : Iter.viaLeaf ⟨Trie.node lab olf tl tr, path, .before⟩ olf (path ++ lab) key with
            | none => rw [hy] at hsim; obtain ⟨kv, pos⟩ := res0; simp [ResSub] at hsim
            | some res' => rw [hy] at hsim; exact hsim
          | none =>
            simp only at hr
            cases hy : Iter.viaLeaf ⟨Trie.node lab olf tl tr, path, .before⟩ olf (path ++ lab) key with
            | some res' => rw [hy] at hsim; simp [ResSub] at hsim
            | none =>
              simp only
              exact ptFromAt_sim hab _ _ hL hR res hr
      | «at» => exact ptFromAt_sim hab _ _ hL hR res hr
      | atLeft =>
        simp only at hr ⊢
        exact ptPush_sim (a := { (⟨PT.node lab.length (packBits lab) lf l r, path, .atLeft⟩ : PTAtom) with st := .after })
          (b := { (⟨Trie.node lab olf tl tr, path, .atLeft⟩ : Iter.Atom) with st := .after })
          ⟨hs', rfl, rfl⟩ (hR _) res hr
      | after =>
        simp only [Option.some.injEq] at hr; subst hr
        simp [ResSub]

theorem ptNextLoop_sim {H : Bytes → Bytes} (hinj : Function.Injective H) (key : Bytes)
    {pos : List PTAtom} {pos' : List Iter.Atom} (hp : PosSub H pos pos') :
    ∀ r, ptNextLoop (H []) key pos = some r → ResSub H r (Iter.nextLoop key pos') := by
  induction hp with
  | nil =>
    intro r hr
    simp only [ptNextLoop, Option.some.injEq] at hr
    subst hr
    simp [Iter.nextLoop, ResSub]
  | @cons a b as bs hab hrest ih =>
    intro r hr
    simp only [ptNextLoop] at hr
    simp only [Iter.nextLoop]
    cases hd : ptDoNext (H []) a.t a.path key a.st with
    | none => rw [hd] at hr; exact absurd hr (by simp)
    | some res =>
      have hsim := ptDoNext_sim hinj a.t b.t a.path key a.st res hab.1 hd
      rw [hab.2.1, hab.2.2] at hsim
      rw [hd] at hr
      cases res with
      | none =>
        simp only at hr
        cases hy : Iter.doNext b.t b.path key b.st with
        | some y => rw [hy] at hsim; simp [ResSub] at hsim
        | none => simp only; exact ih r hr
      | some p =>
        obtain ⟨kv, ps⟩ := p
        simp only [Option.some.injEq] at hr
        subst hr
        cases hy : Iter.doNext b.t b.path key b.st with
        | none => rw [hy] at hsim; simp [ResSub] at hsim
        | some y =>
          obtain ⟨kv', ps'⟩ := y
          rw [hy] at hsim
          simp only [ResSub] at hsim ⊢
          exact ⟨hsim.1, posSub_append hsim.2 hrest⟩

theorem ptDrain_sim {H : Bytes → Bytes} (hinj : Function.Injective H) : ∀ (n : Nat) (cur : KV)
    (pos : List PTAtom) (pos' : List Iter.Atom), PosSub H pos pos' →
    ∀ items, ptDrain (H []) n cur pos = some items → items = Iter.drain n cur pos' := by
  intro n
  induction n with
  | zero =>
    intro cur pos pos' _ items h
    simp only [ptDrain, Option.some.injEq] at h
    subst h; rfl
  | succ n ih =>
    intro cur pos pos' hp items h
    simp only [ptDrain] at h
    simp only [Iter.drain]
    cases hd : ptNextLoop (H []) cur.1 pos with
    | none => rw [hd] at h; exact absurd h (by simp)
    | some res =>
      have hsim := ptNextLoop_sim hinj cur.1 hp res hd
      rw [hd] at h
      cases res with
      | none =>
        simp only [Option.some.injEq] at h
        subst h
        cases hy : Iter.nextLoop cur.1 pos' with
        | some y => rw [hy] at hsim; simp [ResSub] at hsim
        | none => rfl
      | some p =>
        obtain ⟨kv, ps⟩ := p
        simp only at h
        cases hy : Iter.nextLoop cur.1 pos' with
        | none => rw [hy] at hsim; simp [ResSub] at hsim
        | some y =>
          obtain ⟨kv', ps'⟩ := y
          rw [hy] at hsim
          simp only [ResSub] at hsim
          obtain ⟨rfl, hps⟩ := hsim
          cases hdr : ptDrain (H []) n kv ps with
          | none => rw [hdr] at h; simp at h
          | some rest =>
            rw [hdr] at h
            simp only [Option.map_some, Option.some.injEq] at h
            subst h
            simp only
            rw [ih kv ps ps' hps rest hdr]

/-- The plain machine, bounded: `n` steps of `Next` yield the first `n` remaining items. -/
theorem drain_take : ∀ (n : Nat) (cur : KV) (pos : List Iter.Atom), StackOK cur pos →
    Iter.drain n cur pos = (remaining pos).take n := by
  intro n
  induction n with
  | zero => intro cur pos _; simp [Iter.drain]
  | succ n ih =>
    intro cur pos h
    have hs := nextLoop_spec cur pos h
    cases hr : remaining pos with
    | nil => rw [hr] at hs; simp only at hs; simp [Iter.drain, hs]
    | cons y ys =>
      rw [hr] at hs
      obtain ⟨pos', hres, hrem, hok⟩ := hs
      simp only [Iter.drain, hres, List.take_succ_cons]
      rw [ih y pos' hok, hrem]

/-- **Iteration over a verified sub-tree is exact**: if `n` items (or all remaining ones) can be
iterated from the seek key without dereferencing a hash-only pointer, they are exactly the first `n`
items with key ≥ the seek key of the real tree — each yielded item is a true item and no true item in
the range is skipped. -/
theorem ptIterate_exact {H : Bytes → Bytes} (hinj : Function.Injective H) (s : PT) (T : Trie) (hwf : WF T)
    (hs : SubT H s T) (key : Bytes) (n : Nat) (items : List KV)
    (h : ptIterate (H []) s key n = some items) : items = (firstGE key T.toList).take n := by
  cases n with
  | zero => simp only [ptIterate, Option.some.injEq] at h; subst h; simp
  | succ n =>
    simp only [ptIterate] at h
    have hsorted := wf_sorted hwf
    have hspec := doNext_spec T [] key .before hwf (fun hh => absurd rfl hh) (fun hh => by cases hh)
    simp only [Post, part] at hspec
    cases hd : ptDoNext (H []) s [] key .before with
    | none => rw [hd] at h; exact absurd h (by simp)
    | some res =>
      have hsim := ptDoNext_sim hinj s T [] key .before res hs hd
      rw [hd] at h
      cases res with
      | none =>
        simp only [Option.some.injEq] at h
        subst h
        cases hy : Iter.doNext T [] key .before with
        | some y => rw [hy] at hsim; simp [ResSub] at hsim
        | none =>
          rw [hy] at hspec
          cases hf : firstGE key T.toList with
          | nil => simp
          | cons x rest => rw [hf] at hspec; simp at hspec
      | some p =>
        obtain ⟨kv, ps⟩ := p
        simp only at h
        cases hy : Iter.doNext T [] key .before with
        | none => rw [hy] at hsim; simp [ResSub] at hsim
        | some y =>
          obtain ⟨kv', ps'⟩ := y
          rw [hy] at hsim hspec
          simp only [ResSub] at hsim
          obtain ⟨rfl, hps⟩ := hsim
          cases hf : firstGE key T.toList with
          | nil => rw [hf] at hspec; simp at hspec
          | cons x rest =>
            rw [hf] at hspec
            obtain ⟨pos, hres, hrem, hgood, hmono⟩ := hspec
            simp only [Option.some.injEq, Prod.mk.injEq] at hres
            obtain ⟨rfl, rfl⟩ := hres
            have hsub : (kv :: rest).Sublist T.toList := by rw [← hf]; exact firstGE_sublist key _
            have hok : StackOK kv ps' :=
              ⟨by rw [hrem]; exact List.Pairwise.sublist hsub hsorted,
               fun a ha => atomGood_mono (Nat.zero_le _) (hgood a ha), hmono⟩
            cases hdr : ptDrain (H []) n kv ps with
            | none => rw [hdr] at h; simp at h
            | some rest' =>
              rw [hdr] at h
              simp only [Option.map_some, Option.some.injEq] at h
              subst h
              rw [ptDrain_sim hinj n kv ps ps' hps rest' hdr, drain_take n kv ps' hok, hrem]
              simp

end OasisProofs.MkvsIter
