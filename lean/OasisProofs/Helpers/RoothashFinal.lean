import OasisModel.Roothash.Pool
import OasisProofs.Helpers.RoothashProcess
import OasisProofs.Helpers.RoothashRank
import OasisProofs.Helpers.RoothashSound
import OasisProofs.Helpers.RoothashInv
/-
Helper lemmas for C11: soundness of a processing call from the invariant; the outcome mapping.
-/
namespace OasisProofs.Roothash
open OasisModel.Roothash

/-- From the invariant: a processing call answering `ok` returns the scheduler's own non-failure
commitment and satisfies the rule. -/
theorem sound_of_inv (c : Committee) (round : Nat) (hw : round + c.length < two64) (p : Pool)
    (log : List EC) (hinv : Inv c round p log) (s : Nat) (tmo : Bool)
    (hok : processInner c p s tmo = Res.ok) :
    ∃ own, chosen p = some own ∧ own.failure = false ∧
      MayFinalize c log s p.discrepancy own = true := by
  cases hsc : p.scs p.highestRank with
  | none =>
    unfold processInner at hok
    rw [hsc] at hok
    simp only at hok
    split at hok <;> simp at hok
  | some sc =>
    obtain ⟨o, h1, h2, h3, h4, h5⟩ := chosen_spec c round hw p log hinv sc hsc
    refine ⟨o, by simp [chosen, hsc, h1], h5, ?_⟩
    refine process_ok_sound c p s tmo log sc o hsc h1
      (votes_eq_voteOf c round hw p log hinv sc o hsc h2 h4)
      (voteOf_self log o hinv.uniq h2) h2 h3 h5 ?_ hok
    rw [h3]
    unfold rankOf at h4
    exact scheduler_is_primary c _ _ _ h4

/-- From the invariant: `sc.Commitment` is never nil where `processCommitments` dereferences it. -/
theorem no_nilDeref (c : Committee) (round : Nat) (hw : round + c.length < two64) (p : Pool)
    (log : List EC) (hinv : Inv c round p log) (s : Nat) (tmo : Bool) :
    processInner c p s tmo ≠ Res.nilDeref := by
  unfold processInner
  cases hsc : p.scs p.highestRank with
  | none => simp only; split <;> simp
  | some sc =>
    obtain ⟨o, h1, _⟩ := chosen_spec c round hw p log hinv sc hsc
    simp only [h1]
    repeat' split
    all_goals first | exact resolve_some_no_nilDeref _ _ _ _ _ | simp

end OasisProofs.Roothash
