import OasisModel.Handlers.Fees
namespace OasisProofs.Fees
open OasisModel.Handlers.Fees

theorem quo_ok (a b : Nat) (h : b ≠ 0) : quo a b = .ok (a / b) := by simp [quo, h]

theorem move_ok (d s n : Nat) (h : n ≤ s) : move d s n = .ok (d + n, s - n) := by
  have : ¬ s < n := by omega
  simp [move, this]

theorem sub_ok (a b : Nat) (h : b ≤ a) : sub a b = .ok (a - b) := by
  have : ¬ a < b := by omega
  simp [sub, this]

theorem payVoters_ok (n share src : Nat) (h : n * share ≤ src) :
    payVoters n share src = .ok (src - n * share) := by
  induction n generalizing src with
  | zero => simp [payVoters]
  | succ n ih =>
    have h1 : share ≤ src := by
      have : share ≤ (n + 1) * share := by
        rw [Nat.succ_mul]; exact Nat.le_add_left _ _
      omega
    have h2 : n * share ≤ src - share := by
      rw [Nat.succ_mul] at h; omega
    simp only [payVoters, move_ok 0 src share h1, bind, Except.bind]
    rw [ih (src - share) h2]
    congr 1
    rw [Nat.succ_mul]; omega

/-- `a * b / c ≤ a` when `b ≤ c`. -/
theorem mul_div_le_of_le (a b c : Nat) (h : b ≤ c) : a * b / c ≤ a := by
  by_cases hc : c = 0
  · subst hc; simp
  · calc a * b / c ≤ a * c / c := Nat.div_le_div_right (Nat.mul_le_mul_left a h)
      _ = a := Nat.mul_div_cancel a (Nat.pos_of_ne_zero hc)

end OasisProofs.Fees
