import OasisModel.Scheduler.Elect
import OasisModel.Scheduler.Spec
import OasisProofs.Helpers.SchedulerValidators
/-
Lemmas about the committee part of the election model (C14): per-entity de-duplication, the pick loop,
one role of one committee.
-/
namespace OasisProofs.SchedulerH
open OasisModel.Scheduler

/-! ### dedupEntityNodesTrivial -/

theorem dedupAux_sublist (lim : Nat) : ∀ (l kept : List Node), (dedupAux lim l kept).Sublist l := by
  intro l
  induction l with
  | nil => intro kept; simp [dedupAux]
  | cons n rest ih =>
    intro kept
    simp only [dedupAux]
    split
    · exact (ih kept).cons _
    · exact (ih (n :: kept)).cons_cons _

theorem countEnt_cons (e : Nat) (n : Node) (l : List Node) :
    countEnt e (n :: l) = countEnt e l + (if n.entity = e then 1 else 0) := by
  unfold countEnt
  rw [List.countP_cons]
  simp

/-- After de-duplication every entity has at most `lim` nodes (counting those kept before). -/
theorem dedupAux_count (lim e : Nat) : ∀ (l kept : List Node),
    countEnt e (dedupAux lim l kept) + countEnt e kept ≤ max lim (countEnt e kept) := by
  intro l
  induction l with
  | nil => intro kept; simp [dedupAux, countEnt]; omega
  | cons n rest ih =>
    intro kept
    simp only [dedupAux]
    split
    · exact ih kept
    · rename_i hlt
      have := ih (n :: kept)
      rw [countEnt_cons] at this ⊢
      by_cases hne : n.entity = e
      · simp only [hne, if_true] at this ⊢
        rw [hne] at hlt
        omega
      · simp only [hne, if_false] at this ⊢
        omega

theorem dedupTrivial_sublist (lim : Nat) (l : List Node) : (dedupTrivial lim l).Sublist l :=
  dedupAux_sublist lim l []

theorem dedupTrivial_count (lim e : Nat) (l : List Node) : countEnt e (dedupTrivial lim l) ≤ lim := by
  have := dedupAux_count lim e l []
  simp only [countEnt, List.countP_nil] at this
  unfold dedupTrivial countEnt
  omega

/-! ### the pick loop -/

/-- What the loop returns: the nodes elected before, followed by a prefix of the remaining order; never
more than `wanted` (unless it started with more). -/
theorem pickLoop_shape (limit : Option Nat) (wanted : Nat) : ∀ (l el r : List Node),
    pickLoop limit wanted l el = some r →
    ∃ t rest, r = el.reverse ++ t ∧ l = t ++ rest ∧ (el.length ≤ wanted → r.length ≤ wanted) ∧
      (r.length < wanted → rest = []) := by
  intro l
  induction l with
  | nil =>
    intro el r h
    simp [pickLoop] at h
    exact ⟨[], [], by simp [h], rfl, by intro hle; rw [← h]; simpa using hle, fun _ => rfl⟩
  | cons n rest ih =>
    intro el r h
    simp only [pickLoop] at h
    split at h
    · rename_i hge
      simp at h
      refine ⟨[], n :: rest, by simp [h], rfl, ?_, ?_⟩
      · intro hle; rw [← h]; simpa using hle
      · intro hlt; rw [← h] at hlt; simp at hlt; omega
    · rename_i hlt
      have key : pickLoop limit wanted rest (n :: el) = some r →
          ∃ t rest', r = el.reverse ++ t ∧ n :: rest = t ++ rest' ∧ (el.length ≤ wanted → r.length ≤ wanted) ∧
            (r.length < wanted → rest' = []) := by
        intro h'
        obtain ⟨t, rest', hr, hl, hlen, hfull⟩ := ih _ _ h'
        refine ⟨n :: t, rest', ?_, by rw [hl]; simp, ?_, hfull⟩
        · rw [hr]; simp
        · intro _; exact hlen (by simp; omega)
      split at h
      · split at h
        · simp at h
        · exact key h
      · exact key h

/-- With a per-entity limit the result respects it (given that the start does). -/
theorem pickLoop_count (lim wanted : Nat) : ∀ (l el r : List Node),
    pickLoop (some lim) wanted l el = some r → (∀ e, countEnt e el ≤ lim) → ∀ e, countEnt e r ≤ lim := by
  intro l
  induction l with
  | nil =>
    intro el r h hel e
    simp [pickLoop] at h
    rw [← h]; unfold countEnt; rw [List.countP_reverse]; exact hel e
  | cons n rest ih =>
    intro el r h hel e
    simp only [pickLoop] at h
    split at h
    · simp at h
      rw [← h]; unfold countEnt; rw [List.countP_reverse]; exact hel e
    · split at h
      · simp at h
      · rename_i hlt
        apply ih _ _ h
        intro e'
        rw [countEnt_cons]
        by_cases hne : n.entity = e'
        · simp only [hne, if_true]; rw [hne] at hlt; omega
        · simp only [hne, if_false]; exact hel e'

/-! ### one role of one committee -/

theorem electRole_some {sh : Shuffles} {rt : Runtime} {role : Role} {pool el : List Node}
    (h : electRole sh rt role pool = some el) :
    (rt.cs role).minPoolSize.getD 0 ≤ (dedupPool sh rt role pool).length ∧
    el.length = rt.size role ∧
    (∃ rest, sh.committee rt.id role (dedupPool sh rt role pool) = el ++ rest) ∧
    (∀ lim, (rt.cs role).maxNodes = some lim → ∀ e, countEnt e el ≤ lim) := by
  unfold electRole at h
  simp only at h
  split at h
  · simp at h
  · rename_i hmin
    split at h
    · simp at h
    · split at h
      · simp at h
      · rename_i el' hpick
        split at h
        · simp at h
        · rename_i hlen
          simp at h; subst h
          obtain ⟨t, rest, hr, hl, _, _⟩ := pickLoop_shape _ _ _ _ _ hpick
          simp at hr; subst hr
          refine ⟨by omega, by simpa using hlen, ⟨rest, hl⟩, ?_⟩
          intro lim hlim e
          rw [hlim] at hpick
          exact pickLoop_count lim _ _ _ _ hpick (by intro e'; simp [countEnt]) e

theorem dedupPool_subperm (sh : Shuffles) (rt : Runtime) (role : Role) (pool : List Node)
    (hD : ∀ l, (sh.dedup rt.id role l).Perm l) :
    ∃ l', l'.Perm pool ∧ (dedupPool sh rt role pool).Sublist l' := by
  unfold dedupPool
  split
  · split
    · exact ⟨_, hD pool, dedupTrivial_sublist _ _⟩
    · exact ⟨pool, List.Perm.refl _, List.Sublist.refl _⟩
  · exact ⟨pool, List.Perm.refl _, List.Sublist.refl _⟩

theorem mem_dedupPool {sh : Shuffles} {rt : Runtime} {role : Role} {pool : List Node} {n : Node}
    (hD : ∀ l x, x ∈ sh.dedup rt.id role l → x ∈ l) (h : n ∈ dedupPool sh rt role pool) : n ∈ pool := by
  unfold dedupPool at h
  split at h
  · split at h
    · exact hD _ _ ((dedupTrivial_sublist _ _).subset h)
    · exact h
  · exact h

/-! ### the size of the de-duplicated pool does not depend on any order -/

/-- Exact per-entity count after de-duplication. -/
theorem dedupAux_count_eq (lim e : Nat) : ∀ (l kept : List Node),
    countEnt e (dedupAux lim l kept) = min (lim - countEnt e kept) (countEnt e l) := by
  intro l
  induction l with
  | nil => intro kept; simp [dedupAux, countEnt]
  | cons n rest ih =>
    intro kept
    simp only [dedupAux]
    split
    · rename_i hge
      rw [ih kept, countEnt_cons e n rest]
      by_cases hne : n.entity = e
      · simp only [hne, if_true]; rw [hne] at hge; omega
      · simp only [hne, if_false]; omega
    · rename_i hlt
      rw [countEnt_cons, ih (n :: kept), countEnt_cons e n kept, countEnt_cons e n rest]
      by_cases hne : n.entity = e
      · simp only [hne, if_true]; rw [hne] at hlt; omega
      · simp only [hne, if_false]; omega

theorem dedupTrivial_count_eq (lim e : Nat) (l : List Node) :
    countEnt e (dedupTrivial lim l) = min lim (countEnt e l) := by
  have := dedupAux_count_eq lim e l []
  simpa [dedupTrivial, countEnt] using this

theorem sum_indicator (x : Nat) : ∀ (E : List Nat), E.Nodup →
    (E.map (fun e => if x = e then 1 else 0)).sum = if x ∈ E then 1 else 0 := by
  intro E
  induction E with
  | nil => intro _; simp
  | cons a as ih =>
    intro hnd
    have ⟨hna, hnd'⟩ := List.nodup_cons.1 hnd
    simp only [List.map_cons, List.sum_cons, ih hnd', List.mem_cons]
    by_cases hxa : x = a
    · have : x ∉ as := hxa ▸ hna
      simp [hxa]
      intro h; exact absurd h (hxa ▸ hna)
    · simp [hxa]

theorem sum_map_add (f g : Nat → Nat) : ∀ (E : List Nat),
    (E.map (fun e => f e + g e)).sum = (E.map f).sum + (E.map g).sum := by
  intro E
  induction E with
  | nil => simp
  | cons a as ih => simp only [List.map_cons, List.sum_cons, ih]; omega

theorem sum_map_zero : ∀ (E : List Nat), (E.map (fun _ => 0)).sum = 0 := by
  intro E
  induction E with
  | nil => simp
  | cons a as ih => simp only [List.map_cons, List.sum_cons, ih]

/-- A list is partitioned by the entities of its nodes. -/
theorem length_eq_sum_counts (E : List Nat) (hE : E.Nodup) : ∀ (l : List Node),
    (∀ n ∈ l, n.entity ∈ E) → l.length = (E.map (fun e => countEnt e l)).sum := by
  intro l
  induction l with
  | nil => intro _; simp [countEnt, sum_map_zero]
  | cons n rest ih =>
    intro hall
    have hrest := ih (fun x hx => hall x (List.mem_cons_of_mem _ hx))
    have hn : n.entity ∈ E := hall n (by simp)
    have hsplit : (E.map (fun e => countEnt e (n :: rest))).sum =
        (E.map (fun e => countEnt e rest)).sum + (E.map (fun e => if n.entity = e then 1 else 0)).sum := by
      have : (fun e => countEnt e (n :: rest)) = fun e => countEnt e rest + (if n.entity = e then 1 else 0) := by
        funext e; exact countEnt_cons e n rest
      rw [this, sum_map_add]
    rw [hsplit, sum_indicator _ _ hE, ← hrest]
    simp [hn]

/-- Length of the de-duplicated pool: every entity contributes `min lim (its number of nodes)`,
whatever order the de-duplication used. -/
theorem dedupTrivial_length (lim : Nat) (pool l : List Node) (hp : l.Perm pool) :
    (dedupTrivial lim l).length = ((entitiesOf pool).map (fun e => min lim (countEnt e pool))).sum := by
  have hE : (entitiesOf pool).Nodup := nodup_dedupNat _
  have hall : ∀ n ∈ dedupTrivial lim l, n.entity ∈ entitiesOf pool := by
    intro n hn
    have hnl : n ∈ l := (dedupTrivial_sublist lim l).subset hn
    have hnp : n ∈ pool := hp.mem_iff.1 hnl
    unfold entitiesOf
    exact mem_dedupNat.2 (List.mem_map.2 ⟨n, hnp, rfl⟩)
  rw [length_eq_sum_counts _ hE _ hall]
  congr 1
  apply List.map_congr_left
  intro e _
  rw [dedupTrivial_count_eq]
  unfold countEnt
  rw [hp.countP_eq]

/-! ### distinctness as counted by the spec predicate -/

theorem all_count_one {α : Type} (f : α → Nat) : ∀ (l : List α), (l.map f).Nodup →
    ∀ x ∈ l, l.countP (fun y => f y == f x) = 1 := by
  intro l
  induction l with
  | nil => intro _ x hx; simp at hx
  | cons a as ih =>
    intro hnd x hx
    simp only [List.map_cons, List.nodup_cons, List.mem_map, not_exists, not_and] at hnd
    rw [List.countP_cons]
    rcases List.mem_cons.1 hx with rfl | hxa
    · have : List.countP (fun y => f y == f x) as = 0 := by
        rw [List.countP_eq_zero]
        intro y hy
        have := hnd.1 y hy
        simp [this]
      simp [this]
    · have hne : f a ≠ f x := fun h => hnd.1 x hxa h.symm
      rw [ih hnd.2 x hxa]
      simp [hne]

end OasisProofs.SchedulerH
