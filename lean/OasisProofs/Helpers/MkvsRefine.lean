import OasisProofs.Helpers.MkvsUnique
import OasisProofs.Helpers.MkvsSMap
/-
The trie refines the ordered-map specification: top-level consequences of the induction lemmas.
-/
namespace OasisProofs.Mkvs
open OasisModel.Mkvs

theorem nil_prefix (k : Bytes) : ([] : Bits) <+: toBits k := List.nil_prefix

theorem wf_insert {t : Trie} (h : WF t) (k v : Bytes) : WF (t.insert k v) :=
  (insertAux_spec k v t [] (nil_prefix k) h).1

theorem wf_remove {t : Trie} (h : WF t) (k : Bytes) : WF (t.remove k) :=
  (removeAux_spec k t [] h).1

theorem wf_sorted {t : Trie} (h : WF t) : SMap.Sorted t.toList := sorted_toList h

theorem toList_insert {t : Trie} (h : WF t) (k v : Bytes) :
    (t.insert k v).toList = SMap.insert t.toList k v := by
  apply smap_sorted_ext (wf_sorted (wf_insert h k v)) (smap_sorted_insert (wf_sorted h) k v)
  intro kv
  rw [smap_mem_insert (wf_sorted h)]
  exact (insertAux_spec k v t [] (nil_prefix k) h).2.2.1 kv

theorem toList_remove {t : Trie} (h : WF t) (k : Bytes) :
    (t.remove k).toList = SMap.erase t.toList k := by
  apply smap_sorted_ext (wf_sorted (wf_remove h k)) (smap_sorted_erase (wf_sorted h) k)
  intro kv
  rw [smap_mem_erase (wf_sorted h)]
  exact (removeAux_spec k t [] h).2.1 kv

theorem option_ext {a b : Option Bytes} (h : ∀ v, a = some v ↔ b = some v) : a = b := by
  cases a with
  | none => cases b with
    | none => rfl
    | some y => exact ((h y).2 rfl).symm ▸ rfl
  | some x => exact ((h x).1 rfl).symm

theorem get_eq_smap {t : Trie} (h : WF t) (k : Bytes) : t.get k = SMap.get t.toList k := by
  apply option_ext
  intro v
  rw [smap_get_eq_some (wf_sorted h)]
  exact getAux_spec k t [] h v

theorem removeExisting_eq {t : Trie} (h : WF t) (k : Bytes) :
    (t.removeExisting k).1 = t.remove k ∧ (t.removeExisting k).2 = SMap.get t.toList k := by
  refine ⟨rfl, ?_⟩
  apply option_ext
  intro v
  rw [smap_get_eq_some (wf_sorted h)]
  exact (removeAux_spec k t [] h).2.2.1 v

/-- `existed` flag of `doInsert`. -/
theorem insert_existed {t : Trie} (h : WF t) (k v : Bytes) :
    (t.insertAux k v 0).2 = (SMap.get t.toList k).isSome := by
  have h1 := (insertAux_spec k v t [] (nil_prefix k) h).2.2.2
  have h1 : (t.insertAux k v 0).2 = true ↔ ∃ v', (k, v') ∈ t.toList := h1
  cases hg : SMap.get t.toList k with
  | none =>
    cases hb : (t.insertAux k v 0).2 with
    | false => rfl
    | true =>
      obtain ⟨v', hv'⟩ := h1.1 hb
      rw [← smap_get_eq_some (wf_sorted h), hg] at hv'
      simp at hv'
  | some w =>
    have := h1.2 ⟨w, (smap_get_eq_some (wf_sorted h) k w).1 hg⟩
    simp [this]

/-- `changed` flag of `doRemove`. -/
theorem remove_changed {t : Trie} (h : WF t) (k : Bytes) :
    (t.removeAux k 0).2.1 = (SMap.get t.toList k).isSome := by
  have h1 : (t.removeAux k 0).2.1 = true ↔ ∃ v', (k, v') ∈ t.toList := (removeAux_spec k t [] h).2.2.2
  cases hg : SMap.get t.toList k with
  | none =>
    cases hb : (t.removeAux k 0).2.1 with
    | false => rfl
    | true =>
      obtain ⟨v', hv'⟩ := h1.1 hb
      rw [← smap_get_eq_some (wf_sorted h), hg] at hv'
      simp at hv'
  | some w =>
    have := h1.2 ⟨w, (smap_get_eq_some (wf_sorted h) k w).1 hg⟩
    simp [this]

/-- C02 core: canonical tries are determined by their contents. -/
theorem wf_unique {t1 t2 : Trie} (h1 : WF t1) (h2 : WF t2) (he : t1.toList = t2.toList) : t1 = t2 :=
  wfAt_unique t1 t2 [] h1 h2 he


theorem wf_ofList (kvs : List (Bytes × Bytes)) : WF (Trie.ofList kvs) := by
  have key : ∀ (t : Trie), WF t → WF (kvs.foldl (fun t kv => t.insert kv.1 kv.2) t) := by
    induction kvs with
    | nil => intro t h; exact h
    | cons kv kvs ih => intro t h; exact ih _ (wf_insert h kv.1 kv.2)
  exact key .nil trivial


/-- The executable canonical-form check decides `WFAt`. -/
theorem wfAtB_iff (t : Trie) : ∀ p : Bits, wfAtB p t = true ↔ WFAt p t := by
  induction t with
  | nil => intro p; simp [wfAtB, WFAt]
  | leaf k v => intro p; simp [wfAtB, WFAt, List.isPrefixOf_iff_prefix]
  | node lab lf l r ihl ihr =>
    intro p
    simp only [wfAtB, WFAt, Bool.and_eq_true, ihl, ihr, List.all_eq_true, List.isPrefixOf_iff_prefix,
      decide_eq_true_eq, Trie.AllKeys]
    constructor
    · rintro ⟨⟨⟨⟨⟨h1, h2⟩, h3⟩, h4⟩, h5⟩, h6⟩
      refine ⟨?_, h2, h3, h4, h5, h6⟩
      intro kv hkv; subst hkv; simpa using h1
    · rintro ⟨h1, h2, h3, h4, h5, h6⟩
      refine ⟨⟨⟨⟨⟨?_, h2⟩, h3⟩, h4⟩, h5⟩, h6⟩
      cases lf with
      | none => rfl
      | some kv => simpa using h1 kv rfl

end OasisProofs.Mkvs
