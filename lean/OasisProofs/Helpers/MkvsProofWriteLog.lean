import OasisModel.Mkvs.ProofWriteLog
import OasisProofs.Helpers.MkvsProofSound
/-
Helper lemmas for `OasisProofs/Props/C04WriteLog.lean`: the call-by-call accumulation of the write
log (`verifyAuxW`, `OasisModel/Mkvs/ProofWriteLog.lean`) against the pre-order leaf list of the
rebuilt tree (`PT.writeLog`), and the order-preserving embedding of that list into the contents of
any tree the rebuilt tree is a sub-tree of.
-/
namespace OasisProofs.MkvsProof
open OasisModel.Mkvs OasisProofs.Mkvs

/-- What a verification run with `opts.writeLog = w` appends for the rebuilt subtree `t`. -/
def logOf (w : Bool) (t : PT) : List KV := if w then t.writeLog else []

/-- The expected result of `verifyAuxW` in terms of `verifyAux`. -/
def liftW (w : Bool) (wl : List KV) : Except VErr (PT × List (Option Bytes)) →
    Except VErr (PT × List (Option Bytes) × List KV)
  | .error e => .error e
  | .ok (t, rest) => .ok (t, rest, wl ++ logOf w t)

theorem addLeafIf_ofLeafOpt (w : Bool) (wl : List KV) (o : Option (Bytes × Bytes)) :
    addLeafIf w wl (ofLeafOpt o) = wl ++ logOf w (ofLeafOpt o) := by
  rcases o with _ | ⟨k, v⟩ <;> cases w <;> simp [addLeafIf, addLeafToWriteLog, ofLeafOpt, logOf, PT.writeLog]

theorem addLeafIf_leaf (w : Bool) (wl : List KV) (k v : Bytes) :
    addLeafIf w wl (.leaf k v) = wl ++ logOf w (.leaf k v) := by
  cases w <;> simp [addLeafIf, addLeafToWriteLog, logOf, PT.writeLog]

theorem addLeafIf_node (w : Bool) (wl : List KV) (bits : Nat) (label : Bytes) (lf l r : PT) :
    addLeafIf w wl (.node bits label lf l r) = wl := by
  cases w <;> simp [addLeafIf, addLeafToWriteLog]

theorem logOf_node (w : Bool) (bits : Nat) (label : Bytes) (lf l r : PT) :
    logOf w (.node bits label lf l r) = logOf w lf ++ (logOf w l ++ logOf w r) := by
  cases w <;> simp [logOf, PT.writeLog]

theorem logOf_nil (w : Bool) : logOf w .nil = [] := by cases w <;> simp [logOf, PT.writeLog]

theorem logOf_hash (w : Bool) (h : Bytes) : logOf w (.hash h) = [] := by
  cases w <;> simp [logOf, PT.writeLog]

/-- **Accumulation = pre-order leaves**, at every depth budget, for every entry list and every
incoming write log: the recursion with the threaded `verifyResult` fails exactly when the plain one
does (with the same error), and otherwise rebuilds the same subtree, consumes the same entries
and has appended exactly the pre-order leaf list of the rebuilt subtree. -/
theorem verifyAuxW_eq (w : Bool) (v : Nat) : ∀ (b : Nat) (es : List (Option Bytes)) (wl : List KV),
    verifyAuxW w v b es wl = liftW w wl (verifyAux v b es) := by
  intro b
  induction b with
  | zero =>
    intro es wl
    cases es <;> simp [verifyAuxW, verifyAux, liftW]
  | succ b ih =>
    intro es wl
    cases es with
    | nil => simp [verifyAuxW, verifyAux, liftW]
    | cons e rest =>
      unfold verifyAuxW verifyAux
      cases hde : decEntry e with
      | error err => simp [liftW]
      | ok ent =>
        cases ent with
        | nil => simp [liftW, logOf_nil]
        | hash h => simp [liftW, logOf_hash]
        | leaf k val => simp [liftW, addLeafIf_leaf]
        | inode n =>
          simp only []
          by_cases hv : v = 0
          · subst hv
            simp only [if_true]
            rw [ih rest (addLeafIf w wl (ofLeafOpt n.lf))]
            cases h1 : verifyAux 0 b rest with
            | error err => simp [liftW]
            | ok p1 =>
              obtain ⟨l, rest2⟩ := p1
              simp only [liftW]
              rw [ih rest2]
              cases h2 : verifyAux 0 b rest2 with
              | error err => simp [liftW]
              | ok p2 =>
                obtain ⟨r, rest3⟩ := p2
                simp only [liftW, addLeafIf_node, addLeafIf_ofLeafOpt, logOf_node, List.append_assoc]
          · simp only [hv, if_false]
            rw [ih rest wl]
            cases h0 : verifyAux v b rest with
            | error err => simp [liftW]
            | ok p0 =>
              obtain ⟨lf, rest1⟩ := p0
              simp only [liftW]
              rw [ih rest1]
              cases h1 : verifyAux v b rest1 with
              | error err => simp [liftW]
              | ok p1 =>
                obtain ⟨l, rest2⟩ := p1
                simp only [liftW]
                rw [ih rest2]
                cases h2 : verifyAux v b rest2 with
                | error err => simp [liftW]
                | ok p2 =>
                  obtain ⟨r, rest3⟩ := p2
                  simp only [liftW, addLeafIf_node, logOf_node, List.append_assoc]

/-- `verifyProofW` in terms of `verifyProof`. -/
theorem verifyProofW_eq (H : Bytes → Bytes) (w : Bool) (root : Bytes) (p : MProof) :
    verifyProofW H w root p =
      match verifyProof H root p with
      | .error e => .error e
      | .ok t => .ok (normRoot H t, logOf w t) := by
  unfold verifyProofW verifyProof
  by_cases h1 : p.v > 1
  · simp [h1]
  · simp only [h1, if_false]
    by_cases h2 : p.untrusted ≠ root
    · simp [h2]
    · simp only [h2, if_false]
      by_cases h3 : p.entries.isEmpty = true
      · simp [h3]
      · simp only [h3]
        rw [verifyAuxW_eq]
        cases hva : verifyAux p.v (maxProofDepth + 1) p.entries with
        | error e => simp [liftW]
        | ok pr =>
          obtain ⟨t, rest⟩ := pr
          simp only [liftW, List.nil_append]
          by_cases h4 : (!rest.isEmpty) = true
          · simp [h4]
          · simp only [h4]
            by_cases h5 : t.hashOf H ≠ root
            · simp [h5]
            · simp [h5, normRoot]

/-! ### the leaf list of a sub-tree inside the contents of the tree -/

theorem optLeaf_toList (o : Option (Bytes × Bytes)) : (optLeaf o).toList = o.toList := by
  rcases o with _ | ⟨k, v⟩ <;> simp [optLeaf, Trie.toList]

/-- The pre-order leaf list of a sub-tree is a sublist (same relative order, nothing repeated) of
the in-order contents of the tree. -/
theorem sub_writeLog_sublist {H : Bytes → Bytes} (s : PT) : ∀ (t : Trie), SubT H s t →
    s.writeLog.Sublist t.toList := by
  induction s with
  | nil => intro t _; simp [PT.writeLog]
  | hash h => intro t _; simp [PT.writeLog]
  | leaf k v =>
    intro t hs
    simp only [SubT] at hs; subst hs
    simp [PT.writeLog, Trie.toList]
  | node bits label lf l r ihlf ihl ihr =>
    intro t hs
    cases t with
    | nil => exact absurd hs (by simp [SubT])
    | leaf _ _ => exact absurd hs (by simp [SubT])
    | node lab olf tl tr =>
      obtain ⟨_, _, slf, sl, sr⟩ := hs
      have h1 := ihlf _ slf
      rw [optLeaf_toList] at h1
      simp only [PT.writeLog, Trie.toList]
      exact h1.append ((ihl _ sl).append (ihr _ sr))

/-- A rebuilt tree whose hash is the empty hash has no leaves, unless `H` collides on the strings
hashed in it. -/
theorem writeLog_nil_of_hash_empty {H : Bytes → Bytes} {s : PT}
    (hnc : NoColl H ([] :: ptInputs H s)) (h : s.hashOf H = H []) : s.writeLog = [] := by
  cases s with
  | nil => rfl
  | hash _ => rfl
  | leaf k v =>
    exfalso
    have := hnc (leafEnc k v) (by simp [ptInputs]) [] (by simp) (by simpa [PT.hashOf] using h)
    simp [leafEnc] at this
  | node bits label lf l r =>
    exfalso
    have := hnc (rawNodeEnc bits label (lf.hashOf H) (l.hashOf H) (r.hashOf H)) (by simp [ptInputs]) []
      (by simp) (by simpa [PT.hashOf] using h)
    exact rawNodeEnc_ne_nil _ _ _ _ _ this

end OasisProofs.MkvsProof
