import OasisProofs.Helpers.MkvsChunkTerm
import OasisProofs.Helpers.MkvsChunkBasic
/-
C12, cover for the parallel chunker: every node position of the tree is included, together with
all its ancestors, in the proof builder of some chunk.

Positions are carried syntactically: a position is a node together with the list of its ancestors
(root first). The obligations of a chunking task are the positions it still has to cover: its path
nodes and what is at and below the atoms of its pending stack. `nextChunk` covers obligations or
keeps them, `trim` drops only covered ones, `split` hands every obligation to a child task.
-/
namespace OasisProofs.MkvsChunk
open OasisModel.Mkvs

abbrev Pos := List HTrie × HTrie

/-- All positions at and below `t`, whose ancestors are `anc`. -/
def subPos : List HTrie → HTrie → List Pos
  | _, .nil => []
  | anc, .leaf h k v => [(anc, .leaf h k v)]
  | anc, .node h lab lf hlf l r =>
    (anc, .node h lab lf hlf l r) ::
      (subPos (anc ++ [.node h lab lf hlf l r]) l ++ subPos (anc ++ [.node h lab lf hlf l r]) r)

/-- The cached hash of a non-nil node (`[]` for nil, never asked for). -/
def nh : HTrie → Bytes
  | .nil => []
  | .leaf h _ _ => h
  | .node h _ _ _ _ _ => h

/-- A position is covered by an included set: the node and all its ancestors are included. -/
def Covered (incl : List Bytes) (p : Pos) : Prop := nh p.2 ∈ incl ∧ ∀ a ∈ p.1, nh a ∈ incl

theorem covered_mono {incl incl' : List Bytes} (h : ∀ x ∈ incl, x ∈ incl') {p : Pos} (hc : Covered incl p) :
    Covered incl' p := ⟨h _ hc.1, fun a ha => h _ (hc.2 a ha)⟩

/-- Ancestors of the top atom: the path, then the nodes of the atoms below it (bottom first). -/
def ancOf (path : List HTrie) (rest : List PAtom) : List HTrie := path ++ (rest.map (·.nd)).reverse

/-- What an atom with ancestors `anc` still owes. -/
def obAtom (anc : List HTrie) (a : PAtom) : List Pos :=
  match a.nd, a.st with
  | .nil, _ => []
  | .leaf h k v, _ => [(anc, .leaf h k v)]
  | .node h lab lf hlf l r, .before => subPos anc (.node h lab lf hlf l r)
  | .node h lab lf hlf l r, .at =>
    (anc, .node h lab lf hlf l r) ::
      (subPos (anc ++ [.node h lab lf hlf l r]) l ++ subPos (anc ++ [.node h lab lf hlf l r]) r)
  | .node h lab lf hlf l r, .atLeft =>
    (anc, .node h lab lf hlf l r) :: subPos (anc ++ [.node h lab lf hlf l r]) r
  | .node h lab lf hlf l r, .after => [(anc, .node h lab lf hlf l r)]

/-- Is the atom directly above an atom in state `at` (then it is that node's own leaf, which is part
of the node's serialisation in version 0 and owes nothing by itself). -/
def aboveAt : List PAtom → Bool
  | b :: _ => b.st == .at
  | [] => false

/-- Obligations of a stack (top first). -/
def obStack (path : List HTrie) : List PAtom → List Pos
  | [] => []
  | a :: rest => (if aboveAt rest then [] else obAtom (ancOf path rest) a) ++ obStack path rest

/-- Path nodes as positions. -/
def pathPos : List HTrie → List HTrie → List Pos
  | _, [] => []
  | pre, p :: ps => (pre, p) :: pathPos (pre ++ [p]) ps

def obTask (s : Subtree) : List Pos := pathPos [] s.path ++ obStack s.path s.pending

/-- Stack shape: every atom that is not on top is an internal node in a state other than `before`;
directly above an atom in state `at` there is only a leaf (the own leaf), which is then the top. -/
def isNodeH : HTrie → Bool
  | .node .. => true
  | _ => false

def isLeafH : HTrie → Bool
  | .leaf .. => true
  | _ => false

def WS : List PAtom → Prop
  | [] => True
  | [_] => True
  | a :: b :: rest =>
    isNodeH b.nd = true ∧ b.st ≠ .before ∧ (b.st = .at → isLeafH a.nd = true) ∧ WS (b :: rest)

theorem ws_tail {a : PAtom} {p : List PAtom} (h : WS (a :: p)) : WS p := by
  cases p with
  | nil => trivial
  | cons b rest => exact h.2.2.2

/-- Inclusion state of the builder during `nextChunk`: path nodes and all atoms below the top are
included; the top atom is included unless it was just pushed (state `before`). -/
def InclOK (incl : List Bytes) (path : List HTrie) : List PAtom → Prop
  | [] => ∀ a ∈ path, nh a ∈ incl
  | a :: rest => (∀ x ∈ path, nh x ∈ incl) ∧ (a.st ≠ .before → a.nd ≠ .nil → nh a.nd ∈ incl) ∧ ∀ x ∈ rest, nh x.nd ∈ incl

theorem includeH_nh (b : Builder) (t : HTrie) (ht : t ≠ .nil) : nh t ∈ (b.includeH 0 t).incl := by
  cases t with
  | nil => exact absurd rfl ht
  | leaf h k v => exact OasisProofs.MkvsProof.mem_include_self _ _ _
  | node h lab lf hlf l r => exact OasisProofs.MkvsProof.mem_include_self _ _ _

theorem ancOf_mem_incl {incl : List Bytes} {path : List HTrie} {rest : List PAtom}
    (hp : ∀ x ∈ path, nh x ∈ incl) (hr : ∀ x ∈ rest, nh x.nd ∈ incl) : ∀ a ∈ ancOf path rest, nh a ∈ incl := by
  intro a ha
  simp only [ancOf, List.mem_append, List.mem_reverse, List.mem_map] at ha
  rcases ha with ha | ⟨x, hx, rfl⟩
  · exact hp a ha
  · exact hr x hx

theorem ancOf_cons (path : List HTrie) (a : PAtom) (rest : List PAtom) :
    ancOf path (a :: rest) = ancOf path rest ++ [a.nd] := by
  simp [ancOf, List.append_assoc]

theorem obStack_pushChild (path : List HTrie) (a : PAtom) (rest : List PAtom) (t : HTrie) (ha : a.st ≠ .at) :
    ∀ pos, pos ∈ subPos (ancOf path (a :: rest)) t ∨ pos ∈ obStack path (a :: rest) →
      pos ∈ obStack path (pushChild (a :: rest) t) := by
  intro pos h
  cases t with
  | nil =>
    rcases h with h | h
    · simp [subPos] at h
    · exact h
  | leaf hh k v =>
    have hna : aboveAt (a :: rest) = false := by simp [aboveAt, ha]
    simp only [pushChild, obStack, hna, Bool.false_eq_true, if_false, List.mem_append]
    rcases h with h | h
    · left; simpa [obAtom, subPos] using h
    · right; simpa [obStack] using h
  | node hh lab lf hlf l r =>
    have hna : aboveAt (a :: rest) = false := by simp [aboveAt, ha]
    simp only [pushChild, obStack, hna, Bool.false_eq_true, if_false, List.mem_append]
    rcases h with h | h
    · left; simpa [obAtom] using h
    · right; simpa [obStack] using h

/-- What the loop guarantees. -/
def LoopPost (path : List HTrie) (p : List PAtom) (b : Builder) (r : List PAtom × Builder) : Prop :=
  (∀ x ∈ b.incl, x ∈ r.2.incl) ∧ WS r.1 ∧ InclOK r.2.incl path r.1 ∧
  ∀ pos ∈ obStack path p, Covered r.2.incl pos ∨ pos ∈ obStack path r.1

/-- Combine one loop step with the induction hypothesis. -/
theorem loopPost_step {path : List HTrie} {p p2 : List PAtom} {b b2 : Builder} {r : List PAtom × Builder}
    (hb : ∀ x ∈ b.incl, x ∈ b2.incl)
    (hob : ∀ pos ∈ obStack path p, Covered b2.incl pos ∨ pos ∈ obStack path p2)
    (hr : LoopPost path p2 b2 r) : LoopPost path p b r := by
  obtain ⟨h1, h2, h3, h4⟩ := hr
  refine ⟨fun x hx => h1 x (hb x hx), h2, h3, ?_⟩
  intro pos hpos
  rcases hob pos hpos with hc | hp2
  · exact Or.inl (covered_mono h1 hc)
  · exact h4 pos hp2

theorem ws_node_top {nd : HTrie} {st : VState} {rest : List PAtom} (h : WS (⟨nd, st⟩ :: rest))
    (hn : isLeafH nd = false) : aboveAt rest = false := by
  cases rest with
  | nil => rfl
  | cons b rest' =>
    obtain ⟨_, _, h3, _⟩ := h
    simp only [aboveAt]
    cases hs : b.st <;> simp
    have := h3 hs
    simp only at this
    rw [hn] at this
    exact absurd this (by simp)

theorem ws_replace_top {nd nd' : HTrie} {st st' : VState} {rest : List PAtom} (h : WS (⟨nd, st⟩ :: rest))
    (hl : isLeafH nd = isLeafH nd') : WS (⟨nd', st'⟩ :: rest) := by
  cases rest with
  | nil => trivial
  | cons b rest' =>
    obtain ⟨h1, h2, h3, h4⟩ := h
    exact ⟨h1, h2, fun hs => by have := h3 hs; simp only at this ⊢; rw [← hl]; exact this, h4⟩

theorem ws_pushChild {h : Bytes} {lab : Bits} {lf : Option (Bytes × Bytes)} {hlf : Bytes} {l r : HTrie}
    {st : VState} {rest : List PAtom} (hw : WS (⟨.node h lab lf hlf l r, st⟩ :: rest)) (hst : st ≠ .before)
    (hat : st ≠ .at) (t : HTrie) : WS (pushChild (⟨.node h lab lf hlf l r, st⟩ :: rest) t) := by
  cases t with
  | nil => exact hw
  | leaf hh k v => exact ⟨rfl, hst, fun hs => absurd hs hat, hw⟩
  | node hh lab' lf' hlf' l' r' => exact ⟨rfl, hst, fun hs => absurd hs hat, hw⟩

theorem inclOK_pushChild {incl : List Bytes} {path : List HTrie} {a : PAtom} {rest : List PAtom}
    (hp : ∀ x ∈ path, nh x ∈ incl) (ha : nh a.nd ∈ incl) (hr : ∀ x ∈ rest, nh x.nd ∈ incl) (t : HTrie) :
    InclOK incl path (pushChild (a :: rest) t) := by
  have hall : ∀ x ∈ a :: rest, nh x.nd ∈ incl := by
    intro x hx
    rcases List.mem_cons.1 hx with rfl | hx
    · exact ha
    · exact hr x hx
  cases t with
  | nil => exact ⟨hp, fun _ _ => ha, hr⟩
  | leaf hh k v => exact ⟨hp, fun hs => absurd rfl hs, hall⟩
  | node hh lab' lf' hlf' l' r' => exact ⟨hp, fun hs => absurd rfl hs, hall⟩

/-- The loop of `nextChunk` covers obligations or keeps them on the stack. -/
theorem loop_cover (size : Nat) (path : List HTrie) : ∀ (n : Nat) (p : List PAtom) (b : Builder) (lil : Bool),
    WS p → InclOK b.incl path p → LoopPost path p b (nextChunkLoop size n p b lil) := by
  intro n
  induction n with
  | zero =>
    intro p b lil hw hi
    exact ⟨fun x hx => hx, hw, hi, fun pos hp => Or.inr hp⟩
  | succ n ih =>
    intro p b lil hw hi
    cases p with
    | nil => exact ⟨fun x hx => hx, hw, hi, fun pos hp => Or.inr hp⟩
    | cons last rest =>
      simp only [nextChunkLoop]
      split
      · exact ⟨fun x hx => hx, hw, hi, fun pos hp => Or.inr hp⟩
      · obtain ⟨hpath, htop, hrest⟩ := hi
        rcases last with ⟨nd, st⟩
        have hmono : ∀ x ∈ b.incl, x ∈ (b.includeH 0 nd).incl := OasisProofs.MkvsProof.includeH_mono b 0 nd
        have hpath' : ∀ x ∈ path, nh x ∈ (b.includeH 0 nd).incl := fun x hx => hmono _ (hpath x hx)
        have hrest' : ∀ x ∈ rest, nh x.nd ∈ (b.includeH 0 nd).incl := fun x hx => hmono _ (hrest x hx)
        have hanc : ∀ a ∈ ancOf path rest, nh a ∈ (b.includeH 0 nd).incl := ancOf_mem_incl hpath' hrest'
        have hrestOK : InclOK (b.includeH 0 nd).incl path rest := by
          cases rest with
          | nil => exact hpath'
          | cons c rest' =>
            exact ⟨hpath', fun _ _ => hrest' c List.mem_cons_self, fun x hx => hrest' x (List.mem_cons_of_mem _ hx)⟩
        cases nd with
        | nil =>
          simp only
          refine loopPost_step hmono ?_ (ih rest _ _ (ws_tail hw) hrestOK)
          intro pos hpos
          simp only [obStack, obAtom, List.mem_append] at hpos
          rcases hpos with hpos | hpos
          · split at hpos <;> simp at hpos
          · exact Or.inr hpos
        | leaf hh k v =>
          simp only
          refine loopPost_step hmono ?_ (ih rest _ _ (ws_tail hw) hrestOK)
          intro pos hpos
          simp only [obStack, obAtom, List.mem_append] at hpos
          rcases hpos with hpos | hpos
          · split at hpos
            · simp at hpos
            · simp only [List.mem_singleton] at hpos
              subst hpos
              exact Or.inl ⟨includeH_nh b _ (by simp), hanc⟩
          · exact Or.inr hpos
        | node hh lab lf hlf l r =>
          have hself : nh (HTrie.node hh lab lf hlf l r) ∈ (b.includeH 0 (HTrie.node hh lab lf hlf l r)).incl :=
            includeH_nh b _ (by simp)
          have hna : aboveAt rest = false := ws_node_top hw rfl
          cases st with
          | before =>
            simp only
            rcases lf with _ | ⟨k, v⟩
            · simp only
              refine loopPost_step hmono ?_ (ih _ _ _ (ws_replace_top hw rfl) ⟨hpath', fun _ _ => hself, hrest'⟩)
              intro pos hpos
              right
              simpa [obStack, obAtom, subPos, hna] using hpos
            · simp only
              refine loopPost_step hmono ?_ (ih _ _ _ ?_ ?_)
              · intro pos hpos
                right
                simpa [obStack, obAtom, subPos, hna, aboveAt] using hpos
              · exact ⟨rfl, by simp, fun _ => rfl, ws_replace_top hw rfl⟩
              · refine ⟨hpath', fun hs => absurd rfl hs, ?_⟩
                intro x hx
                rcases List.mem_cons.1 hx with rfl | hx
                · exact hself
                · exact hrest' x hx
          | «at» =>
            simp only
            have hw2 : WS (⟨HTrie.node hh lab lf hlf l r, .atLeft⟩ :: rest) := ws_replace_top hw rfl
            refine loopPost_step hmono ?_ (ih _ _ _ (ws_pushChild hw2 (by simp) (by simp) l)
              (inclOK_pushChild hpath' hself hrest' l))
            intro pos hpos
            right
            apply obStack_pushChild path _ rest l (by simp)
            simp only [obStack, obAtom, hna, Bool.false_eq_true, if_false, List.mem_append, List.mem_cons] at hpos ⊢
            rw [ancOf_cons]
            rcases hpos with (hpos | hpos | hpos) | hpos
            · right; left; left; exact hpos
            · left; exact hpos
            · right; left; right; exact hpos
            · right; right; exact hpos
          | atLeft =>
            simp only
            have hw2 : WS (⟨HTrie.node hh lab lf hlf l r, .after⟩ :: rest) := ws_replace_top hw rfl
            refine loopPost_step hmono ?_ (ih _ _ _ (ws_pushChild hw2 (by simp) (by simp) r)
              (inclOK_pushChild hpath' hself hrest' r))
            intro pos hpos
            right
            apply obStack_pushChild path _ rest r (by simp)
            simp only [obStack, obAtom, hna, Bool.false_eq_true, if_false, List.mem_append, List.mem_cons] at hpos ⊢
            rw [ancOf_cons]
            rcases hpos with (hpos | hpos) | hpos
            · right; left; left; exact hpos
            · left; exact hpos
            · right; right; exact hpos
          | after =>
            simp only
            refine loopPost_step hmono ?_ (ih rest _ _ (ws_tail hw) hrestOK)
            intro pos hpos
            simp only [obStack, obAtom, hna, Bool.false_eq_true, if_false, List.mem_append, List.mem_singleton] at hpos
            rcases hpos with hpos | hpos
            · subst hpos
              exact Or.inl ⟨hself, hanc⟩
            · exact Or.inr hpos

/-! ### `trim` drops only covered obligations -/

/-- The top atom is not removed by `trim` (so the stack is non-empty and trimmed). -/
def topOK : List PAtom → Prop
  | [] => False
  | a :: rest => trim (a :: rest) = a :: rest

theorem trim_length_le : ∀ (p : List PAtom), (trim p).length ≤ p.length := by
  intro p
  induction p with
  | nil => simp [trim]
  | cons a p ih =>
    rcases a with ⟨nd, st⟩
    cases nd with
    | nil => simp only [trim, List.length_cons]; omega
    | leaf h k v => simp [trim]
    | node h lab lf hlf l r =>
      cases st with
      | before => simp [trim]
      | «at» => simp only [trim]; split <;> simp only [List.length_cons] <;> omega
      | atLeft => simp only [trim]; split <;> simp only [List.length_cons] <;> omega
      | after => simp only [trim, List.length_cons]; omega

theorem trim_topOK : ∀ (p : List PAtom), trim p = [] ∨ topOK (trim p) := by
  intro p
  induction p with
  | nil => left; rfl
  | cons a p ih =>
    rcases a with ⟨nd, st⟩
    cases nd with
    | nil => simpa [trim] using ih
    | leaf h k v => right; simp [trim, topOK]
    | node h lab lf hlf l r =>
      cases st with
      | before => right; simp [trim, topOK]
      | «at» =>
        by_cases hc : (!isNilH l || !isNilH r) = true
        · right; simp [trim, topOK, hc]
        · simp only [trim, hc]; simpa using ih
      | atLeft =>
        by_cases hc : (!isNilH r) = true
        · right; simp [trim, topOK, hc]
        · simp only [trim, hc]; simpa using ih
      | after => simpa [trim] using ih

theorem isNilH_eq {t : HTrie} (h : isNilH t = true) : t = .nil := by
  cases t <;> simp [isNilH] at h ⊢

theorem trim_cover (incl : List Bytes) (path : List HTrie) : ∀ (p : List PAtom), WS p → InclOK incl path p →
    WS (trim p) ∧ ∀ pos ∈ obStack path p, Covered incl pos ∨ pos ∈ obStack path (trim p) := by
  intro p
  induction p with
  | nil => intro hw _; exact ⟨hw, fun pos hp => Or.inr hp⟩
  | cons a rest ih =>
    intro hw hi
    obtain ⟨hpath, htop, hrest⟩ := hi
    have hrestOK : InclOK incl path rest := by
      cases rest with
      | nil => exact hpath
      | cons c rest' =>
        exact ⟨hpath, fun _ _ => hrest c List.mem_cons_self, fun x hx => hrest x (List.mem_cons_of_mem _ hx)⟩
    have hanc : ∀ x ∈ ancOf path rest, nh x ∈ incl := ancOf_mem_incl hpath hrest
    have hrec := ih (ws_tail hw) hrestOK
    rcases a with ⟨nd, st⟩
    -- dropping the top atom when its own obligation is (at most) its own position, covered
    have hdrop : ∀ (ob : List Pos), (∀ pos ∈ ob, Covered incl pos) →
        obStack path (⟨nd, st⟩ :: rest) = (if aboveAt rest then [] else ob) ++ obStack path rest →
        WS (trim rest) ∧ ∀ pos ∈ obStack path (⟨nd, st⟩ :: rest), Covered incl pos ∨ pos ∈ obStack path (trim rest) := by
      intro ob hob he
      refine ⟨hrec.1, ?_⟩
      intro pos hpos
      rw [he, List.mem_append] at hpos
      rcases hpos with hpos | hpos
      · split at hpos
        · simp at hpos
        · exact Or.inl (hob pos hpos)
      · exact hrec.2 pos hpos
    cases nd with
    | nil =>
      simp only [trim]
      exact hdrop [] (by intro pos hp; simp at hp) (by simp [obStack, obAtom])
    | leaf h k v => simp only [trim]; exact ⟨hw, fun pos hp => Or.inr hp⟩
    | node h lab lf hlf l r =>
      have hself : st ≠ .before → nh (HTrie.node h lab lf hlf l r) ∈ incl := fun hs => htop hs (by simp)
      cases st with
      | before => simp only [trim]; exact ⟨hw, fun pos hp => Or.inr hp⟩
      | «at» =>
        by_cases hc : (!isNilH l || !isNilH r) = true
        · simp only [trim, hc, if_true]; exact ⟨hw, fun pos hp => Or.inr hp⟩
        · simp only [trim, hc]
          have hl : l = .nil := isNilH_eq (by simpa using (by simpa using hc : isNilH l = true ∧ isNilH r = true).1)
          have hr : r = .nil := isNilH_eq (by simpa using (by simpa using hc : isNilH l = true ∧ isNilH r = true).2)
          subst hl hr
          exact hdrop [(ancOf path rest, HTrie.node h lab lf hlf .nil .nil)]
            (by intro pos hp; simp only [List.mem_singleton] at hp; subst hp; exact ⟨hself (by simp), hanc⟩)
            (by simp [obStack, obAtom, subPos])
      | atLeft =>
        by_cases hc : (!isNilH r) = true
        · simp only [trim, hc, if_true]; exact ⟨hw, fun pos hp => Or.inr hp⟩
        · simp only [trim, hc]
          have hr : r = .nil := isNilH_eq (by simpa using hc)
          subst hr
          exact hdrop [(ancOf path rest, HTrie.node h lab lf hlf l .nil)]
            (by intro pos hp; simp only [List.mem_singleton] at hp; subst hp; exact ⟨hself (by simp), hanc⟩)
            (by simp [obStack, obAtom, subPos])
      | after =>
        simp only [trim]
        exact hdrop [(ancOf path rest, HTrie.node h lab lf hlf l r)]
          (by intro pos hp; simp only [List.mem_singleton] at hp; subst hp; exact ⟨hself (by simp), hanc⟩)
          (by simp [obStack, obAtom])

/-! ### one chunk of a task -/

/-- The included set of the chunk `nextChunk` builds. -/
def chunkIncl (fuel size : Nat) (s : Subtree) : List Bytes :=
  (nextChunkLoop size fuel s.pending
    (s.pending.reverse.foldl (fun b pa => b.includeH 0 pa.nd) (s.path.foldl (fun b n => b.includeH 0 n) {})) false).2.incl

theorem nextChunkF_entries (fuel : Nat) (eh : Bytes) (size : Nat) (root : HTrie) (s : Subtree) :
    (nextChunkF fuel eh size root s).1 = buildFrom 0 (chunkIncl fuel size s) root := rfl

theorem foldl_includeH_mono (l : List HTrie) : ∀ (b : Builder), ∀ x ∈ b.incl,
    x ∈ (l.foldl (fun b n => b.includeH 0 n) b).incl := by
  induction l with
  | nil => intro b x hx; exact hx
  | cons a l ih => intro b x hx; exact ih _ x (OasisProofs.MkvsProof.includeH_mono b 0 a x hx)

theorem foldl_includeH_mem (l : List HTrie) : ∀ (b : Builder), ∀ a ∈ l, a ≠ .nil →
    nh a ∈ (l.foldl (fun b n => b.includeH 0 n) b).incl := by
  induction l with
  | nil => intro b a ha; simp at ha
  | cons c l ih =>
    intro b a ha hn
    rcases List.mem_cons.1 ha with rfl | ha
    · exact foldl_includeH_mono l _ _ (includeH_nh b _ hn)
    · exact ih _ a ha hn

theorem foldl_includeA_mono (l : List PAtom) : ∀ (b : Builder), ∀ x ∈ b.incl,
    x ∈ (l.foldl (fun b pa => b.includeH 0 pa.nd) b).incl := by
  induction l with
  | nil => intro b x hx; exact hx
  | cons a l ih => intro b x hx; exact ih _ x (OasisProofs.MkvsProof.includeH_mono b 0 a.nd x hx)

theorem foldl_includeA_mem (l : List PAtom) : ∀ (b : Builder), ∀ a ∈ l, a.nd ≠ .nil →
    nh a.nd ∈ (l.foldl (fun b pa => b.includeH 0 pa.nd) b).incl := by
  induction l with
  | nil => intro b a ha; simp at ha
  | cons c l ih =>
    intro b a ha hn
    rcases List.mem_cons.1 ha with rfl | ha
    · exact foldl_includeA_mono l _ _ (includeH_nh b _ hn)
    · exact ih _ a ha hn

theorem ws_rest_nodes : ∀ (p : List PAtom), WS p → ∀ x ∈ p.tail, x.nd ≠ .nil := by
  intro p
  induction p with
  | nil => intro _ x hx; simp at hx
  | cons a rest ih =>
    intro hw x hx
    cases rest with
    | nil => simp at hx
    | cons b rest' =>
      simp only [List.tail_cons] at hx
      rcases List.mem_cons.1 hx with rfl | hx
      · intro hn; have := hw.1; rw [hn] at this; simp [isNodeH] at this
      · exact ih hw.2.2.2 x (by simpa using hx)

theorem pathPos_mem (ps : List HTrie) : ∀ (pre : List HTrie) (pos : Pos), pos ∈ pathPos pre ps →
    pos.2 ∈ ps ∧ ∀ a ∈ pos.1, a ∈ pre ∨ a ∈ ps := by
  induction ps with
  | nil => intro pre pos h; simp [pathPos] at h
  | cons p ps ih =>
    intro pre pos h
    simp only [pathPos, List.mem_cons] at h
    rcases h with rfl | h
    · exact ⟨List.mem_cons_self, fun a ha => Or.inl ha⟩
    · obtain ⟨h1, h2⟩ := ih _ pos h
      refine ⟨List.mem_cons_of_mem _ h1, fun a ha => ?_⟩
      rcases h2 a ha with h3 | h3
      · rcases List.mem_append.1 h3 with h4 | h4
        · exact Or.inl h4
        · simp only [List.mem_singleton] at h4; subst h4; exact Or.inr List.mem_cons_self
      · exact Or.inr (List.mem_cons_of_mem _ h3)

/-- **One chunk**: every obligation of the task is covered by the chunk's included set or stays on
the (trimmed) stack of the task. -/
theorem nextChunk_cover (fuel : Nat) (eh : Bytes) (size : Nat) (root : HTrie) (s : Subtree)
    (hpath : ∀ a ∈ s.path, a ≠ .nil) (hw : WS s.pending) :
    (nextChunkF fuel eh size root s).2.path = s.path ∧ WS (nextChunkF fuel eh size root s).2.pending ∧
    ∀ pos ∈ obTask s, Covered (chunkIncl fuel size s) pos ∨
      pos ∈ obStack s.path (nextChunkF fuel eh size root s).2.pending := by
  let b0 : Builder := s.path.foldl (fun b n => b.includeH 0 n) {}
  let b1 : Builder := s.pending.reverse.foldl (fun b pa => b.includeH 0 pa.nd) b0
  have hp1 : ∀ a ∈ s.path, nh a ∈ b1.incl := fun a ha =>
    foldl_includeA_mono _ _ _ (foldl_includeH_mem s.path {} a ha (hpath a ha))
  have hi : InclOK b1.incl s.path s.pending := by
    cases hpe : s.pending with
    | nil => exact hp1
    | cons a rest =>
      refine ⟨hp1, fun _ hn => ?_, fun x hx => ?_⟩
      · exact foldl_includeA_mem _ b0 a (by rw [hpe]; simp) hn
      · have hx' : x ∈ s.pending.reverse := by rw [hpe]; simp [hx]
        have hn : x.nd ≠ .nil := ws_rest_nodes s.pending hw x (by rw [hpe]; simpa using hx)
        exact foldl_includeA_mem _ b0 x hx' hn
  have hloop := loop_cover size s.path fuel s.pending b1 false hw hi
  obtain ⟨l1, l2, l3, l4⟩ := hloop
  have htrim := trim_cover _ s.path _ l2 l3
  refine ⟨rfl, htrim.1, ?_⟩
  intro pos hpos
  simp only [obTask, List.mem_append] at hpos
  rcases hpos with hpos | hpos
  · left
    obtain ⟨h1, h2⟩ := pathPos_mem s.path [] pos hpos
    refine ⟨l1 _ (hp1 _ h1), fun a ha => ?_⟩
    rcases h2 a ha with h3 | h3
    · simp at h3
    · exact l1 _ (hp1 _ h3)
  · rcases l4 pos hpos with hc | hp2
    · exact Or.inl hc
    · exact htrim.2 pos hp2

/-! ### `split` hands every obligation to a child task -/

def TaskOK (s : Subtree) : Prop := (∀ a ∈ s.path, a ≠ .nil) ∧ WS s.pending ∧ topOK s.pending

theorem aboveAt_snoc (q : List PAtom) (bot : PAtom) (h : bot.st ≠ .at) : aboveAt (q ++ [bot]) = aboveAt q := by
  cases q with
  | nil => simp [aboveAt, h]
  | cons a q' => rfl

theorem ancOf_snoc (path : List HTrie) (q : List PAtom) (bot : PAtom) :
    ancOf path (q ++ [bot]) = ancOf (path ++ [bot.nd]) q := by
  simp [ancOf, List.append_assoc]

theorem obStack_snoc (path : List HTrie) (bot : PAtom) (h : bot.st ≠ .at) : ∀ (q : List PAtom),
    obStack path (q ++ [bot]) = obStack (path ++ [bot.nd]) q ++ obAtom path bot := by
  intro q
  induction q with
  | nil => simp [obStack, aboveAt, ancOf]
  | cons a q' ih =>
    simp only [List.cons_append, obStack, ih, aboveAt_snoc q' bot h, ancOf_snoc, List.append_assoc]

theorem pathPos_snoc (ps : List HTrie) (x : HTrie) : ∀ (pre : List HTrie),
    pathPos pre (ps ++ [x]) = pathPos pre ps ++ [(pre ++ ps, x)] := by
  induction ps with
  | nil => intro pre; simp [pathPos]
  | cons p ps ih => intro pre; simp [pathPos, ih, List.append_assoc]

theorem ws_init : ∀ (q : List PAtom) (bot : PAtom), WS (q ++ [bot]) → WS q := by
  intro q
  induction q with
  | nil => intro _ _; trivial
  | cons a q' ih =>
    intro bot h
    cases q' with
    | nil => trivial
    | cons b q'' =>
      obtain ⟨h1, h2, h3, h4⟩ := h
      exact ⟨h1, h2, h3, ih bot h4⟩

theorem topOK_replace_rest {a : PAtom} {r1 : List PAtom} (h : topOK (a :: r1)) (r2 : List PAtom) :
    topOK (a :: r2) := by
  simp only [topOK] at h ⊢
  rcases a with ⟨nd, st⟩
  have hlen : ∀ (x : List PAtom), x = ⟨nd, st⟩ :: r1 → (trim r1).length ≤ r1.length → trim r1 ≠ x := by
    intro x hx hl he
    rw [he, hx] at hl
    simp only [List.length_cons] at hl
    omega
  cases nd with
  | nil => simp only [trim] at h; exact absurd h (hlen _ rfl (trim_length_le _))
  | leaf hh k v => simp [trim]
  | node hh lab lf hlf l r =>
    cases st with
    | before => simp [trim]
    | «at» =>
      simp only [trim] at h ⊢
      split at h
      · next hc => rw [if_pos hc]
      · exact absurd h (hlen _ rfl (trim_length_le _))
    | atLeft =>
      simp only [trim] at h ⊢
      split at h
      · next hc => rw [if_pos hc]
      · exact absurd h (hlen _ rfl (trim_length_le _))
    | after => simp only [trim] at h; exact absurd h (hlen _ rfl (trim_length_le _))

theorem topOK_init {q : List PAtom} {bot : PAtom} (h : topOK (q ++ [bot])) (hq : q ≠ []) : topOK q := by
  cases q with
  | nil => exact absurd rfl hq
  | cons a q' => exact topOK_replace_rest h q'

theorem obTask_child (path : List HTrie) (nd c : HTrie) (hc : c ≠ .nil) :
    obTask { path := path ++ [nd], pending := [⟨c, .before⟩] } =
      pathPos [] path ++ [(path, nd)] ++ subPos (path ++ [nd]) c := by
  simp only [obTask, pathPos_snoc, List.nil_append, obStack, aboveAt, Bool.false_eq_true, if_false, ancOf,
    List.map_nil, List.reverse_nil, List.append_nil]
  cases c with
  | nil => exact absurd rfl hc
  | leaf h k v => simp [obAtom, subPos]
  | node h lab lf hlf l r => simp [obAtom]

theorem childTask_ok (path : List HTrie) (nd c : HTrie) (hp : ∀ a ∈ path, a ≠ .nil) (hn : nd ≠ .nil) :
    ∀ t ∈ childTask path nd c, TaskOK t := by
  intro t ht
  cases c with
  | nil => simp [childTask] at ht
  | leaf h k v =>
    simp only [childTask, List.mem_singleton] at ht
    subst ht
    refine ⟨?_, trivial, by simp [topOK, trim]⟩
    intro a ha
    rcases List.mem_append.1 ha with ha | ha
    · exact hp a ha
    · simp only [List.mem_singleton] at ha; rw [ha]; exact hn
  | node h lab lf hlf l r =>
    simp only [childTask, List.mem_singleton] at ht
    subst ht
    refine ⟨?_, trivial, by simp [topOK, trim]⟩
    intro a ha
    rcases List.mem_append.1 ha with ha | ha
    · exact hp a ha
    · simp only [List.mem_singleton] at ha; rw [ha]; exact hn

theorem childTask_nonnil (path : List HTrie) (nd c : HTrie) (hc : c ≠ .nil) :
    childTask path nd c = [{ path := path ++ [nd], pending := [⟨c, .before⟩] }] := by
  cases c with
  | nil => exact absurd rfl hc
  | leaf h k v => rfl
  | node h lab lf hlf l r => rfl

theorem childTask_ob (path : List HTrie) (nd c : HTrie) (pos : Pos) (hpos : pos ∈ subPos (path ++ [nd]) c) :
    ∃ t ∈ childTask path nd c, pos ∈ obTask t := by
  have hc : c ≠ .nil := by intro h; subst h; simp [subPos] at hpos
  rw [childTask_nonnil path nd c hc]
  refine ⟨_, List.mem_singleton.2 rfl, ?_⟩
  rw [obTask_child path nd c hc]
  exact List.mem_append_right _ hpos

theorem childTask_path (path : List HTrie) (nd c : HTrie) (hc : c ≠ .nil) (pos : Pos)
    (hpos : pos ∈ pathPos [] path ++ [(path, nd)]) : ∃ t ∈ childTask path nd c, pos ∈ obTask t := by
  rw [childTask_nonnil path nd c hc]
  refine ⟨_, List.mem_singleton.2 rfl, ?_⟩
  rw [obTask_child path nd c hc]
  exact List.mem_append_left _ hpos

theorem ws_snoc_bot : ∀ (q : List PAtom) (bot : PAtom), WS (q ++ [bot]) → q ≠ [] →
    bot.st ≠ .before ∧ (bot.st = .at → ∃ x, q = [x]) := by
  intro q
  induction q with
  | nil => intro bot _ h; exact absurd rfl h
  | cons a q' ih =>
    intro bot hw _
    cases q' with
    | nil =>
      obtain ⟨_, h2, _, _⟩ := hw
      exact ⟨h2, fun _ => ⟨a, rfl⟩⟩
    | cons b q'' =>
      have hw' : WS ((b :: q'') ++ [bot]) := hw.2.2.2
      obtain ⟨i1, i2⟩ := ih bot hw' (by simp)
      refine ⟨i1, fun hat => ?_⟩
      obtain ⟨x, hx⟩ := i2 hat
      simp only [List.cons.injEq] at hx
      obtain ⟨rfl, rfl⟩ := hx
      -- q = [a, b], b is directly above `bot` in state `at`, so it is a leaf; but it is not on top
      have hb : isNodeH b.nd = true := hw.1
      have hl : isLeafH b.nd = true := hw'.2.2.1 hat
      cases hx : b.nd <;> simp [hx, isNodeH, isLeafH] at hb hl

theorem obStack_at_bottom (path : List HTrie) (q : List PAtom) (bot : PAtom) (hw : WS (q ++ [bot]))
    (hat : bot.st = .at) : obStack path (q ++ [bot]) = obAtom path bot := by
  cases q with
  | nil => simp [obStack, aboveAt, ancOf]
  | cons a q' =>
    obtain ⟨_, h2⟩ := ws_snoc_bot (a :: q') bot hw (by simp)
    obtain ⟨x, hx⟩ := h2 hat
    simp only [List.cons.injEq] at hx
    obtain ⟨rfl, rfl⟩ := hx
    simp [obStack, aboveAt, hat, ancOf]

/-- **`split`**: the child tasks are well formed and together carry every obligation of the task. -/
theorem splitSub_cover (s : Subtree) (hok : TaskOK s) :
    (∀ t ∈ splitSub s, TaskOK t) ∧ ∀ pos ∈ obTask s, ∃ t ∈ splitSub s, pos ∈ obTask t := by
  obtain ⟨hp, hw, htop⟩ := hok
  have hkeep : (∀ t ∈ [s], TaskOK t) ∧ ∀ pos ∈ obTask s, ∃ t ∈ [s], pos ∈ obTask t :=
    ⟨fun t ht => by simp only [List.mem_singleton] at ht; subst ht; exact ⟨hp, hw, htop⟩,
     fun pos hpos => ⟨s, List.mem_singleton.2 rfl, hpos⟩⟩
  have hrr : s.pending = s.pending.reverse.reverse := (List.reverse_reverse _).symm
  unfold splitSub
  cases hr : s.pending.reverse with
  | nil =>
    have : s.pending = [] := by rw [hrr, hr]; rfl
    rw [this] at htop
    exact absurd htop (by simp [topOK])
  | cons subroot above =>
    have hpe : s.pending = above.reverse ++ [subroot] := by rw [hrr, hr]; simp
    rw [hpe] at hw htop
    rcases subroot with ⟨nd, st⟩
    cases nd with
    | nil => exact hkeep
    | leaf h k v => exact hkeep
    | node h lab lf hlf l r =>
      have hnn : HTrie.node h lab lf hlf l r ≠ .nil := by simp
      -- obligations when the subroot's own obligation is the whole node
      have hboth : ∀ (_ : obStack s.path (above.reverse ++ [⟨HTrie.node h lab lf hlf l r, st⟩]) =
            (s.path, HTrie.node h lab lf hlf l r) ::
              (subPos (s.path ++ [HTrie.node h lab lf hlf l r]) l ++ subPos (s.path ++ [HTrie.node h lab lf hlf l r]) r))
          (_ : ¬ (isNilH l && isNilH r) = true),
          (∀ t ∈ childTask s.path (HTrie.node h lab lf hlf l r) l ++ childTask s.path (HTrie.node h lab lf hlf l r) r, TaskOK t) ∧
          ∀ pos ∈ obTask s, ∃ t ∈ childTask s.path (HTrie.node h lab lf hlf l r) l ++
            childTask s.path (HTrie.node h lab lf hlf l r) r, pos ∈ obTask t := by
        intro hob hnil
        refine ⟨?_, ?_⟩
        · intro t ht
          rcases List.mem_append.1 ht with ht | ht
          · exact childTask_ok _ _ _ hp hnn t ht
          · exact childTask_ok _ _ _ hp hnn t ht
        · intro pos hpos
          simp only [obTask, hpe, hob, List.mem_append, List.mem_cons] at hpos
          have hpathcase : pos ∈ pathPos [] s.path ++ [(s.path, HTrie.node h lab lf hlf l r)] →
              ∃ t ∈ childTask s.path (HTrie.node h lab lf hlf l r) l ++
                childTask s.path (HTrie.node h lab lf hlf l r) r, pos ∈ obTask t := by
            intro hh
            by_cases hl : l = .nil
            · have hrn : r ≠ .nil := by
                intro hrn; subst hl hrn; simp [isNilH] at hnil
              obtain ⟨t, ht, hpt⟩ := childTask_path s.path _ r hrn pos hh
              exact ⟨t, List.mem_append_right _ ht, hpt⟩
            · obtain ⟨t, ht, hpt⟩ := childTask_path s.path _ l hl pos hh
              exact ⟨t, List.mem_append_left _ ht, hpt⟩
          rcases hpos with hpos | hpos | hpos | hpos
          · exact hpathcase (List.mem_append_left _ hpos)
          · exact hpathcase (List.mem_append_right _ (by simp [hpos]))
          · obtain ⟨t, ht, hpt⟩ := childTask_ob s.path _ l pos hpos
            exact ⟨t, List.mem_append_left _ ht, hpt⟩
          · obtain ⟨t, ht, hpt⟩ := childTask_ob s.path _ r pos hpos
            exact ⟨t, List.mem_append_right _ ht, hpt⟩
      -- the task that continues above the subroot
      have hcont : above ≠ [] →
          TaskOK { path := s.path ++ [HTrie.node h lab lf hlf l r], pending := above.reverse } := by
        intro hne
        have hne' : above.reverse ≠ [] := by simpa using hne
        refine ⟨?_, ws_init _ _ hw, topOK_init htop hne'⟩
        intro a ha
        rcases List.mem_append.1 ha with ha | ha
        · exact hp a ha
        · simp only [List.mem_singleton] at ha; rw [ha]; exact hnn
      cases st with
      | before =>
        simp only
        split
        · exact hkeep
        · next hnil =>
          apply hboth _ hnil
          have habove : above = [] := by
            apply Classical.byContradiction
            intro hne
            exact (ws_snoc_bot above.reverse _ hw (by simpa using hne)).1 rfl
          subst habove
          simp [obStack, aboveAt, ancOf, obAtom, subPos]
      | «at» =>
        simp only
        split
        · exact hkeep
        · next hnil =>
          apply hboth _ hnil
          rw [obStack_at_bottom s.path above.reverse _ hw rfl]
          simp [obAtom]
      | atLeft =>
        simp only
        split
        · exact hkeep
        · next hemp =>
          have hne : above ≠ [] := by simpa using hemp
          have hob := obStack_snoc s.path ⟨HTrie.node h lab lf hlf l r, .atLeft⟩ (by simp) above.reverse
          refine ⟨?_, ?_⟩
          · intro t ht
            rcases List.mem_append.1 ht with ht | ht
            · exact childTask_ok _ _ _ hp hnn t ht
            · simp only [List.mem_singleton] at ht; subst ht; exact hcont hne
          · intro pos hpos
            simp only [obTask, hpe, hob, obAtom, List.mem_append, List.mem_cons] at hpos
            rcases hpos with hpos | hpos | hpos | hpos
            · refine ⟨_, List.mem_append_right _ (List.mem_singleton.2 rfl), ?_⟩
              simp only [obTask, pathPos_snoc, List.nil_append, List.mem_append]
              left; left; exact hpos
            · refine ⟨_, List.mem_append_right _ (List.mem_singleton.2 rfl), ?_⟩
              simp only [obTask, List.mem_append]
              right; exact hpos
            · refine ⟨_, List.mem_append_right _ (List.mem_singleton.2 rfl), ?_⟩
              simp only [obTask, pathPos_snoc, List.nil_append, List.mem_append, List.mem_singleton]
              left; right; exact hpos
            · obtain ⟨t, ht, hpt⟩ := childTask_ob s.path _ r pos hpos
              exact ⟨t, List.mem_append_left _ ht, hpt⟩
      | after =>
        simp only
        have hne : above ≠ [] := by
          intro he
          subst he
          simp [topOK, trim] at htop
        have hob := obStack_snoc s.path ⟨HTrie.node h lab lf hlf l r, .after⟩ (by simp) above.reverse
        refine ⟨?_, ?_⟩
        · intro t ht
          simp only [List.mem_singleton] at ht; subst ht; exact hcont hne
        · intro pos hpos
          simp only [obTask, hpe, hob, obAtom, List.mem_append, List.mem_singleton] at hpos
          refine ⟨_, List.mem_singleton.2 rfl, ?_⟩
          simp only [obTask, pathPos_snoc, List.nil_append, List.mem_append, List.mem_singleton]
          rcases hpos with hpos | hpos | hpos
          · left; left; exact hpos
          · right; exact hpos
          · left; right; exact hpos

/-! ### task lists, rounds -/

def AllOK (ts : List Subtree) : Prop := ∀ t ∈ ts, TaskOK t

def Owed (ts : List Subtree) (pos : Pos) : Prop := ∃ t ∈ ts, pos ∈ obTask t

theorem splitPass_cover (threads : Nat) : ∀ (tasks acc : List Subtree), AllOK tasks → AllOK acc →
    AllOK (splitPass threads tasks acc).1 ∧
    ∀ pos, Owed (acc ++ tasks) pos → Owed (splitPass threads tasks acc).1 pos := by
  intro tasks
  induction tasks with
  | nil =>
    intro acc _ ha
    simp only [splitPass, List.append_nil]
    exact ⟨ha, fun pos h => h⟩
  | cons t rest ih =>
    intro acc ht ha
    simp only [splitPass]
    split
    · refine ⟨?_, fun pos h => h⟩
      intro x hx
      rcases List.mem_append.1 hx with hx | hx
      · exact ha x hx
      · exact ht x hx
    · have hs := splitSub_cover t (ht t List.mem_cons_self)
      have hacc : AllOK (acc ++ splitSub t) := by
        intro x hx
        rcases List.mem_append.1 hx with hx | hx
        · exact ha x hx
        · exact hs.1 x hx
      have hrest : AllOK rest := fun x hx => ht x (List.mem_cons_of_mem _ hx)
      obtain ⟨i1, i2⟩ := ih (acc ++ splitSub t) hrest hacc
      refine ⟨i1, fun pos hpos => i2 pos ?_⟩
      obtain ⟨x, hx, hpx⟩ := hpos
      rcases List.mem_append.1 hx with hx | hx
      · exact ⟨x, List.mem_append_left _ (List.mem_append_left _ hx), hpx⟩
      · rcases List.mem_cons.1 hx with rfl | hx
        · obtain ⟨y, hy, hpy⟩ := hs.2 pos hpx
          exact ⟨y, List.mem_append_left _ (List.mem_append_right _ hy), hpy⟩
        · exact ⟨x, List.mem_append_right _ hx, hpx⟩

theorem splitTasksN_cover (threads : Nat) : ∀ (n : Nat) (tasks : List Subtree), AllOK tasks →
    AllOK (splitTasksN threads n tasks) ∧ ∀ pos, Owed tasks pos → Owed (splitTasksN threads n tasks) pos := by
  intro n
  induction n with
  | zero => intro tasks h; exact ⟨h, fun pos hp => hp⟩
  | succ n ih =>
    intro tasks h
    have hp := splitPass_cover threads tasks [] h (by intro x hx; simp at hx)
    simp only [List.nil_append] at hp
    simp only [splitTasksN]
    split
    · exact hp
    · obtain ⟨i1, i2⟩ := ih _ hp.1
      exact ⟨i1, fun pos hpos => i2 pos (hp.2 pos hpos)⟩

/-- The included sets of all chunks, in chunk order (mirrors `parLoopF`). -/
def parInclsF (fuel : Nat) (eh : Bytes) (size threads : Nat) (root : HTrie) : Nat → List Subtree → List (List Bytes)
  | 0, _ => []
  | n + 1, pending =>
    if pending.isEmpty then [] else
    (splitTasks threads pending).map (chunkIncl fuel size) ++
      parInclsF fuel eh size threads root n (parRoundF fuel eh size root (splitTasks threads pending)).2

theorem parLoopF_eq_map (fuel : Nat) (eh : Bytes) (size threads : Nat) (root : HTrie) :
    ∀ (n : Nat) (pending : List Subtree), parLoopF fuel eh size threads root n pending =
      (parInclsF fuel eh size threads root n pending).map (fun incl => buildFrom 0 incl root) := by
  intro n
  induction n with
  | zero => intro p; rfl
  | succ n ih =>
    intro p
    simp only [parLoopF, parInclsF]
    split
    · rfl
    · rw [List.map_append, ih]
      congr 1
      simp only [parRoundF, List.map_map]
      apply List.map_congr_left
      intro s _
      rfl

theorem wStack_pos_of_topOK {p : List PAtom} (h : topOK p) : 0 < wStack p := by
  cases p with
  | nil => exact absurd h (by simp [topOK])
  | cons a rest => have := wAtom_pos a; simp only [wStack]; omega

theorem wTasks_pos_of_mem {ts : List Subtree} {t : Subtree} (ht : t ∈ ts) (h : 0 < wStack t.pending) :
    0 < wTasks ts := by
  induction ts with
  | nil => simp at ht
  | cons x xs ih =>
    simp only [wTasks]
    rcases List.mem_cons.1 ht with rfl | ht
    · omega
    · have := ih ht; omega

/-- **All rounds**: every owed position is covered by the included set of some chunk. -/
theorem parIncls_cover (eh : Bytes) (size threads : Nat) (root : HTrie) : ∀ (n fuel : Nat) (pending : List Subtree),
    AllOK pending → wTasks pending < n → wTasks pending < fuel →
    ∀ pos, Owed pending pos → ∃ incl ∈ parInclsF fuel eh size threads root n pending, Covered incl pos := by
  intro n
  induction n with
  | zero => intro fuel p _ hn; omega
  | succ n ih =>
    intro fuel p hok hn hf pos hpos
    simp only [parInclsF]
    split
    · next hemp =>
      obtain ⟨t, ht, _⟩ := hpos
      have : p = [] := by simpa using hemp
      subst this
      simp at ht
    · have hsplit := splitTasksN_cover threads 10 p hok
      have hsw := splitTasks_weight threads p
      obtain ⟨t, ht, hpt⟩ := hsplit.2 pos hpos
      have htok := hsplit.1 t ht
      obtain ⟨c1, c2, c3⟩ := nextChunk_cover fuel eh size root t htok.1 htok.2.1
      rcases c3 pos hpt with hc | hrem
      · exact ⟨_, List.mem_append_left _ (List.mem_map.2 ⟨t, ht, rfl⟩), hc⟩
      · -- the position stays owed by the continued task, which is kept by `filterFinished`
        have hne : (nextChunkF fuel eh size root t).2.pending ≠ [] := by
          intro he; rw [he] at hrem; simp [obStack] at hrem
        have hkept : (nextChunkF fuel eh size root t).2 ∈
            (parRoundF fuel eh size root (splitTasks threads p)).2 := by
          simp only [parRoundF, List.mem_filter, List.mem_map]
          refine ⟨⟨_, ⟨t, ht, rfl⟩, rfl⟩, ?_⟩
          cases hp : (nextChunkF fuel eh size root t).2.pending with
          | nil => exact absurd hp hne
          | cons a b => rfl
        have hallok : AllOK (parRoundF fuel eh size root (splitTasks threads p)).2 := by
          intro x hx
          simp only [parRoundF, List.mem_filter, List.mem_map] at hx
          obtain ⟨⟨y, ⟨u, hu, rfl⟩, rfl⟩, hxne⟩ := hx
          have huok := hsplit.1 u hu
          obtain ⟨d1, d2, _⟩ := nextChunk_cover fuel eh size root u huok.1 huok.2.1
          refine ⟨by rw [d1]; exact huok.1, d2, ?_⟩
          have htr := trim_topOK (nextChunkLoop size fuel u.pending
            (u.pending.reverse.foldl (fun b pa => b.includeH 0 pa.nd) (u.path.foldl (fun b n => b.includeH 0 n) {})) false).1
          rcases htr with htr | htr
          · exfalso
            have : (nextChunkF fuel eh size root u).2.pending = [] := htr
            rw [this] at hxne
            simp at hxne
          · exact htr
        have hwpos : 0 < wTasks (splitTasks threads p) :=
          wTasks_pos_of_mem ht (wStack_pos_of_topOK htok.2.2)
        have hprog := parRoundF_progress fuel (by omega) eh size root (splitTasks threads p) hwpos
        have howed : Owed (parRoundF fuel eh size root (splitTasks threads p)).2 pos := by
          refine ⟨_, hkept, ?_⟩
          simp only [obTask, c1, List.mem_append]
          right; exact hrem
        obtain ⟨incl, hi, hc⟩ := ih fuel _ hallok (by omega) (by omega) pos howed
        exact ⟨incl, List.mem_append_right _ hi, hc⟩

/-- **Cover, in terms of positions**: every node position of the tree is covered by the included set
of some chunk of the parallel chunker. -/
theorem par_positions_covered (eh : Bytes) (size threads : Nat) (root : HTrie) :
    ∀ pos ∈ subPos [] root, ∃ incl ∈ parInclsF (parFuel root) eh size threads root (parFuel root) [newSubtree root],
      Covered incl pos := by
  intro pos hpos
  have hnn : root ≠ .nil := by intro h; subst h; simp [subPos] at hpos
  have hok : AllOK [newSubtree root] := by
    intro t ht
    simp only [List.mem_singleton] at ht
    subst ht
    refine ⟨by intro a ha; simp [newSubtree] at ha, trivial, ?_⟩
    cases root with
    | nil => exact absurd rfl hnn
    | leaf h k v => simp [newSubtree, topOK, trim]
    | node h lab lf hlf l r => simp [newSubtree, topOK, trim]
  have hw := parFuel_enough root
  apply parIncls_cover eh size threads root _ _ _ hok hw hw pos
  refine ⟨_, List.mem_singleton.2 rfl, ?_⟩
  simp only [obTask, newSubtree, pathPos, List.nil_append, obStack, aboveAt, Bool.false_eq_true, if_false,
    List.append_nil, ancOf, List.map_nil, List.reverse_nil]
  cases root with
  | nil => exact absurd rfl hnn
  | leaf h k v => simpa [obAtom, subPos] using hpos
  | node h lab lf hlf l r => simpa [obAtom] using hpos

/-! ### from covered positions to imported node hashes -/

open OasisProofs.MkvsProof in
theorem hok_hash_erase {H : Bytes → Bytes} (t : HTrie) : HOK H t → hashWith H t.erase = t.hash (H []) := by
  induction t with
  | nil => intro _; rfl
  | leaf h k v => intro hok; simp only [HTrie.erase, hashWith, HTrie.hash, hok.1]
  | node h lab lf hlf l r ihl ihr =>
    intro hok
    obtain ⟨h1, h2, _, _, h5, h6⟩ := hok
    simp only [HTrie.erase, hashWith, HTrie.hash, ihl h5, ihr h6, h1, h2]

/-- The database hashes a position stands for: the node, and its own leaf if it has one. -/
def posHashes (p : Pos) : List Bytes :=
  match p.2 with
  | .nil => []
  | .leaf h _ _ => [h]
  | .node h _ lf hlf _ _ => h :: (match lf with
      | none => []
      | some _ => [hlf])

open OasisProofs.MkvsProof in
/-- Every node hash of the tree belongs to some position. -/
theorem nodeHashes_positions {H : Bytes → Bytes} (t : HTrie) : ∀ (anc : List HTrie), HOK H t →
    ∀ h ∈ Trie.nodeHashes H t.erase, ∃ pos ∈ subPos anc t, h ∈ posHashes pos := by
  induction t with
  | nil => intro anc _ h hh; simp [HTrie.erase, Trie.nodeHashes] at hh
  | leaf hc k v =>
    intro anc hok h hh
    simp only [HTrie.erase, Trie.nodeHashes, List.mem_singleton] at hh
    refine ⟨(anc, .leaf hc k v), by simp [subPos], ?_⟩
    simp [posHashes, hh, hok.1]
  | node hc lab lf hlf l r ihl ihr =>
    intro anc hok h hh
    have hroot := hok_hash_erase (HTrie.node hc lab lf hlf l r) hok
    obtain ⟨h1, h2, _, _, h5, h6⟩ := hok
    simp only [HTrie.erase, Trie.nodeHashes, List.mem_cons, List.mem_append] at hh
    rcases hh with hh | hh | hh | hh
    · refine ⟨(anc, .node hc lab lf hlf l r), by simp [subPos], ?_⟩
      simp only [HTrie.erase, HTrie.hash] at hroot
      simp [posHashes, hh, hroot]
    · refine ⟨(anc, .node hc lab lf hlf l r), by simp [subPos], ?_⟩
      rcases lf with _ | ⟨k, v⟩
      · simp at hh
      · simp only [List.mem_singleton] at hh
        simp [posHashes, hh, h2, hashLeafOpt]
    · obtain ⟨pos, hp, hph⟩ := ihl (anc ++ [.node hc lab lf hlf l r]) h5 h hh
      exact ⟨pos, by simp [subPos, hp], hph⟩
    · obtain ⟨pos, hp, hph⟩ := ihr (anc ++ [.node hc lab lf hlf l r]) h6 h hh
      exact ⟨pos, by simp [subPos, hp], hph⟩

theorem subPos_prefix (t : HTrie) : ∀ (anc : List HTrie) (pos : Pos), pos ∈ subPos anc t →
    ∃ suf, pos.1 = anc ++ suf := by
  induction t with
  | nil => intro anc pos h; simp [subPos] at h
  | leaf hc k v => intro anc pos h; simp only [subPos, List.mem_singleton] at h; exact ⟨[], by simp [h]⟩
  | node hc lab lf hlf l r ihl ihr =>
    intro anc pos h
    simp only [subPos, List.mem_cons, List.mem_append] at h
    rcases h with h | h | h
    · exact ⟨[], by simp [h]⟩
    · obtain ⟨suf, hs⟩ := ihl _ pos h
      exact ⟨HTrie.node hc lab lf hlf l r :: suf, by simp [hs]⟩
    · obtain ⟨suf, hs⟩ := ihr _ pos h
      exact ⟨HTrie.node hc lab lf hlf l r :: suf, by simp [hs]⟩

open OasisProofs.MkvsProof in
/-- A covered position is materialised by the chunk: its hashes are among the imported ones. -/
theorem covered_restrict {H : Bytes → Bytes} (incl : List Bytes) (t : HTrie) : ∀ (anc : List HTrie), HOK H t →
    ∀ pos ∈ subPos anc t, nh pos.2 ∈ incl → (∀ a ∈ pos.1.drop anc.length, nh a ∈ incl) →
      ∀ h ∈ posHashes pos, h ∈ (restrict 0 incl t).nodeHashes H := by
  induction t with
  | nil => intro anc _ pos hp; simp [subPos] at hp
  | leaf hc k v =>
    intro anc hok pos hp hn _ h hh
    simp only [subPos, List.mem_singleton] at hp
    subst hp
    simp only [nh] at hn
    simp only [posHashes, List.mem_singleton] at hh
    have hcont : incl.contains hc = true := by simpa using hn
    have he : hc = H (leafEnc k v) := hok.1
    subst hh
    simp only [restrict, hcont, if_true, PT.nodeHashes, List.mem_singleton]
    exact he
  | node hc lab lf hlf l r ihl ihr =>
    intro anc hok pos hp hn hanc h hh
    have hrh := restrict_hashOf (H := H) 0 incl (HTrie.node hc lab lf hlf l r) hok
    obtain ⟨h1, h2, _, _, h5, h6⟩ := hok
    simp only [subPos, List.mem_cons, List.mem_append] at hp
    have hmat : hc ∈ incl → ∀ x, (x = hc ∨ x ∈ (match lf with
          | none => []
          | some _ => [hlf]) ∨ x ∈ (restrict 0 incl l).nodeHashes H ∨ x ∈ (restrict 0 incl r).nodeHashes H) →
        x ∈ (restrict 0 incl (HTrie.node hc lab lf hlf l r)).nodeHashes H := by
      intro hin x hx
      have hc' : incl.contains hc = true := by simpa using hin
      simp only [restrict, hc', if_true, HTrie.hash] at hrh ⊢
      simp only [PT.nodeHashes, List.mem_cons, List.mem_append, hrh]
      rcases hx with hx | hx | hx | hx
      · left; exact hx
      · right; left
        rcases lf with _ | ⟨k, v⟩
        · simp at hx
        · simp only [List.mem_singleton] at hx
          simp [ofLeafOpt, PT.nodeHashes, hx, h2, hashLeafOpt]
      · right; right; left; exact hx
      · right; right; right; exact hx
    rcases hp with hp | hp | hp
    · subst hp
      simp only [nh] at hn
      apply hmat hn
      simp only [posHashes, List.mem_cons] at hh
      rcases hh with hh | hh
      · left; exact hh
      · right; left; exact hh
    · obtain ⟨suf, hs⟩ := subPos_prefix l _ pos hp
      have hself : hc ∈ incl := by
        have := hanc (HTrie.node hc lab lf hlf l r) (by rw [hs]; simp)
        simpa [nh] using this
      apply hmat hself
      right; right; left
      apply ihl (anc ++ [HTrie.node hc lab lf hlf l r]) h5 pos hp hn _ h hh
      intro a ha
      apply hanc a
      rw [hs] at ha ⊢
      simp only [List.length_append, List.length_cons, List.length_nil] at ha
      have e1 : List.drop (anc.length + (0 + 1)) (anc ++ [HTrie.node hc lab lf hlf l r] ++ suf) = suf := by
        rw [show anc.length + (0 + 1) = (anc ++ [HTrie.node hc lab lf hlf l r]).length by simp]
        exact List.drop_left
      rw [e1] at ha
      rw [List.append_assoc, List.drop_left]
      exact List.mem_append_right _ ha
    · obtain ⟨suf, hs⟩ := subPos_prefix r _ pos hp
      have hself : hc ∈ incl := by
        have := hanc (HTrie.node hc lab lf hlf l r) (by rw [hs]; simp)
        simpa [nh] using this
      apply hmat hself
      right; right; right
      apply ihr (anc ++ [HTrie.node hc lab lf hlf l r]) h6 pos hp hn _ h hh
      intro a ha
      apply hanc a
      rw [hs] at ha ⊢
      simp only [List.length_append, List.length_cons, List.length_nil] at ha
      have e1 : List.drop (anc.length + (0 + 1)) (anc ++ [HTrie.node hc lab lf hlf l r] ++ suf) = suf := by
        rw [show anc.length + (0 + 1) = (anc ++ [HTrie.node hc lab lf hlf l r]).length by simp]
        exact List.drop_left
      rw [e1] at ha
      rw [List.append_assoc, List.drop_left]
      exact List.mem_append_right _ ha

end OasisProofs.MkvsChunk
