import OasisModel.Scheduler.Elect
import OasisModel.Scheduler.Spec
import OasisProofs.Helpers.SchedulerValidators
import OasisProofs.Helpers.SchedulerCommittee
import OasisProofs.Helpers.SchedulerDiff
/-
Definitions used in the statements of the C14 theorems (the epoch-level views of the model) and the
lemmas that connect the loop/sort/pool lemmas to them.
-/
namespace OasisProofs.C14
open OasisModel.Scheduler OasisProofs.SchedulerH

/-- The validator candidates of an epoch: what `electValidators` keeps of the nodes that passed the
top-level filter. -/
def candidates (i : Inputs) : List Node :=
  validatorCandidates i.p i.st (i.all.filter (schedulable i.epoch))

/-- The pending validator set of the epoch in the model. -/
def validatorsOf (i : Inputs) (sh : Shuffles) : VResult :=
  electValidators i.p i.st sh (i.all.filter (schedulable i.epoch))

theorem electValidators_ok {p : Params} {st : Staking} {sh : Shuffles} {nodes : List Node} {m : VMap}
    {vis : List Node} (h : electValidators p st sh nodes = .ok m vis) :
    electLoop p st (electSeq p.maxPerEntity
        (sortedEntities p st sh.entities (entitiesOf (validatorCandidates p st nodes)))
        (sh.validators (validatorCandidates p st nodes))) [] = some (m, vis) ∧
    1 ≤ m.length ∧ p.minValidators ≤ (m.length : Int) := by
  unfold electValidators at h
  simp only at h
  split at h
  · simp at h
  · rename_i m' vis' hl
    split at h
    · simp at h
    · split at h
      · simp at h
      · rename_i h0 hmin
        simp at h
        obtain ⟨rfl, rfl⟩ := h
        exact ⟨hl, by omega, by omega⟩

theorem mem_candidates {i : Inputs} {n : Node} (h : n ∈ candidates i) :
    n ∈ i.all ∧ schedulable i.epoch n = true ∧ validatorOk i.p i.st n = true := by
  unfold candidates validatorCandidates at h
  have h1 := List.mem_filter.1 h
  have h2 := List.mem_filter.1 h1.1
  exact ⟨h2.1, h2.2, h1.2⟩

/-- The sorted entity list of the epoch. -/
def entityOrder (i : Inputs) (sh : Shuffles) : List Nat :=
  sortedEntities i.p i.st sh.entities (entitiesOf (candidates i))

/-- The visiting sequence of the epoch. -/
def visitSeq (i : Inputs) (sh : Shuffles) : List Node :=
  electSeq i.p.maxPerEntity (entityOrder i sh) (sh.validators (candidates i))

theorem ok_loop {i : Inputs} {sh : Shuffles} {m : VMap} {vis : List Node} (h : validatorsOf i sh = .ok m vis) :
    electLoop i.p i.st (visitSeq i sh) [] = some (m, vis) ∧ 1 ≤ m.length ∧
    i.p.minValidators ≤ (m.length : Int) := electValidators_ok h

/-- Facts that hold whenever the election succeeded: something was visited, so `MaxValidatorsPerEntity ≥ 1`. -/
theorem ok_facts {i : Inputs} {sh : Shuffles} {m : VMap} {vis : List Node} (h : validatorsOf i sh = .ok m vis) :
    vis ≠ [] ∧ (∃ rest, visitSeq i sh = vis ++ rest) ∧ 1 ≤ i.p.maxPerEntity := by
  have ⟨hl, hpos, _⟩ := ok_loop h
  have hne : vis ≠ [] := by
    intro hv
    have := (electLoop_nonempty _ _ _ _ _ _ hl).1 hv
    rw [this] at hpos; simp at hpos
  have hpre := electLoop_prefix _ _ _ _ _ _ hl
  refine ⟨hne, hpre, ?_⟩
  by_cases hk : 1 ≤ i.p.maxPerEntity
  · exact hk
  · exfalso
    obtain ⟨rest, hr⟩ := hpre
    have : visitSeq i sh = [] := electSeq_nil_of_nonpos (by omega) _ _
    rw [this] at hr
    cases vis with
    | nil => exact hne rfl
    | cons a as => simp at hr

theorem entityOrder_nodup (i : Inputs) (sh : Shuffles) (hE : ∀ l, (sh.entities l).Perm l) :
    (entityOrder i sh).Nodup :=
  (List.Perm.nodup_iff (sortedEntities_perm i.p i.st sh.entities hE _)).2 (nodup_dedupNat _)

/-- Which candidates the validator shuffle keeps: all of them, or (VRF order with enough proofs) those
with a VRF proof. -/
def keptByShuffle (i : Inputs) (n : Node) : Bool := !vrfValidatorShuffle i || n.hasPi

theorem shuffled_consensus_nodup (i : Inputs) (sh : Shuffles)
    (hV : (sh.validators (candidates i)).Perm ((candidates i).filter (keptByShuffle i)))
    (hkeys : (i.all.map (·.consensus)).Nodup) :
    ((sh.validators (candidates i)).map (·.consensus)).Nodup := by
  have hsub : ((candidates i).filter (keptByShuffle i)).Sublist i.all := by
    unfold candidates validatorCandidates
    exact List.filter_sublist.trans (List.filter_sublist.trans List.filter_sublist)
  have h1 : (((candidates i).filter (keptByShuffle i)).map (·.consensus)).Nodup :=
    List.Nodup.sublist (hsub.map _) hkeys
  exact (List.Perm.nodup_iff (hV.map _)).2 h1

/-- The pool a role of a runtime is elected from in this epoch. -/
def poolOf (i : Inputs) (ve : List Nat) (rt : Runtime) (role : Role) : List Node :=
  rolePool i.p i.st i.epoch rt ve role (committeeNodes i.p i.epoch i.all)

theorem committeeNodes_eq (i : Inputs) :
    committeeNodes i.p i.epoch i.all = i.all.filter (committeeCandidate i) := by
  unfold committeeNodes committeeCandidate
  rw [List.filter_filter]
  apply List.filter_congr
  intro x _
  exact Bool.and_comm _ _

theorem mem_poolOf {i : Inputs} {ve : List Nat} {rt : Runtime} {role : Role} {n : Node}
    (h : n ∈ poolOf i ve rt role) :
    n ∈ i.all ∧ committeeCandidate i n = true ∧ baseEligible i.p i.st i.epoch rt n = true ∧
      roleEligible rt ve role n = true := by
  unfold poolOf rolePool at h
  rw [committeeNodes_eq] at h
  have h1 := List.mem_filter.1 h
  have h2 := List.mem_filter.1 h1.1
  simp only [Bool.and_eq_true] at h1
  exact ⟨h2.1, h2.2, h1.2.1, h1.2.2⟩

theorem poolSize_eq (i : Inputs) (sh : Shuffles) (ve : List Nat) (rt : Runtime) (role : Role)
    (hD : ∀ l, (sh.dedup rt.id role l).Perm l) :
    (dedupPool sh rt role (poolOf i ve rt role)).length = poolSize i ve rt role := by
  have hpool : poolOf i ve rt role = (i.all.filter (committeeCandidate i)).filter
      (fun n => baseEligible i.p i.st i.epoch rt n && roleEligible rt ve role n) := by
    unfold poolOf rolePool; rw [committeeNodes_eq]
  unfold poolSize dedupPool
  simp only [← hpool]
  cases hm : (rt.cs role).maxNodes with
  | none => rfl
  | some lim =>
    by_cases hl : lim > 0
    · simp only [hl, if_true]
      exact dedupTrivial_length _ _ _ (hD _)
    · simp only [hl, if_false]

/-- What a successfully elected role looks like: exact size, pairwise distinct nodes, per-entity limit,
every member passed every filter, pool at least `MinPoolSize`. -/
theorem roleOk_of_electRole (i : Inputs) (sh : Shuffles) (ve : List Nat) (rt : Runtime) (role : Role)
    (el : List Node)
    (hD : ∀ l, (sh.dedup rt.id role l).Perm l) (hC : ∀ l, (sh.committee rt.id role l).Perm l)
    (hids : (i.all.map (·.id)).Nodup)
    (h : electRole sh rt role (poolOf i ve rt role) = some el) :
    roleLimitsOk rt role el = true ∧ el.all (fun n => memberOk i ve rt role n.id) = true ∧
      (rt.cs role).minPoolSize.getD 0 ≤ poolSize i ve rt role := by
  obtain ⟨hmin, hlen, ⟨rest, hpre⟩, hcnt⟩ := electRole_some h
  -- members come from the pool
  have hsubpool : ∀ n ∈ el, n ∈ poolOf i ve rt role := by
    intro n hn
    have h1 : n ∈ sh.committee rt.id role (dedupPool sh rt role (poolOf i ve rt role)) := by
      rw [hpre]; exact List.mem_append_left _ hn
    have h2 := (hC _).mem_iff.1 h1
    exact mem_dedupPool (fun l x hx => (hD l).mem_iff.1 hx) h2
  -- and are pairwise distinct
  have hnodup : (el.map (·.id)).Nodup := by
    obtain ⟨l', hl', hsub⟩ := dedupPool_subperm sh rt role (poolOf i ve rt role) hD
    have hpoolsub : (poolOf i ve rt role).Sublist i.all := by
      unfold poolOf rolePool committeeNodes
      exact List.filter_sublist.trans (List.filter_sublist.trans List.filter_sublist)
    have h1 : ((poolOf i ve rt role).map (·.id)).Nodup := List.Nodup.sublist (hpoolsub.map _) hids
    have h2 : (l'.map (·.id)).Nodup := (List.Perm.nodup_iff (hl'.map _)).2 h1
    have h3 : ((dedupPool sh rt role (poolOf i ve rt role)).map (·.id)).Nodup :=
      List.Nodup.sublist (hsub.map _) h2
    have h4 : ((sh.committee rt.id role (dedupPool sh rt role (poolOf i ve rt role))).map (·.id)).Nodup :=
      (List.Perm.nodup_iff ((hC _).map _)).2 h3
    rw [hpre] at h4
    exact List.Nodup.sublist ((List.sublist_append_left el rest).map _) h4
  refine ⟨?_, ?_, ?_⟩
  · unfold roleLimitsOk idsDistinct
    simp only [Bool.and_eq_true, beq_iff_eq, List.all_eq_true]
    refine ⟨⟨hlen, fun n hn => all_count_one (fun n : Node => n.id) el hnodup n hn⟩, ?_⟩
    split
    · trivial
    · rename_i lim hlim
      rw [List.all_eq_true]
      intro n _
      simpa using hcnt lim hlim n.entity
  · rw [List.all_eq_true]
    intro n hn
    have ⟨hall, hcand, hbase, hrole⟩ := mem_poolOf (hsubpool n hn)
    unfold memberOk
    rw [List.any_eq_true]
    exact ⟨n, hall, by simp [hcand, hbase, hrole]⟩
  · rw [← poolSize_eq i sh ve rt role hD]; exact hmin

theorem membersOf_append (role : Role) (a b : List (Role × Node)) :
    membersOf role (a ++ b) = membersOf role a ++ membersOf role b := by
  simp [membersOf]

theorem membersOf_tag_same (role : Role) (l : List Node) :
    membersOf role (l.map (fun n => (role, n))) = l := by
  induction l with
  | nil => simp [membersOf]
  | cons a as ih => simp only [membersOf, List.map_cons, List.filter_cons] at ih ⊢; simp [ih]

theorem membersOf_tag_other (role role' : Role) (hne : role' ≠ role) (l : List Node) :
    membersOf role (l.map (fun n => (role', n))) = [] := by
  induction l with
  | nil => simp [membersOf]
  | cons a as ih => simp only [membersOf, List.map_cons, List.filter_cons] at ih ⊢; simp [hne, ih]

def removals (cur new : VMap) : List Update :=
  (cur.filter (fun kv => (new.lookup kv.1).isNone)).map (fun kv => (kv.1, (0 : Int)))

def upserts (cur new : VMap) : List Update :=
  (new.filter (fun kv => powerIn cur kv.1 != some kv.2.power)).map (fun kv => (kv.1, kv.2.power))

theorem diff_eq (cur new : VMap) : diffValidators cur new = removals cur new ++ upserts cur new := rfl

theorem mem_removals {cur new : VMap} {u : Update} (h : u ∈ removals cur new) :
    u.2 = 0 ∧ u.1 ∈ keysOf cur ∧ new.lookup u.1 = none := by
  unfold removals at h
  obtain ⟨kv, hkv, rfl⟩ := List.mem_map.1 h
  have := List.mem_filter.1 hkv
  exact ⟨rfl, List.mem_map.2 ⟨kv, this.1, rfl⟩, by simpa using this.2⟩

theorem mem_upserts {cur new : VMap} {u : Update} (h : u ∈ upserts cur new) :
    ∃ v, (u.1, v) ∈ new ∧ u.2 = v.power ∧ powerIn cur u.1 ≠ some v.power := by
  unfold upserts at h
  obtain ⟨kv, hkv, rfl⟩ := List.mem_map.1 h
  have := List.mem_filter.1 hkv
  exact ⟨kv.2, this.1, rfl, by simpa using this.2⟩

theorem update_keys_nodup (cur new : VMap) (hc : (keysOf cur).Nodup) (hn : (keysOf new).Nodup) :
    ((diffValidators cur new).map (·.1)).Nodup := by
  rw [diff_eq, List.map_append, List.nodup_append]
  refine ⟨?_, ?_, ?_⟩
  · have : ((removals cur new).map (·.1)) = (cur.filter (fun kv => (new.lookup kv.1).isNone)).map (·.1) := by
      unfold removals; rw [List.map_map]; rfl
    rw [this]
    exact List.Nodup.sublist (List.filter_sublist.map _) hc
  · have : ((upserts cur new).map (·.1)) = (new.filter (fun kv => powerIn cur kv.1 != some kv.2.power)).map (·.1) := by
      unfold upserts; rw [List.map_map]; rfl
    rw [this]
    exact List.Nodup.sublist (List.filter_sublist.map _) hn
  · intro a ha b hb hab
    obtain ⟨u, hu, rfl⟩ := List.mem_map.1 ha
    obtain ⟨u', hu', rfl⟩ := List.mem_map.1 hb
    have h1 := (mem_removals hu).2.2
    obtain ⟨v, hv, _, _⟩ := mem_upserts hu'
    rw [hab] at h1
    have := (lookup_none_iff new u'.1).1 h1
    exact this (List.mem_map.2 ⟨(u'.1, v), hv, rfl⟩)

/-- After the updates the consensus engine sees exactly the new set. -/
theorem diff_lookup (cur new : VMap) (hc : (keysOf cur).Nodup) (hn : (keysOf new).Nodup)
    (hp : ∀ kv ∈ new, kv.2.power ≠ 0) (j : Nat) :
    (applyUpdates (toPMap cur) (diffValidators cur new)).lookup j = (toPMap new).lookup j := by
  have hnd := update_keys_nodup cur new hc hn
  rw [diff_eq, List.map_append, List.nodup_append] at hnd
  rw [lookup_applyUpdates, diff_eq, List.foldl_append, lookup_toPMap]
  by_cases hU : j ∈ (upserts cur new).map (·.1)
  · obtain ⟨u, hu, rfl⟩ := List.mem_map.1 hU
    obtain ⟨v, hv, hpw, _⟩ := mem_upserts hu
    rw [foldl_updF_mem _ _ u.1 u.2 hnd.2.1 hu]
    have hne : u.2 ≠ 0 := hpw ▸ hp _ hv
    have hl := lookup_of_mem_nodup new u.1 v hn hv
    have hne' : v.power ≠ 0 := hp _ hv
    simp [powerIn, hl, hpw, hne']
  · rw [foldl_updF_not_mem _ _ _ hU]
    by_cases hR : j ∈ (removals cur new).map (·.1)
    · obtain ⟨u, hu, rfl⟩ := List.mem_map.1 hR
      have ⟨h0, _, hnone⟩ := mem_removals hu
      have hu' : (u.1, (0 : Int)) ∈ removals cur new := by rw [← h0]; exact hu
      rw [foldl_updF_mem _ _ u.1 0 hnd.1 hu']
      simp [powerIn, hnone]
    · rw [foldl_updF_not_mem _ _ _ hR, lookup_toPMap]
      cases hl : new.lookup j with
      | some v =>
        have hv := mem_of_lookup new j v hl
        -- the entry of `j` was not an upsert: its power is unchanged
        have : ¬ (powerIn cur j != some v.power) = true := by
          intro hcond
          apply hU
          unfold upserts
          rw [List.map_map]
          exact List.mem_map.2 ⟨(j, v), List.mem_filter.2 ⟨hv, hcond⟩, rfl⟩
        have heq : powerIn cur j = some v.power := by simpa using this
        simp [powerIn, hl] at heq ⊢
        exact heq
      | none =>
        -- `j` is not a current validator, otherwise it would have been removed
        have : cur.lookup j = none := by
          cases hcl : cur.lookup j with
          | none => rfl
          | some w =>
            exfalso
            apply hR
            unfold removals
            rw [List.map_map]
            exact List.mem_map.2 ⟨(j, w), List.mem_filter.2 ⟨mem_of_lookup cur j w hcl, by simp [hl]⟩, rfl⟩
        simp [powerIn, this, hl]

theorem roleEligible_congr (rt : Runtime) (ve ve' : List Nat) (h : ∀ e, e ∈ ve ↔ e ∈ ve') (role : Role) (n : Node) :
    roleEligible rt ve role n = roleEligible rt ve' role n := by
  unfold roleEligible
  have : ve.contains n.entity = ve'.contains n.entity := by
    rw [Bool.eq_iff_iff]; simp [h]
  rw [this]

theorem committeeResultOk_congr (i : Inputs) (rt : Runtime) (ve ve' : List Nat) (h : ∀ e, e ∈ ve ↔ e ∈ ve')
    (r : CResult) : committeeResultOk i ve rt r = committeeResultOk i ve' rt r := by
  have hfun : roleEligible rt ve = roleEligible rt ve' := by
    funext role n; exact roleEligible_congr rt ve ve' h role n
  cases r with
  | unchanged => rfl
  | dropped => rfl
  | elected ms =>
    unfold committeeResultOk committeeOk roleOk memberOk poolSize
    rw [hfun]

/-- With distinct consensus keys the entities of the pending validators are exactly the visited ones
(the `validatorEntities` set the committee elections use). -/
theorem validatorEntities_eq (i : Inputs) (sh : Shuffles) (m : VMap) (vis : List Node)
    (hE : ∀ l, (sh.entities l).Perm l)
    (hV : (sh.validators (candidates i)).Perm ((candidates i).filter (keptByShuffle i)))
    (hkeys : (i.all.map (·.consensus)).Nodup)
    (h : validatorsOf i sh = .ok m vis) :
    ∀ e, e ∈ vis.map (·.entity) ↔ e ∈ validatorEntitiesOf m := by
  have ⟨hl, _, _⟩ := ok_loop h
  have hnd : (keysOf ([] : VMap) ++ (visitSeq i sh).map (·.consensus)).Nodup := by
    simp only [keysOf, List.map_nil, List.nil_append]
    exact electSeq_consensus_nodup _ _ (shuffled_consensus_nodup i sh hV hkeys) _ (entityOrder_nodup i sh hE)
  intro e
  unfold validatorEntitiesOf
  constructor
  · intro he
    obtain ⟨n, hn, rfl⟩ := List.mem_map.1 he
    obtain ⟨pw, _, hmem⟩ := electLoop_distinct _ _ _ _ _ _ hl hnd n hn
    exact List.mem_map.2 ⟨_, hmem, rfl⟩
  · intro he
    obtain ⟨kv, hkv, rfl⟩ := List.mem_map.1 he
    rcases electLoop_entries _ _ _ _ _ _ hl kv hkv with h0 | ⟨n, hn, pw, _, rfl⟩
    · simp at h0
    · exact List.mem_map.2 ⟨n, hn, rfl⟩

theorem range_filterMap_get {α : Type} : ∀ (l : List α),
    (List.range l.length).filterMap (fun i => l[i]?) = l := by
  intro l
  induction l with
  | nil => simp
  | cons a l ih =>
    rw [List.length_cons, List.range_succ_eq_map, List.filterMap_cons]
    simp only [List.getElem?_cons_zero, List.filterMap_map]
    congr 1

end OasisProofs.C14
