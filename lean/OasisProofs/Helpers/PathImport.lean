import OasisModel.NodeDB.PathImport
import OasisModel.NodeDB.PathImportView
import OasisProofs.Helpers.MkvsProofSound
/-
Helper lemmas for `OasisProofs.Props.C12PathImport` (pathbadger chunk import).

  * store algebra: `commit` = later write wins, reads outside the written keys are unchanged;
  * `Rz s ptr U F`: the store REALISES the partial tree `U` under the stored pointer `ptr` with
    footprint `F` (the positions owned by `U`: one per non-nil pointer, materialised or not; pairwise
    different; a hash-only pointer owns a position WITHOUT a record) — the invariant of the restore;
  * `imp_spec`: one walk of `imp` from a realised state realises the union, touches only the footprint
    and fresh indices;
  * consequences of `Rz`: `Reach` ↔ `nodes`, `readBack` = the tree;
  * the order `Le` / `join` on views of one tree.
-/
namespace OasisProofs.PathImportH
open OasisModel.NodeDB.PathImport

variable {H : Type}

/-! ### the store -/

def keys (w : List (Nat × Rec H)) : List Nat := w.map Prod.fst

@[simp] theorem keys_nil : keys ([] : List (Nat × Rec H)) = [] := rfl
@[simp] theorem keys_cons (a : Nat × Rec H) (w : List (Nat × Rec H)) : keys (a :: w) = a.1 :: keys w := rfl
@[simp] theorem keys_append (a b : List (Nat × Rec H)) : keys (a ++ b) = keys a ++ keys b := by
  simp [keys]
@[simp] theorem mem_keys_reverse (a : List (Nat × Rec H)) (x : Nat) : x ∈ keys a.reverse ↔ x ∈ keys a := by
  simp [keys]

theorem commit_eq (old : Store H) (w : List (Nat × Rec H)) : commit old w = w.reverse ++ old := by
  unfold commit
  induction w generalizing old with
  | nil => rfl
  | cons a w ih => simp [List.foldl_cons, ih]

theorem sget_append (a b : Store H) (x : Nat) : sget (a ++ b) x = (sget a x).or (sget b x) := by
  induction a with
  | nil => simp [sget]
  | cons kv a ih =>
    obtain ⟨k, v⟩ := kv
    by_cases hk : k = x
    · simp [sget, hk]
    · simp [sget, hk, ih]

theorem sget_none_of_not_mem (a : Store H) (x : Nat) (hx : x ∉ keys a) : sget a x = none := by
  induction a with
  | nil => rfl
  | cons kv a ih =>
    obtain ⟨k, v⟩ := kv
    simp only [keys_cons, List.mem_cons, not_or] at hx
    have : k ≠ x := fun e => hx.1 e.symm
    simp [sget, this, ih hx.2]

theorem sget_commit_not_mem (old : Store H) (w : List (Nat × Rec H)) (x : Nat) (hx : x ∉ keys w) :
    sget (commit old w) x = sget old x := by
  rw [commit_eq, sget_append, sget_none_of_not_mem _ _ (by simpa using hx)]
  simp

theorem sget_commit_nil (old : Store H) (x : Nat) : sget (commit old []) x = sget old x := rfl

/-- Reads of a position written only by the middle part of a batch see the middle part. -/
theorem sget_commit_mid (old : Store H) (a b c : List (Nat × Rec H)) (x : Nat)
    (ha : x ∉ keys a) (hc : x ∉ keys c) :
    sget (commit old (a ++ (b ++ c))) x = sget (commit old b) x := by
  rw [commit_eq, commit_eq]
  simp only [List.reverse_append, List.append_assoc, sget_append]
  rw [sget_none_of_not_mem c.reverse x (by simpa using hc), sget_none_of_not_mem a.reverse x (by simpa using ha)]
  simp

theorem sget_commit_snoc (old : Store H) (w : List (Nat × Rec H)) (p : Nat) (v : Rec H) :
    sget (commit old (w ++ [(p, v)])) p = some v := by
  rw [commit_eq]
  simp [sget]

/-! ### the invariant: the store realises a partial tree -/

/-- `Rz s ptr U F`. -/
inductive Rz (s : Store H) : Option (H × Nat) → PTree H → List Nat → Prop where
  | nil : Rz s none .nil []
  | stub {h : H} {p : Nat} : sget s p = none → Rz s (some (h, p)) (.stub h) [p]
  | node {h : H} {p : Nat} {lf : Option H} {cl cr : Option (H × Nat)} {l r : PTree H} {Fl Fr : List Nat} :
      sget s p = some ⟨h, lf, cl, cr⟩ → Rz s cl l Fl → Rz s cr r Fr →
      p ∉ Fl → p ∉ Fr → (∀ x ∈ Fl, x ∉ Fr) →
      Rz s (some (h, p)) (.node h lf l r) (p :: (Fl ++ Fr))

theorem Rz.frame {s s' : Store H} {ptr : Option (H × Nat)} {U : PTree H} {F : List Nat}
    (h : Rz s ptr U F) (hs : ∀ x ∈ F, sget s' x = sget s x) : Rz s' ptr U F := by
  induction h with
  | nil => exact .nil
  | stub hp => exact .stub (by rw [hs _ (by simp)]; exact hp)
  | node hp _ _ h1 h2 h3 ihl ihr =>
    refine .node (by rw [hs _ (by simp)]; exact hp) (ihl ?_) (ihr ?_) h1 h2 h3
    · intro x hx; exact hs x (by simp [hx])
    · intro x hx; exact hs x (by simp [hx])

theorem Rz.ptr_hash {s : Store H} {ptr : Option (H × Nat)} {U : PTree H} {F : List Nat}
    (h : Rz s ptr U F) : ptr.map Prod.fst = U.hash? := by
  cases h <;> rfl

/-- Realisation of a node from the realisations of its children after one batch. -/
theorem assemble {old : Store H} {p last last2 l3 l4 : Nat} {h : H} {lf : Option H}
    {wlf wl wr : List (Nat × Rec H)} {pl pr : Option (H × Nat)} {Jl Jr : PTree H}
    {Fl Fr Fl' Fr' : List Nat}
    (hp : p ≤ last) (hpl : p ∉ Fl) (hpr : p ∉ Fr) (hdis : ∀ x ∈ Fl, x ∉ Fr)
    (hbl : ∀ x ∈ Fl, x ≤ last) (hbr : ∀ x ∈ Fr, x ≤ last)
    (h12 : last ≤ last2) (hwlf : ∀ x ∈ keys wlf, last < x ∧ x ≤ last2)
    (h23 : last2 ≤ l3) (hwl : ∀ x ∈ keys wl, x ∈ Fl ∨ (last2 < x ∧ x ≤ l3))
    (hRl : Rz (commit old wl) pl Jl Fl') (hgl : ∀ x ∈ Fl', x ∈ Fl ∨ (last2 < x ∧ x ≤ l3))
    (_h34 : l3 ≤ l4) (hwr : ∀ x ∈ keys wr, x ∈ Fr ∨ (l3 < x ∧ x ≤ l4))
    (hRr : Rz (commit old wr) pr Jr Fr') (hgr : ∀ x ∈ Fr', x ∈ Fr ∨ (l3 < x ∧ x ≤ l4)) :
    Rz (commit old (wlf ++ (wl ++ (wr ++ [(p, ⟨h, lf, pl, pr⟩)])))) (some (h, p)) (.node h lf Jl Jr)
      (p :: (Fl' ++ Fr')) := by
  have hpl' : p ∉ Fl' := by
    intro hx
    rcases hgl p hx with h1 | h1
    · exact hpl h1
    · omega
  have hpr' : p ∉ Fr' := by
    intro hx
    rcases hgr p hx with h1 | h1
    · exact hpr h1
    · omega
  refine .node ?_ (hRl.frame ?_) (hRr.frame ?_) hpl' hpr' ?_
  · have : wlf ++ (wl ++ (wr ++ [(p, (⟨h, lf, pl, pr⟩ : Rec H))])) = (wlf ++ (wl ++ wr)) ++ [(p, ⟨h, lf, pl, pr⟩)] := by
      simp
    rw [this, sget_commit_snoc]
  · intro x hx
    apply sget_commit_mid
    · intro hk
      have := hwlf x hk
      rcases hgl x hx with h1 | h1
      · have := hbl x h1; omega
      · omega
    · intro hk
      simp only [keys_append, keys_cons, keys_nil, List.mem_append, List.mem_singleton] at hk
      rcases hk with hk | hk
      · rcases hwr x hk with h2 | h2 <;> rcases hgl x hx with h1 | h1
        · exact hdis x h1 h2
        · have := hbr x h2; omega
        · have := hbl x h1; omega
        · omega
      · subst hk; exact hpl' hx
  · intro x hx
    have e : wlf ++ (wl ++ (wr ++ [(p, (⟨h, lf, pl, pr⟩ : Rec H))])) = (wlf ++ wl) ++ (wr ++ [(p, ⟨h, lf, pl, pr⟩)]) := by
      simp
    rw [e]
    apply sget_commit_mid
    · intro hk
      simp only [keys_append, List.mem_append] at hk
      rcases hk with hk | hk
      · have := hwlf x hk
        rcases hgr x hx with h1 | h1
        · have := hbr x h1; omega
        · omega
      · rcases hwl x hk with h2 | h2 <;> rcases hgr x hx with h1 | h1
        · exact hdis x h2 h1
        · have := hbl x h2; omega
        · have := hbr x h1; omega
        · omega
    · intro hk
      simp only [keys_cons, keys_nil, List.mem_singleton] at hk
      subst hk; exact hpr' hx
  · intro x h1 h2
    rcases hgl x h1 with a | a <;> rcases hgr x h2 with b | b
    · exact hdis x a b
    · have := hbl x a; omega
    · have := hbr x b; omega
    · omega

/-! ### views -/

section
variable [DecidableEq H]
set_option linter.unusedSectionVars false

theorem le_hash_eq {c t : PTree H} (h : Le c t) : c.hash? = t.hash? := by
  cases c <;> cases t <;> simp_all [Le, leB, PTree.hash?, PTree.isNil]

theorem le_nil_left {t : PTree H} (h : Le .nil t) : t = .nil := by
  cases t <;> simp_all [Le, leB, PTree.isNil]

theorem le_nil_right {c : PTree H} (h : Le c .nil) : c = .nil := by
  cases c <;> simp_all [Le, leB, PTree.isNil, PTree.hash?]

theorem le_node_inv {h : H} {lf : Option H} {l r t : PTree H} (hc : Le (.node h lf l r) t) :
    ∃ tl tr, t = .node h lf tl tr ∧ Le l tl ∧ Le r tr := by
  cases t with
  | nil => simp [Le, leB] at hc
  | stub _ => simp [Le, leB] at hc
  | node h' lf' tl tr =>
    simp only [Le, leB, Bool.and_eq_true, decide_eq_true_eq] at hc
    obtain ⟨⟨⟨rfl, rfl⟩, h1⟩, h2⟩ := hc
    exact ⟨tl, tr, rfl, h1, h2⟩

theorem le_node_right {u : PTree H} {h : H} {lf : Option H} {tl tr : PTree H}
    (hu : Le u (.node h lf tl tr)) :
    u = .stub h ∨ ∃ ul ur, u = .node h lf ul ur ∧ Le ul tl ∧ Le ur tr := by
  cases u with
  | nil => simp [Le, leB, PTree.isNil] at hu
  | stub h' =>
    simp only [Le, leB, PTree.hash?, decide_eq_true_eq, Option.some.injEq] at hu
    exact .inl (by rw [hu])
  | node h' lf' ul ur =>
    obtain ⟨tl', tr', e, h1, h2⟩ := le_node_inv hu
    cases e
    exact .inr ⟨ul, ur, rfl, h1, h2⟩

theorem le_stub_iff {h : H} {t : PTree H} : Le (.stub h) t ↔ t.hash? = some h := by
  simp [Le, leB]

theorem le_refl (t : PTree H) : Le t t := by
  induction t with
  | nil => simp [Le, leB, PTree.isNil]
  | stub h => simp [Le, leB, PTree.hash?]
  | node h lf l r ihl ihr =>
    simp only [Le] at ihl ihr
    simp [Le, leB, ihl, ihr]

theorem asStub_le {c t : PTree H} (h : Le c t) : Le c.asStub t := by
  cases c with
  | nil => exact h
  | stub _ => exact h
  | node h' lf l r =>
    obtain ⟨tl, tr, rfl, _, _⟩ := le_node_inv h
    simp [PTree.asStub, Le, leB, PTree.hash?]

theorem join_asStub (c : PTree H) : join c.asStub c = c := by
  cases c <;> simp [PTree.asStub, join]

theorem slotPos_eq {cl : Option (H × Nat)} {l : PTree H} (h : cl.map Prod.fst = l.hash?) :
    slotPos cl l = cl.map Prod.snd := by
  cases cl with
  | none => simp [slotPos]
  | some a =>
    obtain ⟨eh, q⟩ := a
    simp only [Option.map_some] at h
    simp [slotPos, ← h]

theorem mkChild_eq {ptr : Option (H × Nat)} {c : PTree H} (h : ptr.map Prod.fst = c.hash?) :
    mkChild c (ptr.map Prod.snd) = ptr := by
  cases ptr with
  | none =>
    simp only [Option.map_none] at h
    simp [mkChild, ← h]
  | some a =>
    obtain ⟨eh, q⟩ := a
    simp only [Option.map_some] at h
    simp [mkChild, ← h]

theorem imp_none (old : Store H) (brk : Bool) (c : PTree H) (last : Nat) (hc : c ≠ .nil) :
    imp old brk c none last = imp old brk c (some (last + 1)) (last + 1) := by
  cases c with
  | nil => exact absurd rfl hc
  | stub _ => rfl
  | node _ _ _ _ => rfl

theorem leafWrites_keys (lf : Option H) (b : Bool) (last : Nat) :
    ∀ x ∈ keys (leafWrites lf b last), last < x ∧ x ≤ last + (leafWrites lf b last).length := by
  intro x hx
  cases lf with
  | none => simp [leafWrites] at hx
  | some hl =>
    cases b with
    | true => simp [leafWrites] at hx
    | false =>
      simp only [leafWrites, Bool.false_eq_true, if_false, keys_cons, keys_nil, List.mem_singleton] at hx
      subst hx
      simp [leafWrites]

/-! ### one walk -/

def StoreBelow (s : Store H) (n : Nat) : Prop := ∀ x, n < x → sget s x = none

/-- What a walk establishes: `last` only grows, the batch writes only to the footprint or to fresh
indices, the committed store realises `J` under `ptr` with a footprint grown only by fresh indices. -/
structure Post (old : Store H) (ptr : Option (H × Nat)) (J : PTree H) (F : List Nat) (last : Nat)
    (r : Res H) : Prop where
  mono : last ≤ r.last
  wkeys : ∀ x ∈ keys r.writes, x ∈ F ∨ (last < x ∧ x ≤ r.last)
  rz : ∃ F', Rz (commit old r.writes) ptr J F' ∧ (∀ x ∈ F, x ∈ F') ∧
        (∀ x ∈ F', x ∈ F ∨ (last < x ∧ x ≤ r.last))

/-- The statement proved by induction on the chunk: walking `c` with the position of a realised view
`U` of the same tree `T`. -/
def P (old : Store H) (c : PTree H) : Prop :=
  ∀ (T U : PTree H) (ptr : Option (H × Nat)) (F : List Nat) (last : Nat),
    Le c T → Le U T → Rz old ptr U F → (∀ x ∈ F, x ≤ last) → StoreBelow old last →
    (imp old false c (ptr.map Prod.snd) last).pos = ptr.map Prod.snd ∧
    Post old ptr (join U c) F last (imp old false c (ptr.map Prod.snd) last)

/-- How a child pointer is entered: with the position of a realised view, or without a position
(the parent had no record, or no such child recorded). -/
def ChildPre (old : Store H) (c T U : PTree H) (ptr : Option (H × Nat)) (F : List Nat)
    (inh : Option Nat) : Prop :=
  (Rz old ptr U F ∧ Le U T ∧ inh = ptr.map Prod.snd) ∨ (inh = none ∧ F = [] ∧ U = c.asStub)

def Q (old : Store H) (c : PTree H) : Prop :=
  ∀ (T U : PTree H) (ptr : Option (H × Nat)) (F : List Nat) (inh : Option Nat) (last : Nat),
    Le c T → (∀ x ∈ F, x ≤ last) → StoreBelow old last → ChildPre old c T U ptr F inh →
    Post old (mkChild c (imp old false c inh last).pos) (join U c) F last (imp old false c inh last)

theorem Q_of_P {old : Store H} {c : PTree H} (hP : P old c) : Q old c := by
  intro T U ptr F inh last hc hF hS hpre
  rcases hpre with ⟨hR, hU, rfl⟩ | ⟨rfl, rfl, rfl⟩
  · obtain ⟨hpos, post⟩ := hP T U ptr F last hc hU hR hF hS
    rw [hpos, mkChild_eq (by rw [hR.ptr_hash, le_hash_eq hU, le_hash_eq hc])]
    exact post
  · by_cases hn : c = .nil
    · subst hn
      exact ⟨Nat.le_refl _, by simp [imp], ⟨[], by simpa [imp, mkChild, PTree.hash?, join, PTree.asStub] using Rz.nil,
        by simp, by simp⟩⟩
    · obtain ⟨h, hh⟩ : ∃ h, c.hash? = some h := by
        cases c with
        | nil => exact absurd rfl hn
        | stub h => exact ⟨h, rfl⟩
        | node h _ _ _ => exact ⟨h, rfl⟩
      have hSt : Le (.stub h) T := le_stub_iff.2 (by rw [← le_hash_eq hc, hh])
      have hR : Rz old (some (h, last + 1)) (.stub h) [last + 1] := .stub (hS _ (Nat.lt_succ_self _))
      obtain ⟨hpos, post⟩ := hP T (.stub h) (some (h, last + 1)) [last + 1] (last + 1) hc hSt hR
        (by simp) (fun x hx => hS x (by omega))
      simp only [Option.map_some] at hpos post
      rw [imp_none old false c last hn, hpos]
      have e1 : mkChild c (some (last + 1)) = some (h, last + 1) := by simp [mkChild, hh]
      have e2 : join c.asStub c = join (.stub h) c := by
        cases c <;> simp_all [PTree.asStub, PTree.hash?]
      rw [e1, e2]
      obtain ⟨m, wk, F', hRz, hsub, hgrow⟩ := post
      refine ⟨by omega, ?_, F', hRz, by simp, ?_⟩
      · intro x hx
        rcases wk x hx with h1 | h1
        · simp only [List.mem_singleton] at h1; right; omega
        · right; omega
      · intro x hx
        rcases hgrow x hx with h1 | h1
        · simp only [List.mem_singleton] at h1; right; omega
        · right; omega

theorem post_noop {old : Store H} {ptr : Option (H × Nat)} {U : PTree H} {F : List Nat} (last : Nat)
    (pos : Option Nat) (hR : Rz old ptr U F) : Post old ptr U F last ⟨pos, last, []⟩ :=
  ⟨Nat.le_refl _, by simp, F, hR, fun _ h => h, fun _ h => .inl h⟩

/-- The walk below a materialised node, from the statements for the two children. -/
theorem node_step {old : Store H} {l r : PTree H} (hQl : Q old l) (hQr : Q old r)
    {Tl Tr Ul Ur : PTree H} {cl cr : Option (H × Nat)} {Fl Fr : List Nat} {p last : Nat}
    (h : H) (lf : Option H) (inh : Inh)
    (hl : Le l Tl) (hr : Le r Tr)
    (hp : p ≤ last) (hpl : p ∉ Fl) (hpr : p ∉ Fr) (hdis : ∀ x ∈ Fl, x ∉ Fr)
    (hbl : ∀ x ∈ Fl, x ≤ last) (hbr : ∀ x ∈ Fr, x ≤ last) (hS : StoreBelow old last)
    (hcl : ChildPre old l Tl Ul cl Fl inh.left) (hcr : ChildPre old r Tr Ur cr Fr inh.right) :
    Post old (some (h, p)) (.node h lf (join Ul l) (join Ur r)) (p :: (Fl ++ Fr)) last
      (let wlf := leafWrites lf inh.leaf last
       let rl := imp old false l inh.left (last + wlf.length)
       let rr := imp old false r inh.right rl.last
       ⟨some p, rr.last,
        wlf ++ (rl.writes ++ (rr.writes ++ [(p, ⟨h, lf, mkChild l rl.pos, mkChild r rr.pos⟩)]))⟩) := by
  have hwlf := leafWrites_keys lf inh.leaf last
  dsimp only
  generalize leafWrites lf inh.leaf last = wlf at hwlf ⊢
  have Pl := hQl Tl Ul cl Fl inh.left (last + wlf.length) hl (fun x hx => by have := hbl x hx; omega)
    (fun x hx => hS x (by omega)) hcl
  generalize imp old false l inh.left (last + wlf.length) = rl at Pl ⊢
  obtain ⟨ml, wkl, Fl', hRl, hsl, hgl⟩ := Pl
  have Pr := hQr Tr Ur cr Fr inh.right rl.last hr (fun x hx => by have := hbr x hx; omega)
    (fun x hx => hS x (by omega)) hcr
  generalize imp old false r inh.right rl.last = rr at Pr ⊢
  obtain ⟨mr, wkr, Fr', hRr, hsr, hgr⟩ := Pr
  refine ⟨by show last ≤ rr.last; omega, ?_, p :: (Fl' ++ Fr'), ?_, ?_, ?_⟩
  · intro x hx
    simp only [keys_append, keys_cons, keys_nil, List.mem_append, List.mem_singleton] at hx
    rcases hx with hx | hx | hx | hx
    · have := hwlf x hx; right; exact ⟨this.1, by show x ≤ rr.last; omega⟩
    · rcases wkl x hx with h1 | h1
      · left; simp [h1]
      · right; exact ⟨by omega, by show x ≤ rr.last; omega⟩
    · rcases wkr x hx with h1 | h1
      · left; simp [h1]
      · right; exact ⟨by omega, by show x ≤ rr.last; omega⟩
    · left; simp [hx]
  · exact assemble (last2 := last + wlf.length) hp hpl hpr hdis hbl hbr (by omega) hwlf ml wkl hRl hgl mr wkr hRr hgr
  · intro x hx
    simp only [List.mem_cons, List.mem_append] at hx ⊢
    rcases hx with hx | hx | hx
    · exact .inl hx
    · exact .inr (.inl (hsl x hx))
    · exact .inr (.inr (hsr x hx))
  · intro x hx
    simp only [List.mem_cons, List.mem_append] at hx ⊢
    rcases hx with hx | hx | hx
    · exact .inl (.inl hx)
    · rcases hgl x hx with h1 | h1
      · exact .inl (.inr (.inl h1))
      · right; exact ⟨by omega, by show x ≤ rr.last; omega⟩
    · rcases hgr x hx with h1 | h1
      · exact .inl (.inr (.inr h1))
      · right; exact ⟨by omega, by show x ≤ rr.last; omega⟩

theorem P_all (old : Store H) : ∀ c : PTree H, P old c := by
  intro c
  induction c with
  | nil =>
    intro T U ptr F last hc hU hR hF hS
    have hT := le_nil_left hc
    subst hT
    have hU' := le_nil_right hU
    subst hU'
    cases hR
    exact ⟨rfl, by simpa [imp, join] using post_noop last none (Rz.nil (s := old))⟩
  | stub hc' =>
    intro T U ptr F last hc hU hR hF hS
    have hTh := le_stub_iff.1 hc
    have hUh : U.hash? = some hc' := by rw [le_hash_eq hU, hTh]
    cases hR with
    | nil => simp [PTree.hash?] at hUh
    | stub hp =>
      simp only [PTree.hash?, Option.some.injEq] at hUh
      subst hUh
      exact ⟨rfl, by simpa [imp, join, alloc] using post_noop last _ (Rz.stub hp)⟩
    | node hp h1 h2 h3 h4 h5 =>
      exact ⟨rfl, by simpa [imp, join, alloc] using post_noop last _ (Rz.node hp h1 h2 h3 h4 h5)⟩
  | node h lf l r ihl ihr =>
    intro T U ptr F last hc hU hR hF hS
    obtain ⟨Tl, Tr, rfl, hl, hr⟩ := le_node_inv hc
    have hQl := Q_of_P ihl
    have hQr := Q_of_P ihr
    rcases le_node_right hU with rfl | ⟨Ul, Ur, rfl, hUl, hUr⟩
    · -- a position without a record: everything below is new
      cases hR with
      | stub hp =>
        rename_i p
        refine ⟨rfl, ?_⟩
        have step := node_step hQl hQr (Tl := Tl) (Tr := Tr) (Ul := l.asStub) (Ur := r.asStub)
          (cl := none) (cr := none) (Fl := []) (Fr := []) (p := p) (last := last) h lf ⟨false, none, none⟩
          hl hr (hF p (by simp)) (by simp) (by simp) (by simp) (by simp) (by simp) hS
          (.inr ⟨rfl, rfl, rfl⟩) (.inr ⟨rfl, rfl, rfl⟩)
        simp only [join_asStub, List.append_nil] at step
        simpa [imp, alloc, hp, join] using step
    · cases hR with
      | node hp hRl hRr h3 h4 h5 =>
        rename_i p cl cr Fl Fr
        refine ⟨rfl, ?_⟩
        have el : slotPos cl l = cl.map Prod.snd := slotPos_eq (by rw [hRl.ptr_hash, le_hash_eq hUl, le_hash_eq hl])
        have er : slotPos cr r = cr.map Prod.snd := slotPos_eq (by rw [hRr.ptr_hash, le_hash_eq hUr, le_hash_eq hr])
        have step := node_step hQl hQr (Tl := Tl) (Tr := Tr) (Ul := Ul) (Ur := Ur)
          (cl := cl) (cr := cr) (Fl := Fl) (Fr := Fr) (p := p) (last := last) h lf
          (mergeExisting false ⟨h, lf, cl, cr⟩ lf l r)
          hl hr (hF p (by simp)) h3 h4 h5 (fun x hx => hF x (by simp [hx])) (fun x hx => hF x (by simp [hx])) hS
          (.inl ⟨hRl, hUl, by simp [mergeExisting, el]⟩) (.inl ⟨hRr, hUr, by simp [mergeExisting, er]⟩)
        simpa [imp, alloc, hp, join] using step

/-! ### the order on views of one tree -/

theorem join_le {a b T : PTree H} (ha : Le a T) (hb : Le b T) : Le (join a b) T := by
  induction a generalizing b T with
  | nil => simpa [join] using hb
  | stub _ => simpa [join] using hb
  | node h lf l r ihl ihr =>
    obtain ⟨Tl, Tr, rfl, hl, hr⟩ := le_node_inv ha
    rcases le_node_right hb with rfl | ⟨bl, br, rfl, hbl, hbr⟩
    · simpa [join] using ha
    · have h1 := ihl hl hbl
      have h2 := ihr hr hbr
      simp only [Le] at h1 h2
      simp [join, Le, leB, h1, h2]

theorem mem_nodes_node {h : H} {lf : Option H} {l r : PTree H} {π : List Dir} {x : H} :
    (π, x) ∈ (PTree.node h lf l r).nodes ↔
      (π = [] ∧ x = h) ∨ (π = [Dir.leaf] ∧ lf = some x) ∨
      (∃ π', π = Dir.left :: π' ∧ (π', x) ∈ l.nodes) ∨ (∃ π', π = Dir.right :: π' ∧ (π', x) ∈ r.nodes) := by
  simp only [PTree.nodes, List.mem_cons, List.mem_append, List.mem_map, Prod.mk.injEq, Prod.exists]
  constructor
  · rintro (⟨rfl, rfl⟩ | hlf | ⟨a, b, hm, rfl, rfl⟩ | ⟨a, b, hm, rfl, rfl⟩)
    · exact .inl ⟨rfl, rfl⟩
    · cases lf with
      | none => simp at hlf
      | some hl =>
        simp only [List.mem_singleton, Prod.mk.injEq] at hlf
        exact .inr (.inl ⟨hlf.1, by rw [hlf.2]⟩)
    · exact .inr (.inr (.inl ⟨a, rfl, hm⟩))
    · exact .inr (.inr (.inr ⟨a, rfl, hm⟩))
  · rintro (⟨rfl, rfl⟩ | ⟨rfl, rfl⟩ | ⟨π', rfl, hm⟩ | ⟨π', rfl, hm⟩)
    · exact .inl ⟨rfl, rfl⟩
    · exact .inr (.inl (by simp))
    · exact .inr (.inr (.inl ⟨π', x, hm, rfl, rfl⟩))
    · exact .inr (.inr (.inr ⟨π', x, hm, rfl, rfl⟩))

theorem mem_nodes_join {a b T : PTree H} (ha : Le a T) (hb : Le b T) (x : List Dir × H) :
    x ∈ (join a b).nodes ↔ x ∈ a.nodes ∨ x ∈ b.nodes := by
  induction a generalizing b T x with
  | nil => simp [join, PTree.nodes]
  | stub _ => simp [join, PTree.nodes]
  | node h lf l r ihl ihr =>
    obtain ⟨Tl, Tr, rfl, hl, hr⟩ := le_node_inv ha
    rcases le_node_right hb with rfl | ⟨bl, br, rfl, hbl, hbr⟩
    · simp [join, PTree.nodes]
    · obtain ⟨π, y⟩ := x
      simp only [join, mem_nodes_node, ihl hl hbl, ihr hr hbr]
      constructor
      · rintro (h1 | h1 | ⟨π', e, h1 | h1⟩ | ⟨π', e, h1 | h1⟩)
        · exact .inl (.inl h1)
        · exact .inl (.inr (.inl h1))
        · exact .inl (.inr (.inr (.inl ⟨π', e, h1⟩)))
        · exact .inr (.inr (.inr (.inl ⟨π', e, h1⟩)))
        · exact .inl (.inr (.inr (.inr ⟨π', e, h1⟩)))
        · exact .inr (.inr (.inr (.inr ⟨π', e, h1⟩)))
      · rintro ((h1 | h1 | ⟨π', e, h1⟩ | ⟨π', e, h1⟩) | (h1 | h1 | ⟨π', e, h1⟩ | ⟨π', e, h1⟩))
        · exact .inl h1
        · exact .inr (.inl h1)
        · exact .inr (.inr (.inl ⟨π', e, .inl h1⟩))
        · exact .inr (.inr (.inr ⟨π', e, .inl h1⟩))
        · exact .inl h1
        · exact .inr (.inl h1)
        · exact .inr (.inr (.inl ⟨π', e, .inr h1⟩))
        · exact .inr (.inr (.inr ⟨π', e, .inr h1⟩))

theorem nodes_asStub (t : PTree H) : t.asStub.nodes = [] := by
  cases t <;> rfl

/-- Two views of one tree: the one with fewer materialised nodes is below the other. -/
theorem le_of_nodes_subset {U V T : PTree H} (hU : Le U T) (hV : Le V T)
    (hsub : ∀ x ∈ U.nodes, x ∈ V.nodes) : Le U V := by
  induction U generalizing V T with
  | nil =>
    have := le_nil_left hU
    subst this
    rw [le_nil_right hV]
    exact le_refl _
  | stub h =>
    exact le_stub_iff.2 (by rw [le_hash_eq hV, le_stub_iff.1 hU])
  | node h lf l r ihl ihr =>
    obtain ⟨Tl, Tr, rfl, hl, hr⟩ := le_node_inv hU
    rcases le_node_right hV with rfl | ⟨vl, vr, rfl, hvl, hvr⟩
    · have := hsub ([], h) (by simp [PTree.nodes])
      simp [PTree.nodes] at this
    · have h1 := ihl hl hvl (fun x hx => by
        have := hsub (Dir.left :: x.1, x.2) (mem_nodes_node.2 (.inr (.inr (.inl ⟨x.1, rfl, hx⟩))))
        rcases mem_nodes_node.1 this with h1 | h1 | ⟨π', e, h1⟩ | ⟨π', e, h1⟩
        · simp at h1
        · simp at h1
        · simp only [List.cons.injEq, true_and] at e; subst e; exact h1
        · simp at e)
      have h2 := ihr hr hvr (fun x hx => by
        have := hsub (Dir.right :: x.1, x.2) (mem_nodes_node.2 (.inr (.inr (.inr ⟨x.1, rfl, hx⟩))))
        rcases mem_nodes_node.1 this with h1 | h1 | ⟨π', e, h1⟩ | ⟨π', e, h1⟩
        · simp at h1
        · simp at h1
        · simp at e
        · simp only [List.cons.injEq, true_and] at e; subst e; exact h1)
      simp only [Le] at h1 h2
      simp [Le, leB, h1, h2]

theorem le_antisymm {U V : PTree H} (h1 : Le U V) (h2 : Le V U) : U = V := by
  induction U generalizing V with
  | nil => exact (le_nil_left h1).symm
  | stub h =>
    cases V with
    | nil => simp [Le, leB, PTree.hash?] at h1
    | stub h' =>
      have := le_stub_iff.1 h1
      simp only [PTree.hash?, Option.some.injEq] at this
      rw [this]
    | node _ _ _ _ => simp [Le, leB] at h2
  | node h lf l r ihl ihr =>
    obtain ⟨vl, vr, rfl, hl, hr⟩ := le_node_inv h1
    obtain ⟨_, _, e, hl', hr'⟩ := le_node_inv h2
    cases e
    rw [ihl hl hl', ihr hr hr']

/-- Every materialised node of a view is the node of the tree at that path. -/
theorem hashAt_of_mem_nodes {c T : PTree H} (hc : Le c T) {π : List Dir} {x : H}
    (hm : (π, x) ∈ c.nodes) : T.hashAt π = some x := by
  induction c generalizing T π with
  | nil => simp [PTree.nodes] at hm
  | stub _ => simp [PTree.nodes] at hm
  | node h lf l r ihl ihr =>
    obtain ⟨Tl, Tr, rfl, hl, hr⟩ := le_node_inv hc
    rcases mem_nodes_node.1 hm with ⟨rfl, rfl⟩ | ⟨rfl, rfl⟩ | ⟨π', rfl, h1⟩ | ⟨π', rfl, h1⟩
    · simp [PTree.hashAt, PTree.hash?]
    · simp [PTree.hashAt]
    · simpa [PTree.hashAt] using ihl hl h1
    · simpa [PTree.hashAt] using ihr hr h1

theorem foldl_join_le {T : PTree H} (cs : List (PTree H)) (U : PTree H) (hU : Le U T)
    (hcs : ∀ c ∈ cs, Le c T) : Le (cs.foldl join U) T := by
  induction cs generalizing U with
  | nil => exact hU
  | cons c cs ih =>
    exact ih (join U c) (join_le hU (hcs c (by simp))) (fun d hd => hcs d (by simp [hd]))

theorem mem_nodes_foldl_join {T : PTree H} (cs : List (PTree H)) (U : PTree H) (hU : Le U T)
    (hcs : ∀ c ∈ cs, Le c T) (x : List Dir × H) :
    x ∈ (cs.foldl join U).nodes ↔ x ∈ U.nodes ∨ ∃ c ∈ cs, x ∈ c.nodes := by
  induction cs generalizing U with
  | nil => simp
  | cons c cs ih =>
    have hc := hcs c (by simp)
    rw [List.foldl_cons, ih (join U c) (join_le hU hc) (fun d hd => hcs d (by simp [hd])),
      mem_nodes_join hU hc]
    simp only [List.mem_cons, exists_eq_or_imp]
    constructor
    · rintro ((h1 | h1) | h1)
      · exact .inl h1
      · exact .inr (.inl h1)
      · exact .inr (.inr h1)
    · rintro (h1 | h1 | h1)
      · exact .inl (.inl h1)
      · exact .inl (.inr h1)
      · exact .inr h1

/-! ### what a realised tree looks like from outside -/

theorem Rz.none_inv {s : Store H} {U : PTree H} {F : List Nat} (h : Rz s none U F) : U = .nil := by
  cases h; rfl

theorem rz_reach_of_mem {s : Store H} {ptr : Option (H × Nat)} {U : PTree H} {F : List Nat}
    (hR : Rz s ptr U F) : ∀ {h0 : H} {p : Nat} {π : List Dir} {x : H}, ptr = some (h0, p) →
      (π, x) ∈ U.nodes → Reach s p π x := by
  induction hR with
  | nil => intro _ _ _ _ e; cases e
  | stub _ => intro _ _ _ _ _ hm; simp [PTree.nodes] at hm
  | @node h p lf cl cr l r Fl Fr hp hRl hRr _ _ _ ihl ihr =>
    intro h0 p' π x e hm
    cases e
    rcases mem_nodes_node.1 hm with ⟨rfl, rfl⟩ | ⟨rfl, rfl⟩ | ⟨π', rfl, h1⟩ | ⟨π', rfl, h1⟩
    · exact Reach.here hp
    · exact Reach.leaf hp rfl
    · cases cl with
      | none => rw [hRl.none_inv] at h1; simp [PTree.nodes] at h1
      | some a => exact Reach.left (hc := a.1) (q := a.2) hp rfl (ihl rfl h1)
    · cases cr with
      | none => rw [hRr.none_inv] at h1; simp [PTree.nodes] at h1
      | some a => exact Reach.right (hc := a.1) (q := a.2) hp rfl (ihr rfl h1)

theorem rz_mem_of_reach {s : Store H} {p : Nat} {π : List Dir} {x : H} (hr : Reach s p π x) :
    ∀ {h0 : H} {U : PTree H} {F : List Nat}, Rz s (some (h0, p)) U F → (π, x) ∈ U.nodes := by
  induction hr with
  | here hp =>
    intro h0 U F hR
    cases hR with
    | stub hn => rw [hn] at hp; cases hp
    | node hp' _ _ _ _ _ =>
      rw [hp'] at hp; cases hp
      exact mem_nodes_node.2 (.inl ⟨rfl, rfl⟩)
  | leaf hp hl =>
    intro h0 U F hR
    cases hR with
    | stub hn => rw [hn] at hp; cases hp
    | node hp' _ _ _ _ _ =>
      rw [hp'] at hp; cases hp
      exact mem_nodes_node.2 (.inr (.inl ⟨rfl, hl⟩))
  | left hp hl _ ih =>
    intro h0 U F hR
    cases hR with
    | stub hn => rw [hn] at hp; cases hp
    | node hp' hRl _ _ _ _ =>
      rw [hp'] at hp; cases hp
      simp only at hl
      subst hl
      exact mem_nodes_node.2 (.inr (.inr (.inl ⟨_, rfl, ih hRl⟩)))
  | right hp hl _ ih =>
    intro h0 U F hR
    cases hR with
    | stub hn => rw [hn] at hp; cases hp
    | node hp' _ hRr _ _ _ =>
      rw [hp'] at hp; cases hp
      simp only at hl
      subst hl
      exact mem_nodes_node.2 (.inr (.inr (.inr ⟨_, rfl, ih hRr⟩)))

theorem readBack_none (s : Store H) (f : Nat) : readBack s f none = .nil := by
  cases f <;> rfl

theorem rz_readBack {s : Store H} {ptr : Option (H × Nat)} {U : PTree H} {F : List Nat}
    (hR : Rz s ptr U F) : ∀ fuel, U.depth ≤ fuel → readBack s fuel ptr = U := by
  induction hR with
  | nil => intro f _; exact readBack_none s f
  | stub hp =>
    intro f _
    cases f with
    | zero => rfl
    | succ f => simp [readBack, hp]
  | node hp _ _ _ _ _ ihl ihr =>
    intro f hf
    cases f with
    | zero => simp [PTree.depth] at hf
    | succ f =>
      simp only [PTree.depth] at hf
      simp only [readBack, hp]
      rw [ihl f (by omega), ihr f (by omega)]

/-! ### the invariant of a restore -/

/-- `Inv T U st`: the restore state realises the view `U` of the checkpointed tree `T` under the root
pointer; every position in use is at most `lastIndex`. -/
def Inv (T U : PTree H) (st : St H) : Prop :=
  Le U T ∧ StoreBelow st.store st.last ∧ ∃ F, Rz st.store (rootPtr T) U F ∧ ∀ x ∈ F, x ≤ st.last

theorem inv_init (T : PTree H) : Inv T T.asStub St.init := by
  refine ⟨asStub_le (le_refl T), fun x _ => rfl, ?_⟩
  cases T with
  | nil => exact ⟨[], .nil, by simp⟩
  | stub h => exact ⟨[0], .stub rfl, by simp [St.init]⟩
  | node h lf l r => exact ⟨[0], .stub rfl, by simp [St.init]⟩

theorem imp_root_dbi (old : Store H) (brk : Bool) {c T : PTree H} (hc : Le c T) (last : Nat) :
    imp old brk c (some 0) last = imp old brk c ((rootPtr T).map Prod.snd) last := by
  cases c with
  | nil => rfl
  | stub h => rw [rootPtr, le_stub_iff.1 hc]; rfl
  | node h lf l r =>
    obtain ⟨_, _, rfl, _, _⟩ := le_node_inv hc
    rfl

theorem inv_step {T U c : PTree H} {st : St H} (hc : Le c T) (hI : Inv T U st) :
    Inv T (join U c) (importChunk st c) := by
  obtain ⟨hU, hS, F, hR, hF⟩ := hI
  obtain ⟨_, m, wk, F', hR', _, hg⟩ := P_all st.store c T U (rootPtr T) F st.last hc hU hR hF hS
  rw [← imp_root_dbi st.store false hc st.last] at m wk hR' hg
  refine ⟨join_le hU hc, ?_, F', hR', ?_⟩
  · intro x hx
    show sget (commit st.store _) x = none
    rw [sget_commit_not_mem]
    · exact hS x (by
        have : st.last ≤ (imp st.store false c (some 0) st.last).last := m
        have hx' : (imp st.store false c (some 0) st.last).last < x := hx
        omega)
    · intro hk
      have hx' : (imp st.store false c (some 0) st.last).last < x := hx
      rcases wk x hk with h1 | h1
      · have := hF x h1; omega
      · omega
  · intro x hx
    show x ≤ (imp st.store false c (some 0) st.last).last
    rcases hg x hx with h1 | h1
    · have := hF x h1; omega
    · omega

theorem inv_foldl {T : PTree H} (cs : List (PTree H)) (hcs : ∀ c ∈ cs, Le c T) (U : PTree H) (st : St H)
    (hI : Inv T U st) : Inv T (cs.foldl join U) (cs.foldl importChunk st) := by
  induction cs generalizing U st with
  | nil => exact hI
  | cons c cs ih =>
    exact ih (fun d hd => hcs d (by simp [hd])) _ _ (inv_step (hcs c (by simp)) hI)

theorem inv_importAll {T : PTree H} (cs : List (PTree H)) (hcs : ∀ c ∈ cs, Le c T) :
    Inv T (cs.foldl join T.asStub) (importAll cs) :=
  inv_foldl cs hcs _ _ (inv_init T)

theorem le_depth {U T : PTree H} (h : Le U T) : U.depth ≤ T.depth := by
  induction U generalizing T with
  | nil => simp [PTree.depth]
  | stub _ => simp [PTree.depth]
  | node h' lf l r ihl ihr =>
    obtain ⟨Tl, Tr, rfl, hl, hr⟩ := le_node_inv h
    have := ihl hl
    have := ihr hr
    simp only [PTree.depth]
    omega

theorem importChunk_nil (st : St H) : importChunk st .nil = st := rfl

theorem importAll_nil_tree (cs : List (PTree H)) (hcs : ∀ c ∈ cs, Le c .nil) :
    importAll cs = St.init := by
  unfold importAll
  generalize (St.init : St H) = st
  induction cs generalizing st with
  | nil => rfl
  | cons c cs ih =>
    rw [List.foldl_cons, le_nil_right (hcs c (by simp)), importChunk_nil]
    exact ih (fun d hd => hcs d (by simp [hd])) st

theorem not_reach_empty {p : Nat} {π : List Dir} {x : H} : ¬ Reach ([] : Store H) p π x := by
  intro h
  cases h with
  | here hp => cases hp
  | leaf hp _ => cases hp
  | left hp _ _ => cases hp
  | right hp _ _ => cases hp

/-! ### the mutant (`brk = true`) -/

/-- On an empty store nothing is merged: the mutant and the code agree on the first chunk. -/
theorem imp_empty_brk (brk : Bool) (c : PTree H) (d : Option Nat) (last : Nat) :
    imp ([] : Store H) brk c d last = imp [] false c d last := by
  induction c generalizing d last with
  | nil => rfl
  | stub _ => rfl
  | node h lf l r ihl ihr => simp only [imp, sget, ihl, ihr]

theorem readBack_stub_of_none (s : Store H) (f : Nat) (h : H) (q : Nat) (hq : sget s q = none) :
    readBack s f (some (h, q)) = .stub h := by
  cases f with
  | zero => rfl
  | succ f => simp [readBack, hq]

/-- Re-import of a node WITHOUT Left by the mutant: the loop stops at the Left slot, the hash-only
right pointer gets a fresh index, the rewritten record points to a position without a record. -/
theorem break_reimport_root {st : St H} {h hr : H} {lf : Option H} {cr : Option (H × Nat)}
    (hS : StoreBelow st.store st.last) (h0 : sget st.store 0 = some ⟨h, lf, none, cr⟩) (fuel : Nat) :
    readBack (importChunkWith true st (.node h lf .nil (.stub hr))).store (fuel + 1) (some (h, 0)) =
      .node h lf .nil (.stub hr) := by
  have hk := leafWrites_keys lf false st.last
  simp only [importChunkWith, imp, alloc, h0, mergeExisting, slotNil, PTree.isNil, Option.isNone_none,
    Bool.or_true, Bool.and_self, if_true, mkChild, PTree.hash?, List.nil_append] at hk ⊢
  generalize leafWrites lf false st.last = wlf at hk ⊢
  simp only [readBack]
  rw [sget_commit_snoc]
  simp only [readBack_none]
  rw [readBack_stub_of_none]
  rw [sget_commit_not_mem]
  · exact hS _ (by omega)
  · simp only [keys_append, keys_cons, keys_nil, List.mem_append, List.mem_singleton]
    rintro (hx | hx)
    · have := hk _ hx; omega
    · omega

end

/-! ### verified chunks are views (bridge to the MKVS models) -/

section
open OasisModel.Mkvs

theorem ofTrie_hash (Hf : Bytes → Bytes) (t : Trie) (ht : t ≠ .nil) :
    (ofTrie Hf t).hash? = some (hashWith Hf t) := by
  cases t with
  | nil => exact absurd rfl ht
  | leaf k v => rfl
  | node lab lf l r => rfl

/-- A sub-tree in the sense of C04 (`SubT`: what `VerifyProof` returns for the root of `t`) that the
pathbadger batch can serialise is a view of `t` in the sense of the import model. -/
theorem subT_le (Hf : Bytes → Bytes) (s : PT) : ∀ (t : Trie), SubT Hf s t → importable Hf s = true →
    Le (ofPT Hf s) (ofTrie Hf t) := by
  induction s with
  | nil =>
    intro t hs _
    simp only [SubT] at hs
    subst hs
    exact le_refl _
  | hash h =>
    intro t hs hi
    simp only [SubT] at hs
    simp only [importable, bne_iff_ne, ne_eq] at hi
    have ht : t ≠ .nil := by
      intro e
      subst e
      exact hi hs
    exact le_stub_iff.2 (by rw [ofTrie_hash Hf t ht, hs])
  | leaf k v =>
    intro t hs _
    simp only [SubT] at hs
    subst hs
    exact le_refl _
  | node bits label lf l r _ ihl ihr =>
    intro t hs hi
    cases t with
    | nil => exact absurd hs (by simp [SubT])
    | leaf _ _ => exact absurd hs (by simp [SubT])
    | node lab olf tl tr =>
      have hh := OasisProofs.MkvsProof.sub_hashOf hs
      obtain ⟨_, _, slf, sl, sr⟩ := hs
      simp only [importable, Bool.and_eq_true] at hi
      obtain ⟨⟨hlf, hil⟩, hir⟩ := hi
      have h1 := ihl tl sl hil
      have h2 := ihr tr sr hir
      have e : ptLeafHash Hf lf = leafHash Hf olf := by
        cases lf with
        | nil =>
          cases olf with
          | none => rfl
          | some kv => simp [SubT, optLeaf] at slf
        | leaf k v =>
          cases olf with
          | none => simp [SubT, optLeaf] at slf
          | some kv =>
            obtain ⟨k', v'⟩ := kv
            simp only [SubT, optLeaf, Trie.leaf.injEq] at slf
            obtain ⟨rfl, rfl⟩ := slf
            rfl
        | hash _ => simp [leafSlotOK] at hlf
        | node _ _ _ _ _ => simp [leafSlotOK] at hlf
      simp only [Le] at h1 h2
      simp only [ofPT, ofTrie, Le, leB, hh, e, h1, h2, decide_true, Bool.and_self]

end

end OasisProofs.PathImportH
