import OasisProofs.Helpers.RegistryBool
/-
C17 helper lemmas, part 6: which operation can change which record (authority), and frame lemmas.
-/
namespace OasisProofs.Registry
open OasisModel.Registry

theorem verifyExisting_none_same {s : State} {n : Node} (hu : verifyExisting s n = none) :
    ∀ cur, s.nodes.get n.id = some cur → cur.entity = n.entity ∧ cur.cons = n.cons := by
  intro cur hc
  simp only [verifyExisting, hc, verifyNodeUpdate] at hu
  split at hu; · cases hu
  split at hu; · cases hu
  split at hu; · cases hu
  rename_i _ h2 h3
  exact ⟨by simpa using h2, by simpa using h3⟩

/-- The node table after `registerNode`: unchanged, or exactly the new descriptor under its id. -/
theorem regNode_nodes (gen : Bool) (ord : Order) (s : State) (t : Key) (sn : SignedNode) :
    (regNode gen ord s t sn).1.nodes = s.nodes ∨
    (NodeChecks gen s t sn ∧ (regNode gen ord s t sn).1.nodes = s.nodes.set sn.node.id sn.node) := by
  rcases regNode_spec gen ord s t sn with e | ⟨hc, e | ⟨_, _, e⟩⟩
  · exact Or.inl (by rw [e])
  · exact Or.inr ⟨hc, by rw [e]; rfl⟩
  · exact Or.inr ⟨hc, by rw [e]; rfl⟩

/-- What the expiry loop does to the node table: an entry is untouched, or it is removed and the
listed descriptor under that id was expired for longer than the debonding interval. -/
theorem expireOne_params (e : Nat) (a : ExpAcc) (n : Node) : (expireOne e a n).s.params = a.s.params := by
  unfold expireOne
  split
  · rfl
  · split
    · rfl
    · split
      · rfl
      · split
        · exact markExpired_params _ _ _
        · split
          · split
            · simp only [removeNode]; exact markExpired_params _ _ _
            · simp only [removeNode]; exact markExpired_params _ _ _
          · exact markExpired_params _ _ _

theorem expireFold_params (e : Nat) (l : List Node) (a : ExpAcc) : (l.foldl (expireOne e) a).s.params = a.s.params := by
  induction l generalizing a with
  | nil => rfl
  | cons m l ih => simp only [List.foldl_cons]; rw [ih, expireOne_params]

theorem expireOne_nodes (e : Nat) (a : ExpAcc) (n : Node) (i : Key) :
    (expireOne e a n).s.nodes.get i = a.s.nodes.get i ∨
    ((expireOne e a n).s.nodes.get i = none ∧ n.id = i ∧ n.expiration + a.s.params.debondingInterval < e) := by
  have hrm : ∀ st, (removeNode (markExpired a.s n.id st) n).nodes.get i = a.s.nodes.get i ∨
      ((removeNode (markExpired a.s n.id st) n).nodes.get i = none ∧ n.id = i) := by
    intro st
    simp only [removeNode, Map.get_del, markExpired_nodes]
    by_cases hi : n.id = i
    · exact Or.inr ⟨by simp [hi], hi⟩
    · exact Or.inl (by simp [hi])
  unfold expireOne
  split
  · exact Or.inl rfl
  · split
    · exact Or.inl rfl
    · split
      · exact Or.inl rfl
      · rename_i st _
        split
        · exact Or.inl (by simp only [markExpired_nodes])
        · split
          · rename_i hexp
            split
            · rcases hrm st with h | ⟨h, hi⟩
              · exact Or.inl h
              · exact Or.inr ⟨h, hi, hexp⟩
            · rcases hrm st with h | ⟨h, hi⟩
              · exact Or.inl h
              · exact Or.inr ⟨h, hi, hexp⟩
          · exact Or.inl (by simp only [markExpired_nodes])

/-- What the expiry loop does to the node table: an entry is untouched, or it is removed and the
listed descriptor under that id was expired for longer than the debonding interval. -/
theorem expireFold_nodes (e : Nat) (l : List Node) (a : ExpAcc) (i : Key) :
    (l.foldl (expireOne e) a).s.nodes.get i = a.s.nodes.get i ∨
    ((l.foldl (expireOne e) a).s.nodes.get i = none ∧
      ∃ n, n ∈ l ∧ n.id = i ∧ n.expiration + a.s.params.debondingInterval < e) := by
  induction l generalizing a with
  | nil => exact Or.inl rfl
  | cons n l ih =>
    simp only [List.foldl_cons]
    rcases ih (expireOne e a n) with h | ⟨h, m, hm, hmi, hme⟩
    · rcases expireOne_nodes e a n i with hn | ⟨hn, hni, hne⟩
      · exact Or.inl (by rw [h, hn])
      · exact Or.inr ⟨by rw [h, hn], n, by simp, hni, hne⟩
    · rw [expireOne_params] at hme
      exact Or.inr ⟨h, m, List.mem_cons_of_mem _ hm, hmi, hme⟩

theorem epochTransition_nodes (s : State) (e : Nat) (h : Inv s) (i : Key) :
    (epochTransition s e).1.nodes.get i = s.nodes.get i ∨
    ((epochTransition s e).1.nodes.get i = none ∧
      ∃ n, s.nodes.get i = some n ∧ n.expiration + s.params.debondingInterval < e) := by
  have h0 := h.set_epoch e
  obtain ⟨hl, _⟩ := nodeList_spec _ h0
  have hfold := expireFold_nodes e (nodeList { s with epoch := e })
    { s := { s with epoch := e }, claims := s.claims, ok := true } i
  have hnodes : (epochTransition s e).1.nodes =
      ((nodeList { s with epoch := e }).foldl (expireOne e) { s := { s with epoch := e }, claims := s.claims, ok := true }).s.nodes := by
    unfold epochTransition
    simp only []
    split <;> rfl
  rw [hnodes]
  rcases hfold with hf | ⟨hf, n, hn, hni, hne⟩
  · exact Or.inl hf
  · refine Or.inr ⟨hf, n, ?_, hne⟩
    have := hl n hn
    rw [hni] at this
    exact this


/-! ### frame lemmas: which operation touches which table -/

theorem expireOne_entities_runtimes (e : Nat) (a : ExpAcc) (n : Node) :
    (expireOne e a n).s.entities = a.s.entities ∧ (expireOne e a n).s.runtimes = a.s.runtimes := by
  have hm : ∀ st, (markExpired a.s n.id st).entities = a.s.entities ∧ (markExpired a.s n.id st).runtimes = a.s.runtimes := by
    intro st; unfold markExpired; split <;> exact ⟨rfl, rfl⟩
  unfold expireOne
  split
  · exact ⟨rfl, rfl⟩
  · split
    · exact ⟨rfl, rfl⟩
    · split
      · exact ⟨rfl, rfl⟩
      · split
        · exact hm _
        · split
          · split <;> (simp only [removeNode]; exact hm _)
          · exact hm _

theorem epochTransition_entities_runtimes (s : State) (e : Nat) :
    (epochTransition s e).1.entities = s.entities ∧ (epochTransition s e).1.runtimes = s.runtimes := by
  have hfold : ∀ (l : List Node) (a : ExpAcc), (l.foldl (expireOne e) a).s.entities = a.s.entities ∧
      (l.foldl (expireOne e) a).s.runtimes = a.s.runtimes := by
    intro l
    induction l with
    | nil => intro a; exact ⟨rfl, rfl⟩
    | cons m l ih =>
      intro a
      simp only [List.foldl_cons]
      obtain ⟨h1, h2⟩ := ih (expireOne e a m)
      obtain ⟨g1, g2⟩ := expireOne_entities_runtimes e a m
      exact ⟨h1.trans g1, h2.trans g2⟩
  unfold epochTransition
  simp only []
  split <;> exact hfold _ _

theorem regNode_entities (gen : Bool) (ord : Order) (s : State) (t : Key) (sn : SignedNode) :
    (regNode gen ord s t sn).1.entities = s.entities := by
  rcases regNode_spec gen ord s t sn with e | ⟨_, e | ⟨_, _, e⟩⟩ <;> rw [e] <;> rfl

theorem regNode_runtimes (gen : Bool) (ord : Order) (s : State) (t : Key) (sn : SignedNode) (r : RtId) :
    ((regNode gen ord s t sn).1.runtimes.get r).map rtCore = (s.runtimes.get r).map rtCore := by
  rcases regNode_spec gen ord s t sn with e | ⟨_, e | ⟨_, _, e⟩⟩
  · rw [e]
  · rw [e]
    exact get_resumeRuntimes_core _ s.runtimes sn.node.runtimes r
  · rw [e]; rfl

/-- A runtime descriptor (up to the `suspended` flag) changes only through `registerRuntime` of that id,
accepted by the update rules and — for a transaction — called by the governing staking address. -/
theorem regRuntime_runtimes (gen : Bool) (s : State) (c : Addr) (rt : Runtime) (r : RtId)
    (h : ((regRuntime gen s c rt).1.runtimes.get r).map rtCore ≠ (s.runtimes.get r).map rtCore) :
    r = rt.id ∧ (gen = false → (runtimeToCheck s rt).stakingAddr = some c) ∧
      verifyRuntimeUpdate (s.runtimes.get rt.id) rt = none ∧
      ((regRuntime gen s c rt).1.runtimes.get r).map rtCore = some (rtCore rt) := by
  have key : ∀ s' : State, s'.runtimes = s.runtimes.set rt.id
        { rt with suspended := match s.runtimes.get rt.id with | some cur => cur.suspended | none => false } →
      (s'.runtimes.get r).map rtCore ≠ (s.runtimes.get r).map rtCore →
      r = rt.id ∧ (s'.runtimes.get r).map rtCore = some (rtCore rt) := by
    intro s' hr h
    rw [hr] at h ⊢
    simp only [Map.get_set] at h ⊢
    by_cases hid : rt.id = r
    · subst hid; simp only [if_true]; exact ⟨trivial, rfl⟩
    · simp only [hid, if_false] at h; exact absurd rfl h
  rcases regRuntime_spec gen s c rt with e | ⟨hv, hc, ⟨_, e⟩ | ⟨addr, _, _, e⟩⟩
  · rw [e] at h; exact absurd rfl h
  · rw [e] at h ⊢
    obtain ⟨h1, h2⟩ := key (regRuntimeNoClaim s rt) rfl h
    exact ⟨h1, hc, hv, h2⟩
  · rw [e] at h ⊢
    obtain ⟨h1, h2⟩ := key (regRuntimeOk s rt addr) rfl h
    exact ⟨h1, hc, hv, h2⟩

end OasisProofs.Registry
