import OasisProofs.Helpers.CodecBytes
/-
Lemmas behind the C16 theorems (OasisProofs/Props/C16.lean restates the property clauses):
exact characterisations of the node decoders, canonicality, round trips, the verifier invariant.
Core Lean only.
-/
set_option linter.unusedSimpArgs false
namespace OasisProofs.CodecLemmas
open OasisModel.Codec OasisProofs.CodecBytes



theorem decodeKeyA_eq (d : Bytes) :
    decodeKeyA d =
      if d.length < 2 ∨ d.length < 2 + le16At d 0 then Dec.fail [] .malformedKey
      else ⟨[le16At d 0], .ok (slice d 2 (le16At d 0), 2 + le16At d 0)⟩ := by
  unfold decodeKeyA
  by_cases h1 : d.length < 2
  · simp [h1]
  · by_cases h2 : d.length < 2 + le16At d 0 <;> simp [h1, h2]

theorem decodeKey_ok_iff (d k : Bytes) (n : Nat) :
    decodeKey d = .ok (k, n) ↔
      2 + le16At d 0 ≤ d.length ∧ n = 2 + le16At d 0 ∧ k = slice d 2 (le16At d 0) := by
  unfold decodeKey
  rw [decodeKeyA_eq]
  by_cases h : d.length < 2 ∨ d.length < 2 + le16At d 0
  · simp [h, Dec.fail]
    intro h'; omega
  · simp [h]
    constructor
    · rintro ⟨rfl, rfl⟩; exact ⟨by omega, rfl, rfl⟩
    · rintro ⟨_, rfl, rfl⟩; simp

/-- Exact behaviour of `LeafNode.SizedUnmarshalBinary`, with `kl`/`vl` the declared lengths. -/
theorem decodeLeafA_eq (d : Bytes) :
    decodeLeafA d =
      let kl := le16At d 1
      let vl := le32At d (3 + kl)
      if d.length < 7 ∨ byteAt d 0 ≠ 0 then Dec.fail [] .malformedNode
      else if d.length < 3 + kl then Dec.fail [] .malformedKey
      else if 7 + kl > d.length then Dec.fail [kl] .malformedNode
      else if 7 + kl + vl > d.length then Dec.fail [kl] .malformedNode
      else ⟨[kl, vl], .ok ({ key := slice d 3 kl, value := slice d (7 + kl) vl }, 7 + kl + vl)⟩ := by
  unfold decodeLeafA
  by_cases h1 : d.length < 1 + 2 + 4 ∨ byteAt d 0 ≠ 0
  · have h1' : d.length < 7 ∨ byteAt d 0 ≠ 0 := by omega
    simp only [h1, if_true]
  · have h1' : ¬ (d.length < 7 ∨ byteAt d 0 ≠ 0) := by omega
    simp only [h1, if_false]
    rw [decodeKeyA_eq]
    simp only [List.length_drop, le16At_drop, slice_drop, Nat.add_zero]
    by_cases h2 : d.length - 1 < 2 ∨ d.length - 1 < 2 + le16At d 1
    · have : d.length < 3 + le16At d 1 := by omega
      simp [h2, this, Dec.fail]
    · have : ¬ d.length < 3 + le16At d 1 := by omega
      simp only [h2, this, if_false]
      by_cases h3 : 1 + (2 + le16At d 1) + 4 > d.length
      · have : 7 + le16At d 1 > d.length := by omega
        simp [h3, this, Dec.fail]
      · have h3' : ¬ 7 + le16At d 1 > d.length := by omega
        have e1 : 1 + (2 + le16At d 1) = 3 + le16At d 1 := by omega
        have e2 : 3 + le16At d 1 + 4 = 7 + le16At d 1 := by omega
        have h3'' : ¬ d.length < 7 + le16At d 1 := by omega
        simp only [e1, e2, h3', h3'', if_false]
        by_cases h4 : 7 + le16At d 1 + le32At d (3 + le16At d 1) > d.length
        · simp [h4, Dec.fail]
        · simp [h4]


/-- allocation log of the leaf decoder, all paths -/
theorem decodeLeaf_alloc_le (d : Bytes) : (decodeLeafA d).allocs.sum ≤ d.length := by
  rw [decodeLeafA_eq]
  simp only
  split
  · simp [Dec.fail]
  · split
    · simp [Dec.fail]
    · split
      · simp [Dec.fail]; omega
      · split
        · simp [Dec.fail]; omega
        · simp; omega

theorem decodeLeaf_ok_iff (d : Bytes) (l : Leaf) (n : Nat) :
    decodeLeaf d = .ok (l, n) ↔
      byteAt d 0 = 0 ∧ 7 + le16At d 1 + le32At d (3 + le16At d 1) ≤ d.length ∧
      n = 7 + le16At d 1 + le32At d (3 + le16At d 1) ∧
      l = { key := slice d 3 (le16At d 1), value := slice d (7 + le16At d 1) (le32At d (3 + le16At d 1)) } := by
  unfold decodeLeaf
  rw [decodeLeafA_eq]
  simp only
  split
  · simp [Dec.fail]; omega
  · split
    · simp [Dec.fail]; omega
    · split
      · simp [Dec.fail]; omega
      · split
        · simp [Dec.fail]; omega
        · simp
          constructor
          · rintro ⟨rfl, rfl⟩; exact ⟨by omega, by omega, rfl, rfl⟩
          · rintro ⟨_, _, rfl, rfl⟩; simp

theorem decodeLeaf_canonical (d : Bytes) (l : Leaf) (n : Nat) (h : decodeLeaf d = .ok (l, n)) :
    encodeLeaf l = d.take n ∧ l.WF := by
  obtain ⟨h0, hlen, rfl, rfl⟩ := (decodeLeaf_ok_iff d l n).1 h
  have hk := le16At_lt d 1
  have hv := le32At_lt d (3 + le16At d 1)
  have lk : (slice d 3 (le16At d 1)).length = le16At d 1 := slice_length _ _ _ (by omega)
  have lv : (slice d (7 + le16At d 1) (le32At d (3 + le16At d 1))).length = le32At d (3 + le16At d 1) :=
    slice_length _ _ _ (by omega)
  refine ⟨?_, by simp [Leaf.WF, lk, lv]; omega⟩
  simp only [encodeLeaf, encodeKey, lk, lv]
  rw [show 7 + le16At d 1 + le32At d (3 + le16At d 1) = 0 + 1 + 2 + le16At d 1 + 4 + le32At d (3 + le16At d 1) by omega]
  rw [take_add_slice, take_add_slice, take_add_slice, take_add_slice, take_add_slice]
  rw [enc16_le16At d 1 (by omega), enc32_le32At d (3 + le16At d 1) (by omega), slice_one d 0 (by omega), h0]
  simp only [List.take_zero, List.nil_append, Nat.zero_add, List.cons_append, List.append_assoc]
  rw [show 1 + 2 = 3 by rfl, show 3 + le16At d 1 + 4 = 7 + le16At d 1 by omega]
  rfl


theorem decodeKey_encode (k t : Bytes) (hk : k.length < 65536) :
    decodeKey (encodeKey k ++ t) = .ok (k, 2 + k.length) := by
  rw [decodeKey_ok_iff]
  have e : le16At (encodeKey k ++ t) 0 = k.length := by
    simp only [encodeKey, List.append_assoc]
    rw [le16At_enc16]; omega
  rw [e]
  refine ⟨by simp [encodeKey, enc16_length], rfl, ?_⟩
  simp only [encodeKey, List.append_assoc]
  rw [slice_seam (enc16 k.length) _ 2 _ (by rfl), slice_prefix _ _ _ rfl]

theorem decodeLeaf_encode (l : Leaf) (t : Bytes) (hl : l.WF) :
    decodeLeaf (encodeLeaf l ++ t) = .ok (l, 7 + l.key.length + l.value.length) := by
  obtain ⟨hk, hv⟩ := hl
  rw [decodeLeaf_ok_iff]
  have e1 : le16At (encodeLeaf l ++ t) 1 = l.key.length := by
    simp only [encodeLeaf, encodeKey, List.append_assoc, List.cons_append]
    rw [show ((0 : UInt8) :: (enc16 l.key.length ++ (l.key ++ (enc32 l.value.length ++ (l.value ++ t))))) =
      [(0 : UInt8)] ++ (enc16 l.key.length ++ (l.key ++ (enc32 l.value.length ++ (l.value ++ t)))) by rfl]
    rw [le16At_seam _ _ 1 rfl, le16At_enc16]; omega
  have e2 : le32At (encodeLeaf l ++ t) (3 + l.key.length) = l.value.length := by
    simp only [encodeLeaf, encodeKey, List.append_assoc, List.cons_append]
    rw [show ((0 : UInt8) :: (enc16 l.key.length ++ (l.key ++ (enc32 l.value.length ++ (l.value ++ t))))) =
      ([(0 : UInt8)] ++ enc16 l.key.length ++ l.key) ++ (enc32 l.value.length ++ (l.value ++ t)) by simp]
    rw [le32At_seam _ _ _ (by simp [enc16_length]; omega), le32At_enc32]; omega
  rw [e1, e2]
  refine ⟨by simp [encodeLeaf, byteAt], ?_, rfl, ?_⟩
  · simp [encodeLeaf, encodeKey, enc16_length, enc32_length]; omega
  · have s1 : slice (encodeLeaf l ++ t) 3 l.key.length = l.key := by
      simp only [encodeLeaf, encodeKey, List.append_assoc, List.cons_append]
      rw [show ((0 : UInt8) :: (enc16 l.key.length ++ (l.key ++ (enc32 l.value.length ++ (l.value ++ t))))) =
        ([(0 : UInt8)] ++ enc16 l.key.length) ++ (l.key ++ (enc32 l.value.length ++ (l.value ++ t))) by simp]
      rw [slice_seam _ _ 3 _ (by simp [enc16_length]), slice_prefix _ _ _ rfl]
    have s2 : slice (encodeLeaf l ++ t) (7 + l.key.length) l.value.length = l.value := by
      simp only [encodeLeaf, encodeKey, List.append_assoc, List.cons_append]
      rw [show ((0 : UInt8) :: (enc16 l.key.length ++ (l.key ++ (enc32 l.value.length ++ (l.value ++ t))))) =
        ([(0 : UInt8)] ++ enc16 l.key.length ++ l.key ++ enc32 l.value.length) ++ (l.value ++ t) by simp]
      rw [slice_seam _ _ _ _ (by simp [enc16_length, enc32_length]; omega), slice_prefix _ _ _ rfl]
    rw [s1, s2]



/-! ## Leaf slot of an internal node -/

/-- The answer of the leaf-slot decoder in terms of the leaf decoder. -/
def slotRes (d : Bytes) (p : Nat) : Except Err (Option Leaf × Nat) :=
  if byteAt d p = 2 then .ok (none, 1) else
  match decodeLeaf (d.drop p) with
  | .error e => .error e
  | .ok (lf, sz) => .ok (some lf, sz)

theorem slot_res (d : Bytes) (p : Nat) : (decodeLeafSlotA d p).res = slotRes d p := by
  unfold decodeLeafSlotA slotRes decodeLeaf
  split
  · rfl
  · simp only
    split <;> simp_all [Dec.fail]

theorem slot_alloc_le (d : Bytes) (p : Nat) : (decodeLeafSlotA d p).allocs.sum ≤ d.length - p := by
  unfold decodeLeafSlotA
  have := decodeLeaf_alloc_le (d.drop p)
  rw [List.length_drop] at this
  split
  · simp
  · simp only
    split <;> simpa [Dec.fail] using this

theorem slot_ok (d : Bytes) (p sz : Nat) (lf : Option Leaf) (hp : p < d.length)
    (h : slotRes d p = .ok (lf, sz)) :
    1 ≤ sz ∧ p + sz ≤ d.length ∧ encodeLeafSlot lf = slice d p sz ∧ (∀ l, lf = some l → l.WF) := by
  unfold slotRes at h
  split at h
  · rename_i h2
    simp at h
    obtain ⟨rfl, rfl⟩ := h
    refine ⟨by omega, by omega, ?_, by simp⟩
    rw [slice_one d p hp, h2]; rfl
  · split at h
    · simp at h
    · rename_i l n hd
      simp at h
      obtain ⟨rfl, rfl⟩ := h
      have ⟨hc, hwf⟩ := decodeLeaf_canonical _ _ _ hd
      obtain ⟨_, hlen, rfl, _⟩ := (decodeLeaf_ok_iff _ _ _).1 hd
      rw [List.length_drop] at hlen
      refine ⟨by omega, by omega, ?_, by simpa using hwf⟩
      simpa [slice, encodeLeafSlot] using hc


/-! ## Internal node -/

/-- Exact answer of `InternalNode.SizedUnmarshalBinary`. -/
theorem decodeInternal_eq (d : Bytes) :
    decodeInternal d =
      let ll := toBytes (le16At d 1)
      if d.length < 4 ∨ byteAt d 0 ≠ 1 then .error .malformedNode
      else if 3 + ll ≥ d.length then .error .malformedNode
      else match slotRes d (3 + ll) with
        | .error e => .error e
        | .ok (leaf, sz) =>
          if d.length ≥ 3 + ll + sz + 64 then
            .ok ({ labelBits := le16At d 1, label := slice d 3 ll, leaf := leaf,
                   children := some (optHash (slice d (3 + ll + sz) 32), optHash (slice d (3 + ll + sz + 32) 32)) },
                 3 + ll + sz + 64)
          else .ok ({ labelBits := le16At d 1, label := slice d 3 ll, leaf := leaf, children := none }, 3 + ll + sz) := by
  unfold decodeInternal decodeInternalA
  simp only [hashSize, Nat.reduceAdd, Nat.reduceMul, slot_res]
  by_cases h1 : d.length < 4
  · simp [h1, Dec.fail]
  · by_cases h2 : byteAt d 0 ≠ 1
    · simp [h1, h2, Dec.fail]
    · simp only [h1, h2, if_false, false_or]
      by_cases h3 : 3 + toBytes (le16At d 1) > d.length
      · have : 3 + toBytes (le16At d 1) ≥ d.length := by omega
        simp [h3, this, Dec.fail]
      · simp only [h3, if_false]
        by_cases h4 : 3 + toBytes (le16At d 1) ≥ d.length
        · simp [h4, Dec.fail]
        · simp only [h4, if_false]
          cases hs : slotRes d (3 + toBytes (le16At d 1)) with
          | error e => simp [Dec.fail]
          | ok r =>
            obtain ⟨leaf, sz⟩ := r
            simp only
            split <;> rename_i h5 <;> simp [h5]

theorem decodeInternal_alloc_le (d : Bytes) : (decodeInternalA d).allocs.sum ≤ d.length := by
  unfold decodeInternalA
  simp only [hashSize, Nat.reduceAdd, Nat.reduceMul]
  have hs := slot_alloc_le d (3 + toBytes (le16At d 1))
  split
  · simp [Dec.fail]
  · split
    · simp [Dec.fail]
    · split
      · simp [Dec.fail]
      · split
        · simp [Dec.fail]; omega
        · split
          · simp [Dec.fail]; omega
          · rename_i sz _
            by_cases h5 : d.length ≥ 3 + toBytes (le16At d 1) + sz + 64
            all_goals (simp [h5]; omega)


theorem hashOrEmpty_optHash (h : Bytes) : hashOrEmpty (optHash h) = h := by
  unfold optHash
  split <;> simp_all [hashOrEmpty]

theorem hashWF_optHash (h : Bytes) (hl : h.length = 32) : hashWF (optHash h) := by
  unfold optHash
  split <;> simp_all [hashWF, hashSize]

/-- Whatever `InternalNode.SizedUnmarshalBinary` accepts: it consumed a prefix of the input, that
prefix is exactly the serialization of the decoded node (full if child hashes were read, compact
otherwise), and the node is well formed. -/
theorem decodeInternal_canonical (d : Bytes) (n : Internal) (sz : Nat)
    (h : decodeInternal d = .ok (n, sz)) :
    sz ≤ d.length ∧ encodeInternal n = d.take sz ∧ n.WF := by
  rw [decodeInternal_eq] at h
  simp only at h
  split at h
  · simp at h
  · rename_i h1
    split at h
    · simp at h
    · rename_i h2
      split at h
      · simp at h
      · rename_i leaf ssz hs
        have hb := le16At_lt d 1
        have ⟨hs1, hs2, hs3, hs4⟩ := slot_ok d _ _ _ (by omega) hs
        have hlab : (slice d 3 (toBytes (le16At d 1))).length = toBytes (le16At d 1) :=
          slice_length _ _ _ (by omega)
        have h0 : byteAt d 0 = 1 := by omega
        have hpre : (1 : UInt8) :: (enc16 (le16At d 1) ++ (slice d 3 (toBytes (le16At d 1)) ++ encodeLeafSlot leaf))
            = d.take (3 + toBytes (le16At d 1) + ssz) := by
          rw [show 3 + toBytes (le16At d 1) + ssz = 0 + 1 + 2 + toBytes (le16At d 1) + ssz by omega]
          rw [take_add_slice, take_add_slice, take_add_slice, take_add_slice]
          rw [enc16_le16At d 1 (by omega), slice_one d 0 (by omega), h0, hs3]
          simp only [List.take_zero, List.nil_append, Nat.zero_add, List.cons_append, List.append_assoc]
          rfl
        split at h
        · rename_i h3
          simp at h
          obtain ⟨rfl, rfl⟩ := h
          refine ⟨by omega, ?_, ?_⟩
          · simp only [encodeInternal, encodeInternalFull, encodeInternalCompactV0, Option.getD_some,
              hashOrEmpty_optHash]
            rw [show 3 + toBytes (le16At d 1) + ssz + 64 = 3 + toBytes (le16At d 1) + ssz + 32 + 32 by omega,
              take_add_slice, take_add_slice, ← hpre]
            simp only [List.cons_append, List.append_assoc]
          · refine ⟨hb, hlab, hs4, ?_⟩
            intro c hc
            simp at hc
            subst hc
            exact ⟨hashWF_optHash _ (slice_length _ _ _ (by omega)), hashWF_optHash _ (slice_length _ _ _ (by omega))⟩
        · rename_i h3
          simp at h
          obtain ⟨rfl, rfl⟩ := h
          refine ⟨by omega, ?_, ?_⟩
          · simp only [encodeInternal, encodeInternalCompactV0]
            exact hpre
          · exact ⟨hb, hlab, hs4, by simp⟩


theorem encodeLeaf_length (l : Leaf) : (encodeLeaf l).length = 7 + l.key.length + l.value.length := by
  simp [encodeLeaf, encodeKey, enc16_length, enc32_length]; omega

theorem slot_encode (a t : Bytes) (leaf : Option Leaf) (hleaf : ∀ l, leaf = some l → l.WF) :
    slotRes (a ++ (encodeLeafSlot leaf ++ t)) a.length = .ok (leaf, (encodeLeafSlot leaf).length) := by
  unfold slotRes
  cases leaf with
  | none =>
    have : byteAt (a ++ (encodeLeafSlot none ++ t)) a.length = 2 := by
      rw [byteAt_seam0 _ _ _ rfl]; simp [encodeLeafSlot, byteAt]
    rw [if_pos this]; simp [encodeLeafSlot]
  | some l =>
    have : byteAt (a ++ (encodeLeafSlot (some l) ++ t)) a.length = 0 := by
      rw [byteAt_seam0 _ _ _ rfl]; simp [encodeLeafSlot, encodeLeaf, byteAt]
    rw [if_neg (by rw [this]; decide)]
    simp only [List.drop_left, encodeLeafSlot]
    rw [decodeLeaf_encode l t (hleaf l rfl), encodeLeaf_length]

/-- Decoding what the encoders build: prefix, bit length, label, leaf slot, then `rest`. -/
theorem decodeInternal_build (bits : Nat) (label : Bytes) (leaf : Option Leaf) (rest : Bytes)
    (hb : bits < 65536) (hl : label.length = toBytes bits) (hleaf : ∀ l, leaf = some l → l.WF) :
    decodeInternal ((1 : UInt8) :: (enc16 bits ++ (label ++ (encodeLeafSlot leaf ++ rest)))) =
      if rest.length ≥ 64 then
        .ok ({ labelBits := bits, label := label, leaf := leaf,
               children := some (optHash (slice rest 0 32), optHash (slice rest 32 32)) },
             3 + label.length + (encodeLeafSlot leaf).length + 64)
      else
        .ok ({ labelBits := bits, label := label, leaf := leaf, children := none },
             3 + label.length + (encodeLeafSlot leaf).length) := by
  have hsl : 1 ≤ (encodeLeafSlot leaf).length := by
    cases leaf with
    | none => simp [encodeLeafSlot]
    | some l => simp [encodeLeafSlot, encodeLeaf_length]; omega
  generalize hd : ((1 : UInt8) :: (enc16 bits ++ (label ++ (encodeLeafSlot leaf ++ rest)))) = d
  have hlen : d.length = 3 + label.length + (encodeLeafSlot leaf).length + rest.length := by
    subst hd; simp [enc16_length]; omega
  have h0 : byteAt d 0 = 1 := by subst hd; simp [byteAt]
  have hbits : le16At d 1 = bits := by
    subst hd
    rw [show ((1 : UInt8) :: (enc16 bits ++ (label ++ (encodeLeafSlot leaf ++ rest)))) =
      [(1 : UInt8)] ++ (enc16 bits ++ (label ++ (encodeLeafSlot leaf ++ rest))) by rfl]
    rw [le16At_seam _ _ 1 rfl, le16At_enc16]; omega
  have hlabel : slice d 3 label.length = label := by
    subst hd
    rw [show ((1 : UInt8) :: (enc16 bits ++ (label ++ (encodeLeafSlot leaf ++ rest)))) =
      ([(1 : UInt8)] ++ enc16 bits) ++ (label ++ (encodeLeafSlot leaf ++ rest)) by simp]
    rw [slice_seam _ _ 3 _ (by simp [enc16_length]), slice_prefix _ _ _ rfl]
  have hslot : slotRes d (3 + label.length) = .ok (leaf, (encodeLeafSlot leaf).length) := by
    subst hd
    rw [show ((1 : UInt8) :: (enc16 bits ++ (label ++ (encodeLeafSlot leaf ++ rest)))) =
      ([(1 : UInt8)] ++ enc16 bits ++ label) ++ (encodeLeafSlot leaf ++ rest) by simp]
    rw [show 3 + label.length = ([(1 : UInt8)] ++ enc16 bits ++ label).length by simp [enc16_length]; omega]
    exact slot_encode _ _ _ hleaf
  have hrest : ∀ q n, slice d (3 + label.length + (encodeLeafSlot leaf).length + q) n = slice rest q n := by
    intro q n
    subst hd
    rw [show ((1 : UInt8) :: (enc16 bits ++ (label ++ (encodeLeafSlot leaf ++ rest)))) =
      ([(1 : UInt8)] ++ enc16 bits ++ label ++ encodeLeafSlot leaf) ++ rest by simp]
    rw [show 3 + label.length + (encodeLeafSlot leaf).length =
      ([(1 : UInt8)] ++ enc16 bits ++ label ++ encodeLeafSlot leaf).length by simp [enc16_length]; omega]
    exact slice_append_right _ _ _ _
  rw [decodeInternal_eq]
  simp only [hbits, ← hl, hslot, hlabel]
  have c1 : ¬ (d.length < 4 ∨ byteAt d 0 ≠ 1) := by omega
  have c2 : ¬ (3 + label.length ≥ d.length) := by omega
  simp only [c1, c2, if_false]
  have e0 := hrest 0 32
  have e32 := hrest 32 32
  simp only [Nat.add_zero] at e0
  by_cases hr : rest.length ≥ 64
  · have : d.length ≥ 3 + label.length + (encodeLeafSlot leaf).length + 64 := by omega
    simp only [hr, this, if_true, e0, e32]
  · have : ¬ d.length ≥ 3 + label.length + (encodeLeafSlot leaf).length + 64 := by omega
    simp only [hr, this, if_false]





/-! ## Depth -/
theorem decodeDepth_ok_iff (d : Bytes) (v n : Nat) :
    decodeDepth d = .ok (v, n) ↔ 2 ≤ d.length ∧ n = 2 ∧ v = le16At d 0 := by
  unfold decodeDepth decodeDepthA
  by_cases h : d.length < 2
  · simp [h, Dec.fail]; omega
  · simp [h]
    constructor
    · rintro ⟨rfl, rfl⟩; exact ⟨by omega, rfl, rfl⟩
    · rintro ⟨_, rfl, rfl⟩; simp

theorem decodeDepth_encode (bits : Nat) (t : Bytes) (h : bits < 65536) :
    decodeDepth (encodeDepth bits ++ t) = .ok (bits, 2) := by
  rw [decodeDepth_ok_iff]
  refine ⟨by simp [encodeDepth, enc16_length], rfl, ?_⟩
  simp only [encodeDepth]; rw [le16At_enc16]; omega

theorem decodeDepth_canonical (d : Bytes) (v n : Nat) (h : decodeDepth d = .ok (v, n)) :
    n ≤ d.length ∧ encodeDepth v = d.take n ∧ v < 65536 := by
  obtain ⟨h2, rfl, rfl⟩ := (decodeDepth_ok_iff d v n).1 h
  refine ⟨h2, ?_, le16At_lt d 0⟩
  simp only [encodeDepth]
  rw [enc16_le16At d 0 (by omega)]; simp [slice]

/-! ## Key (remaining) -/
theorem decodeKey_alloc_le (d : Bytes) : (decodeKeyA d).allocs.sum ≤ d.length := by
  rw [decodeKeyA_eq]
  split
  · simp [Dec.fail]
  · simp; omega

theorem decodeKey_canonical (d k : Bytes) (n : Nat) (h : decodeKey d = .ok (k, n)) :
    n ≤ d.length ∧ encodeKey k = d.take n ∧ k.length < 65536 := by
  obtain ⟨hl, rfl, rfl⟩ := (decodeKey_ok_iff d k n).1 h
  have hk : (slice d 2 (le16At d 0)).length = le16At d 0 := slice_length _ _ _ (by omega)
  refine ⟨hl, ?_, by rw [hk]; exact le16At_lt d 0⟩
  simp only [encodeKey, hk]
  rw [show 2 + le16At d 0 = 0 + 2 + le16At d 0 by omega, take_add_slice, take_add_slice,
    enc16_le16At d 0 (by omega)]
  simp

/-! ## node.UnmarshalBinary -/

theorem unmarshalNode_eq (d : Bytes) :
    unmarshalNode d =
      if d.length > 1 then
        if byteAt d 0 = 0 then
          match decodeLeaf d with
          | .error e => .error e
          | .ok (l, n) => .ok (.leaf l, n)
        else if byteAt d 0 = 1 then
          match decodeInternal d with
          | .error e => .error e
          | .ok (nd, n) => .ok (.internal nd, n)
        else .error .malformedNode
      else .error .malformedNode := by
  unfold unmarshalNode unmarshalNodeA decodeLeaf decodeInternal
  split
  · split
    · simp only; split <;> simp_all [Dec.fail]
    · split
      · simp only; split <;> simp_all [Dec.fail]
      · rfl
  · rfl

theorem unmarshalNode_alloc_le (d : Bytes) : (unmarshalNodeA d).allocs.sum ≤ d.length := by
  unfold unmarshalNodeA
  have hl := decodeLeaf_alloc_le d
  have hi := decodeInternal_alloc_le d
  split
  · split
    · simp only; split <;> simpa [Dec.fail] using hl
    · split
      · simp only; split <;> simpa [Dec.fail] using hi
      · simp [Dec.fail]
  · simp [Dec.fail]

theorem unmarshalNode_canonical (d : Bytes) (x : Node) (n : Nat) (h : unmarshalNode d = .ok (x, n)) :
    n ≤ d.length ∧ encodeNode x = d.take n ∧ x.WF := by
  rw [unmarshalNode_eq] at h
  split at h
  · split at h
    · split at h
      · simp at h
      · rename_i l m hd
        simp at h; obtain ⟨rfl, rfl⟩ := h
        have ⟨hc, hw⟩ := decodeLeaf_canonical d l m hd
        obtain ⟨_, hlen, rfl, _⟩ := (decodeLeaf_ok_iff d l _).1 hd
        exact ⟨hlen, hc, hw⟩
    · split at h
      · split at h
        · simp at h
        · rename_i nd m hd
          simp at h; obtain ⟨rfl, rfl⟩ := h
          exact decodeInternal_canonical d nd m hd
      · simp at h
  · simp at h




theorem emptyHash_length : emptyHash.length = 32 := by decide

theorem hashOrEmpty_length (o : Option Bytes) (h : hashWF o) : (hashOrEmpty o).length = 32 := by
  cases o with
  | none => exact emptyHash_length
  | some x => exact h.1

theorem optHash_hashOrEmpty (o : Option Bytes) (h : hashWF o) : optHash (hashOrEmpty o) = o := by
  cases o with
  | none => simp [hashOrEmpty, optHash]
  | some x => simp [hashOrEmpty, optHash, h.2]

theorem encodeLeafSlot_length_pos (leaf : Option Leaf) : 1 ≤ (encodeLeafSlot leaf).length := by
  cases leaf with
  | none => simp [encodeLeafSlot]
  | some l => simp [encodeLeafSlot, encodeLeaf_length]; omega

/-- Round trip, full serialization (`MarshalBinary`), any trailing bytes. -/
theorem decodeInternal_encodeFull (n : Internal) (hn : n.WF) (c : Option Bytes × Option Bytes)
    (hc : n.children = some c) (t : Bytes) :
    decodeInternal (encodeInternalFull n ++ t) = .ok (n, (encodeInternalFull n).length) := by
  obtain ⟨hb, hl, hleaf, hch⟩ := hn
  obtain ⟨h1, h2⟩ := hch c hc
  have l1 := hashOrEmpty_length _ h1
  have l2 := hashOrEmpty_length _ h2
  have e : encodeInternalFull n ++ t =
      (1 : UInt8) :: (enc16 n.labelBits ++ (n.label ++ (encodeLeafSlot n.leaf ++ (hashOrEmpty c.1 ++ (hashOrEmpty c.2 ++ t))))) := by
    simp [encodeInternalFull, encodeInternalCompactV0, hc]
  rw [e, decodeInternal_build _ _ _ _ hb hl hleaf]
  have hr : (hashOrEmpty c.1 ++ (hashOrEmpty c.2 ++ t)).length ≥ 64 := by simp [l1, l2]; omega
  simp only [hr, if_true]
  have s1 : slice (hashOrEmpty c.1 ++ (hashOrEmpty c.2 ++ t)) 0 32 = hashOrEmpty c.1 := slice_prefix _ _ _ l1.symm
  have s2 : slice (hashOrEmpty c.1 ++ (hashOrEmpty c.2 ++ t)) 32 32 = hashOrEmpty c.2 := by
    rw [slice_seam _ _ 32 _ l1.symm, slice_prefix _ _ _ l2.symm]
  rw [s1, s2, optHash_hashOrEmpty _ h1, optHash_hashOrEmpty _ h2]
  have hlen : (encodeInternalFull n).length = 3 + n.label.length + (encodeLeafSlot n.leaf).length + 64 := by
    simp [encodeInternalFull, encodeInternalCompactV0, hc, enc16_length, l1, l2]; omega
  rw [hlen]
  cases n with
  | mk bits label leaf children => simp at hc; subst hc; rfl

/-- Round trip, compact V0 serialization (proof version 0), fewer than 64 trailing bytes. -/
theorem decodeInternal_encodeCompactV0 (n : Internal) (hn : n.WF) (t : Bytes) (ht : t.length < 64) :
    decodeInternal (encodeInternalCompactV0 n ++ t) =
      .ok ({ n with children := none }, (encodeInternalCompactV0 n).length) := by
  obtain ⟨hb, hl, hleaf, _⟩ := hn
  have e : encodeInternalCompactV0 n ++ t =
      (1 : UInt8) :: (enc16 n.labelBits ++ (n.label ++ (encodeLeafSlot n.leaf ++ t))) := by
    simp [encodeInternalCompactV0]
  rw [e, decodeInternal_build _ _ _ _ hb hl hleaf]
  have hr : ¬ t.length ≥ 64 := by omega
  simp only [hr, if_false]
  have hlen : (encodeInternalCompactV0 n).length = 3 + n.label.length + (encodeLeafSlot n.leaf).length := by
    simp [encodeInternalCompactV0, enc16_length]; omega
  rw [hlen]

/-- Round trip, compact V1 serialization (proof version 1: the leaf is never included). -/
theorem decodeInternal_encodeCompactV1 (n : Internal) (hn : n.WF) (t : Bytes) (ht : t.length < 64) :
    decodeInternal (encodeInternalCompactV1 n ++ t) =
      .ok ({ n with leaf := none, children := none }, (encodeInternalCompactV1 n).length) := by
  obtain ⟨hb, hl, _, _⟩ := hn
  have e : encodeInternalCompactV1 n ++ t =
      (1 : UInt8) :: (enc16 n.labelBits ++ (n.label ++ (encodeLeafSlot none ++ t))) := by
    simp [encodeInternalCompactV1, encodeLeafSlot]
  rw [e, decodeInternal_build _ _ _ _ hb hl (by simp)]
  have hr : ¬ t.length ≥ 64 := by omega
  simp only [hr, if_false]
  have hlen : (encodeInternalCompactV1 n).length = 3 + n.label.length + (encodeLeafSlot none).length := by
    simp [encodeInternalCompactV1, encodeLeafSlot, enc16_length]; omega
  rw [hlen]

/-- The serialization formats are not self-delimiting: a compact serialization followed by 64 or
more bytes is read as a full one (the trailing bytes become child hashes).  Callers must pass
exactly one serialization (the proof verifier does: one entry = one node). -/
theorem decodeInternal_compact_long_tail (n : Internal) (hn : n.WF) (t : Bytes) (ht : t.length ≥ 64) :
    decodeInternal (encodeInternalCompactV0 n ++ t) =
      .ok ({ n with children := some (optHash (slice t 0 32), optHash (slice t 32 32)) },
           (encodeInternalCompactV0 n).length + 64) := by
  obtain ⟨hb, hl, hleaf, _⟩ := hn
  have e : encodeInternalCompactV0 n ++ t =
      (1 : UInt8) :: (enc16 n.labelBits ++ (n.label ++ (encodeLeafSlot n.leaf ++ t))) := by
    simp [encodeInternalCompactV0]
  rw [e, decodeInternal_build _ _ _ _ hb hl hleaf]
  simp only [ht, if_true]
  have hlen : (encodeInternalCompactV0 n).length = 3 + n.label.length + (encodeLeafSlot n.leaf).length := by
    simp [encodeInternalCompactV0, enc16_length]; omega
  rw [hlen]





/-- Round trip through `node.UnmarshalBinary` for exactly one serialization (what the proof
verifier passes), or with trailing bytes where the format tolerates them. -/
theorem unmarshalNode_encode (x : Node) (hx : x.WF) (t : Bytes)
    (ht : ∀ n, x = .internal n → n.children = none → t.length < 64) :
    unmarshalNode (encodeNode x ++ t) = .ok (x, (encodeNode x).length) := by
  rw [unmarshalNode_eq]
  cases x with
  | leaf l =>
    have hlen : (encodeNode (.leaf l) ++ t).length > 1 := by
      simp [encodeNode, encodeLeaf_length]; omega
    have h0 : byteAt (encodeNode (.leaf l) ++ t) 0 = 0 := by simp [encodeNode, encodeLeaf, byteAt]
    rw [if_pos hlen, if_pos h0]
    simp only [encodeNode]
    rw [decodeLeaf_encode l t hx, encodeLeaf_length]
  | internal n =>
    have hpos := encodeLeafSlot_length_pos n.leaf
    cases hc : n.children with
    | none =>
      have hlen : (encodeNode (.internal n) ++ t).length > 1 := by
        simp [encodeNode, encodeInternal, hc, encodeInternalCompactV0, enc16_length]; omega
      have h0 : byteAt (encodeNode (.internal n) ++ t) 0 = 1 := by
        simp [encodeNode, encodeInternal, hc, encodeInternalCompactV0, byteAt]
      have h00 : ¬ byteAt (encodeNode (.internal n) ++ t) 0 = 0 := by omega
      rw [if_pos hlen, if_neg h00, if_pos h0]
      simp only [encodeNode, encodeInternal, hc]
      rw [decodeInternal_encodeCompactV0 n hx t (ht n rfl hc)]
      cases n with
      | mk bits label leaf children => simp at hc; subst hc; rfl
    | some c =>
      have hlen : (encodeNode (.internal n) ++ t).length > 1 := by
        simp [encodeNode, encodeInternal, hc, encodeInternalFull, encodeInternalCompactV0, enc16_length]; omega
      have h0 : byteAt (encodeNode (.internal n) ++ t) 0 = 1 := by
        simp [encodeNode, encodeInternal, hc, encodeInternalFull, encodeInternalCompactV0, byteAt]
      have h00 : ¬ byteAt (encodeNode (.internal n) ++ t) 0 = 0 := by omega
      rw [if_pos hlen, if_neg h00, if_pos h0]
      simp only [encodeNode, encodeInternal, hc]
      rw [decodeInternal_encodeFull n hx c hc t]

/-! ## Proof entries -/

theorem decodeEntry_eq (b : Bytes) :
    decodeEntry (some b) =
      if b.length = 0 then .error .malformedProof
      else if byteAt b 0 = 1 then
        match unmarshalNode (b.drop 1) with
        | .error e => .error e
        | .ok (nd, sz) => .ok (.full nd, 1 + sz)
      else if byteAt b 0 = 2 then
        if (b.drop 1).length ≠ hashSize then .error .malformedHash else .ok (.hash (b.drop 1), 1 + hashSize)
      else .error .unexpectedEntry := by
  simp only [decodeEntry, decodeEntryA, unmarshalNode, decodeHashA]
  by_cases h0 : b.length = 0
  · rw [if_pos h0, if_pos h0]; rfl
  · rw [if_neg h0, if_neg h0]
    by_cases h1 : byteAt b 0 = 1
    · rw [if_pos h1, if_pos h1]
      split <;> simp_all [Dec.fail]
    · rw [if_neg h1, if_neg h1]
      by_cases h2 : byteAt b 0 = 2
      · rw [if_pos h2, if_pos h2]
        by_cases hl : (b.drop 1).length ≠ hashSize
        · rw [if_pos hl, if_pos hl]; rfl
        · rw [if_neg hl, if_neg hl]
      · rw [if_neg h2, if_neg h2]; rfl

theorem decodeEntry_alloc_le (e : Option Bytes) :
    (decodeEntryA e).allocs.sum ≤ (e.getD []).length := by
  cases e with
  | none => simp [decodeEntryA]
  | some b =>
    simp only [decodeEntryA, Option.getD_some]
    have hn := unmarshalNode_alloc_le (b.drop 1)
    rw [List.length_drop] at hn
    by_cases h0 : b.length = 0
    · simp [h0, Dec.fail]
    · rw [if_neg h0]
      by_cases h1 : byteAt b 0 = 1
      · rw [if_pos h1]
        split <;> (simp only [Dec.fail]; omega)
      · rw [if_neg h1]
        by_cases h2 : byteAt b 0 = 2
        · rw [if_pos h2]
          split <;> simp [Dec.fail]
        · rw [if_neg h2]; simp [Dec.fail]

/-- An accepted entry was read completely inside its own bytes. -/
theorem decodeEntry_consumed_le (b : Bytes) (x : Entry) (n : Nat)
    (h : decodeEntry (some b) = .ok (x, n)) : n ≤ b.length := by
  rw [decodeEntry_eq] at h
  split at h
  · simp at h
  · rename_i hne
    split at h
    · split at h
      · simp at h
      · rename_i nd sz hd
        simp at h
        have := (unmarshalNode_canonical (b.drop 1) nd sz hd).1
        rw [List.length_drop] at this
        omega
    · split at h
      · split at h
        · simp at h
        · rename_i hl
          simp at h
          rw [List.length_drop] at hl
          simp only [hashSize] at hl h
          omega
      · simp at h





/-- Entries a proof builder can emit: hashes are 32 bytes, nodes are well formed and compact. -/
def entryWF : Entry → Prop
  | .nil => True
  | .hash h => h.length = hashSize
  | .full x => x.WF ∧ ∀ n, x = .internal n → n.children = none

/-- What the verifier reads back: version 1 entries never carry the leaf inside the node. -/
def entryNorm (v : Nat) : Entry → Entry
  | .full (.internal n) => .full (.internal (if v = 0 then n else { n with leaf := none }))
  | e => e

theorem decodeEntry_encode (v : Nat) (x : Entry) (hx : entryWF x) :
    decodeEntry (encodeEntry v x) = .ok (entryNorm v x, ((encodeEntry v x).getD []).length) := by
  cases x with
  | nil => simp [encodeEntry, decodeEntry, decodeEntryA, entryNorm]
  | hash h =>
    simp only [encodeEntry, entryNorm]
    rw [decodeEntry_eq]
    have h0 : ¬ (((2 : UInt8) :: h).length = 0) := by simp
    have h1 : ¬ byteAt ((2 : UInt8) :: h) 0 = 1 := by simp [byteAt]
    have h2 : byteAt ((2 : UInt8) :: h) 0 = 2 := by simp [byteAt]
    have hl : ¬ (List.drop 1 ((2 : UInt8) :: h)).length ≠ hashSize := by simpa [entryWF] using hx
    rw [if_neg h0, if_neg h1, if_pos h2, if_neg hl]
    simp [entryWF] at hx
    simp [hx]; omega
  | full nd =>
    obtain ⟨hw, hc⟩ := hx
    cases nd with
    | leaf l =>
      simp only [encodeEntry, entryNorm]
      rw [decodeEntry_eq]
      have h0 : ¬ (((1 : UInt8) :: encodeLeaf l).length = 0) := by simp
      have h1 : byteAt ((1 : UInt8) :: encodeLeaf l) 0 = 1 := by simp [byteAt]
      rw [if_neg h0, if_pos h1]
      have := unmarshalNode_encode (.leaf l) hw [] (by simp)
      simp only [encodeNode, List.append_nil] at this
      simp only [List.drop_succ_cons, List.drop_zero, this]
      simp; omega
    | internal n =>
      have hcn := hc n rfl
      simp only [encodeEntry, entryNorm]
      rw [decodeEntry_eq]
      by_cases hv : v = 0
      · simp only [hv, if_true]
        have h0 : ¬ (((1 : UInt8) :: encodeInternalCompactV0 n).length = 0) := by simp
        have h1 : byteAt ((1 : UInt8) :: encodeInternalCompactV0 n) 0 = 1 := by simp [byteAt]
        rw [if_neg h0, if_pos h1]
        have := unmarshalNode_encode (.internal n) hw [] (by simp)
        simp only [encodeNode, encodeInternal, hcn, List.append_nil] at this
        simp only [List.drop_succ_cons, List.drop_zero, this]
        simp; omega
      · simp only [hv, if_false]
        have h0 : ¬ (((1 : UInt8) :: encodeInternalCompactV1 n).length = 0) := by simp
        have h1 : byteAt ((1 : UInt8) :: encodeInternalCompactV1 n) 0 = 1 := by simp [byteAt]
        rw [if_neg h0, if_pos h1]
        have hw' : (Node.internal { n with leaf := none }).WF := by
          obtain ⟨a, b, _, d⟩ := hw
          exact ⟨a, b, by simp, d⟩
        have := unmarshalNode_encode (.internal { n with leaf := none }) hw' [] (by simp)
        simp only [encodeNode, encodeInternal, hcn, List.append_nil] at this
        have e : encodeInternalCompactV0 { labelBits := n.labelBits, label := n.label, leaf := none, children := none }
            = encodeInternalCompactV1 n := by
          simp [encodeInternalCompactV0, encodeInternalCompactV1, encodeLeafSlot]
        rw [e] at this
        simp only [List.drop_succ_cons, List.drop_zero, this, hcn]
        simp; omega





/-- Total size of the entries from index `k` on. -/
def bytesFrom (es : List (Option Bytes)) (k : Nat) : Nat :=
  ((es.drop k).map fun e => (e.getD []).length).sum

theorem bytesFrom_step (es : List (Option Bytes)) (k : Nat) (h : k < es.length) :
    bytesFrom es k = ((es.getD k none).getD []).length + bytesFrom es (k + 1) := by
  unfold bytesFrom
  rw [List.drop_eq_getElem_cons h]
  simp only [List.map_cons, List.sum_cons, List.getD_eq_getElem?_getD, List.getElem?_eq_getElem h, Option.getD_some]

theorem bytesFrom_mono (es : List (Option Bytes)) (a b : Nat) (h : a ≤ b) : bytesFrom es b ≤ bytesFrom es a := by
  induction h with
  | refl => exact Nat.le_refl _
  | step hab ih =>
    rename_i m
    by_cases hm : m < es.length
    · rw [bytesFrom_step es m hm] at ih
      show bytesFrom es (m + 1) ≤ _
      omega
    · have : bytesFrom es (m + 1) = 0 := by
        unfold bytesFrom; rw [List.drop_eq_nil_of_le (by omega)]; rfl
      show bytesFrom es (m + 1) ≤ _
      omega

/-- The invariant of one `verifyProof` invocation (see `verify_*` below for the readable corollaries). -/
def VerifyInv (es : List (Option Bytes)) (idx : Nat) (s : VStats) (r : VStats × Except Err (Nat × PTree)) : Prop :=
  r.1.maxDepth ≤ max s.maxDepth (maxProofDepth + 1) ∧
  match r.2 with
  | .ok (idx', _) =>
      idx < idx' ∧ idx' ≤ es.length ∧ r.1.calls = s.calls + (idx' - idx) ∧
      r.1.allocBytes + bytesFrom es idx' ≤ s.allocBytes + bytesFrom es idx
  | .error _ =>
      r.1.calls ≤ s.calls + (es.length - idx) + 1 ∧ r.1.allocBytes ≤ s.allocBytes + bytesFrom es idx

/-- The part of `verifyProof` after an internal-node entry was decoded (leaf slot, left, right). -/
def contInternal (v : Nat) (es : List (Option Bytes)) (idx depth : Nat) (n : Internal) (s1 : VStats) :
    VStats × Except Err (Nat × PTree) :=
  match (if v = 0 then (s1, .ok (idx + 1, PTree.ofLeafSlot n.leaf)) else verify v es (idx + 1) (depth + 1) s1 :
      VStats × Except Err (Nat × PTree)) with
  | (s, .error err) => (s, .error err)
  | (s, .ok (pos, lf)) =>
    match verify v es pos (depth + 1) s with
    | (s, .error err) => (s, .error err)
    | (s, .ok (pos, l)) =>
      match verify v es pos (depth + 1) s with
      | (s, .error err) => (s, .error err)
      | (s, .ok (pos, r)) => (s, .ok (pos, .inode n lf l r))

/-- Like `VerifyInv` but allowing zero progress (the embedded leaf slot of version 0). -/
def StepInv (es : List (Option Bytes)) (a : Nat) (s : VStats) (r : VStats × Except Err (Nat × PTree)) : Prop :=
  r.1.maxDepth ≤ max s.maxDepth (maxProofDepth + 1) ∧
  match r.2 with
  | .ok (a', _) =>
      a ≤ a' ∧ a' ≤ es.length ∧ r.1.calls = s.calls + (a' - a) ∧
      r.1.allocBytes + bytesFrom es a' ≤ s.allocBytes + bytesFrom es a
  | .error _ =>
      r.1.calls ≤ s.calls + (es.length - a) + 1 ∧ r.1.allocBytes ≤ s.allocBytes + bytesFrom es a

theorem VerifyInv.step {es a s r} (h : VerifyInv es a s r) : StepInv es a s r := by
  obtain ⟨h1, h2⟩ := h
  refine ⟨h1, ?_⟩
  cases hr : r.2 with
  | error e => rw [hr] at h2; exact h2
  | ok p => rw [hr] at h2; exact ⟨by omega, h2.2.1, h2.2.2.1, h2.2.2.2⟩

theorem cont_inv (v : Nat) (es : List (Option Bytes)) (idx depth : Nat) (n : Internal) (s1 : VStats)
    (hidx : idx < es.length)
    (ihc : ∀ idx' s', VerifyInv es idx' s' (verify v es idx' (depth + 1) s')) :
    StepInv es (idx + 1) s1 (contInternal v es idx depth n s1) := by
  unfold contInternal
  -- the leaf slot
  have hrl : StepInv es (idx + 1) s1
      (if v = 0 then (s1, .ok (idx + 1, PTree.ofLeafSlot n.leaf)) else verify v es (idx + 1) (depth + 1) s1) := by
    by_cases hv : v = 0
    · simp only [hv, if_true, StepInv]; exact ⟨by omega, by omega, by omega, by omega, by omega⟩
    · simp only [hv, if_false]; exact (ihc _ _).step
  generalize (if v = 0 then (s1, Except.ok (idx + 1, PTree.ofLeafSlot n.leaf)) else verify v es (idx + 1) (depth + 1) s1 :
      VStats × Except Err (Nat × PTree)) = rl at hrl
  obtain ⟨sa, ra⟩ := rl
  cases ra with
  | error e => exact hrl
  | ok pa =>
    obtain ⟨p1, lf⟩ := pa
    obtain ⟨hd1, h1a, h1b, h1c, h1d⟩ := hrl
    simp only [StepInv] at hd1 h1a h1b h1c h1d ⊢
    have hl := (ihc p1 sa).step
    generalize verify v es p1 (depth + 1) sa = r2 at hl
    obtain ⟨sb, rb⟩ := r2
    cases rb with
    | error e =>
      obtain ⟨hd2, h2a, h2b⟩ := hl
      simp only [StepInv] at hd2 h2a h2b ⊢
      have := bytesFrom_mono es (idx + 1) p1 h1a
      exact ⟨by omega, by omega, by omega⟩
    | ok pb =>
      obtain ⟨p2, l⟩ := pb
      obtain ⟨hd2, h2a, h2b, h2c, h2d⟩ := hl
      simp only [StepInv] at hd2 h2a h2b h2c h2d ⊢
      have hr := (ihc p2 sb).step
      generalize verify v es p2 (depth + 1) sb = r3 at hr
      obtain ⟨sc, rc⟩ := r3
      cases rc with
      | error e =>
        obtain ⟨hd3, h3a, h3b⟩ := hr
        simp only [StepInv] at hd3 h3a h3b ⊢
        have := bytesFrom_mono es (idx + 1) p1 h1a
        have := bytesFrom_mono es p1 p2 h2a
        exact ⟨by omega, by omega, by omega⟩
      | ok pc =>
        obtain ⟨p3, r⟩ := pc
        obtain ⟨hd3, h3a, h3b, h3c, h3d⟩ := hr
        simp only [StepInv] at hd3 h3a h3b h3c h3d ⊢
        exact ⟨by omega, by omega, by omega, by omega, by omega⟩

theorem verify_inv (v : Nat) (es : List (Option Bytes)) (k : Nat) :
    ∀ idx depth s, maxProofDepth + 1 - depth = k → depth ≤ maxProofDepth + 1 →
      VerifyInv es idx s (verify v es idx depth s) := by
  induction k with
  | zero =>
    intro idx depth s hk hd
    have hgt : depth > maxProofDepth := by omega
    rw [verify]
    simp only [VStats.enter]
    by_cases h1 : idx ≥ es.length
    · simp only [h1, if_true, VerifyInv]; refine ⟨by omega, by omega, by omega⟩
    · simp only [h1, if_false, hgt, dite_true, VerifyInv]; refine ⟨by omega, by omega, by omega⟩
  | succ k ih =>
    intro idx depth s hk hd
    have hle : ¬ depth > maxProofDepth := by omega
    have ihc := fun idx' s' => ih idx' (depth + 1) s' (by omega) (by omega)
    rw [verify]
    simp only [VStats.enter]
    by_cases h1 : idx ≥ es.length
    · simp only [h1, if_true, VerifyInv]; refine ⟨by omega, by omega, by omega⟩
    · simp only [h1, if_false, hle, dite_false]
      have hidx : idx < es.length := by omega
      have hB := bytesFrom_step es idx hidx
      have hA := decodeEntry_alloc_le (es.getD idx none)
      have hB1 := bytesFrom_mono es (idx + 1) es.length (by omega)
      have hcont := fun n s1 => cont_inv v es idx depth n s1 hidx ihc
      split
      · simp only [VerifyInv]; exact ⟨by omega, by omega, by omega⟩
      · simp only [VerifyInv]; exact ⟨by omega, by omega, by omega, by omega, by omega⟩
      · simp only [VerifyInv]; exact ⟨by omega, by omega, by omega, by omega, by omega⟩
      · simp only [VerifyInv]; exact ⟨by omega, by omega, by omega, by omega, by omega⟩
      · rename_i n snd hres
        have hc := hcont n ⟨s.calls + 1, max s.maxDepth depth, s.allocBytes + (decodeEntryA (es.getD idx none)).allocs.sum⟩
        show VerifyInv es idx s (contInternal v es idx depth n
          ⟨s.calls + 1, max s.maxDepth depth, s.allocBytes + (decodeEntryA (es.getD idx none)).allocs.sum⟩)
        generalize contInternal v es idx depth n
          ⟨s.calls + 1, max s.maxDepth depth, s.allocBytes + (decodeEntryA (es.getD idx none)).allocs.sum⟩ = res at hc ⊢
        obtain ⟨sr, rr⟩ := res
        obtain ⟨hd1, hm⟩ := hc
        cases rr with
        | error e =>
          simp only [VerifyInv] at hd1 hm ⊢
          exact ⟨by omega, by omega, by omega⟩
        | ok pr =>
          obtain ⟨p, t⟩ := pr
          simp only [VerifyInv] at hd1 hm ⊢
          exact ⟨by omega, by omega, by omega, by omega, by omega⟩


end OasisProofs.CodecLemmas
