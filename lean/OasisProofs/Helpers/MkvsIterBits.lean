import OasisProofs.Helpers.MkvsHash
import OasisModel.Mkvs.Iter
/-
Bit-string facts behind the tree iterator's key surgery (iterator.go:256-341): what `AppendBit`,
`advanceKeyToRight` and `takeFirst` mean for the lexicographic comparison of the seek key with the
keys stored below a node.
-/
namespace OasisProofs.Mkvs
open OasisModel.Mkvs OasisModel.Mkvs.Iter

abbrev zeros (m : Nat) : Bits := List.replicate m false

/-! ### order on bit strings -/

theorem bits_lt_irrefl (a : Bits) : ¬ a < a := by
  induction a with
  | nil => exact List.not_lt_nil _
  | cons x a ih =>
    simp only [List.cons_lt_cons_iff, true_and, not_or]
    exact ⟨by cases x <;> decide, ih⟩

theorem bits_trichotomy (a b : Bits) : a < b ∨ a = b ∨ b < a := by
  induction a generalizing b with
  | nil => cases b with
    | nil => exact Or.inr (Or.inl rfl)
    | cons y b => exact Or.inl (List.nil_lt_cons _ _)
  | cons x a ih => cases b with
    | nil => exact Or.inr (Or.inr (List.nil_lt_cons _ _))
    | cons y b =>
      simp only [List.cons_lt_cons_iff, List.cons.injEq]
      cases x <;> cases y
      · rcases ih b with h | h | h
        · exact Or.inl (Or.inr ⟨rfl, h⟩)
        · exact Or.inr (Or.inl ⟨rfl, h⟩)
        · exact Or.inr (Or.inr (Or.inr ⟨rfl, h⟩))
      · exact Or.inl (Or.inl (by decide))
      · exact Or.inr (Or.inr (Or.inl (by decide)))
      · rcases ih b with h | h | h
        · exact Or.inl (Or.inr ⟨rfl, h⟩)
        · exact Or.inr (Or.inl ⟨rfl, h⟩)
        · exact Or.inr (Or.inr (Or.inr ⟨rfl, h⟩))

theorem bits_lt_asymm {a b : Bits} (h : a < b) : ¬ b < a := by
  induction a generalizing b with
  | nil => exact List.not_lt_nil _
  | cons x a ih =>
    cases b with
    | nil => exact absurd h (List.not_lt_nil _)
    | cons y b =>
      simp only [List.cons_lt_cons_iff] at h ⊢
      rintro (h2 | ⟨h2, h3⟩)
      · rcases h with h | ⟨h, _⟩
        · cases x <;> cases y <;> first | exact absurd h (by decide) | exact absurd h2 (by decide)
        · subst h; cases x <;> exact absurd h2 (by decide)
      · subst h2
        rcases h with h | ⟨_, h⟩
        · cases y <;> exact absurd h (by decide)
        · exact ih h h3

/-- Equal-length prefixes decide the comparison. -/
theorem lt_of_prefix_lt {u w : Bits} (h : u.length = w.length) (hlt : u < w) (s t : Bits) :
    u ++ s < w ++ t := (append_lt_append_iff h).2 (Or.inl hlt)

theorem append_lt_append_left_iff (p a b : Bits) : p ++ a < p ++ b ↔ a < b := by
  rw [append_lt_append_iff rfl]
  constructor
  · rintro (h | ⟨_, h⟩)
    · exact absurd h (bits_lt_irrefl p)
    · exact h
  · intro h; exact Or.inr ⟨rfl, h⟩

/-- Nothing at least as long as `0^m` is below `0^m`. -/
theorem not_lt_zeros (x : Bits) (m : Nat) (h : m ≤ x.length) : ¬ x < zeros m := by
  induction m generalizing x with
  | zero => exact List.not_lt_nil _
  | succ m ih =>
    cases x with
    | nil => simp at h
    | cons b x =>
      simp only [zeros, List.replicate_succ, List.cons_lt_cons_iff, not_or, not_and]
      refine ⟨by cases b <;> decide, fun _ => ih x (by simpa using h)⟩

/-- Padding the bound with zeros does not change the comparison with strings that are long enough. -/
theorem lt_pad_iff (x kb : Bits) (m : Nat) (h : kb.length + m ≤ x.length) :
    x < kb ↔ x < kb ++ zeros m := by
  have hx : x = x.take kb.length ++ x.drop kb.length := (List.take_append_drop _ _).symm
  have hl : (x.take kb.length).length = kb.length := by simp; omega
  have e1 : x < kb ↔ x.take kb.length < kb := by
    conv => lhs; rw [hx]
    have := append_lt_append_iff (s := x.drop kb.length) (t := []) hl
    simp only [List.append_nil] at this
    rw [this]
    constructor
    · rintro (h1 | ⟨_, h1⟩)
      · exact h1
      · exact absurd h1 (List.not_lt_nil _)
    · exact Or.inl
  have e2 : x < kb ++ zeros m ↔ x.take kb.length < kb := by
    conv => lhs; rw [hx]
    rw [append_lt_append_iff hl]
    constructor
    · rintro (h1 | ⟨_, h1⟩)
      · exact h1
      · exact absurd h1 (not_lt_zeros _ m (by simp; omega))
    · exact Or.inl
  rw [e1, e2]

/-! ### `packBits` pads with zeros -/

theorem toBits_packBitsAux_zeros (n : Nat) (bs : Bits) (h : bs.length ≤ n) :
    ∃ j, j < 8 ∧ (bs.length + j) % 8 = 0 ∧ toBits (packBitsAux n bs) = bs ++ zeros j := by
  induction n generalizing bs with
  | zero =>
    have : bs = [] := List.eq_nil_of_length_eq_zero (by omega)
    subst this; exact ⟨0, by omega, rfl, rfl⟩
  | succ n ih =>
    simp only [packBitsAux]
    by_cases hb : bs = []
    · subst hb; exact ⟨0, by omega, rfl, rfl⟩
    · rw [if_neg hb, toBits_cons]
      have hne : 0 < bs.length := List.length_pos_iff.2 hb
      obtain ⟨j, hj, hmod, hpad⟩ := ih (bs.drop 8) (by simp; omega)
      rw [hpad, byteBits_byteOfBits _ (by simp; omega)]
      by_cases h8 : 8 ≤ bs.length
      · refine ⟨j, hj, ?_, ?_⟩
        · simp only [List.length_drop] at hmod; omega
        · have : (List.take 8 bs).length = 8 := by simp; omega
          rw [this]
          simp only [Nat.sub_self, List.replicate_zero, List.append_nil]
          rw [← List.append_assoc, List.take_append_drop]
      · have hd : bs.drop 8 = [] := List.drop_eq_nil_iff.2 (by omega)
        have ht : bs.take 8 = bs := List.take_of_length_le (by omega)
        rw [hd] at hpad hmod
        have hj0 : j = 0 := by simp at hmod; omega
        subst hj0
        rw [hd, ht]
        refine ⟨8 - bs.length, by omega, by omega, by simp [zeros]⟩

theorem toBits_packBits (bs : Bits) :
    ∃ j, j < 8 ∧ (bs.length + j) % 8 = 0 ∧ toBits (packBits bs) = bs ++ zeros j :=
  toBits_packBitsAux_zeros bs.length bs (Nat.le_refl _)

theorem toBits_packBits_aligned (bs : Bits) (h : bs.length % 8 = 0) : toBits (packBits bs) = bs := by
  obtain ⟨j, hj, hmod, he⟩ := toBits_packBits bs
  have : j = 0 := by omega
  subst this
  simpa [zeros] using he

theorem toBits_length_mod (k : Bytes) : (toBits k).length % 8 = 0 := by
  rw [toBits_length]; omega

/-! ### the key surgery in bits -/

/-- `8 * ToBytes(n+1)`: the smallest multiple of 8 above `n`. -/
def up8 (n : Nat) : Nat := 8 * toBytesLen (n + 1)

theorem up8_gt (n : Nat) : n < up8 n := by simp only [up8, toBytesLen]; omega

theorem up8_le_of_aligned {n m : Nat} (h8 : m % 8 = 0) (hn : n < m) : up8 n ≤ m := by
  simp only [up8, toBytesLen]; omega

/-- `AppendBit(nbd, false)` on a key that is not longer than `nbd` bits pads it with zero bits up to
the next byte boundary above `nbd`. -/
theorem toBits_appendBit_false (k : Bytes) (n : Nat) (h : (toBits k).length ≤ n) :
    toBits (appendBit k n false) = toBits k ++ zeros (up8 n - (toBits k).length) := by
  have hup := up8_gt n
  simp only [appendBit]
  have e1 : (toBits k ++ List.replicate (8 * toBytesLen (n + 1)) false).take (8 * toBytesLen (n + 1)) =
      toBits k ++ zeros (up8 n - (toBits k).length) := by
    rw [List.take_append]
    have : (toBits k).take (8 * toBytesLen (n + 1)) = toBits k :=
      List.take_of_length_le (by simp only [up8] at hup; omega)
    rw [this]
    simp [zeros, up8, List.take_replicate]
  rw [e1]
  have e2 : (toBits k ++ zeros (up8 n - (toBits k).length)).set n false =
      toBits k ++ zeros (up8 n - (toBits k).length) := by
    apply List.ext_getElem
    · simp
    · intro i h1 h2
      rw [List.getElem_set]
      split
      · next hi =>
        subst hi
        rw [List.getElem_append_right (by omega)]
        simp [zeros]
      · rfl
  rw [e2]
  apply toBits_packBits_aligned
  simp only [List.length_append, zeros, List.length_replicate]
  have := toBits_length_mod k
  simp only [up8] at hup ⊢
  omega

/-- `advanceKeyToRight`: the first `n` bits, a one, zeros up to the byte boundary. -/
theorem toBits_advanceRight (k : Bytes) (n : Nat) (h : n ≤ (toBits k).length) :
    toBits (advanceRight k n) = (toBits k).take n ++ true :: zeros (up8 n - n - 1) := by
  simp only [advanceRight]
  obtain ⟨j, hj, hmod, he⟩ := toBits_packBits ((toBits k).take n ++ [true])
  rw [he]
  have hl : ((toBits k).take n ++ [true]).length = n + 1 := by simp; omega
  rw [hl] at hmod
  have : j = up8 n - n - 1 := by simp only [up8, toBytesLen]; omega
  subst this
  simp

theorem getBit_eq (k : Bytes) (i : Nat) : getBit k i = (toBits k).getD i false := rfl


/-! ### the decisions of `doNext` at a node with path bits `q` -/

theorem split_at (kb : Bits) (n : Nat) (h : n < kb.length) :
    ∃ P b rest, kb = P ++ b :: rest ∧ P.length = n ∧ kb.take n = P ∧ kb.getD n false = b := by
  have h1 : kb = kb.take n ++ kb.drop n := (List.take_append_drop _ _).symm
  cases hd : kb.drop n with
  | nil => have := congrArg List.length hd; simp at this; omega
  | cons b rest =>
    refine ⟨kb.take n, b, rest, by rw [← hd]; exact h1, by simp; omega, rfl, ?_⟩
    have : kb.getD n false = (kb.drop n).getD 0 false := by simp [List.getD_eq_getElem?_getD]
    rw [this, hd]; rfl

/-- `takeFirst` in bits: `nbd > 0 && key.BitLength() >= nbd && key.Compare(newPath) < 0`. -/
def TakeFirst (q kb : Bits) (j : Nat) : Prop := 0 < q.length ∧ q.length ≤ kb.length ∧ kb < q ++ zeros j

/-- J1: the node's own leaf is skipped only if it is below the key. -/
theorem own_leaf_below {q kb : Bits} {j : Nat} (hlen : q.length < kb.length) (htf : ¬ TakeFirst q kb j) :
    q < kb := by
  obtain ⟨P, b, rest, hk, hP, _, _⟩ := split_at kb q.length hlen
  subst hk
  by_cases hn : q.length = 0
  · have : q = [] := List.eq_nil_of_length_eq_zero hn
    subst this
    have : P = [] := List.eq_nil_of_length_eq_zero hP
    subst this
    exact List.nil_lt_cons _ _
  · rcases bits_trichotomy P q with h | h | h
    · exfalso; apply htf
      exact ⟨by omega, by omega, lt_of_prefix_lt hP h _ _⟩
    · subst h; exact bits_lt_append_cons _ _ _
    · have := lt_of_prefix_lt hP.symm h [] (b :: rest)
      simpa using this

/-- J3: the left subtree is skipped only if all of it is below the key. -/
theorem left_below {q kb : Bits} {j : Nat} (hlen : q.length < kb.length) (hbit : kb.getD q.length false = true)
    (htf : ¬ TakeFirst q kb j) (y : Bits) : q ++ false :: y < kb := by
  obtain ⟨P, b, rest, hk, hP, _, hb⟩ := split_at kb q.length hlen
  rw [hbit] at hb
  subst hk hb
  rcases bits_trichotomy P q with h | h | h
  · exfalso; apply htf
    refine ⟨?_, by omega, lt_of_prefix_lt hP h _ _⟩
    cases q with
    | nil => have : P = [] := List.eq_nil_of_length_eq_zero hP; subst this; exact absurd h (List.not_lt_nil _)
    | cons a q => simp
  · subst h
    rw [append_lt_append_left_iff]
    simp only [List.cons_lt_cons_iff]
    exact Or.inl (by decide)
  · exact lt_of_prefix_lt hP.symm h _ _

/-- J4: replacing the key by `advanceKeyToRight` does not change the comparison with the keys of
the right subtree, provided the key does not continue the node's path with a one bit. -/
theorem right_advance_iff {q K1 : Bits} (hlen : q.length < K1.length)
    (hC : K1.take q.length = q → K1.getD q.length false = false)
    (y : Bits) (hy : up8 q.length ≤ (q ++ true :: y).length) :
    (q ++ true :: y < K1) ↔ (q ++ true :: y < K1.take q.length ++ true :: zeros (up8 q.length - q.length - 1)) := by
  obtain ⟨P, b, rest, hk, hP, htake, hb⟩ := split_at K1 q.length hlen
  rw [htake]
  rw [htake, hb] at hC
  subst hk
  rcases bits_trichotomy P q with h | h | h
  · have n1 : ¬ (q ++ true :: y < P ++ b :: rest) := bits_lt_asymm (lt_of_prefix_lt hP h _ _)
    have n2 : ¬ (q ++ true :: y < P ++ true :: zeros (up8 q.length - q.length - 1)) :=
      bits_lt_asymm (lt_of_prefix_lt hP h _ _)
    exact ⟨fun h' => absurd h' n1, fun h' => absurd h' n2⟩
  · subst h
    have hb' := hC rfl
    subst hb'
    rw [append_lt_append_left_iff, append_lt_append_left_iff]
    have n1 : ¬ (true :: y < false :: rest) := by
      simp only [List.cons_lt_cons_iff, not_or, not_and]
      exact ⟨by decide, fun h => by simp at h⟩
    have n2 : ¬ (true :: y < true :: zeros (up8 P.length - P.length - 1)) := by
      simp only [List.cons_lt_cons_iff, true_and, not_or]
      refine ⟨by decide, not_lt_zeros _ _ ?_⟩
      simp at hy; omega
    exact ⟨fun h' => absurd h' n1, fun h' => absurd h' n2⟩
  · exact ⟨fun _ => lt_of_prefix_lt hP.symm h _ _, fun _ => lt_of_prefix_lt hP.symm h _ _⟩

/-- Resuming in `visitAtLeft`: if no key of the right subtree is below the current key then none is
below the advanced key. -/
theorem right_advance_resume {q kb : Bits} (hlen : q.length < kb.length) (y : Bits)
    (hy : up8 q.length ≤ (q ++ true :: y).length) (hge : ¬ (q ++ true :: y < kb)) :
    ¬ (q ++ true :: y < kb.take q.length ++ true :: zeros (up8 q.length - q.length - 1)) := by
  obtain ⟨P, b, rest, hk, hP, htake, _⟩ := split_at kb q.length hlen
  rw [htake]
  subst hk
  rcases bits_trichotomy P q with h | h | h
  · exact bits_lt_asymm (lt_of_prefix_lt hP h _ _)
  · subst h
    rw [append_lt_append_left_iff]
    simp only [List.cons_lt_cons_iff, true_and, not_or]
    refine ⟨by decide, not_lt_zeros _ _ ?_⟩
    simp at hy; omega
  · exact absurd (lt_of_prefix_lt hP.symm h _ _) hge

/-- Condition of `right_advance_iff` when the key was padded by `AppendBit` (it was not longer). -/
theorem cond_padded {q kb : Bits} {m : Nat} (h : kb.length ≤ q.length) :
    (kb ++ zeros m).getD q.length false = false := by
  rw [List.getD_eq_getElem?_getD]
  by_cases hh : q.length < (kb ++ zeros m).length
  · rw [List.getElem?_eq_getElem hh, List.getElem_append_right h]
    simp [zeros]
  · rw [List.getElem?_eq_none (by omega)]; rfl

/-- Condition of `right_advance_iff` when `takeFirst` holds for a key longer than the path. -/
theorem cond_takeFirst {q kb : Bits} {j : Nat} (hlen : q.length < kb.length) (htf : TakeFirst q kb j)
    (hq : kb.take q.length = q) : kb.getD q.length false = false := by
  obtain ⟨P, b, rest, hk, hP, htake, hb⟩ := split_at kb q.length hlen
  rw [hb]
  rw [htake] at hq
  subst hq hk
  have := htf.2.2
  rw [append_lt_append_left_iff] at this
  cases b with
  | false => rfl
  | true =>
    exfalso
    cases j with
    | zero => exact absurd this (List.not_lt_nil _)
    | succ j =>
      simp only [zeros, List.replicate_succ, List.cons_lt_cons_iff] at this
      rcases this with h | ⟨h, _⟩
      · exact absurd h (by decide)
      · simp at h

end OasisProofs.Mkvs
