import OasisProofs.Helpers.Registry
/-
C17 helper lemmas, part 2: every transaction-level operation of the registry model preserves
the invariant `Inv`.
-/
namespace OasisProofs.Registry
open OasisModel.Registry

theorem IndexInv.transfer {s s' : State} (h : IndexInv s)
    (h1 : s'.nodes = s.nodes) (h2 : s'.keyMap = s.keyMap) (h3 : s'.consAddr = s.consAddr)
    (h4 : s'.byEntity = s.byEntity) (h5 : s'.runtimes = s.runtimes) (h6 : s'.rtByEntity = s.rtByEntity) :
    IndexInv s' := by
  constructor
  · rw [h1]; exact h.node_id
  · rw [h1]; exact h.sub_nodup
  · rw [h1, h2]; exact h.km_sound
  · rw [h1, h2]; exact h.km_compl
  · rw [h1, h3]; exact h.ca_sound
  · rw [h1, h3]; exact h.ca_compl
  · rw [h1, h4]; exact h.be_sound
  · rw [h1, h4]; exact h.be_compl
  · rw [h5]; exact h.rt_id
  · rw [h5, h6]; exact h.rbe_sound
  · rw [h5, h6]; exact h.rbe_compl

theorem Implied.mono {s s' : State} {a : Addr} {c : Claim}
    (he : ∀ e ws, s.entities.get e = some ws → ∃ ws', s'.entities.get e = some ws')
    (hn : s'.nodes = s.nodes) (hr : s'.runtimes = s.runtimes) (h : Implied s a c) : Implied s' a c := by
  cases c with
  | entity =>
    obtain ⟨e, ws, ha, hw⟩ := h
    obtain ⟨ws', hw'⟩ := he e ws hw
    exact ⟨e, ws', ha, hw'⟩
  | node id => simpa [Implied, hn] using h
  | runtime r => simpa [Implied, hr] using h

/-! ### entities -/

/-- The state after a successful `regEntity`. -/
def regEntityOk (s : State) (se : SignedEntity) : State :=
  { s with claims := s.claims.set (.ent se.id, .entity) (), entities := s.entities.set se.id se.nodes }

theorem regEntity_spec (s : State) (t : Key) (se : SignedEntity) :
    (regEntity s t se).1 = s ∨
    (verifyEntityArgs se = none ∧ se.signer = t ∧ regEntity s t se = (regEntityOk s se, .ok)) := by
  unfold regEntity
  split
  · exact Or.inl rfl
  · rename_i hv
    split
    · exact Or.inl rfl
    · rename_i ht
      exact Or.inr ⟨hv, by simpa using ht, rfl⟩

theorem regEntityOk_inv (s : State) (se : SignedEntity) (h : Inv s) : Inv (regEntityOk s se) := by
  refine { toIndexInv := h.toIndexInv.transfer rfl rfl rfl rfl rfl rfl, cl_sound := ?_, cl_compl := ?_,
           st_nodes := h.st_nodes, nodes_nodup := h.nodes_nodup }
  · intro a c hc
    simp only [regEntityOk, Map.get_set] at hc
    by_cases hp : (Addr.ent se.id, Claim.entity) = (a, c)
    · cases hp
      exact ⟨se.id, se.nodes, rfl, by simp [regEntityOk, Map.get_set]⟩
    · simp only [hp, if_false] at hc
      refine Implied.mono (s := s) ?_ rfl rfl (h.cl_sound a c hc)
      intro e ws hw
      simp only [regEntityOk, Map.get_set]
      by_cases he : se.id = e
      · exact ⟨se.nodes, by simp [he]⟩
      · exact ⟨ws, by simp [he, hw]⟩
  · intro a c hi
    simp only [regEntityOk, Map.get_set]
    by_cases hp : (Addr.ent se.id, Claim.entity) = (a, c)
    · simp [hp]
    · simp only [hp, if_false]
      apply h.cl_compl
      cases c with
      | entity =>
        obtain ⟨e, ws, ha, hw⟩ := hi
        simp only [regEntityOk, Map.get_set] at hw
        by_cases he : se.id = e
        · subst he; subst ha; exact absurd rfl hp
        · simp only [he, if_false] at hw; exact ⟨e, ws, ha, hw⟩
      | node id => exact hi
      | runtime r => exact hi

theorem regEntity_inv (s : State) (t : Key) (se : SignedEntity) (h : Inv s) : Inv (regEntity s t se).1 := by
  rcases regEntity_spec s t se with e | ⟨_, _, e⟩
  · rw [e]; exact h
  · rw [e]; exact regEntityOk_inv s se h

theorem hasEntityNodes_false {s : State} {e : Key} (h : hasEntityNodes s e = false) (id : Key) :
    s.byEntity.get (e, id) = none := by
  cases hg : s.byEntity.get (e, id) with
  | none => rfl
  | some u =>
    have hm := mem_of_get hg
    have : hasEntityNodes s e = true := by
      unfold hasEntityNodes
      exact List.any_eq_true.2 ⟨((e, id), u), hm, by simp⟩
    rw [h] at this; cases this

theorem hasEntityRuntimes_false {s : State} {e : Key} (h : hasEntityRuntimes s e = false) (r : RtId) :
    s.rtByEntity.get (e, r) = none := by
  cases hg : s.rtByEntity.get (e, r) with
  | none => rfl
  | some u =>
    have hm := mem_of_get hg
    have : hasEntityRuntimes s e = true := by
      unfold hasEntityRuntimes
      exact List.any_eq_true.2 ⟨((e, r), u), hm, by simp⟩
    rw [h] at this; cases this

/-- The state after a successful `deregEntity`. -/
def deregEntityOk (s : State) (t : Key) : State :=
  { s with entities := s.entities.del t, claims := s.claims.del (.ent t, .entity) }

theorem deregEntity_spec (s : State) (t : Key) (h : Inv s) :
    (deregEntity s t).1 = s ∨
    (hasEntityNodes s t = false ∧ hasEntityRuntimes s t = false ∧ (∃ ws, s.entities.get t = some ws) ∧
      deregEntity s t = (deregEntityOk s t, .ok)) := by
  unfold deregEntity
  split
  · exact Or.inl rfl
  · rename_i h1
    split
    · exact Or.inl rfl
    · rename_i h2
      split
      · exact Or.inl rfl
      · rename_i ws hws
        have hclaim : s.claims.has (Addr.ent t, Claim.entity) = true :=
          get_unit.2 (h.cl_compl _ _ ⟨t, ws, rfl, hws⟩)
        simp only [hclaim, if_true]
        exact Or.inr ⟨by simpa using h1, by simpa using h2, ⟨ws, hws⟩, rfl⟩

theorem deregEntityOk_inv (s : State) (t : Key) (h : Inv s) : Inv (deregEntityOk s t) := by
  refine { toIndexInv := h.toIndexInv.transfer rfl rfl rfl rfl rfl rfl, cl_sound := ?_, cl_compl := ?_,
           st_nodes := h.st_nodes, nodes_nodup := h.nodes_nodup }
  · intro a c hc
    simp only [deregEntityOk, Map.get_del] at hc
    by_cases hp : (Addr.ent t, Claim.entity) = (a, c)
    · simp [hp] at hc
    · simp only [hp, if_false] at hc
      have hi := h.cl_sound a c hc
      cases c with
      | entity =>
        obtain ⟨e, ws', ha, hw⟩ := hi
        refine ⟨e, ws', ha, ?_⟩
        simp only [deregEntityOk, Map.get_del]
        have : ¬ t = e := by intro he; subst he; subst ha; exact hp rfl
        simp [this, hw]
      | node id => exact hi
      | runtime r => exact hi
  · intro a c hi
    simp only [deregEntityOk, Map.get_del]
    cases c with
    | entity =>
      obtain ⟨e, ws', ha, hw⟩ := hi
      simp only [deregEntityOk, Map.get_del] at hw
      by_cases he : t = e
      · simp [he] at hw
      · simp only [he, if_false] at hw
        have hp : ¬ (Addr.ent t, Claim.entity) = (a, Claim.entity) := by
          intro hh; subst ha; cases hh; exact he rfl
        simp only [hp, if_false]
        exact h.cl_compl a .entity ⟨e, ws', ha, hw⟩
    | node id =>
      have hp : ¬ (Addr.ent t, Claim.entity) = (a, Claim.node id) := by intro hh; cases hh
      simp only [hp, if_false]
      exact h.cl_compl a (.node id) hi
    | runtime r =>
      have hp : ¬ (Addr.ent t, Claim.entity) = (a, Claim.runtime r) := by intro hh; cases hh
      simp only [hp, if_false]
      exact h.cl_compl a (.runtime r) hi

theorem deregEntity_inv (s : State) (t : Key) (h : Inv s) : Inv (deregEntity s t).1 := by
  rcases deregEntity_spec s t h with e | ⟨_, _, _, e⟩
  · rw [e]; exact h
  · rw [e]; exact deregEntityOk_inv s t h

/-! ### runtimes -/

theorem regRuntime_spec (s : State) (c : Addr) (rt : Runtime) :
    (regRuntime s c rt).1 = s ∨
    ∃ addr, rt.stakingAddr = some addr ∧ (runtimeToCheck s rt).stakingAddr = some c ∧
      verifyRuntimeUpdate (s.runtimes.get rt.id) rt = none ∧
      regRuntime s c rt = (regRuntimeOk s rt addr, .ok) := by
  unfold regRuntime
  split
  · exact Or.inl rfl
  · split
    · exact Or.inl rfl
    · split
      · exact Or.inl rfl
      · rename_i hv
        split
        · exact Or.inl rfl
        · rename_i expected hexp
          split
          · exact Or.inl rfl
          · rename_i hc
            split
            · exact Or.inl rfl
            · rename_i addr haddr
              have hc' : c = expected := by simpa using hc
              subst hc'
              exact Or.inr ⟨addr, haddr, hexp, hv, rfl⟩

theorem stakingAddr_susp (rt : Runtime) (b : Bool) : ({ rt with suspended := b } : Runtime).stakingAddr = rt.stakingAddr := by
  cases hg : rt.gov <;> simp [Runtime.stakingAddr, hg]

theorem regRuntimeOk_inv (s : State) (rt : Runtime) (addr : Addr) (ha : rt.stakingAddr = some addr) (h : Inv s) :
    Inv (regRuntimeOk s rt addr) := by
  have hsa := stakingAddr_susp rt
  cases hex : s.runtimes.get rt.id with
  | none =>
    refine { toIndexInv := ?_, cl_sound := ?_, cl_compl := ?_, st_nodes := h.st_nodes, nodes_nodup := h.nodes_nodup }
    · constructor
      · exact h.node_id
      · exact h.sub_nodup
      · exact h.km_sound
      · exact h.km_compl
      · exact h.ca_sound
      · exact h.ca_compl
      · exact h.be_sound
      · exact h.be_compl
      · intro r x hx
        simp only [regRuntimeOk, hex, Map.get_set] at hx
        have := h.rt_id r x
        grind
      · intro e r hb
        simp only [regRuntimeOk, hex, Map.get_set] at hb ⊢
        have := h.rbe_sound e r
        grind
      · intro r x hx
        simp only [regRuntimeOk, hex, Map.get_set] at hx ⊢
        have := h.rbe_compl r x
        grind
    · intro a c hc
      simp only [regRuntimeOk, hex, Map.get_set] at hc
      have := h.cl_sound a c
      cases c with
      | entity => simp only [Implied, regRuntimeOk] at this ⊢; grind
      | node id => simp only [Implied, regRuntimeOk] at this ⊢; grind
      | runtime r =>
        simp only [Implied, regRuntimeOk, hex, Map.get_set] at this ⊢
        grind
    · intro a c hi
      simp only [regRuntimeOk, hex, Map.get_set]
      have := h.cl_compl a c
      cases c with
      | entity => simp only [Implied, regRuntimeOk] at this hi ⊢; grind
      | node id => simp only [Implied, regRuntimeOk] at this hi ⊢; grind
      | runtime r =>
        simp only [Implied, regRuntimeOk, hex, Map.get_set] at this hi ⊢
        grind
  | some cur =>
    have hcid := h.rt_id rt.id cur hex
    have hcbe := h.rbe_compl rt.id cur hex
    have hccl : ∀ oa, cur.stakingAddr = some oa → s.claims.get (oa, .runtime rt.id) = some () :=
      fun oa hoa => h.cl_compl oa (.runtime rt.id) ⟨cur, hex, hoa⟩
    refine { toIndexInv := ?_, cl_sound := ?_, cl_compl := ?_, st_nodes := h.st_nodes, nodes_nodup := h.nodes_nodup }
    · constructor
      · exact h.node_id
      · exact h.sub_nodup
      · exact h.km_sound
      · exact h.km_compl
      · exact h.ca_sound
      · exact h.ca_compl
      · exact h.be_sound
      · exact h.be_compl
      · intro r x hx
        simp only [regRuntimeOk, hex, Map.get_set] at hx
        have := h.rt_id r x
        grind
      · intro e r hb
        have := h.rbe_sound e r
        by_cases hent : cur.entity = rt.entity
        · simp only [regRuntimeOk, hex, hent, if_true, Map.get_set] at hb ⊢
          grind
        · simp only [regRuntimeOk, hex, hent, if_false, Map.get_set, Map.get_del] at hb ⊢
          grind
      · intro r x hx
        have := h.rbe_compl r x
        by_cases hent : cur.entity = rt.entity
        · simp only [regRuntimeOk, hex, hent, if_true, Map.get_set] at hx ⊢
          grind
        · simp only [regRuntimeOk, hex, hent, if_false, Map.get_set, Map.get_del] at hx ⊢
          grind
    · intro a c hc
      have := h.cl_sound a c
      cases hos : cur.stakingAddr with
      | none =>
        simp only [regRuntimeOk, hex, hos, Map.get_set] at hc
        cases c with
        | entity => simp only [Implied, regRuntimeOk] at this ⊢; grind
        | node id => simp only [Implied, regRuntimeOk] at this ⊢; grind
        | runtime r =>
          simp only [Implied, regRuntimeOk, hex, Map.get_set] at this ⊢
          grind
      | some oa =>
        by_cases hoa : oa = addr
        · simp only [regRuntimeOk, hex, hos, hoa, ne_eq, not_true_eq_false, if_false, Map.get_set] at hc
          cases c with
          | entity => simp only [Implied, regRuntimeOk] at this ⊢; grind
          | node id => simp only [Implied, regRuntimeOk] at this ⊢; grind
          | runtime r =>
            simp only [Implied, regRuntimeOk, hex, Map.get_set] at this ⊢
            grind
        · simp only [regRuntimeOk, hex, hos, hoa, ne_eq, not_false_eq_true, if_true, Map.get_set, Map.get_del] at hc
          cases c with
          | entity => simp only [Implied, regRuntimeOk] at this ⊢; grind
          | node id => simp only [Implied, regRuntimeOk] at this ⊢; grind
          | runtime r =>
            simp only [Implied, regRuntimeOk, hex, Map.get_set] at this ⊢
            grind
    · intro a c hi
      have := h.cl_compl a c
      cases hos : cur.stakingAddr with
      | none =>
        simp only [regRuntimeOk, hex, hos, Map.get_set]
        cases c with
        | entity => simp only [Implied, regRuntimeOk] at this hi ⊢; grind
        | node id => simp only [Implied, regRuntimeOk] at this hi ⊢; grind
        | runtime r =>
          simp only [Implied, regRuntimeOk, hex, Map.get_set] at this hi ⊢
          grind
      | some oa =>
        by_cases hoa : oa = addr
        · simp only [regRuntimeOk, hex, hos, hoa, ne_eq, not_true_eq_false, if_false, Map.get_set]
          cases c with
          | entity => simp only [Implied, regRuntimeOk] at this hi ⊢; grind
          | node id => simp only [Implied, regRuntimeOk] at this hi ⊢; grind
          | runtime r =>
            simp only [Implied, regRuntimeOk, hex, Map.get_set] at this hi ⊢
            grind
        · simp only [regRuntimeOk, hex, hos, hoa, ne_eq, not_false_eq_true, if_true, Map.get_set, Map.get_del]
          cases c with
          | entity => simp only [Implied, regRuntimeOk] at this hi ⊢; grind
          | node id => simp only [Implied, regRuntimeOk] at this hi ⊢; grind
          | runtime r =>
            simp only [Implied, regRuntimeOk, hex, Map.get_set] at this hi ⊢
            grind
theorem regRuntime_inv (s : State) (c : Addr) (rt : Runtime) (h : Inv s) : Inv (regRuntime s c rt).1 := by
  rcases regRuntime_spec s c rt with e | ⟨addr, ha, _, _, e⟩
  · rw [e]; exact h
  · rw [e]; exact regRuntimeOk_inv s rt addr ha h

end OasisProofs.Registry
