import OasisProofs.Helpers.Registry
/-
C17 helper lemmas, part 2: every transaction-level operation of the registry model preserves
the invariant `Inv`.
-/
namespace OasisProofs.Registry
open OasisModel.Registry

theorem IndexInv.transfer {s s' : State} (h : IndexInv s)
    (h1 : s'.nodes = s.nodes) (h2 : s'.keyMap = s.keyMap) (h3 : s'.consAddr = s.consAddr)
    (h4 : s'.byEntity = s.byEntity) (h5 : s'.runtimes = s.runtimes) (h6 : s'.rtByEntity = s.rtByEntity) :
    IndexInv s' := by
  constructor
  · rw [h1]; exact h.node_id
  · rw [h1]; exact h.sub_nodup
  · rw [h1, h2]; exact h.km_sound
  · rw [h1, h2]; exact h.km_compl
  · rw [h1, h3]; exact h.ca_sound
  · rw [h1, h3]; exact h.ca_compl
  · rw [h1, h4]; exact h.be_sound
  · rw [h1, h4]; exact h.be_compl
  · rw [h5]; exact h.rt_id
  · rw [h5, h6]; exact h.rbe_sound
  · rw [h5, h6]; exact h.rbe_compl

theorem Implied.mono {s s' : State} {a : Addr} {c : Claim} {ths : List Thr}
    (he : ∀ e ws, s.entities.get e = some ws → ∃ ws', s'.entities.get e = some ws')
    (hn : s'.nodes = s.nodes) (hr : s'.runtimes = s.runtimes) (h : Implied s a ths c) : Implied s' a ths c := by
  cases c with
  | entity =>
    obtain ⟨e, ws, ha, hw, ht⟩ := h
    obtain ⟨ws', hw'⟩ := he e ws hw
    exact ⟨e, ws', ha, hw', ht⟩
  | node id => simpa [Implied, hn] using h
  | runtime r => simpa [Implied, hr] using h

/-! ### entities -/

/-- `gen = false`: an ordinary transaction. -/
theorem regEntity_spec (gen : Bool) (s : State) (t : Key) (se : SignedEntity) :
    (regEntity gen s t se).1 = s ∨
    (verifyEntityArgs se = none ∧ (gen = false → se.signer = t) ∧
      canAddClaim s s.claims (.ent se.id) .entity [Thr.entity] = true ∧
      regEntity gen s t se = (regEntityOk s se, .ok)) := by
  unfold regEntity
  split
  · exact Or.inl rfl
  · rename_i hv
    split
    · exact Or.inl rfl
    · rename_i ht
      split
      · exact Or.inl rfl
      · rename_i hs
        refine Or.inr ⟨hv, ?_, by simpa using hs, rfl⟩
        intro hg; subst hg
        simpa using ht

theorem regEntityOk_inv (s : State) (se : SignedEntity) (h : Inv s) : Inv (regEntityOk s se) := by
  refine { toIndexInv := h.toIndexInv.transfer rfl rfl rfl rfl rfl rfl, cl_sound := ?_, cl_compl := ?_,
           st_nodes := h.st_nodes, nodes_nodup := h.nodes_nodup }
  · intro a c ths hc
    simp only [regEntityOk, Map.get_set] at hc
    by_cases hp : (Addr.ent se.id, Claim.entity) = (a, c)
    · cases hp
      simp only [if_true, Option.some.injEq] at hc
      exact ⟨se.id, se.nodes, rfl, by simp [regEntityOk, Map.get_set], hc.symm⟩
    · simp only [hp, if_false] at hc
      refine Implied.mono (s := s) ?_ rfl rfl (h.cl_sound a c ths hc)
      intro e ws hw
      simp only [regEntityOk, Map.get_set]
      by_cases he : se.id = e
      · exact ⟨se.nodes, by simp [he]⟩
      · exact ⟨ws, by simp [he, hw]⟩
  · intro a c ths hi
    simp only [regEntityOk, Map.get_set]
    by_cases hp : (Addr.ent se.id, Claim.entity) = (a, c)
    · cases hp
      obtain ⟨_, _, _, _, ht⟩ := hi
      simp [ht]
    · simp only [hp, if_false]
      apply h.cl_compl
      cases c with
      | entity =>
        obtain ⟨e, ws, ha, hw, ht⟩ := hi
        simp only [regEntityOk, Map.get_set] at hw
        by_cases he : se.id = e
        · subst he; subst ha; exact absurd rfl hp
        · simp only [he, if_false] at hw; exact ⟨e, ws, ha, hw, ht⟩
      | node id => exact hi
      | runtime r => exact hi

theorem regEntity_inv (gen : Bool) (s : State) (t : Key) (se : SignedEntity) (h : Inv s) :
    Inv (regEntity gen s t se).1 := by
  rcases regEntity_spec gen s t se with e | ⟨_, _, _, e⟩
  · rw [e]; exact h
  · rw [e]; exact regEntityOk_inv s se h

theorem hasEntityNodes_false {s : State} {e : Key} (h : hasEntityNodes s e = false) (id : Key) :
    s.byEntity.get (e, id) = none := by
  cases hg : s.byEntity.get (e, id) with
  | none => rfl
  | some u =>
    have hm := mem_of_get hg
    have : hasEntityNodes s e = true := by
      unfold hasEntityNodes
      exact List.any_eq_true.2 ⟨((e, id), u), hm, by simp⟩
    rw [h] at this; cases this

theorem hasEntityRuntimes_false {s : State} {e : Key} (h : hasEntityRuntimes s e = false) (r : RtId) :
    s.rtByEntity.get (e, r) = none := by
  cases hg : s.rtByEntity.get (e, r) with
  | none => rfl
  | some u =>
    have hm := mem_of_get hg
    have : hasEntityRuntimes s e = true := by
      unfold hasEntityRuntimes
      exact List.any_eq_true.2 ⟨((e, r), u), hm, by simp⟩
    rw [h] at this; cases this

/-- The state after a successful `deregEntity`. -/
def deregEntityOk (s : State) (t : Key) : State :=
  { s with entities := s.entities.del t, claims := s.claims.del (.ent t, .entity) }

theorem deregEntity_spec (s : State) (t : Key) (h : Inv s) :
    (deregEntity s t).1 = s ∨
    (hasEntityNodes s t = false ∧ hasEntityRuntimes s t = false ∧ (∃ ws, s.entities.get t = some ws) ∧
      deregEntity s t = (deregEntityOk s t, .ok)) := by
  unfold deregEntity
  split
  · exact Or.inl rfl
  · rename_i h1
    split
    · exact Or.inl rfl
    · rename_i h2
      split
      · exact Or.inl rfl
      · rename_i ws hws
        have hclaim : s.claims.has (Addr.ent t, Claim.entity) = true :=
          has_eq_true.2 ⟨_, h.cl_compl _ _ _ ⟨t, ws, rfl, hws, rfl⟩⟩
        simp only [hclaim, if_true]
        exact Or.inr ⟨by simpa using h1, by simpa using h2, ⟨ws, hws⟩, rfl⟩

theorem deregEntityOk_inv (s : State) (t : Key) (h : Inv s) : Inv (deregEntityOk s t) := by
  refine { toIndexInv := h.toIndexInv.transfer rfl rfl rfl rfl rfl rfl, cl_sound := ?_, cl_compl := ?_,
           st_nodes := h.st_nodes, nodes_nodup := h.nodes_nodup }
  · intro a c ths hc
    simp only [deregEntityOk, Map.get_del] at hc
    by_cases hp : (Addr.ent t, Claim.entity) = (a, c)
    · simp [hp] at hc
    · simp only [hp, if_false] at hc
      have hi := h.cl_sound a c ths hc
      cases c with
      | entity =>
        obtain ⟨e, ws', ha, hw, ht⟩ := hi
        refine ⟨e, ws', ha, ?_, ht⟩
        simp only [deregEntityOk, Map.get_del]
        have : ¬ t = e := by intro he; subst he; subst ha; exact hp rfl
        simp [this, hw]
      | node id => exact hi
      | runtime r => exact hi
  · intro a c ths hi
    simp only [deregEntityOk, Map.get_del]
    cases c with
    | entity =>
      obtain ⟨e, ws', ha, hw, ht⟩ := hi
      simp only [deregEntityOk, Map.get_del] at hw
      by_cases he : t = e
      · simp [he] at hw
      · simp only [he, if_false] at hw
        have hp : ¬ (Addr.ent t, Claim.entity) = (a, Claim.entity) := by
          intro hh; subst ha; cases hh; exact he rfl
        simp only [hp, if_false]
        exact h.cl_compl a .entity ths ⟨e, ws', ha, hw, ht⟩
    | node id =>
      have hp : ¬ (Addr.ent t, Claim.entity) = (a, Claim.node id) := by intro hh; cases hh
      simp only [hp, if_false]
      exact h.cl_compl a (.node id) ths hi
    | runtime r =>
      have hp : ¬ (Addr.ent t, Claim.entity) = (a, Claim.runtime r) := by intro hh; cases hh
      simp only [hp, if_false]
      exact h.cl_compl a (.runtime r) ths hi

theorem deregEntity_inv (s : State) (t : Key) (h : Inv s) : Inv (deregEntity s t).1 := by
  rcases deregEntity_spec s t h with e | ⟨_, _, _, e⟩
  · rw [e]; exact h
  · rw [e]; exact deregEntityOk_inv s t h

/-! ### runtimes -/

theorem callerCheck_none {s : State} {c : Addr} {rt : Runtime} (h : callerCheck s c rt = none) :
    (runtimeToCheck s rt).stakingAddr = some c := by
  unfold callerCheck at h
  split at h
  · cases h
  · rename_i expected hexp
    split at h
    · cases h
    · rename_i hc
      have : c = expected := by simpa using hc
      rw [this]; exact hexp

theorem regRuntime_spec (gen : Bool) (s : State) (c : Addr) (rt : Runtime) :
    (regRuntime gen s c rt).1 = s ∨
    (verifyRuntimeUpdate (s.runtimes.get rt.id) rt = none ∧
     (gen = false → (runtimeToCheck s rt).stakingAddr = some c) ∧
     ((rt.stakingAddr = none ∧ regRuntime gen s c rt = (regRuntimeNoClaim s rt, .ok)) ∨
      (∃ addr, rt.stakingAddr = some addr ∧ canAddClaim s s.claims addr (.runtime rt.id) (rtThr rt) = true ∧
        regRuntime gen s c rt = (regRuntimeOk s rt addr, .ok)))) := by
  unfold regRuntime
  split
  · exact Or.inl rfl
  · split
    · exact Or.inl rfl
    · rename_i hv
      split
      · exact Or.inl rfl
      · rename_i hcc
        have hcaller : gen = false → (runtimeToCheck s rt).stakingAddr = some c := by
          intro hg; subst hg
          simp only [Bool.false_eq_true, if_false] at hcc
          exact callerCheck_none hcc
        split
        · rename_i hnone
          exact Or.inr ⟨hv, hcaller, Or.inl ⟨hnone, rfl⟩⟩
        · rename_i addr haddr
          split
          · exact Or.inl rfl
          · rename_i hs
            exact Or.inr ⟨hv, hcaller, Or.inr ⟨addr, haddr, by simpa using hs, rfl⟩⟩

theorem stakingAddr_susp (rt : Runtime) (b : Bool) : ({ rt with suspended := b } : Runtime).stakingAddr = rt.stakingAddr := by
  cases hg : rt.gov <;> simp [Runtime.stakingAddr, hg]

theorem regRuntimeOk_inv (s : State) (rt : Runtime) (addr : Addr) (ha : rt.stakingAddr = some addr) (h : Inv s) :
    Inv (regRuntimeOk s rt addr) := by
  have hsa := stakingAddr_susp rt
  have hrt : ∀ b : Bool, rtThr { rt with suspended := b } = rtThr rt := fun _ => rfl
  cases hex : s.runtimes.get rt.id with
  | none =>
    refine { toIndexInv := ?_, cl_sound := ?_, cl_compl := ?_, st_nodes := h.st_nodes, nodes_nodup := h.nodes_nodup }
    · constructor
      · exact h.node_id
      · exact h.sub_nodup
      · exact h.km_sound
      · exact h.km_compl
      · exact h.ca_sound
      · exact h.ca_compl
      · exact h.be_sound
      · exact h.be_compl
      · intro r x hx
        simp only [regRuntimeOk, hex, Map.get_set] at hx
        have := h.rt_id r x
        grind
      · intro e r hb
        simp only [regRuntimeOk, hex, Map.get_set] at hb ⊢
        have := h.rbe_sound e r
        grind
      · intro r x hx
        simp only [regRuntimeOk, hex, Map.get_set] at hx ⊢
        have := h.rbe_compl r x
        grind
    · intro a c ths hc
      simp only [regRuntimeOk, hex, Map.get_set] at hc
      have := h.cl_sound a c ths
      cases c with
      | entity => simp only [Implied, regRuntimeOk] at this ⊢; grind
      | node id => simp only [Implied, regRuntimeOk] at this ⊢; grind
      | runtime r =>
        simp only [Implied, regRuntimeOk, hex, Map.get_set] at this ⊢
        grind
    · intro a c ths hi
      simp only [regRuntimeOk, hex, Map.get_set]
      have := h.cl_compl a c ths
      cases c with
      | entity => simp only [Implied, regRuntimeOk] at this hi ⊢; grind
      | node id => simp only [Implied, regRuntimeOk] at this hi ⊢; grind
      | runtime r =>
        simp only [Implied, regRuntimeOk, hex, Map.get_set] at this hi ⊢
        grind
  | some cur =>
    have hcid := h.rt_id rt.id cur hex
    have hcbe := h.rbe_compl rt.id cur hex
    have hccl : ∀ oa, cur.stakingAddr = some oa → s.claims.get (oa, .runtime rt.id) = some (rtThr cur) :=
      fun oa hoa => h.cl_compl oa (.runtime rt.id) _ ⟨cur, hex, hoa, rfl⟩
    refine { toIndexInv := ?_, cl_sound := ?_, cl_compl := ?_, st_nodes := h.st_nodes, nodes_nodup := h.nodes_nodup }
    · constructor
      · exact h.node_id
      · exact h.sub_nodup
      · exact h.km_sound
      · exact h.km_compl
      · exact h.ca_sound
      · exact h.ca_compl
      · exact h.be_sound
      · exact h.be_compl
      · intro r x hx
        simp only [regRuntimeOk, hex, Map.get_set] at hx
        have := h.rt_id r x
        grind
      · intro e r hb
        have := h.rbe_sound e r
        by_cases hent : cur.entity = rt.entity
        · simp only [regRuntimeOk, hex, hent, if_true, Map.get_set] at hb ⊢
          grind
        · simp only [regRuntimeOk, hex, hent, if_false, Map.get_set, Map.get_del] at hb ⊢
          grind
      · intro r x hx
        have := h.rbe_compl r x
        by_cases hent : cur.entity = rt.entity
        · simp only [regRuntimeOk, hex, hent, if_true, Map.get_set] at hx ⊢
          grind
        · simp only [regRuntimeOk, hex, hent, if_false, Map.get_set, Map.get_del] at hx ⊢
          grind
    · intro a c ths hc
      have := h.cl_sound a c ths
      cases hos : cur.stakingAddr with
      | none =>
        simp only [regRuntimeOk, hex, hos, Map.get_set] at hc
        cases c with
        | entity => simp only [Implied, regRuntimeOk] at this ⊢; grind
        | node id => simp only [Implied, regRuntimeOk] at this ⊢; grind
        | runtime r =>
          simp only [Implied, regRuntimeOk, hex, Map.get_set] at this ⊢
          grind
      | some oa =>
        by_cases hoa : oa = addr
        · simp only [regRuntimeOk, hex, hos, hoa, ne_eq, not_true_eq_false, if_false, Map.get_set] at hc
          cases c with
          | entity => simp only [Implied, regRuntimeOk] at this ⊢; grind
          | node id => simp only [Implied, regRuntimeOk] at this ⊢; grind
          | runtime r =>
            simp only [Implied, regRuntimeOk, hex, Map.get_set] at this ⊢
            grind
        · simp only [regRuntimeOk, hex, hos, hoa, ne_eq, not_false_eq_true, if_true, Map.get_set, Map.get_del] at hc
          cases c with
          | entity => simp only [Implied, regRuntimeOk] at this ⊢; grind
          | node id => simp only [Implied, regRuntimeOk] at this ⊢; grind
          | runtime r =>
            simp only [Implied, regRuntimeOk, hex, Map.get_set] at this ⊢
            grind
    · intro a c ths hi
      have := h.cl_compl a c ths
      cases hos : cur.stakingAddr with
      | none =>
        simp only [regRuntimeOk, hex, hos, Map.get_set]
        cases c with
        | entity => simp only [Implied, regRuntimeOk] at this hi ⊢; grind
        | node id => simp only [Implied, regRuntimeOk] at this hi ⊢; grind
        | runtime r =>
          simp only [Implied, regRuntimeOk, hex, Map.get_set] at this hi ⊢
          grind
      | some oa =>
        by_cases hoa : oa = addr
        · simp only [regRuntimeOk, hex, hos, hoa, ne_eq, not_true_eq_false, if_false, Map.get_set]
          cases c with
          | entity => simp only [Implied, regRuntimeOk] at this hi ⊢; grind
          | node id => simp only [Implied, regRuntimeOk] at this hi ⊢; grind
          | runtime r =>
            simp only [Implied, regRuntimeOk, hex, Map.get_set] at this hi ⊢
            grind
        · simp only [regRuntimeOk, hex, hos, hoa, ne_eq, not_false_eq_true, if_true, Map.get_set, Map.get_del]
          cases c with
          | entity => simp only [Implied, regRuntimeOk] at this hi ⊢; grind
          | node id => simp only [Implied, regRuntimeOk] at this hi ⊢; grind
          | runtime r =>
            simp only [Implied, regRuntimeOk, hex, Map.get_set] at this hi ⊢
            grind
/-- Consensus-governed runtime (genesis): no claim is written, and none was there before, because the
governance model of an existing runtime cannot change to consensus. -/
theorem regRuntimeNoClaim_inv (s : State) (rt : Runtime) (ha : rt.stakingAddr = none)
    (hv : verifyRuntimeUpdate (s.runtimes.get rt.id) rt = none) (h : Inv s) : Inv (regRuntimeNoClaim s rt) := by
  have hgov : rt.gov = .consensus := by
    cases hg : rt.gov <;> simp [Runtime.stakingAddr, hg] at ha ⊢
  have hsa : ∀ b : Bool, ({ rt with suspended := b } : Runtime).stakingAddr = none := by
    intro b; simp [Runtime.stakingAddr, hgov]
  cases hex : s.runtimes.get rt.id with
  | none =>
    refine { toIndexInv := ?_, cl_sound := ?_, cl_compl := ?_, st_nodes := h.st_nodes, nodes_nodup := h.nodes_nodup }
    · constructor
      · exact h.node_id
      · exact h.sub_nodup
      · exact h.km_sound
      · exact h.km_compl
      · exact h.ca_sound
      · exact h.ca_compl
      · exact h.be_sound
      · exact h.be_compl
      · intro r x hx
        simp only [regRuntimeNoClaim, hex, Map.get_set] at hx
        have := h.rt_id r x
        grind
      · intro e r hb
        simp only [regRuntimeNoClaim, hex, Map.get_set] at hb ⊢
        have := h.rbe_sound e r
        grind
      · intro r x hx
        simp only [regRuntimeNoClaim, hex, Map.get_set] at hx ⊢
        have := h.rbe_compl r x
        grind
    · intro a c ths hc
      have := h.cl_sound a c ths hc
      cases c with
      | entity => exact this
      | node id => exact this
      | runtime r =>
        simp only [Implied, regRuntimeNoClaim, hex, Map.get_set] at this ⊢
        grind
    · intro a c ths hi
      apply h.cl_compl a c ths
      cases c with
      | entity => exact hi
      | node id => exact hi
      | runtime r =>
        simp only [Implied, regRuntimeNoClaim, hex, Map.get_set] at hi ⊢
        grind
  | some cur =>
    have hcid := h.rt_id rt.id cur hex
    have hcbe := h.rbe_compl rt.id cur hex
    have hcgov : cur.gov = .consensus := by
      simp only [verifyRuntimeUpdate, hex] at hv
      split at hv; · cases hv
      split at hv; · cases hv
      rename_i _ h2
      rw [hgov] at h2
      cases hg : cur.gov <;> simp_all
    have hcsa : cur.stakingAddr = none := by simp [Runtime.stakingAddr, hcgov]
    refine { toIndexInv := ?_, cl_sound := ?_, cl_compl := ?_, st_nodes := h.st_nodes, nodes_nodup := h.nodes_nodup }
    · constructor
      · exact h.node_id
      · exact h.sub_nodup
      · exact h.km_sound
      · exact h.km_compl
      · exact h.ca_sound
      · exact h.ca_compl
      · exact h.be_sound
      · exact h.be_compl
      · intro r x hx
        simp only [regRuntimeNoClaim, hex, Map.get_set] at hx
        have := h.rt_id r x
        grind
      · intro e r hb
        have := h.rbe_sound e r
        by_cases hent : cur.entity = rt.entity
        · simp only [regRuntimeNoClaim, hex, hent, if_true, Map.get_set] at hb ⊢
          grind
        · simp only [regRuntimeNoClaim, hex, hent, if_false, Map.get_set, Map.get_del] at hb ⊢
          grind
      · intro r x hx
        have := h.rbe_compl r x
        by_cases hent : cur.entity = rt.entity
        · simp only [regRuntimeNoClaim, hex, hent, if_true, Map.get_set] at hx ⊢
          grind
        · simp only [regRuntimeNoClaim, hex, hent, if_false, Map.get_set, Map.get_del] at hx ⊢
          grind
    · intro a c ths hc
      have := h.cl_sound a c ths hc
      cases c with
      | entity => exact this
      | node id => exact this
      | runtime r =>
        simp only [Implied, regRuntimeNoClaim, hex, Map.get_set] at this ⊢
        grind
    · intro a c ths hi
      apply h.cl_compl a c ths
      cases c with
      | entity => exact hi
      | node id => exact hi
      | runtime r =>
        simp only [Implied, regRuntimeNoClaim, hex, Map.get_set] at hi ⊢
        grind

theorem regRuntime_inv (gen : Bool) (s : State) (c : Addr) (rt : Runtime) (h : Inv s) :
    Inv (regRuntime gen s c rt).1 := by
  rcases regRuntime_spec gen s c rt with e | ⟨hv, _, ⟨ha, e⟩ | ⟨addr, ha, _, e⟩⟩
  · rw [e]; exact h
  · rw [e]; exact regRuntimeNoClaim_inv s rt ha hv h
  · rw [e]; exact regRuntimeOk_inv s rt addr ha h

end OasisProofs.Registry
