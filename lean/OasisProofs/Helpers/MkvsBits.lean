import OasisModel.Mkvs.Trie
/-
Bit-string lemmas for the MKVS trie proofs: common prefix length, key bits, orders.
-/
namespace OasisProofs.Mkvs
open OasisModel.Mkvs

/-! ### lcp -/

/-- Decomposition of two bit strings at their longest common prefix. -/
theorem lcp_cases (a b : Bits) :
    ∃ pre ra rb, a = pre ++ ra ∧ b = pre ++ rb ∧ lcp a b = pre.length ∧
      (ra = [] ∨ rb = [] ∨ ∃ x ra' rb', ra = x :: ra' ∧ rb = (!x) :: rb') := by
  induction a generalizing b with
  | nil => exact ⟨[], [], b, rfl, rfl, by simp [lcp], Or.inl rfl⟩
  | cons x as ih =>
    cases b with
    | nil => exact ⟨[], x :: as, [], rfl, rfl, by simp [lcp], Or.inr (Or.inl rfl)⟩
    | cons y bs =>
      by_cases h : x = y
      · subst h
        obtain ⟨pre, ra, rb, h1, h2, h3, h4⟩ := ih bs
        exact ⟨x :: pre, ra, rb, by simp [h1], by simp [h2], by simp [lcp, h3], h4⟩
      · refine ⟨[], x :: as, y :: bs, rfl, rfl, by simp [lcp, h], Or.inr (Or.inr ⟨x, as, bs, rfl, ?_⟩)⟩
        cases x <;> cases y <;> simp_all

theorem lcp_append_left (p a b : Bits) : lcp (p ++ a) (p ++ b) = p.length + lcp a b := by
  induction p with
  | nil => simp
  | cons x p ih => simp [lcp, ih]; omega

theorem lcp_nil_left (b : Bits) : lcp [] b = 0 := by simp [lcp]
theorem lcp_nil_right (a : Bits) : lcp a [] = 0 := by cases a <;> simp [lcp]

theorem lcp_cons_ne (x : Bool) (a b : Bits) : lcp (x :: a) ((!x) :: b) = 0 := by
  cases x <;> simp [lcp]

/-- `lcp (pre ++ ra) (pre ++ rb)` when the remainders start differently or one is empty. -/
theorem lcp_of_split (pre ra rb : Bits)
    (h : ra = [] ∨ rb = [] ∨ ∃ x ra' rb', ra = x :: ra' ∧ rb = (!x) :: rb') :
    lcp (pre ++ ra) (pre ++ rb) = pre.length := by
  rw [lcp_append_left]
  rcases h with h | h | ⟨x, ra', rb', h1, h2⟩
  · subst h; simp [lcp_nil_left]
  · subst h; simp [lcp_nil_right]
  · subst h1 h2; simp [lcp_cons_ne]

/-! ### key bits -/

theorem natBits_length (w n : Nat) : (natBits w n).length = w := by
  induction w with
  | zero => rfl
  | succ w ih => simp [natBits, ih]

theorem byteBits_length (b : UInt8) : (byteBits b).length = 8 := natBits_length 8 _

theorem toBits_length (k : Bytes) : (toBits k).length = 8 * k.length := by
  induction k with
  | nil => rfl
  | cons b k ih =>
    simp only [toBits, List.flatMap_cons, List.length_append, List.length_cons] at *
    rw [ih, byteBits_length]; omega

theorem toBits_cons (b : UInt8) (k : Bytes) : toBits (b :: k) = byteBits b ++ toBits k := by
  simp [toBits]

/-- `bitsToNat` inverts `natBits` below `2^w`. -/
theorem bitsToNat_natBits (w n : Nat) : bitsToNat (natBits w n) = n % 2 ^ w := by
  induction w with
  | zero => simp [natBits, bitsToNat, Nat.mod_one]
  | succ w ih =>
    simp only [natBits, bitsToNat, natBits_length, ih]
    have h2 : n % 2 ^ (w + 1) = n % 2 ^ w + 2 ^ w * (n / 2 ^ w % 2) := by
      rw [Nat.pow_succ, Nat.mod_mul]
    rw [h2]
    by_cases hb : n / 2 ^ w % 2 = 1
    · simp [hb]; omega
    · have : n / 2 ^ w % 2 = 0 := by omega
      simp [this]

theorem byteBits_injective {a b : UInt8} (h : byteBits a = byteBits b) : a = b := by
  have h1 := congrArg bitsToNat h
  simp only [byteBits, bitsToNat_natBits] at h1
  have ha := a.toNat_lt
  have hb := b.toNat_lt
  apply UInt8.toNat_inj.1
  omega

theorem toBits_injective {a b : Bytes} (h : toBits a = toBits b) : a = b := by
  induction a generalizing b with
  | nil =>
    cases b with
    | nil => rfl
    | cons y b =>
      have := congrArg List.length h
      simp [toBits_length] at this
  | cons x a ih =>
    cases b with
    | nil =>
      have := congrArg List.length h
      simp [toBits_length] at this
    | cons y b =>
      rw [toBits_cons, toBits_cons] at h
      have hl : (byteBits x).length = (byteBits y).length := by simp [byteBits_length]
      have h' := List.append_inj h hl
      rw [byteBits_injective h'.1, ih h'.2]

end OasisProofs.Mkvs
