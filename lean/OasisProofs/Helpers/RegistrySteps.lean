import OasisModel.Registry.Steps
import OasisProofs.Helpers.Registry
/-
C17: interpreting the step lists (which are compared with the lists extracted from the Go source)
gives exactly the model's `setNode` / `removeNode`.
-/
namespace OasisProofs.Registry
open OasisModel.Registry

theorem runSteps_setNode (ord : Order) (s : State) (old : Option Node) (n : Node) :
    runSteps old n (setNodeSteps ord) s = setNode ord s old n := by
  cases ord <;> cases old with
  | none => simp [setNodeSteps, runSteps, guardHolds, applyWrite, setNode, setNodeKeyMap, setNodeConsAddr, rmIfChanged, KeyKind.of]
  | some o =>
    simp only [setNodeSteps, runSteps, guardHolds, applyWrite, setNode, setNodeKeyMap, setNodeConsAddr, rmIfChanged, KeyKind.of]
    by_cases h1 : o.cons = n.cons <;> by_cases h2 : o.p2p = n.p2p <;> by_cases h3 : o.vrf = n.vrf <;>
      by_cases h4 : o.tls = n.tls <;> simp [h1, h2, h3, h4]

theorem runRm_removeNode (s : State) (n : Node) : runRm n removeNodeSteps s = removeNode s n := by
  simp [removeNodeSteps, runRm, applyRm, removeNode, KeyKind.of]

end OasisProofs.Registry
