import OasisModel.Roothash.Pool
import OasisProofs.Helpers.RoothashRank
import OasisProofs.Helpers.RoothashProcess
/-
Helper lemmas for C11: the invariant that ties the pool to the log of accepted commitments,
preserved by every verified commitment and every processing call.
-/
namespace OasisProofs.Roothash
open OasisModel.Roothash

/-- Pool state vs. log of accepted commitments (arrival order). -/
structure Inv (c : Committee) (round : Nat) (p : Pool) (log : List EC) : Prop where
  logOK : ∀ e ∈ log, e.round = round ∧ isMember c e.node = true ∧
      (e.failure = true → e.node ≠ e.sched) ∧ ∃ r, rankOf c e = some r
  votes : ∀ r sc, p.scs r = some sc → ∀ n v,
      (sc.votes n = some v ↔ ∃ e ∈ log, rankOf c e = some r ∧ e.node = n ∧ e.vote = v)
  dropped : ∀ e ∈ log, ∀ r, rankOf c e = some r → p.scs r = none →
      (p.highestRank < r ∨ (p.discrepancy = true ∧ r ≠ p.highestRank))
  discEntry : p.discrepancy = true → ∃ sc, p.scs p.highestRank = some sc
  own : p.highestRank ≠ maxRank → ∃ sc o, p.scs p.highestRank = some sc ∧ sc.commitment = some o ∧
      o ∈ log ∧ o.node = o.sched ∧ rankOf c o = some p.highestRank
  best : ∀ e ∈ log, e.node = e.sched → ∀ r, rankOf c e = some r → p.highestRank ≤ r
  uniq : log.Pairwise (fun a b => ¬ (a.node = b.node ∧ a.sched = b.sched))
  entryLog : ∀ r sc, p.scs r = some sc → ∃ e ∈ log, rankOf c e = some r

theorem inv_init (c : Committee) (round : Nat) : Inv c round {} [] where
  logOK := by simp
  votes := by simp
  dropped := by simp
  discEntry := by simp
  own := by simp
  best := by simp
  uniq := by simp
  entryLog := by simp

/-- Same round, same rank, no wrap-around ⇒ same scheduler. -/
theorem same_sched (c : Committee) (round : Nat) (hw : round + c.length < two64) (a b : EC) (r : Nat)
    (ha : a.round = round) (hb : b.round = round)
    (hra : rankOf c a = some r) (hrb : rankOf c b = some r) : a.sched = b.sched := by
  unfold rankOf at hra hrb
  rw [ha] at hra; rw [hb] at hrb
  exact schedulerRank_inj c round _ _ r hw hra hrb

theorem isBackupFrom_mem (l : List Member) (id : Nat) (h : isBackupFrom l id = true) :
    ∃ m ∈ l, m.node = id := by
  induction l with
  | nil => simp [isBackupFrom] at h
  | cons n rest ih =>
    unfold isBackupFrom at h
    split at h
    · simp at h
    · split at h
      · rename_i hn; exact ⟨n, by simp, by simpa using hn⟩
      · obtain ⟨m, hm, hid⟩ := ih h
        exact ⟨m, List.mem_cons_of_mem _ hm, hid⟩

theorem isBackupWorker_isMember (c : Committee) (id : Nat) (h : isBackupWorker c id = true) :
    isMember c id = true := by
  obtain ⟨m, hm, hid⟩ := isBackupFrom_mem _ _ h
  unfold isMember
  rw [List.any_eq_true]
  exact ⟨m, by simpa using hm, by simp [hid]⟩

/-- Description of the pool after an accepted commitment (`sc.Add` succeeded). -/
structure Accepted (p : Pool) (ec : EC) (rank : Nat) (prom : Prop) (p2 : Pool) (sc' : SC) : Prop where
  hr : (prom → p2.highestRank = rank) ∧ (¬ prom → p2.highestRank = p.highestRank)
  disc : p2.discrepancy = p.discrepancy
  entry : p2.scs rank = some sc'
  votesNew : ∀ n, sc'.votes n = if n = ec.node then some ec.vote else
      (match p.scs rank with | some sc => sc.votes n | none => none)
  commitNew : sc'.commitment = if ec.node = ec.sched then some ec else
      (match p.scs rank with | some sc => sc.commitment | none => none)
  others : ∀ r, r ≠ rank → (prom ∧ r > rank → p2.scs r = none) ∧ (¬ (prom ∧ r > rank) → p2.scs r = p.scs r)

/-- No accepted commitment for `rank` exists yet when the entry for `rank` is missing although
`rank` is admissible. -/
theorem no_log_for_missing (c : Committee) (round : Nat) (p : Pool) (log : List EC) (rank : Nat)
    (hinv : Inv c round p log) (hle : rank ≤ p.highestRank)
    (hdisc : p.discrepancy = true → rank = p.highestRank) (hnone : p.scs rank = none) :
    ∀ e ∈ log, rankOf c e ≠ some rank := by
  intro e he hr
  rcases hinv.dropped e he rank hr hnone with h | ⟨h1, h2⟩
  · omega
  · exact h2 (hdisc h1)

theorem inv_accept (c : Committee) (round : Nat) (hw : round + c.length < two64)
    (p : Pool) (log : List EC) (ec : EC) (rank : Nat) (prom : Prop) (p2 : Pool) (sc' : SC)
    (hinv : Inv c round p log)
    (hrd : ec.round = round) (hfl : ec.failure = true → ec.node ≠ ec.sched)
    (hmem : isMember c ec.node = true) (hrank : rankOf c ec = some rank)
    (hle : rank ≤ p.highestRank) (hdisc : p.discrepancy = true → rank = p.highestRank)
    (hprom : prom ↔ (rank < p.highestRank ∧ ec.node = ec.sched))
    (hnov : ∀ sc, p.scs rank = some sc → sc.votes ec.node = none)
    (hacc : Accepted p ec rank prom p2 sc') :
    Inv c round p2 (log ++ [ec]) := by
  -- no earlier accepted commitment of this node for this rank
  have hfresh : ∀ e ∈ log, rankOf c e = some rank → e.node ≠ ec.node := by
    intro e he hr hn
    cases hent : p.scs rank with
    | none => exact no_log_for_missing c round p log rank hinv hle hdisc hent e he hr
    | some sc =>
      have := (hinv.votes rank sc hent ec.node e.vote).2 ⟨e, he, hr, hn, rfl⟩
      rw [hnov sc hent] at this
      simp at this
  have hnodisc : prom → p.discrepancy = false := by
    intro hp
    cases hd : p.discrepancy with
    | false => rfl
    | true => have := hdisc hd; have := (hprom.1 hp).1; omega
  refine ⟨?_, ?_, ?_, ?_, ?_, ?_, ?_, ?_⟩
  · -- logOK
    intro e he
    rcases List.mem_append.1 he with h | h
    · exact hinv.logOK e h
    · simp at h; subst h
      exact ⟨hrd, hmem, hfl, rank, hrank⟩
  · -- votes
    intro r sc hsc n v
    by_cases hr : r = rank
    · subst hr
      rw [hacc.entry] at hsc
      cases hsc
      rw [hacc.votesNew n]
      constructor
      · intro h
        by_cases hn : n = ec.node
        · simp only [hn, if_true] at h
          cases h
          exact ⟨ec, by simp, hrank, hn.symm, rfl⟩
        · simp only [hn, if_false] at h
          cases hent : p.scs r with
          | none => rw [hent] at h; simp at h
          | some sc0 =>
            rw [hent] at h
            obtain ⟨e, he, h1, h2, h3⟩ := (hinv.votes r sc0 hent n v).1 h
            exact ⟨e, List.mem_append_left _ he, h1, h2, h3⟩
      · rintro ⟨e, he, h1, h2, h3⟩
        rcases List.mem_append.1 he with h | h
        · have hne : n ≠ ec.node := by rw [← h2]; exact hfresh e h h1
          simp only [hne, if_false]
          cases hent : p.scs r with
          | none => exact absurd h1 (no_log_for_missing c round p log r hinv hle hdisc hent e h)
          | some sc0 =>
            simp only
            exact (hinv.votes r sc0 hent n v).2 ⟨e, h, h1, h2, h3⟩
        · simp at h; subst h
          simp [h2.symm, h3]
    · have ho := hacc.others r hr
      by_cases hd : prom ∧ r > rank
      · rw [ho.1 hd] at hsc; simp at hsc
      · rw [ho.2 hd] at hsc
        rw [hinv.votes r sc hsc n v]
        constructor
        · rintro ⟨e, he, h⟩; exact ⟨e, List.mem_append_left _ he, h⟩
        · rintro ⟨e, he, h1, h2, h3⟩
          rcases List.mem_append.1 he with h | h
          · exact ⟨e, h, h1, h2, h3⟩
          · simp at h; subst h
            rw [hrank] at h1; cases h1; exact absurd rfl hr
  · -- dropped
    intro e he r hr hnone
    by_cases hrr : r = rank
    · subst hrr; rw [hacc.entry] at hnone; simp at hnone
    · have ho := hacc.others r hrr
      have he' : e ∈ log := by
        rcases List.mem_append.1 he with h | h
        · exact h
        · simp at h; subst h; rw [hrank] at hr; cases hr; exact absurd rfl hrr
      rw [hacc.disc]
      by_cases hp : prom
      · rw [hacc.hr.1 hp]
        by_cases hgt : r > rank
        · left; exact hgt
        · have : p.scs r = none := by rw [← ho.2 (by tauto)]; exact hnone
          rcases hinv.dropped e he' r hr this with h | ⟨h1, _⟩
          · have := (hprom.1 hp).1; omega
          · rw [hnodisc hp] at h1; simp at h1
      · rw [hacc.hr.2 hp]
        have : p.scs r = none := by rw [← ho.2 (by tauto)]; exact hnone
        exact hinv.dropped e he' r hr this
  · -- discEntry
    intro hd
    rw [hacc.disc] at hd
    have hp : ¬ prom := fun hp => by rw [hnodisc hp] at hd; simp at hd
    rw [hacc.hr.2 hp]
    have := hdisc hd
    subst this
    exact ⟨sc', hacc.entry⟩
  · -- own
    intro hmax
    by_cases hp : prom
    · rw [hacc.hr.1 hp]
      refine ⟨sc', ec, hacc.entry, ?_, by simp, (hprom.1 hp).2, hrank⟩
      rw [hacc.commitNew]; simp [(hprom.1 hp).2]
    · rw [hacc.hr.2 hp] at hmax ⊢
      obtain ⟨sc0, o, h1, h2, h3, h4, h5⟩ := hinv.own hmax
      by_cases hr : p.highestRank = rank
      · rw [hr] at h1 h5 ⊢
        refine ⟨sc', o, hacc.entry, ?_, List.mem_append_left _ h3, h4, h5⟩
        rw [hacc.commitNew, h1]
        have hne : ec.node ≠ ec.sched := by
          intro heq
          have hs : o.sched = ec.sched :=
            same_sched c round hw o ec rank (hinv.logOK o h3).1 hrd h5 hrank
          exact hfresh o h3 h5 (by rw [h4, hs, heq])
        simp [hne, h2]
      · have ho := hacc.others p.highestRank hr
        refine ⟨sc0, o, ?_, h2, List.mem_append_left _ h3, h4, h5⟩
        rw [ho.2 (by tauto)]; exact h1
  · -- best
    intro e he hself r hr
    rcases List.mem_append.1 he with h | h
    · have := hinv.best e h hself r hr
      by_cases hp : prom
      · rw [hacc.hr.1 hp]; have := (hprom.1 hp).1; omega
      · rw [hacc.hr.2 hp]; exact this
    · simp at h; subst h
      rw [hrank] at hr
      have hrr : rank = r := Option.some.inj hr
      subst hrr
      by_cases hp : prom
      · rw [hacc.hr.1 hp]
      · rw [hacc.hr.2 hp]
        have : ¬ (rank < p.highestRank) := fun hlt => hp (hprom.2 ⟨hlt, hself⟩)
        omega
  · -- uniq
    rw [List.pairwise_append]
    refine ⟨hinv.uniq, by simp, ?_⟩
    intro a ha b hb
    simp at hb; subst hb
    rintro ⟨h1, h2⟩
    have hra : rankOf c a = some rank := by
      unfold rankOf at hrank ⊢
      rw [(hinv.logOK a ha).1, h2, ← hrd]; exact hrank
    exact hfresh a ha hra h1
  · -- entryLog
    intro r sc hsc
    by_cases hr : r = rank
    · subst hr; exact ⟨ec, by simp, hrank⟩
    · have ho := hacc.others r hr
      by_cases hd : prom ∧ r > rank
      · rw [ho.1 hd] at hsc; simp at hsc
      · rw [ho.2 hd] at hsc
        obtain ⟨e, he, h⟩ := hinv.entryLog r sc hsc
        exact ⟨e, List.mem_append_left _ he, h⟩

theorem promote_yes (p : Pool) (rank : Nat) (ec : EC) (h : rank < p.highestRank ∧ ec.node = ec.sched) :
    promote p rank ec =
      { p with highestRank := rank, scs := fun r => if r > rank then none else p.scs r } := by
  unfold promote; simp [h.1, h.2]

theorem promote_no (p : Pool) (rank : Nat) (ec : EC) (h : ¬ (rank < p.highestRank ∧ ec.node = ec.sched)) :
    promote p rank ec = p := by
  unfold promote
  have : (decide (rank < p.highestRank) && ec.node == ec.sched) = false := by
    cases hd : decide (rank < p.highestRank) <;> simp_all
  simp [this]

theorem promote_scs_rank (p : Pool) (rank : Nat) (ec : EC) :
    (promote p rank ec).scs rank = p.scs rank := by
  by_cases h : rank < p.highestRank ∧ ec.node = ec.sched
  · rw [promote_yes p rank ec h]; simp
  · rw [promote_no p rank ec h]

theorem put_self (p : Pool) (rank : Nat) (sc : SC) (h : p.scs rank = some sc) : put p rank sc = p := by
  unfold put
  have : (fun r => if r = rank then some sc else p.scs r) = p.scs := by
    funext r
    by_cases hr : r = rank
    · subst hr; simp [h]
    · simp [hr]
  rw [this]

/-- The admission conditions of `add` before `sc.Add`. -/
def admissible (c : Committee) (p : Pool) (ec : EC) (rank : Nat) : Prop :=
  (p.discrepancy = false → isMember c ec.node = true) ∧
  (p.discrepancy = true → isBackupWorker c ec.node = true) ∧
  rankOf c ec = some rank ∧ rank ≤ p.highestRank ∧ (p.discrepancy = true → rank = p.highestRank)

/-- Shape of `add`: rejected early with the pool untouched, or the core with admissible inputs. -/
theorem add_shape (c : Committee) (p : Pool) (ec : EC) :
    (∃ e, add c p ec = (p, some e) ∧ ∀ rank, ¬ admissible c p ec rank) ∨
    (∃ rank, admissible c p ec rank ∧
      add c p ec = (put (promote p rank ec) rank ((entryOr (promote p rank ec) rank).add ec).1,
                    ((entryOr (promote p rank ec) rank).add ec).2)) := by
  unfold add
  by_cases h1 : (!p.discrepancy && !isMember c ec.node) = true
  · left
    refine ⟨AddErr.notInCommittee, by simp [h1], ?_⟩
    intro rank ha
    simp only [Bool.and_eq_true, Bool.not_eq_true'] at h1
    have := ha.1 h1.1
    rw [h1.2] at this; simp at this
  · by_cases h2 : (p.discrepancy && !isBackupWorker c ec.node) = true
    · left
      refine ⟨AddErr.badCommitment, by simp [h1, h2], ?_⟩
      intro rank ha
      simp only [Bool.and_eq_true, Bool.not_eq_true'] at h2
      have := ha.2.1 h2.1
      rw [h2.2] at this; simp at this
    · simp only [h1, h2, if_false, Bool.false_eq_true]
      cases hrk : schedulerRank c ec.round ec.sched with
      | none =>
        left
        refine ⟨_, rfl, ?_⟩
        intro rank ha
        have := ha.2.2.1
        unfold rankOf at this
        rw [hrk] at this; simp at this
      | some rank =>
        simp only
        by_cases h3 : rank > p.highestRank
        · left
          refine ⟨AddErr.badCommitment, by simp [h3], ?_⟩
          intro rank' ha
          have h := ha.2.2.1
          unfold rankOf at h
          rw [hrk] at h
          have : rank = rank' := Option.some.inj h
          have := ha.2.2.2.1
          omega
        · by_cases h4 : (rank != p.highestRank && p.discrepancy) = true
          · left
            refine ⟨AddErr.badCommitment, by simp [h3, h4], ?_⟩
            intro rank' ha
            have h := ha.2.2.1
            unfold rankOf at h
            rw [hrk] at h
            have e : rank = rank' := Option.some.inj h
            simp only [Bool.and_eq_true, bne_iff_ne, ne_eq] at h4
            have := ha.2.2.2.2 h4.2
            omega
          · right
            refine ⟨rank, ⟨?_, ?_, ?_, by omega, ?_⟩, by simp [h3, h4]⟩
            · intro hd; simpa [hd] using h1
            · intro hd; simpa [hd] using h2
            · unfold rankOf; exact hrk
            · intro hd
              simp only [hd, Bool.and_true, bne_iff_ne, ne_eq, Decidable.not_not] at h4
              exact h4

theorem admissible_member (c : Committee) (p : Pool) (ec : EC) (rank : Nat)
    (h : admissible c p ec rank) : isMember c ec.node = true := by
  cases hd : p.discrepancy with
  | false => exact h.1 hd
  | true => exact isBackupWorker_isMember c _ (h.2.1 hd)

/-- A verified commitment keeps the invariant; it enters the log iff it was accepted. -/
theorem inv_add (c : Committee) (round : Nat) (hw : round + c.length < two64)
    (p : Pool) (log : List EC) (ec : EC) (hinv : Inv c round p log)
    (hrd : ec.round = round) (hfl : ec.failure = true → ec.node ≠ ec.sched) :
    ((add c p ec).2 = none → Inv c round (add c p ec).1 (log ++ [ec])) ∧
    ((add c p ec).2 ≠ none → Inv c round (add c p ec).1 log) := by
  rcases add_shape c p ec with ⟨e, he, _⟩ | ⟨rank, hadm, heq⟩
  · rw [he]; simp; exact hinv
  · rw [heq]
    have hmem := admissible_member c p ec rank hadm
    obtain ⟨_, _, hrank, hle, hdisc⟩ := hadm
    have hent : entryOr (promote p rank ec) rank = entryOr p rank := by
      unfold entryOr; rw [promote_scs_rank]
    rw [hent]
    unfold SC.add
    cases hv : (entryOr p rank).votes ec.node with
    | some v0 =>
      simp only
      refine ⟨by simp, fun _ => ?_⟩
      -- the entry exists and the scheduler itself is not being promoted
      cases hsc : p.scs rank with
      | none => simp [entryOr, hsc] at hv
      | some sc0 =>
        have hv' : sc0.votes ec.node = some v0 := by simpa [entryOr, hsc] using hv
        have hnp : ¬ (rank < p.highestRank ∧ ec.node = ec.sched) := by
          rintro ⟨hlt, hself⟩
          obtain ⟨e, he, h1, h2, _⟩ := (hinv.votes rank sc0 hsc ec.node v0).1 hv'
          have hs := same_sched c round hw e ec rank (hinv.logOK e he).1 hrd h1 hrank
          have := hinv.best e he (by rw [h2, hs, hself]) rank h1
          omega
        rw [promote_no p rank ec hnp]
        have : entryOr p rank = sc0 := by simp [entryOr, hsc]
        rw [this, put_self p rank sc0 hsc]
        exact hinv
    | none =>
      simp only
      refine ⟨fun _ => ?_, by simp⟩
      refine inv_accept c round hw p log ec rank (rank < p.highestRank ∧ ec.node = ec.sched) _
        { commitment := if ec.node = ec.sched then some ec else (entryOr p rank).commitment,
          votes := fun n => if n = ec.node then some ec.vote else (entryOr p rank).votes n }
        hinv hrd hfl hmem hrank hle hdisc Iff.rfl ?_ ?_
      · intro sc hsc
        simpa [entryOr, hsc] using hv
      · by_cases hp : rank < p.highestRank ∧ ec.node = ec.sched
        · rw [promote_yes p rank ec hp]
          refine ⟨⟨fun _ => rfl, fun h => absurd hp h⟩, rfl, by simp [put], ?_, ?_, ?_⟩
          · intro n; unfold entryOr; cases p.scs rank <;> rfl
          · unfold entryOr; cases p.scs rank <;> rfl
          · intro r hr
            refine ⟨fun h => by simp [put, hr, h.2], fun h => ?_⟩
            have : ¬ r > rank := fun hgt => h ⟨hp, hgt⟩
            simp [put, hr, this]
        · rw [promote_no p rank ec hp]
          refine ⟨⟨fun h => absurd h hp, fun _ => rfl⟩, rfl, by simp [put], ?_, ?_, ?_⟩
          · intro n; unfold entryOr; cases p.scs rank <;> rfl
          · unfold entryOr; cases p.scs rank <;> rfl
          · intro r hr
            exact ⟨fun h => absurd h.1 hp, fun _ => by simp [put, hr]⟩

/-- In a state satisfying the invariant a rejected verified commitment leaves the pool exactly as it
was (the early `HighestRank` update of pool.go:286 never precedes a failing `sc.Add`). -/
theorem add_reject_unchanged (c : Committee) (round : Nat) (hw : round + c.length < two64)
    (p : Pool) (log : List EC) (ec : EC) (hinv : Inv c round p log) (hrd : ec.round = round)
    (hrej : (add c p ec).2 ≠ none) : (add c p ec).1 = p := by
  rcases add_shape c p ec with ⟨e, he, _⟩ | ⟨rank, hadm, heq⟩
  · rw [he]
  · rw [heq] at hrej ⊢
    obtain ⟨_, _, hrank, hle, hdisc⟩ := hadm
    have hent : entryOr (promote p rank ec) rank = entryOr p rank := by
      unfold entryOr; rw [promote_scs_rank]
    rw [hent] at hrej ⊢
    unfold SC.add at hrej ⊢
    cases hv : (entryOr p rank).votes ec.node with
    | none => rw [hv] at hrej; simp at hrej
    | some v0 =>
      simp only
      cases hsc : p.scs rank with
      | none => simp [entryOr, hsc] at hv
      | some sc0 =>
        have hv' : sc0.votes ec.node = some v0 := by simpa [entryOr, hsc] using hv
        have hnp : ¬ (rank < p.highestRank ∧ ec.node = ec.sched) := by
          rintro ⟨hlt, hself⟩
          obtain ⟨e, he, h1, h2, _⟩ := (hinv.votes rank sc0 hsc ec.node v0).1 hv'
          have hs := same_sched c round hw e ec rank (hinv.logOK e he).1 hrd h1 hrank
          have := hinv.best e he (by rw [h2, hs, hself]) rank h1
          omega
        rw [promote_no p rank ec hnp]
        have : entryOr p rank = sc0 := by simp [entryOr, hsc]
        rw [this, put_self p rank sc0 hsc]

/-- A processing call keeps the invariant. -/
theorem inv_process (c : Committee) (round : Nat) (p : Pool) (log : List EC) (s : Nat) (tmo : Bool)
    (hinv : Inv c round p log) : Inv c round (process c p s tmo).1 log := by
  by_cases h : (process c p s tmo).2 = Res.discrepancyDetected
  · have hi : processInner c p s tmo = Res.discrepancyDetected := by rw [← process_snd]; exact h
    have hent : ∃ sc, p.scs p.highestRank = some sc := by
      unfold processInner at hi
      cases hsc : p.scs p.highestRank with
      | none => rw [hsc] at hi; simp only at hi; split at hi <;> simp at hi
      | some sc => exact ⟨sc, rfl⟩
    have hp : (process c p s tmo).1 =
        Pool.mk p.highestRank (fun r => if r != p.highestRank then none else p.scs r) true := by
      unfold process; rw [hi]
    rw [hp]
    refine ⟨hinv.logOK, ?_, ?_, ?_, ?_, hinv.best, hinv.uniq, ?_⟩
    · intro r sc hsc
      by_cases hr : r = p.highestRank
      · subst hr; simp at hsc; exact hinv.votes _ sc hsc
      · simp [hr] at hsc
    · intro e he r hr hnone
      by_cases hrr : r = p.highestRank
      · subst hrr
        simp at hnone
        rcases hinv.dropped e he _ hr hnone with h | ⟨_, h⟩
        · omega
        · exact absurd rfl h
      · right; exact ⟨rfl, hrr⟩
    · intro _; simpa using hent
    · intro hmax
      obtain ⟨sc, o, h1, h2⟩ := hinv.own hmax
      exact ⟨sc, o, by simpa using h1, h2⟩
    · intro r sc hsc
      by_cases hr : r = p.highestRank
      · subst hr; simp at hsc; exact hinv.entryLog _ sc hsc
      · simp [hr] at hsc
  · rw [process_not_disc_pool c p s tmo h]; exact hinv

theorem verify_ok (round : Nat) (sigOk : Bool) (ec : EC) (h : verify round sigOk ec = none) :
    ec.round = round ∧ (ec.failure = true → ec.node ≠ ec.sched) := by
  unfold verify at h
  split at h
  · simp at h
  · split at h
    · simp at h
    · split at h
      · simp at h
      · rename_i _ h2 h3
        refine ⟨by simpa using h2, ?_⟩
        intro hf hn
        simp [hf, hn] at h3

theorem inv_step (c : Committee) (round : Nat) (hw : round + c.length < two64) (s : St) (op : Op)
    (hinv : Inv c round s.pool s.log) : Inv c round (step c round s op).pool (step c round s op).log := by
  cases op with
  | commit sigOk ec =>
    cases hv : verify round sigOk ec with
    | some e =>
      have hs : submit c round s.pool sigOk ec = (s.pool, some e) := by unfold submit; rw [hv]
      simp only [step]
      rw [hs]; exact hinv
    | none =>
      have hs : submit c round s.pool sigOk ec = add c s.pool ec := by unfold submit; rw [hv]
      simp only [step]
      rw [hs]
      obtain ⟨hrd, hfl⟩ := verify_ok round sigOk ec hv
      have := inv_add c round hw s.pool s.log ec hinv hrd hfl
      generalize hr : add c s.pool ec = res at this
      obtain ⟨p', e⟩ := res
      cases e with
      | none => exact this.1 rfl
      | some e => exact this.2 (by simp)
  | process stragglers timeout =>
    exact inv_process c round s.pool s.log stragglers timeout hinv

theorem inv_run (c : Committee) (round : Nat) (hw : round + c.length < two64) (ops : List Op) :
    Inv c round (run c round ops).pool (run c round ops).log := by
  unfold run
  have gen : ∀ (s : St), Inv c round s.pool s.log →
      Inv c round (ops.foldl (step c round) s).pool (ops.foldl (step c round) s).log := by
    induction ops with
    | nil => intro s h; exact h
    | cons op rest ih =>
      intro s h
      exact ih _ (inv_step c round hw s op h)
  exact gen {} (inv_init c round)

/-- With one accepted commitment per (node, scheduler), the vote found for a commitment's own
(node, scheduler) is that commitment. -/
theorem voteOf_self (log : List EC) (o : EC)
    (huniq : log.Pairwise (fun a b => ¬ (a.node = b.node ∧ a.sched = b.sched))) (ho : o ∈ log) :
    voteOf log o.sched o.node = some o := by
  unfold voteOf
  induction log with
  | nil => simp at ho
  | cons x rest ih =>
    rw [List.pairwise_cons] at huniq
    rw [List.find?_cons]
    rcases List.mem_cons.1 ho with h | h
    · subst h; simp
    · have := huniq.1 o h
      have hx : (x.sched == o.sched && x.node == o.node) = false := by
        cases hb : (x.sched == o.sched && x.node == o.node) with
        | false => rfl
        | true =>
          simp only [Bool.and_eq_true, beq_iff_eq] at hb
          exact absurd ⟨hb.2, hb.1⟩ this
      rw [hx]
      exact ih huniq.2 h

/-- The entry at the highest rank has the scheduler's own, verified, non-failure commitment. -/
theorem chosen_spec (c : Committee) (round : Nat) (hw : round + c.length < two64) (p : Pool)
    (log : List EC) (hinv : Inv c round p log) (sc : SC) (hsc : p.scs p.highestRank = some sc) :
    ∃ o, sc.commitment = some o ∧ o ∈ log ∧ o.node = o.sched ∧
      rankOf c o = some p.highestRank ∧ o.failure = false := by
  have hmax : p.highestRank ≠ maxRank := by
    obtain ⟨e, _, hr⟩ := hinv.entryLog _ sc hsc
    have := schedulerRank_lt c e.round e.sched _ hr
    have := workerTotal_le c
    unfold maxRank
    omega
  obtain ⟨sc', o, h1, h2, h3, h4, h5⟩ := hinv.own hmax
  rw [hsc] at h1; cases h1
  refine ⟨o, h2, h3, h4, h5, ?_⟩
  cases hf : o.failure with
  | false => rfl
  | true => exact absurd h4 ((hinv.logOK o h3).2.2.1 hf)

/-- The votes stored for the chosen scheduler are the first accepted commitments per node for that
scheduler's proposal. -/
theorem votes_eq_voteOf (c : Committee) (round : Nat) (hw : round + c.length < two64) (p : Pool)
    (log : List EC) (hinv : Inv c round p log) (sc : SC) (o : EC)
    (hsc : p.scs p.highestRank = some sc) (ho : o ∈ log) (hr : rankOf c o = some p.highestRank) :
    ∀ n, sc.votes n = (voteOf log o.sched n).map EC.vote := by
  intro n
  cases hf : voteOf log o.sched n with
  | some e =>
    unfold voteOf at hf
    have he := List.mem_of_find?_eq_some hf
    have hp := List.find?_some hf
    simp only [Bool.and_eq_true, beq_iff_eq] at hp
    have hre : rankOf c e = some p.highestRank := by
      unfold rankOf at hr ⊢
      rw [(hinv.logOK e he).1, hp.1, ← (hinv.logOK o ho).1]; exact hr
    simp only [Option.map_some]
    exact (hinv.votes _ sc hsc n e.vote).2 ⟨e, he, hre, hp.2, rfl⟩
  | none =>
    simp only [Option.map_none]
    cases hv : sc.votes n with
    | none => rfl
    | some v =>
      exfalso
      obtain ⟨e, he, h1, h2, _⟩ := (hinv.votes _ sc hsc n v).1 hv
      have hs := same_sched c round hw e o _ (hinv.logOK e he).1 (hinv.logOK o ho).1 h1 hr
      unfold voteOf at hf
      rw [List.find?_eq_none] at hf
      have := hf e he
      simp [hs, h2] at this

end OasisProofs.Roothash
