import OasisProofs.Helpers.MkvsLog
/-
The tree object (`TreeState`: pending root + pending write log) refines the ordered map, and the
write log `Commit` builds maps the contents at the previous commit to the current contents.
-/
namespace OasisProofs.Mkvs
open OasisModel.Mkvs
open OasisModel.Mkvs.TreeState (lookupPending setPending)

abbrev Pending := List (Bytes × PendingEntry)

theorem lookupPending_none {p : Pending} {k : Bytes} : lookupPending p k = none ↔ k ∉ p.map (·.1) := by
  induction p with
  | nil => simp [lookupPending]
  | cons x p ih =>
    obtain ⟨k', e⟩ := x
    simp only [lookupPending, List.map_cons, List.mem_cons, not_or]
    by_cases hk : k' = k
    · subst hk; simp
    · simp only [if_neg hk, ih]
      exact ⟨fun h => ⟨fun hh => hk hh.symm, h⟩, fun h => h.2⟩

theorem lookupPending_some {p : Pending} (hn : (p.map (·.1)).Nodup) {k : Bytes} {e : PendingEntry} :
    lookupPending p k = some e ↔ (k, e) ∈ p := by
  induction p with
  | nil => simp [lookupPending]
  | cons x p ih =>
    obtain ⟨k', e'⟩ := x
    simp only [List.map_cons, List.nodup_cons] at hn
    simp only [lookupPending, List.mem_cons, Prod.mk.injEq]
    by_cases hk : k' = k
    · subst hk
      simp only [if_true, Option.some.injEq, true_and]
      constructor
      · intro h; exact Or.inl h.symm
      · rintro (h | h)
        · exact h.symm
        · exact absurd (List.mem_map.2 ⟨(k', e), h, rfl⟩) hn.1
    · simp only [if_neg hk, ih hn.2]
      constructor
      · intro h; exact Or.inr h
      · rintro (⟨h, _⟩ | h)
        · exact absurd h.symm hk
        · exact h

/-- Entries after `setPending`. -/
theorem mem_setPending {p : Pending} (hn : (p.map (·.1)).Nodup) (k : Bytes) (v : Option Bytes) (ex : Bool)
    (k' : Bytes) (e' : PendingEntry) :
    (k', e') ∈ setPending p k v ex ↔
      (k' ≠ k ∧ (k', e') ∈ p) ∨
      (k' = k ∧ e' = ⟨v, match lookupPending p k with | some e => e.existed | none => ex⟩) := by
  induction p with
  | nil =>
    simp only [setPending, lookupPending, List.mem_singleton, Prod.mk.injEq, List.not_mem_nil, and_false,
      false_or]
  | cons x p ih =>
    obtain ⟨k0, e0⟩ := x
    simp only [List.map_cons, List.nodup_cons] at hn
    simp only [setPending, lookupPending]
    by_cases hk : k0 = k
    · subst hk
      simp only [if_true, List.mem_cons, Prod.mk.injEq]
      constructor
      · rintro (⟨h1, h2⟩ | h)
        · exact Or.inr ⟨h1, h2⟩
        · have : k' ≠ k0 := by
            intro hh; subst hh
            exact hn.1 (List.mem_map.2 ⟨(k', e'), h, rfl⟩)
          exact Or.inl ⟨this, Or.inr h⟩
      · rintro (⟨h1, ⟨h2, _⟩ | h2⟩ | ⟨h1, h2⟩)
        · exact absurd h2 h1
        · exact Or.inr h2
        · exact Or.inl ⟨h1, h2⟩
    · simp only [if_neg hk, List.mem_cons, Prod.mk.injEq, ih hn.2]
      constructor
      · rintro (⟨h1, h2⟩ | ⟨h1, h2⟩ | ⟨h1, h2⟩)
        · subst h1 h2; exact Or.inl ⟨hk, Or.inl ⟨rfl, rfl⟩⟩
        · exact Or.inl ⟨h1, Or.inr h2⟩
        · exact Or.inr ⟨h1, h2⟩
      · rintro (⟨h1, ⟨h2, h3⟩ | h2⟩ | ⟨h1, h2⟩)
        · exact Or.inl ⟨h2, h3⟩
        · exact Or.inr (Or.inl ⟨h1, h2⟩)
        · exact Or.inr (Or.inr ⟨h1, h2⟩)

theorem keys_setPending (p : Pending) (k : Bytes) (v : Option Bytes) (ex : Bool) :
    ∀ k', k' ∈ (setPending p k v ex).map (·.1) ↔ (k' = k ∨ k' ∈ p.map (·.1)) := by
  induction p with
  | nil => intro k'; simp [setPending]
  | cons x p ih =>
    obtain ⟨k0, e0⟩ := x
    intro k'
    simp only [setPending]
    by_cases hk : k0 = k
    · subst hk; simp
    · simp only [if_neg hk, List.map_cons, List.mem_cons, ih]
      constructor
      · rintro (h | h | h)
        · exact Or.inr (Or.inl h)
        · exact Or.inl h
        · exact Or.inr (Or.inr h)
      · rintro (h | h | h)
        · exact Or.inr (Or.inl h)
        · exact Or.inl h
        · exact Or.inr (Or.inr h)

theorem nodup_setPending {p : Pending} (hn : (p.map (·.1)).Nodup) (k : Bytes) (v : Option Bytes) (ex : Bool) :
    ((setPending p k v ex).map (·.1)).Nodup := by
  induction p with
  | nil => simp [setPending]
  | cons x p ih =>
    obtain ⟨k0, e0⟩ := x
    simp only [List.map_cons, List.nodup_cons] at hn
    simp only [setPending]
    by_cases hk : k0 = k
    · subst hk; simp only [if_true, List.map_cons, List.nodup_cons]; exact hn
    · simp only [if_neg hk, List.map_cons, List.nodup_cons]
      refine ⟨?_, ih hn.2⟩
      intro h
      rcases (keys_setPending p k v ex k0).1 h with h | h
      · exact hk h
      · exact hn.1 h

/-- Invariant of the tree object relative to the contents `old` at the last commit. -/
structure TInv (old : List KV) (s : TreeState) : Prop where
  wf : WF s.root
  nodup : (s.pending.map (·.1)).Nodup
  entry : ∀ k e, (k, e) ∈ s.pending →
    e.value = SMap.get s.root.toList k ∧ e.existed = (SMap.get old k).isSome
  other : ∀ k, k ∉ s.pending.map (·.1) → SMap.get s.root.toList k = SMap.get old k

theorem tinv_init {t : Trie} (h : WF t) : TInv t.toList { root := t, pending := [] } :=
  ⟨h, by simp, by intro k e hm; simp at hm, fun _ _ => rfl⟩

theorem tinv_insert {old : List KV} {s : TreeState} (h : TInv old s) (k v : Bytes) :
    TInv old (s.insert k v) ∧ (s.insert k v).root.toList = SMap.insert s.root.toList k v := by
  have hs := wf_sorted h.wf
  have hroot : (s.insert k v).root = s.root.insert k v := rfl
  refine ⟨⟨?_, ?_, ?_, ?_⟩, ?_⟩
  · rw [hroot]; exact wf_insert h.wf k v
  · exact nodup_setPending h.nodup _ _ _
  · intro k' e' hm
    rw [hroot, toList_insert h.wf, smap_get_insert hs]
    rcases (mem_setPending h.nodup k (some v) _ k' e').1 hm with ⟨h1, h2⟩ | ⟨h1, h2⟩
    · rw [if_neg h1]; exact h.entry k' e' h2
    · subst h1
      rw [if_pos rfl, h2]
      refine ⟨rfl, ?_⟩
      cases hl : lookupPending s.pending k' with
      | some e => exact (h.entry k' e ((lookupPending_some h.nodup).1 hl)).2
      | none =>
        simp only
        rw [insert_existed h.wf, h.other k' (lookupPending_none.1 hl)]
  · intro k' hk'
    have hk'' := mt (keys_setPending s.pending k (some v) _ k').2 hk'
    simp only [not_or] at hk''
    rw [hroot, toList_insert h.wf, smap_get_insert hs, if_neg hk''.1]
    exact h.other k' hk''.2
  · rw [hroot]; exact toList_insert h.wf k v

theorem tinv_removeExisting {old : List KV} {s : TreeState} (h : TInv old s) (k : Bytes) :
    TInv old (s.removeExisting k).1 ∧
    (s.removeExisting k).1.root.toList = SMap.erase s.root.toList k ∧
    (s.removeExisting k).2 = SMap.get s.root.toList k := by
  have hs := wf_sorted h.wf
  simp only [TreeState.removeExisting]
  cases hl : lookupPending s.pending k with
  | some e =>
    obtain ⟨ev, ex⟩ := e
    cases ev with
    | none =>
      -- already removed locally: nothing happens
      have he := (h.entry k ⟨none, ex⟩ ((lookupPending_some h.nodup).1 hl)).1
      simp only at he
      refine ⟨h, ?_, ?_⟩
      · exact (smap_erase_absent hs k he.symm).symm
      · exact he
    | some w =>
      simp only
      have hroot : (s.root.removeAux k 0).1 = s.root.remove k := rfl
      refine ⟨⟨?_, nodup_setPending h.nodup _ _ _, ?_, ?_⟩, ?_, ?_⟩
      · simp only [hroot]; exact wf_remove h.wf k
      · intro k' e' hm
        simp only [hroot, toList_remove h.wf, smap_get_erase hs]
        rcases (mem_setPending h.nodup k none _ k' e').1 hm with ⟨h1, h2⟩ | ⟨h1, h2⟩
        · rw [if_neg h1]; exact h.entry k' e' h2
        · subst h1
          rw [if_pos rfl, h2, hl]
          exact ⟨rfl, (h.entry k' _ ((lookupPending_some h.nodup).1 hl)).2⟩
      · intro k' hk'
        have hk'' := mt (keys_setPending s.pending k none _ k').2 hk'
        simp only [not_or] at hk''
        simp only [hroot, toList_remove h.wf, smap_get_erase hs, if_neg hk''.1]
        exact h.other k' hk''.2
      · simp only [hroot]; exact toList_remove h.wf k
      · exact (removeExisting_eq h.wf k).2
  | none =>
    simp only
    have hroot : (s.root.removeAux k 0).1 = s.root.remove k := rfl
    refine ⟨⟨?_, nodup_setPending h.nodup _ _ _, ?_, ?_⟩, ?_, ?_⟩
    · simp only [hroot]; exact wf_remove h.wf k
    · intro k' e' hm
      simp only [hroot, toList_remove h.wf, smap_get_erase hs]
      rcases (mem_setPending h.nodup k none _ k' e').1 hm with ⟨h1, h2⟩ | ⟨h1, h2⟩
      · rw [if_neg h1]; exact h.entry k' e' h2
      · subst h1
        rw [if_pos rfl, h2, hl]
        refine ⟨rfl, ?_⟩
        simp only
        rw [remove_changed h.wf, h.other k' (lookupPending_none.1 hl)]
    · intro k' hk'
      have hk'' := mt (keys_setPending s.pending k none _ k').2 hk'
      simp only [not_or] at hk''
      simp only [hroot, toList_remove h.wf, smap_get_erase hs, if_neg hk''.1]
      exact h.other k' hk''.2
    · simp only [hroot]; exact toList_remove h.wf k
    · exact (removeExisting_eq h.wf k).2

/-- `Get` (pending write log first, then the tree) answers what the ordered map answers. -/
theorem tinv_get {old : List KV} {s : TreeState} (h : TInv old s) (k : Bytes) :
    s.get k = SMap.get s.root.toList k := by
  simp only [TreeState.get]
  cases hl : lookupPending s.pending k with
  | some e => exact (h.entry k e ((lookupPending_some h.nodup).1 hl)).1
  | none => exact get_eq_smap h.wf k


/-! ### the write log built by `Commit` -/

def keepEntry (e : Bytes × PendingEntry) : Bool := !(e.2.value.isNone && !e.2.existed)

theorem writeLog_eq (s : TreeState) :
    s.writeLog = (s.pending.filter keepEntry).map (fun e => (e.1, e.2.value)) := rfl

theorem writeLog_keys_sublist (s : TreeState) :
    (s.writeLog.map (·.1)).Sublist (s.pending.map (·.1)) := by
  rw [writeLog_eq, List.map_map]
  have : ((fun x : LogEntry => x.1) ∘ fun e : Bytes × PendingEntry => (e.1, e.2.value)) = (·.1) := rfl
  rw [this]
  exact List.Sublist.map _ List.filter_sublist

/-- The keys of the write log are unique (writelog.go: "The keys in the write log must be unique"). -/
theorem writeLog_nodup {old : List KV} {s : TreeState} (h : TInv old s) :
    (s.writeLog.map (·.1)).Nodup := (writeLog_keys_sublist s).nodup h.nodup

theorem mem_writeLog {s : TreeState} (k : Bytes) (v : Option Bytes) :
    (k, v) ∈ s.writeLog ↔ ∃ e, (k, e) ∈ s.pending ∧ keepEntry (k, e) = true ∧ e.value = v := by
  rw [writeLog_eq]
  simp only [List.mem_map, List.mem_filter, Prod.mk.injEq]
  constructor
  · rintro ⟨⟨k', e⟩, ⟨h1, h2⟩, h3, h4⟩
    simp only at h3 h4
    subst h3
    exact ⟨e, h1, h2, h4⟩
  · rintro ⟨e, h1, h2, h3⟩
    exact ⟨(k, e), ⟨h1, h2⟩, rfl, h3⟩

/-- C13 core: the log coalesced from the pending entries, applied to the contents at the last
commit, gives the current contents (entries that never existed and end removed are dropped;
that is harmless). -/
theorem writeLog_applies {old : List KV} (hold : SMap.Sorted old) {s : TreeState} (h : TInv old s) :
    applyLogSpec old s.writeLog = s.root.toList := by
  apply smap_ext_get (applyLogSpec_sorted hold _) (wf_sorted h.wf)
  intro k
  rw [applyLogSpec_get hold _ (writeLog_nodup h)]
  cases hl : lookupPending s.pending k with
  | none =>
    have hk := lookupPending_none.1 hl
    have : k ∉ s.writeLog.map (·.1) := fun hh => hk ((writeLog_keys_sublist s).subset hh)
    rw [logLookup_none this]
    exact (h.other k hk).symm
  | some e =>
    have hm := (lookupPending_some h.nodup).1 hl
    obtain ⟨he1, he2⟩ := h.entry k e hm
    by_cases hkeep : keepEntry (k, e) = true
    · have : (k, e.value) ∈ s.writeLog := (mem_writeLog k e.value).2 ⟨e, hm, hkeep, rfl⟩
      rw [(logLookup_mem (writeLog_nodup h) k e.value).2 this]
      exact he1
    · have hnot : k ∉ s.writeLog.map (·.1) := by
        intro hh
        obtain ⟨⟨k', v⟩, h1, h2⟩ := List.mem_map.1 hh
        simp only at h2; subst h2
        obtain ⟨e', h3, h4, _⟩ := (mem_writeLog k' v).1 h1
        have : e' = e := by
          have := (lookupPending_some h.nodup).2 h3
          rw [hl] at this; injection this with this; exact this.symm
        subst this
        exact hkeep h4
      rw [logLookup_none hnot]
      simp only [keepEntry, Bool.not_eq_true, Bool.not_eq_false'] at hkeep
      have hv : e.value = none := by
        cases hv : e.value with
        | none => rfl
        | some w => simp [hv] at hkeep
      have hex : e.existed = false := by
        cases hx : e.existed with
        | false => rfl
        | true => simp [hv, hx] at hkeep
      rw [← he1, hv]
      rw [hex] at he2
      cases ho : SMap.get old k with
      | none => rfl
      | some w => rw [ho] at he2; simp at he2

end OasisProofs.Mkvs
