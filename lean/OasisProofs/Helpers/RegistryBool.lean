import OasisProofs.Helpers.RegistryEpoch
/-
C17 helper lemmas, part 5: the executable invariant `invB` (evaluated by the harness on the real
registry state) is equivalent to the propositional invariant the proofs use.
-/
namespace OasisProofs.Registry
open OasisModel.Registry

theorem all_keys_iff {α β : Type} [DecidableEq α] (m : Map α β) (f : α → Bool) :
    (Map.keys m).all f = true ↔ ∀ k v, m.get k = some v → f k = true := by
  constructor
  · intro h k v hg
    exact List.all_eq_true.1 h k (Map.mem_keys_of_get hg)
  · intro h
    apply List.all_eq_true.2
    intro k hk
    have := Map.get_isSome_of_mem_keys hk
    cases hg : m.get k with
    | none => simp [hg] at this
    | some v => exact h k v hg

theorem hasDup_false_iff (l : List Key) : hasDup l = false ↔ l.Nodup := by
  induction l with
  | nil => simp [hasDup]
  | cons k ks ih => simp [hasDup, ih]

/-- The lookup-level content of the invariant (everything except the representation detail that
the node table has no duplicate keys). -/
structure InvL (s : State) : Prop extends IndexInv s where
  cl_sound : ∀ a c ths, s.claims.get (a, c) = some ths → Implied s a ths c
  cl_compl : ∀ a c ths, Implied s a ths c → s.claims.get (a, c) = some ths
  st_nodes : ∀ id n, s.nodes.get id = some n → ∃ st, s.status.get id = some st

theorem Inv.toInvL {s : State} (h : Inv s) : InvL s :=
  { toIndexInv := h.toIndexInv, cl_sound := h.cl_sound, cl_compl := h.cl_compl, st_nodes := h.st_nodes }

theorem keyMapSoundB_iff (s : State) : keyMapSoundB s = true ↔
    ∀ k id, s.keyMap.get k = some id → ∃ n, s.nodes.get id = some n ∧ k ∈ subKeys n := by
  unfold keyMapSoundB
  rw [all_keys_iff]
  constructor
  · intro h k id hk
    have := h k id hk
    simp only [hk] at this
    cases hn : s.nodes.get id with
    | none => simp [hn] at this
    | some n => simp only [hn] at this; exact ⟨n, rfl, by simpa using this⟩
  · intro h k id hk
    obtain ⟨n, hn, hkn⟩ := h k id hk
    simp only [hk, hn]
    simpa using hkn

theorem keyMapCompleteB_iff (s : State) : keyMapCompleteB s = true ↔
    ∀ id n, s.nodes.get id = some n → ∀ k, k ∈ subKeys n → s.keyMap.get k = some id := by
  unfold keyMapCompleteB
  rw [all_keys_iff]
  constructor
  · intro h id n hn k hk
    have := h id n hn
    simp only [hn, List.all_eq_true, beq_iff_eq] at this
    exact this k hk
  · intro h id n hn
    simp only [hn, List.all_eq_true, beq_iff_eq]
    exact h id n hn

theorem consAddrSoundB_iff (s : State) : consAddrSoundB s = true ↔
    ∀ k id, s.consAddr.get k = some id → ∃ n, s.nodes.get id = some n ∧ n.cons = k := by
  unfold consAddrSoundB
  rw [all_keys_iff]
  constructor
  · intro h k id hk
    have := h k id hk
    simp only [hk] at this
    cases hn : s.nodes.get id with
    | none => simp [hn] at this
    | some n => simp only [hn] at this; exact ⟨n, rfl, by simpa using this⟩
  · intro h k id hk
    obtain ⟨n, hn, hkn⟩ := h k id hk
    simp only [hk, hn]
    simpa using hkn

theorem consAddrCompleteB_iff (s : State) : consAddrCompleteB s = true ↔
    ∀ id n, s.nodes.get id = some n → s.consAddr.get n.cons = some id := by
  unfold consAddrCompleteB
  rw [all_keys_iff]
  constructor
  · intro h id n hn
    have := h id n hn
    simpa [hn] using this
  · intro h id n hn
    simpa [hn] using h id n hn

theorem byEntityB_iff (s : State) : byEntityB s = true ↔
    (∀ e id, s.byEntity.get (e, id) = some () → ∃ n, s.nodes.get id = some n ∧ n.entity = e) ∧
    (∀ id n, s.nodes.get id = some n → s.byEntity.get (n.entity, id) = some ()) := by
  unfold byEntityB
  rw [Bool.and_eq_true, all_keys_iff, all_keys_iff]
  constructor
  · rintro ⟨h1, h2⟩
    refine ⟨?_, ?_⟩
    · intro e id hb
      have := h1 (e, id) () hb
      cases hn : s.nodes.get id with
      | none => simp [hn] at this
      | some n => simp only [hn] at this; exact ⟨n, rfl, by simpa using this⟩
    · intro id n hn
      have := h2 id n hn
      simp only [hn] at this
      exact get_unit.1 this
  · rintro ⟨h1, h2⟩
    refine ⟨?_, ?_⟩
    · rintro ⟨e, id⟩ u hb
      obtain ⟨n, hn, hne⟩ := h1 e id (by cases u; exact hb)
      simp only [hn]; simpa using hne
    · intro id n hn
      simp only [hn]
      exact get_unit.2 (h2 id n hn)

theorem rtByEntityB_iff (s : State) : rtByEntityB s = true ↔
    (∀ e r, s.rtByEntity.get (e, r) = some () → ∃ rt, s.runtimes.get r = some rt ∧ rt.entity = e) ∧
    (∀ r rt, s.runtimes.get r = some rt → s.rtByEntity.get (rt.entity, r) = some ()) := by
  unfold rtByEntityB
  rw [Bool.and_eq_true, all_keys_iff, all_keys_iff]
  constructor
  · rintro ⟨h1, h2⟩
    refine ⟨?_, ?_⟩
    · intro e r hb
      have := h1 (e, r) () hb
      cases hn : s.runtimes.get r with
      | none => simp [hn] at this
      | some n => simp only [hn] at this; exact ⟨n, rfl, by simpa using this⟩
    · intro r rt hn
      have := h2 r rt hn
      simp only [hn] at this
      exact get_unit.1 this
  · rintro ⟨h1, h2⟩
    refine ⟨?_, ?_⟩
    · rintro ⟨e, r⟩ u hb
      obtain ⟨n, hn, hne⟩ := h1 e r (by cases u; exact hb)
      simp only [hn]; simpa using hne
    · intro r rt hn
      simp only [hn]
      exact get_unit.2 (h2 r rt hn)

theorem recordsB_iff (s : State) : recordsB s = true ↔
    (∀ id n, s.nodes.get id = some n → n.id = id ∧ hasDup (subKeys n) = false) ∧
    (∀ r rt, s.runtimes.get r = some rt → rt.id = r) := by
  unfold recordsB
  rw [Bool.and_eq_true, all_keys_iff, all_keys_iff]
  constructor
  · rintro ⟨h1, h2⟩
    refine ⟨?_, ?_⟩
    · intro id n hn
      have := h1 id n hn
      simpa [hn] using this
    · intro r rt hr
      have := h2 r rt hr
      simpa [hr] using this
  · rintro ⟨h1, h2⟩
    refine ⟨?_, ?_⟩
    · intro id n hn
      simpa [hn] using h1 id n hn
    · intro r rt hr
      simpa [hr] using h2 r rt hr

theorem indexInvB_iff (s : State) : indexInvB s = true ↔ IndexInv s := by
  unfold indexInvB
  simp only [Bool.and_eq_true, keyMapSoundB_iff, keyMapCompleteB_iff, consAddrSoundB_iff, consAddrCompleteB_iff,
    byEntityB_iff, rtByEntityB_iff, recordsB_iff]
  constructor
  · rintro ⟨⟨⟨⟨⟨⟨a, b⟩, c⟩, d⟩, e1, e2⟩, f1, f2⟩, g1, g2⟩
    exact ⟨fun id n h => (g1 id n h).1, fun id n h => (g1 id n h).2, a, b, c, d, e1, e2, g2, f1, f2⟩
  · intro h
    exact ⟨⟨⟨⟨⟨⟨h.km_sound, h.km_compl⟩, h.ca_sound⟩, h.ca_compl⟩, h.be_sound, h.be_compl⟩, h.rbe_sound, h.rbe_compl⟩,
      fun id n hn => ⟨h.node_id id n hn, h.sub_nodup id n hn⟩, h.rt_id⟩

theorem impliedB_iff (s : State) (a : Addr) (c : Claim) (ths : List Thr) :
    impliedB s a c ths = true ↔ Implied s a ths c := by
  cases c with
  | entity =>
    cases a with
    | ent e =>
      simp only [impliedB, Implied, Bool.and_eq_true, has_eq_true, beq_iff_eq]
      constructor
      · rintro ⟨⟨ws, h⟩, ht⟩; exact ⟨e, ws, rfl, h, ht⟩
      · rintro ⟨e', ws, he, h, ht⟩; cases he; exact ⟨⟨ws, h⟩, ht⟩
    | rt r =>
      simp only [impliedB, Implied]
      constructor
      · intro h; cases h
      · rintro ⟨e', ws, he, _⟩; cases he
  | node id =>
    simp only [impliedB, Implied]
    cases hn : s.nodes.get id with
    | none => simp
    | some n => simp
  | runtime r =>
    simp only [impliedB, Implied]
    cases hn : s.runtimes.get r with
    | none => simp
    | some rt => simp

theorem claimsB_iff (s : State) : claimsB s = true ↔
    (∀ a c ths, s.claims.get (a, c) = some ths → Implied s a ths c) ∧
    (∀ a c ths, Implied s a ths c → s.claims.get (a, c) = some ths) := by
  unfold claimsB
  simp only [Bool.and_eq_true]
  rw [all_keys_iff, all_keys_iff, all_keys_iff, all_keys_iff]
  constructor
  · rintro ⟨⟨⟨h1, h2⟩, h3⟩, h4⟩
    refine ⟨?_, ?_⟩
    · intro a c ths hc
      have := h1 (a, c) ths hc
      simp only [hc] at this
      exact (impliedB_iff s a c ths).1 this
    · intro a c ths hi
      cases c with
      | entity =>
        obtain ⟨e, ws, rfl, hw, rfl⟩ := hi
        simpa using h2 e ws hw
      | node id =>
        obtain ⟨n, hn, rfl, rfl⟩ := hi
        have := h3 id n hn
        simp only [hn] at this
        simpa using this
      | runtime r =>
        obtain ⟨rt, hr, ha, rfl⟩ := hi
        have := h4 r rt hr
        simp only [hr, ha] at this
        simpa using this
  · rintro ⟨h1, h2⟩
    refine ⟨⟨⟨?_, ?_⟩, ?_⟩, ?_⟩
    · rintro ⟨a, c⟩ ths hc
      simp only [hc]
      exact (impliedB_iff s a c ths).2 (h1 a c ths hc)
    · intro e ws hw
      simpa using h2 (.ent e) .entity [Thr.entity] ⟨e, ws, rfl, hw, rfl⟩
    · intro id n hn
      simp only [hn]
      simpa using h2 (.ent n.entity) (.node id) (nodeThr n) ⟨n, hn, rfl, rfl⟩
    · intro r rt hr
      simp only [hr]
      cases ha : rt.stakingAddr with
      | none => rfl
      | some a => simpa using h2 a (.runtime r) (rtThr rt) ⟨rt, hr, ha, rfl⟩

theorem statusB_iff (s : State) : statusB s = true ↔
    ∀ id n, s.nodes.get id = some n → ∃ st, s.status.get id = some st := by
  unfold statusB
  rw [all_keys_iff]
  simp only [has_eq_true]

/-- The executable invariant says exactly what the propositional one says. -/
theorem invB_iff (s : State) : invB s = true ↔ InvL s := by
  unfold invB
  simp only [Bool.and_eq_true, indexInvB_iff, claimsB_iff, statusB_iff]
  constructor
  · rintro ⟨⟨h1, h2, h3⟩, h4⟩; exact ⟨h1, h2, h3, h4⟩
  · intro h; exact ⟨⟨h.toIndexInv, h.cl_sound, h.cl_compl⟩, h.st_nodes⟩

end OasisProofs.Registry
