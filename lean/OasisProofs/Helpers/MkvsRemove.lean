import OasisProofs.Helpers.MkvsTrie
/-
`doRemove` on the MKVS trie model: canonical form preserved (collapse of single-child nodes, label
merge), contents change as in a map, previous value returned, `changed` flag.
-/
namespace OasisProofs.Mkvs
open OasisModel.Mkvs

theorem wfAt_node_merge {p lab lab2 : Bits} {lf : Option (Bytes × Bytes)} {l r : Trie}
    (h : WFAt (p ++ lab) (.node lab2 lf l r)) : WFAt p (.node (lab ++ lab2) lf l r) := by
  simpa [WFAt, List.append_assoc] using h

theorem wfAt_prependLabel {p lab : Bits} {b : Bool} {t : Trie} (h : WFAt (p ++ lab) t)
    (hb : t.AllKeys (fun k => (p ++ lab) ++ [b] <+: toBits k)) : WFAt p (t.prependLabel lab) := by
  cases t with
  | nil => trivial
  | leaf k v =>
    show p <+: toBits k
    have := hb (k, v) (by simp [Trie.toList])
    exact List.IsPrefix.trans (by simp [List.append_assoc]) this
  | node lab2 lf l r => exact wfAt_node_merge h

theorem toList_prependLabel (lab : Bits) (t : Trie) : (t.prependLabel lab).toList = t.toList := by
  cases t <;> rfl

theorem isNil_iff_toList {p : Bits} {t : Trie} (h : WFAt p t) : t.isNil = true ↔ t.toList = [] := by
  constructor
  · intro hn; rw [isNil_iff.1 hn]; rfl
  · intro he
    cases t with
    | nil => rfl
    | leaf k v => simp [Trie.toList] at he
    | node lab lf l r => exact absurd he (wfAt_toList_ne_nil h (by simp))

theorem collapse_spec {p lab : Bits} {lf : Option (Bytes × Bytes)} {l r : Trie} (c : Bool)
    (hlf : ∀ kv, lf = some kv → toBits kv.1 = p ++ lab)
    (hl : WFAt (p ++ lab) l) (hlb : l.AllKeys (fun k => (p ++ lab) ++ [false] <+: toBits k))
    (hr : WFAt (p ++ lab) r) (hrb : r.AllKeys (fun k => (p ++ lab) ++ [true] <+: toBits k)) :
    WFAt p (Trie.collapse lab lf l r c).1 ∧
    (∀ kv, kv ∈ (Trie.collapse lab lf l r c).1.toList ↔ (lf = some kv ∨ kv ∈ l.toList ∨ kv ∈ r.toList)) ∧
    (c = true → (Trie.collapse lab lf l r c).2 = true) ∧
    (2 ≤ lf.isSome.toNat + (!l.isNil).toNat + (!r.isNil).toNat →
      Trie.collapse lab lf l r c = (.node lab lf l r, c)) := by
  have hnode : ∀ (h : 2 ≤ lf.isSome.toNat + (!l.isNil).toNat + (!r.isNil).toNat),
      WFAt p (.node lab lf l r) := fun h => ⟨hlf, hl, hlb, hr, hrb, h⟩
  rcases lf with _ | ⟨k1, v1⟩
  · -- no own leaf
    cases r with
    | nil =>
      have e : Trie.collapse lab none l .nil c = (l.prependLabel lab, true) := by
        cases l <;> rfl
      rw [e]
      refine ⟨wfAt_prependLabel hl hlb, ?_, fun _ => rfl, ?_⟩
      · intro kv; simp [toList_prependLabel, Trie.toList]
      · intro h; cases l <;> simp [Trie.isNil] at h
    | leaf kr vr =>
      cases l with
      | nil =>
        refine ⟨wfAt_prependLabel (t := .leaf kr vr) hr hrb, ?_, fun _ => rfl, ?_⟩
        · intro kv; simp [Trie.collapse, Trie.prependLabel, Trie.toList]
        · intro h; simp [Trie.isNil] at h
      | leaf kl vl =>
        refine ⟨hnode (by simp [Trie.isNil]), ?_, ?_, fun _ => rfl⟩
        · intro kv; simp [Trie.collapse, mem_toList_node]
        · intro h; simp [Trie.collapse, h]
      | node a b c' d =>
        refine ⟨hnode (by simp [Trie.isNil]), ?_, ?_, fun _ => rfl⟩
        · intro kv; simp [Trie.collapse, mem_toList_node]
        · intro h; simp [Trie.collapse, h]
    | node a b c' d =>
      cases l with
      | nil =>
        refine ⟨wfAt_prependLabel (t := .node a b c' d) hr hrb, ?_, fun _ => rfl, ?_⟩
        · intro kv
          simp only [Trie.collapse, toList_prependLabel]
          simp [Trie.toList]
        · intro h; simp [Trie.isNil] at h
      | leaf kl vl =>
        refine ⟨hnode (by simp [Trie.isNil]), ?_, ?_, fun _ => rfl⟩
        · intro kv; simp [Trie.collapse, mem_toList_node]
        · intro h; simp [Trie.collapse, h]
      | node a2 b2 c2 d2 =>
        refine ⟨hnode (by simp [Trie.isNil]), ?_, ?_, fun _ => rfl⟩
        · intro kv; simp [Trie.collapse, mem_toList_node]
        · intro h; simp [Trie.collapse, h]
  · -- own leaf present
    by_cases hboth : l = .nil ∧ r = .nil
    · obtain ⟨h1, h2⟩ := hboth
      subst h1 h2
      refine ⟨?_, ?_, fun _ => rfl, ?_⟩
      · show p <+: toBits k1
        have := hlf (k1, v1) rfl
        simp only at this
        rw [this]; exact List.prefix_append _ _
      · intro kv; simp [Trie.collapse, Trie.toList, eq_comm]
      · intro h; simp [Trie.isNil] at h
    · have hc : 2 ≤ (some (k1, v1)).isSome.toNat + (!l.isNil).toNat + (!r.isNil).toNat := by
        cases l <;> cases r <;> simp [Trie.isNil] at hboth ⊢
      have e : Trie.collapse lab (some (k1, v1)) l r c = (.node lab (some (k1, v1)) l r, c) := by
        cases l <;> cases r <;> simp [Trie.collapse] at hboth ⊢
      rw [e]
      refine ⟨hnode hc, ?_, fun h => h, fun _ => rfl⟩
      intro kv; simp [mem_toList_node]


/-- The statement proved for `removeAux` by induction. -/
def RemoveSpec (k : Bytes) (p : Bits) (t : Trie) (res : Trie × Bool × Option Bytes) : Prop :=
  WFAt p res.1 ∧
  (∀ kv, kv ∈ res.1.toList ↔ (kv ∈ t.toList ∧ kv.1 ≠ k)) ∧
  (∀ v, res.2.2 = some v ↔ (k, v) ∈ t.toList) ∧
  (res.2.1 = true ↔ ∃ v, (k, v) ∈ t.toList)

theorem ne_of_bit_drop {q rest : Bits} {b : Bool} {k k' : Bytes}
    (hk : (toBits k).drop q.length = b :: rest) (hk' : q ++ [!b] <+: toBits k') : k' ≠ k := by
  intro h; subst h
  obtain ⟨t, ht⟩ := hk'
  rw [← ht] at hk
  simp at hk

theorem length_of_ext {q : Bits} {b : Bool} {k : Bytes} (h : q ++ [b] <+: toBits k) :
    q.length + 1 ≤ (toBits k).length := by
  have := h.length_le
  simpa using this

/-- Main lemma for `doRemove`. -/
theorem removeAux_spec (k : Bytes) (t : Trie) :
    ∀ (p : Bits), WFAt p t → RemoveSpec k p t (t.removeAux k p.length) := by
  induction t with
  | nil =>
    intro p _
    refine ⟨trivial, ?_, ?_, ?_⟩ <;> simp [Trie.removeAux, Trie.toList]
  | leaf k' v' =>
    intro p hwf
    by_cases hkk : k' = k
    · subst hkk
      simp only [Trie.removeAux, if_true]
      refine ⟨trivial, ?_, ?_, ?_⟩
      · intro kv; rw [mem_toList_leaf]; simp only [Trie.toList, List.not_mem_nil, false_iff]
        rintro ⟨h, h2⟩; subst h; exact h2 rfl
      · intro v; simp [mem_toList_leaf, eq_comm]
      · simp [mem_toList_leaf]
    · simp only [Trie.removeAux, if_neg hkk]
      refine ⟨hwf, ?_, ?_, ?_⟩
      · intro kv; simp only [mem_toList_leaf]
        constructor
        · intro h; subst h; exact ⟨rfl, hkk⟩
        · exact fun h => h.1
      · intro v; simp only [mem_toList_leaf, reduceCtorEq, false_iff]
        intro h; injection h with h1 _; exact hkk h1.symm
      · simp only [mem_toList_leaf, Bool.false_eq_true, false_iff]
        rintro ⟨v, h⟩; injection h with h1 _; exact hkk h1.symm
  | node lab lf l r ihl ihr =>
    intro p hwf
    obtain ⟨hlf, hl, hlb, hr, hrb, hc⟩ := hwf
    have hwf : WFAt p (.node lab lf l r) := ⟨hlf, hl, hlb, hr, hrb, hc⟩
    have hlen : (p ++ lab).length = p.length + lab.length := List.length_append
    have hlfl : ∀ kv, lf = some kv → (toBits kv.1).length = p.length + lab.length := by
      intro kv h; rw [hlf kv h, hlen]
    have hll : ∀ kv ∈ l.toList, p.length + lab.length + 1 ≤ (toBits kv.1).length := by
      intro kv h; have := length_of_ext (hlb kv h); omega
    have hrl : ∀ kv ∈ r.toList, p.length + lab.length + 1 ≤ (toBits kv.1).length := by
      intro kv h; have := length_of_ext (hrb kv h); omega
    simp only [Trie.removeAux]
    by_cases h1 : (toBits k).length < p.length + lab.length
    · -- key too short
      rw [if_pos h1]
      have hne : ∀ kv ∈ (Trie.node lab lf l r).toList, kv.1 ≠ k := by
        intro kv hkv hk
        rcases mem_toList_node.1 hkv with h | h | h
        · have := hlfl kv h; rw [hk] at this; omega
        · have := hll kv h; rw [hk] at this; omega
        · have := hrl kv h; rw [hk] at this; omega
      refine ⟨hwf, ?_, ?_, ?_⟩
      · intro kv; exact ⟨fun h => ⟨h, hne kv h⟩, fun h => h.1⟩
      · intro v; simp only [reduceCtorEq, false_iff]; intro h; exact hne _ h rfl
      · simp only [Bool.false_eq_true, false_iff]; rintro ⟨v, h⟩; exact hne _ h rfl
    rw [if_neg h1]
    by_cases h2 : (toBits k).length = p.length + lab.length
    · -- key ends at this node
      rw [if_pos h2]
      have hnl : ∀ kv ∈ l.toList, kv.1 ≠ k := by
        intro kv h hk; have := hll kv h; rw [hk] at this; omega
      have hnr : ∀ kv ∈ r.toList, kv.1 ≠ k := by
        intro kv h hk; have := hrl kv h; rw [hk] at this; omega
      rcases lf with _ | ⟨k', v'⟩
      · obtain ⟨cw, cm, _, ce⟩ := collapse_spec (p := p) (lf := none) false hlf hl hlb hr hrb
        have ce := ce hc
        have hne : ∀ kv ∈ (Trie.node lab none l r).toList, kv.1 ≠ k := by
          intro kv hkv
          rcases mem_toList_node.1 hkv with h | h | h
          · simp at h
          · exact hnl kv h
          · exact hnr kv h
        simp only []
        rw [ce]
        refine ⟨hwf, ?_, ?_, ?_⟩
        · intro kv; exact ⟨fun h => ⟨h, hne kv h⟩, fun h => h.1⟩
        · intro v; simp only [reduceCtorEq, false_iff]; intro h; exact hne _ h rfl
        · simp only [Bool.false_eq_true, false_iff]; rintro ⟨v, h⟩; exact hne _ h rfl
      · by_cases hkk : k' = k
        · subst hkk
          simp only [if_true]
          obtain ⟨cw, cm, ct, _⟩ := collapse_spec (p := p) (lab := lab) (lf := none) true
            (by intro kv h; simp at h) hl hlb hr hrb
          refine ⟨cw, ?_, ?_, ?_⟩
          · intro kv
            rw [cm, mem_toList_node]
            constructor
            · rintro (h | h | h)
              · simp at h
              · exact ⟨Or.inr (Or.inl h), hnl kv h⟩
              · exact ⟨Or.inr (Or.inr h), hnr kv h⟩
            · rintro ⟨h | h | h, hne⟩
              · injection h with h; subst h; exact absurd rfl hne
              · exact Or.inr (Or.inl h)
              · exact Or.inr (Or.inr h)
          · intro v
            rw [mem_toList_node]
            constructor
            · intro h; injection h with h; subst h; exact Or.inl rfl
            · rintro (h | h | h)
              · injection h with h; injection h with _ h; rw [h]
              · exact absurd rfl (hnl _ h)
              · exact absurd rfl (hnr _ h)
          · simp only [ct rfl, true_iff]
            exact ⟨v', mem_toList_node.2 (Or.inl rfl)⟩
        · simp only [if_neg hkk]
          obtain ⟨cw, cm, _, ce⟩ := collapse_spec (p := p) (lf := some (k', v')) false hlf hl hlb hr hrb
          have ce := ce hc
          have hne : ∀ kv ∈ (Trie.node lab (some (k', v')) l r).toList, kv.1 ≠ k := by
            intro kv hkv
            rcases mem_toList_node.1 hkv with h | h | h
            · injection h with h; subst h; exact hkk
            · exact hnl kv h
            · exact hnr kv h
          rw [ce]
          refine ⟨hwf, ?_, ?_, ?_⟩
          · intro kv; exact ⟨fun h => ⟨h, hne kv h⟩, fun h => h.1⟩
          · intro v; simp only [reduceCtorEq, false_iff]; intro h; exact hne _ h rfl
          · simp only [Bool.false_eq_true, false_iff]; rintro ⟨v, h⟩; exact hne _ h rfl
    · -- descend by the next bit
      rw [if_neg h2]
      have h3 : p.length + lab.length < (toBits k).length := by omega
      have hlfne : ∀ kv, lf = some kv → kv.1 ≠ k := by
        intro kv h hk; have := hlfl kv h; rw [hk] at this; omega
      obtain ⟨b, rest, hdrop⟩ : ∃ b rest, (toBits k).drop (p.length + lab.length) = b :: rest := by
        cases hd : (toBits k).drop (p.length + lab.length) with
        | nil =>
          have := congrArg List.length hd
          simp at this; omega
        | cons b rest => exact ⟨b, rest, rfl⟩
      have hdrop' : (toBits k).drop (p ++ lab).length = b :: rest := by rw [hlen]; exact hdrop
      rw [hdrop]
      cases b
      · -- left
        simp only []
        obtain ⟨iw, im, iv, ic⟩ := ihl (p ++ lab) hl
        rw [hlen] at iw im iv ic
        have hnr : ∀ kv ∈ r.toList, kv.1 ≠ k := fun kv h => ne_of_bit_drop hdrop' (hrb kv h)
        have hlb' : (l.removeAux k (p.length + lab.length)).1.AllKeys
            (fun k => (p ++ lab) ++ [false] <+: toBits k) := fun kv h => hlb kv ((im kv).1 h).1
        obtain ⟨cw, cm, ct, ce⟩ := collapse_spec (p := p) (lf := lf)
          (l.removeAux k (p.length + lab.length)).2.1 hlf iw hlb' hr hrb
        refine ⟨cw, ?_, ?_, ?_⟩
        · intro kv
          rw [cm, mem_toList_node, im]
          constructor
          · rintro (h | ⟨h, hne⟩ | h)
            · exact ⟨Or.inl h, hlfne kv h⟩
            · exact ⟨Or.inr (Or.inl h), hne⟩
            · exact ⟨Or.inr (Or.inr h), hnr kv h⟩
          · rintro ⟨h | h | h, hne⟩
            · exact Or.inl h
            · exact Or.inr (Or.inl ⟨h, hne⟩)
            · exact Or.inr (Or.inr h)
        · intro v
          rw [iv, mem_toList_node]
          constructor
          · intro h; exact Or.inr (Or.inl h)
          · rintro (h | h | h)
            · exact absurd rfl (hlfne _ h)
            · exact h
            · exact absurd rfl (hnr _ h)
        · by_cases hex : ∃ v, (k, v) ∈ l.toList
          · have : (l.removeAux k (p.length + lab.length)).2.1 = true := ic.2 hex
            rw [ct this]
            obtain ⟨v, hv⟩ := hex
            simp only [true_iff]
            exact ⟨v, mem_toList_node.2 (Or.inr (Or.inl hv))⟩
          · have hf : (l.removeAux k (p.length + lab.length)).2.1 = false := by
              cases hh : (l.removeAux k (p.length + lab.length)).2.1
              · rfl
              · exact absurd (ic.1 hh) hex
            have hsame : ∀ kv, kv ∈ (l.removeAux k (p.length + lab.length)).1.toList ↔ kv ∈ l.toList := by
              intro kv; rw [im]
              exact ⟨fun h => h.1, fun h => ⟨h, fun hk => hex ⟨kv.2, by rw [← hk]; exact h⟩⟩⟩
            have hnil : (l.removeAux k (p.length + lab.length)).1.isNil = l.isNil := by
              have e1 := isNil_iff_toList iw
              have e2 := isNil_iff_toList hl
              have e3 : (l.removeAux k (p.length + lab.length)).1.toList = [] ↔ l.toList = [] := by
                constructor
                · intro h; apply List.eq_nil_iff_forall_not_mem.2; intro kv hkv
                  have := (hsame kv).2 hkv; rw [h] at this; simp at this
                · intro h; apply List.eq_nil_iff_forall_not_mem.2; intro kv hkv
                  have := (hsame kv).1 hkv; rw [h] at this; simp at this
              cases h5 : (l.removeAux k (p.length + lab.length)).1.isNil <;> cases h6 : l.isNil <;> simp_all
            have ce := ce (by rw [hnil]; exact hc)
            rw [ce, hf]
            simp only [Bool.false_eq_true, false_iff]
            rintro ⟨v, hv⟩
            rcases mem_toList_node.1 hv with h | h | h
            · exact hlfne _ h rfl
            · exact hex ⟨v, h⟩
            · exact hnr _ h rfl
      · -- right
        simp only []
        obtain ⟨iw, im, iv, ic⟩ := ihr (p ++ lab) hr
        rw [hlen] at iw im iv ic
        have hnl : ∀ kv ∈ l.toList, kv.1 ≠ k := fun kv h => ne_of_bit_drop (b := true) hdrop' (hlb kv h)
        have hrb' : (r.removeAux k (p.length + lab.length)).1.AllKeys
            (fun k => (p ++ lab) ++ [true] <+: toBits k) := fun kv h => hrb kv ((im kv).1 h).1
        obtain ⟨cw, cm, ct, ce⟩ := collapse_spec (p := p) (lf := lf)
          (r.removeAux k (p.length + lab.length)).2.1 hlf hl hlb iw hrb'
        refine ⟨cw, ?_, ?_, ?_⟩
        · intro kv
          rw [cm, mem_toList_node, im]
          constructor
          · rintro (h | h | ⟨h, hne⟩)
            · exact ⟨Or.inl h, hlfne kv h⟩
            · exact ⟨Or.inr (Or.inl h), hnl kv h⟩
            · exact ⟨Or.inr (Or.inr h), hne⟩
          · rintro ⟨h | h | h, hne⟩
            · exact Or.inl h
            · exact Or.inr (Or.inl h)
            · exact Or.inr (Or.inr ⟨h, hne⟩)
        · intro v
          rw [iv, mem_toList_node]
          constructor
          · intro h; exact Or.inr (Or.inr h)
          · rintro (h | h | h)
            · exact absurd rfl (hlfne _ h)
            · exact absurd rfl (hnl _ h)
            · exact h
        · by_cases hex : ∃ v, (k, v) ∈ r.toList
          · have : (r.removeAux k (p.length + lab.length)).2.1 = true := ic.2 hex
            rw [ct this]
            obtain ⟨v, hv⟩ := hex
            simp only [true_iff]
            exact ⟨v, mem_toList_node.2 (Or.inr (Or.inr hv))⟩
          · have hf : (r.removeAux k (p.length + lab.length)).2.1 = false := by
              cases hh : (r.removeAux k (p.length + lab.length)).2.1
              · rfl
              · exact absurd (ic.1 hh) hex
            have hsame : ∀ kv, kv ∈ (r.removeAux k (p.length + lab.length)).1.toList ↔ kv ∈ r.toList := by
              intro kv; rw [im]
              exact ⟨fun h => h.1, fun h => ⟨h, fun hk => hex ⟨kv.2, by rw [← hk]; exact h⟩⟩⟩
            have hnil : (r.removeAux k (p.length + lab.length)).1.isNil = r.isNil := by
              have e1 := isNil_iff_toList iw
              have e2 := isNil_iff_toList hr
              have e3 : (r.removeAux k (p.length + lab.length)).1.toList = [] ↔ r.toList = [] := by
                constructor
                · intro h; apply List.eq_nil_iff_forall_not_mem.2; intro kv hkv
                  have := (hsame kv).2 hkv; rw [h] at this; simp at this
                · intro h; apply List.eq_nil_iff_forall_not_mem.2; intro kv hkv
                  have := (hsame kv).1 hkv; rw [h] at this; simp at this
              cases h5 : (r.removeAux k (p.length + lab.length)).1.isNil <;> cases h6 : r.isNil <;> simp_all
            have ce := ce (by rw [hnil]; exact hc)
            rw [ce, hf]
            simp only [Bool.false_eq_true, false_iff]
            rintro ⟨v, hv⟩
            rcases mem_toList_node.1 hv with h | h | h
            · exact hlfne _ h rfl
            · exact hnl _ h rfl
            · exact hex ⟨v, h⟩

end OasisProofs.Mkvs
