import OasisModel.Tee.PolicyFlow
/-
Generic lemmas about the outcome monad `Res` of `OasisModel.Tee.PolicyFlow` (used by `Props/C16PolicyFlow`).
-/
namespace OasisProofs.Tee.PolicyFlow
open OasisModel.Tee.PolicyFlow

/-- The outcome is not a nil dereference (it is a value or a Go error). -/
def NoNil {α : Type} (r : Res α) : Prop := ∀ s, r ≠ .nilDeref s

@[simp] theorem noNil_ok {α : Type} (a : α) : NoNil (Res.ok a) := by intro s h; cases h
@[simp] theorem noNil_err {α : Type} (e : Err) : NoNil (Res.err e : Res α) := by intro s h; cases h
@[simp] theorem noNil_pure {α : Type} (a : α) : NoNil (pure a : Res α) := noNil_ok a
@[simp] theorem not_noNil_nilDeref {α : Type} (s : Site) : ¬ NoNil (Res.nilDeref s : Res α) :=
  fun h => h s rfl

theorem noNil_iff_isNilDeref {α : Type} (r : Res α) : NoNil r ↔ r.isNilDeref = false := by
  cases r <;> simp [Res.isNilDeref]

@[simp] theorem bind_eq {α β : Type} (r : Res α) (f : α → Res β) : (r >>= f) = r.bind f := rfl
@[simp] theorem pure_eq {α : Type} (a : α) : (pure a : Res α) = .ok a := rfl
@[simp] theorem ok_bind {α β : Type} (a : α) (f : α → Res β) : (Res.ok a).bind f = f a := rfl
@[simp] theorem err_bind {α β : Type} (e : Err) (f : α → Res β) : (Res.err e).bind f = .err e := rfl
@[simp] theorem nil_bind {α β : Type} (s : Site) (f : α → Res β) :
    (Res.nilDeref s).bind f = .nilDeref s := rfl

/-- A sequence does not panic iff its head does not and, whenever the head returns a value, neither does the
rest. -/
theorem noNil_bind {α β : Type} (r : Res α) (f : α → Res β) :
    NoNil (r.bind f) ↔ NoNil r ∧ ∀ a, r = .ok a → NoNil (f a) := by
  cases r with
  | ok a => simp
  | err e => simp
  | nilDeref s => simp

theorem noNil_bind_of {α β : Type} {r : Res α} {f : α → Res β}
    (hr : NoNil r) (hf : ∀ a, r = .ok a → NoNil (f a)) : NoNil (r.bind f) :=
  (noNil_bind r f).2 ⟨hr, hf⟩

theorem noNil_ite {α : Type} (c : Prop) [Decidable c] (a b : Res α) :
    NoNil (if c then a else b) ↔ (c → NoNil a) ∧ (¬ c → NoNil b) := by
  by_cases h : c <;> simp [h]

/-- A dereference of a pointer known to be present. -/
@[simp] theorem deref_some {α : Type} (s : Site) (a : α) : deref s (some a) = .ok a := rfl
@[simp] theorem deref_none {α : Type} (s : Site) : deref s (none : Option α) = .nilDeref s := rfl
@[simp] theorem field_some {α β : Type} (s : Site) (a : α) (v : β) : field s (some a) v = .ok v := rfl
@[simp] theorem field_none {α β : Type} (s : Site) (v : β) :
    field s (none : Option α) v = .nilDeref s := rfl

theorem noNil_deref_iff {α : Type} (s : Site) (p : Option α) : NoNil (deref s p) ↔ p.isSome = true := by
  cases p <;> simp

theorem noNil_field_iff {α β : Type} (s : Site) (p : Option α) (v : β) :
    NoNil (field s p v) ↔ p.isSome = true := by
  cases p <;> simp

/-- Case analysis over the `if`/`match` tree of a model function: close a leaf by `simp`, otherwise split the
outermost conditional, otherwise simplify (`ok`-binds, known guards) and go on. -/
macro "res_ifs" : tactic => `(tactic| (repeat' (first | (simp; done) | split | simp)))

end OasisProofs.Tee.PolicyFlow
